// C10 part 1 — process-history independence.
// The worker process itself NEVER calls the library: every library call happens in a forked child, so a child that
// makes the observed call first is a pristine process (only static initialisation has run).
//   reference : child A makes the observed call first; digest through a pipe
//   history   : child B runs a random prefix of 1..25 calls (catalogue + failing calls), then the observed call
//   digests must be equal; on mismatch (or death of B only) the prefix is delta-debugged (one child per trial) and
//   the key names the remaining prefix call(s) and the observed call.
// Documented global options are never set by a prefix; their public getters are read before/after every prefix call
// and a call that leaves one changed is reported (the random seed after a random procedure is documented state).
#include "common/vh.hpp"
#include "common/c10_util.hpp"
#include "common/c10_catalogue.hpp"
using namespace vh;
using c10c::Call;

struct Step
{
  int id;
  uint64_t seed;
  int lseed = 0; // seed ARGUMENT forced on the random procedures of this call (0: drawn; -1: the process's initial seed)
};
// the whole case (reference child and history child alike) runs with law_set_old_style(false): a documented option
static bool g_newStyle = false;

static std::string runObserved(const Step& s)
{
  c10c::forcedSeed() = s.lseed;
  Rng q(s.seed);
  return c10c::catalogue()[s.id].fn(q);
}

// child body: prefix (with option monitoring when asked) then the observed call; payload = digest of the observed call
static c10::Child runHistory(const std::vector<Step>& prefix, const Step& obs, bool watchOptions)
{
  return c10::run_child([&]() -> std::string {
    const auto& C = c10c::catalogue();
    c10c::initialSeed() = law_get_random_seed();
    if (g_newStyle) law_set_old_style(false);
    for (size_t i = 0; i < prefix.size(); i++)
    {
      c10::progress("@" + std::to_string(i) + "\n");
      std::vector<std::pair<std::string, std::string>> before;
      if (watchOptions) before = c10c::globalOptions();
      std::string res;
      try
      {
        res = runObserved(prefix[i]);
      }
      catch (const std::exception& e)
      {
        res = std::string("EXC:") + e.what();
        c10::progress("X" + std::to_string(i) + " " + e.what() + "\n");
      }
      if (watchOptions)
      {
        auto after = c10c::globalOptions();
        for (size_t k = 0; k < before.size() && k < after.size(); k++)
          if (before[k].second != after[k].second)
          {
            if (before[k].first == "law_get_random_seed" && C[prefix[i].id].random) continue; // documented state
            c10::progress("O" + std::to_string(i) + " " + before[k].first + " " + before[k].second + " -> " + after[k].second + "\n");
          }
      }
    }
    c10::progress("@obs\n");
    return runObserved(obs);
  }, 300.0);
}

static std::string prefixNames(const std::vector<Step>& p)
{
  std::string s;
  for (auto& e : p) s += (s.empty() ? "" : ",") + std::string(c10c::catalogue()[e.id].name);
  return s;
}

static void run_case(Rng& r, Ctx& c)
{
  const auto& C = c10c::catalogue();
  int nobs      = c10c::nObserved();
  Step obs{r.irange(0, nobs - 1), r.next()};
  int L = 1 + (int)(-std::log(1. - r.u01()) * 7.);
  if (L > 25) L = 25;
  // Seeded histories: the generator style is a documented option set for the WHOLE case; several calls of the history
  // are given the same seed argument as the observed call (a repeated seed must restart the stream)
  g_newStyle     = r.coin(0.35);
  bool forceCase = g_newStyle || r.coin(0.2);
  int S          = r.coin(0.1) ? -1 : r.irange(1, 100000);
  std::vector<int> randomIds, singleSeedIds;
  for (int i = 0; i < nobs; i++)
    if (C[i].random) { randomIds.push_back(i); if (std::string(C[i].name) != "db-random") singleSeedIds.push_back(i); }
  if (forceCase)
  {
    if (r.coin(0.8)) obs.id = r.pick(randomIds);
    obs.lseed = S;
  }
  std::vector<Step> prefix;
  int nfailing = 0;
  for (int i = 0; i < L; i++)
  {
    int id;
    double u = r.u01();
    if (u < 0.25) id = obs.id;                                   // same kind of call on other objects
    else if (u < 0.50) id = r.irange(nobs, (int)C.size() - 1);   // a failing call
    else id = r.irange(0, nobs - 1);
    Step st{id, r.next()};
    if (forceCase && C[id].random && r.coin(0.6)) st.lseed = S;
    prefix.push_back(st);
  }
  if (forceCase && r.coin(0.6))
  {
    // the call just before the observed one seeds with the same value
    Step st{r.coin() && C[obs.id].random ? obs.id : r.pick(singleSeedIds), r.next()};
    st.lseed = S;
    prefix.back() = st;
  }
  for (auto& e : prefix) nfailing += C[e.id].failing;
  c.setSig(std::string("hist:") + C[obs.id].name + (nfailing ? ":with-failing" : "") + (g_newStyle ? ":law-new-style" : "") + (forceCase ? ":same-seed" : ""));
  c.puts("observed", C[obs.id].name);
  c.puts("prefix", prefixNames(prefix));

  // ---- reference: observed call first in its process
  c10::Child A = runHistory({}, obs, false);
  if (!A.ok)
  {
    // the call itself does not survive / throws in a fresh process: not a history matter, reported against the call
    c.truth("hist-reference", std::string("C10:history:observed-call-fails-in-fresh-process:") + C[obs.id].name, false,
            A.why() + " seed=" + std::to_string(obs.seed));
    return;
  }
  c.truth("hist-reference", "-", true);

  // ---- history
  c10::Child B = runHistory(prefix, obs, true);
  // option changes reported by the child
  {
    size_t p = 0;
    while (p < B.progress.size())
    {
      size_t e = B.progress.find('\n', p);
      if (e == std::string::npos) break;
      std::string line = B.progress.substr(p, e - p);
      p = e + 1;
      if (line.size() > 1 && line[0] == 'O')
      {
        int i = atoi(line.c_str() + 1);
        size_t sp = line.find(' ');
        std::string rest = sp == std::string::npos ? "" : line.substr(sp + 1);
        std::string opt  = rest.substr(0, rest.find(' '));
        c.truth("hist-options", std::string("C10:history:global-option-left-changed:") + C[prefix[i].id].name + ":" + opt, false, rest);
      }
    }
    for (size_t i = 0; i < prefix.size(); i++) c.truth("hist-options", "-", true);
  }

  auto lastMarker = [](const c10::Child& ch) -> std::string {
    std::string last;
    size_t p = 0;
    while (p < ch.progress.size())
    {
      size_t e = ch.progress.find('\n', p);
      if (e == std::string::npos) break;
      if (ch.progress[p] == '@') last = ch.progress.substr(p + 1, e - p - 1);
      p = e + 1;
    }
    return last;
  };

  bool same = B.ok && B.data == A.data;
  if (same)
  {
    c.truth("hist-digest", "-", true);
    for (auto& e : prefix) c.probe(std::string("prefix:") + C[e.id].name);
    return;
  }

  // ---- a difference: which part of the prefix is needed?
  std::vector<Step> cur = prefix;
  Step target           = obs;
  std::string nature    = "result-differs";
  const std::string styleTag = g_newStyle ? "law-new-style:" : "";
  if (!B.ok)
  {
    std::string mk = lastMarker(B);
    if (mk != "obs" && !mk.empty())
    {
      // died inside prefix call number mk: is that call deadly by itself?
      int i = atoi(mk.c_str());
      c10::Child alone = runHistory({}, prefix[i], false);
      if (!alone.ok)
      {
        c.truth("hist-digest", std::string("C10:history:call-fails-in-fresh-process:") + C[prefix[i].id].name, false,
                alone.why() + " seed=" + std::to_string(prefix[i].seed));
        return;
      }
      target = prefix[i];
      cur.assign(prefix.begin(), prefix.begin() + i);
    }
    nature = "process-dies";
  }
  std::string refDigest = (target.id == obs.id && target.seed == obs.seed) ? A.data : runHistory({}, target, false).data;
  auto bad = [&](const std::vector<Step>& p) {
    c10::Child t = runHistory(p, target, false);
    if (nature == "process-dies") return !t.ok;
    return t.ok && t.data != refDigest;
  };
  // ddmin
  size_t n = 2;
  while (cur.size() >= 2)
  {
    size_t chunk = (cur.size() + n - 1) / n;
    bool reduced = false;
    for (size_t start = 0; start < cur.size(); start += chunk)
    {
      std::vector<Step> t;
      for (size_t i = 0; i < cur.size(); i++)
        if (i < start || i >= start + chunk) t.push_back(cur[i]);
      if (bad(t)) { cur = t; n = std::max<size_t>(n - 1, 2); reduced = true; break; }
    }
    if (!reduced)
    {
      if (n >= cur.size()) break;
      n = std::min(cur.size(), 2 * n);
    }
  }
  if (cur.size() == 1 && bad({})) cur.clear(); // not reproducible with an empty prefix? (then it is not history)
  std::string guilty = cur.empty() ? "nothing(not-reproducible)" : "";
  {
    // families of the remaining prefix calls, without repetition
    std::vector<std::string> fams;
    for (auto& e : cur) if (std::find(fams.begin(), fams.end(), C[e.id].fam()) == fams.end()) fams.push_back(C[e.id].fam());
    for (auto& f : fams) guilty += (guilty.empty() ? "" : "+") + f;
  }
  std::string seeds;
  for (auto& e : cur) seeds += std::to_string(e.seed) + ",";
  c.truth("hist-digest", "C10:history:" + nature + ":" + styleTag + guilty + "->" + C[target.id].name, false,
          "minimal prefix: " + prefixNames(cur) + " seeds=" + seeds + " observed seed=" + std::to_string(target.seed) + "; full prefix: " + prefixNames(prefix));
}
int main(int argc, char** argv) { return run_main(argc, argv, "C10history", run_case); }
