// C06 — moving-neighbourhood search returns exactly the specified samples; ball-tree k-NN is exact.
// Reference: harness/common/ref_neigh.hpp (the definition, ~100 lines, no gstlearn call).
//
// Two kinds of cases (chosen from the case index so that both are always present):
//   NEIGH : one (point set, search parameters) + several targets; the library's selection is observed through
//           NeighMoving::select (plain and with ball search), KrigingSystem::getSampleIndices, krigtest().nbgh and the
//           test_neigh() columns, and compared AS A SET with the definition.
//   KNN   : one point set + Ball tree (leaf size 1..50) + several queries (k 1..n), compared with brute force.
#include "common/vh.hpp"
#include "common/ref_neigh.hpp"

#include "Basic/OptDbg.hpp"
#include "Basic/VectorNumT.hpp"
#include "Db/Db.hpp"
#include "Enum/ECov.hpp"
#include "Enum/ELoc.hpp"
#include "Enum/ESpaceType.hpp"
#include "Estimation/CalcKriging.hpp"
#include "Estimation/KrigingSystem.hpp"
#include "Geometry/BiTargetCheckBench.hpp"
#include "Geometry/BiTargetCheckCode.hpp"
#include "Geometry/BiTargetCheckDate.hpp"
#include "Geometry/BiTargetCheckFaults.hpp"
#include "Faults/Faults.hpp"
#include "Basic/PolyLine2D.hpp"
#include "Db/DbGrid.hpp"
#include "Model/Model.hpp"
#include "Neigh/NeighMoving.hpp"
#include "Space/ASpaceObject.hpp"
#include "Space/SpacePoint.hpp"
#include "Tree/Ball.hpp"
#include "Tree/KNN.hpp"
#include "geoslib_define.h"

#include <memory>
#include <set>

using namespace vh;
using refn::LD;

// Generator switches for input classes that hit a known defect on (almost) every case (GUIDE rule 2). Default off.
static const bool AVOID_BALL_SEARCH  = false; // never build the ball-search variant of the neighbourhood
static const bool AVOID_NOCOEFF_N2   = false; // never build a coefficient-less search in a space that is not 2-D
static const bool AVOID_DATE_CHECKER = false; // never add a BiTargetCheckDate
static const bool AVOID_BALL_VVD_N_LT_NDIM = false; // never build Ball(VectorVectorDouble) with fewer samples than features

// relative margins (to the radius) below which a target is ambiguous (ties / boundary) and skipped.
// The library itself perturbs the sorted distances by distmax * rank * 1e-9 (NeighMoving.cpp "Slightly modify the
// distances in order to ensure the sorting results"), so two candidates closer than n*1e-9*radius are a tie for it.
static const double TIE_MARGIN = 2e-6;
static const double ANG_MARGIN = 1e-7;

static const char* MCN[] = {"nocoef", "iso", "aniso", "rot"};

struct Scene
{
  int ndim = 2, n = 0, nvar = 1;
  std::vector<refn::Sample> data;
  std::vector<std::vector<double>> z; // [nvar][n], TEST = undefined
  bool hasSel = false, hasCode = false, hasDate = false;
  std::vector<refn::Sample> targets; // separate target set (non-xvalid)
};

static double angleDraw(Rng& r)
{
  static const std::vector<double> special = {0, 30, 45, 90, 120, 180, 270, -30, -90, -135, 360, 60};
  return r.coin(0.5) ? r.pick(special) : r.uni(-180, 360);
}

static void drawScene(Rng& r, Ctx& c, Scene& s, int ndim, bool needCode, bool needDate)
{
  s.ndim       = ndim;
  int nmax     = c.thorough() ? 140 : 50;
  s.n          = r.coin(0.1) ? r.irange(1, 6) : r.irange(6, nmax);
  s.nvar       = r.coin(0.7) ? 1 : 2;
  double field = 100.;
  int layout   = r.irange(0, 2);
  // one scene in four (2-D / 3-D): 'profiles' -- the first coordinate takes a few EXACT values, the others are continuous, so
  // that samples (and the targets placed on a sample) are exactly aligned along the other axes (increment 0 on the first one)
  if (ndim >= 2 && c.icase % 4 == 3) layout = 3;
  std::vector<double> off(ndim, 0.);
  if (r.coin(0.2))
    for (auto& o : off) o = r.uni(-1, 1) * std::pow(10., r.irange(2, 5));
  double minsep = ndim == 1 ? 0.02 : 0.3;
  s.data.assign(s.n, refn::Sample());
  // cluster centres
  std::vector<std::vector<double>> ctr(3, std::vector<double>(ndim));
  for (auto& cc : ctr)
    for (auto& v : cc) v = r.uni(15, 85);
  int ng = std::max(2, (int)std::ceil(std::pow((double)s.n, 1. / ndim)));
  for (int i = 0; i < s.n; i++)
  {
    std::vector<double> x(ndim);
    for (int att = 0; att < 300; att++)
    {
      if (layout == 0)
        for (auto& v : x) v = r.uni(0, field);
      else if (layout == 1)
      {
        const auto& cc = ctr[r.irange(0, 2)];
        for (int d = 0; d < ndim; d++) x[d] = cc[d] + 8. * r.normal();
      }
      else if (layout == 3)
      {
        x[0] = (r.irange(0, ng - 1) + 0.5) * field / ng;
        for (int d = 1; d < ndim; d++) x[d] = r.uni(0, field);
      }
      else
      {
        // jittered grid: systematic alignments, ties broken by the jitter
        for (int d = 0; d < ndim; d++) x[d] = (r.irange(0, ng - 1) + 0.5) * field / ng + r.uni(-0.8, 0.8);
      }
      bool ok = true;
      for (int j = 0; j < i && ok; j++)
      {
        double d2 = 0;
        for (int d = 0; d < ndim; d++) d2 += (x[d] - (s.data[j].x[d] - off[d])) * (x[d] - (s.data[j].x[d] - off[d]));
        ok = d2 > minsep * minsep;
      }
      if (ok) break;
    }
    for (int d = 0; d < ndim; d++) x[d] += off[d];
    s.data[i].x = x;
  }
  // values / undefined pattern
  s.z.assign(s.nvar, std::vector<double>(s.n));
  double pund = r.coin(0.5) ? 0. : r.uni(0.05, 0.4);
  for (int i = 0; i < s.n; i++)
  {
    bool anyDef = false;
    bool allUnd = r.coin(pund);
    for (int v = 0; v < s.nvar; v++)
    {
      bool und  = allUnd || (s.nvar > 1 && r.coin(pund * 0.5));
      s.z[v][i] = und ? TEST : r.normal() + 0.01 * (s.data[i].x[0] - off[0]);
      if (!und) anyDef = true;
    }
    s.data[i].defined = anyDef;
  }
  // selection
  s.hasSel = r.coin(0.45);
  if (s.hasSel)
  {
    double p = r.uni(0.1, 0.5);
    for (auto& p_ : s.data) p_.active = !r.coin(p);
  }
  s.hasCode = needCode || r.coin(0.15);
  s.hasDate = needDate;
  for (auto& p_ : s.data)
  {
    p_.code = s.hasCode ? (double)r.irange(1, 4) : 0.;
    p_.date = s.hasDate ? (double)r.irange(0, 20) + (r.coin(0.3) ? 0.5 : 0.) : 0.;
  }
  // targets (used when not in cross-validation)
  int nt = r.irange(4, 8);
  s.targets.assign(nt, refn::Sample());
  for (int t = 0; t < nt; t++)
  {
    std::vector<double> x(ndim);
    double u = r.u01();
    if (u < 0.55)
      for (int d = 0; d < ndim; d++) x[d] = off[d] + r.uni(0, field);
    else if (u < 0.70) // exactly on a data point
      x = s.data[r.irange(0, s.n - 1)].x;
    else if (u < 0.85) // on the hull / edge
      for (int d = 0; d < ndim; d++) x[d] = off[d] + (r.coin() ? (r.coin() ? 0. : field) : r.uni(0, field));
    else // outside
      for (int d = 0; d < ndim; d++) x[d] = off[d] + r.uni(-0.6, 1.6) * field;
    s.targets[t].x    = x;
    s.targets[t].code = s.hasCode ? (double)r.irange(1, 4) : 0.;
    s.targets[t].date = s.hasDate ? (double)r.irange(0, 20) : 0.;
  }
}

static std::unique_ptr<Db> makeDb(const std::vector<refn::Sample>& pts, int ndim, const std::vector<std::vector<double>>* z,
                                  bool withSel, bool withCode, bool withDate)
{
  int n = (int)pts.size();
  std::unique_ptr<Db> db(Db::createFromSamples(n));
  for (int d = 0; d < ndim; d++)
  {
    VectorDouble col(n);
    for (int i = 0; i < n; i++) col[i] = pts[i].x[d];
    db->addColumns(col, fmt("x%d", d + 1), ELoc::X, d);
  }
  if (z)
    for (int v = 0; v < (int)z->size(); v++)
    {
      VectorDouble col(n);
      for (int i = 0; i < n; i++) col[i] = (*z)[v][i];
      db->addColumns(col, fmt("z%d", v + 1), ELoc::Z, v);
    }
  if (withCode)
  {
    VectorDouble col(n);
    for (int i = 0; i < n; i++) col[i] = pts[i].code;
    db->addColumns(col, "code", ELoc::C, 0);
  }
  if (withDate)
  {
    VectorDouble col(n);
    for (int i = 0; i < n; i++) col[i] = pts[i].date;
    db->addColumns(col, "date", ELoc::DATE, 0);
  }
  if (withSel)
  {
    VectorDouble col(n);
    for (int i = 0; i < n; i++) col[i] = pts[i].active ? 1. : 0.;
    db->addColumns(col, "sel", ELoc::SEL, 0);
  }
  return db;
}

struct Config
{
  refn::Search s;
  int mclass = 0;   // 0 nocoef, 1 iso (coeffs all 1), 2 aniso, 3 rot
  int checker = 0;  // 0 none, 1 bench, 2 code close, 3 code different, 4 date
  int leaf = 10;
  bool kfold = false;
  std::shared_ptr<Faults> faults; // must outlive the neighbourhoods
};

static NeighMoving* makeNeigh(const Config& g, bool ball)
{
  const refn::Search& s = g.s;
  VectorDouble coeffs, angles;
  for (double v : s.coeffs) coeffs.push_back(v);
  for (double v : s.angles) angles.push_back(v);
  NeighMoving* nm = NeighMoving::create(s.xvalid != 0, s.nmaxi, s.radius, s.nmini, s.nsect,
                                        s.nsmax > 0 ? s.nsmax : ITEST, coeffs, angles);
  if (s.xvalid == 2) nm->setFlagKFold(true);
  // BiTargetCheckBench: "idim_bench, width" — isValid() forces the bench dimension to the last one
  if (s.useBench) nm->addBiTargetCheck(BiTargetCheckBench::create(s.ndim - 1, s.benchWidth));
  // BiTargetCheckCode(optcode, tolcode): 1 "Must have similar Codes (tol)", 2 "Must have different Codes"
  if (s.codeOpt) nm->addBiTargetCheck(BiTargetCheckCode::create(s.codeOpt, s.codeTol));
  // BiTargetCheckDate(deltamin, deltamax): "Date difference must lie between deltamin and deltamax"
  if (s.useDate) nm->addBiTargetCheck(BiTargetCheckDate::create(s.dateMin, s.dateMax));
  // BiTargetCheckFaults: isOK = !faults->isSplitByFaultSP(target, sample)  ("Separated by Faults")
  if (g.faults) nm->addBiTargetCheck(BiTargetCheckFaults::create(g.faults.get()));
  if (ball) nm->setBallSearch(true, g.leaf);
  return nm;
}

static std::string setStr(const std::vector<int>& v)
{
  std::string o = "{";
  for (size_t i = 0; i < v.size() && i < 40; i++) o += (i ? "," : "") + std::to_string(v[i]);
  return o + (v.size() > 40 ? ",...}" : "}");
}

// classify a set difference by its most specific cause (keys must name the failing input class, not the case)
static std::string diagnose(const std::vector<int>& lib, const refn::Result& ref, const Scene& sc, const Config& g,
                            const refn::Sample& tgt, int itarget)
{
  std::set<int> L(lib.begin(), lib.end()), R(ref.sel.begin(), ref.sel.end()), C;
  for (auto& cd : ref.cands) C.insert(cd.idx);
  std::vector<int> extra, missing;
  for (int i : L)
    if (!R.count(i)) extra.push_back(i);
  for (int i : R)
    if (!L.count(i)) missing.push_back(i);
  for (int i : extra)
  {
    if (i < 0 || i >= sc.n) return "rank-out-of-range";
    if (!sc.data[i].active) return "inactive-sample-selected";
  }
  for (int i : extra)
    if (!sc.data[i].defined) return "undefined-sample-selected";
  for (int i : extra)
  {
    if (g.s.xvalid == 1 && i == itarget) return "xvalid-target-selected";
    if (g.s.xvalid == 2 && sc.data[i].code == tgt.code) return "kfold-fold-selected";
  }
  for (int i : extra)
    if (!C.count(i)) return "non-qualifying-sample-selected"; // outside the radius or rejected by a checker
  if (lib.empty() && !ref.sel.empty()) return "empty-but-enough-qualify";
  if (!lib.empty() && ref.sel.empty()) return "not-empty-below-nmini";
  if (extra.empty()) return "qualifying-samples-missing";
  if (missing.empty()) return "quota-exceeded";
  return "wrong-members";
}

// ---------------------------------------------------------------------------------------------------------------------
// Labelling of a failed set comparison by root cause (labels only: none of the models below makes a comparison pass).
// ---------------------------------------------------------------------------------------------------------------------
static const char* KEY_FIRST2 = "C06:distance:no-coeffs:d3:only-first-two-coordinates-used";
struct TRef
{
  refn::Result res;
  bool ambiguous;
  const refn::Sample* tg;
  int itarget;
};

// coefficient-less search in 3-D: only the first two coordinates enter the distance
static bool first2Applies(const Scene& sc, const Config& g) { return g.mclass == 0 && sc.ndim == 3; }
static void first2Reduce(const Scene& sc, const Config& g, const TRef& t, std::vector<refn::Sample>& d2, refn::Sample& tg,
                         refn::Search& s2)
{
  d2               = sc.data;
  tg               = *t.tg;
  s2               = g.s;
  s2.labelDistDims = 2;
}
static refn::Result first2Model(const Scene& sc, const Config& g, const TRef& t)
{
  std::vector<refn::Sample> d2;
  refn::Sample tg;
  refn::Search s2;
  first2Reduce(sc, g, t, d2, tg, s2);
  return refn::moving(d2, tg, t.itarget, s2);
}
// Ball search (ANeigh::setBallSearch). Property C04 of this task states the library's contract for it: "ball-tree
// neighbourhood search equals exhaustive search whenever the nmaxi Euclidean-nearest samples are all admissible".
// The ball path is therefore modelled as documented:
//   K = the min(nmaxi, n) samples of dbin closest to the target in the plain L2 metric on the coordinates (all ranks);
//   (a) every member of K admissible (active, defined, within the anisotropic radius, passing every checker, not the
//       cross-validation target / fold)  ->  ball result == the definition;
//   (b) otherwise                       ->  ball result == the definition applied to the candidate set K
//       (same filters, sectors, quotas, nmaxi cycling, nmini counted on K).
struct BallRef
{
  bool tie = false;          // the k-th and (k+1)-th Euclidean distances tie: K is not defined, target skipped
  bool precondition = false; // every member of K is admissible
  std::vector<char> inK;
};
static BallRef ballRef(const Scene& sc, const Config& g, const TRef& t)
{
  BallRef b;
  int n = sc.n, k = std::min(g.s.nmaxi, n);
  std::vector<std::pair<LD, int>> v;
  for (int i = 0; i < n; i++) v.push_back({refn::euclid(sc.data[i].x, t.tg->x), i});
  std::sort(v.begin(), v.end());
  double scale = 1. + (double)v[n - 1].first;
  if (k < n && (double)(v[k].first - v[k - 1].first) < 1e-9 * scale) b.tie = true;
  b.inK.assign(n, 0);
  std::set<int> adm;
  for (auto& cd : t.res.cands) adm.insert(cd.idx);
  b.precondition = true;
  for (int j = 0; j < k; j++)
  {
    b.inK[v[j].second] = 1;
    if (!adm.count(v[j].second)) b.precondition = false;
  }
  return b;
}

// Failure keys: a small fixed set, one per failing input class / call site (never the discrete configuration).
static std::string labelFailure(const std::string& orc, const std::vector<int>& lib, const Scene& sc, const Config& g,
                                const TRef& t)
{
  std::string dg = diagnose(lib, t.res, sc, g, *t.tg, t.itarget);
  if (g.checker == 4 && lib.empty() && !t.res.sel.empty()) return "C06:pair-checker:date:neighbourhood-always-empty";
  if (first2Applies(sc, g) && lib == first2Model(sc, g, t).sel) return KEY_FIRST2;
  return "C06:" + orc + ":" + dg;
}

// expected summary statistics of a selected set (test_neigh remark: "1 - The number of selected samples, 2 - The
// maximum neighborhood distance, 3 - The minimum neighborhood distance, 4 - The number of non-empty sectors,
// 5 - The number of consecutive empty sectors")
struct SumRef
{
  int number = 0;
  double dmax = TEST, dmin = TEST;
  int nesect = 0, cesectLin = 0, cesectCirc = 0;
  bool membersKnown = true;
};
static SumRef summaryRef(const std::vector<int>& set, const refn::Result& res, int nsect)
{
  SumRef o;
  o.number = (int)set.size();
  std::vector<int> cnt(nsect, 0);
  for (int i : set)
  {
    const refn::Cand* cd = nullptr;
    for (auto& cc : res.cands)
      if (cc.idx == i) cd = &cc;
    if (!cd) { o.membersKnown = false; continue; }
    double d = (double)cd->dist;
    if (FFFF(o.dmax) || d > o.dmax) o.dmax = d;
    if (FFFF(o.dmin) || d < o.dmin) o.dmin = d;
    cnt[cd->sect]++;
  }
  int run = 0;
  for (int k = 0; k < nsect; k++)
  {
    if (cnt[k] > 0) { o.nesect++; run = 0; }
    else { run++; o.cesectLin = std::max(o.cesectLin, run); }
  }
  // circular reading
  o.cesectCirc = o.cesectLin;
  if (o.nesect > 0)
  {
    run = 0;
    for (int k = 0; k < 2 * nsect; k++)
    {
      if (cnt[k % nsect] > 0) run = 0;
      else { run++; o.cesectCirc = std::max(o.cesectCirc, run); }
    }
  }
  else
    o.cesectCirc = nsect;
  return o;
}

// Labels for summary failures (root causes seen in NeighMoving::summary; labels only):
//   * MaxDist / MinDist are read from the first `nsel` entries of the distance-sorted CANDIDATE list, i.e. the nsel
//     closest candidates, not the nsel selected samples -> differ as soon as a quota drops a closer candidate;
//   * the sector statistics use the per-sector counts taken before the nmaxi cycling.
static void checkSummary(Ctx& c, const std::string& pfx, const VectorDouble& tab, const std::vector<int>& set,
                         const refn::Result& res, int nsect, double radius, bool sectorsAsserted, const std::string& det,
                         const refn::Result* alt = nullptr, const char* altKey = nullptr)
{
  const std::string kp = "C06:summary";
  if ((int)tab.size() < 5)
  {
    c.truth(pfx + "-number", kp + ":size", false, det + " summary has fewer than 5 entries");
    return;
  }
  SumRef e = summaryRef(set, res, nsect);
  SumRef ea;
  if (alt) ea = summaryRef(alt->sel, *alt, nsect);
  int ncand  = (int)res.cands.size();
  // the library adds distmax*rank*1e-9 to the distances before sorting
  // (bounded by ncand*1e-9*radius); candidates themselves differ by more than TIE_MARGIN*radius
  double tol = std::max((ncand + 2) * 1e-9, 0.5 * TIE_MARGIN) * radius;
  auto near  = [&](double a, double b, double t) { return (FFFF(a) && FFFF(b)) || std::fabs(a - b) <= t; };
  // does the alternative model (a known root cause) explain the library's value?
  auto keyOr = [&](const std::string& k, bool altExplains) { return (alt && altExplains) ? std::string(altKey) : k; };

  if (!c.close(pfx + "-number", keyOr(kp + ":Number", tab[0] == (double)ea.number), tab[0], (double)e.number, 0., det)) return;
  if (e.number == 0 || !e.membersKnown) return;
  double mMax = (double)res.cands[std::min(ncand, e.number) - 1].dist, mMin = (double)res.cands[0].dist;
  bool distModel = near(tab[1], mMax, tol) && near(tab[2], mMin, tol);
  std::string kd = distModel ? kp + ":MaxDist-MinDist-of-closest-candidates-not-of-selected-samples" : kp + ":MaxDist-MinDist";
  c.close(pfx + "-maxdist", keyOr(kd, !distModel), tab[1], e.dmax, tol, det);
  c.close(pfx + "-mindist", keyOr(kd, !distModel), tab[2], e.dmin, tol, det);
  if (!sectorsAsserted) return;
  int mNE = 0;
  bool samePattern = true;
  for (size_t k = 0; k < res.perSectQuota.size(); k++)
  {
    if (res.perSectQuota[k] > 0) mNE++;
    if ((res.perSectQuota[k] > 0) != (res.perSectKept[k] > 0)) samePattern = false;
  }
  bool sectModel = !samePattern && tab[3] == (double)mNE;
  std::string ks = sectModel ? kp + ":sector-statistics-counted-before-nmaxi-cycling" : kp + ":sector-statistics";
  c.close(pfx + "-nesect", keyOr(ks, !sectModel), tab[3], (double)e.nesect, 0., det);
  if (e.cesectLin == e.cesectCirc)
    c.close(pfx + "-cesect", keyOr(ks, !sectModel), tab[4], (double)e.cesectLin, 0., det);
  else
    c.skip("cesect-linear-vs-circular-ambiguous");
}

static void neighCase(Rng& r, Ctx& c)
{
  // ---- discrete configuration
  double u = r.u01();
  int ndim = u < 0.6 ? 2 : u < 0.9 ? 3 : 1;
  Config g;
  refn::Search& s = g.s;
  s.ndim   = ndim;
  g.mclass = r.irange(0, 3);
  if (ndim == 1 && g.mclass == 3) g.mclass = 2;
  if (AVOID_NOCOEFF_N2 && g.mclass == 0 && ndim != 2) g.mclass = 1;
  g.checker = r.coin(0.65) ? 0 : r.irange(1, 5);
  if (g.checker == 5 && ndim != 2) g.checker = r.irange(1, 3); // faults: "This is limited to 2-D case in RN"
  if (AVOID_DATE_CHECKER && g.checker == 4) g.checker = 0;
  s.xvalid  = r.coin(0.6) ? 0 : (r.coin(0.6) ? 1 : 2);
  g.leaf    = r.coin(0.3) ? r.irange(1, 3) : r.irange(4, 50);

  Scene sc;
  drawScene(r, c, sc, ndim, s.xvalid == 2 || g.checker == 2 || g.checker == 3, g.checker == 4);

  // ---- search parameters
  s.radius = r.coin(0.12) ? 1e4 : std::exp(r.uni(std::log(8.), std::log(140.)));
  if (g.mclass >= 1)
  {
    s.coeffs.assign(ndim, 1.);
    if (g.mclass >= 2)
      for (auto& v : s.coeffs) v = r.loguni(0.25, 4.);
  }
  if (g.mclass == 3)
  {
    s.angles.assign(ndim == 2 ? (r.coin() ? 1 : 2) : 3, 0.);
    for (auto& a : s.angles) a = angleDraw(r);
    if (ndim == 2 && s.angles.size() == 2) s.angles[1] = 0.; // only the first angle has a meaning in 2-D
    bool allzero = true;
    for (double a : s.angles) allzero = allzero && a == 0.;
    if (allzero) s.angles[0] = 37.;
  }
  s.nsect = (ndim > 1 && r.coin(0.5)) ? r.pick(std::vector<int>{2, 3, 4, 5, 6, 8, 12}) : 1;
  s.nsmax = r.coin(0.4) ? -1 : r.irange(1, 4);
  s.nmini = r.coin(0.6) ? 1 : r.irange(2, 6);
  if (r.coin(0.04)) s.nmini = sc.n + 1; // more than available
  {
    double w = r.u01();
    if (w < 0.2) s.nmaxi = s.nmini;
    else if (w < 0.6) s.nmaxi = s.nmini + r.irange(0, 8);
    else if (w < 0.85) s.nmaxi = std::max(s.nmini, r.irange(1, sc.n));
    else s.nmaxi = std::max(s.nmini, sc.n + r.irange(0, 10));
  }
  switch (g.checker)
  {
    case 1: s.useBench = true; s.benchWidth = r.uni(3., 40.); break;
    case 2: s.codeOpt = 1; s.codeTol = r.coin() ? 0.5 : 1.5; break;
    case 3: s.codeOpt = 2; break;
    case 4: s.useDate = true; s.dateMin = -r.uni(1., 8.) - 0.25; s.dateMax = r.uni(1., 8.) + 0.25; break;
    case 5:
    {
      g.faults.reset(new Faults());
      // the point cloud lives in [off, off+100]^2: find its lower corner from the data
      double lox = 1e300, loy = 1e300;
      for (auto& p_ : sc.data) { lox = std::min(lox, p_.x[0]); loy = std::min(loy, p_.x[1]); }
      int nf = r.irange(1, 3);
      for (int f = 0; f < nf; f++)
      {
        int np = r.irange(2, 4);
        VectorDouble fx, fy;
        std::vector<std::pair<double, double>> pl;
        double x = lox + r.uni(0, 100), y = loy + r.uni(0, 100);
        for (int q = 0; q < np; q++)
        {
          fx.push_back(x); fy.push_back(y);
          pl.push_back({x, y});
          x += r.uni(-50, 50); y += r.uni(-50, 50);
        }
        g.faults->addFault(PolyLine2D(fx, fy));
        s.faults.push_back(pl);
      }
      break;
    }
  }
  // The statement does not say in which frame the angular sectors are measured when the search ellipse is
  // anisotropic or rotated: the exact partition is asserted only for isotropic, unrotated searches, with
  //   sector = floor(nsect * angle / 2pi), angle in [0, 2pi) of the increment (target - sample)
  // (calibrated reading: NeighMoving::_movingSectorDefine "dx increment along X, dy increment along Y" receives
  // BiTargetCheckDistance::getIncr(), which isOK() fills with T1 - T2 = target - sample).
  bool sectors    = s.nsect > 1 && ndim > 1;
  bool frameFixed = !sectors || g.mclass <= 1;
  s.sectFrame     = 0;
  s.sectSign      = -1;

  static const char* CHK[] = {"", ":chk=bench", ":chk=code-close", ":chk=code-differ", ":chk=date", ":chk=faults"};
  std::string cls = fmt("%s:d%d:%s%s", MCN[g.mclass], ndim, sectors ? "sect" : "nosect", CHK[g.checker]);
  // (the signature is completed below once the target kind is known)
  c.putn("n", sc.n);
  c.putn("radius", s.radius);
  c.put("coeffs", jvec(s.coeffs));
  c.put("angles", jvec(s.angles));
  c.put("nmini,nmaxi,nsect,nsmax", jvec(std::vector<int>{s.nmini, s.nmaxi, s.nsect, s.nsmax}));

  defineDefaultSpace(ESpaceType::RN, ndim);

  // ---- data bases
  std::unique_ptr<Db> dbin = makeDb(sc.data, ndim, &sc.z, sc.hasSel, sc.hasCode, sc.hasDate);
  std::unique_ptr<Db> dbtg;
  Db* dbout = dbin.get();
  std::vector<int> tranks; // target ranks in dbout
  bool gridTarget = s.xvalid == 0 && ndim >= 2 && !sc.hasCode && !sc.hasDate && r.coin(0.25);
  if (gridTarget)
  {
    // targets = nodes of a (possibly rotated) grid; the target coordinates are read back from the DbGrid
    VectorInt nx(ndim);
    VectorDouble dx(ndim), x0(ndim), ang(ndim, 0.);
    double lo[3] = {1e300, 1e300, 1e300};
    for (auto& p_ : sc.data)
      for (int d = 0; d < ndim; d++) lo[d] = std::min(lo[d], p_.x[d]);
    for (int d = 0; d < ndim; d++)
    {
      nx[d] = r.irange(1, ndim == 2 ? 3 : 2);
      dx[d] = r.uni(10., 45.);
      x0[d] = lo[d] + r.uni(-10., 40.);
    }
    if (r.coin()) ang[0] = angleDraw(r);
    std::unique_ptr<DbGrid> dg(DbGrid::create(nx, dx, x0, ang));
    if (!dg) throw SkipCase{"grid"};
    int nt = dg->getSampleNumber();
    sc.targets.assign(nt, refn::Sample());
    for (int t = 0; t < nt; t++)
    {
      sc.targets[t].x.resize(ndim);
      for (int d = 0; d < ndim; d++) sc.targets[t].x[d] = dg->getCoordinate(t, d);
    }
    dbtg.reset(dg.release());
    dbout = dbtg.get();
    for (int t = 0; t < nt; t++) tranks.push_back(t);
  }
  else if (s.xvalid == 0)
  {
    dbtg  = makeDb(sc.targets, ndim, nullptr, false, sc.hasCode, sc.hasDate);
    dbout = dbtg.get();
    for (int t = 0; t < (int)sc.targets.size(); t++) tranks.push_back(t);
  }
  else
  {
    std::vector<int> p = r.perm(sc.n);
    for (int t = 0; t < (int)p.size() && t < 8; t++) tranks.push_back(p[t]);
  }

  c.setSig(fmt("neigh:%s:xv%d:sel%d:code%d:nsmax%d:grid%d", cls.c_str(), s.xvalid, (int)sc.hasSel, (int)sc.hasCode,
               s.nsmax > 0, (int)gridTarget));
  // ---- reference for every target
  std::vector<TRef> refs;
  for (int it : tranks)
  {
    TRef t;
    t.tg        = s.xvalid == 0 ? &sc.targets[it] : &sc.data[it];
    t.itarget   = s.xvalid == 0 ? -1 : it;
    t.res       = refn::moving(sc.data, *t.tg, t.itarget, s);
    t.ambiguous = false;
    if (t.res.minGap < TIE_MARGIN) { t.ambiguous = true; c.skip("tie-or-radius-boundary"); }
    else if (sectors && t.res.minAngGap < ANG_MARGIN) { t.ambiguous = true; c.skip("sector-boundary"); }
    else if (g.checker == 5 && t.res.minFaultGap < 1e-7) { t.ambiguous = true; c.skip("fault-touching"); }
    else
    {
      if (t.res.quotaBites) c.probe("quota-bites");
      if (t.res.sel.empty() && !t.res.cands.empty()) c.probe("below-nmini");
      if (t.res.partialRound) c.probe("partial-round");
      if (t.res.nFaultSplit > 0) c.probe("fault-splits-a-pair");
      if (gridTarget) c.probe("grid-target");
    }
    refs.push_back(t);
  }

  // the definition (on `data`) reproduces `lib`? For anisotropic / rotated searches with sectors the definition is
  // accepted in any admissible sector frame (geographic increments, increments in the ellipsoid axes, the same divided
  // by the coefficients; either sign)
  // mdUndecided: no frame reproduces lib, but in at least one admissible frame a candidate sits on a sector boundary (that
  // frame could not be evaluated): the comparison is then undecided, not failed
  bool mdUndecided = false;
  auto matchesDefinition = [&](const std::vector<refn::Sample>& data, const TRef& t, const std::vector<int>& lib,
                               const std::vector<int>& selFixedFrame) -> bool
  {
    mdUndecided = false;
    if (frameFixed) return lib == selFixedFrame;
    bool anyAmbiguous = false;
    for (int fr = 0; fr < 3; fr++)
      for (int sg = -1; sg <= 1; sg += 2)
      {
        refn::Search s2 = s;
        s2.sectFrame    = fr;
        s2.sectSign     = sg;
        refn::Result r2 = refn::moving(data, *t.tg, t.itarget, s2);
        if (r2.minAngGap < ANG_MARGIN) { anyAmbiguous = true; continue; }
        if (lib == r2.sel) return true;
      }
    mdUndecided = anyAmbiguous;
    return false;
  };
  // compare one returned set (plain search, or through the kriging machinery) with the definition
  auto compareSet = [&](const std::string& orc, std::vector<int> lib, const TRef& t, int trank) -> bool
  {
    std::sort(lib.begin(), lib.end());
    bool ok = matchesDefinition(sc.data, t, lib, t.res.sel);
    if (!ok && mdUndecided) { c.skip("sector-boundary-in-some-frame"); return true; }
    std::string key, det;
    if (!ok)
    {
      key = labelFailure(orc, lib, sc, g, t);
      det = fmt("target %d lib=%s def=%s ncand=%d%s", trank, setStr(lib).c_str(), setStr(t.res.sel).c_str(),
                (int)t.res.cands.size(), frameFixed ? "" : " (no admissible sector frame reproduces lib)");
    }
    c.truth(frameFixed ? orc : orc + "-anyframe", key, ok, det);
    return ok;
  };
  // compare the set returned with ball search with its documented contract (see BallRef)
  auto compareBall = [&](std::vector<int> lib, const TRef& t, int trank) -> bool
  {
    std::sort(lib.begin(), lib.end());
    BallRef b = ballRef(sc, g, t);
    if (b.tie) { c.skip("tie"); return false; }
    std::set<int> adm;
    for (auto& cd : t.res.cands) adm.insert(cd.idx);
    bool inadmissible = false;
    for (int i : lib)
      if (!adm.count(i)) inadmissible = true;
    bool ok;
    std::string key, orc, det;
    if (b.precondition)
    {
      c.probe("ball-precondition-holds");
      orc = "set-ball";
      ok  = matchesDefinition(sc.data, t, lib, t.res.sel);
      if (!ok && mdUndecided) { c.skip("sector-boundary-in-some-frame"); return true; }
      key = "C06:ball:precondition-holds:differs-from-definition";
      if (!ok)
      {
        // diagnostic only: does the weaker relation (definition on the candidate set K) explain the result?
        std::vector<refn::Sample> d2 = sc.data;
        for (int i = 0; i < sc.n; i++) d2[i].active = sc.data[i].active && b.inK[i];
        refn::Result rk = refn::moving(d2, *t.tg, t.itarget, s);
        bool onK        = matchesDefinition(d2, t, lib, rk.sel);
        c.probe(onK ? "ball-precondition-fail:equals-definition-on-K" : "ball-precondition-fail:unexplained");
        det = fmt("target %d nmaxi=%d %s nsect=%d: the nmaxi Euclidean-nearest samples are all admissible; lib=%s def=%s ncand=%d (lib %s the "
                  "definition restricted to those nmaxi samples)", trank, s.nmaxi, MCN[g.mclass], s.nsect, setStr(lib).c_str(),
                  setStr(t.res.sel).c_str(), (int)t.res.cands.size(), onK ? "equals" : "DIFFERS ALSO from");
      }
    }
    else
    {
      orc = "set-ball-candidates";
      std::vector<refn::Sample> d2 = sc.data;
      for (int i = 0; i < sc.n; i++) d2[i].active = sc.data[i].active && b.inK[i];
      refn::Result rk = refn::moving(d2, *t.tg, t.itarget, s);
      ok  = matchesDefinition(d2, t, lib, rk.sel);
      if (!ok && mdUndecided) { c.skip("sector-boundary-in-some-frame"); return true; }
      key = "C06:ball:differs-from-definition-on-candidate-set";
      if (!ok) det = fmt("target %d nmaxi=%d lib=%s def-on-K=%s def=%s", trank, s.nmaxi, setStr(lib).c_str(),
                         setStr(rk.sel).c_str(), setStr(t.res.sel).c_str());
    }
    if (!ok && inadmissible) key = "C06:ball:inadmissible-sample-selected";
    c.truth(frameFixed ? orc : orc + "-anyframe", ok ? "" : key, ok, det);
    return ok;
  };

  // ---- 1. NeighMoving::select + summary, plain and with ball search
  for (int ball = 0; ball < 2; ball++)
  {
    if (ball && AVOID_BALL_SEARCH) break;
    std::unique_ptr<NeighMoving> nm(makeNeigh(g, ball));
    const char* bn = ball ? "ball" : "plain";
    if (nm->attach(dbin.get(), dbout) != 0)
    {
      c.truth(std::string("attach-") + bn, fmt("C06:attach:%s:failed", bn), false, "attach returned an error");
      continue;
    }
    for (size_t k = 0; k < tranks.size(); k++)
    {
      const TRef& t = refs[k];
      if (t.ambiguous) continue;
      VectorInt ranks;
      nm->select(tranks[k], ranks);
      std::vector<int> lib = ranks.getVector();
      bool ok = ball ? compareBall(lib, t, tranks[k]) : compareSet("set-plain", lib, t, tranks[k]);
      if (r.coin(0.25))
      {
        // asking again for the same target must give the same set (ANeigh::select answers from its memo)
        VectorInt again;
        nm->select(tranks[k], again);
        std::vector<int> a2 = again.getVector(), a1 = lib;
        std::sort(a1.begin(), a1.end());
        std::sort(a2.begin(), a2.end());
        c.truth("select-repeat", fmt("C06:select:repeat-differs:%s", bn), a1 == a2,
                fmt("target %d first=%s second=%s", tranks[k], setStr(a1).c_str(), setStr(a2).c_str()));
      }
      // summary of the same target (only meaningful when the set itself is the defined one; plain search only:
      // with ball search the library's candidate list is not the defined one, see the C06:ball:* findings)
      if (!ok || ball) continue;
      VectorDouble tab = nm->summary(tranks[k]);
      std::sort(lib.begin(), lib.end());
      refn::Result alt;
      if (first2Applies(sc, g)) alt = first2Model(sc, g, t);
      checkSummary(c, std::string("summary-") + bn, tab, lib, t.res, sectors ? s.nsect : 1, s.radius,
                   frameFixed && !lib.empty(),
                   fmt("target %d set=%s ncand=%d", tranks[k], setStr(lib).c_str(), (int)t.res.cands.size()),
                   first2Applies(sc, g) ? &alt : nullptr, KEY_FIRST2);
    }
    // ---- 1b. the data are edited IN PLACE (coordinates mirrored through the centre of the field) and the same NeighMoving is
    // attached again to the same Db objects: it must answer like a fresh object attached to the edited Db (no memorised set, no
    // search tree built on the previous coordinates)
    if (!tranks.empty() && c.icase % 2 == 0)
    {
      int tr = tranks.back();
      VectorInt before;
      nm->select(tr, before); // tr becomes the memorised target
      std::vector<double> lo(ndim, INFINITY), hi(ndim, -INFINITY);
      for (int i = 0; i < sc.n; i++)
        for (int d = 0; d < ndim; d++) { lo[d] = std::min(lo[d], sc.data[i].x[d]); hi[d] = std::max(hi[d], sc.data[i].x[d]); }
      for (int i = 0; i < sc.n; i++)
        for (int d = 0; d < ndim; d++) dbin->setCoordinate(i, d, lo[d] + hi[d] - sc.data[i].x[d]);
      bool ok1 = nm->attach(dbin.get(), dbout) == 0;
      std::unique_ptr<NeighMoving> fresh(makeNeigh(g, ball));
      bool ok2 = fresh->attach(dbin.get(), dbout) == 0;
      if (ok1 && ok2)
      {
        VectorInt reused, fr;
        nm->select(tr, reused);
        fresh->select(tr, fr);
        std::vector<int> a1 = reused.getVector(), a2 = fr.getVector();
        std::sort(a1.begin(), a1.end());
        std::sort(a2.begin(), a2.end());
        c.truth("reattach-after-edit", fmt("C06:reattach-after-in-place-edit:%s:differs-from-fresh-object", bn), a1 == a2,
                fmt("target %d reused=%s fresh=%s", tr, setStr(a1).c_str(), setStr(a2).c_str()));
      }
      for (int i = 0; i < sc.n; i++)
        for (int d = 0; d < ndim; d++) dbin->setCoordinate(i, d, sc.data[i].x[d]);
    }
  }

  // ---- 2. through the kriging machinery
  std::unique_ptr<Model> model;
  {
    VectorDouble sills;
    if (sc.nvar == 2) sills = {1.5, 0.4, 0.4, 0.8};
    model.reset(Model::createFromParam(ECov::EXPONENTIAL, 40., 1.2, 1., VectorDouble(), sills));
  }
  if (!model) throw SkipCase{"model"};

  if (s.xvalid == 0)
  {
    // 2a. test_neigh(): columns Number / MaxDist / MinDist / NbNESect / NbCESect for every target
    {
      std::unique_ptr<NeighMoving> nm(makeNeigh(g, false));
      int ncol0 = dbout->getColumnNumber();
      int err   = test_neigh(dbin.get(), dbout, model.get(), nm.get());
      c.truth("test_neigh-rc", "C06:test_neigh:error-return", err == 0, "test_neigh returned an error");
      if (err == 0 && dbout->getColumnNumber() == ncol0 + 5)
      {
        std::vector<VectorDouble> cols;
        for (int j = 0; j < 5; j++) cols.push_back(dbout->getColumnByColIdx(ncol0 + j));
        for (size_t k = 0; k < tranks.size(); k++)
        {
          const TRef& t = refs[k];
          if (t.ambiguous) continue;
          VectorDouble tab(5);
          for (int j = 0; j < 5; j++) tab[j] = cols[j][tranks[k]];
          std::string det = fmt("target %d def=%s", tranks[k], setStr(t.res.sel).c_str());
          if (!frameFixed)
          {
            // only the count bound is frame independent here
            continue;
          }
          // first the emptiness / count, labelled like a set failure (date checker, ...)
          refn::Result alt;
          if (first2Applies(sc, g)) alt = first2Model(sc, g, t);
          bool libEmpty = FFFF(tab[0]);
          if (libEmpty != t.res.sel.empty())
          {
            std::vector<int> fake; // what is known of the library's set: empty or not
            std::string key = libEmpty ? labelFailure("test_neigh", fake, sc, g, t)
                              : (first2Applies(sc, g) && !alt.sel.empty()) ? std::string(KEY_FIRST2)
                                                                           : "C06:test_neigh:not-empty-below-nmini";
            c.truth("test_neigh-empty", key, false, det + fmt(" Number=%g", tab[0]));
            continue;
          }
          if (t.res.sel.empty())
          {
            // KrigingSystem::_neighCalcul: "value = (status == 0) ? tab[i] : TEST" - an empty neighbourhood is
            // reported as undefined in all five columns
            bool allT = true;
            for (int j = 0; j < 5; j++) allT = allT && FFFF(tab[j]);
            c.truth("test_neigh-empty", "C06:test_neigh:empty-neighbourhood-not-undefined", allT, det);
            continue;
          }
          c.truth("test_neigh-empty", "", true, "");
          checkSummary(c, "test_neigh", tab, t.res.sel, t.res, sectors ? s.nsect : 1, s.radius, true, det,
                       first2Applies(sc, g) ? &alt : nullptr, KEY_FIRST2);
        }
      }
      else if (err == 0)
        c.truth("test_neigh-rc", "C06:test_neigh:columns", false,
                fmt("expected 5 new columns, got %d", dbout->getColumnNumber() - ncol0));
    }
    // 2b. krigtest().nbgh for one target (any rank, 0 included)
    if (!tranks.empty())
    {
      int k         = r.irange(0, (int)tranks.size() - 1);
      const TRef& t = refs[k];
      if (!t.ambiguous)
      {
        std::unique_ptr<NeighMoving> nm(makeNeigh(g, false));
        Krigtest_Res kr = krigtest(dbin.get(), dbout, model.get(), nm.get(), tranks[k], EKrigOpt::POINT, VectorInt(),
                                   false, false);
        OptDbg::reset();
        compareSet("krigtest-nbgh", kr.nbgh.getVector(), t, tranks[k]);
      }
    }
  }
  // 2c. KrigingSystem::getSampleIndices (also the cross-validation / k-fold route: setKrigOptXValid)
  {
    std::unique_ptr<NeighMoving> nm(makeNeigh(g, false));
    int iptr = dbout->addColumnsByConstant(sc.nvar, TEST, "est");
    KrigingSystem ksys(dbin.get(), dbout, model.get(), nm.get());
    bool ready = ksys.updKrigOptEstim(iptr, -1, -1) == 0;
    if (s.xvalid != 0) ready = ready && ksys.setKrigOptXValid(true, s.xvalid == 2) == 0;
    ready = ready && ksys.isReady();
    c.truth("ksys-ready", "C06:ksys:not-ready", ready, "KrigingSystem::isReady failed");
    if (ready)
    {
      for (size_t k = 0; k < tranks.size(); k++)
      {
        const TRef& t = refs[k];
        if (t.ambiguous) continue;
        if (!dbout->isActive(tranks[k])) continue; // estimate() skips masked targets
        if (ksys.estimate(tranks[k]) != 0) { c.skip("ksys-estimate-error"); continue; }
        compareSet("ksys-indices", ksys.getSampleIndices().getVector(), t, tranks[k]);
      }
      ksys.conclusion();
    }
  }
}

// =====================================================================================================================
// k nearest neighbours of the ball tree against brute force
// =====================================================================================================================
static void knnCase(Rng& r, Ctx& c)
{
  int ndim   = r.pick(std::vector<int>{1, 2, 2, 2, 3, 3, 4, 6});
  int nmax   = c.thorough() ? 300 : 70;
  int n      = r.coin(0.12) ? r.irange(1, 5) : r.irange(6, nmax);
  int leaf   = r.coin(0.4) ? r.irange(1, 4) : r.irange(5, 50);
  int metric = r.coin(0.75) ? 1 : 2;
  int ctor   = r.irange(0, 2); // 0 VectorVectorDouble, 1 Db, 2 const double**
  if (AVOID_BALL_VVD_N_LT_NDIM && ctor == 0 && n < ndim) ctor = 2;
  int layout = r.irange(0, 2);
  bool twoTrees = r.coin(0.08);
  c.setSig(fmt("knn:d%d:leaf%d:m%d:ctor%d:lay%d:n%s:two%d", ndim, leaf <= 4 ? leaf : (leaf <= 15 ? 10 : 30), metric, ctor,
               layout, n <= 5 ? "tiny" : (n <= 30 ? "small" : "large"), (int)twoTrees));
  c.putn("n", n);
  c.putn("ndim", ndim);
  c.putn("leaf", leaf);
  c.putn("metric", metric);

  // duplicate-free points
  double field = 100., off = r.coin(0.2) ? r.uni(-1, 1) * std::pow(10., r.irange(2, 5)) : 0.;
  int ng = std::max(2, (int)std::ceil(std::pow((double)n, 1. / ndim)));
  std::vector<std::vector<double>> pts(n, std::vector<double>(ndim));
  for (int i = 0; i < n; i++)
    for (int att = 0; att < 300; att++)
    {
      for (int d = 0; d < ndim; d++)
        pts[i][d] = off + (layout == 0 ? r.uni(0, field)
                           : layout == 1 ? 50. + 10. * r.normal()
                                         : (r.irange(0, ng - 1) + 0.5) * field / ng + r.uni(-0.5, 0.5));
      bool ok = true;
      for (int j = 0; j < i && ok; j++) ok = refn::euclid(pts[i], pts[j]) > 0.05;
      if (ok) break;
    }

  // Ball's default metric goes through SpacePoint::getDistance in the DEFAULT space: its dimension must be that of
  // the points (with a smaller default space the extra features are silently ignored)
  defineDefaultSpace(ESpaceType::RN, ndim);
  VectorVectorDouble vvd(ndim, VectorDouble(n));
  for (int i = 0; i < n; i++)
    for (int d = 0; d < ndim; d++) vvd[d][i] = pts[i][d];

  std::unique_ptr<Db> db;
  std::unique_ptr<Ball> ball;
  if (ctor == 0)
    ball.reset(new Ball(vvd, nullptr, leaf, metric));
  else if (ctor == 1)
  {
    std::vector<refn::Sample> sm(n);
    for (int i = 0; i < n; i++) sm[i].x = pts[i];
    db = makeDb(sm, ndim, nullptr, false, false, false);
    ball.reset(new Ball(db.get(), nullptr, leaf, metric, false));
  }
  else
  {
    std::vector<const double*> rows(n);
    for (int i = 0; i < n; i++) rows[i] = pts[i].data();
    ball.reset(new Ball(rows.data(), n, ndim, nullptr, leaf, metric));
  }
  std::string kcls = fmt("ctor=%s", ctor == 0 ? "VVD" : ctor == 1 ? "Db" : "rows");

  std::unique_ptr<Ball> other;
  if (twoTrees)
  {
    // a second, unrelated tree with the other metric, alive while the first one is queried
    VectorVectorDouble v2(ndim, VectorDouble(7));
    for (int d = 0; d < ndim; d++)
      for (int i = 0; i < 7; i++) v2[d][i] = r.uni(0, 1);
    other.reset(new Ball(v2, nullptr, 3, 3 - metric));
  }

  int nq = r.irange(4, 8);
  for (int q = 0; q < nq; q++)
  {
    std::vector<double> x(ndim);
    double w = r.u01();
    if (w < 0.5)
      for (auto& v : x) v = off + r.uni(0, field);
    else if (w < 0.8)
      x = pts[r.irange(0, n - 1)]; // query point equal to a data point
    else
      for (auto& v : x) v = off + r.uni(-2, 3) * field;
    int k;
    double wk = r.u01();
    k = wk < 0.2 ? 1 : wk < 0.35 ? n : wk < 0.45 ? std::max(1, n - 1) : r.irange(1, n);
    refn::KnnRef ref = refn::knn(pts, x, metric);
    double scale     = 1. + (double)ref.dist[n - 1];
    double tol       = 1e-12 * scale + 1e-12 * std::fabs(off);
    bool tieAtK      = (k < n) && (double)(ref.dist[k] - ref.dist[k - 1]) < 1e-9 * scale;
    bool tieInside   = false;
    for (int j = 1; j < k; j++)
      if ((double)(ref.dist[j] - ref.dist[j - 1]) < 1e-9 * scale) tieInside = true;

    VectorDouble qv(ndim);
    for (int d = 0; d < ndim; d++) qv[d] = x[d];
    std::string pfx = twoTrees ? "knn2" : "knn";
    std::string det = fmt("n=%d ndim=%d leaf=%d k=%d metric=%d %s", n, ndim, leaf, k, metric, kcls.c_str());

    // Failure keys: one per root cause, the API is in the oracle name.
    //   second tree alive: only the distances / the set are judged (the metric of a tree must be its own)
    auto checkResult = [&](const std::string& api, const std::vector<int>& idx, const std::vector<double>& dst)
    {
      std::string o = pfx + "-" + api;
      bool sz = (int)idx.size() == k && (int)dst.size() == k;
      c.truth(o + "-size", "C06:knn:" + api + ":size", sz,
              det + fmt(" got %d indices %d distances", (int)idx.size(), (int)dst.size()));
      if (!sz) return;
      // the k smallest distances (in the tree's own metric)
      double worst = 0;
      std::vector<double> sd = dst;
      std::sort(sd.begin(), sd.end());
      for (int j = 0; j < k; j++) worst = std::max(worst, std::fabs(sd[j] - (double)ref.dist[j]));
      c.check(o + "-dist", twoTrees ? "C06:knn:metric-of-the-last-built-tree-used" : "C06:knn:not-the-k-smallest-distances",
              worst <= tol, worst, tol, det);
      if (twoTrees) return;
      // increasing distance order
      bool inc = true;
      for (int j = 1; j < k; j++) inc = inc && dst[j - 1] <= dst[j];
      c.truth(o + "-order", "C06:knn:distances-not-in-increasing-order", inc, det);
      // indices valid, distinct, consistent with their distance
      bool valid = true;
      std::set<int> S;
      double incons = 0;
      for (int j = 0; j < k; j++)
      {
        if (idx[j] < 0 || idx[j] >= n) { valid = false; continue; }
        S.insert(idx[j]);
        LD dd = 0;
        for (int d = 0; d < ndim; d++)
        {
          LD df = (LD)pts[idx[j]][d] - (LD)x[d];
          dd += metric == 2 ? fabsl(df) : df * df;
        }
        if (metric != 2) dd = sqrtl(dd);
        incons = std::max(incons, std::fabs((double)dd - dst[j]));
      }
      valid = valid && (int)S.size() == k;
      c.truth(o + "-index", "C06:knn:indices-invalid-or-repeated", valid, det);
      if (!valid) return;
      c.check(o + "-pair", "C06:knn:index-distance-mismatch", incons <= tol, incons, tol, det);
      if (tieAtK || tieInside) { c.skip("knn-tie"); return; }
      std::set<int> R(ref.idx.begin(), ref.idx.begin() + k);
      c.truth(o + "-set", "C06:knn:not-the-k-closest", S == R, det);
    };

    // Ball::queryOneAsVD
    {
      KNN res = ball->queryOneAsVD(qv, k);
      checkResult("queryOneAsVD", res.getIndices(0).getVector(), res.getDistances(0).getVector());
    }
    // Ball::queryOneInPlace
    {
      VectorInt idx;
      VectorDouble dst;
      int rc = ball->queryOneInPlace(qv, k, idx, dst);
      c.truth(pfx + "-queryOneInPlace-rc", "C06:knn:queryOneInPlace:error-return", rc == 0, det);
      checkResult("queryOneInPlace", idx.getVector(), dst.getVector());
    }
    // Ball::getIndices(SpacePoint, k)
    if (!twoTrees)
    {
      SpacePoint sp(qv);
      VectorInt idx = ball->getIndices(sp, k);
      bool sz = (int)idx.size() == k;
      c.truth(pfx + "-getIndices-size", "C06:knn:getIndices:size", sz, det);
      if (sz && !(tieAtK || tieInside))
      {
        std::set<int> S(idx.begin(), idx.end()), R(ref.idx.begin(), ref.idx.begin() + k);
        c.truth(pfx + "-getIndices-set", "C06:knn:not-the-k-closest", S == R, det);
      }
    }
    // Ball::queryClosest
    if (!(n > 1 && (double)(ref.dist[1] - ref.dist[0]) < 1e-9 * scale))
    {
      int ic = ball->queryClosest(qv);
      c.truth(pfx + "-queryClosest", twoTrees ? "C06:knn:metric-of-the-last-built-tree-used" : "C06:knn:not-the-k-closest",
              ic == ref.idx[0], det + fmt(" queryClosest got %d want %d", ic, ref.idx[0]));
    }
  }
}

static void run_case(Rng& r, Ctx& c)
{
  if (c.icase % 5 < 3) neighCase(r, c);
  else knnCase(r, c);
}

int main(int argc, char** argv) { return run_main(argc, argv, "C06", run_case); }
