// C17 — automatic model fitting either reports failure or returns a usable, constraint-abiding model.
//
// Each case: an experimental variogram (computed from a harness-generated data set, hand-made through the public
// Vario setters, or a variogram map), a set of basic structures, a constraint set and the Option_VarioFit /
// Option_AutoFit flags are drawn from the case PRNG; Model::fit / fitFromCovIndices / fitFromVMap is called and the
// returned model is *validated* (quality of fit is never judged):
//   sill-psd     every structure: sill matrix finite, symmetric, smallest eigenvalue (ref::eigsym, long double) >= -c.eps.trace
//   range-pos    every structure with a range: all ranges finite and > 0
//   param-adm    every structure with a third parameter: finite and inside [0, getParMax()] (ACovFunc::setParam's own gate)
//   cons-*       every user constraint (ConsItem LOWER/UPPER/EQUAL on SILL, RANGE, ANGLE, PARAM; constant total sill)
//   opt-*        the documented promises of Option_VarioFit (quoted next to each oracle)
//   nf-roundtrip dumpToNF -> createFromNF gives back the same structures
//   kriging      the reloaded model is accepted by kriging() and gives no NaN/Inf
//   fails-cleanly invalid requests (the library's own messerr'd preconditions) return an error code, no exception
#include "common/vh.hpp"
#include "common/ref_linalg.hpp"

#include "Basic/AException.hpp"
#include "Basic/ASerializable.hpp"
#include "Basic/OptDbg.hpp"
#include "Basic/VectorHelper.hpp"
#include "Covariances/ACovFunc.hpp"
#include "Covariances/CovAniso.hpp"
#include "Covariances/CovContext.hpp"
#include "Covariances/CovFactory.hpp"
#include "Db/Db.hpp"
#include "Db/DbGrid.hpp"
#include "Enum/ECalcVario.hpp"
#include "Enum/EConsElem.hpp"
#include "Enum/EConsType.hpp"
#include "Enum/ECov.hpp"
#include "Estimation/CalcKriging.hpp"
#include "Model/ConsItem.hpp"
#include "Model/Constraints.hpp"
#include "Model/Model.hpp"
#include "Model/ModelOptimSillsVario.hpp"
#include "geoslib_old_f.h"
#include "Model/Option_AutoFit.hpp"
#include "Model/Option_VarioFit.hpp"
#include "Neigh/NeighUnique.hpp"
#include "Space/ASpaceObject.hpp"
#include "Variogram/DirParam.hpp"
#include "Variogram/VMap.hpp"
#include "Variogram/Vario.hpp"
#include "Variogram/VarioParam.hpp"

#include <memory>
#include <ctime>
#include <fcntl.h>
#include <sys/wait.h>
#include <sys/resource.h>
#include <sys/time.h>
#include <signal.h>

using namespace vh;
using ref::LD;
using ref::Mat;

static const double EPS = 2.220446049250313e-16;
static const double PI  = 3.14159265358979323846;

// Generator switches (default off = the input class IS generated). See the final report.
// For development they can be switched on at run time: C17_AVOID=npar,exotic,intrinsic (never set by the driver).
static bool avoidEnv(const char* name)
{
  const char* e = getenv("C17_AVOID");
  return e != nullptr && strstr(e, name) != nullptr;
}
static const bool AVOID_NEGATIVE_NPAR   = false || avoidEnv("npar");      // requests rejected by st_model_auto_count (exception instead of error)
static const bool AVOID_EXOTIC_TYPES    = false || avoidEnv("exotic");    // MARKOV / sphere-only structures offered by CovFactory::getCovList in R^n
// MARKOV: every CovAniso::setParam runs an FFT-based normalisation (ACovFunc::computeCorrec) -> one fit costs > 5 CPU minutes
// in 3-D under ASan (measured, killed unfinished); excluded by default to keep the case budget, C17_WITH_MARKOV=1 re-enables.
static const bool AVOID_MARKOV          = getenv("C17_WITH_MARKOV") == nullptr;
static const bool AVOID_FLAG_INTRINSIC  = false || avoidEnv("intrinsic"); // Option_VarioFit::setFlagIntrinsic(true): st_sill_fitting_intrinsic indexes the never-sized RECINT.sill1
// Goulard under constraints (constant total sill) costs minutes to hours per fit with the default maxiter=1000
// whenever st_optimize_under_constraints is entered: every model evaluation of foxleg runs up to maxiter sweeps of
// st_minimize_P4 (O(npadir^2) each). Measured: 110 s user time in the release build, 12.5 min under ASan for
// 2 variables x 3 structures x 4 directions; also seen with 1 variable x 2 structures. The generator therefore
// draws maxiter <= 30 for that class so that the class is still exercised within the case budget.
static const int CONSTSILL_MAXITER = getenv("C17_CONSTSILL_MAXITER") ? atoi(getenv("C17_CONSTSILL_MAXITER")) : 30;


// ------------------------------------------------------------------------------------------------
// Root-cause keys. Every open finding of the library has ONE key (see reports/C17_open_findings.json). A case that
// belongs to the input class of such a finding reports all its failures under that key (ROOTKEY); everything else keeps
// the specific key of the oracle, so that a new defect is never folded into a known one by accident.
// ------------------------------------------------------------------------------------------------
static const char* K_REFUSAL   = "C17:refusal-by-exception";                                   // D1 remainder
static const char* K_INTRINSIC = "C17:flag-intrinsic-crash";                                   // D2
static const char* K_LOSTBOUND = "C17:cons:bounds-lost-after-nonconverged-pass-and-reduction"; // D3
static const char* K_AIC       = "C17:cons:sill-bound-applied-to-AIC-when-goulard-off";        // D4
static const char* K_CSMULTI   = "C17:constant-sill-multivariate:model_auto";                  // D5 (model_auto.cpp)
static const char* K_CSMULTI2  = "C17:constant-sill-multivariate:AModelOptimSills";            // D5 (copy in AModelOptimSills.cpp)
static const char* K_SAMEROT   = "C17:samerot-reduction-crash";                                // D6
static const char* K_SCALE     = "C17:scale-factor-blowup";                                    // D7
static const char* K_CSREDUCE  = "C17:cons:constant-sill-not-reimposed-after-reduction";       // D8
static const char* K_ISO2D     = "C17:opt:lockIso2d-ignored:ndim=3";                           // D9
static const char* K_SPHERE    = "C17:sphere-only-structure-accepted-in-Rn";                   // D11
static const char* K_EMPTYLAG  = "C17:ModelOptimSillsVario-empty-lag-overflow";                // D14
static const char* K_NODD      = "C17:model_fitting_sills-unallocated-dd";                     // D15
static const char* K_NOEXPAND  = "C17:constant-sill-not-expanded";                             // D16
static const char* K_STALE     = "C17:vmap-fit-uses-options-of-previous-fit";                  // stale file-static OPTVAR in vmap_auto_fit
static const char* K_MATERN    = "C17:matern-large-third-parameter-gives-nan";                 // D12 = D13
static std::string ROOTKEY;
struct KCtx
{
  Ctx& c;
  bool verbose;
  KCtx(Ctx& cc) : c(cc), verbose(cc.verbose) {}
  std::string k(const std::string& key) const { return ROOTKEY.empty() ? key : ROOTKEY; }
  bool check(const std::string& o, const std::string& key, bool ok, double err, double tol, const std::string& d = "") { return c.check(o, k(key), ok, err, tol, d); }
  bool close(const std::string& o, const std::string& key, double a, double b, double tol, const std::string& d = "") { return c.close(o, k(key), a, b, tol, d); }
  bool truth(const std::string& o, const std::string& key, bool ok, const std::string& d = "") { return c.truth(o, k(key), ok, d); }
  void skip(const std::string& r) { c.skip(r); }
  void probe(const std::string& r) { c.probe(r); }
  void setSig(const std::string& r) { c.setSig(r); }
  void putn(const std::string& a, double v) { c.putn(a, v); }
  void puts(const std::string& a, const std::string& v) { c.puts(a, v); }
};

// Run 'fn' in a forked child (the input classes of the open findings that abort the process). The verdict rests on the
// child's exit status and on its CPU time (not on wall time): 0 = finished, 1 = died (sanitizer report, assertion,
// signal), 2 = exceeded the CPU budget. 'what' receives the first diagnostic line of the child.
static int runInChild(const std::function<void()>& fn, double cpuLimit, std::string& what)
{
  fflush(nullptr);
  pid_t pid = fork();
  if (pid < 0) return 0;
  if (pid == 0)
  {
    int fd = open("c17_child.err", O_WRONLY | O_CREAT | O_TRUNC, 0644);
    if (fd >= 0) { dup2(fd, 2); close(fd); }
    int nul = open("/dev/null", O_WRONLY);
    if (nul >= 0) { dup2(nul, 1); close(nul); }
    struct rlimit rl;
    rl.rlim_cur = (rlim_t)cpuLimit; rl.rlim_max = (rlim_t)cpuLimit + 5;
    setrlimit(RLIMIT_CPU, &rl); // SIGXCPU after cpuLimit seconds of CPU
    try { fn(); } catch (...) {}
    _exit(0);
  }
  int status = 0;
  while (waitpid(pid, &status, 0) < 0 && errno == EINTR) {}
  if (WIFEXITED(status) && WEXITSTATUS(status) == 0) return 0;
  what.clear();
  FILE* f = fopen("c17_child.err", "r");
  if (f)
  {
    char line[600];
    while (fgets(line, sizeof line, f))
      if (strstr(line, "ERROR: ") || strstr(line, "runtime error") || strstr(line, "Assertion"))
      {
        what = line;
        // keep the stable part: drop addresses and pids
        size_t p0 = what.find("ERROR: ");
        if (p0 != std::string::npos) what = what.substr(p0);
        size_t p1 = what.find(" on address");
        if (p1 != std::string::npos) what = what.substr(0, p1);
        if (what.size() > 200) what = what.substr(0, 200);
        while (!what.empty() && (what.back() == '\n' || what.back() == ' ')) what.pop_back();
        break;
      }
    fclose(f);
  }
  if (WIFSIGNALED(status) && (WTERMSIG(status) == SIGXCPU || WTERMSIG(status) == SIGKILL) && what.empty())
  {
    what = fmt("CPU budget of %.0f s exceeded", cpuLimit);
    return 2;
  }
  if (what.empty()) what = fmt("child status 0x%x", status);
  return 1;
}

// ------------------------------------------------------------------------------------------------
// structure catalogue (what the library itself says about each type, asked once through the public API)
// ------------------------------------------------------------------------------------------------
struct TypeInfo
{
  ECov type;
  std::string key;
  int hasRange = 0; // >0 range fitted, <0 scale redundant with sill, 0 none
  bool hasParam = false;
  int minOrder  = -1;
  int maxNDim   = 0;
  double parMax = 0;
};
static std::vector<TypeInfo> CATALOG;
static const TypeInfo& tinfo(const ECov& t)
{
  for (auto& ti : CATALOG)
    if (ti.type == t) return ti;
  throw std::logic_error("unknown type");
}
static void buildCatalog()
{
  if (!CATALOG.empty()) return;
  CovContext ctxt(1, 1);
  auto it = ECov::getIterator();
  while (it.hasNext())
  {
    if (*it != ECov::UNKNOWN && *it != ECov::FUNCTION)
    {
      std::unique_ptr<ACovFunc> c(CovFactory::createCovFunc(*it, ctxt));
      TypeInfo ti;
      ti.type     = *it;
      ti.key      = std::string(it.getKey());
      ti.hasRange = c->hasRange();
      ti.hasParam = c->hasParam();
      ti.minOrder = c->getMinOrder();
      ti.maxNDim  = (int)c->getMaxNDim();
      ti.parMax   = c->getParMax();
      CATALOG.push_back(ti);
    }
    it.toNext();
  }
}
static bool isExotic(const ECov& t)
{
  return t == ECov::MARKOV || t == ECov::GEOMETRIC || t == ECov::POISSON || t == ECov::LINEARSPH;
}

// ------------------------------------------------------------------------------------------------
// case configuration
// ------------------------------------------------------------------------------------------------
enum Src { SRC_DB = 0, SRC_HAND, SRC_VMAP };
static const char* SRCN[] = {"db", "hand", "vmap"};
enum Patho { P_NONE = 0, P_NOISY, P_NONMONO, P_EMPTY, P_NUGGET, P_ZERO, P_HUGE, P_TINY, P_FEW, NPATHO };
static const char* PATN[] = {"none", "noisy", "nonmono", "emptylags", "purenugget", "allzero", "huge", "tiny", "fewpairs"};

struct ConsSpec
{
  EConsElem elem = EConsElem::UNKNOWN;
  int icov = 0, iv1 = 0, iv2 = 0;
  EConsType type = EConsType::LOWER;
  double value   = 0;
};

struct Cfg
{
  int src = 0, ndim = 2, nvar = 1, ndir = 1, patho = 0;
  bool nearSingular = false; // hand-made multivariate variogram whose coregionalisation matrices sit just outside the PSD cone
  double L = 100;        // size of the domain
  double angref = 0;     // direction of the first variogram direction (2-D), degrees
  std::vector<VectorDouble> codirs;
  int npas = 8;
  double dpas = 1;
  std::vector<ECov> types;
  bool distinctTypes = true;
  // options as requested by the user
  bool noreduce = false, authAniso = true, authRot = true, lockSameRot = false, lockRot2d = false,
       lockNo3d = false, lockIso2d = false, goulard = true, keepIntstr = false, flagIntrinsic = false;
  int wmode = 2, maxiter = 1000;
  double tolsigma = 5., tolstop = 1e-6, epsdelta = 1e-5, initdelta = 1.;
  std::vector<ConsSpec> cons;
  double constSill = TEST;
  std::vector<double> constSills; // per-variable totals (Constraints::setConstantSills), empty = none
  std::string consClass = "none";
  bool contradictory = false;
  // classes of requests that the library documents (messerr) as rejected
  std::string expectFail; // "" when the request is acceptable
  bool nvarDrawn = false;
  bool useCovIndices = false;
};

// closed-form variograms of the synthetic truth used for hand-made variograms (harness side only)
static double gam1(int kind, double h, double a)
{
  if (h <= 0) return 0;
  switch (kind)
  {
    case 0: return 1.;                                                        // nugget
    case 1: return 1. - std::exp(-3. * h / a);                                // exponential (practical range a)
    case 2: { double r = h / a; return r >= 1 ? 1. : 1.5 * r - 0.5 * r * r * r; } // spherical
    case 3: return 1. - std::exp(-3. * h * h / (a * a));                      // gaussian
    default: return h / a;                                                    // linear
  }
}

struct Truth
{
  int nst = 1;
  std::vector<int> kind;
  std::vector<double> a, ratio, ang;
  std::vector<Mat> B; // nvar x nvar PSD
};
static Truth genTruth(Rng& r, const Cfg& g)
{
  Truth t;
  t.nst = r.irange(1, 3);
  for (int k = 0; k < t.nst; k++)
  {
    t.kind.push_back(k == 0 && r.coin(0.4) ? 0 : r.irange(1, 4));
    t.a.push_back(g.L * r.uni(0.05, 0.6));
    t.ratio.push_back(r.coin(0.5) ? 1. : r.uni(0.25, 4.));
    t.ang.push_back(r.coin(0.5) ? 0. : r.uni(-80, 80));
    Mat A(g.nvar, g.nvar);
    for (auto& v : A.a) v = r.uni(-1, 1);
    Mat B = ref::mul(A, A.T());
    t.B.push_back(B);
  }
  return t;
}
static double truthGamma(const Truth& t, int iv, int jv, const VectorDouble& h)
{
  double g = 0;
  for (int k = 0; k < t.nst; k++)
  {
    double hh = 0;
    if (h.size() >= 2)
    {
      double c = std::cos(t.ang[k] * PI / 180.), s = std::sin(t.ang[k] * PI / 180.);
      double u = c * h[0] + s * h[1], v = -s * h[0] + c * h[1];
      hh = u * u + v * v / (t.ratio[k] * t.ratio[k]);
      for (size_t d = 2; d < h.size(); d++) hh += h[d] * h[d];
      hh = std::sqrt(hh);
    }
    else
      hh = std::fabs(h[0]);
    g += (double)t.B[k](iv, jv) * gam1(t.kind[k], hh, t.a[k]);
  }
  return g;
}

// ------------------------------------------------------------------------------------------------
// variogram directions
// ------------------------------------------------------------------------------------------------
static std::unique_ptr<VarioParam> makeVarioParam(const Cfg& g)
{
  std::unique_ptr<VarioParam> vp(new VarioParam());
  for (int id = 0; id < g.ndir; id++)
  {
    double tolang = (g.ndir == 1) ? 90. : (g.ndim == 2 ? 90. / g.ndir : 30.);
    DirParam dp(g.npas, g.dpas, 0.5, tolang, 0, 0, TEST, TEST, 0., VectorDouble(), g.codirs[id]);
    vp->addDir(dp);
  }
  return vp;
}
static void drawDirections(Rng& r, Cfg& g)
{
  g.codirs.clear();
  if (g.ndim == 1)
  {
    g.ndir = 1;
    g.codirs.push_back(VectorDouble({1.}));
    return;
  }
  if (g.ndim == 2)
  {
    g.angref = r.coin(0.5) ? 0. : (double)r.irange(-8, 8) * 10.;
    for (int id = 0; id < g.ndir; id++)
    {
      double a = (g.angref + 180. * id / g.ndir) * PI / 180.;
      g.codirs.push_back(VectorDouble({std::cos(a), std::sin(a)}));
    }
    if (g.ndir == 1) g.angref = 0, g.codirs[0] = VectorDouble({1., 0.});
    return;
  }
  // 3-D: x, then z, then y, then the horizontal diagonal
  static const double D[4][3] = {{1, 0, 0}, {0, 0, 1}, {0, 1, 0}, {0.7071067811865476, 0.7071067811865476, 0}};
  for (int id = 0; id < g.ndir; id++) g.codirs.push_back(VectorDouble({D[id][0], D[id][1], D[id][2]}));
}

// ------------------------------------------------------------------------------------------------
// data sets (harness-side spectral simulation; the library's generator is never used)
// ------------------------------------------------------------------------------------------------
struct Data
{
  int n = 0;
  std::vector<VectorDouble> x; // ndim
  std::vector<VectorDouble> z; // nvar
};
static Data genData(Rng& r, const Cfg& g, int n, bool grid, int nx)
{
  Data d;
  d.x.assign(g.ndim, VectorDouble());
  if (grid)
  {
    n = 1;
    for (int i = 0; i < g.ndim; i++) n *= nx;
  }
  d.n = n;
  for (int i = 0; i < g.ndim; i++) d.x[i].resize(n);
  if (!grid)
    for (int k = 0; k < n; k++)
      for (int i = 0; i < g.ndim; i++) d.x[i][k] = r.uni(0, g.L);
  else
    for (int k = 0; k < n; k++)
    {
      int q = k;
      for (int i = 0; i < g.ndim; i++) { d.x[i][k] = (q % nx) * g.L / nx; q /= nx; }
    }
  // latent factors: sums of random cosines with an anisotropic spectrum
  int nf = g.nvar + 1, nw = 12;
  std::vector<VectorDouble> f(nf, VectorDouble(n, 0.));
  double ang = r.uni(0, PI), ratio = r.coin(0.5) ? 1. : r.uni(0.3, 3.);
  for (int q = 0; q < nf; q++)
  {
    double a = g.L * r.uni(0.05, 0.5);
    for (int w = 0; w < nw; w++)
    {
      std::vector<double> k(g.ndim);
      for (int i = 0; i < g.ndim; i++) k[i] = r.normal() * 2. / a;
      if (g.ndim >= 2)
      {
        double u = k[0], v = k[1] * ratio;
        k[0] = std::cos(ang) * u - std::sin(ang) * v;
        k[1] = std::sin(ang) * u + std::cos(ang) * v;
      }
      double ph = r.uni(0, 2 * PI), amp = std::sqrt(2. / nw);
      for (int s = 0; s < n; s++)
      {
        double arg = ph;
        for (int i = 0; i < g.ndim; i++) arg += k[i] * d.x[i][s];
        f[q][s] += amp * std::cos(arg);
      }
    }
  }
  d.z.assign(g.nvar, VectorDouble(n, 0.));
  double nug = r.coin(0.5) ? 0. : r.uni(0.1, 1.);
  for (int v = 0; v < g.nvar; v++)
  {
    std::vector<double> mix(nf);
    for (auto& m : mix) m = r.uni(-1, 1);
    for (int s = 0; s < n; s++)
    {
      double val = 0;
      for (int q = 0; q < nf; q++) val += mix[q] * f[q][s];
      val += nug * r.normal();
      d.z[v][s] = val;
    }
  }
  // pathologies at data level
  double mult = 1;
  if (g.patho == P_HUGE) mult = 1e9;
  if (g.patho == P_TINY) mult = 1e-9;
  for (int v = 0; v < g.nvar; v++)
    for (int s = 0; s < n; s++)
    {
      if (g.patho == P_ZERO) d.z[v][s] = 3.25;                       // constant field -> all-zero variogram
      if (g.patho == P_NUGGET) d.z[v][s] = r.normal();               // white noise
      if (g.patho == P_NOISY && r.coin(0.05)) d.z[v][s] += 20 * r.normal(); // outliers
      d.z[v][s] *= mult;
    }
  return d;
}
static std::unique_ptr<Db> makeDb(const Data& d, const Cfg& g)
{
  std::unique_ptr<Db> db(Db::create());
  for (int i = 0; i < g.ndim; i++) db->addColumns(d.x[i], "x" + std::to_string(i + 1), ELoc::X, i);
  for (int v = 0; v < g.nvar; v++) db->addColumns(d.z[v], "z" + std::to_string(v + 1), ELoc::Z, v);
  return db;
}

// ------------------------------------------------------------------------------------------------
// experimental variograms
// ------------------------------------------------------------------------------------------------
// mutate a computed / hand-made variogram through the public setters
static void mutateVario(Rng& r, const Cfg& g, Vario* v)
{
  int ndir = v->getDirectionNumber();
  for (int id = 0; id < ndir; id++)
  {
    int npas = v->getLagNumber(id);
    for (int iv = 0; iv < g.nvar; iv++)
      for (int jv = 0; jv <= iv; jv++)
        for (int ip = 0; ip < npas; ip++)
        {
          double gg = v->getGg(id, iv, jv, ip, false, false);
          switch (g.patho)
          {
            case P_EMPTY:
              if (r.coin(0.35))
              {
                v->setSw(id, iv, jv, ip, 0.);
                if (r.coin(0.5)) { v->setGg(id, iv, jv, ip, TEST); v->setHh(id, iv, jv, ip, TEST); }
              }
              break;
            case P_NONMONO:
              if (!FFFF(gg)) v->setGg(id, iv, jv, ip, gg * (1. + 0.8 * std::sin(1.7 * ip + id)));
              break;
            default: break;
          }
        }
  }
}

static std::unique_ptr<Vario> makeHandVario(Rng& r, const Cfg& g, const Truth* given = nullptr, double noiseGiven = -1)
{
  auto vp = makeVarioParam(g);
  std::unique_ptr<Vario> v(Vario::create(*vp));
  v->setNVar(g.nvar);
  v->setCalculByName("vg");
  v->internalVariableResize();
  v->internalDirectionResize();
  Truth t = given ? *given : genTruth(r, g);
  double mult = g.patho == P_HUGE ? 1e12 : (g.patho == P_TINY ? 1e-12 : 1.);
  double noise = g.patho == P_NOISY ? 0.5 : (r.coin(0.5) ? 0. : 0.05);
  if (noiseGiven >= 0) noise = noiseGiven;
  if (g.nearSingular)
  {
    // every structure carries the SAME matrix b b' (perfectly correlated variables) with its off-diagonal terms inflated by
    // (1 + e), e = 0.3 tolstop: the simple and cross variograms are proportional to one function of h, so the unconstrained
    // least-squares sill matrix of every fitted structure is proportional to that matrix, whose smallest eigenvalue is
    // negative and of relative size ~ e. A returned model must still have PSD sills ("every structure has a positive
    // semi-definite sill matrix"), however small the negative eigenvalue of the raw least-squares solution.
    double e = 0.3 * g.tolstop;
    std::vector<double> b(g.nvar);
    for (int i = 0; i < g.nvar; i++) b[i] = std::sqrt(std::max(1e-3, (double)t.B[0](i, i))) * (i % 2 ? -1. : 1.);
    for (int k = 0; k < t.nst; k++)
      for (int i = 0; i < g.nvar; i++)
        for (int j = 0; j < g.nvar; j++) t.B[k](i, j) = b[i] * b[j] * (i == j ? 1. : 1. + e) * (k + 1.);
    noise = 0.;
  }
  // variances = total sills of the truth (bounded structures) -- only used by the library as initial values
  VectorDouble vars(g.nvar * g.nvar, 0.);
  for (int iv = 0; iv < g.nvar; iv++)
    for (int jv = 0; jv < g.nvar; jv++)
    {
      double s = 0;
      for (int k = 0; k < t.nst; k++) s += (double)t.B[k](iv, jv);
      vars[iv * g.nvar + jv] = g.patho == P_ZERO ? 0. : s * mult;
    }
  v->setVars(vars);
  for (int id = 0; id < g.ndir; id++)
  {
    for (int ip = 0; ip < g.npas; ip++)
    {
      double hh = (ip == 0 ? r.uni(0.1, 0.4) : ip + r.uni(-0.2, 0.2)) * g.dpas;
      double sw = (double)r.irange(1, 400);
      if (g.patho == P_FEW) sw = r.coin(0.6) ? 0. : 1.;
      VectorDouble h(g.ndim);
      for (int i = 0; i < g.ndim; i++) h[i] = hh * g.codirs[id][i];
      // one multiplicative noise factor per lag keeps the noisy cross-variograms inside the Cauchy-Schwarz cone
      double fac = 1. + noise * r.uni(-1, 1);
      for (int iv = 0; iv < g.nvar; iv++)
        for (int jv = 0; jv <= iv; jv++)
        {
          double gg = truthGamma(t, iv, jv, h) * fac * mult;
          if (g.patho == P_ZERO) gg = 0.;
          if (g.patho == P_NUGGET) gg = (double)(t.B[0](iv, jv)) * mult;
          v->setHh(id, iv, jv, ip, hh);
          v->setSw(id, iv, jv, ip, sw);
          v->setGg(id, iv, jv, ip, gg);
        }
    }
  }
  mutateVario(r, g, v.get());
  return v;
}

// ------------------------------------------------------------------------------------------------
// drawing the configuration
// ------------------------------------------------------------------------------------------------
static void drawTypes(Rng& r, Cfg& g)
{
  static const std::vector<ECov> classic = {ECov::NUGGET, ECov::EXPONENTIAL, ECov::SPHERICAL, ECov::GAUSSIAN,
                                            ECov::CUBIC,  ECov::LINEAR,      ECov::MATERN};
  std::vector<ECov> offered; // admissible in this dimension according to the library's own max dimension
  std::vector<ECov> dimlimited, exotic;
  for (auto& ti : CATALOG)
  {
    if (isExotic(ti.type))
    {
      if (!(AVOID_MARKOV && ti.type == ECov::MARKOV)) exotic.push_back(ti.type);
      continue;
    }
    if (ti.maxNDim > 0 && g.ndim > ti.maxNDim) { dimlimited.push_back(ti.type); continue; }
    offered.push_back(ti.type);
  }
  int nt = r.irange(1, 4);
  if (r.coin(0.35)) nt = r.irange(1, 2);
  g.types.clear();
  for (int k = 0; k < nt; k++)
  {
    for (int tries = 0; tries < 50; tries++)
    {
      ECov t = r.coin(0.6) ? r.pick(classic) : r.pick(offered);
      bool dup = false;
      for (auto& u : g.types) dup |= (u == t);
      if (dup && !(g.noreduce && r.coin(0.15))) continue;
      if (dup) g.distinctTypes = false;
      g.types.push_back(t);
      break;
    }
  }
  if (g.types.empty()) g.types.push_back(ECov::SPHERICAL);
  // rejected requests: a structure limited to a lower space dimension
  if (!AVOID_NEGATIVE_NPAR && !dimlimited.empty() && r.coin(0.03))
  {
    g.types[r.irange(0, (int)g.types.size() - 1)] = r.pick(dimlimited);
    g.expectFail = "dimlimited-structure";
  }
  else if (!AVOID_EXOTIC_TYPES && r.coin(0.02))
  {
    g.types[r.irange(0, (int)g.types.size() - 1)] = r.pick(exotic);
    g.consClass = "none";
    // these fits work on NaN values and never converge: with the default maxiter = 1000 a single multivariate case cost
    // 295 CPU seconds; the class is kept but with a small iteration budget
    g.maxiter = std::min(g.maxiter, 30);
  }
}
static bool hasExotic(const Cfg& g)
{
  for (auto& t : g.types)
    if (isExotic(t)) return true;
  return false;
}

// Which parameters does the user request make available for constraints? (generator side only: we only
// constrain parameters that exist under the *requested* options and the variogram geometry; the oracle itself
// just reads the fitted model.)
static void drawConstraints(Rng& r, Cfg& g)
{
  g.cons.clear();
  g.constSill = TEST;
  g.consClass = "none";
  if (hasExotic(g) || !g.expectFail.empty()) return;
  double p = r.u01();
  if (p < 0.45) return;
  int nt = (int)g.types.size();
  double hmax = g.npas * g.dpas;
  // lock_iso2d: in a 2-D space the library keeps the second range but withdraws the rotation ("if (optvar.getLockIso2d())
  // optvar.setAuthRotation(0)"); what the flag means in 2-D is not documented, so no second-range / angle constraint is
  // drawn together with it.
  bool anisoOk = g.authAniso && g.ndim == 2 && g.ndir >= 2 && g.src != SRC_VMAP && !g.lockIso2d;
  bool rotOk   = anisoOk && g.authRot && g.ndir > g.ndim;
  if (g.src == SRC_VMAP) { anisoOk = (g.ndim == 2); rotOk = anisoOk; } // vmap fit always authorises both
  if (p < 0.57)
  {
    // constant total sill (Goulard under constraints)
    g.constSill = r.coin(0.6) ? 1. : r.loguni(0.1, 10.);
    g.consClass = "constsill";
    g.maxiter = std::min(g.maxiter, CONSTSILL_MAXITER);
    return;
  }
  g.consClass = "items";
  int nc = r.irange(1, 4);
  bool wantContra = r.coin(0.12);
  std::vector<std::string> used;
  int firstRot = -1;
  for (int k = 0; k < nt; k++)
    if (tinfo(g.types[k]).hasRange != 0 && firstRot < 0) firstRot = k;
  for (int c = 0; c < nc; c++)
  {
    ConsSpec s;
    s.icov              = r.irange(0, nt - 1);
    const TypeInfo& ti  = tinfo(g.types[s.icov]);
    int what            = r.irange(0, 3);
    double lo = 0, hi = 0;
    if (what == 0 && ti.hasRange > 0)
    {
      s.elem = EConsElem::RANGE;
      s.iv1  = (anisoOk && r.coin(0.4)) ? 1 : 0;
      lo = hmax * 0.05; hi = hmax * 1.5;
    }
    else if (what == 1 && ti.hasRange != 0 && rotOk && (!g.lockSameRot || s.icov == firstRot))
    {
      s.elem = EConsElem::ANGLE;
      s.iv1  = 0;
      lo = -80; hi = 80;
    }
    else if (what == 2 && ti.hasParam && ti.parMax > 0 && !FFFF(ti.parMax))
    {
      s.elem = EConsElem::PARAM;
      lo = 0.05; hi = std::min(ti.parMax, 3.) * 0.95;
    }
    else if (what == 3)
    {
      s.elem = EConsElem::SILL;
      s.iv1  = r.irange(0, g.nvar - 1);
      s.iv2  = r.irange(0, s.iv1);
      lo = 0.01; hi = 2.;
      if (g.patho == P_HUGE || g.patho == P_TINY) { lo = 0.01; hi = 2.; }
    }
    else
      continue;
    std::string id = std::string(s.elem.getKey()) + ":" + std::to_string(s.icov) + ":" + std::to_string(s.iv1) + ":" + std::to_string(s.iv2);
    bool dup = false;
    for (auto& u : used) dup |= (u == id);
    if (dup) continue;
    used.push_back(id);
    int kind = r.irange(0, 3); // lower, upper, equal, box
    double a = s.elem == EConsElem::ANGLE ? r.uni(lo, hi) : r.loguni(lo, hi);
    double b = s.elem == EConsElem::ANGLE ? r.uni(lo, hi) : r.loguni(lo, hi);
    if (a > b) std::swap(a, b);
    if (s.elem == EConsElem::ANGLE) { a = std::round(a); b = std::round(b); if (b - a < 5) b = a + 5; }
    if (kind == 0) { s.type = EConsType::LOWER; s.value = a; g.cons.push_back(s); }
    else if (kind == 1) { s.type = EConsType::UPPER; s.value = b; g.cons.push_back(s); }
    else if (kind == 2) { s.type = EConsType::EQUAL; s.value = a; g.cons.push_back(s); }
    else
    {
      if (wantContra && !g.contradictory && b > a * 1.2 + 1e-9)
      {
        std::swap(a, b); // lower bound above upper bound
        g.contradictory = true;
      }
      s.type = EConsType::LOWER; s.value = a; g.cons.push_back(s);
      s.type = EConsType::UPPER; s.value = b; g.cons.push_back(s);
    }
  }
  if (g.cons.empty()) { g.consClass = "none"; return; }
  bool hasSill = false, negSill = false;
  for (auto& s : g.cons) hasSill |= (s.elem == EConsElem::SILL);
  if (g.contradictory) g.consClass = "contradictory";
  // model_auto.cpp: "In Multivariate case, Goulard option is mandatory" -- sill items switch Goulard off
  if (hasSill && g.nvar > 1)
  {
    if (AVOID_NEGATIVE_NPAR)
    {
      std::vector<ConsSpec> keep;
      for (auto& s : g.cons)
        if (s.elem != EConsElem::SILL) keep.push_back(s);
      g.cons = keep;
      if (g.cons.empty()) g.consClass = "none";
    }
    else
      g.expectFail = "sill-items-multivariate";
  }
  (void)negSill;
}

static void drawOptions(Rng& r, Cfg& g)
{
  // Option_VarioFit: every documented flag, each drawn independently (defaults are the most likely value)
  g.noreduce      = r.coin(0.45);
  g.authAniso     = !r.coin(0.25);
  g.authRot       = !r.coin(0.25);
  g.lockSameRot   = r.coin(0.25);
  g.lockRot2d     = r.coin(0.15);
  g.lockNo3d      = r.coin(0.10);
  g.lockIso2d     = r.coin(0.10);
  g.keepIntstr    = r.coin(0.10);
  g.flagIntrinsic = r.coin(0.02);
  if (AVOID_FLAG_INTRINSIC) g.flagIntrinsic = false;
  // flag_intrinsic together with Goulard switched off does not crash (the sills are never fitted) but leaves the flag in
  // the file-static OPTVAR of model_auto.cpp, which the next fitFromVMap of the process then obeys (open finding
  // C17:vmap-fit-uses-options-of-previous-fit, scripted case 15): not drawn at random, a case must not depend on its predecessors
  g.goulard       = !r.coin(0.12);
  if (g.flagIntrinsic) g.goulard = true;
  // Option_AutoFit
  g.wmode     = r.coin(0.4) ? 2 : r.irange(0, 3);
  // maxiter: the default (1000) costs up to minutes per fit under ASan when foxleg creeps; it is kept for a quarter of
  // the cases and smaller documented values are drawn otherwise
  {
    double q  = r.u01();
    g.maxiter = q < 0.25 ? 1000 : (q < 0.60 ? 100 : (q < 0.80 ? 30 : (q < 0.90 ? 10 : (q < 0.95 ? 3 : 1))));
  }
  g.tolsigma  = r.coin(0.6) ? 5. : r.pick(std::vector<double>{0., 1., 20., 60.});
  g.tolstop   = r.coin(0.7) ? 1e-6 : r.pick(std::vector<double>{1e-3, 1e-9});
  g.epsdelta  = r.coin(0.7) ? 1e-5 : r.pick(std::vector<double>{1e-3, 1e-8});
  g.initdelta = r.coin(0.7) ? 1. : r.pick(std::vector<double>{0.1, 10.});
}

static Cfg drawCfg(Rng& r, bool thorough)
{
  Cfg g;
  double p = r.u01();
  g.src    = p < 0.45 ? SRC_HAND : (p < 0.85 ? SRC_DB : SRC_VMAP);
  p        = r.u01();
  g.ndim   = p < 0.15 ? 1 : (p < 0.80 ? 2 : 3);
  if (g.src == SRC_VMAP) g.ndim = 2;
  p      = r.u01();
  g.nvar = p < 0.55 ? 1 : (p < 0.85 ? 2 : 3);
  g.nvarDrawn = true;
  if (g.src == SRC_VMAP && r.coin(0.8)) g.nvar = 1; // nvar > 1 cannot be fitted from a variogram map at all (see report)
  g.ndir = g.ndim == 1 ? 1 : r.irange(1, 4);
  g.patho = r.coin(0.45) ? P_NONE : r.irange(1, NPATHO - 1);
  g.L     = r.pick(std::vector<double>{1., 100., 100., 5000.});
  g.npas  = r.irange(4, thorough ? 12 : 8);
  g.dpas  = g.L / 2. / g.npas;
  drawDirections(r, g);
  drawOptions(r, g);
  drawTypes(r, g);
  drawConstraints(r, g);
  g.useCovIndices = r.coin(0.3);
  // multivariate fits run Goulard (up to maxiter sweeps) inside every foxleg evaluation: with the default maxiter = 1000
  // one 3-D bivariate case exceeded 600 CPU seconds under ASan; the default is kept for monovariate cases only
  if (g.nvar >= 2) g.maxiter = std::min(g.maxiter, 100);
  // rejected requests (the library's own preconditions, each with a messerr in model_auto.cpp)
  if (g.expectFail.empty() && !hasExotic(g))
  {
    bool sillItems = false;
    for (auto& s : g.cons) sillItems |= (s.elem == EConsElem::SILL);
    if (g.nvar > 1 && !g.goulard)
    {
      if (AVOID_NEGATIVE_NPAR) g.goulard = true; else g.expectFail = "multivariate-goulard-off";
    }
    else if (g.keepIntstr)
    {
      bool hasInt = false;
      for (auto& t : g.types) hasInt |= (tinfo(t).minOrder == 0);
      if (!hasInt) { if (AVOID_NEGATIVE_NPAR) g.keepIntstr = false; else g.expectFail = "keepintstr-no-intrinsic-structure"; }
    }
    if (g.expectFail.empty() && !FFFF(g.constSill) && !g.goulard && !(g.src == SRC_VMAP && g.nvar > 1))
      g.expectFail = "constsill-goulard-off"; // "When Constraints on the sum of Sills are defined The Goulard option must be switched ON"
    (void)sillItems;
  }
  return g;
}

// ------------------------------------------------------------------------------------------------
// helpers for the oracles
// ------------------------------------------------------------------------------------------------
static double angdiff(double a, double b)
{
  double d = std::fmod(a - b, 360.);
  if (d > 180) d -= 360;
  if (d < -180) d += 360;
  return std::fabs(d);
}
static std::string typesKey(const Cfg& g)
{
  std::string s;
  for (auto& t : g.types) s += (s.empty() ? "" : "+") + std::string(t.getKey());
  return s;
}

static void validateModel(KCtx c, const Cfg& g, Model* m, const std::string& ep, double gmax)
{
  int ncov = m->getCovaNumber();
  std::string cls = "nvar=" + std::to_string(g.nvar);
  bool csMulti    = !FFFF(g.constSill) && g.nvar > 1;
  // ---- map final structures to requested ones (reduction may have discarded some)
  std::vector<int> orig(ncov, -1);
  bool mapped = true;
  if (ncov == (int)g.types.size())
  {
    for (int k = 0; k < ncov; k++) orig[k] = k;
    for (int k = 0; k < ncov; k++)
      if (m->getCovaType(k) != g.types[k]) mapped = false;
  }
  else if (g.distinctTypes)
  {
    for (int k = 0; k < ncov; k++)
    {
      for (int j = 0; j < (int)g.types.size(); j++)
        if (g.types[j] == m->getCovaType(k)) orig[k] = j;
      if (orig[k] < 0) mapped = false;
    }
  }
  else
    mapped = false;

  // opt-noreduce. Option_VarioFit.hpp: "flag_noreduce: ... The current option forbids this simplification, which
  // ensures that all the basic structures are kept and their number remains unchanged."
  if (g.noreduce)
    c.truth("opt-noreduce", "C17:opt:noreduce-structures-changed:" + std::string(SRCN[g.src]),
            ncov == (int)g.types.size() && mapped, fmt("requested %zu structures, got %d", g.types.size(), ncov));
  c.truth("structures-subset", "C17:model:structures-not-a-subset-of-request:" + std::string(SRCN[g.src]),
          ncov >= 1 && ncov <= (int)g.types.size() && (mapped || !g.distinctTypes),
          fmt("requested %zu (%s), got %d", g.types.size(), typesKey(g).c_str(), ncov));
  if (m->getVariableNumber() != g.nvar || (int)m->getDimensionNumber() != g.ndim)
    c.truth("model-shape", "C17:model:nvar-ndim-changed", false,
            fmt("nvar %d ndim %d", m->getVariableNumber(), (int)m->getDimensionNumber()));

  bool exotic = hasExotic(g);
  for (int k = 0; k < ncov; k++)
  {
    const CovAniso* cv = m->getCova(k);
    std::string tk     = std::string(cv->getType().getKey());
    std::string kcls   = exotic ? "exotic-type" : cls;
    // ---- sill-psd
    Mat S(g.nvar, g.nvar);
    bool fin = true, sym = true;
    double tr = 0, mx = 0;
    for (int i = 0; i < g.nvar; i++)
      for (int j = 0; j < g.nvar; j++)
      {
        double v = cv->getSill(i, j);
        if (!std::isfinite(v) || FFFF(v)) fin = false;
        S(i, j) = v;
        mx      = std::max(mx, std::fabs(v));
        if (i == j) tr += v;
      }
    for (int i = 0; i < g.nvar && fin; i++)
      for (int j = 0; j < i; j++)
        if (std::fabs((double)(S(i, j) - S(j, i))) > 1e-12 * mx) sym = false;
    if (!fin)
      c.check("sill-psd", "C17:sill:not-finite:" + cls + ":" + g.consClass, false, INFINITY, 0,
              fmt("structure %d (%s) has a NaN/undefined sill", k, tk.c_str()));
    else if (!sym)
      c.check("sill-psd", "C17:sill:not-symmetric:" + kcls, false, 1, 0, fmt("structure %d (%s)", k, tk.c_str()));
    else
    {
      auto ev    = ref::eigsym(S);
      double tol = 1e3 * EPS * std::max(std::fabs(tr), mx);
      double neg = std::max(0., -(double)ev[0]);
      c.check("sill-psd", "C17:sill:not-psd:" + kcls + ":" + g.consClass + (g.goulard ? "" : ":goulard-off"),
              neg <= tol, neg, tol, fmt("structure %d (%s): min eigenvalue %.6g, trace %.6g", k, tk.c_str(), (double)ev[0], tr));
    }
    // ---- range-pos
    if (cv->hasRange() != 0)
    {
      bool ok = true, finite = true;
      std::string det;
      for (int d = 0; d < g.ndim; d++)
      {
        double rg = cv->getRange(d);
        if (!std::isfinite(rg)) finite = false;
        if (!(std::isfinite(rg) && rg > 0)) ok = false;
        if (std::isfinite(rg) && rg > 1e30) c.probe("range-above-1e30"); // positive, but beyond the library's own "undefined" marker
        det += fmt("%g ", rg);
      }
      c.truth("range-pos", finite ? "C17:range:not-positive" : "C17:range:not-finite", ok, fmt("structure %d (%s) ranges %s", k, tk.c_str(), det.c_str()));
      VectorDouble ang = cv->getAnisoAngles();
      bool aok         = true;
      for (auto a : ang.getVector()) aok &= std::isfinite(a) && !FFFF(a);
      c.truth("angle-finite", "C17:angle:not-finite:" + kcls, aok, fmt("structure %d (%s)", k, tk.c_str()));
    }
    // ---- param-adm. ACovFunc::setParam rejects param < 0 or param > getParMax(): that is the admissible interval.
    if (cv->hasParam())
    {
      double p = cv->getParam(), pm = cv->getParMax();
      bool ok = std::isfinite(p) && !FFFF(p) && p >= 0 && (FFFF(pm) || pm <= 0 || p <= pm * (1 + 1e-12));
      c.truth("param-adm", "C17:param:outside-admissible-interval:" + tk, ok, fmt("structure %d param %g (max %g)", k, p, pm));
    }
  }
  if (exotic) return; // options / constraints are not drawn for this class

  // ---- user constraints
  auto finalOf = [&](int icov) {
    for (int k = 0; k < ncov; k++)
      if (orig[k] == icov) return k;
    return -1;
  };
  for (auto& s : g.cons)
  {
    std::string ek = std::string(s.elem.getKey());
    std::string tk = std::string(s.type.getKey());
    if (!mapped) { c.skip("cons:structure-mapping-ambiguous"); continue; }
    int k = finalOf(s.icov);
    if (k < 0) { c.skip("cons:structure-discarded"); continue; }
    const CovAniso* cv = m->getCova(k);
    double got = TEST;
    if (s.elem == EConsElem::RANGE) got = cv->getRange(s.iv1);
    if (s.elem == EConsElem::PARAM) got = cv->getParam();
    if (s.elem == EConsElem::SILL) got = cv->getSill(s.iv1, s.iv2);
    if (s.elem == EConsElem::ANGLE)
    {
      got = cv->getAnisoAngles()[s.iv1];
      // the rotation of an isotropic structure is immaterial (and reported as 0 by the library)
      double aniso = 0;
      for (int d = 1; d < g.ndim; d++) aniso = std::max(aniso, std::fabs(cv->getRange(d) - cv->getRange(0)) / std::fabs(cv->getRange(0)));
      if (!(aniso > 1e-9)) { c.skip("cons:angle-of-isotropic-structure"); continue; }
    }
    double scale = std::max(std::fabs(s.value), std::fabs(got));
    double tol   = 1e-9 * scale + 1e-12;
    if (s.elem == EConsElem::ANGLE) tol = 1e-6;
    double viol = 0;
    if (s.type == EConsType::LOWER) viol = s.value - got;
    if (s.type == EConsType::UPPER) viol = got - s.value;
    if (s.type == EConsType::EQUAL) viol = s.elem == EConsElem::ANGLE ? angdiff(got, s.value) : std::fabs(got - s.value);
    if (!std::isfinite(got)) viol = INFINITY;
    viol = std::max(viol, 0.);
    // D4: with Goulard switched off by the user a sill bound is applied to the AIC coefficient (sqrt not taken);
    // D3: after a non-converged pass followed by a reduction the bounds are reset without the user constraints.
    // Any other violated constraint keeps a specific key.
    bool reduced = !g.noreduce && ncov < (int)g.types.size();
    std::string key = "C17:cons:" + ek + ":violated" + (g.contradictory ? ":contradictory-box" : "");
    if (s.elem == EConsElem::SILL && !g.goulard) key = K_AIC;
    else if (reduced) key = K_LOSTBOUND;
    c.check("cons-" + ek, key, viol <= tol, viol, tol,
            fmt("structure %d(%s) %s[%d,%d] %s %.10g, fitted %.10g", s.icov, std::string(g.types[s.icov].getKey()).c_str(),
                ek.c_str(), s.iv1, s.iv2, tk.c_str(), s.value, got));
  }
  // Constraints.hpp: "_constantSillValue: Constant Sill as a constraint" -- the total sill of every variable
  if (!FFFF(g.constSill))
  {
    for (int iv = 0; iv < g.nvar; iv++)
    {
      double tot = 0;
      for (int k = 0; k < ncov; k++) tot += m->getCova(k)->getSill(iv, iv);
      // the sills solve a constrained least-squares system whose right-hand side has the magnitude of the
      // experimental values (gmax): absolute accuracy cannot be better than a multiple of eps * gmax
      // Constraints.hpp: "_constantSills: Vector of constant Sills (expanded to the number of variables)": a total given for a
      // variable is the one that applies to it, the scalar fills the variables without one
      double wantTot = iv < (int)g.constSills.size() ? g.constSills[iv] : g.constSill;
      double tol = 1e-6 * wantTot + 1e4 * EPS * gmax;
      double err = std::fabs(tot - wantTot);
      if (!std::isfinite(tot)) err = INFINITY;
      bool reduced = !g.noreduce && ncov < (int)g.types.size();
      c.check("cons-constsill", reduced ? std::string(K_CSREDUCE) : std::string("C17:cons:constant-sill:violated"), err <= tol, err, tol,
              fmt("variable %d total sill %.10g, requested %.10g", iv, tot, wantTot));
    }
  }

  // ---- options
  // "auth_aniso: When True, the inference looks for an anisotropic fit" => false: the fitted structures are isotropic
  if (!g.authAniso && g.src != SRC_VMAP)
  {
    bool ok = true;
    std::string det;
    for (int k = 0; k < ncov; k++)
    {
      const CovAniso* cv = m->getCova(k);
      if (cv->hasRange() == 0) continue;
      for (int d = 1; d < g.ndim; d++)
        if (std::fabs(cv->getRange(d) - cv->getRange(0)) > 1e-9 * std::fabs(cv->getRange(0)))
        {
          ok = false;
          det += fmt("structure %d: %g vs %g; ", k, cv->getRange(0), cv->getRange(d));
        }
    }
    c.truth("opt-iso", "C17:opt:authAniso-false-but-anisotropic:ndim=" + std::to_string(g.ndim), ok, det);
  }
  // "lock_iso2d: When True, the inference looks for a 2-D isotropic model"
  // Only asserted in 3-D (isotropy in the horizontal plane). In a 2-D space the library ignores the flag (st_parid_alloc
  // tests it for ndim == 3 only) and the documentation does not say which of the two readings is meant.
  if (g.lockIso2d && g.ndim == 3 && g.src != SRC_VMAP)
  {
    bool ok = true;
    std::string det;
    for (int k = 0; k < ncov; k++)
    {
      const CovAniso* cv = m->getCova(k);
      if (cv->hasRange() == 0) continue;
      if (std::fabs(cv->getRange(1) - cv->getRange(0)) > 1e-9 * std::fabs(cv->getRange(0)))
      {
        ok = false;
        det += fmt("structure %d: %g vs %g; ", k, cv->getRange(0), cv->getRange(1));
      }
    }
    c.truth("opt-iso2d", K_ISO2D, ok, det);
  }
  // The same promise when the library switches the lock on by itself: in 3-D, with at most one direction in the horizontal
  // plane, st_alter_model_optvar sets lock_iso2d ("if (n_2d <= 1) optvar.setLockIso2d(1)"): the returned structures are
  // isotropic in the horizontal plane (own key: the user did not ask for it)
  if (!g.lockIso2d && g.ndim == 3 && g.src != SRC_VMAP)
  {
    int n2d = 0;
    for (int id = 0; id < g.ndir; id++)
      if (std::fabs(g.codirs[id][2]) < 1e-12) n2d++;
    if (n2d <= 1)
    {
      bool ok = true;
      std::string det;
      for (int k = 0; k < ncov; k++)
      {
        const CovAniso* cv = m->getCova(k);
        if (cv->hasRange() == 0) continue;
        if (std::fabs(cv->getRange(1) - cv->getRange(0)) > 1e-9 * std::fabs(cv->getRange(0)))
        {
          ok = false;
          det += fmt("structure %d: %g vs %g; ", k, cv->getRange(0), cv->getRange(1));
        }
      }
      c.truth("opt-auto-iso2d", "C17:opt:at-most-one-horizontal-direction:horizontal-ranges-differ", ok, det);
    }
  }
  // "auth_rotation: When True, the inference looks for a possible rotation" => false: no rotation is inferred, hence
  // all structures carry one and the same (not fitted) rotation; when the first variogram direction is the X axis
  // that rotation is the identity.
  // "lock_samerot: When True, the inference locks the same anisotropy for all basic structures"
  if ((!g.authRot || g.lockSameRot || !g.authAniso) && g.src != SRC_VMAP)
  {
    bool same = true, zero = true;
    VectorDouble a0;
    std::string det;
    for (int k = 0; k < ncov; k++)
    {
      const CovAniso* cv = m->getCova(k);
      if (cv->hasRange() == 0) continue;
      VectorDouble a = cv->getAnisoAngles();
      if (a0.empty()) a0 = a;
      for (int d = 0; d < (int)a.size(); d++)
      {
        if (angdiff(a[d], a0[d]) > 1e-6) { same = false; det += fmt("structure %d angle[%d]=%.9g vs %.9g; ", k, d, a[d], a0[d]); }
        if (angdiff(a[d], 0.) > 1e-6) zero = false;
      }
    }
    std::string why = !g.authAniso ? "authAniso=false" : (!g.authRot ? "authRotation=false" : "lockSamerot");
    c.truth("opt-samerot", "C17:opt:rotation-differs-between-structures:" + why, same, det);
    bool firstIsX = std::fabs(g.codirs[0][0] - 1.) < 1e-12;
    if ((!g.authRot || !g.authAniso) && firstIsX)
      c.truth("opt-norot", "C17:opt:rotation-present-although-not-authorised:" + why, zero, det);
  }
  // "lock_rot2d: When True, the anisotropy is restricted to a rotation around Z-axis only"
  if (g.ndim == 3 && g.lockRot2d && g.src != SRC_VMAP)
  {
    bool ok = true;
    std::string det;
    for (int k = 0; k < ncov; k++)
    {
      const CovAniso* cv = m->getCova(k);
      if (cv->hasRange() == 0) continue;
      VectorDouble a = cv->getAnisoAngles();
      for (int d = 1; d < (int)a.size(); d++)
        if (angdiff(a[d], 0.) > 1e-6) { ok = false; det += fmt("structure %d angle[%d]=%g; ", k, d, a[d]); }
    }
    c.truth("opt-rot2d", "C17:opt:lockRot2d-but-rotated-out-of-plane", ok, det);
  }
  // "_keep_intstr: Keep at least one intrinsic structure" (Option_VarioFit.hpp, member comment; the class comment says
  // "keep_instr: When True, at least ONE basic structure must be kept in the Model")
  if (g.keepIntstr)
  {
    bool reqHas = false, gotHas = false;
    for (auto& t : g.types) reqHas |= (tinfo(t).minOrder == 0);
    for (int k = 0; k < ncov; k++) gotHas |= (tinfo(m->getCovaType(k)).minOrder == 0);
    if (reqHas) c.truth("opt-keepintstr", "C17:opt:keepIntstr-but-no-intrinsic-structure-left", gotHas && ncov >= 1, "");
  }
  (void)ep;
}

// save / reload / use in kriging
static void useModel(Rng& r, KCtx c, const Cfg& g, Model* m)
{
  std::string cls = std::string(SRCN[g.src]) + ":nvar=" + std::to_string(g.nvar);
  ASerializable::unsetContainerName();
  ASerializable::unsetPrefixName();
  bool okw = m->dumpToNF("c17_model.nf");
  c.truth("nf-write", "C17:nf:dumpToNF-failed:" + cls, okw, "");
  if (!okw) return;
  std::unique_ptr<Model> m2;
  try
  {
    m2.reset(Model::createFromNF("c17_model.nf", false));
  }
  catch (const std::exception& e)
  {
    std::string what = e.what();
    size_t at = what.find(": ");
    if (what.rfind("/", 0) == 0 && at != std::string::npos) what = what.substr(at + 2);
    for (auto& ch : what) if (ch == ' ' || ch == ':') ch = '-';
    c.check("nf-read", "C17:nf:createFromNF-throws:" + what.substr(0, 48), false, 1, 0, std::string(e.what()).substr(0, 160) + " types " + typesKey(g));
    return;
  }
  c.truth("nf-read", "C17:nf:createFromNF-failed", m2 != nullptr, "types " + typesKey(g));
  if (!m2) return;
  bool same = m2->getCovaNumber() == m->getCovaNumber() && m2->getVariableNumber() == m->getVariableNumber() &&
              m2->getDimensionNumber() == m->getDimensionNumber();
  double worst = 0;
  std::string det;
  for (int k = 0; same && k < m->getCovaNumber(); k++)
  {
    const CovAniso *a = m->getCova(k), *b = m2->getCova(k);
    if (a->getType() != b->getType()) { same = false; break; }
    auto cmp = [&](double x, double y, double scale, const char* what) {
      double e = std::fabs(x - y) / (scale > 0 ? scale : 1.);
      if (!std::isfinite(x) || FFFF(x)) return; // a non-finite fitted value is reported by sill-psd / range-pos already
      if (e > worst) { worst = e; det = fmt("structure %d %s: %.17g vs %.17g", k, what, x, y); }
    };
    double smax = 0;
    for (int i = 0; i < g.nvar; i++)
      for (int j = 0; j < g.nvar; j++) smax = std::max(smax, std::fabs(a->getSill(i, j)));
    for (int i = 0; i < g.nvar; i++)
      for (int j = 0; j < g.nvar; j++) cmp(a->getSill(i, j), b->getSill(i, j), smax, "sill");
    if (a->hasRange() != 0)
    {
      for (int d = 0; d < g.ndim; d++) cmp(a->getRange(d), b->getRange(d), std::fabs(a->getRange(d)), "range");
      // compare the rotation matrices (angles are not unique). Model::_serialize does not write the rotation of an
      // isotropic structure (it is immaterial), so the rotation is only compared for clearly anisotropic structures.
      double aniso = 0;
      for (int d = 1; d < g.ndim; d++) aniso = std::max(aniso, std::fabs(a->getRange(d) - a->getRange(0)) / std::fabs(a->getRange(0)));
      if (aniso > 1e-6)
        for (int i = 0; i < g.ndim; i++)
          for (int j = 0; j < g.ndim; j++) cmp(a->getAnisoRotMat(i, j), b->getAnisoRotMat(i, j), 1., "rotation");
    }
    if (a->hasParam()) cmp(a->getParam(), b->getParam(), std::max(1e-300, std::fabs(a->getParam())), "param");
  }
  if (!same)
    c.truth("nf-roundtrip", "C17:nf:reloaded-model-has-different-structures:" + cls, false, "");
  else
    c.check("nf-roundtrip", "C17:nf:reloaded-model-differs:" + cls, worst <= 1e-9, worst, 1e-9, det);

  // ---- kriging with the reloaded model. The drift order is raised to what the fitted structures require
  // (Model::isValid: "Covariance implies a order >= ..."), ordinary kriging otherwise.
  int order = std::max(0, m2->getCovaMinIRFOrder());
  m2->setDriftIRF(order);
  double tot = 0;
  for (int k = 0; k < m2->getCovaNumber(); k++)
    for (int i = 0; i < g.nvar; i++) tot += std::fabs(m2->getCova(k)->getSill(i, i));
  int nd = g.ndim == 1 ? 9 : (g.ndim == 2 ? 14 : 22), nt = 4;
  Data din;
  din.x.assign(g.ndim, VectorDouble(nd));
  din.z.assign(g.nvar, VectorDouble(nd));
  double box = g.npas * g.dpas * 2.;
  for (int s = 0; s < nd; s++)
  {
    for (int i = 0; i < g.ndim; i++) din.x[i][s] = r.uni(0, box);
    for (int v = 0; v < g.nvar; v++) din.z[v][s] = r.normal();
  }
  auto dbin = makeDb(din, g);
  std::unique_ptr<Db> dbout(Db::create());
  for (int i = 0; i < g.ndim; i++)
  {
    VectorDouble x(nt);
    for (int s = 0; s < nt; s++) x[s] = r.uni(0.1 * box, 0.9 * box);
    dbout->addColumns(x, "x" + std::to_string(i + 1), ELoc::X, i);
  }
  std::unique_ptr<NeighUnique> neigh(NeighUnique::create());
  int ncol0 = dbout->getColumnNumber();
  int err   = 0;
  try
  {
    err = kriging(dbin.get(), dbout.get(), m2.get(), neigh.get());
  }
  catch (const std::exception& e)
  {
    std::string what = e.what();
    size_t at = what.find(": ");
    if (what.rfind("/", 0) == 0 && at != std::string::npos) what = what.substr(at + 2);
    for (auto& ch : what) if (ch == ' ' || ch == ':') ch = '-';
    c.check("kriging-runs", "C17:kriging:throws:" + what.substr(0, 48), false, 1, 0, std::string(e.what()).substr(0, 160) + " types " + typesKey(g));
    return;
  }
  std::string kk = cls + (hasExotic(g) ? ":exotic-type" : "");
  if (tot == 0 || !std::isfinite(tot))
  {
    c.skip("kriging:zero-or-invalid-model");
    return;
  }
  c.truth("kriging-runs", "C17:kriging:error-with-fitted-model:" + kk, err == 0, "types " + typesKey(g) + fmt(" order %d", order));
  if (err != 0) return;
  int nnew = dbout->getColumnNumber() - ncol0;
  bool finite = true;
  int ndef = 0, nall = 0;
  for (int col = ncol0; col < ncol0 + nnew; col++)
    for (int s = 0; s < nt; s++)
    {
      double v = dbout->getArray(s, col);
      nall++;
      if (FFFF(v)) continue;
      ndef++;
      if (!std::isfinite(v)) finite = false;
    }
  c.truth("kriging-finite", "C17:kriging:nan-or-inf-result:" + kk, finite && nnew == 2 * g.nvar,
          fmt("%d new columns, %d/%d defined", nnew, ndef, nall));
  if (ndef == 0) c.skip("kriging:all-targets-undefined(singular system)");
  else c.probe("kriging-defined");
}


// ------------------------------------------------------------------------------------------------
// sill fitting alone (Goulard) on a model whose structures, ranges and rotations are given:
// ModelOptimSillsVario::fit (AModelOptimSills.cpp) and model_fitting_sills (model_auto.cpp)
// ------------------------------------------------------------------------------------------------
static void sillsCase(Rng& r, KCtx c, Cfg& g, Vario* vario, double gmax, int forceApi = -1, int forceConst = -1, int forceExpand = -1)
{
  bool newApi  = r.coin(0.6);
  bool constS  = r.coin(0.3);
  bool expand  = !r.coin(0.2); // Constraints::expandConstantSill(nvar) called by the user or not
  if (forceApi >= 0) newApi = forceApi;
  if (forceConst >= 0) constS = forceConst;
  if (forceExpand >= 0) expand = forceExpand;
  // D17 (constant total sill off by 0.4 % with LINEAR + ORDER1_GC, the same function twice; 1 case in 6000, see
  // reports/C17_open_findings.json) is not reached by the default generator: collinear structures are not combined with
  // a constant sill here.
  if (constS)
  {
    bool lin = false, o1 = false;
    for (auto& t : g.types) { lin |= (t == ECov::LINEAR); o1 |= (t == ECov::ORDER1_GC); }
    if (lin && o1) constS = false;
  }
  double cs    = r.coin(0.6) ? 1. : r.loguni(0.1, 10.);
  int wmode    = g.wmode;
  int maxiter  = constS ? std::min(g.maxiter, CONSTSILL_MAXITER) : g.maxiter;
  std::string ep = newApi ? "ModelOptimSillsVario" : "model_fitting_sills";
  c.setSig(fmt("sills:%s:src=%s:ndim=%d:nvar=%d:ndir=%d:patho=%s:nt=%zu:constsill=%d:expand=%d:wmode=%d", ep.c_str(), SRCN[g.src], g.ndim, g.nvar,
               g.ndir, PATN[g.patho], g.types.size(), constS, expand, wmode));
  c.puts("entry", ep);
  c.puts("types", typesKey(g));
  if (c.verbose) fprintf(stderr, "CFG %s types=%s maxiter=%d\n", c.c.sig.c_str(), typesKey(g).c_str(), maxiter);
  double hmax = g.npas * g.dpas;
  std::unique_ptr<Model> model(Model::createFromEnvironment(g.nvar, g.ndim));
  VectorDouble ident(g.nvar * g.nvar, 0.);
  for (int i = 0; i < g.nvar; i++) ident[i * g.nvar + i] = 1.;
  for (auto& t : g.types)
  {
    const TypeInfo& ti = tinfo(t);
    VectorDouble ranges(g.ndim), angles(g.ndim, 0.);
    double r0 = hmax * r.uni(0.1, 1.2);
    for (int d = 0; d < g.ndim; d++) ranges[d] = r0 * (d == 0 || r.coin(0.5) ? 1. : r.uni(0.3, 3.));
    if (g.ndim >= 2) angles[0] = r.coin(0.5) ? 0. : r.uni(-90, 90);
    double par = 1.;
    if (ti.hasParam) par = (ti.parMax > 0 && !FFFF(ti.parMax)) ? r.uni(0.2, std::min(ti.parMax, 2.) * 0.95) : r.uni(0.2, 2.);
    model->addCovFromParam(t, 0., 0., par, ranges, ident, angles);
  }
  if (model->getCovaNumber() != (int)g.types.size()) throw SkipCase{"sills:model-construction"};
  Option_AutoFit oa;
  oa.setWmode(wmode);
  oa.setMaxiter(maxiter);
  Option_VarioFit ov;
  Constraints cons;
  if (constS)
  {
    cons.setConstantSillValue(cs);
    if (expand) cons.expandConstantSill(g.nvar);
  }
  // input classes of the open findings
  bool emptyLag = false;
  for (int id = 0; id < vario->getDirectionNumber(); id++)
    for (int ip = 0; ip < vario->getLagNumber(id); ip++)
      for (int iv = 0; iv < g.nvar; iv++)
        for (int jv = 0; jv <= iv; jv++)
        {
          double sw = vario->getSw(id, iv, jv, ip), hh = vario->getHh(id, iv, jv, ip), gg = vario->getGg(id, iv, jv, ip, false, false);
          if (FFFF(sw) || sw == 0 || FFFF(hh) || hh == 0 || FFFF(gg)) emptyLag = true;
        }
  bool csMulti = constS && g.nvar > 1;
  std::string crashKey;
  if (constS && !expand) { crashKey = K_NOEXPAND; ROOTKEY = K_NOEXPAND; }
  else if (!newApi) crashKey = K_NODD;
  else if (emptyLag) crashKey = K_EMPTYLAG;
  if (csMulti && ROOTKEY.empty()) ROOTKEY = newApi ? K_CSMULTI2 : K_CSMULTI;
  auto doFit = [&](Model* mdl) -> int {
    if (newApi)
    {
      ModelOptimSillsVario mo(mdl, &cons, oa, ov);
      return mo.fit(vario, wmode);
    }
    return model_fitting_sills(vario, mdl, cons, ov, oa);
  };
  if (!crashKey.empty())
  {
    std::string what;
    int st = runInChild([&]() { std::unique_ptr<Model> copy(model->clone()); (void)doFit(copy.get()); }, 300., what);
    c.c.check("no-crash", crashKey, st == 0, st, 0, what);
    if (st != 0) return;
  }
  int err = 0;
  try
  {
    err = doFit(model.get());
  }
  catch (const std::exception& e)
  {
    c.check("no-exception", "C17:sills:exception:" + ep, false, 1, 0, std::string(e.what()).substr(0, 160));
    return;
  }
  c.putn("err", err);
  if (err != 0) { c.probe("sills-reported-failure"); c.truth("fit-reports-failure", "C17:unreachable", true, ""); return; }
  c.probe("sills-ok");
  for (int k = 0; k < model->getCovaNumber(); k++)
  {
    const CovAniso* cv = model->getCova(k);
    std::string tk     = std::string(cv->getType().getKey());
    Mat S(g.nvar, g.nvar);
    bool fin = true;
    double tr = 0, mx = 0;
    for (int i = 0; i < g.nvar; i++)
      for (int j = 0; j < g.nvar; j++)
      {
        double v = cv->getSill(i, j);
        if (!std::isfinite(v) || FFFF(v)) fin = false;
        S(i, j) = v;
        mx      = std::max(mx, std::fabs(v));
        if (i == j) tr += v;
      }
    if (!fin)
      c.check("sills-psd", std::string("C17:sills:not-finite:") + ep + (constS ? ":constant-sill" : ""), false, INFINITY, 0,
              fmt("structure %d (%s)", k, tk.c_str()));
    else
    {
      auto ev    = ref::eigsym(S);
      double tol = 1e3 * EPS * std::max(std::fabs(tr), mx);
      double neg = std::max(0., -(double)ev[0]);
      c.check("sills-psd", "C17:sills:not-psd:" + ep + fmt(":nvar=%d", g.nvar) + (constS ? ":constant-sill" : ""), neg <= tol, neg, tol,
              fmt("structure %d (%s): min eigenvalue %.6g trace %.6g", k, tk.c_str(), (double)ev[0], tr));
    }
  }
  if (constS)
    for (int iv = 0; iv < g.nvar; iv++)
    {
      double tot = 0;
      for (int k = 0; k < model->getCovaNumber(); k++) tot += model->getCova(k)->getSill(iv, iv);
      double tol = 1e-6 * cs + 1e4 * EPS * gmax;
      double e   = std::isfinite(tot) ? std::fabs(tot - cs) : INFINITY;
      c.check("sills-constsill", std::string("C17:sills:constant-sill:violated:") + ep, e <= tol, e, tol,
              fmt("variable %d total sill %.10g requested %.10g", iv, tot, cs));
    }
}


// ------------------------------------------------------------------------------------------------
// the fit itself and the validation of its result (random cases and scripted scenarios go through the same code)
// ------------------------------------------------------------------------------------------------
static bool hasType(const Cfg& g, const ECov& t)
{
  for (auto& u : g.types) if (u == t) return true;
  return false;
}
static bool maternOverflow(const Model* m)
{
  // D12: CovMatern::_newMatern = pow(h/2,nu) K_nu(h) / Gamma(nu) is inf/inf for nu beyond ~150 (getParMax() is 1000)
  for (int k = 0; k < m->getCovaNumber(); k++)
    if (m->getCovaType(k) == ECov::MATERN && !(m->getCova(k)->getParam() < 140.)) return true;
  return false;
}
static bool scaleBlowup(const Model* m)
{
  // D7: scale = range / getScadef() leaves [1e-10, inf) for GAMMA / CAUCHY / STABLE with a small third parameter
  for (int k = 0; k < m->getCovaNumber(); k++)
  {
    const CovAniso* cv = m->getCova(k);
    if (cv->hasRange() <= 0 || !cv->hasParam()) continue;
    double sc = cv->getScadef();
    for (int d = 0; d < (int)cv->getNDim(); d++)
    {
      double rg = cv->getRange(d);
      // ("fitted range = inf" of the finding also shows as a finite but absurd value, e.g. 1.6e38, when scadef = 20^(1/param) is
      // only close to the overflow)
      if (!std::isfinite(rg) || !std::isfinite(sc) || !(rg / sc > 1e-9) || rg > 1e30) return true;
    }
  }
  return false;
}
static void fitAndCheck(Rng& r, KCtx c, Cfg& g, Vario* vario, DbGrid* dbmap, double gmax)
{
  Option_VarioFit ov(g.noreduce, g.authAniso, g.authRot, g.lockSameRot, g.lockRot2d, g.lockNo3d, g.lockIso2d);
  ov.setFlagGoulardUsed(g.goulard);
  ov.setKeepIntstr(g.keepIntstr);
  ov.setFlagIntrinsic(g.flagIntrinsic);
  Option_AutoFit oa;
  oa.setWmode(g.wmode);
  oa.setMaxiter(g.maxiter);
  oa.setTolsigma(g.tolsigma);
  oa.setTolstop(g.tolstop);
  oa.setEpsdelta(g.epsdelta);
  oa.setInitdelta(g.initdelta);
  Constraints cons;
  for (auto& s : g.cons) cons.addItemFromParamId(s.elem, s.icov, s.iv1, s.iv2, s.type, s.value);
  if (!FFFF(g.constSill)) cons.setConstantSillValue(g.constSill);
  if (!g.constSills.empty()) cons.setConstantSills(VectorDouble(g.constSills));

  std::string ep = g.src == SRC_VMAP ? "fitFromVMap" : (g.useCovIndices ? "fitFromCovIndices" : "fit");
  c.puts("entry", ep);
  bool fv = c.verbose && getenv("C17_VERBOSE") != nullptr;
  if (fv) OptDbg::define(EDbg::CONVERGE);
  auto doFit = [&](Model* mdl) -> int {
    if (g.src == SRC_VMAP) return mdl->fitFromVMap(dbmap, g.types, cons, ov, oa, fv);
    if (g.useCovIndices) return mdl->fitFromCovIndices(vario, g.types, cons, ov, oa, fv);
    return mdl->fit(vario, g.types, cons, ov, oa, fv);
  };

  // ---- input classes of the open findings
  bool csMulti = !FFFF(g.constSill) && g.nvar > 1 && g.expectFail.empty() && !(g.src == SRC_VMAP);
  if (hasExotic(g)) ROOTKEY = K_SPHERE;
  else if (csMulti) ROOTKEY = K_CSMULTI;
  std::string crashKey;
  if (g.flagIntrinsic) crashKey = K_INTRINSIC; // whatever else the request contains: the sills are fitted before anything is refused
  else if (g.expectFail.empty() && !hasExotic(g) && g.lockSameRot && !g.noreduce && g.types.size() >= 2) crashKey = K_SAMEROT;
  if (!crashKey.empty())
  {
    std::string what;
    int st = runInChild([&]() { std::unique_ptr<Model> mc(Model::createFromEnvironment(g.nvar, g.ndim)); (void)doFit(mc.get()); }, 300., what);
    c.c.check("no-crash", crashKey, st == 0, st, 0, what + " types " + typesKey(g)); // the class of the crash wins over any other class
    if (st != 0) return;
  }

  // case hygiene: a fit with flag_intrinsic that is not aborted leaves the flag in the file-static OPTVAR (see K_STALE);
  // a nugget-only fit with default options overwrites it when this case ends (whatever way), so that the next cases of
  // the worker do not depend on this one
  struct Hygiene
  {
    bool on; Vario* v; int nvar, ndim;
    ~Hygiene()
    {
      if (!on) return;
      try { std::unique_ptr<Model> tmp(Model::createFromEnvironment(nvar, ndim)); (void)tmp->fit(v, {ECov::NUGGET}); } catch (...) {}
    }
  } hygiene{g.flagIntrinsic && g.src != SRC_VMAP && vario != nullptr, vario, g.nvar, g.ndim};

  std::unique_ptr<Model> model(Model::createFromEnvironment(g.nvar, g.ndim));
  int err = 0;
  try
  {
    err = doFit(model.get());
  }
  catch (const std::exception& e)
  {
    // The documented failure protocol is the return code ("@return 0 if no error, 1 otherwise").
    std::string what = e.what();
    std::string full = what;
    size_t at = what.find(": ");
    if (what.rfind("/", 0) == 0 && at != std::string::npos) what = what.substr(at + 2);
    for (auto& ch : what) if (ch == ' ' || ch == ':') ch = '-';
    std::string key;
    if (!g.expectFail.empty()) key = K_REFUSAL; // a request the library refuses, refused by an exception
    else if (full.find("Ellipsoid radius cannot be null") != std::string::npos) key = K_SCALE;
    else if (hasType(g, ECov::MATERN) && (full.find("_M_default_append") != std::string::npos || full.find("__bessel_ik") != std::string::npos))
      key = K_MATERN; // a NaN parameter reached CovMatern (computeMarkovCoeffs / cyl_bessel_k): see D12
    else key = "C17:exception-from-valid-request:" + what.substr(0, 48);
    c.check("no-exception", key, false, 1, 0, full.substr(0, 200) + " [" + (g.expectFail.empty() ? "valid request" : g.expectFail) + "] types " + typesKey(g));
    return;
  }
  c.putn("err", err);
  if (!g.expectFail.empty())
  {
    // the library prints an error for these requests and is meant to return 1
    c.truth("fails-cleanly", "C17:invalid-request-accepted:" + g.expectFail, err != 0, "types " + typesKey(g));
    if (err != 0) return;
  }
  if (err != 0)
  {
    c.probe("fit-reported-failure");
    if (g.contradictory) c.probe("contradictory-rejected");
    c.truth("fit-reports-failure", "C17:unreachable", true, "");
    return;
  }
  c.probe("fit-ok");
  if (c.verbose)
    for (int k = 0; k < model->getCovaNumber(); k++)
    {
      const CovAniso* cv = model->getCova(k);
      fprintf(stderr, "fitted[%d] %s sill00=%.10g ranges=%s angles=%s param=%g\n", k, std::string(cv->getType().getKey()).c_str(),
              cv->getSill(0, 0), jvec(cv->getRanges().getVector()).c_str(), jvec(cv->getAnisoAngles().getVector()).c_str(), cv->getParam());
    }
  if (model->getCovaNumber() <= 0)
  {
    c.truth("structures-subset", "C17:model:no-structure-left:" + std::string(SRCN[g.src]), false, "fit returned 0 with an empty model");
    return;
  }
  if (ROOTKEY.empty() && maternOverflow(model.get())) ROOTKEY = K_MATERN;
  if (ROOTKEY.empty() && scaleBlowup(model.get())) ROOTKEY = K_SCALE;
  validateModel(c, g, model.get(), ep, gmax);
  useModel(r, c, g, model.get());
}


// ------------------------------------------------------------------------------------------------
// Scripted scenarios: the first NSCRIPT case indices of every run replay one fixed, seed-independent request per open
// finding (reports/C17_open_findings.json), through the same fit-and-validate code as the random cases, so that every
// open key is reached in every run of both tiers and the set of failing keys does not depend on VERIF_SEED.
// ------------------------------------------------------------------------------------------------
static const int NSCRIPT = 19;
static void setDirs(Cfg& g, int ndir, double angref)
{
  g.ndir = ndir;
  g.angref = angref;
  g.codirs.clear();
  if (g.ndim == 1) { g.ndir = 1; g.codirs.push_back(VectorDouble({1.})); return; }
  if (g.ndim == 2)
  {
    for (int id = 0; id < ndir; id++)
    {
      double a = (angref + 180. * id / ndir) * PI / 180.;
      g.codirs.push_back(VectorDouble({std::cos(a), std::sin(a)}));
    }
    return;
  }
  static const double D[4][3] = {{1, 0, 0}, {0, 0, 1}, {0, 1, 0}, {0.7071067811865476, 0.7071067811865476, 0}};
  for (int id = 0; id < ndir; id++) g.codirs.push_back(VectorDouble({D[id][0], D[id][1], D[id][2]}));
}
static Truth stdTruth(int nvar, bool nuggetOnly = false, bool linearOnly = false)
{
  Truth t;
  auto mat = [&](double d, double o) { Mat B(nvar, nvar); for (int i = 0; i < nvar; i++) for (int j = 0; j < nvar; j++) B(i, j) = (i == j) ? d : o; return B; };
  if (nuggetOnly) { t.nst = 1; t.kind = {0}; t.a = {1.}; t.ratio = {1.}; t.ang = {0.}; t.B = {mat(1., 0.3)}; return t; }
  if (linearOnly) { t.nst = 1; t.kind = {4}; t.a = {40.}; t.ratio = {1.}; t.ang = {0.}; t.B = {mat(1., 0.3)}; return t; }
  t.nst = 2; t.kind = {0, 2}; t.a = {1., 30.}; t.ratio = {1., 0.5}; t.ang = {0., 30.};
  t.B = {mat(0.2, 0.05), mat(1., 0.4)};
  return t;
}
static void scripted(int idx, Rng& rs, Ctx& c)
{
  Cfg g;
  g.src = SRC_HAND; g.ndim = 2; g.nvar = 1; g.patho = P_NONE; g.L = 100; g.npas = 8; g.dpas = g.L / 2. / g.npas;
  g.maxiter = 1000;
  setDirs(g, 4, 0.);
  Truth t = stdTruth(1);
  int sillApi = -1, sillConst = -1, sillExpand = -1;
  bool shrink = false;
  const char* name = "";
  switch (idx)
  {
    case 0: name = "D1-dimension-limited-structure"; g.types = {ECov::SPHERICAL, ECov::TRIANGLE}; g.expectFail = "dimlimited-structure"; break;
    case 1: name = "D2-flag-intrinsic"; g.types = {ECov::NUGGET, ECov::SPHERICAL}; g.flagIntrinsic = true; break;
    case 2:
      name = "D3-bounds-after-nonconverged-reduction";
      setDirs(g, 1, 0.); t = stdTruth(1); t.ratio = {1., 1.}; t.ang = {0., 0.};
      g.types = {ECov::GAUSSIAN, ECov::CUBIC}; g.maxiter = 3; g.tolsigma = 60.;
      g.cons.push_back({EConsElem::RANGE, 1, 0, 0, EConsType::UPPER, 12.});
      g.cons.push_back({EConsElem::RANGE, 1, 0, 0, EConsType::LOWER, 8.});
      g.consClass = "items";
      break;
    case 3:
      name = "D4-sill-bound-goulard-off";
      g.types = {ECov::NUGGET, ECov::SPHERICAL}; g.noreduce = true; g.goulard = false;
      g.cons.push_back({EConsElem::SILL, 1, 0, 0, EConsType::EQUAL, 0.5});
      g.consClass = "items";
      break;
    case 4:
      name = "D5-constant-sill-multivariate-fit";
      g.nvar = 2; t = stdTruth(2); g.types = {ECov::NUGGET, ECov::SPHERICAL, ECov::EXPONENTIAL}; g.constSill = 1.; g.consClass = "constsill";
      g.maxiter = CONSTSILL_MAXITER;
      break;
    case 5:
      name = "D5-constant-sill-multivariate-ModelOptimSillsVario";
      g.nvar = 2; t = stdTruth(2); g.types = {ECov::NUGGET, ECov::SPHERICAL, ECov::EXPONENTIAL}; sillApi = 1; sillConst = 1; sillExpand = 1;
      break;
    case 6:
      name = "D6-samerot-all-rotating-structures-discarded";
      t = stdTruth(1, true); g.patho = P_NUGGET; g.types = {ECov::NUGGET, ECov::SPHERICAL, ECov::EXPONENTIAL}; g.lockSameRot = true;
      break;
    case 7:
      name = "D7-scale-factor-blowup";
      setDirs(g, 1, 0.); t.ratio = {1., 1.}; t.ang = {0., 0.}; // omnidirectional: the isotropic setter is the one that throws
      g.types = {ECov::GAMMA}; g.noreduce = true;
      // 20^(1/param) between 1e10 and 1e20 times the range: the scale passes CovAniso::setScale and is refused by Tensor
      g.cons.push_back({EConsElem::PARAM, 0, 0, 0, EConsType::LOWER, 0.07});
      g.cons.push_back({EConsElem::PARAM, 0, 0, 0, EConsType::UPPER, 0.09});
      g.consClass = "items";
      break;
    case 8:
      name = "D8-constant-sill-after-reduction";
      setDirs(g, 1, 0.); t = stdTruth(1, false, true); g.types = {ECov::CUBIC, ECov::LINEAR}; g.constSill = 1.; g.consClass = "constsill";
      g.maxiter = CONSTSILL_MAXITER; g.tolsigma = 60.;
      break;
    case 9:
      name = "D9-lockIso2d-3D";
      g.ndim = 3; setDirs(g, 4, 0.); g.types = {ECov::SPHERICAL}; g.lockIso2d = true; g.noreduce = true;
      break;
    case 10: name = "D11-sphere-only-structure"; g.types = {ECov::GEOMETRIC}; g.maxiter = 30; break;
    case 11:
      name = "D14-ModelOptimSillsVario-empty-lag";
      g.types = {ECov::NUGGET, ECov::SPHERICAL}; sillApi = 1; sillConst = 0; g.patho = P_EMPTY;
      break;
    case 12:
      name = "D15-model_fitting_sills";
      g.types = {ECov::NUGGET, ECov::SPHERICAL}; sillApi = 0; sillConst = 0; shrink = true;
      break;
    case 13:
      name = "D16-constant-sill-not-expanded";
      g.types = {ECov::NUGGET, ECov::SPHERICAL}; sillApi = 1; sillConst = 1; sillExpand = 0;
      break;
    case 14:
      name = "D12-matern-large-third-parameter";
      setDirs(g, 1, 0.); t.ratio = {1., 1.}; t.ang = {0., 0.};
      g.types = {ECov::MATERN}; g.noreduce = true; g.maxiter = 100;
      g.cons.push_back({EConsElem::PARAM, 0, 0, 0, EConsType::LOWER, 400.}); // admissible: getParMax() = 1000
      g.consClass = "items";
      break;
    case 15: name = "stale-options-in-vmap-fit"; g.types = {ECov::NUGGET, ECov::SPHERICAL}; break;
    case 17:
      // control of D3 (repaired): the same request with the default iteration cap, i.e. the structure is discarded after a pass
      // that CONVERGED; the bounds of the surviving structure must still hold
      name = "control-bounds-after-converged-pass-and-reduction";
      // (an exactly spherical variogram of range 20 fitted with {GAUSSIAN, SPHERICAL}: the Gaussian component comes out with a
      // negligible sill and is discarded with the default tolsigma; the spherical range is bounded above by 18)
      setDirs(g, 1, 0.);
      t.nst = 1; t.kind = {2}; t.a = {20.}; t.ratio = {1.}; t.ang = {0.};
      { Mat B1(1, 1); B1(0, 0) = 1.; t.B = {B1}; }
      g.types = {ECov::GAUSSIAN, ECov::SPHERICAL}; g.tolsigma = 30.;
      g.cons.push_back({EConsElem::RANGE, 1, 0, 0, EConsType::UPPER, 18.});
      g.consClass = "items";
      break;
    case 18:
      // control: a total sill given for the variable itself (vector form) next to another scalar value
      name = "control-per-variable-constant-sill";
      g.types = {ECov::NUGGET, ECov::SPHERICAL}; g.constSill = 1.; g.constSills = {2.5}; g.consClass = "constsill";
      break;
    default:
      name = "control-plain-fit"; g.types = {ECov::NUGGET, ECov::SPHERICAL}; break;
  }
  defineDefaultSpace(ESpaceType::RN, g.ndim);
  c.setSig(std::string("scripted:") + name);
  c.puts("scenario", name);
  c.puts("types", typesKey(g));
  if (c.verbose) fprintf(stderr, "CFG scripted %s types=%s\n", name, typesKey(g).c_str());
  std::unique_ptr<Vario> vario = makeHandVario(rs, g, &t, 0.02);
  if (g.patho == P_EMPTY)
  {
    // exactly one empty lag, deterministic
    for (int iv = 0; iv < g.nvar; iv++)
      for (int jv = 0; jv <= iv; jv++) vario->setSw(1, iv, jv, 3, 0.);
  }
  double gmax = 0;
  for (int id = 0; id < vario->getDirectionNumber(); id++)
    for (int iv = 0; iv < g.nvar; iv++)
      for (int ip = 0; ip < vario->getLagNumber(id); ip++)
      {
        double v = vario->getGg(id, iv, iv, ip, false, false);
        if (!FFFF(v) && std::isfinite(v)) gmax = std::max(gmax, std::fabs(v));
      }
  if (shrink)
  {
    // D15 depends on the size left in the file-static RECINT.dd by the previous fit of the process: make it small
    Cfg h = g; h.ndim = 1; h.npas = 4; setDirs(h, 1, 0.);
    defineDefaultSpace(ESpaceType::RN, 1);
    Truth t1 = stdTruth(1); t1.ratio = {1., 1.}; t1.ang = {0., 0.};
    std::unique_ptr<Vario> v1 = makeHandVario(rs, h, &t1, 0.02);
    std::unique_ptr<Model> m1(Model::createFromEnvironment(1, 1));
    (void)m1->fit(v1.get(), {ECov::SPHERICAL});
    defineDefaultSpace(ESpaceType::RN, g.ndim);
  }
  if (idx == 15)
  {
    // a monovariate fit with flag_intrinsic and Goulard off completes; the following, unrelated fitFromVMap aborts
    int nx = 10;
    VectorDouble z(nx * nx);
    for (int i = 0; i < nx * nx; i++) z[i] = std::sin(0.7 * (i % nx)) + std::cos(0.45 * (i / nx)) + 0.1 * rs.normal();
    std::unique_ptr<DbGrid> grid(DbGrid::create(VectorInt(2, nx), VectorDouble(2, 10.)));
    grid->addColumns(z, "z1", ELoc::Z, 0);
    std::unique_ptr<DbGrid> dbmap(db_vmap(grid.get(), ECalcVario::VARIOGRAM, VectorInt(2, 4)));
    if (!dbmap) throw SkipCase{"vmap-compute-failed"};
    std::string what;
    int st = runInChild([&]() {
      Option_VarioFit o1; o1.setFlagIntrinsic(true); o1.setFlagGoulardUsed(false);
      std::unique_ptr<Model> m1(Model::createFromEnvironment(1, 2));
      (void)m1->fit(vario.get(), g.types, Constraints(), o1);
      std::unique_ptr<Model> m2(Model::createFromEnvironment(1, 2));
      (void)m2->fitFromVMap(dbmap.get(), {ECov::SPHERICAL});
    }, 300., what);
    c.check("no-crash", K_STALE, st == 0, st, 0, what);
    return;
  }
  if (sillApi >= 0)
    sillsCase(rs, c, g, vario.get(), gmax, sillApi, sillConst, sillExpand);
  else
    fitAndCheck(rs, c, g, vario.get(), nullptr, gmax);
}

// ------------------------------------------------------------------------------------------------
static void run_case_inner(Rng& r, Ctx& c);
// CPU watchdog: a case that burns more than CASE_CPU_BUDGET seconds of CPU aborts the worker with an assertion-like
// message, which the driver turns into the key "crash:assert:C17 case exceeded its CPU budget". The verdict on a hang
// therefore rests on CPU time; the wall-clock watchdog of the driver (timeout_case) is only a distant fallback.
static const int CASE_CPU_BUDGET = 900; // the slowest case observed on the unchanged tree (with the generator's iteration caps) costs ~90 CPU seconds
static void cpuWatchdog(int)
{
  static const char msg[] = "c17_fit: Assertion `C17 case exceeded its CPU budget' failed.\n";
  ssize_t w = write(2, msg, sizeof msg - 1);
  (void)w;
  signal(SIGABRT, SIG_DFL);
  abort();
}
static void armWatchdog(int seconds)
{
  struct itimerval it;
  memset(&it, 0, sizeof it);
  it.it_value.tv_sec = seconds;
  signal(SIGPROF, seconds > 0 ? cpuWatchdog : SIG_DFL);
  setitimer(ITIMER_PROF, &it, nullptr);
}
static void run_case(Rng& r, Ctx& c)
{
  armWatchdog(CASE_CPU_BUDGET);
  struct Disarm { ~Disarm() { armWatchdog(0); } } disarm;
  // CPU time of the case is written to the sample (development aid: finds slow input classes under machine load)
  ROOTKEY.clear();
  clock_t t0 = clock();
  struct Stamp { Ctx& c; clock_t t0; ~Stamp() { c.putn("cpu_s", (double)(clock() - t0) / CLOCKS_PER_SEC); } } stamp{c, t0};
  run_case_inner(r, c);
}
static void run_case_inner(Rng& r, Ctx& c)
{
  buildCatalog();
  if (c.icase < NSCRIPT)
  {
    Rng rs(20261002ULL, "C17-scripted", (uint64_t)c.icase);
    scripted((int)c.icase, rs, c);
    return;
  }
  Cfg g = drawCfg(r, c.thorough());
  defineDefaultSpace(ESpaceType::RN, g.ndim);
  bool sillsMode = r.coin(0.14);
  // half of the hand-made multivariate cases fitted with Goulard and without sill constraint get a coregionalisation just
  // outside the PSD cone (see makeHandVario); decided on the case index, so that the draws of the case are unchanged
  if (g.src == SRC_HAND && g.nvar >= 2 && g.goulard && g.cons.empty() && FFFF(g.constSill) && !g.flagIntrinsic &&
      (g.patho == P_NONE || g.patho == P_NOISY) && g.expectFail.empty() && c.icase % 2 == 0)
  {
    g.nearSingular = true;
    g.patho        = P_NONE;
    if (c.icase % 4 == 0) g.tolstop = 1e-3;
    c.probe("near-singular-coregionalisation");
  }

  std::string optmask = fmt("%d%d%d%d%d%d%d%d%d%d", g.noreduce, g.authAniso, g.authRot, g.lockSameRot, g.lockRot2d,
                            g.lockNo3d, g.lockIso2d, g.goulard, g.keepIntstr, g.flagIntrinsic);
  c.setSig(fmt("src=%s:ndim=%d:nvar=%d:ndir=%d:patho=%s:nt=%zu:cons=%s:opt=%s:wmode=%d:fail=%s", SRCN[g.src], g.ndim,
               g.nvar, g.ndir, PATN[g.patho], g.types.size(), g.consClass.c_str(), optmask.c_str(), g.wmode,
               g.expectFail.c_str()));
  c.puts("types", typesKey(g));
  if (c.verbose) fprintf(stderr, "CFG %s types=%s maxiter=%d tolsigma=%g L=%g\n", c.sig.c_str(), typesKey(g).c_str(), g.maxiter, g.tolsigma, g.L);
  c.puts("options(noreduce,aniso,rot,samerot,rot2d,no3d,iso2d,goulard,keepint,intrinsic)", optmask);
  c.putn("maxiter", g.maxiter);
  c.putn("L", g.L);
  {
    std::string cs;
    for (auto& s : g.cons)
      cs += fmt("%s[%d;%d,%d]%s%.6g ", std::string(s.elem.getKey()).c_str(), s.icov, s.iv1, s.iv2,
                std::string(s.type.getKey()).c_str(), s.value);
    if (!FFFF(g.constSill)) cs += fmt("constantSill=%.6g", g.constSill);
    c.puts("constraints", cs);
    if (c.verbose) fprintf(stderr, "CFG constraints: %s\n", cs.c_str());
  }

  // ---- experimental data
  std::unique_ptr<Vario> vario;
  std::unique_ptr<Db> db;
  std::unique_ptr<DbGrid> dbgrid, dbmap;
  if (g.src == SRC_HAND)
    vario = makeHandVario(r, g);
  else if (g.src == SRC_DB)
  {
    int n  = g.patho == P_FEW ? r.irange(4, 9) : r.irange(30, c.thorough() ? 120 : 60);
    Data d = genData(r, g, n, false, 0);
    db     = makeDb(d, g);
    auto vp = makeVarioParam(g);
    vario.reset(Vario::computeFromDb(*vp, db.get()));
    if (!vario) throw SkipCase{"vario-compute-failed"};
    mutateVario(r, g, vario.get());
  }
  else
  {
    int nx = r.irange(8, 12);
    Data d = genData(r, g, 0, true, nx);
    dbgrid.reset(DbGrid::create(VectorInt(g.ndim, nx), VectorDouble(g.ndim, g.L / nx)));
    for (int v = 0; v < g.nvar; v++) dbgrid->addColumns(d.z[v], "z" + std::to_string(v + 1), ELoc::Z, v);
    int half = r.irange(3, 5);
    dbmap.reset(db_vmap(dbgrid.get(), ECalcVario::VARIOGRAM, VectorInt(g.ndim, half)));
    if (!dbmap) throw SkipCase{"vmap-compute-failed"};
    g.npas = half;
    g.dpas = g.L / nx;
  }

  // magnitude of the experimental values
  double gmax = 0;
  if (vario)
  {
    for (int id = 0; id < vario->getDirectionNumber(); id++)
      for (int iv = 0; iv < g.nvar; iv++)
        for (int ip = 0; ip < vario->getLagNumber(id); ip++)
        {
          double v = vario->getGg(id, iv, iv, ip, false, false);
          if (!FFFF(v) && std::isfinite(v)) gmax = std::max(gmax, std::fabs(v));
        }
  }
  else
  {
    for (int s = 0; s < dbmap->getSampleNumber(); s++)
    {
      double v = dbmap->getZVariable(s, 0);
      if (!FFFF(v) && std::isfinite(v)) gmax = std::max(gmax, std::fabs(v));
    }
  }
  c.putn("gmax", gmax);

  // ---- one case in seven exercises the sill fitting alone (drawn last so that the main stream of cases is unchanged)
  if (vario && g.expectFail.empty() && !hasExotic(g) && sillsMode)
  {
    sillsCase(r, c, g, vario.get(), gmax);
    return;
  }

  fitAndCheck(r, c, g, vario.get(), dbmap.get(), gmax);
}

int main(int argc, char** argv) { return run_main(argc, argv, "C17", run_case); }
