// C11 (schedules) — the same dense / sparse products under setMultiThread(t), t = 1..16, in the TSan flavour
// (clang + libomp + Archer). Results must not depend on the thread count; TSan/Archer watch for races.
#include "common/vh.hpp"
#include "common/ref_linalg.hpp"

#include "Matrix/MatrixRectangular.hpp"
#include "Matrix/MatrixSquareGeneral.hpp"
#include "Matrix/MatrixSquareSymmetric.hpp"
#include "Matrix/MatrixSparse.hpp"
#include "Matrix/NF_Triplet.hpp"
#include "LinearOp/CholeskyDense.hpp"
#include <omp.h>
#include <memory>

using namespace vh;
using ref::LD;
using ref::Mat;
static const double EPS = 2.220446049250313e-16;

static Mat gen(Rng& r, int nr, int nc, double pzero)
{
  Mat m(nr, nc);
  for (auto& v : m.a) v = r.coin(pzero) ? 0.0 : r.uni(-1, 1);
  return m;
}
static void fillDense(AMatrix& a, const Mat& m)
{
  for (int i = 0; i < m.nr; i++)
    for (int j = 0; j < m.nc; j++) a.setValue(i, j, (double)m(i, j));
}
static std::unique_ptr<MatrixSparse> mkSparse(const Mat& m)
{
  NF_Triplet t;
  for (int i = 0; i < m.nr; i++)
    for (int j = 0; j < m.nc; j++)
      if (m(i, j) != 0) t.add(i, j, (double)m(i, j));
  if (m(m.nr - 1, m.nc - 1) == 0) t.force(m.nr, m.nc);
  return std::unique_ptr<MatrixSparse>(MatrixSparse::createFromTriplet(t, m.nr, m.nc, 1));
}
static std::vector<double> flat(const AMatrix& a)
{
  std::vector<double> v;
  v.reserve((size_t)a.getNRows() * a.getNCols());
  for (int i = 0; i < a.getNRows(); i++)
    for (int j = 0; j < a.getNCols(); j++) v.push_back(a.getValue(i, j));
  return v;
}
static double maxdiff(const std::vector<double>& a, const std::vector<double>& b)
{
  if (a.size() != b.size()) return INFINITY;
  double w = 0;
  for (size_t i = 0; i < a.size(); i++)
  {
    double e = std::fabs(a[i] - b[i]);
    if (std::isnan(e)) return INFINITY;
    w = std::max(w, e);
  }
  return w;
}
static std::vector<double> flatRef(const Mat& m)
{
  std::vector<double> v(m.a.size());
  for (size_t i = 0; i < v.size(); i++) v[i] = (double)m.a[i];
  return v;
}

struct Results
{
  std::map<std::string, std::vector<double>> r;
};

static void run_case(Rng& r, Ctx& c)
{
  // sizes above Eigen's parallel GEMM threshold
  int n1 = r.irange(70, c.thorough() ? 260 : 170), n2 = r.irange(70, c.thorough() ? 260 : 170), n3 = r.irange(70, c.thorough() ? 260 : 170);
  Mat X = gen(r, n1, n2, 0.0), Y = gen(r, n2, n3, 0.0), S = gen(r, n2, n2, 0.0);
  for (int i = 0; i < n2; i++)
    for (int j = 0; j < i; j++) S(i, j) = S(j, i);
  Mat SPX = gen(r, n1, n2, 0.9), SPY = gen(r, n2, n3, 0.9);
  VectorDouble v2(n2), v1(n1);
  for (auto& x : v2) x = r.uni(-1, 1);
  for (auto& x : v1) x = r.uni(-1, 1);
  // SPD for inversion / Cholesky
  int ns = r.irange(40, 90);
  Mat B = gen(r, ns, ns, 0.0);
  Mat A = ref::mul(B, B.T());
  for (int i = 0; i < ns; i++) A(i, i) += 1.0;
  for (auto& x : A.a) x = (double)x;

  std::vector<int> threads = c.thorough() ? std::vector<int> {1, 2, 3, 4, 5, 6, 7, 8, 9, 10, 11, 12, 13, 14, 15, 16}
                                          : std::vector<int> {1, 2, 3, 4, 8, 16};
  c.setSig(fmt("threads:n1=%d:n2=%d:n3=%d", n1 / 50, n2 / 50, n3 / 50));
  c.put("shape", fmt("[%d,%d,%d]", n1, n2, n3));
  c.put("threads", jvec(threads));

  Results base;
  std::string teams = "[";
  for (size_t it = 0; it < threads.size(); it++)
  {
    int t = threads[it];
    setMultiThread(t);
    Results cur;
    // allocation of a dense matrix applies the thread count (AMatrixDense::_allocate)
    MatrixRectangular x(n1, n2), y(n2, n3), z(n1, n3), zt(n2, n2);
    int team = omp_get_max_threads();
    teams += (it ? "," : "") + std::to_string(team);
    c.truth("team-size", "C11:threads:team-size", team == t, fmt("setMultiThread(%d) but omp_get_max_threads()=%d", t, team));
    c.probe(fmt("team=%d", team));
    fillDense(x, X);
    fillDense(y, Y);
    z.prodMatMatInPlace(&x, &y, false, false);
    cur.r["dense:prodMatMat:NN"] = flat(z);
    {
      MatrixRectangular xt(n2, n1), yt(n3, n2);
      fillDense(xt, X.T());
      fillDense(yt, Y.T());
      MatrixRectangular z2(n1, n3);
      z2.prodMatMatInPlace(&xt, &yt, true, true);
      cur.r["dense:prodMatMat:TT"] = flat(z2);
    }
    {
      MatrixSquareSymmetric s(n2);
      for (int i = 0; i < n2; i++) for (int j = i; j < n2; j++) s.setValue(i, j, (double)S(i, j));
      MatrixSquareSymmetric res(n1);
      res.prodNormMatMatInPlace(&x, &s, false); // X S Xt
      cur.r["dense:prodNormMatMat"] = flat(res);
    }
    {
      VectorDouble o = x.prodMatVec(v2);
      cur.r["dense:prodMatVec"] = o.getVector();
      VectorDouble o2 = x.prodMatVec(v1, true);
      cur.r["dense:prodMatVec:T"] = o2.getVector();
    }
    {
      MatrixSquareSymmetric a(ns);
      for (int i = 0; i < ns; i++) for (int j = i; j < ns; j++) a.setValue(i, j, (double)A(i, j));
      MatrixSquareSymmetric ai(a);
      if (ai.invert() == 0) cur.r["dense:invert"] = flat(ai);
      CholeskyDense ch(&a);
      VectorDouble b(ns, 1.0), sol(ns, 0.0);
      if (ch.isReady() && ch.solve(b.getVector(), sol.getVector()) == 0) cur.r["dense:chol-solve"] = sol.getVector();
    }
    {
      auto sx = mkSparse(SPX);
      auto sy = mkSparse(SPY);
      MatrixSparse sz(n1, n3, 1);
      sz.prodMatMatInPlace(sx.get(), sy.get(), false, false);
      cur.r["sparse:prodMatMat"] = flat(sz);
      cur.r["sparse:prodMatVec"] = sx->prodMatVec(v2).getVector();
    }
    if (it == 0)
    {
      base = cur;
      // t = 1 against the long-double reference
      double tol = 64 * EPS * (n2 + 2);
      c.check("ref:prodMatMat", "C11:threads:ref:prodMatMat", maxdiff(cur.r["dense:prodMatMat:NN"], flatRef(ref::mul(X, Y))) <= tol,
              maxdiff(cur.r["dense:prodMatMat:NN"], flatRef(ref::mul(X, Y))), tol);
      c.check("ref:prodMatMat", "C11:threads:ref:prodMatMat:TT", maxdiff(cur.r["dense:prodMatMat:TT"], flatRef(ref::mul(X, Y))) <= tol,
              maxdiff(cur.r["dense:prodMatMat:TT"], flatRef(ref::mul(X, Y))), tol);
      c.check("ref:sparse-prodMatMat", "C11:threads:ref:sparse-prodMatMat", maxdiff(cur.r["sparse:prodMatMat"], flatRef(ref::mul(SPX, SPY))) <= tol,
              maxdiff(cur.r["sparse:prodMatMat"], flatRef(ref::mul(SPX, SPY))), tol);
    }
    else
    {
      for (auto& kv : base.r)
      {
        auto f = cur.r.find(kv.first);
        if (f == cur.r.end()) { c.check("thread-independence", "C11:threads:" + kv.first + ":missing", false, 1, 0, fmt("t=%d", t)); continue; }
        double scale = 0;
        for (double q : kv.second) scale = std::max(scale, std::fabs(q));
        // different partitions may change the summation order: round-off tolerance, not bit equality
        double tol = 256 * EPS * (std::max(n2, ns) + 2) * (scale + 1e-300) * (kv.first == "dense:invert" || kv.first == "dense:chol-solve" ? 1e4 : 1.0);
        double e   = maxdiff(kv.second, f->second);
        c.check("thread-independence", "C11:threads:" + kv.first, e <= tol, e, tol, fmt("t=%d vs t=1", t));
      }
    }
  }
  c.put("omp_teams", teams + "]");
  setMultiThread(1);
}

int main(int argc, char** argv) { return run_main(argc, argv, "C11T", run_case); }
