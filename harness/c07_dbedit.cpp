// C07 — a Db stays a consistent table under any sequence of edits.
//
// Case = (initial construction, random edit history). After EVERY step:
//   * structural invariants of the Db through public getters     (common/c07_db_invariants.hpp, oracles "inv.<rule>")
//   * comparison with a shadow table keyed by UID                (common/c07_shadow.hpp, oracles "t.<what>")
// Violation key = C07:<operation>:<rule>; the detail carries the (shrunk) step sequence.
//
// Conventions asserted, with their source:
//   * names unique; ranks of a role type consecutive from 1; a new role on a rank displaces the previous holder
//       include/Db/Db.hpp class comment ("by its name (unique in the Data Base)", "the ranks are always consecutive
//       between 1 and N"), Db::setLocatorByUID doc ("locatorIndex ... negative: the next index ... is generated").
//   * useSel=true in setColumnByUID / setColumn / addColumns: "Only the active samples of the Db are updated",
//       unselected samples of NEW columns receive 'valinit' (Db::addColumns doc).  setColumnByColIdx(useSel=true) has no
//       documentation for the masked samples: they are left undetermined here (the library writes TEST).
//   * a selection is a 0/1 column (Db::addSelection doc); the harness never writes anything else into a column carrying
//       the SEL role, and only gives SEL to 0/1 columns. The only other way a non 0/1 value gets there is the library's
//       own default addSamples(nadd, valinit=TEST).
//   * "unique" role types (W, C, SEL: one column only, Db.hpp) are only requested at rank 0 for a single column.
//   * a requested rank is "next" (-1 or the current count) or an existing rank: the harness never requests a gap.
//
// Keys. Default: C07:<operation>:<rule> with rule in {counts, columns, cells, new-name, untouched-column-renamed,
// wrong-column, role-mismatch, return-value} (shadow comparison) or a rule id of c07_db_invariants.hpp. All role-related
// failures of one step share the key of the first one. Input classes tied to ONE cause get ONE fixed key:
//   C07:setLocatorsByColIdx:wrong-column                      the roles went to other columns than the ones addressed
//   C07:setLocator-own-type                                   role (re)assigned to a column that already has that type
//   C07:addColumns-useSel-with-SEL-role                       addColumns/setColumn(new)(…, ELoc::SEL, …, useSel=true)
//   C07:setItem-useSel                                        setItem(name(s) | locator, values, useSel=true)  (fixed 40bee2f2d)
//   C07:setItem-rows-useSel                                   setItem(rows, ..., useSel=true): rows = ranks among the active samples
//   C07:name-as-pattern:own-name-designates-another-column    state: a name read as a regex also matches another column
//   C07:name-as-pattern:deleteColumnByColIdx | :setName(list) operations that go through such a name
//   C07:isUIDDefined:inconsistent-with-getColIdxByUID         state: getter answer, independent of the last operation
// After a failure the Db is repaired through public calls (clearLocators, setNameByUID, setArray on the selection), the
// shadow is re-read from the Db and the history goes on; it is abandoned only if the repair does not restore the rules.
#include "common/vh.hpp"
#include "common/c07_shadow.hpp"

#include "Db/Db.hpp"
#include "Db/DbGrid.hpp"
#include "Basic/Limits.hpp"
#include "Basic/NamingConvention.hpp"
#include "Enum/ELoadBy.hpp"
#include <memory>

using namespace vh;
using namespace c07;

// Input classes that hit a known defect very often can be avoided by the generator (default: not avoided)
#ifdef C07_AVOID_ALL // calibration builds only: check that nothing else fires once the known input classes are avoided
#define C07_AV true
#else
#define C07_AV false
#endif
static const bool AVOID_SETLOCATORSBYCOLIDX   = C07_AV; // D2: Db::setLocatorsByColIdx uses the loop index as column index
static const bool AVOID_OWN_TYPE_RELOCATE     = C07_AV; // setLocator*(column already of that type): hole / neighbour loses role
static const bool AVOID_SETNAMEBYCOLIDX_DUP   = C07_AV; // setNameByColIdx does not de-duplicate
static const bool AVOID_ADDSAMPLES_TEST_SEL   = C07_AV; // addSamples(default valinit=TEST) on a Db with a selection
static const bool AVOID_ADDCOLUMNS_USESEL_SEL = C07_AV; // addColumns(tab, ..., ELoc::SEL, ..., useSel=true)
static const bool AVOID_UNKNOWN_WITH_CLEAN    = C07_AV; // setLocator*(..., ELoc::UNKNOWN, ..., cleanSameLocator=true): _p[-1]
static const bool AVOID_SETITEM_USESEL        = C07_AV; // setItem(name, values, useSel=true): reads values[] out of range
static const bool AVOID_SETITEM_ROWS_USESEL    = C07_AV; // setItem(rows, ..., useSel=true): rows checked as active ranks, written as absolute
static const bool AVOID_RENAME_STEALING       = C07_AV; // setName(list)/setNameByLocator onto a name + suffix already used

static const int T_X = 0, T_Z = 1, T_SEL = 10;
static const std::vector<int> MULTI = {0, 1, 2, 3, 5, 6}; // X Z V F L U
static const std::vector<int> UNIQ  = {8, 9, 10};         // W C SEL
static bool isUniq(int t) { return t == 8 || t == 9 || t == 10; }
static const ELoc& EL(int t) { return t < 0 ? ELoc::UNKNOWN : ELoc::fromValue(t); }
static std::string TN(int t) { return t < 0 ? "NA" : std::string(ELoc::fromValue(t).getKey()); }

static const std::vector<std::string> POOL = {"a", "b", "c", "v", "New", "sel", "rank", "x", "y", "aa", "z"};

struct Op
{
  std::string name, fam, args;
  std::function<bool(const Shadow&)> valid;
  std::function<void(Db*&, Shadow&, Exp&)> run;
};

// ---- printing helpers ------------------------------------------------------------------------------------------------
static std::string pv(const std::vector<int>& v)
{
  std::string o = "{";
  for (size_t i = 0; i < v.size(); i++) o += (i ? "," : "") + std::to_string(v[i]);
  return o + "}";
}
static std::string pd(double x)
{
  if (x == TEST) return "TEST";
  char b[40];
  snprintf(b, sizeof b, "%g", x);
  return b;
}
static std::string pv(const std::vector<double>& v)
{
  std::string o = "{";
  for (size_t i = 0; i < v.size() && i < 8; i++) o += (i ? "," : "") + pd(v[i]);
  if (v.size() > 8) o += ",...";
  return o + "}";
}
static std::string pv(const std::vector<std::string>& v)
{
  std::string o = "{";
  for (size_t i = 0; i < v.size(); i++) o += (i ? ",'" : "'") + v[i] + "'";
  return o + "}";
}
static VectorString VS(const std::vector<std::string>& v)
{
  VectorString o;
  for (auto& x : v) o.push_back(x);
  return o;
}

// ---- drawing helpers -------------------------------------------------------------------------------------------------
static double dval(Rng& r, bool bin)
{
  if (bin) return r.coin(0.6) ? 1. : 0.;
  if (r.coin(0.1)) return TEST;
  return r.irange(-6, 12) / 2.0;
}
static std::vector<double> dvals(Rng& r, int n, bool bin)
{
  std::vector<double> v(n);
  for (auto& x : v) x = dval(r, bin);
  return v;
}
static std::vector<int> pickDistinct(Rng& r, int n, int k)
{
  std::vector<int> p = r.perm(n);
  p.resize(std::min(n, k));
  return p;
}
static std::vector<int> pickUids(Rng& r, const Shadow& s, int k)
{
  std::vector<int> idx = pickDistinct(r, s.ncol(), k), o;
  for (int i : idx) o.push_back(s.order[i]);
  return o;
}
static std::string pickName(Rng& r) { return r.pick(POOL); }

static bool allLive(const Shadow& s, const std::vector<int>& uids)
{
  for (int u : uids)
    if (!s.live(u)) return false;
  return true;
}
static bool namesOk(const Shadow& s, const std::vector<int>& uids, const std::vector<std::string>& names)
{
  if (s.namesAmbiguous()) return false;
  for (size_t i = 0; i < uids.size(); i++)
    if (s.uidByName(names[i]) != uids[i]) return false;
  return true;
}
static std::vector<std::string> namesOf(const Shadow& s, const std::vector<int>& uids)
{
  std::vector<std::string> o;
  for (int u : uids) o.push_back(s.cols.at(u).name);
  return o;
}
static std::vector<int> colsOf(const Shadow& s, const std::vector<int>& uids)
{
  std::vector<int> o;
  for (int u : uids) o.push_back(s.colOf(u));
  return o;
}

// ---- role-assignment model shared by every setLocator* / add* operation -----------------------------------------------
static void locModel(Shadow& s, Exp& e, const std::vector<int>& uids, int type, int idx, bool clean)
{
  e.locType = type;
  for (int u : uids) e.locTargets.insert(u);
  if (clean && type >= 0) s.loc[type].clear();
  int base = idx;
  if (idx < 0) base = type >= 0 ? (int)s.loc[type].size() : 0;
  if (type >= 0) e.locInvolved.insert(type);
  bool own = false;
  for (size_t i = 0; i < uids.size(); i++)
  {
    auto cur = s.locOf(uids[i]);
    if (cur.first >= 0) e.locInvolved.insert(cur.first);
    if (type >= 0 && cur.first == type) own = true;
    if (!s.setLoc(uids[i], type, base + (int)i)) e.locWeak = true;
  }
  if (own) e.cls = "setLocator-own-type";
}
// can (uids, type, idx, clean) be requested on this state without leaving the documented domain ?
static bool locValid(const Shadow& s, const std::vector<int>& uids, int type, int idx, bool clean)
{
  if (!allLive(s, uids)) return false;
  if (type < 0) return true;
  int len = clean ? 0 : (int)s.loc[type].size();
  if (idx > len) return false; // would request a gap
  if (isUniq(type) && (uids.size() != 1 || idx > 0 || (idx < 0 && len > 0))) return false;
  if (type == T_SEL)
    for (int u : uids)
      if (!Shadow::binary(s.cols.at(u).v)) return false;
  if (AVOID_OWN_TYPE_RELOCATE && !clean)
    for (int u : uids)
      if (s.locOf(u).first == type) return false;
  return true;
}
struct LocArgs
{
  int type, idx;
  bool clean;
};
static LocArgs drawLoc(Rng& r, const Shadow& s, int ntargets, bool allowNone)
{
  LocArgs a;
  a.clean = r.coin(0.15);
  if (allowNone && r.coin(0.12))
  {
    // ELoc::UNKNOWN is documented as accepted ("Locator type (include ELoc::UNKNOWN)"), with or without
    // cleanSameLocator (fixed in /repo ba5ef8741: clearLocators(UNKNOWN) used to index _p[-1])
    a.type = -1;
    a.idx  = 0;
    if (AVOID_UNKNOWN_WITH_CLEAN) a.clean = false;
    return a;
  }
  a.type = (ntargets == 1 && r.coin(0.25)) ? r.pick(UNIQ) : r.pick(MULTI);
  int len = a.clean ? 0 : (int)s.loc[a.type].size();
  if (isUniq(a.type)) { a.idx = 0; return a; }
  double u = r.u01();
  if (u < 0.35) a.idx = -1;
  else if (u < 0.6 || len == 0) a.idx = len;
  else a.idx = r.irange(0, len - 1);
  return a;
}
static std::string locStrArgs(const LocArgs& a) { return TN(a.type) + "," + std::to_string(a.idx) + (a.clean ? ",clean" : ""); }

// =====================================================================================================================
// Operation generators. Each returns an Op whose closures own their arguments (so that histories can be replayed when
// shrinking); `valid` re-checks on the CURRENT shadow that the call is still inside the documented domain.
// =====================================================================================================================
typedef std::function<bool(Rng&, const Shadow&, Op&)> Gen;

static void modelAdd(Shadow& s, Exp& e, int nadd, const std::string& radix, const std::vector<std::vector<double>>& vals,
                     int type, int idx, std::vector<int>* newUids = nullptr)
{
  std::vector<int> uids;
  for (int i = 0; i < nadd; i++)
  {
    int u = s.addCol(vals[i]);
    e.newName[u] = radix;
    uids.push_back(u);
  }
  if (type >= 0) locModel(s, e, uids, type, idx, false);
  if (newUids) *newUids = uids;
}

static bool gen_addColumnsByConstant(Rng& r, const Shadow& s, Op& op)
{
  int nadd       = r.irange(1, 3);
  LocArgs a      = drawLoc(r, s, nadd, true);
  a.clean        = false;
  bool bin       = a.type == T_SEL;
  double valinit = dval(r, bin);
  std::string radix = pickName(r);
  // "nechInit Number of samples (used only if the Db is initially empty)"
  bool empty   = s.nech == 0 && s.ncol() == 0;
  int nechInit = empty ? r.irange(1, 6) : 0;
  op.name = "addColumnsByConstant";
  op.fam  = "add";
  op.args = std::to_string(nadd) + "," + pd(valinit) + ",'" + radix + "'," + locStrArgs(a) + (empty ? ",nechInit=" + std::to_string(nechInit) : std::string());
  op.valid = [=](const Shadow& s) {
    if (empty != (s.nech == 0 && s.ncol() == 0)) return false;
    if (!empty && s.nech < 1) return false;
    if (a.type >= 0 && a.idx > (int)s.loc[a.type].size()) return false;
    if (a.type >= 0 && isUniq(a.type) && nadd != 1) return false;
    return true;
  };
  op.run = [=](Db*& db, Shadow& s, Exp& e) {
    int nmax = s.nmax;
    int ret  = db->addColumnsByConstant(nadd, valinit, radix, EL(a.type), a.idx, nechInit);
    if (empty) s.nech = nechInit;
    modelAdd(s, e, nadd, radix, std::vector<std::vector<double>>(nadd, std::vector<double>(s.nech, valinit)), a.type, a.idx);
    e.ret("addColumnsByConstant returned " + std::to_string(ret) + ", first new UID is " + std::to_string(nmax), ret == nmax);
  };
  return true;
}

// addColumns / addColumnsByVVD / setColumn(new name)
static bool gen_addColumns(Rng& r, const Shadow& s, Op& op)
{
  int variant = r.irange(0, 2); // 0 addColumns 1 addColumnsByVVD 2 setColumn with a name that does not exist
  int nvar    = variant == 2 ? 1 : r.irange(1, 3);
  LocArgs a   = drawLoc(r, s, nvar, true);
  a.clean     = false;
  bool useSel = s.selUid() >= 0 && s.selClean() && s.nactive() > 0 && r.coin(0.4);
  int n       = useSel ? s.nactive() : s.nech;
  // "Particular case where the Db is empty. Set its dimension to the number of samples of the input array 'tab'"
  bool empty  = s.nech == 0 && s.ncol() == 0;
  if (empty) n = r.irange(1, 6);
  bool bin    = a.type == T_SEL;
  double valinit = variant == 0 ? (bin ? 0. : dval(r, false)) : (variant == 1 ? TEST : 0.);
  if (bin && variant == 1 && useSel) useSel = false, n = s.nech; // masked samples of a new selection would be TEST
  std::vector<double> tab = dvals(r, n * nvar, bin);
  std::string radix = pickName(r);
  if (variant == 2)
  {
    radix += "_n" + std::to_string(r.irange(0, 99)); // must not exist
  }
  op.name = variant == 0 ? "addColumns" : variant == 1 ? "addColumnsByVVD" : "setColumn(new)";
  op.fam  = "add";
  op.args = pv(tab) + ",'" + radix + "'," + locStrArgs(a) + ",useSel=" + std::to_string(useSel) + ",valinit=" + pd(valinit) + ",nvar=" + std::to_string(nvar);
  op.valid = [=](const Shadow& s) {
    if (empty != (s.nech == 0 && s.ncol() == 0)) return false;
    if (!empty && s.nech < 1) return false;
    if (useSel && (!s.selClean() || s.selUid() < 0)) return false;
    if (!empty && ((useSel ? s.nactive() : s.nech) != n || n == 0)) return false;
    if (a.type >= 0 && a.idx > (int)s.loc[a.type].size()) return false;
    if (a.type >= 0 && isUniq(a.type) && nvar != 1) return false;
    if (AVOID_ADDCOLUMNS_USESEL_SEL && a.type == T_SEL && useSel) return false;
    if (variant == 2 && (s.uidByName(radix) >= 0 || s.namesAmbiguous())) return false;
    return true;
  };
  op.run = [=](Db*& db, Shadow& s, Exp& e) {
    int nmax = s.nmax;
    if (empty) s.nech = n;
    std::vector<std::vector<double>> vals(nvar, std::vector<double>(s.nech, valinit));
    for (int iv = 0; iv < nvar; iv++)
    {
      int lec = 0;
      for (int iech = 0; iech < s.nech; iech++)
        if (!useSel || s.active(iech)) vals[iv][iech] = tab[iv * n + lec++];
    }
    if (variant == 0)
    {
      int ret = db->addColumns(VectorDouble(tab), radix, EL(a.type), a.idx, useSel, valinit, nvar);
      e.ret("addColumns returned " + std::to_string(ret) + ", first new UID is " + std::to_string(nmax), ret == nmax);
    }
    else if (variant == 1)
    {
      VectorVectorDouble vvd;
      for (int iv = 0; iv < nvar; iv++) vvd.push_back(VectorDouble(std::vector<double>(tab.begin() + iv * n, tab.begin() + (iv + 1) * n)));
      db->addColumnsByVVD(vvd, radix, EL(a.type), a.idx, useSel);
    }
    else
      db->setColumn(VectorDouble(tab), radix, EL(a.type), a.idx, useSel);
    modelAdd(s, e, nvar, radix, vals, a.type, a.idx);
    // the new column becomes THE selection before its values are written through "the" selection
    if (a.type == T_SEL && useSel) e.cls = "addColumns-useSel-with-SEL-role";
  };
  return true;
}

static bool gen_addColumnsRandom(Rng& r, const Shadow& s, Op& op)
{
  int nadd  = r.irange(1, 2);
  LocArgs a = drawLoc(r, s, nadd, true);
  a.clean   = false;
  if (a.type == T_SEL) a.type = T_Z, a.idx = -1;
  std::string radix = pickName(r);
  int seed          = r.irange(1, 100000);
  op.name = "addColumnsRandom";
  op.fam  = "add";
  op.args = std::to_string(nadd) + ",'" + radix + "'," + locStrArgs(a) + ",seed=" + std::to_string(seed);
  op.valid = [=](const Shadow& s) {
    if (s.nech < 1) return false;
    if (a.type >= 0 && a.idx > (int)s.loc[a.type].size()) return false;
    if (a.type >= 0 && isUniq(a.type) && nadd != 1) return false;
    return true;
  };
  op.run = [=](Db*& db, Shadow& s, Exp& e) {
    int nmax = s.nmax;
    int ret  = db->addColumnsRandom(nadd, radix, EL(a.type), a.idx, seed);
    std::vector<int> nu;
    modelAdd(s, e, nadd, radix, std::vector<std::vector<double>>(nadd, std::vector<double>(s.nech, 0.)), a.type, a.idx, &nu);
    for (int u : nu) e.dcCol.insert(u); // values come from the library's generator
    e.ret("addColumnsRandom returned " + std::to_string(ret) + ", first new UID is " + std::to_string(nmax), ret == nmax);
  };
  return true;
}

// combine as documented in Db::combineSelection ("'not': sel = 1 - sel", "'or' : sel = sel || oldsel", ...)
static std::vector<double> modelCombine(const Shadow& s, std::vector<double> sel, const std::string& combine)
{
  if (combine == "set") return sel;
  if (combine == "not") { for (auto& x : sel) x = 1. - x; return sel; }
  int u = s.selUid();
  if (u < 0) return sel;
  const std::vector<double>& old = s.cols.at(u).v;
  for (size_t i = 0; i < sel.size(); i++)
  {
    bool a = sel[i] != 0., b = old[i] != 0.;
    if (combine == "or") sel[i] = a || b;
    if (combine == "and") sel[i] = a && b;
    if (combine == "xor") sel[i] = (sel[i] != old[i]);
  }
  return sel;
}
static bool gen_addSelection(Rng& r, const Shadow& s, Op& op)
{
  int variant = r.irange(0, 4); // 0 addSelection(tab) 1 addSelection() 2 ByRanks 3 ByLimit 4 Random
  static const std::vector<std::string> COMB = {"set", "set", "not", "or", "and", "xor"};
  std::string combine = r.pick(COMB);
  std::string name    = r.coin(0.5) ? "sel" : pickName(r);
  std::vector<double> tab;
  std::vector<int> ranks;
  int testUid = -1;
  std::string testName;
  double prop = 0;
  int seed    = r.irange(1, 100000);
  int nech    = s.nech;
  if (variant == 0) tab = dvals(r, nech, r.coin(0.5));
  if (variant == 2) ranks = pickDistinct(r, nech, r.irange(0, nech));
  if (variant == 3)
  {
    if (s.ncol() == 0) return false;
    testUid  = pickUids(r, s, 1)[0];
    testName = s.cols.at(testUid).name;
  }
  if (variant == 4) prop = r.uni(0.1, 0.9);
  static const char* N[] = {"addSelection", "addSelection", "addSelectionByRanks", "addSelectionByLimit", "addSelectionRandom"};
  op.name = N[variant];
  op.fam  = "add";
  op.args = (variant == 0 ? pv(tab) : variant == 2 ? pv(ranks) : variant == 3 ? "'" + testName + "'" : variant == 4 ? pd(prop) + ",seed=" + std::to_string(seed) : std::string("{}")) + ",'" + name + "','" + combine + "'";
  op.valid = [=](const Shadow& s) {
    if (s.nech != nech || nech < 1) return false;
    if (!s.selClean()) return false;
    if (variant == 3 && !namesOk(s, {testUid}, {testName})) return false;
    return true;
  };
  std::string opname = op.name;
  op.run = [=](Db*& db, Shadow& s, Exp& e) {
    int nmax = s.nmax, ret = -9;
    std::vector<double> sel(nech, 0.);
    bool dc = false;
    if (variant == 0)
    {
      for (int i = 0; i < nech; i++) sel[i] = tab[i] != 0. ? 1. : 0.;
      ret = db->addSelection(VectorDouble(tab), name, combine);
    }
    else if (variant == 1)
    {
      sel.assign(nech, 1.);
      ret = db->addSelection(VectorDouble(), name, combine);
    }
    else if (variant == 2)
    {
      for (int i : ranks) sel[i] = 1.;
      ret = db->addSelectionByRanks(VectorInt(ranks), name, combine);
    }
    else if (variant == 3)
    {
      const std::vector<double>& tv = s.cols.at(testUid).v;
      for (int i = 0; i < nech; i++) sel[i] = FFFF(tv[i]) ? 0. : 1.;
      ret = db->addSelectionByLimit(testName, Limits(), name, combine);
    }
    else
    {
      dc  = true;
      ret = db->addSelectionRandom(prop, seed, name, combine);
    }
    sel = modelCombine(s, sel, combine);
    std::vector<int> nu;
    modelAdd(s, e, 1, name, {sel}, T_SEL, 0, &nu);
    if (dc)
    {
      e.dcCol.insert(nu[0]);
      std::vector<double> got = db->getColumnByUID(nu[0], false, false).getVector();
      e.ret("addSelectionRandom produced a column that is not 0/1", Shadow::binary(got));
    }
    e.ret(opname + " returned " + std::to_string(ret) + ", new UID is " + std::to_string(nmax), ret == nmax);
  };
  return true;
}
static bool gen_generateRank(Rng& r, const Shadow& s, Op& op)
{
  std::string radix = r.coin(0.5) ? "rank" : pickName(r);
  bool coords       = s.grid && r.coin(0.5); // DbGrid::generateCoordinates(radix): ndim new columns with role X from rank 1
  if (coords) radix = r.coin(0.5) ? "x" : radix;
  op.name = coords ? "DbGrid::generateCoordinates" : "generateRank";
  op.fam  = "add";
  op.args = "'" + radix + "'";
  op.valid = [=](const Shadow& s) { return s.nech >= 1 && (!coords || s.grid); };
  op.run = [=](Db*& db, Shadow& s, Exp& e) {
    if (coords)
    {
      DbGrid* g = dynamic_cast<DbGrid*>(db);
      int ndim  = g->getNDim();
      g->generateCoordinates(radix);
      std::vector<int> nu;
      modelAdd(s, e, ndim, radix, std::vector<std::vector<double>>(ndim, std::vector<double>(s.nech, 0.)), T_X, 0, &nu);
      // values = coordinates of the nodes as the grid itself reports them
      for (int i = 0; i < ndim; i++)
        for (int ie = 0; ie < s.nech; ie++) s.cols[nu[i]].v[ie] = g->getCoordinate(ie, i);
      return;
    }
    db->generateRank(radix);
    std::vector<double> v(s.nech);
    for (int i = 0; i < s.nech; i++) v[i] = i + 1;
    modelAdd(s, e, 1, radix, {v}, -1, 0);
  };
  return true;
}

// ---- deletions -------------------------------------------------------------------------------------------------------
static bool gen_delete(Rng& r, const Shadow& s, Op& op)
{
  if (s.ncol() == 0) return false;
  int variant = r.irange(0, 7);
  int k       = (variant == 0 || variant == 2 || variant == 3) ? 1 : r.irange(1, std::min(3, s.ncol()));
  std::vector<int> uids = pickUids(r, s, k);
  std::vector<std::string> names = namesOf(s, uids);
  std::vector<int> cols          = colsOf(s, uids);
  int type = r.pick(r.coin(0.7) ? MULTI : UNIQ);
  int i0 = r.irange(1, std::max(1, s.nmax - 1)), nd = r.irange(1, 3);
  bool absent = variant == 0 && r.coin(0.1);
  if (absent) names = {"nosuch"};
  static const char* N[] = {"deleteColumn", "deleteColumns", "deleteColumnByUID", "deleteColumnByColIdx", "deleteColumnsByUID", "deleteColumnsByColIdx", "deleteColumnsByLocator", "deleteColumnsByUIDRange"};
  op.name = N[variant];
  op.fam  = "del";
  switch (variant)
  {
    case 0: op.args = "'" + names[0] + "'"; break;
    case 1: op.args = pv(names); break;
    case 2: op.args = std::to_string(uids[0]); break;
    case 3: op.args = std::to_string(cols[0]); break;
    case 4: op.args = pv(uids); break;
    case 5: op.args = pv(cols); break;
    case 6: op.args = TN(type); break;
    case 7: op.args = std::to_string(i0) + "," + std::to_string(nd); break;
  }
  op.valid = [=](const Shadow& s) {
    if (variant == 6) return true;
    if (variant == 7) return i0 >= 1 && i0 + nd <= s.nmax;
    if (absent) return s.uidByName("nosuch") < 0 && !s.namesAmbiguous();
    if (!allLive(s, uids)) return false;
    if ((variant == 0 || variant == 1) && !namesOk(s, uids, names)) return false;
    if ((variant == 3 || variant == 5) && colsOf(s, uids) != cols) return false;
    return true;
  };
  op.run = [=](Db*& db, Shadow& s, Exp& e) {
    // deleteColumnByColIdx looks the column up again by its NAME (Db.cpp: _ids(_colNames[icol_del], true)): when a name
    // read as a pattern matches another column, nothing or another column is deleted -> consequence of name-as-pattern
    if ((variant == 3 || variant == 5) && s.namesAmbiguous()) e.cls = "name-as-pattern:deleteColumnByColIdx";
    std::vector<int> del = uids;
    switch (variant)
    {
      case 0: db->deleteColumn(names[0]); if (absent) del.clear(); break;
      case 1: db->deleteColumns(VS(names)); break;
      case 2: db->deleteColumnByUID(uids[0]); break;
      case 3: db->deleteColumnByColIdx(cols[0]); break;
      case 4: db->deleteColumnsByUID(VectorInt(uids)); break;
      case 5: db->deleteColumnsByColIdx(VectorInt(cols)); break;
      case 6: db->deleteColumnsByLocator(EL(type)); del = s.loc[type]; break;
      case 7:
        db->deleteColumnsByUIDRange(i0, nd);
        del.clear();
        for (int i = 0; i < nd; i++) del.push_back(i0 + i);
        break;
    }
    for (int u : del) s.delCol(u);
  };
  return true;
}

// ---- renaming --------------------------------------------------------------------------------------------------------
static bool gen_rename(Rng& r, const Shadow& s, Op& op)
{
  if (s.ncol() == 0) return false;
  int variant = r.irange(0, 4); // 0 setName 1 setName(list) 2 setNameByUID 3 setNameByColIdx 4 setNameByLocator
  int k       = variant == 1 ? r.irange(1, std::min(3, s.ncol())) : 1;
  std::vector<int> uids = pickUids(r, s, k);
  std::vector<std::string> names = namesOf(s, uids);
  std::vector<int> cols          = colsOf(s, uids);
  // new name: often an existing one (collision), or the column's own current name
  std::string nn = r.coin(0.45) ? s.cols.at(s.order[r.irange(0, s.ncol() - 1)]).name : pickName(r);
  int type       = r.pick(MULTI);
  bool absent    = variant == 0 && r.coin(0.08);
  if (absent) names = {"nosuch"};
  static const char* N[] = {"setName", "setName(list)", "setNameByUID", "setNameByColIdx", "setNameByLocator"};
  op.name = N[variant];
  op.fam  = "name";
  switch (variant)
  {
    case 0: op.args = "'" + names[0] + "','" + nn + "'"; break;
    case 1: op.args = pv(names) + ",'" + nn + "'"; break;
    case 2: op.args = std::to_string(uids[0]) + ",'" + nn + "'"; break;
    case 3: op.args = std::to_string(cols[0]) + ",'" + nn + "'"; break;
    case 4: op.args = TN(type) + ",'" + nn + "'"; break;
  }
  op.valid = [=](const Shadow& s) {
    if (AVOID_RENAME_STEALING && (variant == 1 || variant == 4))
    {
      std::vector<int> tg = variant == 4 ? s.loc[type] : uids;
      for (int u : s.order)
        if (std::find(tg.begin(), tg.end(), u) == tg.end() && s.cols.at(u).name.compare(0, nn.size() + 1, nn + ".") == 0) return false;
    }
    if (variant == 4) return true;
    if (absent) return s.uidByName("nosuch") < 0 && !s.namesAmbiguous();
    if (!allLive(s, uids)) return false;
    if (variant <= 1 && !namesOk(s, uids, names)) return false;
    if (variant == 3 && colsOf(s, uids) != cols) return false;
    if (variant == 3 && AVOID_SETNAMEBYCOLIDX_DUP && s.uidByName(nn) >= 0 && s.uidByName(nn) != uids[0]) return false;
    return true;
  };
  op.run = [=](Db*& db, Shadow& s, Exp& e) {
    std::vector<int> tg = uids;
    switch (variant)
    {
      case 0: db->setName(names[0], nn); if (absent) tg.clear(); break;
      case 1:
        // the list is resolved one name at a time AFTER the previous renamings: a later name of the list which, read as
        // a pattern, matches the intermediate name "nn.<i>" of an earlier target designates that target again
        for (size_t j = 1; j < names.size(); j++)
          for (size_t i = 0; i < j; i++)
            if (names[j] != nn + "." + std::to_string(i + 1) && nameMatches(names[j], nn + "." + std::to_string(i + 1)) == 1)
              e.cls = "name-as-pattern:setName(list)";
        db->setName(VS(names), nn);
        break;
      case 2: db->setNameByUID(uids[0], nn); break;
      case 3: db->setNameByColIdx(cols[0], nn); break;
      case 4: db->setNameByLocator(EL(type), nn); tg = s.loc[type]; break;
    }
    for (int u : tg) e.newName[u] = nn;
  };
  return true;
}

// ---- roles -----------------------------------------------------------------------------------------------------------
static bool gen_setLocator(Rng& r, const Shadow& s, Op& op)
{
  if (s.ncol() == 0) return false;
  // 0 setLocator(name) 1 setLocators(names) 2 setLocatorByUID 3 setLocatorByColIdx 4 setLocatorsByUID(n,uid)
  // 5 setLocatorsByUID(vec) 6 setLocatorsByColIdx(vec)
  int variant = r.irange(0, 6);
  if (variant == 6 && AVOID_SETLOCATORSBYCOLIDX) variant = 5;
  bool multi  = variant == 1 || variant >= 4;
  int k       = multi ? r.irange(1, std::min(3, s.ncol())) : 1;
  std::vector<int> uids;
  if (variant == 4)
  {
    // consecutive UIDs, all live
    std::vector<int> starts;
    for (int u : s.order)
    {
      bool ok = true;
      for (int i = 0; i < k; i++) ok = ok && s.live(u + i);
      if (ok) starts.push_back(u);
    }
    if (starts.empty()) return false;
    int u0 = r.pick(starts);
    for (int i = 0; i < k; i++) uids.push_back(u0 + i);
  }
  else
    uids = pickUids(r, s, k);
  LocArgs a = drawLoc(r, s, (int)uids.size(), true);
  if (a.type == T_SEL)
  {
    // give SEL to a 0/1 column when there is one, else fall back on another type
    std::vector<int> bins;
    for (int u : s.order)
      if (Shadow::binary(s.cols.at(u).v)) bins.push_back(u);
    if (bins.empty() || uids.size() != 1 || variant == 4) a.type = T_Z, a.idx = -1;
    else uids = {r.pick(bins)};
  }
  if (!locValid(s, uids, a.type, a.idx, a.clean))
  {
    a.idx = -1;
    if (!locValid(s, uids, a.type, a.idx, a.clean)) return false;
  }
  std::vector<std::string> names = namesOf(s, uids);
  std::vector<int> cols          = colsOf(s, uids);
  static const char* N[] = {"setLocator", "setLocators", "setLocatorByUID", "setLocatorByColIdx", "setLocatorsByUID(n)", "setLocatorsByUID", "setLocatorsByColIdx"};
  op.name = N[variant];
  op.fam  = "loc";
  switch (variant)
  {
    case 0: op.args = "'" + names[0] + "'"; break;
    case 1: op.args = pv(names); break;
    case 2: op.args = std::to_string(uids[0]); break;
    case 3: op.args = std::to_string(cols[0]); break;
    case 4: op.args = std::to_string(k) + "," + std::to_string(uids[0]); break;
    case 5: op.args = pv(uids); break;
    case 6: op.args = pv(cols); break;
  }
  op.args += "," + locStrArgs(a);
  op.valid = [=](const Shadow& s) {
    if (!locValid(s, uids, a.type, a.idx, a.clean)) return false;
    if (variant <= 1 && !namesOk(s, uids, names)) return false;
    if ((variant == 3 || variant == 6) && colsOf(s, uids) != cols) return false;
    return true;
  };
  op.run = [=](Db*& db, Shadow& s, Exp& e) {
    switch (variant)
    {
      case 0: db->setLocator(names[0], EL(a.type), a.idx, a.clean); break;
      case 1: db->setLocators(VS(names), EL(a.type), a.idx, a.clean); break;
      case 2: db->setLocatorByUID(uids[0], EL(a.type), a.idx, a.clean); break;
      case 3: db->setLocatorByColIdx(cols[0], EL(a.type), a.idx, a.clean); break;
      case 4: db->setLocatorsByUID(k, uids[0], EL(a.type), a.idx, a.clean); break;
      case 5: db->setLocatorsByUID(VectorInt(uids), EL(a.type), a.idx, a.clean); break;
      case 6: db->setLocatorsByColIdx(VectorInt(cols), EL(a.type), a.idx, a.clean); break;
    }
    locModel(s, e, uids, a.type, a.idx, a.clean);
  };
  return true;
}
static bool gen_clearSwitch(Rng& r, const Shadow& s, Op& op)
{
  int variant = r.irange(0, 2); // 0 clearLocators 1 clearSelection 2 switchLocator
  int t1 = r.pick(r.coin(0.75) ? MULTI : UNIQ), t2 = r.pick(MULTI);
  if (variant == 2)
  {
    t1 = r.pick(MULTI);
    if (t1 == t2) t2 = MULTI[(std::find(MULTI.begin(), MULTI.end(), t1) - MULTI.begin() + 1) % MULTI.size()];
  }
  (void)s;
  op.name = variant == 0 ? "clearLocators" : variant == 1 ? "clearSelection" : "switchLocator";
  op.fam  = "loc";
  op.args = variant == 0 ? TN(t1) : variant == 1 ? "" : TN(t1) + "," + TN(t2);
  op.valid = [=](const Shadow&) { return true; };
  op.run = [=](Db*& db, Shadow& s, Exp& e) {
    (void)e;
    if (variant == 0) { db->clearLocators(EL(t1)); s.loc[t1].clear(); }
    if (variant == 1) { db->clearSelection(); s.loc[T_SEL].clear(); }
    if (variant == 2)
    {
      db->switchLocator(EL(t1), EL(t2));
      for (int u : s.loc[t1]) s.loc[t2].push_back(u);
      s.loc[t1].clear();
    }
  };
  return true;
}

// ---- values ----------------------------------------------------------------------------------------------------------
static bool isSel(const Shadow& s, int uid) { return s.selUid() == uid; }

static bool gen_setCell(Rng& r, const Shadow& s, Op& op)
{
  if (s.ncol() == 0 || s.nech == 0) return false;
  // 0 setArray 1 setValue 2 setValueByColIdx 3 setFromLocator 4 setLocVariable 5 setValue(absent name)
  int variant = r.irange(0, 5);
  int uid     = pickUids(r, s, 1)[0];
  int type = -1, rank = -1;
  if (variant == 3 || variant == 4)
  {
    std::vector<int> have;
    for (int u : s.order)
      if (s.locOf(u).first >= 0) have.push_back(u);
    if (have.empty()) variant = 0;
    else
    {
      uid  = r.pick(have);
      type = s.locOf(uid).first;
      rank = s.locOf(uid).second;
    }
  }
  int iech = r.irange(0, s.nech - 1), icol = s.colOf(uid);
  std::string name = variant == 5 ? "nosuch" : s.cols.at(uid).name;
  double v = dval(r, isSel(s, uid));
  static const char* N[] = {"setArray", "setValue", "setValueByColIdx", "setFromLocator", "setLocVariable", "setValue(absent)"};
  op.name = N[variant];
  op.fam  = "val";
  op.args = (variant == 0 ? std::to_string(iech) + "," + std::to_string(uid) : variant == 1 || variant == 5 ? "'" + name + "'," + std::to_string(iech) : variant == 2 ? std::to_string(iech) + "," + std::to_string(icol) : TN(type) + "," + std::to_string(iech) + "," + std::to_string(rank)) + "," + pd(v);
  op.valid = [=](const Shadow& s) {
    if (iech >= s.nech) return false;
    if (variant == 5) return s.uidByName("nosuch") < 0 && !s.namesAmbiguous();
    if (!s.live(uid)) return false;
    if (isSel(s, uid) && v != 0. && v != 1.) return false;
    if (variant == 1 && !namesOk(s, {uid}, {name})) return false;
    if (variant == 2 && s.colOf(uid) != icol) return false;
    if ((variant == 3 || variant == 4) && s.locOf(uid) != std::make_pair(type, rank)) return false;
    return true;
  };
  op.run = [=](Db*& db, Shadow& s, Exp& e) {
    (void)e;
    switch (variant)
    {
      case 0: db->setArray(iech, uid, v); break;
      case 1: case 5: db->setValue(name, iech, v); break;
      case 2: db->setValueByColIdx(iech, icol, v); break;
      case 3: db->setFromLocator(EL(type), iech, rank, v); break;
      case 4: db->setLocVariable(EL(type), iech, rank, v); break;
    }
    if (variant != 5) s.cols[uid].v[iech] = v;
  };
  return true;
}

static bool gen_setColumn(Rng& r, const Shadow& s, Op& op)
{
  if (s.ncol() == 0 || s.nech == 0) return false;
  // 0 setColumn(existing name) 1 setColumnByUID 2 setColumnByColIdx 3 setArrayVec 4 duplicateColumnByUID 5 copyByUID 6 copyByCol
  int variant = r.irange(0, 6);
  int uid     = pickUids(r, s, 1)[0];
  int uid2    = pickUids(r, s, 1)[0];
  bool useSel = variant <= 2 && s.selUid() >= 0 && s.selClean() && r.coin(0.4);
  if (variant == 2 && isSel(s, uid)) useSel = false; // masked samples of the selection itself would become undetermined
  int n = useSel ? s.nactive() : s.nech;
  std::vector<int> iechs;
  if (variant == 3) { iechs = pickDistinct(r, s.nech, r.irange(0, s.nech)); n = (int)iechs.size(); }
  std::vector<double> tab = dvals(r, n, isSel(s, uid));
  if (variant >= 4 && isSel(s, uid) && !Shadow::binary(s.cols.at(uid2).v)) return false;
  std::string name = s.cols.at(uid).name;
  int icol = s.colOf(uid), icol2 = s.colOf(uid2), nech = s.nech;
  static const char* N[] = {"setColumn", "setColumnByUID", "setColumnByColIdx", "setArrayVec", "duplicateColumnByUID", "copyByUID", "copyByCol"};
  op.name = N[variant];
  op.fam  = "val";
  switch (variant)
  {
    case 0: op.args = pv(tab) + ",'" + name + "',useSel=" + std::to_string(useSel); break;
    case 1: op.args = pv(tab) + "," + std::to_string(uid) + ",useSel=" + std::to_string(useSel); break;
    case 2: op.args = pv(tab) + "," + std::to_string(icol) + ",useSel=" + std::to_string(useSel); break;
    case 3: op.args = pv(iechs) + "," + std::to_string(uid) + "," + pv(tab); break;
    case 4: case 5: op.args = std::to_string(uid2) + "->" + std::to_string(uid); break;
    case 6: op.args = std::to_string(icol2) + "->" + std::to_string(icol); break;
  }
  op.valid = [=](const Shadow& s) {
    if (!s.live(uid) || s.nech != nech) return false;
    if (variant >= 4 && (!s.live(uid2) || (isSel(s, uid) && !Shadow::binary(s.cols.at(uid2).v)))) return false;
    if (variant <= 3 && isSel(s, uid) && !Shadow::binary(tab)) return false;
    if (useSel && (s.selUid() < 0 || !s.selClean() || (variant == 2 && isSel(s, uid)))) return false;
    if (variant <= 2 && (useSel ? s.nactive() : s.nech) != n) return false;
    if (variant == 0 && !namesOk(s, {uid}, {name})) return false;
    if (variant == 2 && s.colOf(uid) != icol) return false;
    if (variant == 6 && (s.colOf(uid) != icol || s.colOf(uid2) != icol2)) return false;
    return true;
  };
  op.run = [=](Db*& db, Shadow& s, Exp& e) {
    // model first (the selection read by the call is the one before the call)
    std::vector<double> nv = s.cols.at(uid).v;
    if (variant <= 2)
    {
      int lec = 0;
      for (int i = 0; i < s.nech; i++)
      {
        if (!useSel || s.active(i)) nv[i] = tab[lec++];
        else if (variant == 2) e.dcCell.insert({uid, i}); // setColumnByColIdx(useSel): masked samples undocumented
      }
    }
    else if (variant == 3)
      for (size_t j = 0; j < iechs.size(); j++) nv[iechs[j]] = tab[j];
    else
      nv = s.cols.at(uid2).v;
    switch (variant)
    {
      case 0: db->setColumn(VectorDouble(tab), name, ELoc::UNKNOWN, 0, useSel); break;
      case 1: db->setColumnByUID(VectorDouble(tab), uid, useSel); break;
      case 2: db->setColumnByColIdx(VectorDouble(tab), icol, useSel); break;
      case 3: db->setArrayVec(VectorInt(iechs), uid, VectorDouble(tab)); break;
      case 4: db->duplicateColumnByUID(uid2, uid); break;
      case 5: db->copyByUID(uid2, uid); break;
      case 6: db->copyByCol(icol2, icol); break;
    }
    s.cols[uid].v = nv;
  };
  return true;
}

static bool gen_setBlock(Rng& r, const Shadow& s, Op& op)
{
  if (s.ncol() == 0 || s.nech == 0) return false;
  // 0 setArrayBySample 1 setAllColumns 2 setValuesByColIdx 3 setValuesByNames 4 setColumnsByColIdx 5 setLocVariables
  int variant = r.irange(0, 5);
  int nech = s.nech, ncol = s.ncol();
  int iech = r.irange(0, nech - 1);
  int k    = r.irange(1, std::min(3, ncol));
  std::vector<int> uids = (variant <= 1) ? s.order : pickUids(r, s, k);
  int type = -1;
  if (variant == 5)
  {
    std::vector<int> have;
    for (int t : MULTI)
      if (!s.loc[t].empty()) have.push_back(t);
    if (have.empty()) return false;
    type = r.pick(have);
    uids = s.loc[type];
  }
  std::vector<int> iechs = pickDistinct(r, nech, r.irange(1, std::min(4, nech)));
  bool bySample = r.coin();
  bool useSel   = variant == 4 && s.selUid() >= 0 && s.selClean() && r.coin(0.4);
  for (int u : uids)
    if (useSel && isSel(s, u)) useSel = false;
  int nrow = (variant == 0 || variant == 5) ? 1 : (variant == 1) ? nech : (variant == 4) ? (useSel ? s.nactive() : nech) : (int)iechs.size();
  // values per (column j, row i)
  std::vector<std::vector<double>> V;
  for (int u : uids) V.push_back(dvals(r, nrow, isSel(s, u)));
  std::vector<std::string> names = namesOf(s, uids);
  std::vector<int> cols          = colsOf(s, uids);
  static const char* N[] = {"setArrayBySample", "setAllColumns", "setValuesByColIdx", "setValuesByNames", "setColumnsByColIdx", "setLocVariables"};
  op.name = N[variant];
  op.fam  = "val";
  op.args = (variant == 0 || variant == 5 ? (variant == 5 ? TN(type) + "," : std::string()) + std::to_string(iech) : variant == 1 ? std::string("all") : variant == 4 ? pv(cols) + ",useSel=" + std::to_string(useSel)
             : pv(iechs) + "," + (variant == 2 ? pv(cols) : pv(names)) + ",bySample=" + std::to_string(bySample)) + ",values[0]=" + pv(V[0]);
  op.valid = [=](const Shadow& s) {
    if (s.nech != nech || !allLive(s, uids)) return false;
    if (variant <= 1 && s.order != uids) return false;
    if (variant == 5 && s.loc[type] != uids) return false;
    if ((variant == 2 || variant == 4) && colsOf(s, uids) != cols) return false;
    if (variant == 3 && !namesOk(s, uids, names)) return false;
    for (size_t j = 0; j < uids.size(); j++)
      if (isSel(s, uids[j]) && (!Shadow::binary(V[j]) || useSel)) return false;
    if (useSel && (s.selUid() < 0 || !s.selClean())) return false;
    if (variant == 4 && (useSel ? s.nactive() : nech) != nrow) return false;
    return true;
  };
  op.run = [=](Db*& db, Shadow& s, Exp& e) {
    std::map<int, std::vector<double>> nv;
    for (int u : uids) nv[u] = s.cols.at(u).v;
    if (variant == 0 || variant == 5)
    {
      std::vector<double> vec;
      for (size_t j = 0; j < uids.size(); j++) { vec.push_back(V[j][0]); nv[uids[j]][iech] = V[j][0]; }
      if (variant == 0) db->setArrayBySample(iech, VectorDouble(vec));
      else db->setLocVariables(EL(type), iech, VectorDouble(vec));
    }
    else if (variant == 1)
    {
      VectorVectorDouble tabs;
      for (size_t j = 0; j < uids.size(); j++) { tabs.push_back(VectorDouble(V[j])); nv[uids[j]] = V[j]; }
      db->setAllColumns(tabs);
    }
    else if (variant == 2 || variant == 3)
    {
      std::vector<double> vals;
      if (bySample)
        for (size_t i = 0; i < iechs.size(); i++)
          for (size_t j = 0; j < uids.size(); j++) vals.push_back(V[j][i]);
      else
        for (size_t j = 0; j < uids.size(); j++)
          for (size_t i = 0; i < iechs.size(); i++) vals.push_back(V[j][i]);
      for (size_t j = 0; j < uids.size(); j++)
        for (size_t i = 0; i < iechs.size(); i++) nv[uids[j]][iechs[i]] = V[j][i];
      if (variant == 2) db->setValuesByColIdx(VectorInt(iechs), VectorInt(cols), VectorDouble(vals), bySample);
      else db->setValuesByNames(VectorInt(iechs), VS(names), VectorDouble(vals), bySample);
    }
    else
    {
      std::vector<double> tabs;
      for (size_t j = 0; j < uids.size(); j++)
      {
        int lec = 0;
        for (int i = 0; i < nech; i++)
        {
          if (!useSel || s.active(i)) nv[uids[j]][i] = V[j][lec++];
          else e.dcCell.insert({uids[j], i});
        }
        tabs.insert(tabs.end(), V[j].begin(), V[j].end());
      }
      db->setColumnsByColIdx(VectorDouble(tabs), VectorInt(cols), useSel);
    }
    for (int u : uids) s.cols[u].v = nv[u];
  };
  return true;
}

// ---- update in place, coordinates, Z variable -------------------------------------------------------------------------
#include "Enum/EOperator.hpp"
static bool gen_upd(Rng& r, const Shadow& s, Op& op)
{
  if (s.ncol() == 0 || s.nech == 0) return false;
  // 0 updArray 1 updArrayVec 2 updLocVariable 3 updZVariable 4 setZVariable 5 setCoordinate 6 setSampleCoordinates 7 setCoordinates
  int variant = r.irange(0, 7);
  int need    = variant == 3 || variant == 4 ? T_Z : (variant >= 5 ? T_X : -1);
  std::vector<int> cand;
  for (int u : s.order)
  {
    auto l = s.locOf(u);
    if (isSel(s, u)) continue; // arithmetic on the selection column would leave the 0/1 domain
    if (variant == 2 && l.first < 0) continue;
    if (need >= 0 && l.first != need) continue;
    cand.push_back(u);
  }
  if (cand.empty()) return false;
  int uid = r.pick(cand), nech = s.nech;
  int type = s.locOf(uid).first, rank = s.locOf(uid).second;
  int iech = r.irange(0, nech - 1);
  std::vector<int> iechs = pickDistinct(r, nech, r.irange(1, std::min(4, nech)));
  // operators with a single reading (EOperator.hpp): ADD "New + Old", PRODUCT "New * Old", SUBTRACT "New - Old", MIN, MAX
  static const int OPS[] = {1, 2, 3, 8, 9};
  int oper = OPS[r.irange(0, 4)];
  std::vector<double> vals;
  for (size_t i = 0; i < std::max<size_t>(iechs.size(), 3); i++) vals.push_back(r.irange(-6, 12) / 2.0);
  bool useSel = variant == 7 && s.selUid() >= 0 && s.selClean() && r.coin(0.4);
  int n       = useSel ? s.nactive() : nech;
  std::vector<double> tab = dvals(r, n, false);
  std::vector<int> xs     = s.loc[T_X];
  bool grid               = s.grid;
  static const char* N[] = {"updArray", "updArrayVec", "updLocVariable", "updZVariable", "setZVariable", "setCoordinate", "setSampleCoordinates", "setCoordinates"};
  op.name = N[variant];
  op.fam  = "val";
  op.args = (variant == 1 ? pv(iechs) : std::to_string(iech)) + ",uid=" + std::to_string(uid) + "," + TN(type) + "#" + std::to_string(rank) + (variant <= 3 ? ",oper=" + std::to_string(oper) : std::string()) + "," + (variant == 7 ? pv(tab) + ",useSel=" + std::to_string(useSel) : pv(vals));
  auto apply = [=](double oldv, double v) {
    switch (oper)
    {
      case 1: return v + oldv;
      case 2: return v * oldv;
      case 3: return v - oldv;
      case 8: return std::min(oldv, v);
      default: return std::max(oldv, v);
    }
  };
  op.valid = [=](const Shadow& s) {
    if (!s.live(uid) || s.nech != nech || isSel(s, uid)) return false;
    if (s.locOf(uid) != std::make_pair(type, rank)) return false;
    if (variant == 6 && (s.loc[T_X] != xs || s.grid != grid)) return false;
    if (variant == 6 && !grid && xs.empty()) return false;
    if (variant == 6)
      for (int u : xs)
        if (isSel(s, u)) return false;
    if (variant <= 3)
    {
      // the treatment of undefined operands is not documented: only defined old values are updated
      if (variant == 1) { for (int i : iechs) if (FFFF(s.cols.at(uid).v[i])) return false; }
      else if (FFFF(s.cols.at(uid).v[iech])) return false;
    }
    if (variant == 7 && (useSel ? (s.selUid() < 0 || !s.selClean() || s.nactive() != n) : false)) return false;
    return true;
  };
  op.run = [=](Db*& db, Shadow& s, Exp& e) {
    std::vector<double>& col = s.cols[uid].v;
    switch (variant)
    {
      case 0: db->updArray(iech, uid, EOperator::fromValue(oper), vals[0]); col[iech] = apply(col[iech], vals[0]); break;
      case 1:
      {
        VectorDouble vv(std::vector<double>(vals.begin(), vals.begin() + iechs.size()));
        db->updArrayVec(VectorInt(iechs), uid, EOperator::fromValue(oper), vv);
        for (size_t j = 0; j < iechs.size(); j++) col[iechs[j]] = apply(col[iechs[j]], vals[j]);
        break;
      }
      case 2: db->updLocVariable(EL(type), iech, rank, EOperator::fromValue(oper), vals[0]); col[iech] = apply(col[iech], vals[0]); break;
      case 3: db->updZVariable(iech, rank, EOperator::fromValue(oper), vals[0]); col[iech] = apply(col[iech], vals[0]); break;
      case 4: db->setZVariable(iech, rank, vals[0]); col[iech] = vals[0]; break;
      case 5: db->setCoordinate(iech, rank, vals[0]); col[iech] = vals[0]; break;
      case 6:
      {
        // "Argument 'coor' should have dimension ndim": ndim = number of X columns (Db) or the grid dimension (DbGrid)
        int ndim = db->getNDim();
        std::vector<double> coor;
        for (int i = 0; i < ndim; i++) coor.push_back(vals[i % vals.size()] + i);
        db->setSampleCoordinates(iech, VectorDouble(coor));
        for (int i = 0; i < ndim && i < (int)xs.size(); i++) s.cols[xs[i]].v[iech] = coor[i];
        break;
      }
      case 7:
      {
        int lec = 0;
        for (int i = 0; i < nech; i++)
        {
          if (!useSel || s.active(i)) col[i] = tab[lec++];
          else e.dcCell.insert({uid, i}); // goes through setColumnByColIdx: masked samples undocumented
        }
        db->setCoordinates(rank, VectorDouble(tab), useSel);
        break;
      }
    }
  };
  return true;
}

// ---- setItem (the operator[] of the scripting interfaces) -------------------------------------------------------------
static bool gen_setItem(Rng& r, const Shadow& s, Op& op)
{
  if (s.ncol() == 0 || s.nech == 0) return false;
  // the six overloads: 0 (rows, name, values) 1 (name, values) 2 (rows, names, VVD) 3 (names, VVD) 4 (locator, VVD)
  // 5 (rows, locator, VVD); each with useSel false / true
  int variant = r.irange(0, 5);
  int nech    = s.nech;
  int k       = (variant == 2 || variant == 3) ? r.irange(1, std::min(3, s.ncol())) : 1;
  std::vector<int> uids = pickUids(r, s, k);
  int type = -1;
  if (variant >= 4)
  {
    std::vector<int> have;
    for (int t : MULTI)
      if (!s.loc[t].empty()) have.push_back(t);
    if (have.empty()) return false;
    type = r.pick(have);
    uids = s.loc[type];
  }
  bool useSel = !AVOID_SETITEM_USESEL && s.selUid() >= 0 && s.selClean() && s.nactive() > 0 && r.coin(0.45);
  for (int u : uids)
    if (isSel(s, u)) useSel = false;
  bool byRows = variant == 0 || variant == 2 || variant == 5;
  if (byRows && useSel && AVOID_SETITEM_ROWS_USESEL) useSel = false;
  // rows: ranks among all samples, or among the ACTIVE samples when useSel (Db.hpp DB_6: "useSel When TRUE, the rank
  // corresponds to the *active* sample"; Db::getItem(rows, ..., useSel) reads them that way)
  int nref              = useSel ? s.nactive() : nech;
  std::vector<int> rows = pickDistinct(r, nref, r.irange(1, std::min(4, nref)));
  int n                 = byRows ? (int)rows.size() : nref;
  std::vector<std::vector<double>> V;
  for (int u : uids) V.push_back(dvals(r, n, isSel(s, u)));
  std::vector<std::string> names = namesOf(s, uids);
  static const char* N[] = {"setItem(rows,name)", "setItem(name)", "setItem(rows,names)", "setItem(names)", "setItem(locator)", "setItem(rows,locator)"};
  op.name = N[variant];
  op.fam  = "val";
  op.args = (byRows ? pv(rows) + "," : std::string()) + (variant >= 4 ? TN(type) : pv(names)) + ",values[0]=" + pv(V[0]) + ",useSel=" + std::to_string(useSel);
  op.valid = [=](const Shadow& s) {
    if (s.nech != nech || !allLive(s, uids)) return false;
    if (variant >= 4 ? s.loc[type] != uids : !namesOk(s, uids, names)) return false;
    if (variant >= 4 && s.namesAmbiguous()) return false;
    for (size_t j = 0; j < uids.size(); j++)
      if (isSel(s, uids[j]) && (!Shadow::binary(V[j]) || useSel)) return false;
    if (useSel && (s.selUid() < 0 || !s.selClean() || s.nactive() != nref)) return false;
    return true;
  };
  op.run = [=](Db*& db, Shadow& s, Exp& e) {
    VectorVectorDouble vvd;
    for (auto& v : V) vvd.push_back(VectorDouble(v));
    std::vector<int> act; // absolute rank of the k-th active sample
    for (int i = 0; i < nech; i++)
      if (!useSel || s.active(i)) act.push_back(i);
    int ret = -9;
    switch (variant)
    {
      case 0: ret = db->setItem(VectorInt(rows), names[0], VectorDouble(V[0]), useSel); break;
      case 1: ret = db->setItem(names[0], VectorDouble(V[0]), useSel); break;
      case 2: ret = db->setItem(VectorInt(rows), VS(names), vvd, useSel); break;
      case 3: ret = db->setItem(VS(names), vvd, useSel); break;
      case 4: ret = db->setItem(EL(type), vvd, useSel); break;
      case 5: ret = db->setItem(VectorInt(rows), EL(type), vvd, useSel); break;
    }
    e.ret("setItem returned " + std::to_string(ret) + " want 0", ret == 0);
    for (size_t j = 0; j < uids.size(); j++)
    {
      std::vector<double>& col = s.cols[uids[j]].v;
      if (byRows)
        for (size_t i = 0; i < rows.size(); i++) col[act[rows[i]]] = V[j][i];
      else
        for (size_t i = 0; i < act.size(); i++) col[act[i]] = V[j][i];
    }
    if (useSel) e.cls = byRows ? "setItem-rows-useSel" : "setItem-useSel";
  };
  return true;
}

// ---- NamingConvention::setNamesAndLocators on consecutive UIDs ---------------------------------------------------------
static bool gen_namconv(Rng& r, const Shadow& s, Op& op)
{
  if (s.ncol() == 0) return false;
  int k = r.irange(1, std::min(3, s.ncol()));
  std::vector<int> starts;
  for (int u : s.order)
  {
    bool ok = true;
    for (int i = 0; i < k; i++) ok = ok && s.live(u + i);
    if (ok) starts.push_back(u);
  }
  if (starts.empty()) return false;
  int u0 = r.pick(starts);
  std::vector<int> uids;
  for (int i = 0; i < k; i++) uids.push_back(u0 + i);
  std::vector<std::string> names;
  for (int i = 0; i < k; i++) names.push_back(pickName(r));
  bool flagLoc = r.coin(0.7), clean = r.coin(0.5);
  int type  = r.pick(MULTI);
  int len   = (int)s.loc[type].size();
  int shift = r.coin(0.6) ? 0 : len;
  if (!clean && shift == 0 && len > 0 && r.coin(0.5)) shift = r.irange(0, len);
  op.name = "NamingConvention::setNamesAndLocators";
  op.fam  = "name";
  op.args = std::to_string(u0) + "," + pv(names) + ",flagSetLocator=" + std::to_string(flagLoc) + "," + TN(type) + ",shift=" + std::to_string(shift) + (clean ? ",clean" : "");
  op.valid = [=](const Shadow& s) { return locValid(s, uids, flagLoc ? type : -1, shift, clean && shift == 0) && (!flagLoc || shift <= (int)s.loc[type].size()); };
  op.run = [=](Db*& db, Shadow& s, Exp& e) {
    NamingConvention nc("", true, true, true, EL(type), ".", clean);
    nc.setNamesAndLocators(db, u0, VS(names), flagLoc, shift);
    for (int i = 0; i < k; i++) e.newName[uids[i]] = names[i];
    if (flagLoc) locModel(s, e, uids, type, shift, clean && shift == 0);
  };
  return true;
}

// ---- designation by PATTERN (String.cpp expandList: "x.*" -> every name matching) -------------------------------------
static std::vector<int> resolvePattern(const Shadow& s, const std::string& pat)
{
  std::vector<int> o;
  for (int u : s.order)
    if (nameMatches(pat, s.cols.at(u).name) == 1) o.push_back(u);
  return o;
}
static bool gen_pattern(Rng& r, const Shadow& s, Op& op)
{
  if (s.ncol() == 0) return false;
  int variant = r.irange(0, 1); // 0 deleteColumn(pattern) 1 setLocator(pattern)
  std::string base = s.cols.at(s.order[r.irange(0, s.ncol() - 1)]).name;
  size_t cut = base.find_first_of(".-");
  if (cut != std::string::npos) base = base.substr(0, cut);
  std::string pat = r.coin(0.15) ? std::string("*") : r.coin(0.5) ? base + "*" : base + "-*";
  LocArgs a = drawLoc(r, s, 2, true);
  a.clean   = a.type >= 0 && r.coin(0.3);
  if (a.type >= 0 && !a.clean) a.idx = r.coin() ? -1 : (int)s.loc[a.type].size();
  op.name = variant == 0 ? "deleteColumn(pattern)" : "setLocator(pattern)";
  op.fam  = variant == 0 ? "del" : "loc";
  op.args = "'" + pat + "'" + (variant == 1 ? "," + locStrArgs(a) : std::string());
  op.valid = [=](const Shadow& s) {
    if (s.namesAmbiguous()) return false;
    std::vector<int> uids = resolvePattern(s, pat);
    if (variant == 0) return true;
    return !uids.empty() && locValid(s, uids, a.type, a.idx, a.clean);
  };
  op.run = [=](Db*& db, Shadow& s, Exp& e) {
    std::vector<int> uids = resolvePattern(s, pat);
    if (variant == 0)
    {
      db->deleteColumn(pat);
      for (int u : uids) s.delCol(u);
    }
    else
    {
      db->setLocator(pat, EL(a.type), a.idx, a.clean);
      locModel(s, e, uids, a.type, a.idx, a.clean);
    }
  };
  return true;
}

// ---- samples ---------------------------------------------------------------------------------------------------------
static bool gen_samples(Rng& r, const Shadow& s, Op& op)
{
  int variant = r.irange(0, 2); // 0 addSamples 1 deleteSample 2 deleteSamples
  int nech    = s.nech;
  if (variant >= 1 && nech < 2) variant = 0;
  int nadd = r.irange(1, 3);
  bool hasSel = s.selUid() >= 0;
  bool deflt  = r.coin(0.4) && !(AVOID_ADDSAMPLES_TEST_SEL && hasSel);
  double valinit = deflt ? TEST : (hasSel ? dval(r, true) : dval(r, false));
  int idel = nech > 0 ? r.irange(0, nech - 1) : 0;
  std::vector<int> dels = nech > 1 ? pickDistinct(r, nech, r.irange(1, std::min(3, nech - 1))) : std::vector<int>();
  op.name = variant == 0 ? "addSamples" : variant == 1 ? "deleteSample" : "deleteSamples";
  op.fam  = "samp";
  op.args = variant == 0 ? std::to_string(nadd) + (deflt ? "" : "," + pd(valinit)) : variant == 1 ? std::to_string(idel) : pv(dels);
  op.valid = [=](const Shadow& s) {
    if (s.nech != nech) return false;
    if (variant == 0 && s.selUid() >= 0 && !deflt && valinit != 0. && valinit != 1.) return false;
    if (variant >= 1 && nech < 2) return false;
    return true;
  };
  op.run = [=](Db*& db, Shadow& s, Exp& e) {
    if (variant == 0)
    {
      int ret = deflt ? db->addSamples(nadd) : db->addSamples(nadd, valinit);
      if (s.grid) { e.ret("addSamples on a grid returned " + std::to_string(ret) + " want -1 (refused)", ret == -1); return; }
      e.ret("addSamples returned " + std::to_string(ret) + " want the previous sample count " + std::to_string(nech), ret == nech);
      for (auto& kv : s.cols) kv.second.v.resize(nech + nadd, valinit);
      s.nech += nadd;
    }
    else if (variant == 1)
    {
      int ret = db->deleteSample(idel);
      if (s.grid) { e.ret("deleteSample on a grid returned " + std::to_string(ret) + " want non-zero (refused)", ret != 0); return; }
      e.ret("deleteSample returned " + std::to_string(ret) + " want 0", ret == 0);
      for (auto& kv : s.cols) kv.second.v.erase(kv.second.v.begin() + idel);
      s.nech--;
    }
    else
    {
      int ret = db->deleteSamples(VectorInt(dels));
      if (s.grid) { e.ret("deleteSamples on a grid returned " + std::to_string(ret) + " want non-zero (refused)", ret != 0); return; }
      e.ret("deleteSamples returned " + std::to_string(ret) + " want 0", ret == 0);
      std::vector<int> d = dels;
      std::sort(d.rbegin(), d.rend());
      for (int i : d)
        for (auto& kv : s.cols) kv.second.v.erase(kv.second.v.begin() + i);
      s.nech -= (int)d.size();
    }
  };
  return true;
}

// ---- whole-object operations -----------------------------------------------------------------------------------------
static bool gen_object(Rng& r, const Shadow& s, Op& op)
{
  int variant = r.irange(0, 3); // 0 copy-construct 1 clone 2 assignment into an unrelated object 3 resetDims
  if (variant == 3 && !r.coin(0.3)) variant = r.irange(0, 2);
  int ncolNew = r.irange(0, 4), nechNew = r.irange(1, 6);
  int probeU = s.ncol() > 0 ? pickUids(r, s, 1)[0] : -1;
  (void)s;
  op.name = variant == 0 ? "copy-construct" : variant == 1 ? "clone" : variant == 2 ? "assign" : "resetDims";
  op.fam  = "obj";
  op.args = variant == 3 ? std::to_string(ncolNew) + "," + std::to_string(nechNew) : "";
  op.valid = [=](const Shadow&) { return true; };
  std::string opname = op.name;
  op.run = [=](Db*& db, Shadow& s, Exp& e) {
    if (variant == 3)
    {
      db->resetDims(ncolNew, nechNew);
      int ne = s.grid ? s.nech : nechNew; // DbGrid::resetDims: "nech ... (ignore in case of Grid)"
      s.order.clear();
      s.cols.clear();
      for (int t = 0; t < NLOC; t++) s.loc[t].clear();
      s.nmax = 0;
      s.nech = ne;
      for (int i = 0; i < ncolNew; i++)
      {
        int u = s.addCol(std::vector<double>(ne, 0.));
        e.dcCol.insert(u); // content after resetDims is not documented
        e.newName[u] = "New";
      }
      return;
    }
    std::string before = snapshot(db);
    Db* nd             = nullptr;
    DbGrid* g          = dynamic_cast<DbGrid*>(db);
    if (variant == 0) nd = g ? (Db*)new DbGrid(*g) : new Db(*db);
    if (variant == 1) nd = db->clone();
    if (variant == 2)
    {
      if (g)
      {
        DbGrid* o = DbGrid::create({2, 2});
        o->addColumnsByConstant(2, 7., "other", ELoc::Z);
        *o = *g;
        nd = o;
      }
      else
      {
        Db* o = Db::createFromSamples(3, ELoadBy::SAMPLE, {1, 2, 3, 4, 5, 6}, {"p", "q"}, {"x1", "z1"});
        o->deleteColumn("p");
        *o = *db;
        nd = o;
      }
    }
    e.ret(opname + ": the copy differs from the original", nd != nullptr && snapshot(nd) == before && nd->isGrid() == db->isGrid());
    // independence: editing the original must not show in the copy
    if (probeU >= 0 && s.live(probeU) && s.nech > 0)
    {
      bool bin = s.selUid() == probeU;
      db->setArray(0, probeU, bin ? 1. - s.cols.at(probeU).v[0] : 98765.);
      db->setNameByUID(probeU, "scratched");
    }
    db->addColumnsByConstant(1, 5., "extra", ELoc::Z, 0);
    e.ret(opname + ": editing the original changed the copy", snapshot(nd) == before);
    delete db;
    db         = nd;
    e.replaced = true;
  };
  return true;
}

struct GenEntry
{
  Gen g;
  double w;
};
static const std::vector<GenEntry> GENS = {
  {gen_addColumnsByConstant, 6}, {gen_addColumns, 7}, {gen_addColumnsRandom, 1.5}, {gen_addSelection, 5}, {gen_generateRank, 1.5},
  {gen_delete, 12}, {gen_rename, 10}, {gen_setLocator, 22}, {gen_clearSwitch, 4}, {gen_setCell, 8}, {gen_setColumn, 9},
  {gen_setBlock, 7}, {gen_samples, 6}, {gen_object, 3}, {gen_upd, 5}, {gen_setItem, 4}, {gen_namconv, 2.5}, {gen_pattern, 3}};

static int g_maxCols = 12; // soft cap on the table width (18 in the thorough tier)
static bool genOp(Rng& r, const Shadow& s, Op& op)
{
  double tot = 0;
  for (auto& g : GENS) tot += g.w;
  for (int tries = 0; tries < 30; tries++)
  {
    double u = r.uni(0, tot);
    size_t i = 0;
    for (; i + 1 < GENS.size() && u >= GENS[i].w; i++) u -= GENS[i].w;
    // keep tables small: bias towards deletion when wide, towards addition when narrow
    if (s.ncol() >= g_maxCols && i < 5 && r.coin(0.7)) continue;
    Op o;
    if (GENS[i].g(r, s, o) && o.valid(s)) { op = o; return true; }
  }
  return false;
}

// =====================================================================================================================
// Initial construction
// =====================================================================================================================
struct Init
{
  int kind; // 0 createFromSamples 1 empty Db + first columns 2 DbGrid::create 3 empty Db
  int nech, nvar;
  bool byCol, rank, coords;
  std::vector<double> tab;
  std::vector<std::string> names, locs;
  std::vector<int> nx;
  std::vector<double> dx, x0, ang;
  std::string describe() const
  {
    if (kind == 0) return "Db::createFromSamples(" + std::to_string(nech) + (byCol ? ",COLUMN," : ",SAMPLE,") + pv(tab) + "," + pv(names) + "," + pv(locs) + ",rank=" + std::to_string(rank) + ")";
    if (kind == 3) return "Db::create()";
    if (kind == 1) return "Db::create()+addColumns(" + pv(tab) + ",'" + names[0] + "',nvar=" + std::to_string(nvar) + ")";
    return "DbGrid::create(" + pv(nx) + "," + pv(dx) + "," + pv(x0) + "," + pv(ang) + (byCol ? ",COLUMN," : ",SAMPLE,") + pv(tab) + "," + pv(names) + "," + pv(locs) + ",rank=" + std::to_string(rank) + ",coords=" + std::to_string(coords) + ")";
  }
};
static Init drawInit(Rng& r, bool thorough)
{
  Init in;
  double u  = r.u01();
  in.kind   = u < 0.5 ? 0 : u < 0.62 ? 1 : u < 0.7 ? 3 : 2;
  in.byCol  = r.coin();
  in.rank   = r.coin(0.6);
  in.coords = r.coin(0.7);
  in.nvar   = r.irange(in.kind == 1 ? 1 : 0, 5);
  if (in.kind == 2)
  {
    int ndim = r.irange(1, 3);
    int cap  = thorough ? 4 : 3;
    for (int i = 0; i < ndim; i++)
    {
      in.nx.push_back(r.irange(1, cap));
      in.dx.push_back(r.irange(1, 4) / 2.);
      in.x0.push_back(r.irange(-4, 4));
    }
    if (ndim >= 2 && r.coin(0.4)) { in.ang.assign(ndim, 0.); in.ang[0] = r.irange(0, 8) * 10.; }
    in.nech = 1;
    for (int n : in.nx) in.nech *= n;
  }
  else
    in.nech = r.irange(1, thorough ? 14 : 9);
  if (in.kind == 3) in.nech = 0, in.nvar = 0;
  in.tab = dvals(r, in.nech * in.nvar, false);
  // names with deliberate duplicates; locator names: per type the rank is "next" or an already used one (never a gap)
  static const std::vector<std::string> LT = {"x", "x", "z", "z", "v", "f", "NA", "NA", "w", "code"};
  std::map<std::string, int> cnt;
  for (int i = 0; i < in.nvar; i++)
  {
    in.names.push_back(pickName(r));
    std::string t = r.pick(LT);
    if (t == "NA" || t == "w" || t == "code") { in.locs.push_back(t); continue; }
    int k    = cnt[t];
    int rank = (k > 0 && r.coin(0.25)) ? r.irange(1, k) : ++cnt[t];
    in.locs.push_back(t + std::to_string(rank));
  }
  if (in.kind == 1) in.names = {pickName(r)};
  if (r.coin(0.3)) in.locs.clear();
  if (r.coin(0.15) && in.kind != 1) in.names.clear();
  return in;
}
static Db* buildInit(const Init& in)
{
  const ELoadBy& order = in.byCol ? ELoadBy::COLUMN : ELoadBy::SAMPLE;
  if (in.kind == 0) return Db::createFromSamples(in.nech, order, VectorDouble(in.tab), VS(in.names), VS(in.locs), in.rank);
  if (in.kind == 3) return Db::create();
  if (in.kind == 1)
  {
    Db* db = Db::create();
    db->addColumns(VectorDouble(in.tab), in.names[0], ELoc::Z, 0, false, 0., in.nvar);
    return db;
  }
  return DbGrid::create(VectorInt(in.nx), VectorDouble(in.dx), VectorDouble(in.x0), VectorDouble(in.ang), order, VectorDouble(in.tab), VS(in.names), VS(in.locs), in.rank, in.coords);
}

// =====================================================================================================================
// Running a history
// =====================================================================================================================
static const char* INV_RULES[] = {"count", "names-unique", "uid-col", "isUIDDefined", "name-designation", "name-regex-ambiguous",
                                  "locator-gap", "locator-two-roles", "locator-designation", "value-views", "selection-views", "active-count"};
// getter defects that do not depend on the last operation: one key for the state, reported once per history
static std::string stickyKey(const std::string& rule)
{
  if (rule == "isUIDDefined") return "C07:isUIDDefined:inconsistent-with-getColIdxByUID";
  if (rule == "name-regex-ambiguous") return "C07:name-as-pattern:own-name-designates-another-column";
  return "";
}
static bool hasHardViolation(const std::vector<DbViolation>& v)
{
  for (auto& x : v)
    if (stickyKey(x.rule).empty()) return true;
  return false;
}
static bool isLocRule(const std::string& r) { return r.compare(0, 8, "locator-") == 0 || r == "wrong-column" || r == "role-mismatch"; }

struct StepFail
{
  int step;
  std::string key, oracle, detail;
};

// Bring the Db back to a consistent state through public editing calls so that the rest of the history stays meaningful
static void repair(Db* db, const std::vector<DbViolation>& viol)
{
  bool locBad = false, nameBad = false, actBad = false;
  for (auto& v : viol)
  {
    if (v.rule.compare(0, 8, "locator-") == 0) locBad = true;
    if (v.rule == "names-unique") nameBad = true;
    if (v.rule == "active-count") actBad = true;
  }
  if (locBad)
    for (int t = 0; t < NLOC; t++) db->clearLocators(ELoc::fromValue(t));
  if (nameBad)
    for (int icol = 0; icol < db->getColumnNumber(); icol++) db->setNameByUID(db->getUIDByColIdx(icol), db->getNameByColIdx(icol));
  if (actBad && db->getLocatorNumber(ELoc::SEL) > 0)
  {
    int u = db->getUIDByLocator(ELoc::SEL, 0);
    for (int i = 0; i < db->getSampleNumber(); i++)
    {
      double v = db->getArray(i, u);
      if (v != 0. && v != 1.) db->setArray(i, u, 0.);
    }
  }
}

#ifdef C07_PROF
#include <chrono>
static double PROF[6];
struct ProfT { int k; std::chrono::steady_clock::time_point t0; ProfT(int k_) : k(k_), t0(std::chrono::steady_clock::now()) {} ~ProfT() { PROF[k] += std::chrono::duration<double>(std::chrono::steady_clock::now() - t0).count(); } };
#define PROFT(k) ProfT _pt##k(k)
#else
#define PROFT(k)
#endif
struct RunResult
{
  std::vector<StepFail> fails;
  int stepsRun = 0, stepsSkipped = 0;
  bool abandoned = false;
  std::set<std::string> fams;
};

// Runs `ops` from a fresh initial Db. When c != nullptr oracle evaluations are recorded (statistics + failures are
// reported by the caller); otherwise the run is silent (used by the shrinker). `stopKey`: stop at its first occurrence.
// A scripted step: the first operation produced by generator `g` (over a fixed sequence of sub-seeds) that satisfies
// `pred`, for the state reached. Used by the dedicated probes, so that they go through exactly the same operation
// models, keys and classes as the random histories.
struct Scripted
{
  Gen g;
  std::function<bool(const Op&)> pred;
  std::string what;
};
static Op findOp(const Scripted& sc, const Shadow& s)
{
  for (uint64_t k = 0; k < 400000; k++)
  {
    Rng rr(0xC07C07 + k);
    Op o;
    if (sc.g(rr, s, o) && o.valid(s) && sc.pred(o)) return o;
  }
  throw std::logic_error("harness: scripted operation not found: " + sc.what);
}

static RunResult runHistory(const Init& in, std::vector<Op>& ops, Ctx* c, const std::string& stopKey, bool verbose,
                            Rng* gen = nullptr, int genLen = 0, const std::vector<Scripted>* script = nullptr)
{
  RunResult res;
  Db* db = buildInit(in);
  if (db == nullptr)
  {
    res.fails.push_back({-1, "C07:create:null", "t.return", "initial construction returned nullptr: " + in.describe()});
    return res;
  }
  Shadow s;
  std::set<std::string> stickyDone;
  std::vector<std::string> lastNames;
  auto eval = [&](const char* o, bool ok) { if (c) { OracleStat& st = c->stats[o]; st.n++; c->nontrivial = true; (void)ok; } };
  auto checkInv = [&](int step, const std::string& opkey, bool sharedLocKey, std::string& locKey) {
    DbInvOptions o;
    // Designation by name costs O(ncol) regex compilations per lookup inside the library: it is re-checked for the
    // columns whose name is new since the previous step, plus a rotating sample of two columns (all at creation).
    {
      std::vector<std::string> nm = db->getAllNames().getVector();
      if (step >= 0)
      {
        o.nameSubset = true;
        for (int ic = 0; ic < (int)nm.size(); ic++)
          if (std::find(lastNames.begin(), lastNames.end(), nm[ic]) == lastNames.end())
          {
            o.nameCols.push_back(ic);
            for (int jc = 0; jc < (int)nm.size(); jc++) // older names that, read as patterns, match the new name
              if (jc != ic && nameMatches(nm[jc], nm[ic]) == 1) o.nameCols.push_back(jc);
          }
        if (!nm.empty()) { o.nameCols.push_back((2 * step) % (int)nm.size()); o.nameCols.push_back((2 * step + 1) % (int)nm.size()); }
      }
      lastNames = nm;
    }
    std::vector<DbViolation> v;
    { PROFT(3); v = collectDbViolations(db, o); }
    std::set<std::string> seen;
    for (auto& x : v)
    {
      if (!seen.insert(x.rule).second) continue;
      std::string key = "C07:" + opkey + ":" + x.rule;
      if (!stickyKey(x.rule).empty())
      {
        if (stickyDone.insert(x.rule).second) res.fails.push_back({step, stickyKey(x.rule), "inv." + x.rule, x.rule + ": " + x.detail});
        continue;
      }
      if (isLocRule(x.rule) && sharedLocKey)
      {
        if (locKey.empty()) locKey = key;
        key = locKey;
      }
      res.fails.push_back({step, key, "inv." + x.rule, x.rule + ": " + x.detail});
    }
    for (const char* rname : INV_RULES) eval((std::string("inv.") + rname).c_str(), !seen.count(rname));
    return v;
  };
  {
    std::string lk;
    auto v = checkInv(-1, "create", false, lk);
    if (hasHardViolation(v)) { repair(db, v); }
  }
  resync(db, s);
  // what was passed must be what is in the table (values only: names / locators of the constructor are read back)
  if (in.kind != 1 && in.kind != 3 && in.nvar > 0)
  {
    int shift = db->getColumnNumber() - in.nvar;
    bool ok   = shift >= 0 && s.nech == in.nech;
    for (int iv = 0; ok && iv < in.nvar; iv++)
      for (int ie = 0; ok && ie < in.nech; ie++)
        ok = sameBits(s.cols.at(s.order[shift + iv]).v[ie], in.byCol ? in.tab[iv * in.nech + ie] : in.tab[iv + in.nvar * ie]);
    eval("t.cells", ok);
    if (!ok) res.fails.push_back({-1, "C07:create:cells", "t.cells", "values passed to the constructor are not the table content"});
  }

  for (size_t i = 0;; i++)
  {
    if (i >= ops.size())
    {
      // generation mode: the next operation is drawn for the state reached so far
      Op nop;
      PROFT(0);
      if (gen != nullptr && script != nullptr && i < script->size()) nop = findOp((*script)[i], s);
      else if (gen == nullptr || (int)i >= genLen || !genOp(*gen, s, nop)) break;
      ops.push_back(nop);
    }
    const Op op = ops[i];
    if (!op.valid(s)) { res.stepsSkipped++; continue; }
    if (verbose) fprintf(stderr, "step %zu: %s(%s)\n", i, op.name.c_str(), op.args.c_str());
    Shadow before = s;
    Exp e;
    { PROFT(1); op.run(db, s, e); }
    res.stepsRun++;
    res.fams.insert(op.fam);
    std::string opkey = op.name;
    std::vector<Fail> tf;
    { PROFT(2); compareWithShadow(db, before, s, e, tf, eval); }
    std::string locKey;
    size_t nb        = res.fails.size();
    bool rolesFailed = false;
    for (auto& f : tf)
    {
      std::string key = "C07:" + opkey + ":" + f.rule;
      if (f.oracle == "t.roles") rolesFailed = true;
      if (isLocRule(f.rule)) { if (locKey.empty()) locKey = key; key = locKey; }
      res.fails.push_back({(int)i, key, f.oracle, f.rule + ": " + f.detail});
    }
    auto v = checkInv((int)i, opkey, true, locKey);
    // A known-defect input class gets ONE key whatever rule it breaks in that step:
    //  - the class named by the model (Exp::cls)                               -> C07:<cls>
    //  - else setLocatorsByColIdx addressing the wrong columns (D2, fixed c960a0820) -> C07:setLocatorsByColIdx:wrong-column
    std::string classKey;
    if (!e.cls.empty()) classKey = "C07:" + e.cls;
    else if (op.name == "setLocatorsByColIdx" && rolesFailed) classKey = "C07:setLocatorsByColIdx:wrong-column";
    if (!classKey.empty())
      for (size_t k = nb; k < res.fails.size(); k++)
        if (res.fails[k].key.compare(0, 4 + opkey.size() + 1, "C07:" + opkey + ":") == 0) res.fails[k].key = classKey;
    bool failed = res.fails.size() > nb;
    if (failed)
    {
      if (!stopKey.empty())
        for (size_t k = nb; k < res.fails.size(); k++)
          if (res.fails[k].key == stopKey) { delete db; return res; }
      repair(db, v);
      DbInvOptions o;
      if (hasHardViolation(collectDbViolations(db, o))) { res.abandoned = true; delete db; return res; }
    }
    { PROFT(4); resync(db, s); } // don't-care parts and (after a failure) everything else are taken from the Db
    if (verbose)
    {
      std::string o = "   uids=" + pv(s.order);
      for (int t = 0; t < NLOC; t++)
        if (!s.loc[t].empty()) o += " " + TN(t) + "=" + pv(s.loc[t]);
      fprintf(stderr, "%s%s\n", o.c_str(), failed ? "  [FAILED]" : "");
    }
  }
  delete db;
  return res;
}

static std::string describe(const Init& in, const std::vector<Op>& ops, size_t maxlen)
{
  std::string o = in.describe();
  for (size_t i = 0; i < ops.size(); i++)
  {
    std::string st = "; " + ops[i].name + "(" + ops[i].args + ")";
    if (o.size() + st.size() > maxlen) { o += "; ..."; break; }
    o += st;
  }
  return o;
}

// delta-debugging (ddmin on the step list, the last step is kept) with a budget of replays
static std::vector<Op> shrink(const Init& in, std::vector<Op> ops, const std::string& key, int budget)
{
  auto stillFails = [&](std::vector<Op>& cand) {
    RunResult rr = runHistory(in, cand, nullptr, key, false);
    for (auto& f : rr.fails)
      if (f.key == key) return true;
    return false;
  };
  // classic ddmin on ops[0 .. n-2] (complements only), the last step (where the key fired) is always kept
  size_t nparts = 2;
  while (ops.size() > 1 && budget > 0)
  {
    size_t body = ops.size() - 1;
    nparts      = std::min(nparts, body);
    bool removed = false;
    for (size_t p = 0; p < nparts && budget > 0; p++)
    {
      size_t start = body * p / nparts, end = body * (p + 1) / nparts;
      if (end == start) continue;
      std::vector<Op> cand(ops.begin(), ops.begin() + start);
      cand.insert(cand.end(), ops.begin() + end, ops.end());
      budget--;
      if (stillFails(cand))
      {
        ops     = cand;
        nparts  = std::max<size_t>(nparts - 1, 2);
        removed = true;
        break;
      }
    }
    if (!removed)
    {
      if (nparts >= body) break;
      nparts = std::min(body, nparts * 2);
    }
  }
  return ops;
}

static void run_case(Rng& r, Ctx& c)
{
  if (Db::getNEloc() != NLOC) throw std::logic_error("harness: Db::getNEloc() != 29");
  bool th  = c.thorough();
  g_maxCols = th ? 18 : 12;
  Init in  = drawInit(r, th);
  int len;
  {
    double u = r.u01();
    if (!th) len = u < 0.3 ? r.irange(5, 15) : u < 0.8 ? r.irange(16, 35) : r.irange(36, 60);
    else len = u < 0.25 ? r.irange(5, 20) : u < 0.7 ? r.irange(21, 60) : u < 0.93 ? r.irange(61, 150) : r.irange(151, 400);
  }
  // Dedicated probes: one small scripted prefix per OPEN known-defect class, so that each of those keys is reached in
  // every run (cases with index % 50 in 0..7); the history then goes on at random like any other.
  std::vector<Scripted> script;
  int probe = (int)(c.icase % 50);
  if (probe <= 7)
  {
    in        = Init();
    in.kind   = 0;
    in.byCol  = true;
    in.rank   = false;
    in.coords = false;
    in.nech   = 3;
    auto argsIs = [](const std::string& n, const std::string& a) { return [=](const Op& o) { return o.name == n && o.args == a; }; };
    switch (probe)
    {
      case 0: // a later name of the list, read as a pattern, matches the intermediate name of an earlier target
        in.names = {"a", "b.1.1", "b-1"};
        script.push_back({gen_rename, argsIs("setName(list)", "{'a','b.1.1'},'b-1'"), "setName(list) through a pattern"});
        break;
      case 1: // the de-duplication after setNameByLocator renames the later, untouched column
        in.names = {"x", "y.1"};
        in.locs  = {"z1", "NA"};
        script.push_back({gen_rename, argsIs("setNameByLocator", "Z,'y'"), "setNameByLocator stealing a name"});
        break;
      case 2: // same through setName(list)
        in.names = {"x", "y.1"};
        script.push_back({gen_rename, argsIs("setName(list)", "{'x'},'y'"), "setName(list) stealing a name"});
        break;
      case 3: // 'y.1' read as a pattern also matches 'y-1': column 0 cannot be deleted by its index
        in.names = {"y.1", "y-1", "c"};
        script.push_back({gen_delete, argsIs("deleteColumnByColIdx", "0"), "deleteColumnByColIdx through an ambiguous name"});
        break;
      case 4: // re-asserting the role a column already has
        in.names = {"a", "b", "c"};
        in.locs  = {"z1", "z2", "z3"};
        script.push_back({gen_setLocator, argsIs("setLocatorByUID", "0,Z,0"), "setLocatorByUID on its own role"});
        break;
      case 5: // default addSamples on a Db with a selection
        in.names = {"a", "s"};
        in.locs  = {"NA", "sel"};
        script.push_back({gen_samples, argsIs("addSamples", "2"), "addSamples(2) with a selection"});
        break;
      case 6: // a new selection written through the selection
        in.names = {"a", "s"};
        in.locs  = {"NA", "sel"};
        script.push_back({gen_addColumns, [](const Op& o) { return o.name == "addColumns" && o.args.find(",SEL,0,useSel=1,") != std::string::npos && o.args.find("nvar=1") != std::string::npos; }, "addColumns(SEL, useSel)"});
        break;
    }
    if (probe == 7) // second ACTIVE sample (= third sample) addressed by its rank among the active ones
    {
      in.names = {"a", "s"};
      in.locs  = {"NA", "sel"};
      script.push_back({gen_setItem, [](const Op& o) { return o.name == "setItem(rows,name)" && o.args.compare(0, 10, "{1},{'a'},") == 0 && o.args.find("useSel=1") != std::string::npos; }, "setItem(rows, name, useSel)"});
    }
    in.nvar = (int)in.names.size();
    in.tab.clear();
    for (int iv = 0; iv < in.nvar; iv++)
      for (int ie = 0; ie < in.nech; ie++) in.tab.push_back(in.names[iv] == "s" ? (ie == 1 ? 0. : 1.) : 1. + iv + 0.5 * ie);
    c.probe("scripted-probe." + std::to_string(probe));
  }
  // The history is generated while it runs (each operation is drawn for the state reached so far).
  std::vector<Op> ops;
  RunResult rr = runHistory(in, ops, &c, "", c.verbose, &r, std::max(len, (int)script.size()), script.empty() ? nullptr : &script);
  // signature: discrete choices
  {
    std::string fams;
    for (auto& f : rr.fams) fams += f + "+";
    const char* lb = len <= 15 ? "5-15" : len <= 35 ? "16-35" : len <= 60 ? "36-60" : len <= 150 ? "61-150" : "151-400";
    c.setSig(fmt("init=%d:rank=%d:names=%d:locs=%d:len=%s:fam=%s", in.kind, (int)in.rank, (int)!in.names.empty(), (int)!in.locs.empty(), lb, fams.c_str()));
  }
  for (auto& op : ops) c.probe("op." + op.name);
  if (rr.abandoned) c.skip("history-abandoned-after-unrepairable-failure");
  if (rr.stepsSkipped) c.skip("replay-step-not-applicable");
  c.putn("steps", (double)rr.stepsRun);
  c.puts("history", describe(in, ops, 700));

  // report: one failure per distinct key, with the shrunk history
  std::set<std::string> done;
  int nshrunk = 0;
  for (auto& f : rr.fails)
  {
    if (!done.insert(f.key).second) continue;
    std::vector<Op> pre(ops.begin(), ops.begin() + (f.step + 1));
    std::vector<Op> mini = pre;
    static std::set<std::string> shrunkKeys; // the driver keeps the first witness of a key: shrink that one only
    if (f.step >= 0 && nshrunk < 3 && !getenv("C07_NOSHRINK") && shrunkKeys.insert(f.key).second)
    {
      nshrunk++;
      mini = shrink(in, pre, f.key, 60);
    }
    std::string d = f.detail + " || after: " + describe(in, mini, 1500) + fmt(" || (step %d of %d, shrunk to %zu steps)", f.step, (int)ops.size(), mini.size());
    OracleStat& st = c.stats[f.oracle];
    st.n--; // the evaluation was counted by runHistory; check() counts it again
    c.check(f.oracle, f.key, false, 1, 0, d);
  }
}

int main(int argc, char** argv)
{
  int rc = run_main(argc, argv, "C07", run_case);
#ifdef C07_PROF
  fprintf(stderr, "PROF gen=%.2f run=%.2f compare=%.2f inv=%.2f resync=%.2f\n", PROF[0], PROF[1], PROF[2], PROF[3], PROF[4]);
#endif
  return rc;
}
