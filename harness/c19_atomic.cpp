// C19 — a calculation either completes or leaves its data bases untouched (fault enumeration).
//
// One case = one calculator entry point x one variant x one prior content of the data bases. For that case:
//   1. the VALID call is run from fresh copies with the failpoint log recording        -> success oracles + hit list
//      (1b. again with columns named exactly like its outputs already present in the output Db: name collisions)
//   2. for EVERY (site, k) of the hit list (per-site cap first/second/last in quick) the valid call is re-run from
//      fresh copies with that failpoint armed: it must report failure and both Dbs must equal their snapshots
//   3. every labelled INVALID-ARGUMENT variant of the call is run from fresh copies (random order; the variants known
//      to abort the process are marked `risky`: exactly one of them per case, last)              -> failure oracles
//      (when the library accepts the variant and reports success, the success oracles apply instead). Many of these
//      variants are refused INSIDE _run, after the output columns were created: the natural mid-run failures.
//   4. after every reported failure that left the Dbs clean, the valid call is run on THE SAME objects and must
//      succeed and create the same columns (name, locator, values bit-for-bit) as in the fresh state.
// Keys: C19:<calculator>:<success | failpoint=<site>[@nested] | invalid=<label> | accepted-invalid | …>:<dbin|dbout>-<what>
// Snapshots/diffs: harness/common/c19_snapshot.hpp.
#include "common/vh.hpp"
#include "common/c19_snapshot.hpp"

#include "Basic/VerifHooks.hpp"
#include "Basic/NamingConvention.hpp"
#include "Basic/OptDbg.hpp"
#include "Basic/Law.hpp"
#include "Basic/VectorHelper.hpp"
#include "Db/Db.hpp"
#include "Db/DbGrid.hpp"
#include "Enum/ELoc.hpp"
#include "Enum/ECov.hpp"
#include "Enum/EKrigOpt.hpp"
#include "Enum/ELoadBy.hpp"
#include "Enum/ESpaceType.hpp"
#include "Enum/EStatOption.hpp"
#include "Model/Model.hpp"
#include "Covariances/CovContext.hpp"
#include "Space/ASpaceObject.hpp"
#include "Space/SpaceRN.hpp"
#include "Neigh/ANeigh.hpp"
#include "Neigh/NeighMoving.hpp"
#include "Neigh/NeighUnique.hpp"
#include "Neigh/NeighImage.hpp"
#include "Estimation/CalcKriging.hpp"
#include "Simulation/CalcSimuTurningBands.hpp"
#include "Calculators/CalcMigrate.hpp"
#include "Calculators/CalcStatistics.hpp"
#include "Calculators/CalcGridToGrid.hpp"
#include "Anamorphosis/AAnam.hpp"
#include "Anamorphosis/AnamHermite.hpp"
#include "Anamorphosis/AnamDiscreteDD.hpp"
#include "Anamorphosis/CalcAnamTransform.hpp"
#include "Stats/Selectivity.hpp"
#include "Stats/PCA.hpp"
#include "LithoRule/Rule.hpp"
#include "LithoRule/RuleProp.hpp"
#include "geoslib_f.h"
#include "Simulation/CalcSimuFFT.hpp"
#include "Simulation/SimuFFTParam.hpp"
#include "Matrix/MatrixRectangular.hpp"
#include "Matrix/MatrixSquareSymmetric.hpp"

#include <functional>
#include <memory>

using namespace vh;
using c19::DbSnap;

// Switches to steer the generator away from input classes that crash many cases (GUIDE rule 2); default off.
static const bool AVOID_SIMFFT_MODEL_NDIM = true; // simfft(grid of dimension d, model of dimension d'): infinite loop in CalcSimuFFT::_gridDilate (HANG, hence avoided by default)
static const bool AVOID_KRIBAYES_SELECTION = false; // kribayes + selection on dbin: heap-buffer-overflow in KrigingSystem::_bayesPreCalculations
static const bool AVOID_KRIGGAM_NULL_ANAM = false; // kriggam(anam = nullptr): not checked anywhere
static const bool AVOID_IMAGE_NEIGH = false; // CalcKriging::_check lets an IMAGE neighbourhood through (`return 1`): Eigen assertion in KrigingSystem::_estimateCalculImage
static const bool AVOID_KRIGING_NO_X = false; // kriging() on an input Db without coordinates: null reference in Db::getCoordinatesPerSampleInPlace
static const bool AVOID_KRIGING_NO_Z = false; // kriging() on an input Db without Z variable: Eigen assertion in AMatrixDense::addMatInPlace

// ------------------------------------------------------------------------------------------------
// World: the objects of one run (fresh clones of the scenario's masters)
// ------------------------------------------------------------------------------------------------
struct World
{
  std::unique_ptr<Db> din, dout;
  bool same = false; // the output Db IS the input Db (xvalid, transforms, statistics in place)
  std::unique_ptr<Model> model;
  std::unique_ptr<ANeigh> neigh;
  std::unique_ptr<AAnam> anam;
  Db* in() const { return din.get(); }
  Db* out() const { return same ? din.get() : dout.get(); }
  DbGrid* gout() const { return dynamic_cast<DbGrid*>(out()); }
};

// What the called function documents as its result on success
struct Expect
{
  int newOut = 0;                                // number of new columns in the output Db
  std::vector<std::pair<std::string, int>> qual; // qualifier substring -> number of new names that contain it
  bool flagLocator = true;                       // NamingConvention(flag_locator)
  int outLoc       = 1;                          // NamingConvention(locatorOutType) as ELoc value (Z)
  std::vector<int> alsoLose;                     // other locator types whose pre-existing holders may lose it (documented)
  std::vector<int> anyLoc;                       // locator types the entry point re-assigns freely (undocumented: not asserted)
  bool noRc        = false;                      // the entry point has no return code (krigtest): Dbs untouched always
  bool known       = true;                       // false: outputs not specified by the harness (only generic checks)
};

struct Call
{
  std::string label;
  std::function<void(World&)> prep; // edits of the prior content (before the snapshot); may be empty
  std::function<int(World&)> fn;    // the library call; returns the reported code (0 = success)
  Expect exp;
  bool rerunnable = true; // after a failure of this call the scenario's valid call is still a valid call on this World
  bool risky      = false; // known to abort the process (assertion / sanitizer): run LAST so that it masks nothing
};

struct Scen
{
  std::string calc; // calculator name (goes into keys)
  std::string sig;  // discrete configuration
  std::unique_ptr<Db> din0, dout0;
  bool same = false;
  std::unique_ptr<Model> model0;
  std::function<ANeigh*()> mkNeigh;
  std::unique_ptr<AAnam> anam0;
  std::vector<std::shared_ptr<AAnam>> keepAnams; // anamorphoses referenced (not copied) by models: must outlive them
  Call valid;
  std::vector<Call> invalid;
};

static World fresh(const Scen& s)
{
  World w;
  w.same = s.same;
  if (s.din0) w.din.reset(s.din0->clone());
  if (s.dout0 && !s.same) w.dout.reset(s.dout0->clone());
  if (s.model0) w.model.reset(s.model0->clone());
  if (s.mkNeigh) w.neigh.reset(s.mkNeigh());
  if (s.anam0) w.anam.reset(dynamic_cast<AAnam*>(s.anam0->clone()));
  return w;
}

static bool g_verbose = false;
struct Outcome
{
  int rc = 0;
  bool fired = false;
  std::vector<std::pair<std::string, unsigned long>> log;
  DbSnap in0, in1, out0, out1;
};

static Outcome runCall(World& w, const Call& call, const std::string& site = "", unsigned long k = 0,
                       bool doPrep = true)
{
  auto& R = gstlearn_verif::Registry::get();
  Outcome o;
  if (g_verbose) fprintf(stderr, "---- call '%s' failpoint=(%s,%lu)\n", call.label.c_str(), site.c_str(), k);
  if (doPrep && call.prep) call.prep(w);
  o.in0 = c19::snapshot(w.in());
  if (!w.same) o.out0 = c19::snapshot(w.out());
  R.fpReset();
  if (!site.empty()) R.fpArm(site, k);
  o.rc    = call.fn(w);
  o.fired = R.fired > 0;
  // Developer aid (never set by the driver): C19_SABOTAGE=<mode> imitates, after a REPORTED FAILURE, what a library
  // mutant with a missing roll-back would leave behind, to check that the root-cause rules do not absorb it.
  if (const char* sab = getenv("C19_SABOTAGE"))
    if (o.rc != 0 && !call.exp.noRc)
    {
      std::string m = sab;
      if (m == "dbout-extra" && w.out()) w.out()->addColumnsByConstant(1, 0., "K.z1.estim", ELoc::UNKNOWN);
      if (m == "dbout-extra-z" && w.out()) w.out()->addColumnsByConstant(1, 0., "K.z1.estim", ELoc::Z, w.out()->getLocatorNumber(ELoc::Z));
      if (m == "dbin-simu" && w.in()) w.in()->addColumnsByConstant(1, 0., "tmp", ELoc::SIMU, w.in()->getLocatorNumber(ELoc::SIMU));
      if (m == "dbin-plain" && w.in()) w.in()->addColumnsByConstant(1, 0., "New", ELoc::UNKNOWN);
      if (m == "dbin-value" && w.in()) w.in()->setValueByColIdx(0, 0, 12345.);
      if (m == "dbout-clearz" && w.out()) w.out()->clearLocators(ELoc::Z);
    }
  o.log   = R.fpLog;
  R.fpReset();
  OptDbg::reset();
  o.in1 = c19::snapshot(w.in());
  if (!w.same) o.out1 = c19::snapshot(w.out());
  return o;
}

// ------------------------------------------------------------------------------------------------
// Oracles
// ------------------------------------------------------------------------------------------------
static std::string K(const std::string& calc, const std::string& kind, const std::string& what)
{
  return "C19:" + calc + ":" + kind + ":" + what;
}

// ------------------------------------------------------------------------------------------------
// Root-cause classes of the OPEN known findings (see reports/C19_open_findings.json). A difference is first matched
// against these NARROW rules (calculator family + failure kind + which Db + exactly which columns / locator types);
// whatever is not explained by a rule keeps the fine-grained key C19:<calc>:<kind>:<db>-<what>, so that a new defect
// (a dropped _rollback, a forgotten _cleanVariableDb…) is never absorbed by a known key.
// ------------------------------------------------------------------------------------------------
static const char* K_D2  = "C19:D2:info-expansion-left-in-dbin";
static const char* K_D4  = "C19:D4:anam-transform-columns-outside-bookkeeping";
static const char* K_D5  = "C19:D5:anam-named-transform-sets-Z-before-running";
static const char* K_D7  = "C19:D7:preexisting-SIMU-role-lost";
static const char* K_D8  = "C19:D8:xvalid-varz-named-after-estimate";
static const char* K_D9  = "C19:D9:postprocess-failure:output-roles-cleared";
static const char* K_D10 = "C19:D10:simpgs-working-columns-left-on-error";
static const char* K_D12 = "C19:D12:dgm-failure-leaves-X-roles-moved";

static bool inSet(const std::string& x, std::initializer_list<const char*> l)
{
  for (auto* p : l)
    if (x == p) return true;
  return false;
}
// calculators deriving from ACalcInterpolator that take an input AND an output Db (information expansion possible)
static bool famInterp(const std::string& c)
{
  return inSet(c, {"kriging", "test_neigh", "krigtest", "krigcell", "kribayes", "krigprof", "kriggam", "simtub-cond",
                   "simbayes", "kriging-dgm", "simtub-dgm"});
}
static bool famAnam(const std::string& c)
{
  return inSet(c, {"rawToGaussianByLocator", "rawToGaussian", "gaussianToRaw", "normalScore", "rawToFactor",
                   "ConditionalExpectation", "UniformConditioning", "DisjunctiveKriging"});
}
static bool famAnamNamed(const std::string& c) { return inSet(c, {"rawToGaussian", "gaussianToRaw", "normalScore"}); }
static bool famSimu(const std::string& c) { return inSet(c, {"simtub-cond", "simtub-nc", "simbayes", "simfft", "simtub-dgm"}); }
static bool famPgs(const std::string& c) { return inSet(c, {"simpgs-cond", "simpgs-nc"}); }
static bool famDgm(const std::string& c) { return inSet(c, {"kriging-dgm", "simtub-dgm"}); }

// context of the judgement in progress (set by judgeSuccess / judgeFailure)
struct JudgeCtx
{
  const Expect* e = nullptr;
  bool same       = false; // the input Db is the output Db
  bool failure    = false; // the call reported a failure (or, for a call without return code, nothing may change)
};
static JudgeCtx g_j;

static bool kindIsFailpoint(const std::string& kind, const char* site)
{
  return kind == std::string("failpoint=") + site; // depth 1 only: "@nested" kinds never match
}

// Emits the keys for a structured difference. `isOut`: this Db is the output Db of the call.
// `successOut`: the success-path judgement of the output Db (extra columns and documented locator changes are judged
// by the caller). Returns true when nothing was emitted.
static bool emitDiff(Ctx& c, const std::string& oracle, const std::string& calc, const std::string& kind,
                     const char* which, const c19::DiffFull& f, bool isOut, bool successOut)
{
  const Expect& e  = *g_j.e;
  const bool fail  = g_j.failure;
  const bool isIn  = std::string(which) == "dbin";
  std::map<std::string, std::string> out; // key -> first witness
  auto put = [&](const std::string& key, const std::string& detail) { out.emplace(key, detail); };
  auto fine = [&](const std::string& what, const std::string& detail) { put(K(calc, kind, std::string(which) + "-" + what), detail); };
  const int LX = ELoc::X.getValue(), LZ = ELoc::Z.getValue(), LF = ELoc::F.getValue(), LN = ELoc::NOSTAT.getValue(),
            LS = ELoc::SIMU.getValue();

  if (!f.presence.empty()) fine("db-presence", f.presence);
  if (!f.nech.empty()) fine("nech", f.nech);
  if (!f.order.empty()) fine("column-order", f.order);
  if (!f.names.empty()) fine("names", f.names);
  if (!f.values.empty()) fine("values", f.values);
  if (!f.missing.empty()) fine("missing-columns", fmt("%d pre-existing column(s) disappeared: ", (int)f.missing.size()) + f.missing[0]);

  // ---- extra columns ---------------------------------------------------------------------------
  bool d2extra = false;
  if (!successOut)
  {
    std::vector<const c19::ColSnap*> rest;
    for (auto* p : f.extra)
    {
      std::string w = p->name + "[" + c19::locName(p->locType, p->locIdx) + "]";
      // D2: ACalcInterpolator::_preprocess migrates the F / NOSTAT columns of the output grid into the input Db
      // (NamingConvention "Migrate", locator F / NOSTAT) and nothing ever removes them: on every path, success included
      if (isIn && !g_j.same && famInterp(calc) && (p->locType == LF || p->locType == LN) && p->name.rfind("Migrate", 0) == 0)
      { put(K_D2, "column left in the input Db: " + w); d2extra = true; continue; }
      // D10: simpgs error exit keeps its working columns (locators FACIES / GAUSFAC / SIMU / L / U / P)
      if (fail && famPgs(calc) && p->locType >= 0 &&
          inSet(c19::locTypeName(p->locType), {"FACIES", "GAUSFAC", "SIMU", "L", "U", "P"}))
      { put(K_D10, std::string(which) + " keeps working column " + w); continue; }
      // D12: DGM centring: temporary coordinate columns holding the X roles
      if (fail && isIn && famDgm(calc) && p->locType == LX)
      { put(K_D12, "temporary coordinate column left: " + w); continue; }
      rest.push_back(p);
    }
    // D4: CalcAnamTransform creates its output columns outside the bookkeeping: after a failure injected after
    // _preprocess / _run / _postprocess exactly the documented number of output columns stays behind
    if (!rest.empty() && fail && isIn && famAnam(calc) && (int)rest.size() == e.newOut &&
        (kindIsFailpoint(kind, "calc.after_preprocess") || kindIsFailpoint(kind, "calc.after_run") ||
         kindIsFailpoint(kind, "calc.after_postprocess")))
    {
      put(K_D4, fmt("%d output column(s) left after the failure, first: ", (int)rest.size()) + rest[0]->name);
      rest.clear();
    }
    if (!rest.empty())
    {
      std::string w;
      for (size_t i = 0; i < rest.size() && i < 6; i++) w += (i ? "," : "") + rest[i]->name + "[" + c19::locName(rest[i]->locType, rest[i]->locIdx) + "]";
      fine("extra-columns", fmt("%d column(s) that did not exist before: ", (int)rest.size()) + w);
    }
  }

  // ---- locators of pre-existing columns -------------------------------------------------------------
  bool d12loc = false;
  for (auto& l : f.loc)
  {
    std::string w = "column '" + l.name + "' locator " + c19::locName(l.fromType, l.fromIdx) + " -> " + c19::locName(l.toType, l.toIdx);
    bool lost = l.toType < 0;
    if (successOut)
    {
      // documented / not asserted on the success path of the output Db (see Expect)
      bool allowed = e.flagLocator && l.fromType == e.outLoc && lost;
      if (std::find(e.anyLoc.begin(), e.anyLoc.end(), l.fromType) != e.anyLoc.end()) allowed = true;
      if (l.fromType < 0 && std::find(e.anyLoc.begin(), e.anyLoc.end(), l.toType) != e.anyLoc.end()) allowed = true;
      if (lost && std::find(e.alsoLose.begin(), e.alsoLose.end(), l.fromType) != e.alsoLose.end()) allowed = true;
      if (allowed) continue;
    }
    // D2: the migrated F columns take the F ranks of the F columns the input Db already had
    if (isIn && !g_j.same && famInterp(calc) && d2extra && l.fromType == LF) { put(K_D2, w); continue; }
    // D5: AAnam::rawToGaussian / gaussianToRaw / normalScore make the named variable THE Z variable before running
    if (fail && famAnamNamed(calc) && (l.fromType == LZ || (l.fromType < 0 && l.toType == LZ))) { put(K_D5, w); continue; }
    // D7: working SIMU columns are created at ranks 1.. : a pre-existing SIMU column loses its role for good
    if (famSimu(calc) && l.fromType == LS) { put(K_D7, std::string(which) + ": " + w); continue; }
    // D9: failure injected after _postprocess: the roles cleared by the naming convention are not restored
    // (lost, or shifted to another rank of the same type once the roll-back has deleted the new holder)
    if (fail && kindIsFailpoint(kind, "calc.after_postprocess") && isOut && (lost || l.toType == l.fromType) &&
        ((e.flagLocator && l.fromType == e.outLoc) || std::find(e.alsoLose.begin(), e.alsoLose.end(), l.fromType) != e.alsoLose.end()))
    { put(K_D9, w); continue; }
    // D12: DGM centring: the X roles moved to the temporary coordinates are not given back on failure
    if (fail && isIn && famDgm(calc) && l.fromType == LX) { put(K_D12, w); d12loc = true; continue; }
    std::string t = l.fromType >= 0 ? c19::locTypeName(l.fromType) : "none-to-" + c19::locTypeName(l.toType);
    fine("locators:" + t, w);
  }
  if (!f.grid.empty())
  {
    if (d12loc && f.ndimShrunk) put(K_D12, "the input Db has lost its coordinates: " + f.grid);
    else fine("grid", f.grid);
  }
  if (!f.roleTable.empty()) fine("role-table:" + f.roleTableLoc, f.roleTable);

  for (auto& kv : out) c.truth(oracle, kv.first, false, kv.second);
  return out.empty();
}

// failure (or no-output call): a Db must equal its snapshot. Returns true when clean.
static bool checkUntouched(Ctx& c, const std::string& oracle, const std::string& calc, const std::string& kind,
                           const char* which, const DbSnap& a, const DbSnap& b)
{
  if (!a.valid && !b.valid) return true;
  c19::DiffFull f = c19::diffFull(a, b);
  bool isOut      = std::string(which) == "dbout" || g_j.same;
  if (f.empty() || emitDiff(c, oracle, calc, kind, which, f, isOut, false))
  {
    c.truth(oracle, K(calc, kind, std::string(which) + "-changed"), true);
    std::string sc = c19::selfCheck(b);
    c.truth("selfcheck", K(calc, kind, std::string(which) + "-inconsistent"), sc.empty(), sc);
    if (c19::uidSlotsGrew(a, b) > 0) c.probe("diag.dead-uid-slots-left");
    return f.empty();
  }
  return false;
}

// success: pre-existing content of the OUTPUT Db. Returns the new columns.
// Locators of pre-existing columns. Documented (include/Basic/NamingConvention.hpp):
//   "flag_locator When TRUE, the output variables receive a 'locator'"
//   "locatorOutType Type of locator assigned to the output variables"
//   "cleanSameLocator When TRUE and if 'flag_locator' is TRUE, all variables assigned to the same locator are
//    cancelled beforehand"
// => with flag_locator (and the default cleanSameLocator=true, the only one generated) a pre-existing column whose
//    locator type is locatorOutType may LOSE its locator; nothing else may change. Without flag_locator nothing may.
static std::vector<const c19::ColSnap*> checkSuccessOut(Ctx& c, const std::string& calc, const std::string& kind,
                                                        const Expect& e, const DbSnap& a, const DbSnap& b)
{
  const std::string oracle = "success-dbout-preexisting";
  c19::DiffFull f          = c19::diffFull(a, b);
  f.roleTable.clear(); // explained by the locator changes judged column by column
  bool clean = emitDiff(c, oracle, calc, kind, "dbout", f, true, true);
  if (clean) c.truth(oracle, K(calc, kind, "dbout-changed"), true);
  std::string sc = c19::selfCheck(b);
  c.truth("selfcheck", K(calc, kind, "dbout-inconsistent"), sc.empty(), sc);

  auto nc = c19::newColumns(a, b);
  if (e.known)
  {
    std::string names;
    for (auto* p : nc) names += p->name + " ";
    c.truth("success-new-columns", K(calc, kind, "dbout-new-column-count"), (int)nc.size() == e.newOut,
            fmt("new columns: got %d want %d: ", (int)nc.size(), e.newOut) + names);
    if ((int)nc.size() == e.newOut)
      for (auto& q : e.qual)
      {
        int n = 0, both = 0;
        for (auto* p : nc)
          if (p->name.find(q.first) != std::string::npos)
          {
            n++;
            if (p->name.find("varz") != std::string::npos) both++;
          }
        std::string key = K(calc, kind, "dbout-new-column-qualifier:" + q.first);
        // D8: xvalid renames the varz column AFTER the estimate took the Z role: its name is built from the estimate's
        if (calc == "xvalid" && (q.first == "estim" || q.first == "esterr") && both > 0 && n == q.second + both) key = K_D8;
        c.truth("success-new-columns", key, n == q.second,
                fmt("names containing '%s': got %d want %d: ", q.first.c_str(), n, q.second) + names);
      }
    if (!e.flagLocator)
    {
      for (auto* p : nc)
        if (p->locType >= 0 && p->locType != e.outLoc) c.probe("diag.new-column-keeps-locator-" + c19::locTypeName(p->locType));
    }
  }
  return nc;
}

// ------------------------------------------------------------------------------------------------
// Hit list -> labelled (site, k, nested?) and per-site cap
// ------------------------------------------------------------------------------------------------
struct Hit
{
  std::string site;
  unsigned long k;
  int depth; // 1 = the calculator called by the user, 2 = a calculator run inside it (e.g. migrate from _preprocess)
};
static std::vector<Hit> labelHits(const std::vector<std::pair<std::string, unsigned long>>& log)
{
  std::vector<Hit> r;
  int depth = 0;
  for (auto& e : log)
  {
    if (e.first == "calc.after_check") depth++;
    r.push_back({e.first, e.second, std::max(depth, 1)});
    if (e.first == "calc.after_postprocess") depth--;
  }
  return r;
}
static std::vector<Hit> capHits(const std::vector<Hit>& all, bool thorough)
{
  if (thorough) return all;
  std::map<std::string, unsigned long> last;
  for (auto& h : all) last[h.site] = std::max(last[h.site], h.k);
  std::vector<Hit> r;
  for (auto& h : all)
    if (h.k <= 2 || h.k == last[h.site]) r.push_back(h);
  return r;
}

// ------------------------------------------------------------------------------------------------
// The generic procedure
// ------------------------------------------------------------------------------------------------
static void rerunAfterFailure(Ctx& c, const Scen& s, World& w, const std::string& kind, uint64_t freshDigest,
                              bool haveFresh)
{
  if (!haveFresh) return;
  Outcome o = runCall(w, s.valid, "", 0, false);
  g_j = JudgeCtx{&s.valid.exp, w.same, true};
  if (s.valid.exp.noRc)
  {
    bool a = checkUntouched(c, "rerun-after-failure", s.calc, kind + ":rerun", "dbin", o.in0, o.in1);
    (void)a;
    if (!w.same) checkUntouched(c, "rerun-after-failure", s.calc, kind + ":rerun", "dbout", o.out0, o.out1);
    return;
  }
  if (!c.truth("rerun-after-failure", K(s.calc, kind, "rerun-fails"), o.rc == 0,
               "the valid call run on the same objects after the reported failure does not succeed"))
    return;
  const DbSnap& b0 = w.same ? o.in0 : o.out0;
  const DbSnap& b1 = w.same ? o.in1 : o.out1;
  uint64_t dg      = c19::digestColumns(c19::newColumns(b0, b1));
  c.truth("rerun-after-failure", K(s.calc, kind, "rerun-differs"), dg == freshDigest,
          "the valid call run after the reported failure creates other columns/values than in a fresh state");
}

static void judgeFailure(Ctx& c, const Scen& s, World& w, const Call& call, const Outcome& o, const std::string& kind,
                         uint64_t freshDigest, bool haveFresh)
{
  g_j = JudgeCtx{&call.exp, w.same, true};
  bool cleanIn  = checkUntouched(c, "fail-dbin-untouched", s.calc, kind, "dbin", o.in0, o.in1);
  bool cleanOut = true;
  if (!w.same) cleanOut = checkUntouched(c, "fail-dbout-untouched", s.calc, kind, "dbout", o.out0, o.out1);
  if (cleanIn && cleanOut && call.rerunnable) rerunAfterFailure(c, s, w, kind, freshDigest, haveFresh);
}

static void judgeSuccess(Ctx& c, const Scen& s, World& w, const Call& call, const Outcome& o, const std::string& kind)
{
  g_j = JudgeCtx{&call.exp, w.same, call.exp.noRc};
  if (call.exp.noRc)
  {
    checkUntouched(c, "norc-dbin-untouched", s.calc, kind, "dbin", o.in0, o.in1);
    if (!w.same) checkUntouched(c, "norc-dbout-untouched", s.calc, kind, "dbout", o.out0, o.out1);
    return;
  }
  if (!w.same)
  {
    checkUntouched(c, "success-dbin-untouched", s.calc, kind, "dbin", o.in0, o.in1);
    checkSuccessOut(c, s.calc, kind, call.exp, o.out0, o.out1);
  }
  else
    checkSuccessOut(c, s.calc, kind, call.exp, o.in0, o.in1);
}

static void runScenario(Rng& r, Ctx& c, Scen& s)
{
  g_verbose = c.verbose;
  c.setSig(s.calc + ":" + s.sig);
  if (g_verbose) fprintf(stderr, "==== %s %s\n", s.calc.c_str(), s.sig.c_str());
  c.puts("calc", s.calc);
  c.puts("config", s.sig);

  // 1. valid call, recording
  uint64_t freshDigest = 0;
  bool haveFresh       = false;
  std::vector<Hit> hits;
  {
    World w   = fresh(s);
    Outcome o = runCall(w, s.valid);
    hits      = labelHits(o.log);
    c.putn("hits", (double)hits.size());
    if (s.valid.exp.noRc)
    {
      judgeSuccess(c, s, w, s.valid, o, "success");
      haveFresh = true;
    }
    else if (o.rc != 0)
    {
      // The call the generator believes valid is refused: not a C19 matter by itself (the failure oracles apply),
      // but the success part of the case is lost -> counted as a skip so that a generator bug is visible.
      c.skip("valid-call-refused:" + s.calc);
      judgeFailure(c, s, w, s.valid, o, "valid-refused", 0, false);
    }
    else
    {
      judgeSuccess(c, s, w, s.valid, o, "success");
      const DbSnap& b0 = w.same ? o.in0 : o.out0;
      const DbSnap& b1 = w.same ? o.in1 : o.out1;
      freshDigest      = c19::digestColumns(c19::newColumns(b0, b1));
      haveFresh        = true;
      // determinism of the valid call itself (otherwise "same digest as in a fresh state" is not a fair oracle)
      World w2   = fresh(s);
      Outcome o2 = runCall(w2, s.valid);
      const DbSnap& c0 = w2.same ? o2.in0 : o2.out0;
      const DbSnap& c1 = w2.same ? o2.in1 : o2.out1;
      if (o2.rc != 0 || c19::digestColumns(c19::newColumns(c0, c1)) != freshDigest)
      {
        haveFresh = false;
        c.skip("valid-call-not-reproducible:" + s.calc);
      }
      // 1b. name collisions: the output Db already holds columns named EXACTLY like the outputs of this call
      // (Db.hpp: a name is "unique in the Data Base"): the call must still succeed, the older columns keep their
      // names and values, and the same number of new columns appears.
      {
        std::vector<std::string> outNames;
        for (auto* p : c19::newColumns(b0, b1)) outNames.push_back(p->name);
        if (!outNames.empty())
        {
          World w3 = fresh(s);
          Call cc  = s.valid;
          cc.label = "valid+name-collision";
          cc.exp.qual.clear(); // colliding new names get a suffix: qualifiers still present but not re-counted
          cc.prep  = [&](World& w) {
            if (s.valid.prep) s.valid.prep(w);
            Db* d = w.out();
            VectorDouble v(d->getSampleNumber(), 7.);
            for (size_t i = 0; i < outNames.size() && i < 2; i++) d->addColumns(v, outNames[i], ELoc::UNKNOWN);
          };
          Outcome o3 = runCall(w3, cc);
          if (o3.rc == 0)
            judgeSuccess(c, s, w3, cc, o3, "success-name-collision");
          else
            judgeFailure(c, s, w3, cc, o3, "name-collision-refused", 0, false);
        }
      }
    }
  }

  // 2. injected faults: complete enumeration of the hit list (capped per site in quick)
  if (haveFresh)
  {
    std::vector<Hit> todo = capHits(hits, c.thorough());
    for (auto& h : todo)
    {
      World w   = fresh(s);
      Outcome o = runCall(w, s.valid, h.site, h.k);
      c.probe("enum-pairs");
      std::string kind = "failpoint=" + h.site + (h.depth > 1 ? "@nested" : "");
      if (!c.truth("inject-fired", K(s.calc, kind, "not-reached"), o.fired,
                   fmt("hit %lu of the recorded list was not reached in the re-run", h.k)))
        continue;
      c.probe("enum-fired");
      c.probe("fired:" + h.site);
      if (s.valid.exp.noRc)
      {
        judgeSuccess(c, s, w, s.valid, o, kind);
        continue;
      }
      if (!c.truth("inject-reports-failure", K(s.calc, kind, "failure-not-reported"), o.rc != 0,
                   fmt("failpoint (%s,%lu) fired but the call returned success", h.site.c_str(), h.k)))
      {
        // the call claims success although a stage failed: judge it as the success it claims to be
        judgeSuccess(c, s, w, s.valid, o, kind + ":claimed-success");
        continue;
      }
      judgeFailure(c, s, w, s.valid, o, kind, freshDigest, haveFresh);
    }
  }

  // 3. invalid-argument variants, in random order, the ones known to abort the process last
  std::vector<const Call*> order;
  for (auto& call : s.invalid)
    if (!call.risky) order.push_back(&call);
  r.shuffle(order);
  {
    // exactly ONE of the abort-prone variants per case, last (a second one would be masked by the first abort)
    std::vector<const Call*> risky;
    for (auto& call : s.invalid)
      if (call.risky) risky.push_back(&call);
    if (!risky.empty()) order.push_back(risky[r.next() % risky.size()]);
  }
  for (auto* pc : order)
  {
    const Call& call = *pc;
    World w   = fresh(s);
    Outcome o = runCall(w, call);
    std::string kind = "invalid=" + call.label;
    if (call.exp.noRc || o.rc != 0)
    {
      c.probe("invalid-refused:" + s.calc + ":" + call.label);
      if (call.exp.noRc)
        judgeSuccess(c, s, w, call, o, kind);
      else
        judgeFailure(c, s, w, call, o, kind, freshDigest, haveFresh);
    }
    else
    {
      // accepted: then it must behave as a success (generic part only: the documented outputs of a call the
      // harness considers invalid are not specified)
      c.probe("invalid-accepted:" + s.calc + ":" + call.label);
      Call cc      = call;
      cc.exp.known = false;
      // one kind for all accepted variants (the label is in the probe): what may differ is what differs on the
      // success path, and one key per label would multiply every success-path finding by the number of labels
      judgeSuccess(c, s, w, cc, o, "accepted-invalid");
    }
  }
}

// ------------------------------------------------------------------------------------------------
// Generators of prior contents
// ------------------------------------------------------------------------------------------------
// Locator types used for the UNRELATED columns ("locators of every type"). X, Z, SEL, V, F, C are placed on purpose
// by the scenario builders (they take part in the calculation); the others are pure decoration for the calculators
// exercised here.
static const std::vector<int>& decorTypes()
{
  static std::vector<int> t;
  if (t.empty())
    for (const char* k : {"G", "L", "U", "P", "W", "BLEX", "ADIR", "ADIP", "SIZE", "BU", "BD", "TIME", "LAYER", "NOSTAT",
                          "TGTE", "SIMU", "FACIES", "GAUSFAC", "DATE", "RKLOW", "RKUP", "SUM"})
      t.push_back(ELoc::fromKey(k).getValue());
  return t;
}

struct Prior
{
  int ndecor        = 3;    // number of unrelated columns
  bool sel          = true; // add a selection
  double selRatio   = 0.8;
  bool plainColumns = true; // unrelated columns without locator as well
  std::vector<int> avoid;   // locator types not to use as decoration
  std::string tag;          // prefix of decoration names
};

static void addDecor(Rng& r, Db* db, const Prior& p)
{
  int n = db->getSampleNumber();
  std::map<int, int> rank;
  for (int i = 0; i < p.ndecor; i++)
  {
    VectorDouble v(n);
    for (int k = 0; k < n; k++) v[k] = r.coin(0.1) ? TEST : std::round(r.uni(0, 9) * 8) / 8;
    if (p.plainColumns && r.coin(0.3))
    {
      db->addColumns(v, p.tag + "plain" + std::to_string(i), ELoc::UNKNOWN);
      continue;
    }
    int t = r.pick(decorTypes());
    if (std::find(p.avoid.begin(), p.avoid.end(), t) != p.avoid.end()) { i--; continue; }
    ELoc lt = ELoc::fromValue(t);
    db->addColumns(v, p.tag + std::string(lt.getKey()) + std::to_string(rank[t]), lt, rank[t]);
    rank[t]++;
  }
  if (p.sel)
  {
    VectorDouble v(n);
    int nact = 0;
    for (int k = 0; k < n; k++) { v[k] = r.coin(p.selRatio) ? 1. : 0.; nact += v[k] > 0; }
    if (nact < std::min(n, 6))
      for (int k = 0; k < n; k++) v[k] = 1.;
    v[r.irange(0, n - 1)] = 0.;
    db->addColumns(v, p.tag + "sel", ELoc::SEL, 0);
  }
}

static double trend(const std::vector<double>& x, int ivar)
{
  double t = 1.5 * ivar;
  for (size_t d = 0; d < x.size(); d++) t += (0.3 + 0.2 * d) * x[d] / 10.;
  return t;
}

struct PointOpts
{
  int ndim = 2, n = 20, nvar = 1;
  bool hetero = false; // some undefined cells in the variables
  int nfex    = 0;     // external drift columns (locator F)
  bool verr   = false; // measurement error variances (locator V), one per variable
  bool code   = false; // code column (locator C)
  bool dup    = false; // two pairs of samples share their coordinates (singular kriging systems)
  double box  = 100.;
  std::string xname = "x"; // prefix of the coordinate NAMES (roles are always x1..)
};

// point Db: rank, coordinates (X), [before-decor], variables (Z), F, V, C, decor, selection
static Db* makePoints(Rng& r, const PointOpts& o, const Prior& p, const std::string& vname = "z")
{
  VectorDouble tab;
  VectorString names, locs;
  std::vector<std::vector<double>> xs(o.n, std::vector<double>(o.ndim));
  for (int d = 0; d < o.ndim; d++)
  {
    for (int i = 0; i < o.n; i++)
    {
      xs[i][d] = r.uni(0.03, 0.97) * o.box;
      if (o.dup && o.n >= 6 && (i == 1 || i == o.n - 1)) xs[i][d] = xs[i - 1][d];
      tab.push_back(xs[i][d]);
    }
    names.push_back(o.xname + std::to_string(d + 1));
    locs.push_back("x" + std::to_string(d + 1));
  }
  Db* db = Db::createFromSamples(o.n, ELoadBy::COLUMN, tab, names, locs, true);
  // an unrelated column placed BEFORE the variables so that column indices and UIDs are not aligned with ranks
  {
    VectorDouble v(o.n);
    for (int k = 0; k < o.n; k++) v[k] = (double)r.irange(0, 5);
    db->addColumns(v, p.tag + "early", ELoc::UNKNOWN);
    db->addColumns(v, p.tag + "gone", ELoc::UNKNOWN);
    db->deleteColumn(p.tag + "gone"); // a dead UID slot: UIDs and column indices now differ
  }
  for (int iv = 0; iv < o.nvar; iv++)
  {
    VectorDouble v(o.n);
    for (int k = 0; k < o.n; k++)
    {
      v[k] = trend(xs[k], iv) + 0.7 * r.normal();
      if (o.hetero && r.coin(0.15)) v[k] = TEST;
    }
    db->addColumns(v, vname + std::to_string(iv + 1), ELoc::Z, iv);
  }
  for (int f = 0; f < o.nfex; f++)
  {
    VectorDouble v(o.n);
    for (int k = 0; k < o.n; k++) v[k] = std::sin(0.05 * xs[k][0] * (f + 1)) + 0.02 * xs[k][o.ndim - 1] + 0.1 * r.normal();
    db->addColumns(v, "fext" + std::to_string(f + 1), ELoc::F, f);
  }
  if (o.verr)
    for (int iv = 0; iv < o.nvar; iv++)
    {
      VectorDouble v(o.n);
      for (int k = 0; k < o.n; k++) v[k] = r.uni(0.01, 0.2);
      db->addColumns(v, "verr" + std::to_string(iv + 1), ELoc::V, iv);
    }
  if (o.code)
  {
    VectorDouble v(o.n);
    for (int k = 0; k < o.n; k++) v[k] = (double)r.irange(1, 4);
    db->addColumns(v, "code", ELoc::C, 0);
  }
  addDecor(r, db, p);
  return db;
}

struct GridOpts
{
  int ndim = 2;
  std::vector<int> nx;
  double box = 100.;
  int nfex   = 0;
  bool rotated = false;
  bool fexHoles = false; // undefined external drift at some targets
  bool forceNostat = false; // one NOSTAT column (second expansion of the interpolators)
  int nz = 0; // variables with locator Z already on the grid
};

static DbGrid* makeGrid(Rng& r, const GridOpts& o, const Prior& p)
{
  VectorInt nx(o.ndim);
  VectorDouble dx(o.ndim), x0(o.ndim), angles;
  for (int d = 0; d < o.ndim; d++)
  {
    nx[d] = o.nx[d];
    dx[d] = o.box / nx[d];
    x0[d] = dx[d] / 2 + (o.rotated ? 0.2 * o.box : 0.);
  }
  if (o.rotated && o.ndim >= 2)
  {
    angles.resize(o.ndim == 2 ? 2 : 3, 0.);
    angles[0] = r.uni(10, 35);
  }
  DbGrid* g = DbGrid::create(nx, dx, x0, angles, ELoadBy::SAMPLE, VectorDouble(), VectorString(), VectorString(), true, true);
  int n     = g->getSampleNumber();
  {
    VectorDouble v(n);
    for (int k = 0; k < n; k++) v[k] = (double)r.irange(0, 5);
    g->addColumns(v, p.tag + "early", ELoc::UNKNOWN);
    g->addColumns(v, p.tag + "gone", ELoc::UNKNOWN);
    g->deleteColumn(p.tag + "gone"); // a dead UID slot
  }
  for (int iv = 0; iv < o.nz; iv++)
  {
    VectorDouble v(n);
    for (int k = 0; k < n; k++) v[k] = r.normal();
    g->addColumns(v, "gz" + std::to_string(iv + 1), ELoc::Z, iv);
  }
  for (int f = 0; f < o.nfex; f++)
  {
    VectorDouble v(n);
    for (int k = 0; k < n; k++)
    {
      double x = g->getCoordinate(k, 0), y = g->getCoordinate(k, o.ndim - 1);
      v[k]     = std::sin(0.05 * x * (f + 1)) + 0.02 * y;
      if (o.fexHoles && r.coin(0.15)) v[k] = TEST;
    }
    g->addColumns(v, "gfext" + std::to_string(f + 1), ELoc::F, f);
  }
  if (o.forceNostat && std::find(p.avoid.begin(), p.avoid.end(), ELoc::NOSTAT.getValue()) == p.avoid.end())
  {
    VectorDouble v(n);
    for (int k = 0; k < n; k++) v[k] = r.uni(0.5, 1.5);
    g->addColumns(v, "g_nostat", ELoc::NOSTAT, 0);
    Prior p2 = p;
    p2.avoid.push_back(ELoc::NOSTAT.getValue());
    addDecor(r, g, p2);
    return g;
  }
  addDecor(r, g, p);
  return g;
}

static std::vector<int> gridShape(Rng& r, int ndim, int maxCells)
{
  std::vector<int> nx(ndim);
  for (;;)
  {
    long tot = 1;
    for (int d = 0; d < ndim; d++) { nx[d] = r.irange(2, ndim == 1 ? 12 : (ndim == 2 ? 6 : 4)); tot *= nx[d]; }
    if (tot <= maxCells) return nx;
  }
}

// Models -----------------------------------------------------------------------------------------
struct ModelOpts
{
  int ndim = 2, nvar = 1;
  int drift = -1; // -1: known mean (simple kriging); 0: constant; 1: linear
  int nfex  = 0;
  bool linearCov = false; // non-stationary covariance
  double box = 100.;
};
static Model* makeModel(Rng& r, const ModelOpts& o)
{
  SpaceRN sp(o.ndim);
  VectorDouble sills(o.nvar * o.nvar, 0.);
  // A A^T, full rank
  std::vector<double> A(o.nvar * o.nvar);
  for (auto& a : A) a = r.uni(-1, 1);
  for (int i = 0; i < o.nvar; i++) A[i * o.nvar + i] += 1.5;
  for (int i = 0; i < o.nvar; i++)
    for (int j = 0; j < o.nvar; j++)
    {
      double s = 0;
      for (int k = 0; k < o.nvar; k++) s += A[i * o.nvar + k] * A[j * o.nvar + k];
      sills[i * o.nvar + j] = s;
    }
  Model* m;
  if (o.linearCov)
    m = Model::createFromParam(ECov::LINEAR, 1., 1., 1., VectorDouble(), sills, VectorDouble(), &sp);
  else
  {
    ECov t = std::vector<ECov>{ECov::SPHERICAL, ECov::EXPONENTIAL, ECov::CUBIC}[r.irange(0, 2)];
    m = Model::createFromParam(t, r.uni(0.2, 0.6) * o.box, 1., 1., VectorDouble(), sills, VectorDouble(), &sp);
    if (r.coin(0.5))
    {
      VectorDouble ns(o.nvar * o.nvar, 0.);
      for (int i = 0; i < o.nvar; i++) ns[i * o.nvar + i] = r.uni(0.05, 0.3);
      m->addCovFromParam(ECov::NUGGET, 0., 1., 1., VectorDouble(), ns);
    }
  }
  if (o.drift >= 0 || o.nfex > 0) m->setDriftIRF(std::max(o.drift, 0), o.nfex);
  else
  {
    VectorDouble means(o.nvar);
    for (int i = 0; i < o.nvar; i++) means[i] = 1.5 * i + 1.;
    m->setMeans(means);
  }
  return m;
}

struct NeighOpts
{
  int ndim = 2;
  bool moving = false;
  bool xvalid = false;
  int nmini = 1, nmaxi = 10;
  double radius = 60.;
  int nsect = 1;
};
static std::function<ANeigh*()> neighMaker(const NeighOpts& o)
{
  return [o]() -> ANeigh* {
    SpaceRN sp(o.ndim);
    // anisotropy coefficients are always given explicitly (all 1), so that the distance check is dimensioned from them
    // and not from the default space (that was wrong before /repo 7983a8b7b)
    if (o.moving) return NeighMoving::create(o.xvalid, o.nmaxi, o.radius, o.nmini, o.nsect, ITEST, VectorDouble(o.ndim, 1.), VectorDouble(), &sp);
    return NeighUnique::create(o.xvalid, &sp);
  };
}

static NamingConvention makeNamconv(Rng& r, const std::string& prefix, Expect& e, const ELoc& outLoc = ELoc::Z)
{
  // flag_locator false in a third of the cases: then NO locator of the output Db may change.
  bool fl       = !r.coin(0.33);
  e.flagLocator = fl;
  e.outLoc      = outLoc.getValue();
  return NamingConvention(prefix, true, true, fl, outLoc);
}

// ------------------------------------------------------------------------------------------------
// Scenario: kriging / krigtest / test_neigh (dbin -> dbout) and xvalid (db -> db)
// ------------------------------------------------------------------------------------------------
static int otherDim(int ndim) { return ndim == 2 ? 3 : 2; }

static void scenKrigingFamily(Rng& r, Ctx& c, Scen& s, const std::string& which)
{
  int ndim = r.pick(std::vector<int>{1, 2, 2, 3});
  int nvar = r.coin(0.35) ? 2 : 1;
  defineDefaultSpace(ESpaceType::RN, ndim);
  bool isX       = which == "xvalid";
  bool outGrid   = !isX && r.coin(0.6);
  bool moving    = r.coin(0.5) || (isX && nvar > 1); // xvalid in unique neighbourhood is documented single-variable
  int driftKind  = r.irange(-1, 1);
  int nfex       = (!isX && which == "kriging" && nvar == 1 && r.coin(0.4)) ? r.irange(1, 2) : 0;
  bool dbinHasF  = nfex > 0 && (!outGrid || r.coin(0.4)); // when false and dbout is a grid: migrated in _preprocess
  bool hetero    = nvar > 1 && r.coin(0.4);
  bool verr      = r.coin(0.25);
  int n          = r.irange(8, c.thorough() ? 60 : 24);
  double box     = 100.;

  Prior pin;  pin.tag = "i_"; pin.ndecor = r.irange(1, 5);
  Prior pout; pout.tag = "o_"; pout.ndecor = r.irange(1, 5);
  // NOSTAT columns of the output Db take part in the calculation of the interpolators (ACalcInterpolator::_preprocess
  // expands them into the input Db when the output is a grid, and refuses a point output whose count differs): they are
  // kept on grids only (that is the expansion path) and never put in the input Db.
  pin.avoid.push_back(ELoc::NOSTAT.getValue());
  if (!outGrid) pout.avoid.push_back(ELoc::NOSTAT.getValue());
  PointOpts po; po.ndim = ndim; po.n = n; po.nvar = nvar; po.hetero = hetero; po.nfex = dbinHasF ? nfex : 0; po.verr = verr;
  po.dup = !verr && r.coin(0.2); // duplicated data: singular systems on the targets that see them (results undefined, no failure)
  bool fexHoles = nfex > 0 && r.coin(0.3);
  s.din0.reset(makePoints(r, po, pin));
  s.same = isX;
  if (!isX)
  {
    if (outGrid)
    {
      GridOpts go; go.ndim = ndim; go.nx = gridShape(r, ndim, c.thorough() ? 80 : 30); go.nfex = nfex; go.rotated = r.coin(0.3);
      go.nz = r.irange(0, 2); go.fexHoles = fexHoles; go.forceNostat = (nfex > 0 && !dbinHasF && r.coin(0.6)) || r.coin(0.2);
      s.dout0.reset(makeGrid(r, go, pout));
    }
    else
    {
      PointOpts qo; qo.ndim = ndim; qo.n = r.irange(3, c.thorough() ? 40 : 15); qo.nvar = r.irange(0, 2); qo.nfex = nfex;
      s.dout0.reset(makePoints(r, qo, pout, "t"));
    }
  }
  ModelOpts mo; mo.ndim = ndim; mo.nvar = nvar; mo.drift = driftKind; mo.nfex = nfex;
  s.model0.reset(makeModel(r, mo));
  NeighOpts no; no.ndim = ndim; no.moving = moving; no.xvalid = isX; no.nmaxi = r.irange(4, 12); no.nmini = r.irange(1, 3);
  no.radius = r.uni(40, 150); no.nsect = (ndim == 2 && r.coin(0.3)) ? 4 : 1;
  s.mkNeigh = neighMaker(no);

  std::string prefix = r.pick(std::vector<std::string>{"K", "Res", "o_plain0", "z1"});
  s.calc = which;
  s.sig  = fmt("ndim=%d:nvar=%d:out=%s:neigh=%s:drift=%d:nfex=%d:dbinF=%d:hetero=%d:verr=%d:dup=%d:fexholes=%d", ndim, nvar,
               isX ? "same" : (outGrid ? "grid" : "points"), moving ? "moving" : "unique", driftKind, nfex, (int)dbinHasF,
               (int)hetero, (int)verr, (int)po.dup, (int)fexHoles);

  // ---- the valid call ------------------------------------------------------------------------
  Expect e;
  NamingConvention nc = makeNamconv(r, prefix, e);
  s.sig += fmt(":floc=%d", (int)e.flagLocator);
  if (which == "kriging")
  {
    // doc (CalcKriging.cpp): flag_est "Option for storing the estimation", flag_std "... the standard deviation",
    // flag_varz "... the variance of the estimator (only available for stationary model)"; NamingConvention.hpp:
    // "MyPrefix.Pb.estim", "MyPrefix.Pb.stdev". One column per variable and per requested quantity.
    bool fe = r.coin(0.8), fs = r.coin(0.7), fv = r.coin(0.3);
    if (!fe && !fs && !fv) fe = true;
    e.newOut = nvar * ((int)fe + (int)fs + (int)fv);
    if (fe) e.qual.push_back({"estim", nvar});
    if (fs) e.qual.push_back({"stdev", nvar});
    if (fv) e.qual.push_back({"varz", nvar});
    s.sig += fmt(":est=%d:std=%d:varz=%d", (int)fe, (int)fs, (int)fv);
    s.valid.label = "valid";
    s.valid.exp   = e;
    s.valid.fn    = [=](World& w) {
      return kriging(w.in(), w.out(), w.model.get(), w.neigh.get(), EKrigOpt::POINT, fe, fs, fv, VectorInt(), VectorInt(),
                     nullptr, nc);
    };
    auto krig = [=](World& w, Model* m, ANeigh* ng, Db* din, Db* dout) {
      return kriging(din, dout, m, ng, EKrigOpt::POINT, fe, fs, fv, VectorInt(), VectorInt(), nullptr, nc);
    };
    auto add = [&](const std::string& label, std::function<int(World&)> fn, std::function<void(World&)> prep = nullptr,
                   bool risky = false) {
      Call k;
      k.label = label; k.fn = fn; k.prep = prep; k.exp = e; k.rerunnable = !prep; k.risky = risky;
      s.invalid.push_back(k);
    };
    if (!AVOID_KRIGING_NO_Z)
      add("dbin-no-Z", [=](World& w) { return krig(w, w.model.get(), w.neigh.get(), w.in(), w.out()); },
          [](World& w) { w.in()->clearLocators(ELoc::Z); }, true);
    if (!AVOID_KRIGING_NO_X)
      add("dbin-no-X", [=](World& w) { return krig(w, w.model.get(), w.neigh.get(), w.in(), w.out()); },
          [](World& w) { w.in()->clearLocators(ELoc::X); }, true);
    add("model-nvar", [=](World& w) {
      ModelOpts m2 = mo; m2.nvar = nvar + 1; Rng rr(7); std::unique_ptr<Model> m(makeModel(rr, m2));
      return krig(w, m.get(), w.neigh.get(), w.in(), w.out()); });
    add("model-ndim", [=](World& w) {
      ModelOpts m2 = mo; m2.ndim = otherDim(ndim); Rng rr(7); std::unique_ptr<Model> m(makeModel(rr, m2));
      return krig(w, m.get(), w.neigh.get(), w.in(), w.out()); });
    add("model-no-structure", [=](World& w) {
      SpaceRN sp(ndim); CovContext ctxt(nvar, &sp); std::unique_ptr<Model> m(Model::create(ctxt));
      return krig(w, m.get(), w.neigh.get(), w.in(), w.out()); });
    add("neigh-ndim", [=](World& w) {
      NeighOpts n2 = no; n2.ndim = otherDim(ndim); std::unique_ptr<ANeigh> ng(neighMaker(n2)());
      return krig(w, w.model.get(), ng.get(), w.in(), w.out()); });
    add("dbout-ndim", [=](World& w) { return krig(w, w.model.get(), w.neigh.get(), w.in(), w.out()); },
        [=](World& w) {
          Rng rr(11); Prior pp; pp.tag = "q_"; PointOpts qo; qo.ndim = otherDim(ndim); qo.n = 5; qo.nvar = 0; qo.nfex = nfex;
          w.dout.reset(makePoints(rr, qo, pp));
        });
    add("null-dbout", [=](World& w) { return krig(w, w.model.get(), w.neigh.get(), w.in(), nullptr); });
    add("null-dbin", [=](World& w) { return krig(w, w.model.get(), w.neigh.get(), nullptr, w.out()); });
    add("null-model", [=](World& w) { return krig(w, nullptr, w.neigh.get(), w.in(), w.out()); });
    add("null-neigh", [=](World& w) { return krig(w, w.model.get(), nullptr, w.in(), w.out()); });
    add("nmini-unreachable", [=](World& w) {
      NeighOpts n2 = no; n2.moving = true; n2.nmini = n + 5; n2.nmaxi = n + 10; std::unique_ptr<ANeigh> ng(neighMaker(n2)());
      return krig(w, w.model.get(), ng.get(), w.in(), w.out()); });
    add("block-bad-ndiscs", [=](World& w) {
      return kriging(w.in(), w.out(), w.model.get(), w.neigh.get(), EKrigOpt::BLOCK, fe, fs, fv, VectorInt(ndim + 2, 2),
                     VectorInt(), nullptr, nc); });
    add("block-no-ndiscs", [=](World& w) {
      return kriging(w.in(), w.out(), w.model.get(), w.neigh.get(), EKrigOpt::BLOCK, fe, fs, fv, VectorInt(), VectorInt(),
                     nullptr, nc); });
    add("colcok-bad-rank", [=](World& w) {
      return kriging(w.in(), w.out(), w.model.get(), w.neigh.get(), EKrigOpt::POINT, fe, fs, fv, VectorInt(),
                     VectorInt(nvar, 9999), nullptr, nc); });
    add("matLC-bad-shape", [=](World& w) {
      MatrixRectangular lc(1, nvar + 3);
      for (int j = 0; j < nvar + 3; j++) lc.setValue(0, j, 1.);
      return kriging(w.in(), w.out(), w.model.get(), w.neigh.get(), EKrigOpt::POINT, fe, fs, fv, VectorInt(), VectorInt(),
                     &lc, nc); });
    if (!AVOID_IMAGE_NEIGH)
      add("image-neigh", [=](World& w) {
        SpaceRN sp(ndim); std::unique_ptr<ANeigh> ng(NeighImage::create(VectorInt(ndim, 1), 0, &sp));
        return krig(w, w.model.get(), ng.get(), w.in(), w.out()); }, nullptr, true);
    add("varz-nonstationary", [=](World& w) {
      ModelOpts m2 = mo; m2.linearCov = true; m2.drift = std::max(mo.drift, 0); Rng rr(7); std::unique_ptr<Model> m(makeModel(rr, m2));
      return kriging(w.in(), w.out(), m.get(), w.neigh.get(), EKrigOpt::POINT, fe, fs, true, VectorInt(), VectorInt(),
                     nullptr, nc); });
    add("dgm-without-anam", [=](World& w) {
      return kriging(w.in(), w.out(), w.model.get(), w.neigh.get(), EKrigOpt::DGM, fe, fs, fv, VectorInt(), VectorInt(),
                     nullptr, nc); });
    add("extdrift-not-in-dbout", [=](World& w) {
      ModelOpts m2 = mo; m2.nfex = nfex + 1; Rng rr(7); std::unique_ptr<Model> m(makeModel(rr, m2));
      return krig(w, m.get(), w.neigh.get(), w.in(), w.out()); });
    if (nfex > 0)
      add("extdrift-dbin-partial", [=](World& w) { return krig(w, w.model.get(), w.neigh.get(), w.in(), w.out()); },
          [=](World& w) {
            // the input Db holds ONE MORE external drift column than the model and the output Db
            VectorDouble v(w.in()->getSampleNumber(), 1.);
            w.in()->addColumns(v, "fext_extra", ELoc::F, w.in()->getLocatorNumber(ELoc::F));
          });
  }
  else if (which == "xvalid")
  {
    // doc (CalcKriging.cpp, xvalid): "flag_xvalid_est Option for storing the estimation: 1 for Z*-Z; -1 for Z*; 0 not
    // stored", "flag_xvalid_std ... 1:for (Z*-Z)/S; -1 for S; 0 not stored", "flag_xvalid_varz ... 1 to store".
    // Qualifiers (CalcKriging::_postprocess): esterr / estim, stderr / stdev, varz.
    int fe = r.pick(std::vector<int>{1, -1, 0}), fs = r.pick(std::vector<int>{1, -1, 0}), fv = r.coin(0.3) ? 1 : 0;
    if (fe == 0 && fs == 0 && fv == 0) fe = 1;
    bool kfold = false;
    e.newOut   = nvar * ((fe != 0) + (fs != 0) + (fv != 0));
    if (fe > 0) e.qual.push_back({"esterr", nvar});
    if (fe < 0) e.qual.push_back({"estim", nvar});
    if (fs > 0) e.qual.push_back({"stderr", nvar});
    if (fs < 0) e.qual.push_back({"stdev", nvar});
    if (fv) e.qual.push_back({"varz", nvar});
    s.sig += fmt(":est=%d:std=%d:varz=%d", fe, fs, fv);
    s.valid.label = "valid";
    s.valid.exp   = e;
    auto xv = [=](Db* db, Model* m, ANeigh* ng) { return xvalid(db, m, ng, kfold, fe, fs, fv, VectorInt(), nc); };
    s.valid.fn = [=](World& w) { return xv(w.in(), w.model.get(), w.neigh.get()); };
    auto add = [&](const std::string& label, std::function<int(World&)> fn, std::function<void(World&)> prep = nullptr,
                   bool risky = false) {
      Call k;
      k.label = label; k.fn = fn; k.prep = prep; k.exp = e; k.rerunnable = !prep; k.risky = risky;
      s.invalid.push_back(k);
    };
    add("db-no-Z", [=](World& w) { return xv(w.in(), w.model.get(), w.neigh.get()); },
        [](World& w) { w.in()->clearLocators(ELoc::Z); });
    add("model-nvar", [=](World& w) {
      ModelOpts m2 = mo; m2.nvar = nvar + 1; Rng rr(7); std::unique_ptr<Model> m(makeModel(rr, m2));
      return xv(w.in(), m.get(), w.neigh.get()); });
    add("model-ndim", [=](World& w) {
      ModelOpts m2 = mo; m2.ndim = otherDim(ndim); Rng rr(7); std::unique_ptr<Model> m(makeModel(rr, m2));
      return xv(w.in(), m.get(), w.neigh.get()); });
    add("model-no-structure", [=](World& w) {
      SpaceRN sp(ndim); CovContext ctxt(nvar, &sp); std::unique_ptr<Model> m(Model::create(ctxt));
      return xv(w.in(), m.get(), w.neigh.get()); });
    add("neigh-ndim", [=](World& w) {
      NeighOpts n2 = no; n2.ndim = otherDim(ndim); std::unique_ptr<ANeigh> ng(neighMaker(n2)());
      return xv(w.in(), w.model.get(), ng.get()); });
    add("null-db", [=](World& w) { return xv(nullptr, w.model.get(), w.neigh.get()); });
    add("null-model", [=](World& w) { return xv(w.in(), nullptr, w.neigh.get()); });
    add("null-neigh", [=](World& w) { return xv(w.in(), w.model.get(), nullptr); });
    add("kfold-without-code", [=](World& w) { return xvalid(w.in(), w.model.get(), w.neigh.get(), true, fe, fs, fv, VectorInt(), nc); });
    add("colcok-bad-rank", [=](World& w) {
      return xvalid(w.in(), w.model.get(), w.neigh.get(), false, fe, fs, fv, VectorInt(nvar, 9999), nc); });
    if (nvar > 1)
      add("unique-xvalid-multivariate", [=](World& w) {
        // documented refusal (KrigingSystem::_isCorrect): "The algorithm for Cross-Validation in Unique Neighborhood is
        // restricted to a single variable" — detected inside _run, after the output columns were created
        NeighOpts n2 = no; n2.moving = false; n2.xvalid = true; std::unique_ptr<ANeigh> ng(neighMaker(n2)());
        return xv(w.in(), w.model.get(), ng.get()); });
    if (!AVOID_IMAGE_NEIGH)
      add("image-neigh", [=](World& w) {
        SpaceRN sp(ndim); std::unique_ptr<ANeigh> ng(NeighImage::create(VectorInt(ndim, 1), 0, &sp));
        return xv(w.in(), w.model.get(), ng.get()); }, nullptr, true);
  }
  else if (which == "test_neigh")
  {
    // doc (CalcKriging.cpp, test_neigh): "This procedure creates the following arrays: 1 - The number of selected
    // samples 2 - The maximum neighborhood distance 3 - The minimum neighborhood distance 4 - The number of non-empty
    // sectors 5 - The number of consecutive empty sectors"
    e.newOut = 5;
    e.qual   = {{"Number", 1}, {"MaxDist", 1}, {"MinDist", 1}, {"NbNESect", 1}, {"NbCESect", 1}};
    s.valid.label = "valid";
    s.valid.exp   = e;
    auto tn = [=](Db* din, Db* dout, Model* m, ANeigh* ng) { return test_neigh(din, dout, m, ng, nc); };
    s.valid.fn = [=](World& w) { return tn(w.in(), w.out(), w.model.get(), w.neigh.get()); };
    auto add = [&](const std::string& label, std::function<int(World&)> fn, std::function<void(World&)> prep = nullptr,
                   bool risky = false) {
      Call k;
      k.label = label; k.fn = fn; k.prep = prep; k.exp = e; k.rerunnable = !prep; k.risky = risky;
      s.invalid.push_back(k);
    };
    add("neigh-ndim", [=](World& w) {
      NeighOpts n2 = no; n2.ndim = otherDim(ndim); std::unique_ptr<ANeigh> ng(neighMaker(n2)());
      return tn(w.in(), w.out(), w.model.get(), ng.get()); });
    add("model-ndim", [=](World& w) {
      ModelOpts m2 = mo; m2.ndim = otherDim(ndim); Rng rr(7); std::unique_ptr<Model> m(makeModel(rr, m2));
      return tn(w.in(), w.out(), m.get(), w.neigh.get()); });
    add("null-dbout", [=](World& w) { return tn(w.in(), nullptr, w.model.get(), w.neigh.get()); });
    add("null-neigh", [=](World& w) { return tn(w.in(), w.out(), w.model.get(), nullptr); });
    add("null-model", [=](World& w) { return tn(w.in(), w.out(), nullptr, w.neigh.get()); });
    add("dbin-no-X", [=](World& w) { return tn(w.in(), w.out(), w.model.get(), w.neigh.get()); },
        [](World& w) { w.in()->clearLocators(ELoc::X); });
  }
  else // krigtest
  {
    // doc (CalcKriging.cpp, krigtest): "Perform kriging and return the calculation elements" — returns a Krigtest_Res,
    // no return code, documents no output variable: both Dbs must come back untouched whatever happens.
    e.noRc  = true;
    e.known = false;
    int ntarget = s.dout0->getSampleNumber();
    int iech0   = r.irange(0, ntarget - 1);
    s.valid.label = "valid";
    s.valid.exp   = e;
    auto kt = [=](Db* din, Db* dout, Model* m, ANeigh* ng, int ie) {
      Krigtest_Res res = krigtest(din, dout, m, ng, ie, EKrigOpt::POINT, VectorInt(), false, false);
      return 0;
    };
    s.valid.fn = [=](World& w) { return kt(w.in(), w.out(), w.model.get(), w.neigh.get(), iech0); };
    auto add = [&](const std::string& label, std::function<int(World&)> fn, std::function<void(World&)> prep = nullptr,
                   bool risky = false) {
      Call k;
      k.label = label; k.fn = fn; k.prep = prep; k.exp = e; k.rerunnable = false; k.risky = risky;
      s.invalid.push_back(k);
    };
    add("model-nvar", [=](World& w) {
      ModelOpts m2 = mo; m2.nvar = nvar + 1; Rng rr(7); std::unique_ptr<Model> m(makeModel(rr, m2));
      return kt(w.in(), w.out(), m.get(), w.neigh.get(), iech0); });
    add("neigh-ndim", [=](World& w) {
      NeighOpts n2 = no; n2.ndim = otherDim(ndim); std::unique_ptr<ANeigh> ng(neighMaker(n2)());
      return kt(w.in(), w.out(), w.model.get(), ng.get(), iech0); });
    add("iech-out-of-range", [=](World& w) { return kt(w.in(), w.out(), w.model.get(), w.neigh.get(), ntarget + 3); });
    add("null-model", [=](World& w) { return kt(w.in(), w.out(), nullptr, w.neigh.get(), iech0); });
    if (!AVOID_IMAGE_NEIGH)
      add("image-neigh", [=](World& w) {
        SpaceRN sp(ndim); std::unique_ptr<ANeigh> ng(NeighImage::create(VectorInt(ndim, 1), 0, &sp));
        return kt(w.in(), w.out(), w.model.get(), ng.get(), iech0); }, nullptr, true);
  }
}


// helper to append an invalid-argument variant
struct Adder
{
  Scen& s;
  Expect e;
  void operator()(const std::string& label, std::function<int(World&)> fn, std::function<void(World&)> prep = nullptr,
                  bool risky = false, bool rerunnable = true)
  {
    Call k;
    k.label = label; k.fn = fn; k.prep = prep; k.exp = e; k.rerunnable = rerunnable && !prep; k.risky = risky;
    s.invalid.push_back(k);
  }
};

// ------------------------------------------------------------------------------------------------
// Scenario: simtub (conditional and non conditional)
// ------------------------------------------------------------------------------------------------
static void scenSimtub(Rng& r, Ctx& c, Scen& s)
{
  int ndim = r.pick(std::vector<int>{1, 2, 2, 3});
  int nvar = r.coin(0.3) ? 2 : 1;
  defineDefaultSpace(ESpaceType::RN, ndim);
  bool cond    = r.coin(0.6);
  bool outGrid = r.coin(0.6);
  bool moving  = r.coin(0.4);
  int drift    = r.irange(-1, 0);
  int nfex     = (cond && nvar == 1 && outGrid && r.coin(0.5)) ? 1 : 0;
  bool dbinHasF = nfex > 0 && r.coin(0.4);
  int nbsimu   = r.irange(1, 3);
  int nbtuba   = r.irange(5, 20);
  int seed     = r.irange(1, 100000);
  int n        = r.irange(8, c.thorough() ? 50 : 20);

  Prior pin;  pin.tag = "i_"; pin.ndecor = r.irange(1, 5);
  Prior pout; pout.tag = "o_"; pout.ndecor = r.irange(1, 5);
  pin.avoid.push_back(ELoc::NOSTAT.getValue()); // see scenKrigingFamily
  if (!outGrid) pout.avoid.push_back(ELoc::NOSTAT.getValue());
  if (cond)
  {
    PointOpts po; po.ndim = ndim; po.n = n; po.nvar = nvar; po.nfex = dbinHasF ? nfex : 0;
    s.din0.reset(makePoints(r, po, pin));
  }
  if (outGrid)
  {
    GridOpts go; go.ndim = ndim; go.nx = gridShape(r, ndim, c.thorough() ? 80 : 30); go.nfex = nfex; go.nz = r.irange(0, 2);
    go.forceNostat = (nfex > 0 && !dbinHasF && r.coin(0.6)) || r.coin(0.2);
    s.dout0.reset(makeGrid(r, go, pout));
  }
  else
  {
    PointOpts qo; qo.ndim = ndim; qo.n = r.irange(3, c.thorough() ? 40 : 15); qo.nvar = r.irange(0, 2); qo.nfex = nfex;
    s.dout0.reset(makePoints(r, qo, pout, "t"));
  }
  ModelOpts mo; mo.ndim = ndim; mo.nvar = nvar; mo.drift = drift; mo.nfex = nfex;
  s.model0.reset(makeModel(r, mo));
  NeighOpts no; no.ndim = ndim; no.moving = moving; no.nmaxi = r.irange(4, 12); no.radius = r.uni(40, 150);
  if (cond) s.mkNeigh = neighMaker(no);

  s.calc = cond ? "simtub-cond" : "simtub-nc";
  Expect e;
  NamingConvention nc = makeNamconv(r, r.pick(std::vector<std::string>{"Simu", "S", "o_plain0"}), e);
  // doc (NamingConvention.hpp): "the non-conditional simulation procedure generates variables such as: MyPrefix.1 (for
  // first simulation) MyPrefix.2 ..."; "the conditional simulation procedure generates ... MyPrefix.var.1 ..."
  // => one column per variable and per simulation.
  e.newOut = nvar * nbsimu;
  // SIMU is the working locator of the simulation calculators (new columns are created with it, ranks 1..): what
  // happens on SUCCESS to a pre-existing SIMU column of the output Db is not documented -> not asserted on success
  // (it is on failure: "no changed roles").
  e.anyLoc.push_back(ELoc::SIMU.getValue());
  s.sig = fmt("ndim=%d:nvar=%d:out=%s:neigh=%s:drift=%d:nfex=%d:dbinF=%d:nbsimu=%d:floc=%d", ndim, nvar,
              outGrid ? "grid" : "points", !cond ? "none" : (moving ? "moving" : "unique"), drift, nfex, (int)dbinHasF,
              nbsimu, (int)e.flagLocator);
  auto st = [=](Db* din, Db* dout, Model* m, ANeigh* ng, int nbs, int nbt) {
    return simtub(din, dout, m, ng, nbs, seed, nbt, false, false, nc);
  };
  s.valid.label = "valid";
  s.valid.exp   = e;
  s.valid.fn    = [=](World& w) { return st(w.in(), w.out(), w.model.get(), w.neigh.get(), nbsimu, nbtuba); };
  Adder add{s, e};
  add("nbsimu-zero", [=](World& w) { return st(w.in(), w.out(), w.model.get(), w.neigh.get(), 0, nbtuba); });
  add("nbtuba-zero", [=](World& w) { return st(w.in(), w.out(), w.model.get(), w.neigh.get(), nbsimu, 0); });
  add("null-dbout", [=](World& w) { return st(w.in(), nullptr, w.model.get(), w.neigh.get(), nbsimu, nbtuba); });
  add("null-model", [=](World& w) { return st(w.in(), w.out(), nullptr, w.neigh.get(), nbsimu, nbtuba); });
  add("model-ndim", [=](World& w) {
    ModelOpts m2 = mo; m2.ndim = otherDim(ndim); Rng rr(7); std::unique_ptr<Model> m(makeModel(rr, m2));
    return st(w.in(), w.out(), m.get(), w.neigh.get(), nbsimu, nbtuba); });
  add("model-no-structure", [=](World& w) {
    SpaceRN sp(ndim); CovContext ctxt(nvar, &sp); std::unique_ptr<Model> m(Model::create(ctxt));
    return st(w.in(), w.out(), m.get(), w.neigh.get(), nbsimu, nbtuba); });
  add("dgm-without-anam", [=](World& w) {
    return simtub(w.in(), w.out(), w.model.get(), w.neigh.get(), nbsimu, seed, nbtuba, true, false, nc); });
  if (cond)
  {
    add("null-neigh", [=](World& w) { return st(w.in(), w.out(), w.model.get(), nullptr, nbsimu, nbtuba); });
    add("model-nvar", [=](World& w) {
      ModelOpts m2 = mo; m2.nvar = nvar + 1; Rng rr(7); std::unique_ptr<Model> m(makeModel(rr, m2));
      return st(w.in(), w.out(), m.get(), w.neigh.get(), nbsimu, nbtuba); });
    add("neigh-ndim", [=](World& w) {
      NeighOpts n2 = no; n2.ndim = otherDim(ndim); std::unique_ptr<ANeigh> ng(neighMaker(n2)());
      return st(w.in(), w.out(), w.model.get(), ng.get(), nbsimu, nbtuba); });
    add("extdrift-not-in-dbout", [=](World& w) {
      ModelOpts m2 = mo; m2.nfex = nfex + 1; Rng rr(7); std::unique_ptr<Model> m(makeModel(rr, m2));
      return st(w.in(), w.out(), m.get(), w.neigh.get(), nbsimu, nbtuba); });
  }
  else
  {
    add("nonstationary-cov", [=](World& w) {
      ModelOpts m2 = mo; m2.linearCov = true; m2.drift = 0; Rng rr(7); std::unique_ptr<Model> m(makeModel(rr, m2));
      return st(w.in(), w.out(), m.get(), w.neigh.get(), nbsimu, nbtuba); });
  }
}

// ------------------------------------------------------------------------------------------------
// Scenario: migrate / migrateMulti / migrateByAttribute / migrateByLocator
// ------------------------------------------------------------------------------------------------
static void scenMigrate(Rng& r, Ctx& c, Scen& s, const std::string& which)
{
  int ndim = r.pick(std::vector<int>{1, 2, 2, 3});
  defineDefaultSpace(ESpaceType::RN, ndim);
  int nvar = r.irange(1, 3);
  // direction: point->grid, grid->point, point->point, grid->grid
  int dir = r.irange(0, 3);
  bool inGrid = dir == 1 || dir == 3, outGrid = dir == 0 || dir == 3;
  Prior pin;  pin.tag = "i_"; pin.ndecor = r.irange(1, 5);
  Prior pout; pout.tag = "o_"; pout.ndecor = r.irange(1, 5);
  int maxCells = c.thorough() ? 100 : 36;
  if (inGrid)
  {
    GridOpts go; go.ndim = ndim; go.nx = gridShape(r, ndim, maxCells); go.nz = nvar; go.rotated = r.coin(0.3);
    s.din0.reset(makeGrid(r, go, pin));
  }
  else
  {
    PointOpts po; po.ndim = ndim; po.n = r.irange(5, c.thorough() ? 60 : 25); po.nvar = nvar; po.hetero = r.coin(0.3);
    s.din0.reset(makePoints(r, po, pin));
  }
  if (outGrid)
  {
    GridOpts go; go.ndim = ndim; go.nx = gridShape(r, ndim, maxCells); go.nz = r.irange(0, 2);
    s.dout0.reset(makeGrid(r, go, pout));
  }
  else
  {
    PointOpts qo; qo.ndim = ndim; qo.n = r.irange(3, c.thorough() ? 40 : 15); qo.nvar = r.irange(0, 2);
    s.dout0.reset(makePoints(r, qo, pout, "t"));
  }
  VectorString zn = s.din0->getNamesByLocator(ELoc::Z);
  int dist_type   = r.irange(1, 2);
  VectorDouble dmax;
  if (r.coin(0.4)) dmax = VectorDouble(ndim, r.uni(10, 60));
  bool ffill = r.coin(0.3), finter = r.coin(0.3), fball = r.coin(0.3);
  s.calc = which;
  Expect e;
  NamingConvention nc = makeNamconv(r, r.pick(std::vector<std::string>{"Migrate", "M", "o_plain0"}), e);
  s.sig = fmt("ndim=%d:nvar=%d:dir=%d:dist=%d:dmax=%d:fill=%d:inter=%d:ball=%d:floc=%d", ndim, nvar, dir, dist_type,
              (int)!dmax.empty(), (int)ffill, (int)finter, (int)fball, (int)e.flagLocator);
  s.valid.label = "valid";
  Adder add{s, e};
  if (which == "migrate")
  {
    // doc (CalcMigrate.cpp): "Migrates a variable from one Db to another one ... name Name of the attribute to be migrated"
    String name = zn[r.irange(0, nvar - 1)];
    e.newOut = 1;
    auto f = [=](Db* a, Db* b, const String& nm, int dt) { return migrate(a, b, nm, dt, dmax, ffill, finter, fball, nc); };
    s.valid.fn = [=](World& w) { return f(w.in(), w.out(), name, dist_type); };
    add.e = e;
    add("unknown-name", [=](World& w) { return f(w.in(), w.out(), "no_such_column", dist_type); }, nullptr, true);
    add("dist-type-3", [=](World& w) { return f(w.in(), w.out(), name, 3); });
    add("null-dbout", [=](World& w) { return f(w.in(), nullptr, name, dist_type); });
    add("dbout-ndim", [=](World& w) { return f(w.in(), w.out(), name, dist_type); },
        [=](World& w) { Rng rr(11); Prior pp; pp.tag = "q_"; PointOpts qo; qo.ndim = ndim + 1; qo.n = 5; qo.nvar = 0;
                        w.dout.reset(makePoints(rr, qo, pp)); });
  }
  else if (which == "migrateMulti")
  {
    // doc: "Migrates a set of variables from one Db to another one ... names Name of the attribute to be migrated"
    VectorString names = zn;
    if (r.coin(0.5)) names.push_back(pin.tag + "early");
    e.newOut = (int)names.size();
    auto f = [=](Db* a, Db* b, const VectorString& nm, int dt) { return migrateMulti(a, b, nm, dt, dmax, ffill, finter, fball, nc); };
    s.valid.fn = [=](World& w) { return f(w.in(), w.out(), names, dist_type); };
    add.e = e;
    add("empty-names", [=](World& w) { return f(w.in(), w.out(), VectorString(), dist_type); });
    add("one-unknown-name", [=](World& w) { VectorString nm = names; nm.push_back("no_such_column");
                                              return f(w.in(), w.out(), nm, dist_type); }, nullptr, true);
    add("dist-type-0", [=](World& w) { return f(w.in(), w.out(), names, 0); });
    add("null-dbout", [=](World& w) { return f(w.in(), nullptr, names, dist_type); });
  }
  else if (which == "migrateByAttribute")
  {
    // doc: "atts Array of attributes to be migrated" (UIDs; empty = all columns: CalcMigrate.cpp "if (iuids.empty())
    // iuids = dbin->getAllUIDs()")
    VectorInt atts = s.din0->getUIDs(zn);
    bool all       = r.coin(0.25);
    if (all) atts = VectorInt();
    e.newOut = all ? s.din0->getColumnNumber() : (int)atts.size();
    s.sig += fmt(":all=%d", (int)all);
    auto f = [=](Db* a, Db* b, const VectorInt& at, int dt) { return migrateByAttribute(a, b, at, dt, dmax, ffill, finter, fball, nc); };
    s.valid.fn = [=](World& w) { return f(w.in(), w.out(), atts, dist_type); };
    add.e = e;
    add("dead-uid", [=](World& w) { VectorInt at = atts; at.push_back(w.in()->getUID("i_early") + 1); // the deleted column
                                     return f(w.in(), w.out(), at, dist_type); }, nullptr, true);
    add("uid-out-of-range", [=](World& w) { VectorInt at = atts; at.push_back(9999); return f(w.in(), w.out(), at, dist_type); },
        nullptr, true);
    add("dist-type-3", [=](World& w) { return f(w.in(), w.out(), atts, 3); });
    add("null-dbout", [=](World& w) { return f(w.in(), nullptr, atts, dist_type); });
  }
  else
  {
    // doc (migrateByLocator): "Migrates all z-locator variables from one Db to another one ... The output variable
    // receive the same locator as the input variables"
    ELoc lt = ELoc::Z;
    e.newOut = nvar;
    e.alsoLose.push_back(lt.getValue());
    auto f = [=](Db* a, Db* b, const ELoc& l, int dt) { return migrateByLocator(a, b, l, dt, dmax, ffill, finter, fball, nc); };
    s.valid.fn = [=](World& w) { return f(w.in(), w.out(), lt, dist_type); };
    add.e = e;
    add("no-such-locator", [=](World& w) { return f(w.in(), w.out(), ELoc::SUM, dist_type); },
        [](World& w) { w.in()->clearLocators(ELoc::SUM); });
    add("dist-type-3", [=](World& w) { return f(w.in(), w.out(), lt, 3); });
    add("null-dbout", [=](World& w) { return f(w.in(), nullptr, lt, dist_type); });
  }
  s.valid.exp = e;
}

// ------------------------------------------------------------------------------------------------
// Scenario: dbStatisticsOnGrid / dbRegression (CalcStatistics)
// ------------------------------------------------------------------------------------------------
static void scenStatistics(Rng& r, Ctx& c, Scen& s, const std::string& which)
{
  int ndim = r.pick(std::vector<int>{1, 2, 2, 3});
  defineDefaultSpace(ESpaceType::RN, ndim);
  int nvar = r.irange(1, 3);
  Prior pin;  pin.tag = "i_"; pin.ndecor = r.irange(1, 5);
  Prior pout; pout.tag = "o_"; pout.ndecor = r.irange(1, 5);
  PointOpts po; po.ndim = ndim; po.n = r.irange(8, c.thorough() ? 80 : 30); po.nvar = nvar; po.hetero = r.coin(0.3);
  po.nfex = which == "dbRegression" ? r.irange(1, 2) : 0;
  s.din0.reset(makePoints(r, po, pin));
  s.calc = which;
  Expect e;
  NamingConvention nc = makeNamconv(r, r.pick(std::vector<std::string>{"Stats", "R", "o_plain0"}), e);
  s.valid.label = "valid";
  Adder add{s, e};
  if (which == "dbStatisticsOnGrid")
  {
    GridOpts go; go.ndim = ndim; go.nx = gridShape(r, ndim, c.thorough() ? 100 : 36); go.nz = r.irange(0, 2);
    s.dout0.reset(makeGrid(r, go, pout));
    // doc (CalcStatistics.cpp): "Calculates the statistics on variables of an input Db per cell of an output Grid ...
    // oper The statistical calculation; radius Neighborhood radius" — one column per variable (locator Z) of the input
    std::vector<EStatOption> ops = {EStatOption::NUM, EStatOption::MEAN, EStatOption::VAR, EStatOption::STDV,
                                    EStatOption::MINI, EStatOption::MAXI, EStatOption::PLUS, EStatOption::ZERO};
    // (MEDIAN left out: dbStatisticsInGridTool sizes its work array with the space dimension: heap-buffer-overflow, side finding)
    EStatOption oper = ops[r.irange(0, (int)ops.size() - 1)];
    int radius = r.irange(0, 1);
    e.newOut = nvar;
    s.sig = fmt("ndim=%d:nvar=%d:oper=%s:radius=%d:floc=%d", ndim, nvar, std::string(oper.getKey()).c_str(), radius, (int)e.flagLocator);
    auto f = [=](Db* a, DbGrid* g, const EStatOption& o, int rad) { return dbStatisticsOnGrid(a, g, o, rad, nc); };
    s.valid.fn = [=](World& w) { return f(w.in(), w.gout(), oper, radius); };
    add.e = e;
    add("oper-not-available", [=](World& w) { return f(w.in(), w.gout(), EStatOption::QUANT, radius); }); // refused inside _run
    add("oper-sum", [=](World& w) { return f(w.in(), w.gout(), EStatOption::SUM, radius); });
    add("dbin-no-Z", [=](World& w) { return f(w.in(), w.gout(), oper, radius); }, [](World& w) { w.in()->clearLocators(ELoc::Z); });
    add("null-grid", [=](World& w) { return f(w.in(), nullptr, oper, radius); });
    add("grid-ndim", [=](World& w) { return f(w.in(), w.gout(), oper, radius); },
        [=](World& w) { Rng rr(11); Prior pp; pp.tag = "q_"; GridOpts g2; g2.ndim = otherDim(ndim); g2.nx = std::vector<int>(g2.ndim, 2);
                        w.dout.reset(makeGrid(rr, g2, pp)); });
  }
  else
  {
    // doc (Regression.cpp, apply): "The Db1 structure is modified: the column (iptr0) of the Db1 is added by this
    // function; it contains the value of the residuals at each datum" — one new column in db1 (db2 defaults to db1).
    s.same = true;
    int mode = r.coin(0.5) ? 0 : 1;
    bool cst = r.coin(0.7);
    String resp = "z1";
    VectorString aux = s.din0->getNamesByLocator(ELoc::F);
    e.newOut = 1;
    s.sig = fmt("ndim=%d:nvar=%d:mode=%d:cst=%d:naux=%d:floc=%d", ndim, nvar, mode, (int)cst, (int)aux.size(), (int)e.flagLocator);
    auto f = [=](Db* a, const String& rs, const VectorString& ax, int md, bool fc) { return dbRegression(a, rs, ax, md, fc, nullptr, nullptr, nc); };
    s.valid.fn = [=](World& w) { return f(w.in(), resp, aux, mode, cst); };
    add.e = e;
    add("no-aux-no-cst", [=](World& w) { return f(w.in(), resp, VectorString(), 0, false); });
    add("db-no-Z", [=](World& w) { return f(w.in(), resp, aux, mode, cst); }, [](World& w) { w.in()->clearLocators(ELoc::Z); });
    add("unknown-response", [=](World& w) { return f(w.in(), "no_such_column", aux, 0, cst); }, nullptr, true);
    add("unknown-aux", [=](World& w) { return f(w.in(), resp, VectorString({"no_such_column"}), 0, cst); }, nullptr, true);
  }
  s.valid.exp = e;
}

// ------------------------------------------------------------------------------------------------
// Scenario: anamorphosis transforms on a Db (CalcAnamTransform through AAnam)
// ------------------------------------------------------------------------------------------------
static void scenAnam(Rng& r, Ctx& c, Scen& s, const std::string& which)
{
  int ndim = r.pick(std::vector<int>{1, 2, 3});
  defineDefaultSpace(ESpaceType::RN, ndim);
  int nvar = which == "rawToFactor" ? 1 : r.irange(1, 2);
  Prior pin; pin.tag = "i_"; pin.ndecor = r.irange(1, 6);
  PointOpts po; po.ndim = ndim; po.n = r.irange(15, c.thorough() ? 120 : 40); po.nvar = nvar; po.hetero = r.coin(0.3);
  s.din0.reset(makePoints(r, po, pin));
  s.same = true;
  int nbpoly = r.irange(4, 12);
  {
    std::unique_ptr<AnamHermite> an(AnamHermite::create(nbpoly));
    VectorDouble z = s.din0->getColumn("z1", true);
    VectorDouble zz;
    for (int i = 0; i < (int)z.size(); i++)
      if (!FFFF(z[i])) zz.push_back(z[i]);
    if (an->fitFromArray(zz) != 0) throw SkipCase{"anam-fit-failed"};
    s.anam0 = std::move(an);
  }
  s.calc = which;
  Expect e;
  NamingConvention nc = makeNamconv(r, r.pick(std::vector<std::string>{"Y", "G", "i_plain0"}), e);
  s.sig = fmt("ndim=%d:nvar=%d:nbpoly=%d:floc=%d", ndim, nvar, nbpoly, (int)e.flagLocator);
  s.valid.label = "valid";
  Adder add{s, e};
  auto discrete = []() { return AnamDiscreteDD::create(); };
  if (which == "rawToGaussianByLocator")
  {
    // doc (AAnam.cpp): "Process the variable(s) stored with locator Z" — one new column per Z variable
    e.newOut = nvar;
    s.valid.fn = [=](World& w) { return w.anam->rawToGaussianByLocator(w.in(), nc); };
    add.e = e;
    add("db-no-Z", [=](World& w) { return w.anam->rawToGaussianByLocator(w.in(), nc); }, [](World& w) { w.in()->clearLocators(ELoc::Z); });
    add("null-db", [=](World& w) { return w.anam->rawToGaussianByLocator(nullptr, nc); });
    add("anam-not-continuous", [=](World& w) { std::unique_ptr<AAnam> a(discrete()); return a->rawToGaussianByLocator(w.in(), nc); });
  }
  else if (which == "rawToGaussian" || which == "gaussianToRaw" || which == "normalScore")
  {
    // one named variable -> one new column
    String name = "z" + std::to_string(r.irange(1, nvar));
    e.newOut = 1;
    // These entry points first make the named variable THE Z variable (AAnam.cpp: db->setLocator(name, ELoc::Z, 0,
    // true)). Neither the header nor the source documents what happens to the Z roles on SUCCESS and the property's
    // success clause speaks of values and names only: Z roles are therefore NOT asserted on the success path of this
    // family. On the FAILURE path ("no changed roles") they are.
    e.anyLoc.push_back(ELoc::Z.getValue());
    auto f = [=](AAnam* a, Db* db, const String& nm) {
      if (which == "rawToGaussian") return a->rawToGaussian(db, nm, nc);
      if (which == "gaussianToRaw") return a->gaussianToRaw(db, nm, nc);
      return a->normalScore(db, nm, nc);
    };
    s.valid.fn = [=](World& w) { return f(w.anam.get(), w.in(), name); };
    add.e = e;
    add("unknown-name", [=](World& w) { return f(w.anam.get(), w.in(), "no_such_column"); }, [](World& w) { w.in()->clearLocators(ELoc::Z); });
    add("null-db", [=](World& w) { return f(w.anam.get(), nullptr, name); });
    add("anam-not-continuous", [=](World& w) { std::unique_ptr<AAnam> a(discrete()); return f(a.get(), w.in(), name); });
  }
  else // rawToFactor
  {
    // doc (AAnam.cpp rawToFactor): "Calculate the factors corresponding to an input data vector ... nfactor Number of
    // first factors" — nfactor new columns
    int nfac = r.irange(1, std::min(4, nbpoly - 1));
    e.newOut = nfac;
    s.sig += fmt(":nfac=%d", nfac);
    s.valid.fn = [=](World& w) { return w.anam->rawToFactor(w.in(), nfac, nc); };
    add.e = e;
    add("nfactor-too-large", [=](World& w) { return w.anam->rawToFactor(w.in(), nbpoly + 5, nc); });
    add("rank-zero", [=](World& w) { return w.anam->rawToFactorByRanks(w.in(), VectorInt({0, 1}), nc); });
    add("db-no-Z", [=](World& w) { return w.anam->rawToFactor(w.in(), nfac, nc); }, [](World& w) { w.in()->clearLocators(ELoc::Z); });
    add("two-Z", [=](World& w) { return w.anam->rawToFactor(w.in(), nfac, nc); },
        [](World& w) { w.in()->setLocator("i_early", ELoc::Z, 1); });
    add("null-db", [=](World& w) { return w.anam->rawToFactor(nullptr, nfac, nc); });
  }
  s.valid.exp = e;
}


// ------------------------------------------------------------------------------------------------
// Scenario: krigcell / kribayes / krigprof / kriggam (CalcKriging with options)
// ------------------------------------------------------------------------------------------------
static void scenKrigingOptions(Rng& r, Ctx& c, Scen& s, const std::string& which)
{
  int ndim = r.pick(std::vector<int>{1, 2, 2, 3});
  int nvar = (which == "krigprof" || which == "kriggam") ? 1 : (r.coin(0.3) ? 2 : 1);
  defineDefaultSpace(ESpaceType::RN, ndim);
  bool outGrid = which == "krigcell" ? true : r.coin(0.6);
  bool moving  = which == "kribayes" ? false : r.coin(0.5);
  int drift    = which == "kribayes" ? r.irange(0, 1) : (which == "kriggam" ? -1 : r.irange(-1, 1));
  int n        = r.irange(8, c.thorough() ? 60 : 24);
  Prior pin;  pin.tag = "i_"; pin.ndecor = r.irange(1, 5);
  Prior pout; pout.tag = "o_"; pout.ndecor = r.irange(1, 5);
  pin.avoid.push_back(ELoc::NOSTAT.getValue());
  if (!outGrid) pout.avoid.push_back(ELoc::NOSTAT.getValue());
  if (which == "krigcell") pout.avoid.push_back(ELoc::BLEX.getValue());
  PointOpts po; po.ndim = ndim; po.n = n; po.nvar = nvar;
  if (which == "krigprof") { po.code = true; po.verr = true; }
  // kribayes with a selection on the input Db aborts in KrigingSystem::_bayesPreCalculations (_nbgh indexed by the
  // absolute sample rank: a C05 matter, side finding): only a quarter of the kribayes cases carry a selection so that
  // the others run to the end.
  if (which == "kribayes") pin.sel = !AVOID_KRIBAYES_SELECTION && r.coin(0.25);
  s.din0.reset(makePoints(r, po, pin));
  if (outGrid)
  {
    GridOpts go; go.ndim = ndim; go.nx = gridShape(r, ndim, c.thorough() ? 80 : 30); go.nz = r.irange(0, 2);
    go.forceNostat = r.coin(0.2);
    DbGrid* g = makeGrid(r, go, pout);
    if (which == "krigcell")
      for (int d = 0; d < ndim; d++)
      {
        VectorDouble v(g->getSampleNumber());
        for (int k = 0; k < (int)v.size(); k++) v[k] = g->getDX(d) * r.uni(0.5, 1.5);
        g->addColumns(v, "blex" + std::to_string(d + 1), ELoc::BLEX, d);
      }
    s.dout0.reset(g);
  }
  else
  {
    PointOpts qo; qo.ndim = ndim; qo.n = r.irange(3, c.thorough() ? 40 : 15); qo.nvar = r.irange(0, 2);
    s.dout0.reset(makePoints(r, qo, pout, "t"));
  }
  ModelOpts mo; mo.ndim = ndim; mo.nvar = nvar; mo.drift = drift;
  s.model0.reset(makeModel(r, mo));
  if (which == "kriggam")
  {
    // KrigingSystem::setKrigOptAnamophosis: "This procedure requires the Sill of the Model to be smaller than 1"
    SpaceRN sp(ndim);
    s.model0.reset(Model::createFromParam(ECov::SPHERICAL, r.uni(20, 60), r.uni(0.5, 0.95), 1., VectorDouble(), VectorDouble(),
                                          VectorDouble(), &sp));
    std::unique_ptr<AnamHermite> an(AnamHermite::create(r.irange(4, 10)));
    VectorDouble z = s.din0->getColumn("z1", true);
    if (an->fitFromArray(z) != 0) throw SkipCase{"anam-fit-failed"};
    s.anam0 = std::move(an);
  }
  NeighOpts no; no.ndim = ndim; no.moving = moving; no.nmaxi = r.irange(4, 12); no.nmini = 1; no.radius = r.uni(40, 150);
  s.mkNeigh = neighMaker(no);
  s.calc = which;
  Expect e;
  NamingConvention nc = makeNamconv(r, r.pick(std::vector<std::string>{"K", "Res", "o_plain0"}), e);
  bool fe = r.coin(0.8), fs = r.coin(0.7);
  if (!fe && !fs) fe = true;
  if (which == "kriggam") fe = fs = true; // kriggam always stores both (CalcKriging krige(true, true, false))
  e.newOut = nvar * ((int)fe + (int)fs);
  if (fe) e.qual.push_back({"estim", nvar});
  if (fs) e.qual.push_back({"stdev", nvar});
  s.sig = fmt("ndim=%d:nvar=%d:out=%s:neigh=%s:drift=%d:est=%d:std=%d:floc=%d", ndim, nvar, outGrid ? "grid" : "points",
              moving ? "moving" : "unique", drift, (int)fe, (int)fs, (int)e.flagLocator);
  s.valid.label = "valid";
  s.valid.exp   = e;
  Adder add{s, e};
  auto wrongModel = [=](int dn, int dv) {
    ModelOpts m2 = mo; m2.ndim = dn; m2.nvar = dv; Rng rr(7); return std::unique_ptr<Model>(makeModel(rr, m2)); };
  if (which == "krigcell")
  {
    // doc (CalcKriging.cpp krigcell): "Standard Block Kriging with variable cell dimension ... ndiscs Array giving the
    // discretization counts; flag_est / flag_std Option for the storing the estimation / the standard deviation"
    VectorInt nd(ndim, 2);
    auto f = [=](Db* a, Db* b, Model* m, ANeigh* ng, const VectorInt& ndiscs) { return krigcell(a, b, m, ng, fe, fs, ndiscs, VectorInt(), nc); };
    s.valid.fn = [=](World& w) { return f(w.in(), w.out(), w.model.get(), w.neigh.get(), nd); };
    add("no-ndiscs", [=](World& w) { return f(w.in(), w.out(), w.model.get(), w.neigh.get(), VectorInt()); }); // refused in _run
    add("dbout-points", [=](World& w) { return f(w.in(), w.out(), w.model.get(), w.neigh.get(), nd); },
        [=](World& w) { Rng rr(11); Prior pp; pp.tag = "q_"; PointOpts qo; qo.ndim = ndim; qo.n = 5; qo.nvar = 0;
                        w.dout.reset(makePoints(rr, qo, pp)); });                                         // refused in _run
    add("model-nvar", [=](World& w) { auto m = wrongModel(ndim, nvar + 1); return f(w.in(), w.out(), m.get(), w.neigh.get(), nd); });
    add("null-neigh", [=](World& w) { return f(w.in(), w.out(), w.model.get(), nullptr, nd); });
  }
  else if (which == "kribayes")
  {
    // doc (kribayes): "Estimation with Bayesian Drift ... prior_mean Array giving the prior means for the drift terms;
    // prior_cov Array containing the prior covariance matrix for the drift terms"
    auto f = [=](Db* a, Db* b, Model* m, ANeigh* ng, const VectorDouble& pm) {
      return kribayes(a, b, m, ng, pm, MatrixSquareSymmetric(), fe, fs, nc); };
    s.valid.fn = [=](World& w) { return f(w.in(), w.out(), w.model.get(), w.neigh.get(), VectorDouble()); };
    add("prior-mean-size", [=](World& w) { return f(w.in(), w.out(), w.model.get(), w.neigh.get(), VectorDouble(17, 1.)); });
    add("moving-neigh", [=](World& w) { NeighOpts n2 = no; n2.moving = true; std::unique_ptr<ANeigh> ng(neighMaker(n2)());
                                         return f(w.in(), w.out(), w.model.get(), ng.get(), VectorDouble()); });
    add("model-ndim", [=](World& w) { auto m = wrongModel(otherDim(ndim), nvar); return f(w.in(), w.out(), m.get(), w.neigh.get(), VectorDouble()); });
    add("null-dbout", [=](World& w) { return f(w.in(), nullptr, w.model.get(), w.neigh.get(), VectorDouble()); });
  }
  else if (which == "krigprof")
  {
    // doc (krigprof): "Punctual Kriging based on profiles"; KrigingSystem::setKrigoptCode: "This method requires
    // variables CODE and V to be defined"
    auto f = [=](Db* a, Db* b, Model* m, ANeigh* ng) { return krigprof(a, b, m, ng, fe, fs, nc); };
    s.valid.fn = [=](World& w) { return f(w.in(), w.out(), w.model.get(), w.neigh.get()); };
    add("no-code", [=](World& w) { return f(w.in(), w.out(), w.model.get(), w.neigh.get()); },
        [](World& w) { w.in()->clearLocators(ELoc::C); });                                                 // refused in _run
    add("no-verr", [=](World& w) { return f(w.in(), w.out(), w.model.get(), w.neigh.get()); },
        [](World& w) { w.in()->clearLocators(ELoc::V); });                                                 // refused in _run
    add("model-nvar", [=](World& w) { auto m = wrongModel(ndim, nvar + 1); return f(w.in(), w.out(), m.get(), w.neigh.get()); });
    add("null-model", [=](World& w) { return f(w.in(), w.out(), nullptr, w.neigh.get()); });
  }
  else
  {
    // doc (kriggam): "Punctual Kriging in the Anamorphosed Gaussian Model"
    auto f = [=](Db* a, Db* b, Model* m, ANeigh* ng, AAnam* an) { return kriggam(a, b, m, ng, an, nc); };
    s.valid.fn = [=](World& w) { return f(w.in(), w.out(), w.model.get(), w.neigh.get(), w.anam.get()); };
    add("sill-above-one", [=](World& w) { auto m = wrongModel(ndim, 1); return f(w.in(), w.out(), m.get(), w.neigh.get(), w.anam.get()); }); // refused in _run
    add("two-variables", [=](World& w) { auto m = wrongModel(ndim, 2); return f(w.in(), w.out(), m.get(), w.neigh.get(), w.anam.get()); },
        [](World& w) { w.in()->setLocator("i_early", ELoc::Z, 1); });
    if (!AVOID_KRIGGAM_NULL_ANAM)
      add("null-anam", [=](World& w) { return f(w.in(), w.out(), w.model.get(), w.neigh.get(), nullptr); }, nullptr, true);
    add("neigh-ndim", [=](World& w) { NeighOpts n2 = no; n2.ndim = otherDim(ndim); std::unique_ptr<ANeigh> ng(neighMaker(n2)());
                                       return f(w.in(), w.out(), w.model.get(), ng.get(), w.anam.get()); });
  }
}


// ------------------------------------------------------------------------------------------------
// Scenario: simbayes / simfft
// ------------------------------------------------------------------------------------------------
static void scenSimOther(Rng& r, Ctx& c, Scen& s, const std::string& which)
{
  int ndim = r.pick(std::vector<int>{1, 2, 2, 3});
  defineDefaultSpace(ESpaceType::RN, ndim);
  Prior pin;  pin.tag = "i_"; pin.ndecor = r.irange(1, 5); pin.avoid.push_back(ELoc::NOSTAT.getValue());
  Prior pout; pout.tag = "o_"; pout.ndecor = r.irange(1, 5);
  int nbsimu = r.irange(1, 3), seed = r.irange(1, 100000);
  Expect e;
  NamingConvention nc = makeNamconv(r, r.pick(std::vector<std::string>{"Sim", "S", "o_plain0"}), e);
  e.anyLoc.push_back(ELoc::SIMU.getValue());
  s.calc = which;
  s.valid.label = "valid";
  if (which == "simbayes")
  {
    // doc (simbayes): "Perform the conditional or non-conditional simulation with Bayesian Drift"
    int nvar = 1;
    bool outGrid = r.coin(0.6);
    if (!outGrid) pout.avoid.push_back(ELoc::NOSTAT.getValue());
    PointOpts po; po.ndim = ndim; po.n = r.irange(8, c.thorough() ? 50 : 20); po.nvar = nvar;
    pin.sel = !AVOID_KRIBAYES_SELECTION && r.coin(0.25);
    s.din0.reset(makePoints(r, po, pin));
    if (outGrid) { GridOpts go; go.ndim = ndim; go.nx = gridShape(r, ndim, c.thorough() ? 80 : 30); go.nz = r.irange(0, 1); go.forceNostat = r.coin(0.2); s.dout0.reset(makeGrid(r, go, pout)); }
    else { PointOpts qo; qo.ndim = ndim; qo.n = r.irange(3, 15); qo.nvar = r.irange(0, 1); s.dout0.reset(makePoints(r, qo, pout, "t")); }
    ModelOpts mo; mo.ndim = ndim; mo.nvar = nvar; mo.drift = r.irange(0, 1);
    s.model0.reset(makeModel(r, mo));
    NeighOpts no; no.ndim = ndim; no.moving = false;
    s.mkNeigh = neighMaker(no);
    int nbtuba = r.irange(5, 20);
    e.newOut = nvar * nbsimu;
    s.sig = fmt("ndim=%d:out=%s:drift=%d:nbsimu=%d:sel=%d:floc=%d", ndim, outGrid ? "grid" : "points", mo.drift, nbsimu, (int)pin.sel, (int)e.flagLocator);
    auto f = [=](Db* a, Db* b, Model* m, ANeigh* ng, int nbs, const VectorDouble& dm) {
      return simbayes(a, b, m, ng, nbs, seed, dm, MatrixSquareSymmetric(), nbtuba, false, nc); };
    s.valid.fn = [=](World& w) { return f(w.in(), w.out(), w.model.get(), w.neigh.get(), nbsimu, VectorDouble()); };
    Adder add{s, e};
    add("nbsimu-zero", [=](World& w) { return f(w.in(), w.out(), w.model.get(), w.neigh.get(), 0, VectorDouble()); });
    add("moving-neigh", [=](World& w) { NeighOpts n2 = no; n2.moving = true; std::unique_ptr<ANeigh> ng(neighMaker(n2)());
                                         return f(w.in(), w.out(), w.model.get(), ng.get(), nbsimu, VectorDouble()); });
    add("prior-mean-size", [=](World& w) { return f(w.in(), w.out(), w.model.get(), w.neigh.get(), nbsimu, VectorDouble(17, 0.)); });
    add("null-dbout", [=](World& w) { return f(w.in(), nullptr, w.model.get(), w.neigh.get(), nbsimu, VectorDouble()); });
    add("model-ndim", [=](World& w) { ModelOpts m2 = mo; m2.ndim = otherDim(ndim); Rng rr(7); std::unique_ptr<Model> m(makeModel(rr, m2));
                                       return f(w.in(), w.out(), m.get(), w.neigh.get(), nbsimu, VectorDouble()); });
  }
  else
  {
    // doc (CalcSimuFFT.cpp simfft): "db Db structure; model; param SimuFFTParam; nbsimu Number of simulations" — the
    // grid is input and output; monovariate ("The FFT method is limited to the Monovariate case")
    s.same = true;
    GridOpts go; go.ndim = ndim; go.nx = gridShape(r, ndim, c.thorough() ? 100 : 36); go.nz = r.irange(0, 2);
    pin.tag = "o_";
    s.din0.reset(makeGrid(r, go, pin));
    ModelOpts mo; mo.ndim = ndim; mo.nvar = 1; mo.drift = -1;
    s.model0.reset(makeModel(r, mo));
    e.newOut = nbsimu;
    s.sig = fmt("ndim=%d:nbsimu=%d:floc=%d", ndim, nbsimu, (int)e.flagLocator);
    auto f = [=](Db* g, Model* m, int nbs) { SimuFFTParam prm; return simfft(dynamic_cast<DbGrid*>(g), m, prm, nbs, seed, 0, nc); };
    s.valid.fn = [=](World& w) { return f(w.in(), w.model.get(), nbsimu); };
    Adder add{s, e};
    add("nbsimu-zero", [=](World& w) { return f(w.in(), w.model.get(), 0); });
    add("bivariate-model", [=](World& w) { ModelOpts m2 = mo; m2.nvar = 2; Rng rr(7); std::unique_ptr<Model> m(makeModel(rr, m2));
                                            return f(w.in(), m.get(), nbsimu); });
    // simfft never compares the dimension of the grid with the one of the model: CalcSimuFFT::_gridDilate then loops for
    // ever (distance always 0). A hang costs a watchdog period per case: this variant is OFF by default (see report).
    if (!AVOID_SIMFFT_MODEL_NDIM)
      add("model-ndim", [=](World& w) { ModelOpts m2 = mo; m2.ndim = otherDim(ndim); Rng rr(7); std::unique_ptr<Model> m(makeModel(rr, m2));
                                         return f(w.in(), m.get(), nbsimu); }, nullptr, true);
    add("null-model", [=](World& w) { return f(w.in(), nullptr, nbsimu); });
    add("null-grid", [=](World& w) { return f(nullptr, w.model.get(), nbsimu); });
  }
  s.valid.exp = e;
}

// ------------------------------------------------------------------------------------------------
// Scenario: ConditionalExpectation / UniformConditioning / DisjunctiveKriging (CalcAnamTransform) and PCA dbZ2F/dbF2Z
// ------------------------------------------------------------------------------------------------
static void scenRecovery(Rng& r, Ctx& c, Scen& s, const std::string& which)
{
  int ndim = r.pick(std::vector<int>{1, 2, 3});
  defineDefaultSpace(ESpaceType::RN, ndim);
  Prior pin; pin.tag = "i_"; pin.ndecor = r.irange(1, 6);
  int n = r.irange(15, c.thorough() ? 100 : 35);
  s.same = true;
  s.calc = which;
  s.valid.label = "valid";
  Expect e;
  if (which == "dbZ2F" || which == "dbF2Z")
  {
    // doc (PCA.hpp): dbZ2F(db, verbose, namconv = NamingConvention("F", false)) / dbF2Z(... "Z", false): one factor
    // (resp. variable) per Z variable of the Db
    int nvar = r.irange(2, 4);
    PointOpts po; po.ndim = ndim; po.n = n; po.nvar = nvar; po.hetero = r.coin(0.3);
    s.din0.reset(makePoints(r, po, pin));
    auto pca = std::make_shared<PCA>();
    {
      std::unique_ptr<Db> tmp(s.din0->clone());
      if (pca->pca_compute(tmp.get(), false) != 0) throw SkipCase{"pca-compute-failed"};
    }
    bool fl = !r.coin(0.33);
    e.flagLocator = fl; e.outLoc = ELoc::Z.getValue();
    NamingConvention nc(r.pick(std::vector<std::string>{"F", "i_plain0"}), false, true, fl, ELoc::Z);
    e.newOut = nvar;
    s.sig = fmt("ndim=%d:nvar=%d:floc=%d", ndim, nvar, (int)fl);
    bool z2f = which == "dbZ2F";
    auto f = [=](Db* db) { return z2f ? pca->dbZ2F(db, false, nc) : pca->dbF2Z(db, false, nc); };
    s.valid.fn = [=](World& w) { return f(w.in()); };
    Adder add{s, e};
    add("nvar-mismatch", [=](World& w) { return f(w.in()); }, [](World& w) { w.in()->setLocator("i_early", ELoc::Z, -1); });
    add("db-no-Z", [=](World& w) { return f(w.in()); }, [](World& w) { w.in()->clearLocators(ELoc::Z); });
    add("null-db", [=](World& w) { return f(nullptr); });
    add("pca-not-computed", [=](World& w) { PCA p2; return z2f ? p2.dbZ2F(w.in(), false, nc) : p2.dbF2Z(w.in(), false, nc); });
    s.valid.exp = e;
    return;
  }
  // Db with a raw variable (Z), Gaussian-scale estimate / st.dev. columns, raw-scale estimate / variance columns
  PointOpts po; po.ndim = ndim; po.n = n; po.nvar = 1;
  Db* db = makePoints(r, po, pin);
  s.din0.reset(db);
  auto addcol = [&](const std::string& name, double lo, double hi) {
    VectorDouble v(n);
    for (int k = 0; k < n; k++) v[k] = r.coin(0.05) ? TEST : r.uni(lo, hi);
    db->addColumns(v, name, ELoc::UNKNOWN);
  };
  addcol("g_est", -1.5, 1.5);
  addcol("g_std", 0.1, 0.9);
  addcol("z_est", 0.5, 4.);
  addcol("z_var", 0.05, 0.6);
  int nfac = r.irange(1, 3);
  VectorString fe, fs;
  for (int i = 0; i < nfac; i++)
  {
    addcol("f_est" + std::to_string(i + 1), -1., 1.);
    addcol("f_std" + std::to_string(i + 1), 0.1, 0.9);
    fe.push_back("f_est" + std::to_string(i + 1));
    fs.push_back("f_std" + std::to_string(i + 1));
  }
  int nbpoly = r.irange(5, 12);
  {
    std::unique_ptr<AnamHermite> an(AnamHermite::create(nbpoly, true, which == "UniformConditioning" ? r.uni(0.6, 0.95) : 1.));
    VectorDouble z = db->getColumn("z1", true);
    if (an->fitFromArray(z) != 0) throw SkipCase{"anam-fit-failed"};
    s.anam0 = std::move(an);
  }
  VectorDouble zcuts;
  int ncut = r.irange(1, 3);
  for (int i = 0; i < ncut; i++) zcuts.push_back(0.5 + i * 0.8 + r.uni(0, 0.3));
  VectorString keys = which == "UniformConditioning" ? VectorString({"T", "Q"}) :
                      (r.coin(0.5) ? VectorString({"T", "Q"}) : VectorString({"Z", "T", "Q", "M"}));
  auto sel = std::shared_ptr<Selectivity>(Selectivity::createByKeys(keys, zcuts, true, r.coin(0.5)));
  bool fl = !r.coin(0.33);
  e.flagLocator = fl; e.outLoc = ELoc::Z.getValue();
  NamingConvention nc(r.pick(std::vector<std::string>{"Rec", "i_plain0"}), false, true, fl, ELoc::Z);
  // doc (Selectivity.cpp getVariableNames): one variable per recovery function, per cut-off when "multiplied", for the
  // estimate and (when requested) the st. dev.: Selectivity::getVariableNumber() columns
  e.newOut = sel->getVariableNumber();
  s.sig = fmt("ndim=%d:nbpoly=%d:ncut=%d:nkeys=%d:nsel=%d:nfac=%d:floc=%d", ndim, nbpoly, ncut, (int)keys.size(), e.newOut, nfac, (int)fl);
  Adder add{s, e};
  auto noZcut = std::shared_ptr<Selectivity>(Selectivity::createByKeys({"T"}, VectorDouble(), true, false));
  if (which == "ConditionalExpectation")
  {
    bool ok = r.coin(0.3);
    auto f = [=](Db* d, AAnam* a, Selectivity* sl, const String& ne, const String& ns) {
      return ConditionalExpectation(d, a, sl, ne, ns, ok, TEST, 0, nc); };
    s.valid.fn = [=](World& w) { return f(w.in(), w.anam.get(), sel.get(), "g_est", "g_std"); };
    add("unknown-estimate", [=](World& w) { return f(w.in(), w.anam.get(), sel.get(), "no_such_column", "g_std"); });
    add("unknown-stdev", [=](World& w) { return f(w.in(), w.anam.get(), sel.get(), "g_est", "no_such_column"); });
    add("no-cutoff", [=](World& w) { return f(w.in(), w.anam.get(), noZcut.get(), "g_est", "g_std"); });
    add("anam-not-hermite", [=](World& w) { std::unique_ptr<AAnam> a(AnamDiscreteDD::create()); return f(w.in(), a.get(), sel.get(), "g_est", "g_std"); });
    add("db-no-Z", [=](World& w) { return f(w.in(), w.anam.get(), sel.get(), "g_est", "g_std"); }, [](World& w) { w.in()->clearLocators(ELoc::Z); });
    add("null-anam", [=](World& w) { return f(w.in(), nullptr, sel.get(), "g_est", "g_std"); });
  }
  else if (which == "UniformConditioning")
  {
    auto f = [=](Db* d, AAnam* a, Selectivity* sl, const String& ne, const String& nv) { return UniformConditioning(d, a, sl, ne, nv, nc); };
    s.valid.fn = [=](World& w) { return f(w.in(), w.anam.get(), sel.get(), "z_est", "z_var"); };
    auto selZ = std::shared_ptr<Selectivity>(Selectivity::createByKeys({"Z", "T"}, zcuts, true, false));
    add("unknown-estimate", [=](World& w) { return f(w.in(), w.anam.get(), sel.get(), "no_such_column", "z_var"); });
    add("recovery-Z", [=](World& w) { return f(w.in(), w.anam.get(), selZ.get(), "z_est", "z_var"); });
    add("no-cutoff", [=](World& w) { return f(w.in(), w.anam.get(), noZcut.get(), "z_est", "z_var"); });
    add("anam-not-hermite", [=](World& w) { std::unique_ptr<AAnam> a(AnamDiscreteDD::create()); return f(w.in(), a.get(), sel.get(), "z_est", "z_var"); });
    add("db-no-Z", [=](World& w) { return f(w.in(), w.anam.get(), sel.get(), "z_est", "z_var"); }, [](World& w) { w.in()->clearLocators(ELoc::Z); });
  }
  else
  {
    auto f = [=](Db* d, AAnam* a, Selectivity* sl, const VectorString& ne, const VectorString& ns) { return DisjunctiveKriging(d, a, sl, ne, ns, nc); };
    s.valid.fn = [=](World& w) { return f(w.in(), w.anam.get(), sel.get(), fe, fs); };
    add("no-estimates", [=](World& w) { return f(w.in(), w.anam.get(), sel.get(), VectorString(), fs); });
    add("no-stdevs", [=](World& w) { return f(w.in(), w.anam.get(), sel.get(), fe, VectorString()); });
    add("no-cutoff", [=](World& w) { return f(w.in(), w.anam.get(), noZcut.get(), fe, fs); });
    add("anam-not-hermite", [=](World& w) { std::unique_ptr<AAnam> a(AnamDiscreteDD::create()); return f(w.in(), a.get(), sel.get(), fe, fs); });
    add("db-no-Z", [=](World& w) { return f(w.in(), w.anam.get(), sel.get(), fe, fs); }, [](World& w) { w.in()->clearLocators(ELoc::Z); });
  }
  s.valid.exp = e;
}


// ------------------------------------------------------------------------------------------------
// Scenario: dbg2gCopy / dbg2gExpand / dbg2gShrink (CalcGridToGrid)
// ------------------------------------------------------------------------------------------------
static void scenGridToGrid(Rng& r, Ctx& c, Scen& s, const std::string& which)
{
  // doc (CalcGridToGrid.cpp _check): "Both Files are compulsory as Grid", "The two Grids do not share the same common
  // dimensions", "This application requires 1 variable(s) to be defined"; Copy: same space dimension; Expand: dbout of
  // larger dimension; Shrink: dbout of smaller dimension. One output column.
  int ndimIn  = which == "dbg2gCopy" ? r.irange(1, 3) : (which == "dbg2gExpand" ? r.irange(1, 2) : r.irange(2, 3));
  int ndimOut = which == "dbg2gCopy" ? ndimIn : (which == "dbg2gExpand" ? ndimIn + 1 : ndimIn - 1);
  int ndimMax = std::max(ndimIn, ndimOut);
  defineDefaultSpace(ESpaceType::RN, ndimMax);
  std::vector<int> nx = gridShape(r, ndimMax, c.thorough() ? 100 : 40);
  Prior pin;  pin.tag = "i_"; pin.ndecor = r.irange(1, 5);
  Prior pout; pout.tag = "o_"; pout.ndecor = r.irange(1, 5);
  GridOpts gi; gi.ndim = ndimIn;  gi.nx.assign(nx.begin(), nx.begin() + ndimIn);  gi.nz = 1; gi.box = 100.;
  GridOpts go; go.ndim = ndimOut; go.nx.assign(nx.begin(), nx.begin() + ndimOut); go.nz = r.irange(which == "dbg2gShrink" ? 1 : 0, 2);
  // common dimensions must share nx, dx, x0: makeGrid derives dx = box / nx and x0 = dx / 2 per dimension
  s.din0.reset(makeGrid(r, gi, pin));
  s.dout0.reset(makeGrid(r, go, pout));
  s.calc = which;
  Expect e;
  NamingConvention nc = makeNamconv(r, r.pick(std::vector<std::string>{"G2G", "o_plain0"}), e);
  if (which == "dbg2gExpand") { e.flagLocator = true; e.outLoc = ELoc::Z.getValue(); } // dbg2gExpand ignores namconv (DECLARE_UNUSED): default convention
  e.newOut = 1;
  s.sig = fmt("ndimIn=%d:ndimOut=%d:floc=%d", ndimIn, ndimOut, (int)e.flagLocator);
  s.valid.label = "valid";
  s.valid.exp = e;
  auto f = [=](Db* a, Db* b) {
    DbGrid* ga = dynamic_cast<DbGrid*>(a); DbGrid* gb = dynamic_cast<DbGrid*>(b);
    if (which == "dbg2gCopy") return dbg2gCopy(ga, gb, nc);
    if (which == "dbg2gExpand") return dbg2gExpand(ga, gb, nc);
    return dbg2gShrink(ga, gb, nc);
  };
  s.valid.fn = [=](World& w) { return f(w.in(), w.out()); };
  Adder add{s, e};
  add("dbin-no-Z", [=](World& w) { return f(w.in(), w.out()); }, [](World& w) { w.in()->clearLocators(ELoc::Z); });
  add("dbin-two-Z", [=](World& w) { return f(w.in(), w.out()); }, [](World& w) { w.in()->setLocator("i_early", ELoc::Z, 1); });
  add("null-dbout", [=](World& w) { return f(w.in(), nullptr); });
  add("grids-differ", [=](World& w) { return f(w.in(), w.out()); },
      [=](World& w) { Rng rr(11); Prior pp; pp.tag = "q_"; GridOpts g2 = go; g2.nx[0] += 1; w.dout.reset(makeGrid(rr, g2, pp)); });
  if (which != "dbg2gCopy")
    add("wrong-direction", [=](World& w) { return f(w.in(), w.out()); },
        [](World& w) { // the two grids exchanged (the former output grid gets exactly one Z variable)
          std::swap(w.din, w.dout);
          w.in()->clearLocators(ELoc::Z);
          w.in()->setLocator("o_early", ELoc::Z, 0); });
}


// ------------------------------------------------------------------------------------------------
// Scenario: simpgs (pluri-Gaussian simulation; legacy entry point that runs CalcSimuTurningBands inside)
// ------------------------------------------------------------------------------------------------
static void scenSimpgs(Rng& r, Ctx& c, Scen& s)
{
  int ndim = r.pick(std::vector<int>{2, 2, 3});
  defineDefaultSpace(ESpaceType::RN, ndim);
  bool cond = r.coin(0.5);
  int ngrf  = r.coin(0.5) ? 2 : 1;
  int nfac  = 3;
  int nbsimu = r.irange(1, 2), seed = r.irange(1, 100000), nbtuba = r.irange(5, 15);
  bool outGrid = r.coin(0.7);
  Prior pin;  pin.tag = "i_"; pin.ndecor = r.irange(1, 5);
  Prior pout; pout.tag = "o_"; pout.ndecor = r.irange(1, 5);
  // locators this entry point works with (it creates FACIES / GAUSFAC / SIMU / L / U / P columns and deletes "by
  // locator" at the end): documented as the working roles of the PGS -> not used as decoration here
  for (const char* k : {"NOSTAT", "FACIES", "GAUSFAC", "SIMU", "L", "U", "P"})
  { pin.avoid.push_back(ELoc::fromKey(k).getValue()); pout.avoid.push_back(ELoc::fromKey(k).getValue()); }
  if (cond)
  {
    PointOpts po; po.ndim = ndim; po.n = r.irange(6, c.thorough() ? 30 : 14); po.nvar = 0;
    Db* d = makePoints(r, po, pin);
    VectorDouble f(po.n);
    for (int k = 0; k < po.n; k++) f[k] = (double)r.irange(1, nfac);
    d->addColumns(f, "facies", ELoc::Z, 0);
    s.din0.reset(d);
  }
  if (outGrid) { GridOpts go; go.ndim = ndim; go.nx = gridShape(r, ndim, c.thorough() ? 60 : 25); go.nz = r.irange(0, 1); s.dout0.reset(makeGrid(r, go, pout)); }
  else { PointOpts qo; qo.ndim = ndim; qo.n = r.irange(3, 12); qo.nvar = r.irange(0, 1); s.dout0.reset(makePoints(r, qo, pout, "t")); }
  ModelOpts mo; mo.ndim = ndim; mo.nvar = 1; mo.drift = -1;
  s.model0.reset(makeModel(r, mo));
  auto model2 = std::shared_ptr<Model>(makeModel(r, mo));
  NeighOpts no; no.ndim = ndim; no.moving = false;
  if (cond) s.mkNeigh = neighMaker(no);
  auto rule = std::shared_ptr<Rule>(ngrf == 2 ? Rule::createFromNames({"S", "T", "F1", "F2", "F3"}) : Rule::createFromNames({"S", "S", "F1", "F2", "F3"}));
  VectorDouble props({0.2, 0.5, 0.3});
  auto rp = std::shared_ptr<RuleProp>(RuleProp::createFromRule(rule.get(), props));
  bool fl = !r.coin(0.33);
  Expect e;
  e.flagLocator = fl; e.outLoc = ELoc::FACIES.getValue();
  NamingConvention nc(r.pick(std::vector<std::string>{"Facies", "o_plain0"}), true, true, fl, ELoc::FACIES);
  // doc (simtub.cpp simpgs): "nbsimu Number of simulations", "flag_gaus 1 if results must be gaussian; otherwise
  // facies", "flag_prop 1 for facies proportion" — with both flags off: one facies column per simulation in dbout
  e.newOut = nbsimu;
  s.calc = cond ? "simpgs-cond" : "simpgs-nc";
  s.sig = fmt("ndim=%d:ngrf=%d:out=%s:nbsimu=%d:floc=%d", ndim, ngrf, outGrid ? "grid" : "points", nbsimu, (int)fl);
  s.valid.label = "valid";
  s.valid.exp = e;
  auto f = [=](Db* a, Db* b, RuleProp* rpp, Model* m1, Model* m2, ANeigh* ng, int nbs, int fgaus, int fprop) {
    (void)rule; // RuleProp keeps a pointer to the Rule: keep it alive as long as the calls
    return simpgs(a, b, rpp, m1, m2, ng, nbs, seed, fgaus, fprop, 0, 0, nbtuba, 5, 20, 5., nc); };
  s.valid.fn = [=](World& w) { std::unique_ptr<Model> m2(model2->clone());
                               return f(w.in(), w.out(), rp.get(), w.model.get(), ngrf == 2 ? m2.get() : nullptr, w.neigh.get(), nbsimu, 0, 0); };
  Adder add{s, e};
  add("null-ruleprop", [=](World& w) { return f(w.in(), w.out(), nullptr, w.model.get(), nullptr, w.neigh.get(), nbsimu, 0, 0); });
  add("gaus-and-prop", [=](World& w) { std::unique_ptr<Model> m2(model2->clone());
                                        return f(w.in(), w.out(), rp.get(), w.model.get(), ngrf == 2 ? m2.get() : nullptr, w.neigh.get(), nbsimu, 1, 1); });
  add("model-bivariate", [=](World& w) { ModelOpts m3 = mo; m3.nvar = 2; Rng rr(7); std::unique_ptr<Model> m(makeModel(rr, m3)); std::unique_ptr<Model> m2(model2->clone());
                                          return f(w.in(), w.out(), rp.get(), m.get(), ngrf == 2 ? m2.get() : nullptr, w.neigh.get(), nbsimu, 0, 0); });
  if (ngrf == 2)
    add("second-model-missing", [=](World& w) { return f(w.in(), w.out(), rp.get(), w.model.get(), nullptr, w.neigh.get(), nbsimu, 0, 0); });
  add("nbtuba-zero", [=](World& w) { std::unique_ptr<Model> m2(model2->clone()); (void)rule;
                                      return simpgs(w.in(), w.out(), rp.get(), w.model.get(), ngrf == 2 ? m2.get() : nullptr, w.neigh.get(), nbsimu, seed, 0, 0, 0, 0, 0, 5, 20, 5., nc); });
  if (cond)
  {
    add("moving-neigh", [=](World& w) { NeighOpts n2 = no; n2.moving = true; std::unique_ptr<ANeigh> ng(neighMaker(n2)()); std::unique_ptr<Model> m2(model2->clone());
                                         return f(w.in(), w.out(), rp.get(), w.model.get(), ngrf == 2 ? m2.get() : nullptr, ng.get(), nbsimu, 0, 0); });
    add("two-Z", [=](World& w) { std::unique_ptr<Model> m2(model2->clone());
                                  return f(w.in(), w.out(), rp.get(), w.model.get(), ngrf == 2 ? m2.get() : nullptr, w.neigh.get(), nbsimu, 0, 0); },
        [](World& w) { w.in()->setLocator("i_early", ELoc::Z, 1); });
  }
}


// ------------------------------------------------------------------------------------------------
// Scenario: Discrete Gaussian Model variants (temporary coordinate columns / X roles in the input Db)
//   kriging(calcul = DGM) and simtub(flag_dgm = true)
// ------------------------------------------------------------------------------------------------
static void scenDGM(Rng& r, Ctx& c, Scen& s, const std::string& which)
{
  int ndim = r.pick(std::vector<int>{1, 2, 2, 3});
  defineDefaultSpace(ESpaceType::RN, ndim);
  bool moving = r.coin(0.4);
  Prior pin;  pin.tag = "i_"; pin.ndecor = r.irange(1, 5); pin.avoid.push_back(ELoc::NOSTAT.getValue());
  Prior pout; pout.tag = "o_"; pout.ndecor = r.irange(1, 5);
  PointOpts po; po.ndim = ndim; po.n = r.irange(8, c.thorough() ? 50 : 22); po.nvar = 1;
  // the coordinates of the data are not always called like those of the grid (roles are given back BY NAME after centring)
  po.xname = (c.icase % 2) ? "x" : "east";
  s.din0.reset(makePoints(r, po, pin));
  GridOpts go; go.ndim = ndim; go.nx = gridShape(r, ndim, c.thorough() ? 80 : 30); go.nz = r.irange(0, 2); go.forceNostat = r.coin(0.15);
  s.dout0.reset(makeGrid(r, go, pout));
  // KrigingSystem::setKrigOptDGM: "limited to Stationary Covariances", "Monovariate case", "requires a Model with Total
  // Sill equal to 1."; CalcKriging::_check: "the Model must have an Anamorphosis attached", "DGM option requires a
  // Change of Support to be defined"
  SpaceRN sp(ndim);
  auto mk = [&](double sill, bool withAnam) {
    double nug = r.coin(0.5) ? 0.2 : 0.;
    Model* m = Model::createFromParam(ECov::SPHERICAL, r.uni(20, 60), sill - nug, 1., VectorDouble(), VectorDouble(), VectorDouble(), &sp);
    if (nug > 0) m->addCovFromParam(ECov::NUGGET, 0., nug);
    if (withAnam)
    {
      std::shared_ptr<AnamHermite> an(AnamHermite::create(r.irange(4, 10), true, r.uni(0.6, 0.95)));
      VectorDouble z = s.din0->getColumn("z1", true);
      if (an->fitFromArray(z) != 0) throw SkipCase{"anam-fit-failed"};
      m->setAnam(an.get()); // Model::setAnam keeps the pointer (CovLMCAnamorphosis): the object is kept alive by the scenario
      s.keepAnams.push_back(an);
    }
    return m;
  };
  s.model0.reset(mk(1., true));
  auto badSill = std::shared_ptr<Model>(mk(1.7, true));
  auto noAnam  = std::shared_ptr<Model>(mk(1., false));
  NeighOpts no; no.ndim = ndim; no.moving = moving; no.nmaxi = r.irange(4, 12); no.radius = r.uni(40, 150);
  s.mkNeigh = neighMaker(no);
  Expect e;
  NamingConvention nc = makeNamconv(r, r.pick(std::vector<std::string>{"DGM", "o_plain0"}), e);
  s.calc = which;
  s.valid.label = "valid";
  Adder add{s, e};
  if (which == "kriging-dgm")
  {
    bool fe = r.coin(0.8), fs = r.coin(0.7);
    if (!fe && !fs) fe = true;
    e.newOut = (int)fe + (int)fs;
    if (fe) e.qual.push_back({"estim", 1});
    if (fs) e.qual.push_back({"stdev", 1});
    s.sig = fmt("ndim=%d:neigh=%s:est=%d:std=%d:floc=%d", ndim, moving ? "moving" : "unique", (int)fe, (int)fs, (int)e.flagLocator);
    auto f = [=](Db* a, Db* b, Model* m, ANeigh* ng) { return kriging(a, b, m, ng, EKrigOpt::DGM, fe, fs, false, VectorInt(), VectorInt(), nullptr, nc); };
    s.valid.fn = [=](World& w) { return f(w.in(), w.out(), w.model.get(), w.neigh.get()); };
    add.e = e;
    add("sill-not-one", [=](World& w) { std::unique_ptr<Model> m(badSill->clone()); return f(w.in(), w.out(), m.get(), w.neigh.get()); }); // refused in _run, after the centring
    add("model-without-anam", [=](World& w) { std::unique_ptr<Model> m(noAnam->clone()); return f(w.in(), w.out(), m.get(), w.neigh.get()); });
    add("dbout-points", [=](World& w) { return f(w.in(), w.out(), w.model.get(), w.neigh.get()); },
        [=](World& w) { Rng rr(11); Prior pp; pp.tag = "q_"; PointOpts qo; qo.ndim = ndim; qo.n = 5; qo.nvar = 0; w.dout.reset(makePoints(rr, qo, pp)); });
    add("null-neigh", [=](World& w) { return f(w.in(), w.out(), w.model.get(), nullptr); });
  }
  else
  {
    int nbsimu = r.irange(1, 2), seed = r.irange(1, 100000), nbtuba = r.irange(5, 15);
    e.newOut = nbsimu;
    e.anyLoc.push_back(ELoc::SIMU.getValue());
    s.sig = fmt("ndim=%d:neigh=%s:nbsimu=%d:floc=%d", ndim, moving ? "moving" : "unique", nbsimu, (int)e.flagLocator);
    auto f = [=](Db* a, Db* b, Model* m, ANeigh* ng, int nbt) { return simtub(a, b, m, ng, nbsimu, seed, nbt, true, false, nc); };
    s.valid.fn = [=](World& w) { return f(w.in(), w.out(), w.model.get(), w.neigh.get(), nbtuba); };
    add.e = e;
    add("nbtuba-zero", [=](World& w) { return f(w.in(), w.out(), w.model.get(), w.neigh.get(), 0); });
    add("model-without-anam", [=](World& w) { std::unique_ptr<Model> m(noAnam->clone()); return f(w.in(), w.out(), m.get(), w.neigh.get(), nbtuba); });
    add("dbout-points", [=](World& w) { return f(w.in(), w.out(), w.model.get(), w.neigh.get(), nbtuba); },
        [=](World& w) { Rng rr(11); Prior pp; pp.tag = "q_"; PointOpts qo; qo.ndim = ndim; qo.n = 5; qo.nvar = 0; w.dout.reset(makePoints(rr, qo, pp)); });
    add("null-neigh", [=](World& w) { return f(w.in(), w.out(), w.model.get(), nullptr, nbtuba); });
  }
  s.valid.exp = e;
}

// ------------------------------------------------------------------------------------------------
// Case dispatcher
// ------------------------------------------------------------------------------------------------
static void run_case(Rng& r, Ctx& c)
{
  static const std::vector<std::string> calcs = {
    "kriging", "xvalid", "test_neigh", "krigtest", "krigcell", "kribayes", "krigprof", "kriggam", "simtub", "migrate", "migrateMulti", "migrateByAttribute",
    "migrateByLocator", "dbStatisticsOnGrid", "dbRegression", "rawToGaussianByLocator", "rawToGaussian", "gaussianToRaw",
    "normalScore", "rawToFactor", "simbayes", "simfft", "ConditionalExpectation", "UniformConditioning",
    "DisjunctiveKriging", "dbZ2F", "dbF2Z", "dbg2gCopy", "dbg2gExpand", "dbg2gShrink", "simpgs", "kriging-dgm", "simtub-dgm"};
  // stratified: the calculator is a function of the case index so that every range of cases covers all of them
  const std::string& which = calcs[c.icase % calcs.size()];
  Scen s;
  if (which == "kriging" || which == "xvalid" || which == "test_neigh" || which == "krigtest")
    scenKrigingFamily(r, c, s, which);
  else if (which == "krigcell" || which == "kribayes" || which == "krigprof" || which == "kriggam")
    scenKrigingOptions(r, c, s, which);
  else if (which == "simtub")
    scenSimtub(r, c, s);
  else if (which.rfind("migrate", 0) == 0)
    scenMigrate(r, c, s, which);
  else if (which == "dbStatisticsOnGrid" || which == "dbRegression")
    scenStatistics(r, c, s, which);
  else if (which == "simpgs")
    scenSimpgs(r, c, s);
  else if (which == "kriging-dgm" || which == "simtub-dgm")
    scenDGM(r, c, s, which);
  else if (which.rfind("dbg2g", 0) == 0)
    scenGridToGrid(r, c, s, which);
  else if (which == "simbayes" || which == "simfft")
    scenSimOther(r, c, s, which);
  else if (which == "ConditionalExpectation" || which == "UniformConditioning" || which == "DisjunctiveKriging" ||
           which == "dbZ2F" || which == "dbF2Z")
    scenRecovery(r, c, s, which);
  else
    scenAnam(r, c, s, which);
  runScenario(r, c, s);
  defineDefaultSpace(ESpaceType::RN, 2);
}

int main(int argc, char** argv) { return run_main(argc, argv, "C19", run_case); }
