// C04 (2)(3)(5)(6) — kriging shortcuts against their plain counterparts, through the public entry points
// kriging() / xvalid():
//   pair "uniq-moving" : NeighUnique                         vs NeighMoving wide enough to hold every sample
//   pair "xvalid"      : xvalid() in NeighUnique (shortcut of doc/references/Kriging_XValid_Unique.md)
//                                                            vs explicit leave-one-out re-kriging (sample masked or removed)
//   pair "block1"      : EKrigOpt::BLOCK with ndiscs = {1..1} vs EKrigOpt::POINT at the cell centres
//   pair "colcok"      : collocated cokriging (rank_colcok)  vs cokriging with the collocated datum appended to the data
//   pair "reuse"       : all targets in one call (neighbourhood / LHS reuse between consecutive targets) vs one call per target
// Every library call gets freshly built Db / Model / Neigh objects (no shared mutable state between the two sides).
//
// Tolerance (DESIGN 5.3): |a-b| <= 1e3 * eps * kappa * scale, kappa = 1-norm condition number of the kriging matrix
// [Sigma X; X^T 0] of the complete data set (assembled from Model::evalCovMatrixSymmetric / evalDriftMatrix on a
// pristine model and factorised in long double by ref::LU; only used to SCALE the tolerance), scale = data spread for
// estimates and total sill for variances. Systems with kappa > 1e9 are skipped and counted ("illcond").
// Standard deviations are compared through their squares (sqrt is not Lipschitz at 0).
#include "common/vh.hpp"
#include "common/ref_linalg.hpp"
#include "common/c04_gen.hpp"

#include "Enum/EKrigOpt.hpp"
#include "Estimation/CalcKriging.hpp"
#include "Matrix/MatrixRectangular.hpp"
#include "Matrix/MatrixSquareSymmetric.hpp"
#include "Neigh/NeighMoving.hpp"
#include "Neigh/NeighUnique.hpp"

using namespace vh;
using namespace c04;
using ref::LD;

// NeighMoving built WITHOUT anisotropy coefficients used to hard-wire a 2-D distance (BiTargetCheckDistance ctor): in a
// 1-D space every such kriging read one coordinate past the SpacePoint (ASan heap-buffer-overflow, key
// crash:asan-heap-buffer-overflow:SpacePoint::getCoord). Fixed in /repo 7983a8b7b. If it comes back, set to true to keep
// the generator away from that input class (1-D + no coefficients).
static const bool AVOID_NEIGHMOVING_NDIM2_1D = false || getenv("C04_DEV_AVOID") != nullptr; // env: developer runs only

// -----------------------------------------------------------------------------------------------------------------
struct KOut
{
  int rc = -1;
  std::vector<std::vector<double>> est, sd, vz; // [ivar][target]
};

static KOut collect(Db* target, const VectorString& before, int nvar)
{
  KOut o;
  VectorString nn = newNames(before, target);
  for (auto& n : nn)
  {
    if (endsWith(n, "estim") || endsWith(n, "esterr")) o.est.push_back(col(target, n));
    else if (endsWith(n, "stdev") || endsWith(n, "stderr")) o.sd.push_back(col(target, n));
    else if (endsWith(n, "varz")) o.vz.push_back(col(target, n));
  }
  (void)nvar;
  return o;
}

static KOut runKriging(const DbSpec& dspec, Db* target, const ModelSpec& ms, ANeigh* neigh,
                       const EKrigOpt& calcul = EKrigOpt::POINT, const VectorInt& ndiscs = VectorInt(),
                       const VectorInt& colcok = VectorInt(), bool varz = true)
{
  auto data  = buildDb(dspec);
  auto model = buildModel(ms);
  VectorString before = target->getAllNames();
  int rc   = kriging(data.get(), target, model.get(), neigh, calcul, true, true, varz, ndiscs, colcok);
  KOut o   = collect(target, before, ms.nvar);
  o.rc     = rc;
  return o;
}

// condition number of the complete kriging matrix (long double LU); returns +inf when it cannot be assembled
struct Cond
{
  double kappa = INFINITY;
  int neq = 0, nfeq = 0;
};
static Cond condOf(const ModelSpec& ms, const DbSpec& ds)
{
  Cond cd;
  auto db    = buildDb(ds);
  auto model = buildModel(ms);
  MatrixSquareSymmetric S = model->evalCovMatrixSymmetric(db.get());
  int n = S.getNRows();
  if (n <= 0) return cd;
  MatrixRectangular X;
  int p = 0;
  if (model->getDriftNumber() > 0)
  {
    X = model->evalDriftMatrix(db.get());
    p = X.getNCols();
    if (X.getNRows() != n) return cd;
  }
  ref::Mat K(n + p, n + p);
  for (int i = 0; i < n; i++)
    for (int j = 0; j < n; j++) K(i, j) = S.getValue(i, j);
  for (int i = 0; i < n; i++)
    for (int j = 0; j < p; j++) K(i, n + j) = K(n + j, i) = X.getValue(i, j);
  ref::LU lu(K);
  cd.neq  = n;
  cd.nfeq = p;
  if (!lu.ok) return cd;
  cd.kappa = (double)lu.cond();
  return cd;
}

// -----------------------------------------------------------------------------------------------------------------
// shared configuration
// -----------------------------------------------------------------------------------------------------------------
struct KCfg
{
  int ndim, nvar;
  double L;
  ModelSpec ms;
  DbSpec data;
  int hetero, selMode, layout;
  bool verr;
  std::string driftName;
  double zspread = 1;
};

static KCfg genCfg(Rng& r, Ctx& c, int nvarMax, int nmin, int nmaxQuick, bool allowVerr, bool allowHetero)
{
  KCfg k;
  k.ndim = 1 + (int)(r.next() % 3);
  defineDefaultSpace(ESpaceType::RN, k.ndim);
  k.nvar = 1 + (int)(r.next() % nvarMax);
  k.L    = r.pick(std::vector<double> {1.0, 100.0});
  int ncov = 1 + (int)(r.next() % 3);
  k.ms   = genModel(r, k.ndim, k.nvar, ncov, k.L, 0, true);
  // drift: -1 known means (simple kriging), 0 ordinary, 1 linear, 2 quadratic (rare, unit field only)
  double u = r.u01();
  int order = u < 0.3 ? -1 : (u < 0.65 ? 0 : (u < 0.92 ? 1 : 2));
  if (order == 2 && (k.L > 1.0 || k.ndim == 3)) order = 1;
  k.ms.driftOrder = order;
  if (order < 0)
    for (auto& m : k.ms.means) m = r.uni(-2, 2);
  k.driftName = order < 0 ? "sk" : "irf" + std::to_string(order);
  int nmax = c.thorough() ? 2 * nmaxQuick : nmaxQuick;
  int n    = nmin + (int)(r.next() % (nmax - nmin + 1));
  std::vector<double> origin(k.ndim, 0.0);
  if (order <= 0 && r.coin(0.3))
    for (auto& o : origin) o = 50 * k.L * r.uni(-1, 1); // translated field (only without monomials of degree >= 1)
  k.layout   = (int)(r.next() % 3);
  k.data.pts = genPoints(r, k.ndim, n, k.L, origin, k.layout, 0.02);
  k.hetero   = (allowHetero && k.nvar > 1) ? (int)(r.next() % 4) : (r.coin(0.3) ? 1 : 0);
  genValues(r, k.data, k.nvar, k.hetero, k.L);
  k.selMode = r.coin(0.5) ? 0 : 1;
  genSel(r, k.data, k.selMode);
  k.verr = allowVerr && r.coin(0.25);
  if (k.verr)
  {
    k.data.verr.assign(k.nvar, std::vector<double>(n));
    for (auto& col : k.data.verr)
      for (auto& v : col) v = r.coin(0.8) ? r.uni(0.01, 0.4) : 0.0;
  }
  double lo = 1e300, hi = -1e300;
  for (auto& col : k.data.z)
    for (double v : col)
      if (!undef(v)) { lo = std::min(lo, v); hi = std::max(hi, v); }
  k.zspread = std::max(1.0, std::max(std::fabs(lo), std::fabs(hi)));
  return k;
}

// enough defined active samples per variable for the drift to be identifiable (library refuses otherwise)
static bool enoughData(const KCfg& k, int extra = 1)
{
  int nb = k.ms.driftOrder < 0 ? 0 : (k.ms.driftOrder == 0 ? 1 : (k.ms.driftOrder == 1 ? 1 + k.ndim : 1 + k.ndim + k.ndim * (k.ndim + 1) / 2));
  for (int v = 0; v < k.nvar; v++)
  {
    int m = 0;
    for (int i = 0; i < k.data.pts.n; i++)
      if (k.data.active(i) && k.data.defined(i, v)) m++;
    if (m < nb + extra + 1) return false;
  }
  return true;
}

static DbSpec genTargets(Rng& r, const KCfg& k, int m, bool withDup, bool withSel)
{
  DbSpec t;
  std::vector<double> origin(k.ndim, 0.0);
  // same translation as the data: recover it from the data bounding box
  for (int d = 0; d < k.ndim; d++)
  {
    double lo = 1e300;
    for (double v : k.data.pts.x[d]) lo = std::min(lo, v);
    origin[d] = std::floor(lo / k.L) * k.L;
  }
  t.pts  = genPoints(r, k.ndim, m, k.L, origin, 0, 0.01, &k.data.pts);
  t.nvar = 0;
  if (withDup)
  {
    int nd = 1 + (int)(r.next() % 2);
    for (int q = 0; q < nd && q < m; q++)
    {
      int j = (int)(r.next() % k.data.pts.n);
      for (int d = 0; d < k.ndim; d++) t.pts.x[d][q] = k.data.pts.x[d][j];
    }
  }
  if (withSel) genSel(r, t, 1);
  return t;
}

static void describe(Ctx& c, const KCfg& k, const std::string& pair)
{
  c.puts("pair", pair);
  c.putn("ndim", k.ndim);
  c.putn("nvar", k.nvar);
  c.putn("n", k.data.pts.n);
  c.puts("model", k.ms.sig());
  c.puts("drift", k.driftName);
  c.put("ranges0", jvec(k.ms.st[0].ranges));
  c.put("angles0", jvec(k.ms.st[0].angles));
  c.put("x0", jvec(k.data.pts.x[0], 8));
  c.put("z0", jvec(k.data.z[0], 8));
}

// compare two kriging outputs target by target
static void compareOut(Ctx& c, const std::string& pfx, const std::string& key, const KOut& a, const KOut& b,
                       const DbSpec& tgt, int nvar, double tolEst, double tolVar, const std::string& what,
                       bool cmpSd = true, bool flatKey = false, double zscale = 1., double vscale = 1.)
{
  // flatKey: the input class has one known cause; every symptom is reported under the class key itself
  auto K = [&](const char* suffix) { return flatKey ? key : key + suffix; };
  if (a.est.size() != (size_t)nvar || b.est.size() != (size_t)nvar || a.sd.size() != (size_t)nvar || b.sd.size() != (size_t)nvar)
  {
    c.check(pfx + "-estim", K(":columns"), false, 1, 0,
            what + fmt(" output columns est %zu/%zu sd %zu/%zu want %d", a.est.size(), b.est.size(), a.sd.size(), b.sd.size(), nvar));
    return;
  }
  int m = tgt.pts.n;
  for (int v = 0; v < nvar; v++)
    for (int t = 0; t < m; t++)
    {
      std::string w = what + fmt(" var=%d target=%d", v, t);
      double ea = a.est[v][t], eb = b.est[v][t];
      if (!tgt.active(t))
      {
        // masked target: both must leave the undefined marker
        c.truth(pfx + "-masked-target", K(":masked-target"), undef(ea) && undef(eb) && undef(a.sd[v][t]) && undef(b.sd[v][t]), w);
        continue;
      }
      if (undef(ea) || undef(eb))
      {
        c.truth(pfx + "-defined", K(":undefined-mismatch"), undef(ea) && undef(eb), w + fmt(" est %g / %g", ea, eb));
        continue;
      }
      closeRel(c, pfx + "-estim", K(":estim"), ea, eb, tolEst, zscale, w);
      if (cmpSd)
      {
        double sa = a.sd[v][t], sb = b.sd[v][t];
        closeRel(c, pfx + "-var", K(":stdev"), sa * sa, sb * sb, tolVar, vscale, w + fmt(" sd %.10g / %.10g", sa, sb));
      }
      if (a.vz.size() == (size_t)nvar && b.vz.size() == (size_t)nvar)
        closeRel(c, pfx + "-varz", K(":varz"), a.vz[v][t], b.vz[v][t], tolVar, vscale, w);
    }
}

// -----------------------------------------------------------------------------------------------------------------
// (2) unique vs wide moving
// -----------------------------------------------------------------------------------------------------------------
static void pairUniqueMoving(Rng& r, Ctx& c)
{
  KCfg k = genCfg(r, c, 3, 4, 30, true, true);
  int m  = 4 + (int)(r.next() % 7);
  DbSpec tg = genTargets(r, k, m, r.coin(0.5), r.coin(0.3));
  // moving neighbourhood variants that must all hold every sample: huge isotropic radius / undefined radius /
  // anisotropic + rotated ellipse that still contains the field / ball-tree candidates with nmaxi >= n
  int mv         = (int)(r.next() % 6);
  if (AVOID_NEIGHMOVING_NDIM2_1D && k.ndim == 1 && (mv == 0 || mv == 1 || mv == 5)) mv = 4;
  int n          = k.data.pts.n;
  int nmaxi      = n + (int)(r.next() % 5);
  bool ball      = (mv == 3 || mv == 5);
  // ball-tree candidates: KNN refuses a query for more neighbours than there are points in the tree; half of the
  // ball cases ask for exactly n (the tree holds every sample of the Db, masked or not)
  if (ball && r.coin()) nmaxi = n;
  const char* MV[] = {"radius-huge", "radius-undef", "aniso-rot", "ball-coeffs1", "coeffs1", "ball"};
  c.setSig(fmt("uniq-moving:ndim=%d:nvar=%d:%s:%s:het=%d:sel=%d:verr=%d:mv=%s", k.ndim, k.nvar, k.ms.sig().c_str(),
               k.driftName.c_str(), k.hetero, k.selMode, (int)k.verr, MV[mv]));
  describe(c, k, "uniq-moving");
  c.puts("moving", MV[mv]);
  if (!enoughData(k)) { c.skip("too-few-data"); return; }
  Cond cd = condOf(k.ms, k.data);
  if (!(cd.kappa < 1e9)) { c.skip("illcond"); return; }

  std::unique_ptr<NeighUnique> nu(NeighUnique::create());
  std::unique_ptr<NeighMoving> nm;
  double span = 60 * k.L; // data may be translated by up to 50 L; distances are differences, so span >> field anyway
  if (mv == 1)
    nm.reset(NeighMoving::create(false, nmaxi));
  else if (mv == 2)
  {
    VectorDouble coeffs(k.ndim), angles(k.ndim, 0.);
    for (auto& q : coeffs) q = r.uni(0.5, 2.0);
    if (k.ndim >= 2) angles[0] = r.uni(10, 170);
    nm.reset(NeighMoving::create(false, nmaxi, 1e3 * span, 1, 1, ITEST, coeffs, angles));
  }
  else if (mv == 3 || mv == 4)
    nm.reset(NeighMoving::create(false, nmaxi, 1e3 * span, 1, 1, ITEST, VectorDouble(k.ndim, 1.)));
  else
    nm.reset(NeighMoving::create(false, nmaxi, 1e3 * span));
  if (ball) nm->setBallSearch(true, 1 + (int)(r.next() % 12));

  auto tU = buildDb(tg);
  auto tM = buildDb(tg);
  KOut oU = runKriging(k.data, tU.get(), k.ms, nu.get());
  KOut oM = runKriging(k.data, tM.get(), k.ms, nm.get());
  std::string what = fmt("n=%d neq=%d kappa=%.3g drift=%s moving=%s nmaxi=%d", n, cd.neq, cd.kappa, k.driftName.c_str(), MV[mv], nmaxi);
  // two ball-tree input classes had a cause of their own (masked samples taken from the tree; KNN refusing nmaxi > n;
  // fixed in /repo 6dfd4d242 and 9c3595c2c): they keep one flat key and one oracle family each
  bool clsGtN = ball && nmaxi > n, clsSel = ball && !clsGtN && k.selMode != 0;
  std::string key = std::string("C04:uniq-moving:") + (ball ? (clsGtN ? "ball-nmaxi-gt-n" : (clsSel ? "ball-with-selection" : "ball")) : "scan");
  std::string pfx = clsGtN ? "umx-ball-gtn" : (clsSel ? "umx-ball-sel" : "um");
  bool flat       = clsGtN || clsSel;
  if (!c.truth(pfx + "-rc", flat ? key : key + ":rc", oU.rc == oM.rc, what + fmt(" rc %d / %d", oU.rc, oM.rc))) return;
  if (oU.rc != 0) { c.skip("kriging-refused"); return; }
  double tolE = 1e3 * EPS * cd.kappa * k.zspread;
  double tolV = 1e3 * EPS * cd.kappa * k.ms.maxSill();
  compareOut(c, pfx, key, oU, oM, tg, k.nvar, tolE, tolV, what, true, flat, k.zspread, k.ms.maxSill());
  if (ball && !flat) c.probe("um-ball-clean");
  if (k.hetero) c.probe("um-hetero");
  if (k.selMode) c.probe("um-selection");
  if (k.ms.driftOrder >= 1) c.probe("um-drift");
}

// kappa of the kriging system restricted to the nmaxi nearest admissible samples of target t (isotropic distance)
static double subKappa(const KCfg& k, const Pts& tp, int t, int nmaxi)
{
  std::vector<std::pair<double, int>> ds;
  for (int i = 0; i < k.data.pts.n; i++)
  {
    bool anyDef = false;
    for (int v = 0; v < k.nvar; v++) anyDef = anyDef || k.data.defined(i, v);
    if (!k.data.active(i) || !anyDef) continue;
    ds.push_back({distPP(k.data.pts, i, tp, t), i});
  }
  std::sort(ds.begin(), ds.end());
  DbSpec sub = k.data;
  sub.sel.assign(k.data.pts.n, 0.0);
  for (int q = 0; q < (int)ds.size() && q < nmaxi; q++) sub.sel[ds[q].second] = 1.0;
  return condOf(k.ms, sub).kappa;
}

// -----------------------------------------------------------------------------------------------------------------
// neighbourhood reuse: all targets in one kriging() call (ANeigh remembers the previous neighbourhood and
// KrigingSystem::estimate skips the LHS when ANeigh::isUnchanged()) vs one call per target (nothing to reuse)
// -----------------------------------------------------------------------------------------------------------------
static void pairReuse(Rng& r, Ctx& c)
{
  KCfg k = genCfg(r, c, 2, 6, 28, true, true);
  // targets in small clumps so that consecutive targets often (not always) share their neighbourhood
  int nclump = 2 + (int)(r.next() % 3), per = 2 + (int)(r.next() % 3);
  DbSpec ctr = genTargets(r, k, nclump, false, false);
  DbSpec tg;
  tg.pts.ndim = k.ndim;
  tg.pts.x.assign(k.ndim, {});
  tg.nvar = 0;
  for (int q = 0; q < nclump; q++)
    for (int j = 0; j < per; j++)
    {
      for (int d = 0; d < k.ndim; d++) tg.pts.x[d].push_back(ctr.pts.x[d][q] + (j == 0 ? 0.0 : k.L * r.uni(-0.02, 0.02)));
      tg.pts.n++;
    }
  if (r.coin(0.3)) genSel(r, tg, 1);
  int m = tg.pts.n;
  int nmaxi = 3 + (int)(r.next() % 6);
  bool unique = r.coin(0.2);
  c.setSig(fmt("reuse:ndim=%d:nvar=%d:%s:%s:het=%d:sel=%d:verr=%d:%s", k.ndim, k.nvar, k.ms.sig().c_str(), k.driftName.c_str(), k.hetero,
               k.selMode, (int)k.verr, unique ? "unique" : "moving"));
  describe(c, k, "reuse");
  c.putn("nmaxi", nmaxi);
  if (!enoughData(k)) { c.skip("too-few-data"); return; }
  Cond cd = condOf(k.ms, k.data);
  if (!(cd.kappa < 1e9)) { c.skip("illcond"); return; }
  double kap = std::max(cd.kappa, 1e3);
  if (!unique)
    for (int t = 0; t < m; t++) kap = std::max(kap, subKappa(k, tg.pts, t, nmaxi));
  if (!(kap < 1e9)) { c.skip("illcond"); return; }
  auto mk = [&]() -> std::unique_ptr<ANeigh> {
    if (unique) return std::unique_ptr<ANeigh>(NeighUnique::create());
    return std::unique_ptr<ANeigh>(NeighMoving::create(false, nmaxi, 1e6 * k.L, 1, 1, ITEST, VectorDouble(k.ndim, 1.)));
  };
  auto tAll = buildDb(tg);
  auto nAll = mk();
  KOut oAll = runKriging(k.data, tAll.get(), k.ms, nAll.get());
  std::string what = fmt("n=%d kappa=%.3g drift=%s nmaxi=%d m=%d %s", k.data.pts.n, kap, k.driftName.c_str(), nmaxi, m, unique ? "unique" : "moving");
  std::string key = "C04:neigh-reuse";
  if (!c.truth("ru-rc", key + ":rc", oAll.rc == 0 && oAll.est.size() == (size_t)k.nvar && oAll.sd.size() == (size_t)k.nvar, what + fmt(" rc=%d", oAll.rc)))
    return;
  double tolE = 1e3 * EPS * kap * k.zspread, tolV = 1e3 * EPS * kap * k.ms.maxSill();
  for (int t = 0; t < m; t++)
  {
    if (!tg.active(t))
    {
      c.truth("ru-masked-target", key + ":masked-target", undef(oAll.est[0][t]), what);
      continue;
    }
    DbSpec one;
    one.pts.ndim = k.ndim;
    one.pts.n    = 1;
    one.pts.x.assign(k.ndim, std::vector<double>(1));
    for (int d = 0; d < k.ndim; d++) one.pts.x[d][0] = tg.pts.x[d][t];
    one.nvar = 0;
    auto t1  = buildDb(one);
    auto n1  = mk();
    KOut o1  = runKriging(k.data, t1.get(), k.ms, n1.get());
    if (o1.rc != 0 || o1.est.size() != (size_t)k.nvar) { c.skip("ru-single-refused"); continue; }
    for (int v = 0; v < k.nvar; v++)
    {
      std::string w = what + fmt(" target=%d var=%d", t, v);
      double ea = oAll.est[v][t], eb = o1.est[v][0];
      if (undef(ea) || undef(eb))
      {
        c.truth("ru-defined", key + ":undefined-mismatch", undef(ea) && undef(eb), w + fmt(" est %g / %g", ea, eb));
        continue;
      }
      closeRel(c, "ru-estim", key + ":estim", ea, eb, tolE, k.zspread, w);
      closeRel(c, "ru-var", key + ":stdev", oAll.sd[v][t] * oAll.sd[v][t], o1.sd[v][0] * o1.sd[v][0], tolV, k.ms.maxSill(), w);
      if (oAll.vz.size() == (size_t)k.nvar && o1.vz.size() == (size_t)k.nvar)
        closeRel(c, "ru-varz", key + ":varz", oAll.vz[v][t], o1.vz[v][0], tolV, k.ms.maxSill(), w);
    }
  }
}

// -----------------------------------------------------------------------------------------------------------------
// (5) block with a single discretisation point vs point kriging at the cell centres
// -----------------------------------------------------------------------------------------------------------------
static void pairBlock1(Rng& r, Ctx& c)
{
  KCfg k = genCfg(r, c, 2, 4, 25, true, true);
  // grid over the field, possibly rotated
  VectorInt nx(k.ndim);
  VectorDouble dx(k.ndim), x0(k.ndim), angles(k.ndim, 0.);
  int ncell = 1;
  double lo0[3] = {1e300, 1e300, 1e300};
  for (int d = 0; d < k.ndim; d++)
    for (double v : k.data.pts.x[d]) lo0[d] = std::min(lo0[d], v);
  for (int d = 0; d < k.ndim; d++)
  {
    nx[d] = 1 + (int)(r.next() % (k.ndim == 1 ? 8 : (k.ndim == 2 ? 4 : 3)));
    dx[d] = k.L / nx[d] * r.uni(0.5, 1.2);
    x0[d] = lo0[d] + k.L * r.uni(-0.1, 0.2);
    ncell *= nx[d];
  }
  bool rot = k.ndim >= 2 && r.coin(0.5);
  if (rot) angles[0] = r.uni(10, 80);
  bool moving = r.coin(0.4);
  c.setSig(fmt("block1:ndim=%d:nvar=%d:%s:%s:het=%d:sel=%d:verr=%d:rot=%d:mov=%d", k.ndim, k.nvar, k.ms.sig().c_str(),
               k.driftName.c_str(), k.hetero, k.selMode, (int)k.verr, (int)rot, (int)moving));
  describe(c, k, "block1");
  c.put("nx", jvec(nx.getVector()));
  c.put("dx", jvec(dx.getVector()));
  if (!enoughData(k)) { c.skip("too-few-data"); return; }
  Cond cd = condOf(k.ms, k.data);
  if (!(cd.kappa < 1e9)) { c.skip("illcond"); return; }

  std::unique_ptr<DbGrid> gB(DbGrid::create(nx, dx, x0, angles));
  if (!gB) throw std::runtime_error("DbGrid::create returned null");
  // point targets: cell centres read back through the public coordinate getter
  DbSpec tp;
  tp.pts.ndim = k.ndim;
  tp.pts.n    = gB->getSampleNumber();
  tp.pts.x.assign(k.ndim, std::vector<double>(tp.pts.n));
  for (int i = 0; i < tp.pts.n; i++)
    for (int d = 0; d < k.ndim; d++) tp.pts.x[d][i] = gB->getCoordinate(i, d);
  tp.nvar = 0;
  auto tP = buildDb(tp);

  std::unique_ptr<ANeigh> n1, n2;
  int nmaxi = std::max(3, k.data.pts.n / 2);
  if (moving)
  {
    // a genuinely moving neighbourhood (same parameters on both sides): the neighbourhood is searched from the
    // target location, which is the cell centre in both runs
    // (coefficients given explicitly: see AVOID_NEIGHMOVING_NDIM2_1D; that finding is left to the uniq-moving pair)
    n1.reset(NeighMoving::create(false, nmaxi, 1e6 * k.L, 1, 1, ITEST, VectorDouble(k.ndim, 1.)));
    n2.reset(NeighMoving::create(false, nmaxi, 1e6 * k.L, 1, 1, ITEST, VectorDouble(k.ndim, 1.)));
  }
  else
  {
    n1.reset(NeighUnique::create());
    n2.reset(NeighUnique::create());
  }
  KOut oB = runKriging(k.data, gB.get(), k.ms, n1.get(), EKrigOpt::BLOCK, VectorInt(k.ndim, 1));
  KOut oP = runKriging(k.data, tP.get(), k.ms, n2.get(), EKrigOpt::POINT);
  std::string what = fmt("n=%d neq=%d kappa=%.3g drift=%s cells=%d rot=%d moving=%d", k.data.pts.n, cd.neq, cd.kappa,
                         k.driftName.c_str(), ncell, (int)rot, (int)moving);
  std::string key = "C04:block1";
  if (!c.truth("b1-rc", key + ":rc", oB.rc == oP.rc, what + fmt(" rc %d / %d", oB.rc, oP.rc))) return;
  if (oB.rc != 0) { c.skip("kriging-refused"); return; }
  // in a moving neighbourhood the conditioning of the sub-systems is not that of the complete system (a few nearly
  // aligned samples under a linear drift are far worse): take the worst kappa over the targets' own sub-systems,
  // each rebuilt here from the nmaxi nearest admissible samples (isotropic distance, radius >> field)
  double kap = std::max(cd.kappa, 1e3);
  if (moving)
  {
    for (int t = 0; t < tp.pts.n; t++) kap = std::max(kap, subKappa(k, tp.pts, t, nmaxi));
    if (!(kap < 1e9)) { c.skip("illcond"); return; }
  }
  double tolE = 1e3 * EPS * kap * k.zspread;
  double tolV = 1e3 * EPS * kap * k.ms.maxSill();
  // estimate and var(Z*) depend on the weights only -> must agree.
  compareOut(c, "b1", key, oB, oP, tp, k.nvar, tolE, tolV, what, /*cmpSd=*/false, false, k.zspread, k.ms.maxSill());
  // Estimation variance: sigma^2 = Cvv - lambda^T rhs. doc/references/Cvv.md: Cvv is approximated by the average of
  // C(x_i, x_j) over "some points inside the block v" (the library takes a second, randomised, set of
  // discretisation points), so with one point Cvv = C(delta) for some offset delta inside the cell, not C(0).
  // What the single-point statement implies without fixing delta: sd_block^2 - sd_point^2 is the same constant
  // (Cvv - C(0), per variable) for every target, and it lies in [-2 C(0), 0].
  if (oB.sd.size() == (size_t)k.nvar && oP.sd.size() == (size_t)k.nvar)
    for (int v = 0; v < k.nvar; v++)
    {
      double ref = NAN;
      for (int t = 0; t < tp.pts.n; t++)
      {
        double sb = oB.sd[v][t], sp = oP.sd[v][t];
        if (undef(sb) || undef(sp)) continue;
        if (sb <= 0 || sp <= 0) { c.skip("b1-var-clamped"); continue; } // variance clamped at 0: shift not observable
        double shift = sb * sb - sp * sp;
        if (std::isnan(ref))
        {
          ref = shift;
          double c0 = 0;
          for (auto& s : k.ms.st) c0 += s.sills[v * k.nvar + v];
          double tolS = tolV * (1 + std::max(sb * sb, sp * sp) / k.ms.maxSill());
          c.check("b1-var-shift-range", key + ":stdev-shift-range", shift <= tolS && shift >= -2 * c0 - tolS, std::max(shift, -2 * c0 - shift),
                  tolS, what + fmt(" var=%d shift=%.10g C0=%.10g", v, shift, c0));
        }
        else
          // the shift is a difference of two variances: its round-off is relative to THEIR magnitude
          c.close("b1-var-shift", key + ":stdev-shift-not-constant", shift, ref, tolV * (1 + std::max(sb * sb, sp * sp) / k.ms.maxSill()), what + fmt(" var=%d target=%d", v, t));
      }
    }
  if (rot) c.probe("b1-rotated-grid");
  if (moving) c.probe("b1-moving");
}

// -----------------------------------------------------------------------------------------------------------------
// (3) cross-validation in unique neighbourhood vs explicit leave-one-out
// -----------------------------------------------------------------------------------------------------------------
static void pairXvalid(Rng& r, Ctx& c)
{
  KCfg k = genCfg(r, c, 1, 5, 22, false, false);
  int estOpt = r.coin() ? 1 : -1; // 1: Z*-Z, -1: Z*
  int stdOpt = r.coin() ? 1 : -1; // 1: (Z*-Z)/S, -1: S
  int looHow = (int)(r.next() % 2); // 0: sample masked through a selection, 1: sample physically removed
  c.setSig(fmt("xvalid:ndim=%d:%s:%s:het=%d:sel=%d:est=%d:std=%d:loo=%d", k.ndim, k.ms.sig().c_str(), k.driftName.c_str(),
               k.hetero, k.selMode, estOpt, stdOpt, looHow));
  describe(c, k, "xvalid");
  if (!enoughData(k, 2)) { c.skip("too-few-data"); return; }
  Cond cd = condOf(k.ms, k.data);
  if (!(cd.kappa < 1e9)) { c.skip("illcond"); return; }
  int n = k.data.pts.n;

  // fast path
  auto dbx   = buildDb(k.data);
  auto model = buildModel(k.ms);
  std::unique_ptr<NeighUnique> nu(NeighUnique::create());
  VectorString before = dbx->getAllNames();
  int rc = xvalid(dbx.get(), model.get(), nu.get(), false, estOpt, stdOpt, 0);
  std::string what = fmt("n=%d neq=%d kappa=%.3g drift=%s estOpt=%d stdOpt=%d loo=%s", n, cd.neq, cd.kappa, k.driftName.c_str(),
                         estOpt, stdOpt, looHow ? "removed" : "masked");
  std::string key = "C04:xvalid-unique";
  if (!c.truth("xv-rc", key + ":rc", rc == 0, what + fmt(" rc=%d", rc))) return;
  KOut ox = collect(dbx.get(), before, 1);
  if (ox.est.size() != 1 || ox.sd.size() != 1)
  {
    c.check("xv-estim", key + ":columns", false, 1, 0, what + fmt(" columns est=%zu sd=%zu", ox.est.size(), ox.sd.size()));
    return;
  }
  double sill = k.ms.maxSill();
  double tolE = 1e3 * EPS * cd.kappa * k.zspread;
  double tolV = 1e3 * EPS * cd.kappa * sill;

  for (int i = 0; i < n; i++)
  {
    std::string w = what + fmt(" sample=%d", i);
    if (!k.data.active(i) || !k.data.defined(i, 0))
    {
      // masked or undefined sample: nothing to cross-validate; the result must stay undefined
      c.truth("xv-inactive", key + ":inactive-sample-written", undef(ox.est[0][i]) && undef(ox.sd[0][i]),
              w + fmt(" est=%g sd=%g", ox.est[0][i], ox.sd[0][i]));
      continue;
    }
    // explicit leave-one-out: data without sample i, target = location of sample i
    DbSpec loo = k.data;
    if (looHow == 0)
    {
      if (loo.sel.empty()) loo.sel.assign(n, 1.0);
      loo.sel[i] = 0.0;
    }
    else
    {
      for (auto& cx : loo.pts.x) cx.erase(cx.begin() + i);
      loo.pts.n--;
      for (auto& cz : loo.z) cz.erase(cz.begin() + i);
      if (!loo.sel.empty()) loo.sel.erase(loo.sel.begin() + i);
    }
    DbSpec tg;
    tg.pts.ndim = k.ndim;
    tg.pts.n    = 1;
    tg.pts.x.assign(k.ndim, std::vector<double>(1));
    for (int d = 0; d < k.ndim; d++) tg.pts.x[d][0] = k.data.pts.x[d][i];
    tg.nvar = 0;
    auto tdb = buildDb(tg);
    std::unique_ptr<NeighUnique> n1(NeighUnique::create());
    KOut o = runKriging(loo, tdb.get(), k.ms, n1.get(), EKrigOpt::POINT, VectorInt(), VectorInt(), false);
    if (o.rc != 0 || o.est.size() != 1 || undef(o.est[0][0])) { c.skip("xv-loo-refused"); continue; }
    double zs = o.est[0][0], s = o.sd[0][0], z = k.data.z[0][i];
    // documented outputs of xvalid(): flag_xvalid_est 1: Z*-Z, -1: Z*; flag_xvalid_std 1: (Z*-Z)/S, -1: S
    double wantE = estOpt > 0 ? zs - z : zs;
    closeRel(c, "xv-estim", key + ":estim", ox.est[0][i], wantE, tolE, k.zspread, w);
    if (stdOpt < 0)
      closeRel(c, "xv-var", key + ":stdev", ox.sd[0][i] * ox.sd[0][i], s * s, tolV, sill, w + fmt(" sd %.10g / %.10g", ox.sd[0][i], s));
    else
    {
      // standardised error: (Z*-Z)/S ; propagate both tolerances; skip when S^2 is within the variance tolerance of 0
      if (s * s < 100 * tolV) { c.skip("xv-stderr-tiny-variance"); continue; }
      double wantS = (zs - z) / s;
      double tolS  = tolE * (1 + std::fabs(zs) / k.zspread) / s + std::fabs(zs - z) * tolV * (1 + s * s / sill) / (2 * s * s * s);
      c.close("xv-stderr", key + ":stderr", ox.sd[0][i], wantS, tolS, w);
    }
  }
  // third path: xvalid() itself in a moving neighbourhood wide enough to hold every sample (the library's own explicit
  // leave-one-out: the target is removed from its neighbourhood and the system re-solved)
  {
    auto dbm = buildDb(k.data);
    auto mm  = buildModel(k.ms);
    std::unique_ptr<NeighMoving> nm(NeighMoving::create(false, n + 3, 1e6 * k.L, 1, 1, ITEST, VectorDouble(k.ndim, 1.)));
    VectorString bef = dbm->getAllNames();
    int rcm = xvalid(dbm.get(), mm.get(), nm.get(), false, estOpt, stdOpt, 0);
    KOut om = collect(dbm.get(), bef, 1);
    std::string km = "C04:xvalid-unique-vs-moving";
    if (c.truth("xvm-rc", km + ":rc", rcm == 0 && om.est.size() == 1 && om.sd.size() == 1, what + fmt(" rc=%d", rcm)))
      for (int i = 0; i < n; i++)
      {
        std::string w = what + fmt(" sample=%d", i);
        double eu = ox.est[0][i], em = om.est[0][i], su = ox.sd[0][i], sm = om.sd[0][i];
        // a sample without a value has nothing to cross-validate; what a moving-neighbourhood xvalid() writes there
        // (it stores Z* when flag_xvalid_est = -1) is not specified anywhere: not compared
        if (!k.data.active(i) || !k.data.defined(i, 0)) continue;
        if (undef(eu) || undef(em))
        {
          c.truth("xvm-defined", km + ":undefined-mismatch", undef(eu) && undef(em), w + fmt(" est %g / %g", eu, em));
          continue;
        }
        closeRel(c, "xvm-estim", km + ":estim", eu, em, tolE, k.zspread, w);
        if (stdOpt < 0)
          closeRel(c, "xvm-var", km + ":stdev", su * su, sm * sm, tolV, sill, w);
        else if (!undef(su) && !undef(sm))
        {
          // (Z*-Z)/S on both sides: compare after multiplying out is not possible without S; use the propagated bound
          // with S recovered from the estimation error when it is available (estOpt > 0), otherwise skip
          if (estOpt > 0 && std::fabs(sm) > 1e-6)
          {
            double s = std::fabs(em / sm); // S of the moving side
            if (s * s < 100 * tolV) { c.skip("xv-stderr-tiny-variance"); continue; }
            c.close("xvm-stderr", km + ":stderr", su, sm, tolE * (1 + (std::fabs(em) + k.zspread) / k.zspread) / s + std::fabs(em) * tolV * (1 + s * s / sill) / (2 * s * s * s), w);
          }
        }
      }
  }
  if (k.ms.driftOrder >= 0) c.probe("xv-drift");
  if (k.selMode) c.probe("xv-selection");
}

// -----------------------------------------------------------------------------------------------------------------
// (6) collocated cokriging vs cokriging with the collocated datum appended to the data
// -----------------------------------------------------------------------------------------------------------------
static void pairColCok(Rng& r, Ctx& c)
{
  KCfg k = genCfg(r, c, 3, 5, 22, false, true);
  if (k.nvar == 1)
  {
    // needs at least two variables: redraw the multivariate parts
    k.nvar = 2 + (int)(r.next() % 2);
    k.ms   = genModel(r, k.ndim, k.nvar, 1 + (int)(r.next() % 2), k.L, 0, true);
    k.ms.driftOrder = r.coin(0.4) ? -1 : (r.coin(0.7) ? 0 : 1);
    if (k.ms.driftOrder < 0)
      for (auto& m : k.ms.means) m = r.uni(-2, 2);
    k.driftName = k.ms.driftOrder < 0 ? "sk" : "irf" + std::to_string(k.ms.driftOrder);
    k.hetero    = (int)(r.next() % 4);
    genValues(r, k.data, k.nvar, k.hetero, k.L);
  }
  int m     = 2 + (int)(r.next() % 4);
  DbSpec tg = genTargets(r, k, m, false, r.coin(0.25));
  // collocated variables: a non-empty subset; their values at the targets (a few undefined)
  std::vector<int> cv;
  for (int v = 0; v < k.nvar; v++)
    if (r.coin(0.5)) cv.push_back(v);
  if (cv.empty()) cv.push_back((int)(r.next() % k.nvar));
  std::vector<std::vector<double>> cval(k.nvar, std::vector<double>(m, UNDEF));
  for (int v : cv)
    for (int t = 0; t < m; t++) cval[v][t] = r.coin(0.15) ? UNDEF : r.uni(-3, 3);
  // rank_colcok (KrigingSystem::setKrigOptColCok): "Each element gives the rank of the colocated variable within Dbout
  // or -1 if not colocated"; the same comment then says "In input, the numbering ... starts from 1" while the code
  // reads _dbout->getArray(iech, rank), i.e. a 0-based identifier. The documentation does not settle 0- vs 1-based, so
  // the target Db holds TWO adjacent identical copies of each collocated column (positions p, p+1) and p+1 is passed:
  // the 0-based reading takes the second copy, the 1-based reading the first one; both hold the same values.
  VectorInt rank(k.nvar, -1);
  int ncolBefore = 1 + k.ndim; // rank column + coordinates (target Db has no variable)
  for (int v : cv)
  {
    tg.extra.push_back({"c" + std::to_string(v + 1) + "a", cval[v]});
    tg.extra.push_back({"c" + std::to_string(v + 1) + "b", cval[v]});
    rank[v] = ncolBefore + 1;
    ncolBefore += 2;
  }
  bool moving = r.coin(0.3);
  c.setSig(fmt("colcok:ndim=%d:nvar=%d:%s:%s:het=%d:sel=%d:ncc=%zu:mov=%d", k.ndim, k.nvar, k.ms.sig().c_str(), k.driftName.c_str(),
               k.hetero, k.selMode, cv.size(), (int)moving));
  describe(c, k, "colcok");
  c.put("rank_colcok", jvec(rank.getVector()));
  if (!enoughData(k)) { c.skip("too-few-data"); return; }
  Cond cd = condOf(k.ms, k.data);
  if (!(cd.kappa < 1e9)) { c.skip("illcond"); return; }

  auto mkNeigh = [&]() -> std::unique_ptr<ANeigh> {
    if (moving) return std::unique_ptr<ANeigh>(NeighMoving::create(false, k.data.pts.n + 5, 1e6 * k.L, 1, 1, ITEST, VectorDouble(k.ndim, 1.)));
    return std::unique_ptr<ANeigh>(NeighUnique::create());
  };
  auto tC = buildDb(tg);
  auto nC = mkNeigh();
  KOut oC = runKriging(k.data, tC.get(), k.ms, nC.get(), EKrigOpt::POINT, VectorInt(), rank);
  std::string what = fmt("n=%d neq=%d kappa=%.3g drift=%s ncolloc=%zu moving=%d", k.data.pts.n, cd.neq, cd.kappa, k.driftName.c_str(),
                         cv.size(), (int)moving);
  std::string key = "C04:colcok";
  if (!c.truth("cc-rc", key + ":rc", oC.rc == 0, what + fmt(" rc=%d", oC.rc))) return;
  if (oC.est.size() != (size_t)k.nvar || oC.sd.size() != (size_t)k.nvar)
  {
    c.check("cc-estim", key + ":columns", false, 1, 0, what);
    return;
  }
  for (int t = 0; t < m; t++)
  {
    if (!tg.active(t))
    {
      c.truth("cc-masked-target", key + ":masked-target", undef(oC.est[0][t]), what);
      continue;
    }
    // reference: the target location appended to the data as one more sample carrying the collocated values
    DbSpec comp = k.data;
    bool anyDef = false;
    for (int v = 0; v < k.nvar; v++) anyDef = anyDef || !undef(cval[v][t]);
    if (anyDef)
    {
      for (int d = 0; d < k.ndim; d++) comp.pts.x[d].push_back(tg.pts.x[d][t]);
      comp.pts.n++;
      for (int v = 0; v < k.nvar; v++) comp.z[v].push_back(cval[v][t]);
      if (!comp.sel.empty()) comp.sel.push_back(1.0);
    }
    else
      c.probe("cc-no-collocated-value-at-target");
    Cond c2 = condOf(k.ms, comp);
    if (!(c2.kappa < 1e9)) { c.skip("illcond"); continue; }
    DbSpec one;
    one.pts.ndim = k.ndim;
    one.pts.n    = 1;
    one.pts.x.assign(k.ndim, std::vector<double>(1));
    for (int d = 0; d < k.ndim; d++) one.pts.x[d][0] = tg.pts.x[d][t];
    one.nvar = 0;
    auto tR  = buildDb(one);
    auto nR  = mkNeigh();
    KOut oR  = runKriging(comp, tR.get(), k.ms, nR.get());
    if (oR.rc != 0 || oR.est.size() != (size_t)k.nvar || undef(oR.est[0][0])) { c.skip("cc-reference-refused"); continue; }
    double kap  = std::max(cd.kappa, c2.kappa);
    double tolE = 1e3 * EPS * kap * std::max(k.zspread, 3.0);
    double tolV = 1e3 * EPS * kap * k.ms.maxSill();
    for (int v = 0; v < k.nvar; v++)
    {
      std::string w = what + fmt(" target=%d var=%d collocated=%d", t, v, (int)!undef(cval[v][t]));
      if (undef(oC.est[v][t])) { c.truth("cc-defined", key + ":undefined", false, w); continue; }
      closeRel(c, "cc-estim", key + ":estim", oC.est[v][t], oR.est[v][0], tolE, k.zspread, w);
      closeRel(c, "cc-var", key + ":stdev", oC.sd[v][t] * oC.sd[v][t], oR.sd[v][0] * oR.sd[v][0], tolV, k.ms.maxSill(), w);
      if (oC.vz.size() == (size_t)k.nvar && oR.vz.size() == (size_t)k.nvar)
        closeRel(c, "cc-varz", key + ":varz", oC.vz[v][t], oR.vz[v][0], tolV, k.ms.maxSill(), w);
    }
  }
  if (k.hetero) c.probe("cc-hetero");
}

// kriging() with rank_colcok: KrigingSystem::_lhsCalcul hands the conventional rank -1 of the collocated datum to
// ACov::load(), which indexes _p1As[-1] (UBSan pointer-overflow / out-of-bounds read): every collocated kriging dies.
// (open finding, crash key ...:ACov::load). The pair is therefore visited in 1 case out of 50 only; set to true to drop it.
static const bool AVOID_COLCOK_KRIGING = false || getenv("C04_DEV_AVOID") != nullptr; // env: developer runs only

static void run_case(Rng& r, Ctx& c)
{
  int pair = (int)(r.next() % 4);
  if (pair == 3) pair = 4;
  if (!AVOID_COLCOK_KRIGING && r.coin(0.02)) pair = 3;
  switch (pair)
  {
    case 0: pairUniqueMoving(r, c); break;
    case 1: pairXvalid(r, c); break;
    case 2: pairBlock1(r, c); break;
    case 3: pairColCok(r, c); break;
    case 4: pairReuse(r, c); break;
  }
}

int main(int argc, char** argv) { return run_main(argc, argv, "C04", run_case); }
