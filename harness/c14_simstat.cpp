// C14 — non-conditional simulations follow the model they are given; basic generators have the moments of their laws.
//
// STATISTICAL NON-REFUTATION. One case = one configuration (simulator, model, support) simulated R times with distinct
// seeds derived from the case PRNG, or one basic law sampled N times. Every statistic is an ensemble average
//        T = (1/R) sum_r (1/P) sum_p (Z_i,r(a_p) - m_i)(Z_j,r(b_p) - m_j)        ((a_p, b_p) = site pairs of one lag class)
// compared with its expectation under the model, E = (1/P) sum_p C_ij(a_p, b_p), with
//        bound = z * SD_T * (kappa + z / sqrt(2R)) + allowance * sqrt(C_ii(0) C_jj(0))
//  * SD_T^2 = V1 / R,  V1 = (1/P^2) sum_p sum_q [ C_ii(a_p,a_q) C_jj(b_p,b_q) + C_ij(a_p,b_q) C_ji(b_p,a_q) ]  (Gaussian fourth
//    moments, Isserlis) — computed FROM THE MODEL, never from the simulations;
//  * T - E is a centred Gaussian quadratic form sum_k lambda_k (chi2_k - 1) / R with 2 |lambda|_2^2 = R V1. Laurent & Massart
//    (2000, Lemma 1): P( > 2 |lambda|_2 sqrt(x) + 2 |lambda|_inf x ) <= exp(-x); |lambda|_inf <= |lambda|_2; an indefinite form is
//    split in its positive and negative parts, which costs kappa = sqrt(2) (kappa = 1 for variances, a PSD form). With
//    z = sqrt(2x) this is the formula above: the usual z * SE plus the exact sub-exponential tail correction z / sqrt(2R);
//  * x = ln(2 N_MAX / 1e-9) with N_MAX = 2e5 statistics per run (Bonferroni), i.e. z = 8.2: the probability that ANY statistic
//    of a run exceeds its statistical bound on a correct simulator is < 1e-9;
//  * allowance = documented approximation error of the method, as a fraction of the sill (table ALLOW below, calibrated on the
//    unchanged tree; written in the evidence rule).
// Means: T = (1/(R S)) sum (Z - m), Gaussian linear form, bound = z * SD + allowance_mean * sqrt(C_ii(0)).
// Basic laws: k-th raw moments, k = 1..4, bound = z * sqrt((mu_2k - mu_k^2)/N) + 2 q^k x / (3N) (Bernstein, |X| <= q with
// probability 1 - 1e-13 under the law), support, and reach of the range (an extreme quantile must be passed).
#include "common/vh.hpp"
#include "common/ref_linalg.hpp"

#include "geoslib_f.h"
#include "Db/Db.hpp"
#include "Db/DbGrid.hpp"
#include "Model/Model.hpp"
#include "Covariances/CovAniso.hpp"
#include "Simulation/CalcSimuTurningBands.hpp"
#include "Simulation/CalcSimuFFT.hpp"
#include "Simulation/SimuFFTParam.hpp"
#include "Simulation/SimuSpectral.hpp"
#include "LinearOp/MatrixSquareSymmetricSim.hpp"
#include "LinearOp/CholeskyDense.hpp"
#include "LinearOp/CholeskySparse.hpp"
#include "Matrix/MatrixSquareSymmetric.hpp"
#include "Matrix/MatrixSparse.hpp"
#include "Matrix/NF_Triplet.hpp"
#include "API/SPDE.hpp"
#include "API/SPDEParam.hpp"
#include "Basic/Law.hpp"
#include "Basic/VectorHelper.hpp"
#include "Basic/OptDbg.hpp"
#include "Space/ASpaceObject.hpp"
#include "Space/SpacePoint.hpp"
#include <memory>
#include <ctime>

using namespace vh;

static const double XLEVEL = 33.63;                 // ln(2 * 2e5 / 1e-9)
static const double ZLEVEL = 8.2012;                // sqrt(2 * XLEVEL)
static const double TESTV  = 1.234e30;

enum Sim { S_TUB = 0, S_FFT, S_SPECTRAL, S_CHOL, S_SPDE, S_LAW, NSIM };
static const char* SIMN[] = {"simtub", "simfft", "spectral", "cholesky", "spde", "law"};
// method allowance (fraction of the sill) on covariances / (fraction of the standard deviation) on means
static const double ALLOW[]      = {0.03, 0.08, 0.03, 1e-9, 0.08, 0.};
static const double ALLOW_MEAN[] = {0.01, 0.01, 0.01, 1e-9, 0.02, 0.};

// ------------------------------------------------------------------------------------------------------------
struct CovSpec
{
  std::string type;
  double param = 1.;
  std::vector<double> ranges, angles, sills;
};
struct ModelSpec
{
  int ndim = 2, nvar = 1;
  std::vector<CovSpec> covs;
  std::vector<double> means;
};
static std::unique_ptr<Model> buildModel(const ModelSpec& m)
{
  Model* model = nullptr;
  for (size_t i = 0; i < m.covs.size(); i++)
  {
    const CovSpec& c = m.covs[i];
    ECov type        = ECov::fromKey(c.type);
    VectorDouble ranges(c.ranges), sills(c.sills), angles(c.angles);
    if (i == 0) model = Model::createFromParam(type, 1., 1., c.param, ranges, sills, angles);
    else model->addCovFromParam(type, 1., 1., c.param, ranges, sills, angles);
  }
  if (model == nullptr) throw SkipCase{"model-null"};
  model->setMeans(VectorDouble(m.means));
  return std::unique_ptr<Model>(model);
}

struct Support
{
  int ndim = 2;
  bool grid = true;
  std::vector<int> nx;
  std::vector<double> dx, x0;
  int S = 0;
  std::vector<double> xy; // S * ndim, site-major
  std::vector<char> active; // grid with a selection: 1 = active node (empty: no selection). Masked nodes take no part in any statistic
  bool isActive(int s) const { return active.empty() || active[s]; }
  double coord(int s, int d) const { return xy[s * ndim + d]; }
};
static void gridSupport(Support& sp, int ndim, std::vector<int> nx, double dx)
{
  sp.ndim = ndim;
  sp.grid = true;
  sp.nx   = nx;
  sp.dx.assign(ndim, dx);
  sp.x0.assign(ndim, 0.);
  sp.S = 1;
  for (int n : nx) sp.S *= n;
  sp.xy.resize(sp.S * ndim);
  for (int s = 0; s < sp.S; s++)
  {
    int k = s;
    for (int d = 0; d < ndim; d++)
    {
      sp.xy[s * ndim + d] = (k % nx[d]) * dx;
      k /= nx[d];
    }
  }
}
static std::unique_ptr<Db> buildDb(const Support& sp)
{
  if (sp.grid)
  {
    std::unique_ptr<Db> g(DbGrid::create(VectorInt(sp.nx), VectorDouble(sp.dx), VectorDouble(sp.x0)));
    if (!sp.active.empty())
    {
      VectorDouble sel(sp.S);
      for (int s = 0; s < sp.S; s++) sel[s] = sp.active[s] ? 1. : 0.;
      g->addColumns(sel, "sel", ELoc::SEL);
    }
    return g;
  }
  std::vector<double> tab(sp.S * sp.ndim);
  for (int s = 0; s < sp.S; s++)
    for (int d = 0; d < sp.ndim; d++) tab[d * sp.S + s] = sp.coord(s, d);
  VectorString names, locs;
  for (int d = 0; d < sp.ndim; d++)
  {
    names.push_back("x" + std::to_string(d + 1));
    locs.push_back("x" + std::to_string(d + 1));
  }
  return std::unique_ptr<Db>(Db::createFromSamples(sp.S, ELoadBy::COLUMN, VectorDouble(tab), names, locs));
}

// full covariance between (variable, site) pairs, index = iv * S + s
struct FullCov
{
  int n = 0;
  std::vector<double> c;
  double operator()(int a, int b) const { return c[(size_t)a * n + b]; }
};
static FullCov modelCov(const Model& model, const Support& sp, int nvar)
{
  FullCov f;
  int S = sp.S;
  f.n   = nvar * S;
  f.c.assign((size_t)f.n * f.n, 0.);
  std::vector<SpacePoint> P;
  for (int s = 0; s < S; s++)
  {
    VectorDouble x(sp.ndim);
    for (int d = 0; d < sp.ndim; d++) x[d] = sp.coord(s, d);
    P.emplace_back(x);
  }
  if (sp.grid)
  {
    // stationary model on a regular grid: one evaluation per offset
    int ndim = sp.ndim;
    std::vector<int> span(ndim), idx(ndim);
    int ntab = 1;
    for (int d = 0; d < ndim; d++) { span[d] = 2 * sp.nx[d] - 1; ntab *= span[d]; }
    std::vector<double> tab((size_t)ntab * nvar * nvar);
    VectorDouble o(ndim, 0.), h(ndim);
    SpacePoint O(o);
    for (int t = 0; t < ntab; t++)
    {
      int k = t;
      for (int d = 0; d < ndim; d++) { h[d] = ((k % span[d]) - (sp.nx[d] - 1)) * sp.dx[d]; k /= span[d]; }
      SpacePoint H(h);
      for (int iv = 0; iv < nvar; iv++)
        for (int jv = 0; jv < nvar; jv++) tab[((size_t)t * nvar + iv) * nvar + jv] = model.eval(O, H, iv, jv);
    }
    std::vector<std::vector<int>> ij(S, std::vector<int>(ndim));
    for (int s = 0; s < S; s++)
    {
      int k = s;
      for (int d = 0; d < ndim; d++) { ij[s][d] = k % sp.nx[d]; k /= sp.nx[d]; }
    }
    for (int a = 0; a < S; a++)
      for (int b = 0; b < S; b++)
      {
        int t = 0, mul = 1;
        for (int d = 0; d < ndim; d++) { t += (ij[b][d] - ij[a][d] + sp.nx[d] - 1) * mul; mul *= span[d]; }
        for (int iv = 0; iv < nvar; iv++)
          for (int jv = 0; jv < nvar; jv++) f.c[(size_t)(iv * S + a) * f.n + jv * S + b] = tab[((size_t)t * nvar + iv) * nvar + jv];
      }
  }
  else
  {
    for (int a = 0; a < S; a++)
      for (int b = 0; b < S; b++)
        for (int iv = 0; iv < nvar; iv++)
          for (int jv = 0; jv < nvar; jv++) f.c[(size_t)(iv * S + a) * f.n + jv * S + b] = model.eval(P[a], P[b], iv, jv);
  }
  return f;
}

// ------------------------------------------------------------------------------------------------------------
// statistics
// ------------------------------------------------------------------------------------------------------------
struct Stat
{
  std::string cls; // mean, variance, cov-major, cov-minor, cov-other, cross0, cross-lag
  int iv = 0, jv = 0;
  std::vector<int> a, b; // site pairs (empty for mean: all sites)
  bool psd = false;
  double E = 0, V1 = 0, scale = 1; // expectation, per-replicate variance, sqrt(Cii(0) Cjj(0))
  double sum = 0;                  // accumulated over replicates
  std::string label;
};
static void finishStat(Stat& st, const FullCov& C, int S)
{
  int P = (int)st.a.size();
  if (st.cls == "mean")
  {
    double v = 0;
    if (!st.a.empty())
    { // mean over the listed (active) sites only
      for (int a : st.a)
        for (int b : st.a) v += C(st.iv * S + a, st.iv * S + b);
      st.E  = 0;
      st.V1 = v / ((double)P * P);
      st.scale = std::sqrt(C(st.iv * S, st.iv * S));
      return;
    }
    for (int a = 0; a < S; a++)
      for (int b = 0; b < S; b++) v += C(st.iv * S + a, st.iv * S + b);
    st.E     = 0;
    st.V1    = v / ((double)S * S);
    st.scale = std::sqrt(C(st.iv * S, st.iv * S));
    return;
  }
  double e = 0, v = 0;
  int oi = st.iv * S, oj = st.jv * S;
  for (int p = 0; p < P; p++) e += C(oi + st.a[p], oj + st.b[p]);
  for (int p = 0; p < P; p++)
    for (int q = 0; q < P; q++)
      v += C(oi + st.a[p], oi + st.a[q]) * C(oj + st.b[p], oj + st.b[q]) + C(oi + st.a[p], oj + st.b[q]) * C(oj + st.b[p], oi + st.a[q]);
  st.E     = e / P;
  st.V1    = v / ((double)P * P);
  st.scale = std::sqrt(C(oi, oi) * C(oj, oj));
}
// accumulate one realisation: z[iv][s] already centred by the model mean
static void accumulate(std::vector<Stat>& stats, const std::vector<std::vector<double>>& z, int S)
{
  for (auto& st : stats)
  {
    if (st.cls == "mean")
    {
      double s = 0;
      if (!st.a.empty())
      {
        for (int a : st.a) s += z[st.iv][a];
        st.sum += s / (double)st.a.size();
        continue;
      }
      for (int a = 0; a < S; a++) s += z[st.iv][a];
      st.sum += s / S;
      continue;
    }
    double s = 0;
    int P    = (int)st.a.size();
    for (int p = 0; p < P; p++) s += z[st.iv][st.a[p]] * z[st.jv][st.b[p]];
    st.sum += s / P;
  }
}
static void judge(Ctx& c, std::vector<Stat>& stats, int sim, const std::string& keyBase, int R, bool meanNonZero,
                  const std::string& foldKey = "", double allowOverride = -1.)
{
  const double allowCov = allowOverride >= 0 ? allowOverride : ALLOW[sim];
  // means first: a covariance centred on a wrong mean is contaminated by the square of the mean error, which would only
  // repeat the mean finding under other keys; in that case the covariance statistics are skipped (and counted)
  bool meanBad = false;
  for (auto& st : stats)
  {
    if (st.cls != "mean") continue;
    double T = st.sum / R, sd = std::sqrt(std::max(st.V1, 0.) / R), bound = ZLEVEL * sd + ALLOW_MEAN[sim] * st.scale;
    if (!(std::fabs(T - st.E) <= bound)) meanBad = true;
  }
  for (auto& st : stats)
  {
    if (meanBad && st.cls != "mean") { c.skip("covariance:mean-failed"); continue; }
    double T = st.sum / R, sd = std::sqrt(std::max(st.V1, 0.) / R), bound;
    if (st.cls == "mean") bound = ZLEVEL * sd + ALLOW_MEAN[sim] * st.scale;
    else bound = ZLEVEL * sd * ((st.psd ? 1. : std::sqrt(2.)) + ZLEVEL / std::sqrt(2. * R)) + allowCov * st.scale;
    double err = std::fabs(T - st.E);
    bool ok    = std::isfinite(T) && err <= bound;
    c.check(st.cls == "mean" ? "mean" : st.cls == "variance" ? "variance" : (st.iv == st.jv ? "covariance" : "cross-covariance"),
            // key = simulator : support / model class : {mean, variance, covariance, cross-covariance}; the lag class is in the detail
            (!foldKey.empty() && st.cls != "mean") ? foldKey :
            (sim == S_TUB && st.cls != "mean" && st.iv != st.jv) ? std::string("C14:simtub:cross-covariance") :
            keyBase + ":" + (st.cls == "mean" ? std::string("mean") + (meanNonZero ? ":model-mean-nonzero" : ":model-mean-zero")
                             : st.cls == "variance" ? "variance" : st.iv == st.jv ? "covariance" : "cross-covariance"), ok, std::isfinite(T) ? err : INFINITY, bound,
            ok ? "" : fmt("[%s] %s: ensemble %.6g model %.6g, bound %.4g (z*SD part %.4g, allowance %.4g), R=%d", st.cls.c_str(), st.label.c_str(), T, st.E, bound,
                          bound - (st.cls == "mean" ? ALLOW_MEAN[sim] : allowCov) * st.scale, (st.cls == "mean" ? ALLOW_MEAN[sim] : allowCov) * st.scale, R));
  }
}

// lag classes on a grid: pairs (s, s + h)
static void gridPairs(const Support& sp, const std::vector<int>& h, std::vector<int>& a, std::vector<int>& b, Rng& r, int maxP)
{
  a.clear();
  b.clear();
  int ndim = sp.ndim;
  for (int s = 0; s < sp.S; s++)
  {
    int k = s, t = 0, mul = 1;
    bool in = true;
    for (int d = 0; d < ndim; d++)
    {
      int i = k % sp.nx[d] + h[d];
      k /= sp.nx[d];
      if (i < 0 || i >= sp.nx[d]) in = false;
      t += i * mul;
      mul *= sp.nx[d];
    }
    if (in && sp.isActive(s) && sp.isActive(t)) { a.push_back(s); b.push_back(t); }
  }
  if ((int)a.size() > maxP)
  {
    std::vector<int> p = r.perm((int)a.size());
    std::vector<int> a2, b2;
    for (int i = 0; i < maxP; i++) { a2.push_back(a[p[i]]); b2.push_back(b[p[i]]); }
    a = a2;
    b = b2;
  }
}

struct Case
{
  int sim = 0;
  Support sp;
  ModelSpec model;
  int R = 400, batch = 10, nbtuba = 100;
  // lag list (grid): offset + class
  std::vector<std::vector<int>> lags;
  std::vector<std::string> lagCls;
  // specifics
  bool fftAlias = true;
  double fftPercent = 0.1;
  int ns = 200;
  int cholKind = 0; // 0 dense cov (inverse=false), 1 dense precision (inverse=true), 2 sparse precision (inverse=true), 3 CholeskyDense::evalSimulate, 4 CholeskySparse::evalSimulate
  int spdeChol = 0;
  std::string sig;
};

// direction vectors on the grid and their angle (degrees, counter-clockwise from +x)
static const int DIRS[8][2] = {{1, 0}, {0, 1}, {1, 1}, {1, -1}, {2, 1}, {1, 2}, {2, -1}, {1, -2}};

static CovSpec covOf(Rng& r, const std::string& type, int ndim, int nvar, double a1, double ratio, double angleDeg, double sillScale,
                     double rho)
{
  CovSpec c;
  c.type  = type;
  c.param = type == "MATERN" ? r.pick(std::vector<double>{0.5, 1., 1.5, 2.5}) : type == "STABLE" ? (r.coin(0.7) ? r.uni(1.05, 1.7) : r.uni(0.7, 0.95)) : type == "BESSELJ" ? r.uni(1.2, 2.5) : 1.;
  c.ranges.assign(ndim, a1);
  for (int d = 1; d < ndim; d++) c.ranges[d] = a1 * ratio;
  if (ndim == 2) c.angles = {angleDeg, 0.};
  if (ndim == 3) c.angles = {angleDeg, 0., 0.};
  if (nvar == 1) c.sills = {sillScale};
  else
  {
    double s1 = sillScale, s2 = sillScale * r.loguni(0.3, 3.);
    c.sills   = {s1, rho * std::sqrt(s1 * s2), rho * std::sqrt(s1 * s2), s2};
  }
  return c;
}

// anisotropic rotated model on a grid + lags along and across its axes
static void drawGridModel(Rng& r, Case& cs, const std::vector<std::string>& allowed, int nvarMax, bool nested, int anisoMode,
                          double probMean = 1., int sillMode = 0, double isoRange = 0.)
{
  // anisoMode: 0 isotropic, 1 anisotropic, 2 random (80% anisotropic); sillMode: 0 random (far from 1), 1 unit sill
  int nvar = (nvarMax > 1 && r.coin(0.45)) ? 2 : 1;
  cs.model.ndim = 2;
  cs.model.nvar = nvar;
  int di        = r.irange(0, 7);
  int dx = DIRS[di][0], dy = DIRS[di][1];
  double dl     = std::sqrt((double)(dx * dx + dy * dy));
  // documented convention (CovAniso / Rotation): the first range is along the direction of angle 'angles[0]' (degrees,
  // counter-clockwise from the first axis); the lags below are placed with Model::eval, so no convention is asserted here
  double ang    = std::atan2((double)dy, (double)dx) * 180. / M_PI;
  bool aniso    = anisoMode == 1 || (anisoMode == 2 && r.coin(0.8));
  // the lag 'd' along the major axis sits at ~0.29 range (correlation ~0.6), the same lag across the axes is beyond the
  // short range: swapping the axes moves both statistics by ~0.6 sill
  double a1     = aniso ? 3.5 * dl * r.uni(0.9, 1.2) : (isoRange > 0 ? isoRange : r.uni(2.5, 5.));
  double ratio  = aniso ? dl * r.uni(0.8, 1.0) / a1 : 1.;
  double sill   = sillMode == 1 ? 1. : r.coin(0.5) ? r.loguni(0.03, 0.2) : r.loguni(8., 50.);
  double rho    = (r.coin() ? 1. : -1.) * r.uni(0.7, 0.95);
  cs.model.covs.push_back(covOf(r, r.pick(allowed), 2, nvar, a1, ratio, ang, sill, rho));
  if (nested && r.coin(0.4))
  {
    // second structure: shorter, other anisotropy axis, cross-correlation of the other sign
    int dj = r.irange(0, 7);
    cs.model.covs.push_back(covOf(r, r.pick(allowed), 2, nvar, r.uni(2., 3.5), r.coin() ? 1. : r.uni(0.4, 0.7),
                                  std::atan2((double)DIRS[dj][1], (double)DIRS[dj][0]) * 180. / M_PI, sill * r.uni(0.3, 1.), -rho));
  }
  cs.model.means.assign(nvar, 0.);
  bool withMean = r.coin(probMean);
  if (withMean)
    for (auto& m : cs.model.means) m = (r.coin() ? 1 : -1) * r.uni(3., 30.) * std::sqrt(sill);
  // lags: 0, along the major axis (1x, 2x the direction vector), across (perpendicular vector), one other
  cs.lags    = {{0, 0}};
  cs.lagCls  = {"variance"};
  cs.lags.push_back({dx, dy});         cs.lagCls.push_back("cov-major");
  cs.lags.push_back({2 * dx, 2 * dy}); cs.lagCls.push_back("cov-major");
  cs.lags.push_back({-dy, dx});        cs.lagCls.push_back("cov-minor");
  cs.lags.push_back({-2 * dy, 2 * dx}); cs.lagCls.push_back("cov-minor");
  if (dx != 0 && dy != 0) { cs.lags.push_back({1, 0}); cs.lagCls.push_back("cov-other"); }
  else { cs.lags.push_back({1, 1}); cs.lagCls.push_back("cov-other"); }
  cs.sig = fmt("%s:grid%dx%d:nvar=%d:ncov=%d:c0=%s:%s:dir=%d,%d:sill%s", SIMN[cs.sim], cs.sp.nx[0], cs.sp.nx[1], nvar, (int)cs.model.covs.size(),
               cs.model.covs[0].type.c_str(), aniso ? "aniso" : "iso", dx, dy, sill == 1 ? "=1" : sill < 1 ? "<1" : ">1");
  if (nvar == 2) cs.sig += rho > 0 ? ":rho+" : ":rho-";
  cs.sig += withMean ? ":mean!=0" : ":mean=0";
}

static std::vector<Stat> gridStats(Rng& r, const Case& cs, const FullCov& C)
{
  std::vector<Stat> stats;
  int nvar = cs.model.nvar, S = cs.sp.S;
  for (int iv = 0; iv < nvar; iv++)
  {
    Stat m;
    m.cls = "mean";
    m.iv = m.jv = iv;
    m.label     = fmt("mean of variable %d", iv + 1);
    if (!cs.sp.active.empty())
      for (int s = 0; s < S; s++) if (cs.sp.active[s]) m.a.push_back(s);
    finishStat(m, C, S);
    stats.push_back(m);
  }
  for (size_t l = 0; l < cs.lags.size(); l++)
  {
    std::vector<int> a, b;
    gridPairs(cs.sp, cs.lags[l], a, b, r, 256);
    if (a.size() < 20) continue;
    bool zero = true;
    for (int hd : cs.lags[l]) if (hd != 0) zero = false;
    for (int iv = 0; iv < nvar; iv++)
      for (int jv = 0; jv < nvar; jv++)
      {
        if (zero && jv < iv) continue;
        Stat st;
        st.iv = iv;
        st.jv = jv;
        st.a  = a;
        st.b  = b;
        if (iv == jv) st.cls = cs.lagCls[l];
        else st.cls = zero ? "cross0" : "cross-" + cs.lagCls[l].substr(4);
        st.psd   = zero && iv == jv;
        st.label = cs.lags[l].size() == 3 ? fmt("C%d%d(h=(%d,%d,%d))", iv + 1, jv + 1, cs.lags[l][0], cs.lags[l][1], cs.lags[l][2])
                                          : fmt("C%d%d(h=(%d,%d))", iv + 1, jv + 1, cs.lags[l][0], cs.lags[l][1]);
        finishStat(st, C, S);
        stats.push_back(st);
      }
  }
  return stats;
}

// scattered points: pair classes by model correlation of the first variable
static std::vector<Stat> pointStats(Rng& r, const Case& cs, const FullCov& C)
{
  std::vector<Stat> stats;
  int nvar = cs.model.nvar, S = cs.sp.S;
  for (int iv = 0; iv < nvar; iv++)
  {
    Stat m;
    m.cls = "mean";
    m.iv = m.jv = iv;
    m.label     = fmt("mean of variable %d", iv + 1);
    finishStat(m, C, S);
    stats.push_back(m);
  }
  const double edges[] = {1.01, 0.6, 0.3, 0.1, -0.05, -2.};
  const char* names[]  = {"cov-high", "cov-mid", "cov-low", "cov-zero", "cov-neg"};
  std::vector<std::vector<int>> A(5), B(5);
  double c0 = C(0, 0);
  for (int a = 0; a < S; a++)
    for (int b = a + 1; b < S; b++)
    {
      double rho = C(a, b) / c0;
      for (int k = 0; k < 5; k++)
        if (rho < edges[k] && rho >= edges[k + 1]) { A[k].push_back(a); B[k].push_back(b); }
    }
  // lag 0
  {
    std::vector<int> all(S);
    for (int s = 0; s < S; s++) all[s] = s;
    for (int iv = 0; iv < nvar; iv++)
      for (int jv = iv; jv < nvar; jv++)
      {
        Stat st;
        st.iv = iv; st.jv = jv; st.a = all; st.b = all;
        st.cls   = iv == jv ? "variance" : "cross0";
        st.psd   = iv == jv;
        st.label = fmt("C%d%d(0)", iv + 1, jv + 1);
        finishStat(st, C, S);
        stats.push_back(st);
      }
  }
  for (int k = 0; k < 5; k++)
  {
    if (A[k].size() < 15) continue;
    if (A[k].size() > 200)
    {
      std::vector<int> p = r.perm((int)A[k].size()), a2, b2;
      for (int i = 0; i < 200; i++) { a2.push_back(A[k][p[i]]); b2.push_back(B[k][p[i]]); }
      A[k] = a2;
      B[k] = b2;
    }
    for (int iv = 0; iv < nvar; iv++)
      for (int jv = 0; jv < nvar; jv++)
      {
        Stat st;
        st.iv = iv; st.jv = jv; st.a = A[k]; st.b = B[k];
        st.cls   = iv == jv ? names[k] : std::string("cross-") + (names[k] + 4);
        st.label = fmt("C%d%d over the %zu pairs of class %s", iv + 1, jv + 1, A[k].size(), names[k]);
        finishStat(st, C, S);
        stats.push_back(st);
      }
  }
  return stats;
}

// ------------------------------------------------------------------------------------------------------------
// one batch of realisations: z[r][iv][s] (raw, not centred); returns false if the library call failed
// ------------------------------------------------------------------------------------------------------------
static bool collectNew(const Db* db, int ncol0, int nvar, int nb, int S, bool varMajor, std::vector<std::vector<std::vector<double>>>& z)
{
  int nc = db->getColumnNumber();
  if (nc - ncol0 != nvar * nb) return false;
  z.assign(nb, std::vector<std::vector<double>>(nvar, std::vector<double>(S)));
  for (int is = 0; is < nb; is++)
    for (int iv = 0; iv < nvar; iv++)
    {
      // Db::getSimRank: isimu + nbsimu * ivar
      int col = ncol0 + (varMajor ? is + nb * iv : iv + nvar * is);
      for (int s = 0; s < S; s++) z[is][iv][s] = db->getValueByColIdx(s, col);
    }
  return true;
}

struct CholCtx
{
  std::unique_ptr<MatrixSquareSymmetric> dense;
  std::unique_ptr<MatrixSparse> sparse;
  std::unique_ptr<MatrixSquareSymmetricSim> sim;
  std::unique_ptr<CholeskyDense> cd;
  std::unique_ptr<CholeskySparse> csp;
};

static bool runBatch(const Case& cs, Model* model, CholCtx* chol, int seed, int nb, std::vector<std::vector<std::vector<double>>>& z)
{
  int nvar = cs.model.nvar, S = cs.sp.S;
  switch (cs.sim)
  {
    case S_TUB:
    {
      auto db   = buildDb(cs.sp);
      int ncol0 = db->getColumnNumber();
      if (simtub(nullptr, db.get(), model, nullptr, nb, seed, cs.nbtuba) != 0) return false;
      return collectNew(db.get(), ncol0, nvar, nb, S, true, z);
    }
    case S_FFT:
    {
      if (cs.fftPercent > 1.)
      {
        // long-range class: many realisations are needed and the spectral preparation dominates the cost of a call:
        // nb simulations per call (one output variable per simulation)
        auto db      = buildDb(cs.sp);
        int ncol0    = db->getColumnNumber();
        DbGrid* grid = dynamic_cast<DbGrid*>(db.get());
        SimuFFTParam par(cs.fftAlias, cs.fftPercent);
        int s2 = 1 + (int)(((unsigned)seed * 2654435761u) % 2000000000u);
        if (s2 % 20000159 == 0) s2++;
        if (simfft(grid, model, par, nb, s2) != 0) return false;
        return collectNew(db.get(), ncol0, 1, nb, S, true, z);
      }
      // one simulation per call, each with its own seed (simfft(nbsimu > 1) used to return only the first one)
      z.clear();
      for (int k = 0; k < nb; k++)
      {
        auto db      = buildDb(cs.sp);
        int ncol0    = db->getColumnNumber();
        DbGrid* grid = dynamic_cast<DbGrid*>(db.get());
        SimuFFTParam par(cs.fftAlias, cs.fftPercent);
        int s2 = 1 + (int)(((unsigned)seed * 2654435761u + 40503u * (unsigned)k) % 2000000000u);
        if (s2 % 20000159 == 0) s2++;
        if (simfft(grid, model, par, 1, s2) != 0) return false;
        std::vector<std::vector<std::vector<double>>> z1;
        if (!collectNew(db.get(), ncol0, 1, 1, S, true, z1)) return false;
        z.push_back(z1[0]);
      }
      return true;
    }
    case S_SPECTRAL:
    {
      auto db   = buildDb(cs.sp);
      int ncol0 = db->getColumnNumber();
      if (simuSpectral(nullptr, db.get(), model, nb, seed, cs.ns) != 0) return false;
      return collectNew(db.get(), ncol0, 1, nb, S, true, z);
    }
    case S_SPDE:
    {
      auto db   = buildDb(cs.sp);
      int ncol0 = db->getColumnNumber();
      law_set_random_seed(seed); // documented convention: global seed set immediately before the call
      (void)simulateSPDE(nullptr, db.get(), model, nullptr, nb, nullptr, cs.spdeChol, SPDEParam());
      return collectNew(db.get(), ncol0, 1, nb, S, true, z);
    }
    case S_CHOL:
    {
      law_set_random_seed(seed);
      z.assign(nb, std::vector<std::vector<double>>(1, std::vector<double>(S)));
      for (int k = 0; k < nb; k++)
      {
        VectorDouble w = VH::simulateGaussian(S);
        VectorDouble out;
        int rc = cs.cholKind <= 2 ? chol->sim->evalSimulate(w, out) : cs.cholKind == 3 ? chol->cd->evalSimulate(w, out) : chol->csp->evalSimulate(w, out);
        if (rc != 0 || (int)out.size() != S) return false;
        for (int s = 0; s < S; s++) z[k][0][s] = out[s];
      }
      return true;
    }
  }
  return false;
}

static int drawSimSeed(Rng& r)
{
  for (;;)
  {
    int s = (int)(r.next() % 2000000000ULL) + 1;
    if (s % 20000159 == 0) continue;
    if ((((unsigned)105u * (unsigned)s) % 20000159u) == 0) continue;
    return s;
  }
}

// ------------------------------------------------------------------------------------------------------------
// field cases
// ------------------------------------------------------------------------------------------------------------
static void fieldCase(Rng& r, Ctx& c, int sim, int variant)
{
  bool th = c.thorough();
  Case cs;
  cs.sim = sim;
  FullCov C;
  CholCtx chol;
  std::unique_ptr<Model> model;
  std::string support = "grid", specClass, fftClass;
  bool meanProbe = false; // simulate a few more realisations with a non-zero model mean and test the ensemble mean only
  defineDefaultSpace(ESpaceType::RN, 2);

  if (sim == S_TUB && variant == 0)
  {
    int n = th ? 20 : 16;
    gridSupport(cs.sp, 2, {n, n}, 1.);
    drawGridModel(r, cs, {"SPHERICAL", "EXPONENTIAL", "GAUSSIAN", "CUBIC", "MATERN", "STABLE", "SINCARD", "BESSELJ"}, 2, true, 2);
    if (r.coin(0.2))
    {
      CovSpec ng = cs.model.covs[0];
      ng.type    = "NUGGET";
      ng.angles.clear();
      for (auto& s : ng.sills) s *= 0.3;
      cs.model.covs.push_back(ng);
      cs.sig += ":nugget";
    }
    cs.nbtuba = r.pick(std::vector<int>{100, 200});
    cs.R      = th ? 6000 : 1200;
    cs.batch  = 20;
    cs.sig += fmt(":nbt=%d", cs.nbtuba);
    // two of the five grid slots of a block carry a selection (about a quarter of the nodes masked, drawn from a stream of
    // its own so that the other draws of the case are unchanged): the statistics then use the active nodes only
    int slot = (int)((c.icase * 5) % 16);
    if (slot == 1 || slot == 3)
    {
      Rng rm(c.seed, "C14mask", (uint64_t)c.icase);
      cs.sp.active.assign(cs.sp.S, 1);
      for (int s = 0; s < cs.sp.S; s++) if (rm.coin(0.25)) cs.sp.active[s] = 0;
      cs.sig += ":masked";
      c.probe("simtub-grid-masked");
    }
  }
  else if (sim == S_TUB)
  {
    // scattered points in 1, 2 or 3 dimensions (point path of the turning bands)
    int ndim = variant == 1 ? 2 : variant == 2 ? 3 : 1;
    defineDefaultSpace(ESpaceType::RN, ndim);
    support    = "points";
    cs.sp.ndim = ndim;
    cs.sp.grid = false;
    cs.sp.S    = th ? 120 : 70;
    double L   = 10.;
    cs.sp.xy.resize(cs.sp.S * ndim);
    for (auto& v : cs.sp.xy) v = r.uni(0, L);
    int nvar      = r.coin(0.4) ? 2 : 1;
    cs.model.ndim = ndim;
    cs.model.nvar = nvar;
    double sill   = r.coin(0.6) ? r.loguni(0.03, 0.3) : r.loguni(3., 30.);
    double rho    = (r.coin() ? 1. : -1.) * r.uni(0.7, 0.95);
    std::string t = r.pick(std::vector<std::string>{"SPHERICAL", "EXPONENTIAL", "GAUSSIAN", "CUBIC", "MATERN", "STABLE"});
    CovSpec cv    = covOf(r, t, ndim, nvar, r.uni(0.3, 0.6) * L, ndim > 1 ? r.uni(0.2, 0.4) : 1., r.uni(-90, 90), sill, rho);
    if (ndim == 3) { cv.ranges[2] = cv.ranges[0] * r.uni(0.2, 1.); cv.angles = {r.uni(-90, 90), r.uni(-30, 30), r.uni(-30, 30)}; }
    cs.model.covs.push_back(cv);
    cs.model.means.assign(nvar, 0.);
    for (auto& m : cs.model.means) m = (r.coin() ? 1 : -1) * r.uni(3., 30.) * std::sqrt(sill);
    cs.nbtuba = r.pick(std::vector<int>{100, 200});
    cs.R      = th ? 6000 : 1200;
    cs.batch  = 20;
    cs.sig    = fmt("simtub:points:ndim=%d:nvar=%d:c0=%s:sill%s:nbt=%d", ndim, nvar, t.c_str(), sill < 1 ? "<1" : ">1", cs.nbtuba);
    if (nvar == 2) cs.sig += rho > 0 ? ":rho+" : ":rho-";
  }
  else if (sim == S_FFT)
  {
    // variant 0: square grid, isotropic short-range model (the configuration where the method error stays within the
    // allowance); variant 1: anisotropic model on a square grid; variant 2: isotropic model on a non-square grid
    int n = th ? 20 : 16;
    if (variant == 3)
    {
      // 3-D: cubic grid, isotropic short-range model (the 3-D Hermitian symmetry of the spectral array, _defineSym3)
      int n3 = th ? 12 : 10;
      defineDefaultSpace(ESpaceType::RN, 3);
      gridSupport(cs.sp, 3, {n3, n3, n3}, 1.);
      cs.model.ndim  = 3;
      cs.model.nvar  = 1;
      double sill    = r.coin(0.5) ? r.loguni(0.03, 0.2) : r.loguni(8., 50.);
      std::string t3 = r.pick(std::vector<std::string>{"SPHERICAL", "EXPONENTIAL", "CUBIC", "GAUSSIAN"});
      cs.model.covs.push_back(covOf(r, t3, 3, 1, r.uni(0.14, 0.19) * n3 * (t3 == "EXPONENTIAL" || t3 == "GAUSSIAN" ? 0.6 : 1.), 1., 0., sill, 0.));
      cs.model.means.assign(1, 0.);
      cs.lags   = {{0, 0, 0}, {1, 0, 0}, {0, 1, 0}, {0, 0, 1}, {1, 1, 0}, {1, 0, 1}, {0, 1, 1}};
      cs.lagCls = {"variance", "cov-major", "cov-major", "cov-major", "cov-other", "cov-other", "cov-other"};
      cs.sig    = fmt("simfft:grid3d-%d:c0=%s:sill%s", n3, t3.c_str(), sill < 1 ? "<1" : ">1");
    }
    else if (variant == 4)
    {
      // long range and loose 'percent': the discrete periodic covariance has negative spectral terms, which CalcSimuFFT::_prepar
      // clips before rescaling the positive ones. The field is almost fully correlated over the grid: many realisations
      // are needed (they are cheap), the bound comes from the same formula
      gridSupport(cs.sp, 2, {n, n}, 1.);
      drawGridModel(r, cs, {"CUBIC"}, 1, false, 0, 0., 0, r.uni(1.8, 2.2) * n);
      // only the mean and the variance are judged in this class: with a range of two grid sizes the periodic embedding leaves a
      // systematic error of several % of the sill on the lagged covariances (measured on the unchanged tree), too close to the
      // allowance to be asserted
      cs.lags   = {{0, 0}};
      cs.lagCls = {"variance"};
    }
    else
    {
    if (variant == 2) gridSupport(cs.sp, 2, {n + 4, n - 3}, 1.);
    else gridSupport(cs.sp, 2, {n, n}, 1.);
    drawGridModel(r, cs, {"SPHERICAL", "EXPONENTIAL", "GAUSSIAN", "CUBIC", "MATERN"}, 1, false, variant == 1 ? 1 : 0, 0., 0,
                  r.uni(0.125, 0.17) * n);
    }
    support       = variant == 4 ? "grid-square:long-range" : variant == 3 ? "grid-cubic-3d:iso" : variant == 2 ? "grid-nonsquare" : variant == 1 ? "grid-square:aniso" : "grid-square:iso";
    fftClass      = variant == 2 ? "grid-nonsquare" : variant == 1 ? "anisotropy-ignored" : "";
    meanProbe     = variant == 0;
    cs.fftAlias   = r.coin(0.7);
    if (variant == 4) cs.fftAlias = false; // (with the anti-aliasing sum the negative spectral terms of this class all but vanish)
    cs.fftPercent = variant == 4 ? 50. : 0.1;
    cs.R          = variant == 4 ? (th ? 40000 : 20000) : th ? 4000 : 800;
    cs.batch      = variant == 4 ? 250 : 10;
    cs.sig += fmt(":alias=%d", (int)cs.fftAlias);
  }
  else if (sim == S_SPECTRAL)
  {
    // variant (block index mod 4) selects one input class per open finding, so that every run visits each of them:
    //   0 gaussian, unit sill, isotropic range 2.9 cells (a lag of 2 cells sits where exp(-3x) and exp(-1.5x) differ most)
    //   1 matern nu in {1.5, 2.5}, unit sill, isotropic
    //   2 exponential / matern(0.5) with a sill far from 1
    //   3 reference: exponential / matern(0.5), unit sill, possibly anisotropic (+ the model-mean probe)
    int n = th ? 20 : 16;
    gridSupport(cs.sp, 2, {n, n}, 1.);
    if (variant == 0) drawGridModel(r, cs, {"GAUSSIAN"}, 1, false, 0, 0., 1, 2.9);
    else if (variant == 1)
    {
      drawGridModel(r, cs, {"MATERN"}, 1, false, 0, 0., 1, 4.);
      cs.model.covs[0].param = r.coin() ? 1.5 : 2.5;
    }
    else
    {
      drawGridModel(r, cs, {"EXPONENTIAL", "MATERN"}, 1, false, 2, 0., variant == 2 ? 0 : 1);
      if (cs.model.covs[0].type == "MATERN") cs.model.covs[0].param = 0.5;
    }
    specClass = variant == 0 ? "gaussian-range" : variant == 1 ? "matern-nu" : variant == 2 ? "sill-not-applied" : "reference";
    support   = "grid";
    meanProbe = variant == 3;
    cs.ns    = r.pick(std::vector<int>{100, 400});
    cs.R     = th ? 6000 : 2000;
    cs.batch = 20;
    cs.sig += fmt(":%s:nu=%g:ns=%d", specClass.c_str(), cs.model.covs[0].param, cs.ns);
  }
  else if (sim == S_SPDE)
  {
    int n = 12;
    gridSupport(cs.sp, 2, {n, n}, 1.);
    drawGridModel(r, cs, {"MATERN"}, 1, false, 2, 0.);
    meanProbe = true;
    cs.model.covs[0].param = 1.;
    // keep the internal mesh small: ranges of 5-7 cells, moderate anisotropy
    cs.model.covs[0].ranges[0] = r.uni(5., 7.);
    if (cs.model.covs[0].ranges[1] != cs.model.covs[0].ranges[0]) cs.model.covs[0].ranges[1] = cs.model.covs[0].ranges[0] * r.uni(0.4, 0.6);
    else cs.model.covs[0].ranges[1] = cs.model.covs[0].ranges[0];
    cs.spdeChol = r.irange(0, 1);
    cs.spdeChol = (int)((c.icase / 16) % 2); // both solvers in every run (the draw above is kept so that the other draws are unchanged)
    cs.R        = th ? 2000 : 400;
    cs.batch    = 100;
    cs.sig += fmt(":chol=%d", cs.spdeChol);
  }
  else if (sim == S_CHOL)
  {
    support    = "points";
    cs.sp.ndim = 2;
    cs.sp.grid = false;
    cs.sp.S    = th ? 100 : 50;
    cs.sp.xy.resize(cs.sp.S * 2);
    for (auto& v : cs.sp.xy) v = r.uni(0, 10);
    cs.cholKind   = variant;
    cs.model.ndim = 2;
    cs.model.nvar = 1;
    double sill   = r.loguni(0.05, 20.);
    cs.model.covs.push_back(covOf(r, r.pick(std::vector<std::string>{"SPHERICAL", "EXPONENTIAL", "CUBIC"}), 2, 1, r.uni(3., 6.), r.uni(0.3, 1.), r.uni(-90, 90), sill, 0));
    cs.model.means = {0.};
    cs.R     = th ? 8000 : 1500;
    cs.batch = 50;
    cs.sig   = fmt("cholesky:kind=%d:c0=%s", cs.cholKind, cs.model.covs[0].type.c_str());
  }

  // the stable model with exponent < 1 is simulated by a migration process with a heavy-tailed random scale
  // (CalcSimuTurningBands::_migrationInit, "scale / sqrt(law_stable_standard_abgd(alpha / 2))"): ~7 times the cost of the
  // other structures. Fewer realisations there, to keep the case within the budget (the bound widens accordingly).
  for (auto& cv : cs.model.covs)
    if (cv.type == "STABLE" && cv.param < 1.) cs.R = std::max(300, cs.R / 6);
  if (c.verbose)
    for (auto& cv : cs.model.covs)
      fprintf(stderr, "CFG %s cov %s param=%g ranges=%s angles=%s sills=%s R=%d batch=%d nbtuba=%d\n", cs.sig.c_str(), cv.type.c_str(), cv.param,
              jvec(cv.ranges).c_str(), jvec(cv.angles).c_str(), jvec(cv.sills).c_str(), cs.R, cs.batch, cs.nbtuba);
  c.setSig(cs.sig);
  c.puts("config", cs.sig);
  c.putn("R", cs.R);
  clock_t tc0 = clock();
  model = buildModel(cs.model);
  int nvar = cs.model.nvar, S = cs.sp.S;
  if (sim == S_CHOL)
  {
    // the matrix handed to the simulator and the covariance it is documented to produce:
    //   MatrixSquareSymmetricSim(m, inverse): "inverse = true" -> simulate with covariance m^-1 (precision), false -> covariance m
    //   ACholesky::evalSimulate = L^-T w (ACholesky.cpp: _addSimulateToDest -> addInvLtX), i.e. covariance m^-1: this is how
    //   PrecisionOpCs uses it (m = precision matrix Q of the SPDE field)
    FullCov Cm = modelCov(*model, cs.sp, 1);
    ref::Mat M(S, S);
    if (cs.cholKind == 2 || cs.cholKind == 4)
    {
      // sparse precision: a banded SPD matrix (sites ordered along x), covariance = its inverse
      std::vector<int> ord(S);
      for (int s = 0; s < S; s++) ord[s] = s;
      for (int i = 0; i < S; i++)
        for (int j = 0; j < S; j++) M(i, j) = 0;
      for (int i = 0; i < S; i++)
      {
        M(i, i) += r.uni(0.5, 2.);
        for (int k = 1; k <= 2 && i + k < S; k++)
        {
          double w = r.uni(-1., 1.);
          M(i, i) += std::fabs(w);
          M(i + k, i + k) += std::fabs(w);
          M(i, i + k) += w;
          M(i + k, i) += w;
        }
      }
    }
    else
      for (int i = 0; i < S; i++)
        for (int j = 0; j < S; j++) M(i, j) = Cm(i, j);
    ref::LU lu(M);
    if (!lu.ok) throw SkipCase{"singular"};
    ref::Mat Minv = lu.inverse();
    bool needInv  = cs.cholKind != 0; // kinds 1..4 take a precision matrix
    // kind 1 / 3: precision = inverse of the model covariance -> simulated covariance = model covariance
    ref::Mat given = (cs.cholKind == 1 || cs.cholKind == 3) ? Minv : M;
    ref::Mat want  = (cs.cholKind == 0) ? M : (cs.cholKind == 1 || cs.cholKind == 3) ? M : Minv;
    (void)needInv;
    C.n = S;
    C.c.resize((size_t)S * S);
    for (int i = 0; i < S; i++)
      for (int j = 0; j < S; j++) C.c[(size_t)i * S + j] = (double)(0.5L * (want(i, j) + want(j, i)));
    if (cs.cholKind == 2 || cs.cholKind == 4)
    {
      NF_Triplet t;
      for (int i = 0; i < S; i++)
        for (int j = 0; j < S; j++)
          if (given(i, j) != 0) t.add(i, j, (double)given(i, j));
      t.force(S, S);
      chol.sparse.reset(MatrixSparse::createFromTriplet(t, S, S));
      if (cs.cholKind == 2) chol.sim.reset(new MatrixSquareSymmetricSim(chol.sparse.get(), true));
      else chol.csp.reset(new CholeskySparse(chol.sparse.get()));
    }
    else
    {
      chol.dense.reset(new MatrixSquareSymmetric(S));
      for (int i = 0; i < S; i++)
        for (int j = i; j < S; j++) chol.dense->setValue(i, j, (double)(0.5L * (given(i, j) + given(j, i))));
      if (cs.cholKind == 3) chol.cd.reset(new CholeskyDense(chol.dense.get()));
      else chol.sim.reset(new MatrixSquareSymmetricSim(chol.dense.get(), cs.cholKind == 1));
    }
  }
  else C = modelCov(*model, cs.sp, nvar);

  std::vector<Stat> stats = (cs.sp.grid && !cs.lags.empty()) ? gridStats(r, cs, C) : pointStats(r, cs, C);

  if (c.verbose) fprintf(stderr, "TIME setup+stats %.1f s (%zu statistics)\n", (double)(clock() - tc0) / CLOCKS_PER_SEC, stats.size());
  tc0 = clock();
  // realisations
  int done = 0;
  std::vector<std::vector<std::vector<double>>> z;
  bool failed = false;
  while (done < cs.R)
  {
    int nb   = std::min(cs.batch, cs.R - done);
    int seed = drawSimSeed(r);
    if (!runBatch(cs, model.get(), &chol, seed, nb, z)) { failed = true; break; }
    for (auto& zr : z)
    {
      for (int iv = 0; iv < nvar; iv++)
        for (int s = 0; s < S; s++) zr[iv][s] -= cs.model.means[iv];
      accumulate(stats, zr, S);
    }
    done += nb;
  }
  if (c.verbose) fprintf(stderr, "TIME realisations %.1f s\n", (double)(clock() - tc0) / CLOCKS_PER_SEC);
  std::string keyBase = std::string("C14:") + SIMN[sim] + ":" + support;
  if (sim == S_CHOL) keyBase += fmt(":kind=%d", cs.cholKind);
  if (!c.truth("call", keyBase + ":call-failed", !failed, "the simulator returned an error or an unexpected number of columns")) return;
  bool meanNonZero = false;
  for (double m : cs.model.means) if (m != 0) meanNonZero = true;
  // keys folded by root cause for the input classes of the open findings (one key whatever the statistic)
  std::string foldKey;
  if (sim == S_SPECTRAL && specClass != "reference") foldKey = "C14:spectral:" + specClass;
  if (sim == S_SPECTRAL && specClass == "reference") keyBase = "C14:spectral:reference";
  if (sim == S_FFT && !fftClass.empty()) foldKey = "C14:simfft:" + fftClass;
  // 3-D FFT on a cubic grid with a short isotropic range: measured method error < 0.01 sill on the unchanged tree, allowance 0.03
  judge(c, stats, sim, keyBase, cs.R, meanNonZero, foldKey, (sim == S_FFT && variant == 3) ? 0.03 : -1.);

  // the model mean: only the turning bands are exercised with a non-zero mean in the main run; for the other simulators a
  // short extra ensemble with the same model and a mean far from 0 checks the ensemble mean alone
  if (meanProbe)
  {
    ModelSpec ms = cs.model;
    double sd0   = std::sqrt(C(0, 0));
    ms.means     = {(r.coin() ? 1. : -1.) * r.uni(3., 30.) * sd0};
    auto model2  = buildModel(ms);
    int Rm       = sim == S_SPDE ? 100 : 200;
    Stat st;
    st.cls = "mean";
    st.iv = st.jv = 0;
    st.label      = fmt("mean of the field for a model mean of %g", ms.means[0]);
    finishStat(st, C, S);
    int got = 0;
    bool bad = false;
    while (got < Rm)
    {
      int nb = std::min(cs.batch, Rm - got);
      if (!runBatch(cs, model2.get(), &chol, drawSimSeed(r), nb, z)) { bad = true; break; }
      for (auto& zr : z)
      {
        double a = 0;
        for (int k = 0; k < S; k++) a += zr[0][k] - ms.means[0];
        st.sum += a / S;
      }
      got += nb;
    }
    if (!bad)
    {
      double T = st.sum / Rm, bound = ZLEVEL * std::sqrt(st.V1 / Rm) + ALLOW_MEAN[sim] * st.scale;
      c.check("mean", std::string("C14:") + SIMN[sim] + ":mean:model-mean-nonzero", std::fabs(T) <= bound, std::fabs(T), bound,
              fmt("model mean %g: ensemble mean of (Z - mean) = %g over %d realisations, bound %g", ms.means[0], T, Rm, bound));
    }
  }

  // designed power: how many bounds away the realistic breaks would be (evidence only)
  {
    double pNorm = 0, pSill = 0, pSign = 0, pAxes = 0;
    std::unique_ptr<Model> swapped;
    FullCov Cs;
    if (sim != S_CHOL && cs.model.ndim == 2)
    {
      ModelSpec ms = cs.model;
      for (auto& cv : ms.covs) std::swap(cv.ranges[0], cv.ranges[1]);
      swapped = buildModel(ms);
      Cs      = modelCov(*swapped, cs.sp, nvar);
    }
    double sill0 = 0;
    for (auto& cv : cs.model.covs) sill0 += cv.sills[0];
    for (auto& st : stats)
    {
      if (st.cls == "mean") continue;
      double sd    = std::sqrt(std::max(st.V1, 0.) / cs.R);
      double bound = ZLEVEL * sd * ((st.psd ? 1. : std::sqrt(2.)) + ZLEVEL / std::sqrt(2. * cs.R)) + ALLOW[sim] * st.scale;
      if (sim == S_TUB) pNorm = std::max(pNorm, std::fabs(st.E) * (cs.nbtuba - 1) / bound);
      if (st.iv == st.jv && st.iv == 0) pSill = std::max(pSill, std::fabs(st.E - st.E / sill0) / bound);
      if (st.iv != st.jv) pSign = std::max(pSign, 2 * std::fabs(st.E) / bound);
      if (swapped)
      {
        Stat alt = st;
        finishStat(alt, Cs, S);
        pAxes = std::max(pAxes, std::fabs(alt.E - st.E) / bound);
      }
    }
    c.putn("bounds_away.missing_sqrt_nbands", pNorm);
    c.putn("bounds_away.sill_not_applied", pSill);
    c.putn("bounds_away.cross_sign_lost", pSign);
    c.putn("bounds_away.axes_swapped", pAxes);
    if (pNorm >= 10) c.probe("power10:missing-normalisation");
    if (pSill >= 10) c.probe("power10:sill-not-applied");
    if (pSign >= 10) c.probe("power10:cross-sign-lost");
    if (pAxes >= 10) c.probe("power10:axes-swapped");
    if (pAxes >= 3) c.probe("power3:axes-swapped");
  }
}

// ------------------------------------------------------------------------------------------------------------
// basic laws
// ------------------------------------------------------------------------------------------------------------
typedef long double LD;
struct LawSpec
{
  std::string name, key;
  std::function<double()> draw;
  LD mu[9];            // raw moments mu[1..8]
  double q = 0;        // |X| <= q with probability >= 1 - 1e-20 per draw
  double lo = -INFINITY, hi = INFINITY; // support
  bool integer = false;
  bool foldMoments = false; // one key for the four moments (input class of an open finding)
  // reach: the sample minimum must be <= reachLo and the maximum >= reachHi (NaN = not tested)
  double reachLo = NAN, reachHi = NAN;
};
static LD lgam(LD x) { return lgammal(x); }
static void momentsFromPmf(LawSpec& L, const std::function<LD(int)>& logpmf, int kmin, int kmax)
{
  for (int m = 1; m <= 8; m++) L.mu[m] = 0;
  for (int k = kmin; k <= kmax; k++)
  {
    LD p = expl(logpmf(k)), kk = 1;
    for (int m = 1; m <= 8; m++) { kk *= k; L.mu[m] += p * kk; }
  }
}
static LD normCdf(LD x) { return 0.5L * erfcl(-x / sqrtl(2.0L)); }
static LD normPdf(LD x) { return expl(-0.5L * x * x) / sqrtl(2.0L * M_PIl); }

static void lawCase(Rng& r, Ctx& c, int which)
{
  bool th = c.thorough();
  long N  = th ? 2000000 : 200000;
  LawSpec L;
  const double NEVER = 46.05; // ln(1e20)
  // reach level: P(no draw beyond the quantile of probability pr) = (1-pr)^N <= exp(-N pr) < 1e-12 when N pr > 27.7
  double pr = 27.7 / N;
  switch (which)
  {
    case 0:
    {
      double a = r.uni(-5, 5), b = a + r.loguni(0.1, 20.);
      L.name = fmt("law_uniform(%g,%g)", a, b);
      L.key  = "law_uniform";
      L.draw = [a, b]() { return law_uniform(a, b); };
      for (int m = 1; m <= 8; m++) L.mu[m] = (powl(b, m + 1) - powl(a, m + 1)) / ((m + 1) * ((LD)b - a));
      L.q = std::max(std::fabs(a), std::fabs(b));
      L.lo = a; L.hi = b;
      L.reachLo = a + (b - a) * pr; L.reachHi = b - (b - a) * pr;
      break;
    }
    case 1:
    {
      double m = r.coin() ? 0. : r.uni(-3, 3), s = r.coin() ? 1. : r.loguni(0.2, 5.);
      L.name = fmt("law_gaussian(%g,%g)", m, s);
      L.key  = "law_gaussian";
      L.draw = [m, s]() { return law_gaussian(m, s); };
      // raw moments by the recursion E[X^k] = m E[X^(k-1)] + (k-1) s^2 E[X^(k-2)]
      LD e[9];
      e[0] = 1; e[1] = m;
      for (int k = 2; k <= 8; k++) e[k] = (LD)m * e[k - 1] + (k - 1) * (LD)s * s * e[k - 2];
      for (int k = 1; k <= 8; k++) L.mu[k] = e[k];
      L.q = std::fabs(m) + s * std::sqrt(2 * NEVER);
      // quantile of probability pr: Phi(-t) = pr
      LD lo = 0, hi = 40;
      for (int i = 0; i < 200; i++) { LD mid = 0.5L * (lo + hi); if (normCdf(-mid) > pr) lo = mid; else hi = mid; }
      L.reachLo = m - s * (double)lo; L.reachHi = m + s * (double)lo;
      break;
    }
    case 2:
    {
      double lam = r.loguni(0.2, 5.);
      L.name = fmt("law_exponential(%g)", lam);
      L.key  = "law_exponential";
      L.draw = [lam]() { return law_exponential(lam); };
      LD f = 1;
      for (int k = 1; k <= 8; k++) { f *= k; L.mu[k] = f / powl(lam, k); }
      L.q = NEVER / lam;
      L.lo = 0;
      L.reachHi = -std::log(pr) / lam; L.reachLo = -std::log1p(-pr) / lam;
      break;
    }
    case 3:
    case 4:
    {
      // law_gamma(alpha, beta): beta = 1 (case 3) and beta != 1 (case 4). The header only says "Second parameter of the Gamma
      // distribution"; both usual meanings (scale or rate) are accepted for beta != 1: the mean must be alpha*beta or alpha/beta
      double al = r.pick(std::vector<double>{0.5, 1., 2., 3.5, 10.}), be = which == 3 ? 1. : r.pick(std::vector<double>{0.5, 2., 4.});
      L.name = fmt("law_gamma(%g,%g)", al, be);
      L.key  = which == 3 ? "law_gamma:beta=1" : "law_gamma:beta-ignored";
      L.foldMoments = which == 4;
      L.draw = [al, be]() { return law_gamma(al, be); };
      for (int k = 1; k <= 8; k++) L.mu[k] = expl(lgam(al + k) - lgam(al)); // scale 1; rescaled below for beta != 1
      double t = al + 1;
      while (-t + al + al * std::log(t / al) > -NEVER) t += 0.5;
      L.q = t * std::max(be, 1. / be);
      L.lo = 0;
      break;
    }
    case 5:
    case 11:
    {
      // law_poisson switches algorithm at parameter 16 (Law.cpp: "while (t >= 16)")
      double lam = which == 5 ? r.pick(std::vector<double>{0.5, 3., 10., 15.9}) : r.pick(std::vector<double>{17., 20., 25.});
      if (which == 11) { N = th ? 2000000 : 1000000; pr = 27.7 / N; L.foldMoments = true; }
      L.name = fmt("law_poisson(%g)", lam);
      L.key  = lam < 16 ? "law_poisson:lambda<16" : "law_poisson:lambda>=16";
      L.draw = [lam]() { return (double)law_poisson(lam); };
      int kmax = (int)(lam + 40 * std::sqrt(lam) + 60);
      momentsFromPmf(L, [lam](int k) { return -(LD)lam + k * logl((LD)lam) - lgam((LD)k + 1); }, 0, kmax);
      double t = lam + 1;
      while (-lam + t - t * std::log(t / lam) > -NEVER) t += 1;
      L.q = t;
      L.lo = 0; L.integer = true;
      break;
    }
    case 6:
    {
      double a = r.pick(std::vector<double>{0.5, 1., 2., 5.}), b = r.pick(std::vector<double>{0.5, 1., 3., 8.});
      L.name = fmt("law_beta1(%g,%g)", a, b);
      L.key  = "law_beta1";
      L.draw = [a, b]() { return law_beta1(a, b); };
      LD p = 1;
      for (int k = 1; k <= 8; k++) { p *= ((LD)a + k - 1) / ((LD)a + b + k - 1); L.mu[k] = p; }
      L.q = 1; L.lo = 0; L.hi = 1;
      break;
    }
    case 7:
    {
      // beta of the second kind (beta prime) X = G_a / G_b: E[X^k] = prod_{i<k} (a+i)/(b-1-i); moments up to 8 need b > 8
      double a = r.pick(std::vector<double>{1., 2., 5.}), b = r.pick(std::vector<double>{20., 30.});
      L.name = fmt("law_beta2(%g,%g)", a, b);
      L.key  = "law_beta2";
      L.draw = [a, b]() { return law_beta2(a, b); };
      LD p = 1;
      for (int k = 1; k <= 8; k++) { p *= ((LD)a + k - 1) / ((LD)b - k); L.mu[k] = p; }
      // Markov on the moment of order m = b - 2: P(X > t) <= E[X^m] / t^m
      int m = (int)b - 2;
      LD pm = 1;
      for (int k = 1; k <= m; k++) pm *= ((LD)a + k - 1) / ((LD)b - k);
      L.q = (double)expl((logl(pm) + NEVER) / m);
      L.lo = 0;
      break;
    }
    case 8:
    {
      int n = r.pick(std::vector<int>{1, 5, 20, 50, 200, 1000});
      double p = r.pick(std::vector<double>{0.02, 0.1, 0.3, 0.5, 0.8});
      L.name = fmt("law_binomial(%d,%g)", n, p);
      L.key  = n * p < 30 ? "law_binomial:np<30" : "law_binomial:np>=30";
      L.draw = [n, p]() { return (double)law_binomial(n, p); };
      momentsFromPmf(L, [n, p](int k) { return lgam((LD)n + 1) - lgam((LD)k + 1) - lgam((LD)n - k + 1) + k * logl((LD)p) + (n - k) * log1pl(-(LD)p); }, 0, n);
      L.q = n; L.lo = 0; L.hi = n; L.integer = true;
      break;
    }
    case 9:
    {
      int a = r.irange(-5, 5), b = a + r.irange(1, 30);
      // every other visit of this slot: sampleInteger ("Returns an integer sampled uniformly within the interval [mini, maxi]",
      // both bounds included), with a negative lower bound
      bool viaSample = ((c.icase / 16) / 3) % 2 == 0;
      if (viaSample)
      {
        if (a >= 0) a = -a - 1;
        L.name = fmt("sampleInteger(%d,%d)", a, b);
        L.key  = "sampleInteger";
        L.draw = [a, b]() { return (double)sampleInteger(a, b); };
      }
      else
      {
      L.name = fmt("law_int_uniform(%d,%d)", a, b);
      L.key  = "law_int_uniform";
      L.draw = [a, b]() { return (double)law_int_uniform(a, b); };
      }
      int cnt = b - a + 1;
      for (int m = 1; m <= 8; m++)
      {
        L.mu[m] = 0;
        for (int k = a; k <= b; k++) L.mu[m] += powl(k, m) / cnt;
      }
      L.q = std::max(std::abs(a), std::abs(b)); L.lo = a; L.hi = b; L.integer = true;
      L.reachLo = a; L.reachHi = b;
      break;
    }
    case 10:
    {
      // truncated standard Gaussian on [a,b]: m_k = (k-1) m_(k-2) + (a^(k-1) phi(a) - b^(k-1) phi(b)) / Z
      double a = r.uni(-3, 2), b = a + r.loguni(0.05, 4.);
      L.name = fmt("law_gaussian_between_bounds(%g,%g)", a, b);
      L.key  = "law_gaussian_between_bounds";
      L.draw = [a, b]() { return law_gaussian_between_bounds(a, b); };
      LD Z = normCdf(b) - normCdf(a), e[9];
      e[0] = 1;
      e[1] = (normPdf(a) - normPdf(b)) / Z;
      for (int k = 2; k <= 8; k++) e[k] = (k - 1) * e[k - 2] + (powl(a, k - 1) * normPdf(a) - powl(b, k - 1) * normPdf(b)) / Z;
      for (int k = 1; k <= 8; k++) L.mu[k] = e[k];
      L.q = std::max(std::fabs(a), std::fabs(b)); L.lo = a; L.hi = b;
      break;
    }
  }
  c.setSig("law:" + L.key);
  c.puts("law", L.name);
  c.putn("N", (double)N);
  law_set_random_seed(drawSimSeed(r));
  LD s[5] = {0, 0, 0, 0, 0};
  double mn = INFINITY, mx = -INFINITY;
  long nonint = 0, outside = 0, undefd = 0;
  for (long i = 0; i < N; i++)
  {
    double x = L.draw();
    if (!(std::fabs(x) < 1e29)) { undefd++; continue; }
    if (x < L.lo || x > L.hi) outside++;
    if (L.integer && x != std::floor(x)) nonint++;
    mn = std::min(mn, x);
    mx = std::max(mx, x);
    LD p = 1;
    for (int k = 1; k <= 4; k++) { p *= x; s[k] += p; }
  }
  std::string K = "C14:" + L.key;
  c.truth("support", K + ":support", outside == 0 && nonint == 0 && undefd == 0,
          fmt("%s: %ld draws outside [%g,%g], %ld non-integer, %ld undefined; min %g max %g", L.name.c_str(), outside, L.lo, L.hi, nonint, undefd, mn, mx));
  if (!std::isnan(L.reachLo))
    c.check("range-reach", K + ":range-not-reached:low", mn <= L.reachLo, std::max(0., mn - L.reachLo), 0,
            fmt("%s: minimum of %ld draws = %g; a sample of the law goes below %g with probability 1 - 1e-12", L.name.c_str(), N, mn, L.reachLo));
  if (!std::isnan(L.reachHi))
    c.check("range-reach", K + ":range-not-reached:high", mx >= L.reachHi, std::max(0., L.reachHi - mx), 0,
            fmt("%s: maximum of %ld draws = %g; a sample of the law goes above %g with probability 1 - 1e-12", L.name.c_str(), N, mx, L.reachHi));
  // moments: the mean, and the central moments of order 2-4 about the mean OF THE LAW (an exact expectation again:
  // E[(X-mu)^k] = cm_k, Var = (cm_2k - cm_k^2)/N), which are far more sensitive to a wrong spread than raw moments.
  //   bound = z sqrt(Var) + 2 Q^k x/(3N) (Bernstein, |X - mu| <= Q = q + |mu|) + 2e-3 sqrt(cm_2k)
  // the last term is a generator allowance: the old-style generators are driven by a multiplicative congruential sequence
  // with 2e7 states whose consecutive terms are strongly dependent; calibration at N = 2e6 shows reproducible moment
  // deviations of a few 1e-4 relative (6-7 standard errors) for beta / binomial / truncated gaussian draws. They are
  // reported as an observation; the allowance keeps the verdict stable across seeds.
  auto central = [&](const LD* mu, LD sc, LD* cm, LD& m1) {
    // moments of sc * X from the raw moments of X
    LD raw[9];
    raw[0] = 1;
    for (int k = 1; k <= 8; k++) raw[k] = mu[k] * powl(sc, k);
    m1 = raw[1];
    for (int k = 0; k <= 8; k++)
    {
      LD acc = 0, binom = 1;
      for (int j = 0; j <= k; j++)
      {
        acc += binom * raw[j] * powl(-m1, k - j);
        binom = binom * (k - j) / (j + 1);
      }
      cm[k] = acc;
    }
  };
  auto sampleCentral = [&](LD m1, int k) {
    if (k == 1) return (double)(s[1] / N);
    LD acc = 0, binom = 1;
    for (int j = 0; j <= k; j++)
    {
      acc += binom * (j == 0 ? (LD)1 : s[j] / N) * powl(-m1, k - j);
      binom = binom * (k - j) / (j + 1);
    }
    return (double)acc;
  };
  std::vector<double> scales = {1.};
  if (which == 4)
  {
    // beta as a scale or as a rate: accept the better of the two
    double be = 0;
    sscanf(L.name.c_str(), "law_gamma(%*lf,%lf)", &be);
    scales = {be, 1. / be};
  }
  for (int k = 1; k <= 4; k++)
  {
    double best = INFINITY, bestErr = 0, bestBound = 0, bestWant = 0, bestGot = 0;
    for (double sc : scales)
    {
      LD cm[9], m1;
      central(L.mu, sc, cm, m1);
      double want  = k == 1 ? (double)m1 : (double)cm[k];
      double got   = sampleCentral(m1, k);
      LD var       = std::max((LD)0, k == 1 ? cm[2] : cm[2 * k] - cm[k] * cm[k]);
      double Q     = L.q * std::max(sc, 1.) + std::fabs((double)m1);
      double bound = ZLEVEL * std::sqrt((double)var / N) + 2 * std::pow(Q, k) * XLEVEL / (3. * N) + 2e-3 * std::sqrt((double)cm[2 * k]);
      double e     = std::fabs(got - want);
      if (e / bound < best) { best = e / bound; bestErr = e; bestBound = bound; bestWant = want; bestGot = got; }
    }
    c.check(fmt("moment%d", k), L.foldMoments ? K : K + fmt(":moment%d", k), best <= 1, bestErr, bestBound,
            fmt("%s: sample %s = %.8g, law %.8g%s, bound %.3g (N=%ld)", L.name.c_str(), k == 1 ? "mean" : fmt("central moment %d", k).c_str(), bestGot,
                bestWant, which == 4 ? " (closest of beta as a scale / as a rate)" : "", bestBound, N));
  }
}

static void run_case(Rng& r, Ctx& c)
{
  OptDbg::reset();
  // stratified on the case index: 16 slots
  // (x5 mod 16 spreads the expensive turning-bands slots over consecutive case indices, i.e. over the driver's chunks)
  int slot = (int)((c.icase * 5) % 16);
  switch (slot)
  {
    case 0: case 1: case 2: case 3: case 4: fieldCase(r, c, S_TUB, 0); break;
    case 5: fieldCase(r, c, S_TUB, 1); break;
    case 6: fieldCase(r, c, S_TUB, (c.icase / 16) % 2 ? 2 : 3); break;
    case 7: fieldCase(r, c, S_FFT, 0); break;
    case 8: { int b4 = (int)((c.icase / 16) % 4); fieldCase(r, c, S_FFT, b4 == 0 ? 2 : b4 == 1 ? 1 : b4 == 2 ? 3 : 4); break; }
    case 9: fieldCase(r, c, S_SPECTRAL, (int)((c.icase / 16) % 4)); break;
    case 10: fieldCase(r, c, S_CHOL, (int)((c.icase / 16) % 5)); break;
    case 11: fieldCase(r, c, S_SPDE, 0); break;
    default: lawCase(r, c, (int)((c.icase / 16 * 4 + (slot - 12)) % 12)); break;
  }
}

int main(int argc, char** argv) { return run_main(argc, argv, "C14", run_case); }
