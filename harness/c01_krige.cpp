// C01 — kriging output is the solution of the documented (co)kriging system.
//
// Each case draws a configuration (ndim, nvar, heterotopy, drift, external drift, measurement error, nested
// anisotropic model, neighbourhood, target kind), runs
//   (a) kriging() / krigcell()                     -> output columns *.estim / *.stdev / *.varz
//   (b) a KrigingSystem driven target by target    -> getSampleIndices / getWeights / getZam / getRHSC / getVariance
//   (a') kriging() asked for the estimate only, (d) kriging() of linear combinations of the variables (matLC)
//   (c) krigtest(iech0)                            -> Krigtest_Res
// and compares them with harness/common/ref_krige.hpp (pointwise assembly of [Sigma X; Xt 0], long double solve)
// on exactly the samples the library reports for the target (KrigingSystem::getSampleIndices()).
//
// Documented conventions used by the oracles (doc/references/Kriging.md):
//   estimate  Z* = [Z;0]^t [lambda;-mu]  (+ m (1 - sum lambda) with a known mean m)
//   sigma^2   = sigma0^2 - [lambda;-mu]^t [Sigma0; X0^t]      (== C00 - 2 lambda.Sigma0 + lambda^t Sigma lambda)
//   Var(Z*)   = lambda^t Sigma lambda
// KrigingSystem::_estimateStdv documents "if (var > 0) stdv = sqrt(var)" else 0: stdev^2 is compared with max(var,0).
#include "common/vh.hpp"
#include "common/ref_linalg.hpp"
#include "common/ref_krige.hpp"
#include "common/krige_gen.hpp"

#include "Basic/OptDbg.hpp"
#include "Drifts/ADrift.hpp"
#include "Enum/EKrigOpt.hpp"
#include "Estimation/CalcKriging.hpp"
#include "Estimation/KrigingSystem.hpp"
#include "Basic/NamingConvention.hpp"

#include <map>
#include <memory>

using namespace vh;
using ref::LD;

static const double EPS  = 2.220446049250313e-16;
static const double CTOL = 1e3;   // DESIGN 5.3: |a-b| <= c eps kappa scale
static const double KMAX = 1e9;   // systems with a larger condition number are skipped (counted)

static std::vector<std::string> namesWithSuffix(const Db* db, const std::string& suf)
{
  std::vector<std::string> out;
  VectorString all = db->getAllNames();
  for (int i = 0; i < (int)all.size(); i++)
  {
    const std::string& s = all[i];
    if (s.size() >= suf.size() && s.compare(s.size() - suf.size(), suf.size(), suf) == 0) out.push_back(s);
  }
  return out;
}

struct RefCache
{
  const refk::Data* d;
  const refk::Setup* s;
  std::map<std::vector<int>, std::unique_ptr<refk::System>> m;
  const refk::System& get(const std::vector<int>& nb)
  {
    auto it = m.find(nb);
    if (it == m.end()) it = m.emplace(nb, std::make_unique<refk::System>(*d, *s, nb)).first;
    return *it->second;
  }
};

// map a library drift function index to the reference basis index (-1: not in the reference basis)
static std::vector<int> mapDrifts(const Model* model, const std::vector<refk::DriftFn>& basis, int ndim)
{
  int nbfl = model->getDriftNumber();
  std::vector<int> mp(nbfl, -1);
  for (int il = 0; il < nbfl; il++)
  {
    const ADrift* dr = model->getDrift(il);
    if (dr->isDriftExternal())
    {
      for (int j = 0; j < (int)basis.size(); j++)
        if (basis[j].fex == dr->getRankFex()) mp[il] = j;
    }
    else
    {
      VectorInt pw = dr->getPowers();
      std::vector<int> p(ndim, 0);
      for (int k = 0; k < (int)pw.size() && k < ndim; k++) p[k] = pw[k];
      for (int j = 0; j < (int)basis.size(); j++)
        if (basis[j].fex < 0 && basis[j].pw == p) mp[il] = j;
    }
  }
  return mp;
}


struct Cmp
{
  double ratio = 0, err = 0, tol = 0;
  int row = -1;
  bool ok() const { return ratio <= 1.; }
};
// reference row matching library row a (Lagrange rows go through the drift-basis map)
static int refRow(const refk::Sol& s, int a, int nbfl, const std::vector<int>& dmap)
{
  if (a < s.ndata) return a;
  int ib = a - s.ndata, iv = ib / nbfl, il = ib % nbfl;
  return s.ndata + iv * nbfl + dmap[il];
}
static void accum(Cmp& c, double got, double want, double tol, int row)
{
  double e = std::fabs(got - want);
  double q = (std::isnan(e) || std::isinf(e)) ? INFINITY : e / tol;
  if (c.row < 0 || q > c.ratio) { c.ratio = q; c.err = std::isnan(e) ? INFINITY : e; c.tol = tol; c.row = row; }
}
// column jv of a weight matrix against the reference, row by row: |dW(r)| <= CTOL eps kappa Tw(r)
static Cmp cmpWeights(const AMatrix& W, const refk::Sol& s, int jv, int nbfl, const std::vector<int>& dmap, int nrows)
{
  Cmp c;
  for (int a = 0; a < nrows; a++)
  {
    int ra = refRow(s, a, nbfl, dmap);
    accum(c, W.getValue(a, jv), (double)s.W(ra, jv), CTOL * EPS * (double)s.cond * ((double)s.Tw(ra, jv) + 1e-300), a);
  }
  return c;
}

static void run_case(Rng& r, Ctx& c)
{
  kg::Options opt;
  if (c.thorough()) opt.maxTargets = 25;
  kg::Case k = kg::draw(r, c.thorough(), opt);
  kg::setSpace(k.ndim);
  c.setSig(k.sig());
  c.puts("cfg", k.sig());
  c.put("case", kg::describe(k));
  c.putn("n", k.n);
  if (c.verbose) fprintf(stderr, "CASE %ld %s n=%d ncoeffs=%d nmaxi=%d radius=%g\n", c.icase, k.sig().c_str(), k.n, (int)k.ncoeffs.size(), k.nmaxi, k.radius);

  auto dbin  = kg::makeDataDb(k);
  auto dbout = kg::makeTargetDb(k);
  auto model = kg::makeModel(k);
  auto neigh = kg::makeNeigh(k);
  const int nvar = k.nvar, nt = (int)k.tx.size();
  const DbGrid* grid = dynamic_cast<const DbGrid*>(dbout.get());
  const bool block = k.targetKind == kg::T_BLOCK;
  const EKrigOpt calcul = block ? EKrigOpt::BLOCK : EKrigOpt::POINT;
  VectorInt ndiscs(k.ndiscs.begin(), k.ndiscs.end());
  // krigcell(): "Standard Block Kriging with variable cell dimension" (block extension read from ELoc::BLEX); it has no
  // varz output
  const bool wantVarz = k.stationary() && !k.perCell;
  const bool estimOnly = r.coin(0.3);
  // linear combinations of the variables (option matLC): "Define the output as Linear Combinations of the Input
  // Variables; the first dimension of 'matLC' is the number of Output variables, the second the number of input Variables"
  const bool withLC = nvar >= 2 && r.coin(0.5);
  const int nlc     = withLC ? r.irange(1, nvar) : 0;
  std::vector<std::vector<double>> lc(nlc, std::vector<double>(nvar, 0.));
  for (auto& row : lc)
  {
    for (auto& v : row) v = r.coin(0.25) ? 0. : r.uni(-2, 2);
    row[r.irange(0, nvar - 1)] += 1.5;
  }
  const std::string cls = fmt("%s:%s", k.neighKind == kg::N_UNIQUE ? "unique" : "moving", block ? (k.perCell ? "cellblock" : "block") : "point");

  if (!c.truth("model-valid", "C01:generator:model-invalid", model->isValid(), k.sig())) return;

  // ---------------- (a) kriging() ----------------
  int err = k.perCell ? krigcell(dbin.get(), dbout.get(), model.get(), neigh.get(), true, true, ndiscs)
                      : kriging(dbin.get(), dbout.get(), model.get(), neigh.get(), calcul, true, true, wantVarz, ndiscs);
  if (!c.truth("kriging-rc", "C01:kriging:error-return:" + cls, err == 0, k.sig())) return;
  std::vector<std::string> nE = namesWithSuffix(dbout.get(), ".estim"), nS = namesWithSuffix(dbout.get(), ".stdev"),
                           nV = namesWithSuffix(dbout.get(), ".varz");
  bool colsOk = (int)nE.size() == nvar && (int)nS.size() == nvar && (int)nV.size() == (wantVarz ? nvar : 0);
  if (!c.truth("kriging-columns", "C01:kriging:output-columns", colsOk,
               fmt("estim=%d stdev=%d varz=%d nvar=%d", (int)nE.size(), (int)nS.size(), (int)nV.size(), nvar)))
    return;
  std::vector<VectorDouble> kE(nvar), kS(nvar), kV(nvar);
  for (int iv = 0; iv < nvar; iv++)
  {
    kE[iv] = dbout->getColumn(nE[iv]);
    kS[iv] = dbout->getColumn(nS[iv]);
    if (wantVarz) kV[iv] = dbout->getColumn(nV[iv]);
  }

  // ---------------- reference set-up ----------------
  refk::Setup setup;
  setup.cov    = refk::covOfModel(model.get());
  setup.drifts = k.basis();
  setup.means  = k.means;
  setup.covErr = kg::covErrOf(k);
  const int nbfl = (int)setup.drifts.size();
  if (!c.truth("drift-count", "C01:model:drift-function-count", model->getDriftNumber() == nbfl,
               fmt("library has %d drift functions, order %d nfex %d in %d-D means %d", model->getDriftNumber(),
                   k.driftOrder, k.nfex, k.ndim, nbfl)))
    return;
  std::vector<int> dmap = mapDrifts(model.get(), setup.drifts, k.ndim);
  bool mapOk = true;
  for (int v : dmap) mapOk = mapOk && v >= 0;
  if (!c.truth("drift-basis", "C01:model:drift-basis", mapOk, "a library drift function is not in the polynomial basis")) return;
  RefCache cache{&k.data, &setup, {}};

  // ---------------- (b) KrigingSystem target by target ----------------
  int uE = dbout->addColumnsByConstant(nvar, TEST, "ks.estim");
  int uS = dbout->addColumnsByConstant(nvar, TEST, "ks.stdev");
  int uV = wantVarz ? dbout->addColumnsByConstant(nvar, TEST, "ks.varz") : -1;
  std::vector<std::vector<int>> nbghOf(nt);
  std::vector<refk::Sol> solOf(nt);
  std::vector<char> evaluated(nt, 0);
  {
    KrigingSystem ks(dbin.get(), dbout.get(), model.get(), neigh.get());
    bool ready = ks.updKrigOptEstim(uE, uS, uV) == 0 && ks.setKrigOptCalcul(calcul, ndiscs, k.perCell) == 0 && ks.isReady();
    if (!c.truth("ksys-ready", "C01:ksys:not-ready:" + cls, ready, k.sig())) return;
    for (int it = 0; it < nt; it++)
    {
      int rc = ks.estimate(it);
      c.truth("estimate-rc", "C01:ksys:estimate-error-return", rc == 0);
      std::vector<int> nb = ks.getSampleIndices().getVector();
      nbghOf[it] = nb;
      double gE0 = dbout->getArray(it, uE);
      if (nb.empty())
      {
        // no neighbourhood: the library documents TEST outputs (status != 0 branch of _estimateEstim)
        c.truth("empty-neigh", "C01:ksys:empty-neigh-not-TEST", FFFF(gE0) && FFFF(kE[0][it]));
        c.probe("empty-neigh");
        continue;
      }
      if (it == k.tfUndef)
      {
        // The drift value X0 of this target does not exist, so no kriging system does: the output must be undefined.
        // KrigingSystem::_rhsCalcul says so itself ("if (FFFF(value)) return 1;") but estimate() drops that return code
        // (KrigingSystem.cpp: "_rhsCalcul();" then "if (status != 0) goto label_store;").
        c.truth("undef-target-drift", "C01:target-undefined-external-drift:finite-output", FFFF(gE0) && FFFF(kE[0][it]),
                fmt("target %d estim ksys=%g kriging()=%g", it, gE0, kE[0][it]));
        continue;
      }
      bool idxOk = true;
      for (int v : nb) idxOk = idxOk && v >= 0 && v < k.n;
      if (!c.truth("nbgh-range", "C01:ksys:nbgh-out-of-range", idxOk)) continue;

      const refk::System& sys = cache.get(nb);
      if (sys.base.ndata < sys.base.ndrift || sys.base.ndata == 0)
      {
        // fewer data than drift equations: KrigingSystem::_isAuthorized documents the refusal ("Checks if the number
        // of samples is compatible with the number of drift equations"), outputs are TEST
        c.truth("underdetermined", "C01:ksys:underdetermined-not-TEST", FFFF(gE0) && FFFF(kE[0][it]),
                fmt("ndata=%d ndrift=%d estim=%g", sys.base.ndata, sys.base.ndrift, gE0));
        c.skip("underdetermined");
        continue;
      }
      if (!sys.base.ok) { c.skip("singular"); continue; }
      if (sys.base.cond > KMAX) { c.skip("illcond"); continue; }
      refk::Sol s = sys.solve(kg::refTarget(k, it, grid));
      solOf[it]    = s;
      evaluated[it] = 1;
      const double kap = (double)s.cond;
      std::string cl2 = cls + (s.ndata < (int)nb.size() * nvar ? ":hetero" : ":iso") + (nbfl > 0 ? ":drift" : ":mean");
      if (s.ndata < (int)nb.size() * nvar) c.probe("hetero");
      if (!k.data.v.empty()) c.probe("verr");
      if (block) c.probe("block");
      if (k.nfex > 0) c.probe("extdrift");

      // size of the reduced system
      if (!c.truth("nred", "C01:ksys:nred:" + cl2, ks.getNRed() == s.nred,
                   fmt("library nred=%d reference=%d (ndata=%d ndrift=%d)", ks.getNRed(), s.nred, s.ndata, s.ndrift)))
        continue;

      // weights (all rows, Lagrange rows through the basis map)
      MatrixRectangular W = ks.getWeights();
      bool shapeOk = W.getNRows() == s.nred && W.getNCols() == nvar;
      if (c.truth("wgt-shape", "C01:ksys:weights-shape", shapeOk, fmt("%dx%d vs %dx%d", W.getNRows(), W.getNCols(), s.nred, nvar)))
      {
        for (int jv = 0; jv < nvar; jv++)
        {
          Cmp cw = cmpWeights(W, s, jv, nbfl, dmap, s.nred);
          c.check("weights", "C01:weights:" + cl2, cw.ok(), cw.err, cw.tol,
                  fmt("target %d var %d row %d/%d cond %.3g %s", it, jv, cw.row, s.nred, kap, k.sig().c_str()));
          double sumL = 0, sumR = 0, tols = 0;
          for (int a = 0; a < s.ndata; a++)
            if (s.eqV[a] == jv)
            {
              sumL += W.getValue(a, jv);
              sumR += (double)s.W(a, jv);
              tols += CTOL * EPS * kap * ((double)s.Tw(a, jv) + 1e-300);
            }
          c.close("weights-sum", "C01:weights-sum:" + cl2, sumL, sumR, tols, fmt("target %d var %d", it, jv));
        }
      }
      // dual vector
      {
        MatrixRectangular Z = ks.getZam();
        if (Z.getNRows() == s.nred)
        {
          Cmp cd;
          for (int a = 0; a < s.nred; a++)
          {
            int ra = refRow(s, a, nbfl, dmap);
            accum(cd, Z.getValue(a, 0), (double)s.dual[ra], CTOL * EPS * kap * ((double)s.Dmag[ra] + 1e-300), a);
          }
          c.check("dual", "C01:dual:" + cl2, cd.ok(), cd.err, cd.tol, fmt("target %d row %d cond %.3g %s", it, cd.row, kap, k.sig().c_str()));
        }
        else
          c.truth("dual", "C01:dual-shape", false, fmt("%d rows vs %d", Z.getNRows(), s.nred));
      }
      // right-hand side actually used (KrigingSystem::getRHSC(ivar))
      for (int jv = 0; jv < nvar; jv++)
      {
        VectorDouble rhs = ks.getRHSC(jv);
        if ((int)rhs.size() != s.nred) { c.truth("rhs", "C01:rhs-shape", false); continue; }
        // one covariance evaluation: |dB| <= 64 eps (|B| + covErr); drift rows: a few ulps of the monomial
        Cmp cr;
        for (int a = 0; a < s.nred; a++)
        {
          int ra = refRow(s, a, nbfl, dmap);
          double tolr = 64 * EPS * (std::fabs((double)s.B(ra, jv)) + (a < s.ndata ? setup.covErr : 0.)) + 1e-300;
          accum(cr, rhs[a], (double)s.B(ra, jv), tolr, a);
        }
        c.check("rhs", "C01:rhs:" + cl2, cr.ok(), cr.err, cr.tol, fmt("target %d var %d row %d %s", it, jv, cr.row, k.sig().c_str()));
      }
      // C00
      {
        MatrixSquareGeneral v0 = ks.getVariance();
        for (int jv = 0; jv < nvar; jv++)
          c.close("c00", "C01:c00:" + cl2, v0.getValue(jv, jv), (double)s.c00[jv], 64 * EPS * (std::fabs((double)s.c00[jv]) + setup.covErr) + 1e-300,
                  fmt("target %d var %d", it, jv));
      }
      // outputs of the KrigingSystem run and of kriging()
      for (int jv = 0; jv < nvar; jv++)
      {
        double tolE = CTOL * EPS * kap * ((double)s.estMag[jv] + 1e-300);
        double tolV = CTOL * EPS * kap * ((double)s.varMag[jv] + 1e-300);
        double wantVar = std::max(0.0, (double)s.var[jv]);
        std::string det = fmt("target %d var %d cond %.3g %s", it, jv, kap, k.sig().c_str());
        double e1 = dbout->getArray(it, uE + jv), s1 = dbout->getArray(it, uS + jv);
        c.close("estim", "C01:estim:ksys:" + cl2, e1, (double)s.est[jv], tolE, det);
        c.close("estim", "C01:estim:kriging:" + cl2, kE[jv][it], (double)s.est[jv], tolE, det);
        c.truth("stdev-sign", "C01:stdev:negative-or-nan:" + cl2, s1 >= 0 && kS[jv][it] >= 0 && !FFFF(s1) && !FFFF(kS[jv][it]), det);
        c.close("stdev2", "C01:stdev:ksys:" + cl2, s1 * s1, wantVar, tolV, det);
        c.close("stdev2", "C01:stdev:kriging:" + cl2, kS[jv][it] * kS[jv][it], wantVar, tolV, det);
        if (wantVarz)
        {
          double v1 = dbout->getArray(it, uV + jv);
          c.close("varz", "C01:varz:ksys:" + cl2, v1, (double)s.varz[jv], tolV, det);
          c.close("varz", "C01:varz:kriging:" + cl2, kV[jv][it], (double)s.varz[jv], tolV, det);
        }
      }
    }
    ks.conclusion();
  }

  // ---------------- (a') kriging() asked for the estimate only (no weights are formed: dual path alone) ----------------
  if (estimOnly && !k.perCell)
  {
    int e2 = kriging(dbin.get(), dbout.get(), model.get(), neigh.get(), calcul, true, false, false, ndiscs, VectorInt(), nullptr,
                     NamingConvention("EstOnly"));
    c.truth("kriging-rc", "C01:kriging:error-return:estim-only:" + cls, e2 == 0, k.sig());
    std::vector<std::string> n2;
    for (auto& nm : namesWithSuffix(dbout.get(), ".estim"))
      if (nm.compare(0, 7, "EstOnly") == 0) n2.push_back(nm);
    if (c.truth("kriging-columns", "C01:kriging:output-columns:estim-only", (int)n2.size() == nvar, fmt("%d", (int)n2.size())))
      for (int jv = 0; jv < nvar; jv++)
      {
        VectorDouble col = dbout->getColumn(n2[jv]);
        for (int it = 0; it < nt; it++)
        {
          if (!evaluated[it]) continue;
          const refk::Sol& s = solOf[it];
          c.close("estim", "C01:estim:kriging-estim-only:" + cls, col[it], (double)s.est[jv],
                  CTOL * EPS * (double)s.cond * ((double)s.estMag[jv] + 1e-300), fmt("target %d var %d %s", it, jv, k.sig().c_str()));
        }
      }
  }

  // ---------------- (d) kriging() of linear combinations Y_i = sum_j matLC(i,j) Z_j ----------------
  if (withLC && !k.perCell)
  {
    MatrixRectangular M(nlc, nvar);
    for (int i = 0; i < nlc; i++)
      for (int j = 0; j < nvar; j++) M.setValue(i, j, lc[i][j]);
    int e3 = kriging(dbin.get(), dbout.get(), model.get(), neigh.get(), calcul, true, true, wantVarz, ndiscs, VectorInt(), &M,
                     NamingConvention("LinComb"));
    c.truth("kriging-rc", "C01:kriging:error-return:matLC:" + cls, e3 == 0, k.sig());
    auto pick = [&](const std::string& suf) {
      std::vector<std::string> o;
      for (auto& nm : namesWithSuffix(dbout.get(), suf))
        if (nm.compare(0, 7, "LinComb") == 0) o.push_back(nm);
      return o;
    };
    auto lE = pick(".estim"), lS = pick(".stdev"), lV = pick(".varz");
    bool okc = (int)lE.size() == nlc && (int)lS.size() == nlc && (int)lV.size() == (wantVarz ? nlc : 0);
    if (e3 == 0 && c.truth("kriging-columns", "C01:kriging:output-columns:matLC", okc, fmt("%d %d %d for %d combinations", (int)lE.size(), (int)lS.size(), (int)lV.size(), nlc)))
      for (int i = 0; i < nlc; i++)
      {
        VectorDouble cE = dbout->getColumn(lE[i]), cS = dbout->getColumn(lS[i]), cV = wantVarz ? dbout->getColumn(lV[i]) : VectorDouble();
        for (int it = 0; it < nt; it++)
        {
          if (!evaluated[it]) continue;
          const refk::Sol& s = solOf[it];
          LD we = 0, wv = 0, wz = 0, te = 0, tq = 0;
          for (int j = 0; j < nvar; j++)
          {
            we += (LD)lc[i][j] * s.est[j];
            te += std::fabs((LD)lc[i][j]) * s.estMag[j];
            tq += std::fabs((LD)lc[i][j]) * std::sqrt(s.varMag[j]);
            for (int j2 = 0; j2 < nvar; j2++)
            {
              wv += (LD)lc[i][j] * (LD)lc[i][j2] * s.E(j, j2);
              wz += (LD)lc[i][j] * (LD)lc[i][j2] * s.VZ(j, j2);
            }
          }
          double tolE = CTOL * EPS * (double)s.cond * ((double)te + 1e-300), tolV = CTOL * EPS * (double)s.cond * ((double)(tq * tq) + 1e-300);
          std::string det = fmt("target %d combination %d cond %.3g %s", it, i, (double)s.cond, k.sig().c_str());
          c.probe("matLC");
          if (k.driftOrder < 0) c.probe("matLC-sk"); // simple cokriging: the known means enter the combination
          c.close("lc-estim", "C01:matLC:estim:" + cls, cE[it], (double)we, tolE, det);
          c.close("lc-stdev2", "C01:matLC:stdev:" + cls, cS[it] * cS[it], std::max(0., (double)wv), tolV, det);
          if (wantVarz) c.close("lc-varz", "C01:matLC:varz:" + cls, cV[it], (double)wz, tolV, det);
        }
      }
  }

  // ---------------- (c) krigtest(iech0) ----------------
  // "Perform kriging and return the calculation elements ... iech0: Rank of the target sample"
  std::vector<int> probeTargets = {0};
  if (nt > 1) probeTargets.push_back(r.irange(1, nt - 1));
  for (int i0 : probeTargets)
  {
    if (!evaluated[i0]) continue;
    if (k.tfUndef >= 0) { c.skip("krigtest:undefined-target-drift-case"); continue; } // keeps the two defects apart
    Krigtest_Res kt = krigtest(dbin.get(), dbout.get(), model.get(), neigh.get(), i0, calcul, ndiscs, k.perCell, false);
    OptDbg::reset();
    const refk::Sol& s = solOf[i0];
    const double kap = (double)s.cond;
    std::string tag = i0 == 0 ? (nt > 1 ? "iech0=0" : "iech0=0:single-target") : "iech0>0";
    // does the returned system belong to target i0 ?
    auto wcmp = [&](const refk::Sol& q) -> Cmp {
      Cmp w;
      if (!q.ok || kt.wgt.getNRows() != q.nred || kt.wgt.getNCols() != nvar) { w.ratio = w.err = INFINITY; return w; }
      for (int jv = 0; jv < nvar; jv++)
      {
        Cmp cj = cmpWeights(kt.wgt, q, jv, nbfl, dmap, q.nred);
        if (cj.ratio >= w.ratio) w = cj;
      }
      return w;
    };
    bool nbOk = kt.nbgh.getVector() == nbghOf[i0];
    Cmp cw    = wcmp(s);
    bool ok   = nbOk && cw.ok();
    double e = cw.err, tolw = cw.tol;
    std::string key = "C01:krigtest:" + tag + ":wrong-system";
    std::string det = fmt("nbgh match=%d weight diff=%.3g tol=%.3g nt=%d cond %.3g", (int)nbOk, e, tolw, nt, kap);
    if (!ok && nt > 1 && i0 != nt - 1 && kt.nbgh.getVector() == nbghOf[nt - 1])
    {
      // same system as the LAST target of the output Db ?  (weights are compared when that target was evaluated,
      // otherwise the neighbourhood must at least tell the two targets apart)
      Cmp cl = evaluated[nt - 1] ? wcmp(solOf[nt - 1]) : Cmp();
      if (evaluated[nt - 1] ? cl.ok() : !nbOk)
      {
        key = "C01:krigtest:" + tag + ":returns-last-target";
        det += fmt(" ; equals the system of the last target %d (diff %.3g)", nt - 1, cl.err);
      }
    }
    c.check("krigtest", key, ok, e, tolw, det);
  }
}

int main(int argc, char** argv) { return run_main(argc, argv, "C01", run_case); }
