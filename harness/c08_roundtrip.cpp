// C08 — saving and reloading an object gives back an equivalent object.
//
// case = (class of the registry [case index modulo number of classes], generated instance, file addressing mode).
// Oracles (keys are C08:<class>:<oracle>[:<field>]):
//   dump        dumpToNF succeeds and the file starts with the class tag
//   load        createFromNF returns an object
//   getters     every defining getter agrees to the 15 significant digits of the format (TEST stays TEST)
//   behaviour   queries answered identically by original and reloaded object
//   idempotent  save(load(save(o))) == save(o) byte for byte
//   stream      serialize(ostream) == file body; deserialize(istream) gives the same object as createFromNF and
//               re-serialises to the same text
//   exchange    grid exchange formats that are both written and read return geometry and values
#include "common/vh.hpp"
#include "common/c08_registry.hpp"
#include "common/c08_fork.hpp"

#include <sys/stat.h>
#include <set>

using namespace vh;
using namespace c08;

static std::string firstDiffLine(const std::string& a, const std::string& b)
{
  std::istringstream sa(a), sb(b);
  std::string la, lb;
  int ln = 0;
  while (true)
  {
    bool ga = (bool)std::getline(sa, la), gb = (bool)std::getline(sb, lb);
    ln++;
    if (!ga && !gb) return "same";
    if (ga != gb || la != lb)
      return fmt("line %d: '%s' vs '%s'", ln, ga ? la.substr(0, 100).c_str() : "<eof>", gb ? lb.substr(0, 100).c_str() : "<eof>");
  }
}

static void report(Ctx& c, const std::string& cls, const Cmp& cmp, const std::string& prefix = "")
{
  std::map<std::string, const Diff*> bad;
  for (auto& d : cmp.diffs) bad[d.owner + "|" + d.section + "|" + d.field] = &d;
  std::set<std::string> seen;
  auto key = [&](const std::string& owner, const std::string& section, const std::string& field) {
    return "C08:" + (owner.empty() ? cls : owner) + ":" + prefix + section + ":" + field;
  };
  for (auto& kv : cmp.stats)
  {
    size_t b1 = kv.first.find('|'), b2 = kv.first.find('|', b1 + 1);
    std::string owner = kv.first.substr(0, b1), section = kv.first.substr(b1 + 1, b2 - b1 - 1), field = kv.first.substr(b2 + 1);
    auto it = bad.find(kv.first);
    seen.insert(kv.first);
    if (it == bad.end() && kv.second.maxRel > 0.3 && getenv("C08_STATS")) // calibration aid: which fields come close to the bound
      fprintf(stderr, "STAT %s %.3f\n", key(owner, section, field).c_str(), kv.second.maxRel);
    if (it == bad.end()) c.check(prefix + section, key(owner, section, field), true, kv.second.maxRel, 1.0);
    else // err = inf keeps the per-oracle max(err/tol) statistic a statistic of the PASSING evaluations (head-room)
      c.check(prefix + section, key(owner, section, field), false, INFINITY, 1.0, fmt("ratio=%.3g ", it->second->err) + it->second->what);
  }
  for (auto& d : cmp.diffs)
    if (!seen.count(d.owner + "|" + d.section + "|" + d.field))
      c.check(prefix + d.section, key(d.owner, d.section, d.field), false, INFINITY, 1.0, fmt("ratio=%.3g ", d.err) + d.what);
}

static void roundtrip(Rng& r, Ctx& c, const Entry& e)
{
  std::string sig = "class=" + e.name;
  Obj o           = e.make(r, c.thorough(), sig);
  int mode        = r.irange(0, 2); // 0 plain relative name, 1 container + prefix, 2 absolute path
  sig += fmt(":file=%d", mode);
  c.setSig(sig);
  c.puts("class", e.name);
  if (!o)
  {
    c.truth("make", "C08:" + e.name + ":harness-make-failed", false, "generator returned null");
    return;
  }
  const std::string cls = e.name;

  char cwd[4096];
  if (!getcwd(cwd, sizeof cwd)) throw SkipCase{"getcwd"};
  std::string n1 = "obj1.nf", n2 = "obj2.nf", p1, p2;
  if (mode == 1)
  {
    ASerializable::setContainerName(false, "./nfdir/");
    ASerializable::setPrefixName("P-");
    p1 = "./nfdir/P-" + n1;
    p2 = "./nfdir/P-" + n2;
  }
  else if (mode == 2)
  {
    n1 = std::string(cwd) + "/" + n1;
    n2 = std::string(cwd) + "/" + n2;
    p1 = n1;
    p2 = n2;
  }
  else
  {
    p1 = n1;
    p2 = n2;
  }
  remove(p1.c_str());
  remove(p2.c_str());
  struct Restore
  {
    ~Restore()
    {
      ASerializable::unsetContainerName();
      ASerializable::unsetPrefixName();
    }
  } restore;

  // ---- dump
  bool okw          = e.save(o.get(), n1);
  std::string text1 = readFile(p1);
  c.truth("dump", "C08:" + cls + ":dumpToNF-failed", okw, "dumpToNF returned false");
  if (!okw) return;
  c.truth("dump", "C08:" + cls + ":file-tag", text1.compare(0, e.tag.size() + 1, e.tag + "\n") == 0,
          "file does not start with the class tag '" + e.tag + "': " + text1.substr(0, 40));
  if (c.verbose) fprintf(stderr, "---- %s\n%s----\n", p1.c_str(), text1.substr(0, 3000).c_str());
  c.putn("bytes", (double)text1.size());

  // ---- load
  bool differs = false; // a getter/behaviour difference was already reported: the text of a second save differs for the same reason
  Obj o2 = e.load(n1);
  c.truth("load", "C08:" + cls + ":reload-failed", (bool)o2, "createFromNF returned null on the file just written");
  if (o2)
  {
    Cmp cmp;
    e.compare(o.get(), o2.get(), cmp);
    report(c, cls, cmp);
    differs = !cmp.diffs.empty();

    // ---- idempotence of the text form
    bool okw2 = e.save(o2.get(), n2);
    c.truth("dump", "C08:" + cls + ":dumpToNF-of-reloaded-failed", okw2, "dumpToNF of the reloaded object returned false");
    if (okw2)
    {
      std::string text2 = readFile(p2);
      bool same         = (text1 == text2);
      // a text difference next to an already reported getter/behaviour difference is that same difference written out
      if (!same && differs) c.skip("idempotent:explained-by-reported-difference");
      else c.truth("idempotent", "C08:" + cls + ":resave-differs", same, same ? "" : firstDiffLine(text1, text2));
    }
  }

  // ---- stream interface (no container / prefix / tag involved)
  std::ostringstream os;
  bool oks = e.ser(o.get(), os);
  c.truth("stream", "C08:" + cls + ":serialize-failed", oks, "serialize(ostream) returned false");
  if (oks)
  {
    std::string body = text1.size() > e.tag.size() ? text1.substr(e.tag.size() + 1) : "";
    bool same        = (os.str() == body);
    c.truth("stream", "C08:" + cls + ":serialize-differs-from-file", same, same ? "" : firstDiffLine(body, os.str()));
    std::istringstream is(os.str());
    bool okd = false;
    Obj o4   = e.deser(is, okd);
    c.truth("stream", "C08:" + cls + ":reload-failed", okd, "deserialize(istream) returned false on serialize() output");
    if (okd && o4 && o2)
    {
      Cmp cmp;
      cmp.skipBehaviour = differs; // two damaged reloads: their getters are still compared, their queries are not run
      e.compare(o2.get(), o4.get(), cmp); // file-loaded vs stream-loaded: same reader, must be the same object
      if (cmp.behaviourSkipped) c.skip("stream-vs-file-behaviour:reload-already-differs");
      report(c, cls, cmp, "stream-vs-file-");
      std::ostringstream os2;
      if (e.ser(o4.get(), os2))
      {
        bool same2 = (os2.str() == os.str());
        if (!same2 && differs) c.skip("stream-resave:explained-by-reported-difference");
        else c.truth("stream", "C08:" + cls + ":resave-differs", same2, same2 ? "" : firstDiffLine(os.str(), os2.str()));
      }
    }
  }
}

// ---- the case runs in a forked child: a crash inside the library (sanitizer report, assertion, exit()) becomes a
// keyed oracle failure C08:<class>:crash:<kind>:<first /repo function> instead of an anonymous dead worker ----------
static std::string packCtx(const Ctx& c)
{
  std::string o = "S\t" + c.sig + "\n";
  o += fmt("N\t%ld\t%d\n", c.nfail, (int)c.nontrivial);
  for (auto& kv : c.stats) o += "O\t" + kv.first + fmt("\t%ld\t%.17g\t%.17g\n", kv.second.n, kv.second.maxErr, kv.second.maxRatio);
  for (auto& kv : c.skips) o += "K\t" + kv.first + fmt("\t%ld\n", kv.second);
  for (auto& kv : c.sample) o += "P\t" + kv.first + "\t" + kv.second + "\n";
  for (auto& kv : *c.harnessProbes) o += "H\t" + kv.first + fmt("\t%ld\n", kv.second);
  return o + "END\n";
}
static bool mergeCtx(Ctx& c, const std::string& payload)
{
  std::istringstream is(payload);
  std::string line;
  bool complete = false;
  while (std::getline(is, line))
  {
    if (line == "END") { complete = true; break; }
    std::vector<std::string> f;
    size_t pos = 0;
    while (true)
    {
      size_t t = line.find('\t', pos);
      f.push_back(line.substr(pos, t == std::string::npos ? std::string::npos : t - pos));
      if (t == std::string::npos) break;
      pos = t + 1;
    }
    if (f[0] == "S" && f.size() >= 2) c.sig = f[1];
    else if (f[0] == "N" && f.size() >= 3) { c.nfail += atol(f[1].c_str()); c.nontrivial = c.nontrivial || atoi(f[2].c_str()); }
    else if (f[0] == "O" && f.size() >= 5)
    {
      OracleStat& st = c.stats[f[1]];
      st.n += atol(f[2].c_str());
      st.maxErr   = std::max(st.maxErr, atof(f[3].c_str()));
      st.maxRatio = std::max(st.maxRatio, atof(f[4].c_str()));
    }
    else if (f[0] == "K" && f.size() >= 3) c.skips[f[1]] += atol(f[2].c_str());
    else if (f[0] == "P" && f.size() >= 3) c.sample[f[1]] = f[2];
    else if (f[0] == "H" && f.size() >= 3) (*c.harnessProbes)[f[1]] += atol(f[2].c_str());
  }
  return complete;
}

static void exchange(Rng& r, Ctx& c, const Exchange& x)
{
  std::string sig = "exchange=" + x.name;
  VectorInt cols;
  std::unique_ptr<DbGrid> g(x.makeGrid(r, c.thorough(), sig, cols));
  c.setSig(sig);
  c.puts("class", x.name);
  if (!g) { c.truth("make", "C08:" + x.name + ":harness-make-failed", false, "generator returned null"); return; }
  std::string path = "grid." + x.name;
  remove(path.c_str());
  int err = x.write(g.get(), cols, path);
  c.truth("exchange-write", "C08:" + x.name + ":write-failed", err == 0, fmt("writeInFile returned %d on a grid inside the declared domain", err));
  if (err != 0) return;
  if (c.verbose && x.name != "GridBmp") fprintf(stderr, "---- %s\n%s----\n", path.c_str(), readFile(path).substr(0, 3000).c_str());
  std::unique_ptr<DbGrid> b(x.read(path));
  c.truth("exchange-read", "C08:" + x.name + ":read-null", (bool)b, "readGridFromFile returned null on the file just written");
  if (!b) return;
  Cmp cmp;
  x.compare(*g, cols, *b, cmp);
  report(c, x.name, cmp);
}

static void run_case(Rng& r, Ctx& c)
{
  const auto& reg = registry();
  const auto& exf = exchangeFormats();
  size_t k        = (size_t)(c.icase % (long)(reg.size() + exf.size()));
  if (const char* only = getenv("C08_ONLY"))
    for (size_t i = 0; i < exf.size(); i++)
      if (exf[i].name == only) k = reg.size() + i;
  // developer aids (never set by bin/vcheck): C08_ONLY=<class> runs that class only, C08_AVOID=<a>,<b> skips classes,
  // C08_NOFORK=1 runs the case in the harness process itself (debugger friendly)
  if (const char* only = getenv("C08_ONLY"))
    for (size_t i = 0; i < reg.size(); i++)
      if (reg[i].name == only) k = i;
  if (const char* avoid = getenv("C08_AVOID"))
    if (k < reg.size() && (std::string(",") + avoid + ",").find("," + reg[k].name + ",") != std::string::npos) throw SkipCase{"dev-avoid"};
  const bool isExch = (k >= reg.size());
  const Entry& e    = reg[isExch ? 0 : k];
  const std::string clsName = isExch ? exf[k - reg.size()].name : e.name;
  auto body = [&](Rng& rr, Ctx& cc) {
    if (isExch) exchange(rr, cc, exf[k - reg.size()]);
    else roundtrip(rr, cc, e);
  };
  if (getenv("C08_NOFORK")) { body(r, c); return; }

  std::map<std::string, long> childProbes;
  ChildOutcome o = runChild(
    [&](int wfd) {
      Ctx cc           = c; // same log FILE*: failed oracle lines are written (and flushed) by the child itself
      cc.harnessProbes = &childProbes;
      try { body(r, cc); }
      catch (const SkipCase& s) { cc.skip("case:" + s.reason); }
      catch (const std::bad_alloc&) { cc.check("no-exception", "C08:" + clsName + ":exception:bad_alloc", false, 1, 0, "std::bad_alloc escaped"); }
      catch (const std::exception& ex) { cc.check("no-exception", "C08:" + clsName + ":exception:" + std::string(ex.what()).substr(0, 60), false, 1, 0, ex.what()); }
      fflush(cc.log);
      writeAll(wfd, packCtx(cc));
    },
    60., 120., "child.err");
  bool complete = mergeCtx(c, o.payload);
  if (c.verbose) fputs(slurp("child.err", 1 << 18).c_str(), stderr); // replay: show what the case printed (file text, ok/FAIL lines)
  if (c.sig.empty()) c.setSig("class=" + clsName + ":died");
  if (o.kind == ChildOutcome::OK && complete)
  {
    c.truth("no-crash", "C08:" + clsName + ":crash", true);
    return;
  }
  if (o.kind == ChildOutcome::TIMEOUT)
  {
    c.truth("no-crash", "C08:" + clsName + ":hang", false, "case exceeded 60 s CPU / 120 s wall in the child");
    return;
  }
  CrashId id = crashIdentity(o, selfExe());
  c.truth("no-crash", "C08:" + clsName + ":crash:" + id.kind + ":" + id.func, false, id.excerpt);
  if (c.verbose) fprintf(stderr, "%s\n", o.errText.substr(0, 6000).c_str());
}

// children die often (that is what is being looked for): reports are left unsymbolized (5 ms instead of ~700 ms per
// report) and the distinct stacks are symbolized afterwards by c08::crashIdentity
extern "C" const char* __asan_default_options() { return "symbolize=0"; }

int main(int argc, char** argv) { return run_main(argc, argv, "C08", run_case); }
