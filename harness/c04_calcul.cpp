// C04 (7) — the algebraic kriging calculator (KrigingCalcul: primal, dual, Bayesian, collocated and cross-validation
// forms) against the standard kriging system.
//
// For every case the matrices Sigma, X, Sigma0, X0, Sigma00 and the data vector Z are produced by the library's own
// builders on a pristine model (Model::evalCovMatrixSymmetric / evalCovMatrix / evalDriftMatrix,
// Db::getMultipleValuesActive), exactly as tests/cpp/test_Schur.cpp does; KrigingCalcul is then compared with
//   (S) the standard path: kriging() / kribayes() in NeighUnique on the same Db, Model, target, and
//   (R) a long-double solve of [Sigma X; X^T 0] w = [Sigma0; X0^T] by ref::LU on the same matrices
// so that an error common to KrigingCalcul and KrigingSystem cannot hide (and vice versa).
// Conventions used (all read from the sources quoted):
//   - KrigingCalcul.hpp: "When using SK: the vector Z must be centered by the drift beforehand; the vector beta
//     corresponds to the vector of Means."  -> Z = getMultipleValuesActive(.., means); estimate includes the mean.
//   - getStdv() returns standard deviations (sqrt of the diagonal, negative variances clamped to 0, KrigingCalcul.cpp
//     _needStdv) -> compared through squares; getVarianceZstar() = lambda^T Sigma lambda.
//   - setColCokUnique: "The argument 'Zp' must be corrected by the mean of the variables for ... Simple Kriging".
// Tolerance: 1e3 * eps * kappa * scale, kappa of the complete kriging matrix from ref::LU. Systems with kappa > 1e6 are
// skipped as ill-conditioned: KrigingCalcul multiplies explicit inverses (Sigma^-1, (X^T Sigma^-1 X)^-1, Schur
// complements), whose round-off grows like eps*kappa(Sigma)*kappa(Schur), i.e. faster than the eps*kappa of one solve
// of the full system (calibration over 20000 thorough cases: at kappa = 7e8 the dual form was 2.3 tolerances away from
// the long-double reference, with the cut at 1e7 the worst ratio was 0.2, hence 1e6).
#include "common/vh.hpp"
#include "common/ref_linalg.hpp"
#include "common/c04_gen.hpp"

#include "Enum/EKrigOpt.hpp"
#include "Estimation/CalcKriging.hpp"
#include "Estimation/KrigingCalcul.hpp"
#include "Matrix/MatrixRectangular.hpp"
#include "Matrix/MatrixSquareSymmetric.hpp"
#include "Neigh/NeighUnique.hpp"

using namespace vh;
using namespace c04;
using ref::LD;

// KrigingCalcul::_needZstar dereferenced '_Means' unconditionally in simple kriging: setData(&Z, nullptr) ("Means ...
// (optional)") followed by getEstimation() was a null dereference. The primal branch was fixed in /repo a94ed4633; the
// DUAL branch (KrigingCalcul.cpp:777, 'if (!_Means->empty())') still is one. Set to true to keep away from null means.
static const double KAPPA_MAX = 1e6;

static const bool AVOID_KRIBAYES_SELECTION = false || getenv("C04_DEV_AVOID2") != nullptr; // env: developer runs only
static const bool AVOID_CALCUL_NULL_MEANS = false || getenv("C04_DEV_AVOID") != nullptr; // env: developer runs only

struct RefSol
{
  bool ok = false;
  double kappa = INFINITY;
  std::vector<double> est, var, varz; // per rhs column
  std::vector<double> beta, Sc;       // Bayesian form: posterior mean (p) and covariance (p*p, row-major)
};
// (R): long double reference on the library's matrices. Z already centred for SK; 'addMean' per rhs column.
static RefSol refSolve(const MatrixSquareSymmetric& S, const MatrixRectangular* X, const MatrixRectangular& S0,
                       const MatrixRectangular* X0, const MatrixSquareSymmetric& S00, const VectorDouble& Z,
                       const std::vector<double>& addMean)
{
  RefSol r;
  int n = S.getNRows(), p = (X && X->getNRows() > 0) ? X->getNCols() : 0, q = S0.getNCols();
  ref::Mat K(n + p, n + p);
  for (int i = 0; i < n; i++)
    for (int j = 0; j < n; j++) K(i, j) = S.getValue(i, j);
  for (int i = 0; i < n; i++)
    for (int j = 0; j < p; j++) K(i, n + j) = K(n + j, i) = X->getValue(i, j);
  ref::LU lu(K);
  if (!lu.ok) return r;
  r.kappa = (double)lu.cond();
  for (int c = 0; c < q; c++)
  {
    std::vector<LD> b(n + p);
    for (int i = 0; i < n; i++) b[i] = S0.getValue(i, c);
    for (int j = 0; j < p; j++) b[n + j] = X0->getValue(c, j);
    auto w = lu.solve(b);
    LD e = 0, wb = 0, vz = 0;
    for (int i = 0; i < n; i++) e += w[i] * (LD)Z[i];
    for (int i = 0; i < n + p; i++) wb += w[i] * b[i];
    for (int i = 0; i < n; i++)
      for (int j = 0; j < n; j++) vz += w[i] * (LD)S.getValue(i, j) * w[j];
    r.est.push_back((double)e + addMean[c]);
    r.var.push_back((double)((LD)S00.getValue(c, c) - wb));
    r.varz.push_back((double)vz);
  }
  r.ok = true;
  return r;
}

// (R) for the Bayesian form: beta ~ N(m, S) a priori, Z = X beta + eps, eps ~ (0, Sigma)  [doc/references/Kriging_Bayesian.md]
//   Sc = (X^T Sigma^-1 X + S^-1)^-1, beta^ = Sc (X^T Sigma^-1 Z + S^-1 m), lambda = Sigma^-1 sigma0, y0 = x0 - X^T lambda,
//   Z* = lambda^T Z + y0^T beta^,  var = sigma00 - lambda^T sigma0 + y0^T Sc y0
static RefSol refBayes(const MatrixSquareSymmetric& S, const MatrixRectangular& X, const MatrixRectangular& S0,
                       const MatrixRectangular& X0, const MatrixSquareSymmetric& S00, const VectorDouble& Z,
                       const VectorDouble& pm, const MatrixSquareSymmetric& pc)
{
  RefSol r;
  int n = S.getNRows(), p = X.getNCols(), q = S0.getNCols();
  ref::Mat Sg(n, n), Xm(n, p), P(p, p);
  for (int i = 0; i < n; i++)
    for (int j = 0; j < n; j++) Sg(i, j) = S.getValue(i, j);
  for (int i = 0; i < n; i++)
    for (int j = 0; j < p; j++) Xm(i, j) = X.getValue(i, j);
  for (int i = 0; i < p; i++)
    for (int j = 0; j < p; j++) P(i, j) = pc.getValue(i, j);
  ref::LU luS(Sg), luP(P);
  if (!luS.ok || !luP.ok) return r;
  ref::Mat iS = luS.inverse(), iP = luP.inverse();
  ref::Mat XtiS = ref::mul(Xm.T(), iS);
  ref::Mat A    = ref::mul(XtiS, Xm);
  for (int i = 0; i < p; i++)
    for (int j = 0; j < p; j++) A(i, j) += iP(i, j);
  ref::LU luA(A);
  if (!luA.ok) return r;
  ref::Mat Sc = luA.inverse();
  r.kappa     = std::max((double)luS.cond(), (double)luA.cond());
  std::vector<LD> zz(n), mm(p);
  for (int i = 0; i < n; i++) zz[i] = Z[i];
  for (int i = 0; i < p; i++) mm[i] = pm[i];
  auto t1 = ref::mulv(XtiS, zz);
  auto t2 = ref::mulv(iP, mm);
  for (int i = 0; i < p; i++) t1[i] += t2[i];
  auto beta = ref::mulv(Sc, t1);
  for (int i = 0; i < p; i++) r.beta.push_back((double)beta[i]);
  for (int i = 0; i < p; i++)
    for (int j = 0; j < p; j++) r.Sc.push_back((double)Sc(i, j));
  for (int c = 0; c < q; c++)
  {
    std::vector<LD> s0(n);
    for (int i = 0; i < n; i++) s0[i] = S0.getValue(i, c);
    auto lam = ref::mulv(iS, s0);
    std::vector<LD> y0(p);
    for (int j = 0; j < p; j++)
    {
      y0[j] = X0.getValue(c, j);
      for (int i = 0; i < n; i++) y0[j] -= Xm(i, j) * lam[i];
    }
    LD e = 0, v = S00.getValue(c, c);
    for (int i = 0; i < n; i++) { e += lam[i] * zz[i]; v -= lam[i] * s0[i]; }
    auto scy = ref::mulv(Sc, y0);
    for (int j = 0; j < p; j++) { e += y0[j] * beta[j]; v += y0[j] * scy[j]; }
    r.est.push_back((double)e);
    r.var.push_back((double)v);
  }
  r.ok = true;
  return r;
}

struct StdOut
{
  int rc = -1;
  std::vector<double> est, sd, vz; // per variable, single target
};
static StdOut stdKriging(const DbSpec& data, const DbSpec& tgt, const ModelSpec& ms, bool bayes = false,
                         const VectorDouble& pm = VectorDouble(), const MatrixSquareSymmetric& pc = MatrixSquareSymmetric())
{
  StdOut o;
  auto d = buildDb(data);
  auto t = buildDb(tgt);
  auto m = buildModel(ms);
  std::unique_ptr<NeighUnique> nu(NeighUnique::create());
  VectorString before = t->getAllNames();
  if (bayes)
    o.rc = kribayes(d.get(), t.get(), m.get(), nu.get(), pm, pc, true, true);
  else
    o.rc = kriging(d.get(), t.get(), m.get(), nu.get(), EKrigOpt::POINT, true, true, true);
  for (auto& nme : newNames(before, t.get()))
  {
    if (endsWith(nme, "estim")) o.est.push_back(col(t.get(), nme)[0]);
    if (endsWith(nme, "stdev")) o.sd.push_back(col(t.get(), nme)[0]);
    if (endsWith(nme, "varz")) o.vz.push_back(col(t.get(), nme)[0]);
  }
  return o;
}

static DbSpec onePoint(const Pts& p, int i)
{
  DbSpec t;
  t.pts.ndim = p.ndim;
  t.pts.n    = 1;
  t.pts.x.assign(p.ndim, std::vector<double>(1));
  for (int d = 0; d < p.ndim; d++) t.pts.x[d][0] = p.x[d][i];
  t.nvar = 0;
  return t;
}

static double G_ZS = 3., G_SILL = 1.; // natural magnitudes of the current case (data spread, total sill)

static void cmp3(Ctx& c, const std::string& pfx, const std::string& key, const VectorDouble& est, const VectorDouble& sd,
                 const VectorDouble& vz, const std::vector<double>& wEst, const std::vector<double>& wVar,
                 const std::vector<double>& wVz, double tolE, double tolV, const std::string& what, const std::string& against,
                 const std::string& estKey = "", const std::string& varKey = "", double zscale = G_ZS, double vscale = G_SILL)
{
  size_t q = wEst.size();
  if (est.size() != q)
  {
    c.check(pfx + "-estim-" + against, key + ":estim:size", false, 1, 0, what + fmt(" getEstimation size %zu want %zu", est.size(), q));
    return;
  }
  for (size_t j = 0; j < q; j++)
  {
    std::string w = what + fmt(" rhs=%zu vs=%s", j, against.c_str());
    closeRel(c, pfx + "-estim-" + against, estKey.empty() ? key + ":estim" : estKey, est[j], wEst[j], tolE, zscale, w);
    if (!wVar.empty() && sd.size() == q)
    {
      double wv = std::max(wVar[j], 0.0); // both sides clamp negative variances to 0 before the square root
      closeRel(c, pfx + "-var-" + against, varKey.empty() ? key + ":stdev" : varKey, sd[j] * sd[j], wv, tolV, vscale, w + fmt(" sd=%.10g", sd[j]));
    }
    else if (!wVar.empty())
      c.check(pfx + "-var-" + against, key + ":stdev:size", false, 1, 0, w + fmt(" getStdv size %zu", sd.size()));
    if (!wVz.empty() && vz.size() == q)
      closeRel(c, pfx + "-varz-" + against, varKey.empty() ? key + ":varz" : varKey, vz[j], wVz[j], tolV, vscale, w);
    else if (!wVz.empty())
      c.check(pfx + "-varz-" + against, key + ":varz:size", false, 1, 0, w + fmt(" getVarianceZstar size %zu", vz.size()));
  }
}

// Re-feed sequence on a LIVE calculator that has already been queried: setData(Z2) with the matrices unchanged, query
// everything again against the reference for the NEW data (estimate, and in the Bayesian form the posterior mean;
// standard deviations, var(Z*) and the posterior covariance do not depend on the data and must not move), then
// setData(Z) back and query once more against the ORIGINAL reference. Catches any memo that setData fails to drop
// (resetLinkedToZ -> _deleteZ -> _deleteZstar / _deleteBeta / _deleteDual).
static void refeedCheck(Ctx& c, KrigingCalcul& K, const std::string& form, const std::string& pfx, const VectorDouble& Z,
                        const VectorDouble* means, const VectorDouble& Z2, const RefSol& Rold, const RefSol& Rnew, bool withVar,
                        bool withVz, bool bayes, double kappa, const std::string& what)
{
  std::string key = "C04:calcul:" + form + ":after-setData";
  std::string o   = pfx + "-refeed";
  double tolE = 1e3 * EPS * kappa * std::max(G_ZS, 3.0), tolV = 1e3 * EPS * kappa * G_SILL;
  auto cmpVec = [&](const std::string& on, const VectorDouble& got, const std::vector<double>& want, double tol, double scale,
                    const std::string& w, bool clamp0 = false, bool square = false) {
    if (got.size() != want.size())
    {
      c.check(on, key, false, 1, 0, what + " " + w + fmt(" size %zu want %zu", got.size(), want.size()));
      return;
    }
    for (size_t j = 0; j < want.size(); j++)
    {
      double g = square ? got[j] * got[j] : got[j], x = clamp0 ? std::max(want[j], 0.0) : want[j];
      closeRel(c, on, key, g, x, tol, scale, what + " " + w + fmt(" [%zu]", j));
    }
  };
  for (int step = 0; step < 2; step++)
  {
    const VectorDouble& zz = step == 0 ? Z2 : Z;
    const RefSol& R        = step == 0 ? Rnew : Rold;
    const char* sn         = step == 0 ? "new-data" : "data-restored";
    K.setData(&zz, means);
    cmpVec(o + "-estim", K.getEstimation(), R.est, tolE, std::max(G_ZS, 3.0), std::string(sn) + " estimation");
    if (withVar) cmpVec(o + "-var", K.getStdv(), R.var, bayes ? 10 * tolV : tolV, G_SILL, std::string(sn) + " stdev^2", true, true);
    if (withVz) cmpVec(o + "-varz", K.getVarianceZstar(), R.varz, tolV, G_SILL, std::string(sn) + " varZ*");
    if (bayes)
    {
      double bs = 1.0, cs = 0.0;
      for (double v : R.beta) bs = std::max(bs, std::fabs(v));
      for (double v : R.Sc) cs = std::max(cs, std::fabs(v));
      cmpVec(o + "-postmean", K.getPostMean(), R.beta, 1e3 * EPS * kappa * std::max(bs, G_ZS), bs, std::string(sn) + " posterior mean");
      const MatrixSquareSymmetric* pc = K.getPostCov();
      int p = (int)R.beta.size();
      if (pc == nullptr || pc->getNRows() != p)
        c.check(o + "-postcov", key, false, 1, 0, what + " " + sn + " posterior covariance missing / wrong size");
      else
        for (int i = 0; i < p; i++)
          for (int j = 0; j <= i; j++)
            closeRel(c, o + "-postcov", key, pc->getValue(i, j), R.Sc[i * p + j], 1e3 * EPS * kappa * cs, cs, what + " " + sn + fmt(" posterior covariance (%d,%d)", i, j));
    }
  }
}

static void run_case(Rng& r, Ctx& c)
{
  int ndim = 1 + (int)(r.next() % 3);
  defineDefaultSpace(ESpaceType::RN, ndim);
  int form = (int)(r.next() % 5); // 0 primal, 1 dual, 2 bayes, 3 collocated, 4 xvalid
  const char* FORM[] = {"primal", "dual", "bayes", "colcok", "xvalid"};
  int nvar = 1 + (int)(r.next() % 3);
  if (form == 3 && nvar == 1) nvar = 2;
  // kribayes(): one variable in 3 Bayesian cases out of 4; two variables otherwise (own key: the standard Bayesian path
  // fills its data vector sample-major while the system is variable-major, see report)
  if (form == 2) nvar = r.coin(0.25) ? 2 : 1;
  double L = r.pick(std::vector<double> {1.0, 100.0});
  int ncov = 1 + (int)(r.next() % 2);
  ModelSpec ms = genModel(r, ndim, nvar, ncov, L, 0, true);
  double u     = r.u01();
  int order    = u < 0.35 ? -1 : (u < 0.75 ? 0 : 1);
  if (form == 2 && order < 0) order = 0;
  ms.driftOrder = order;
  bool nonzeroMeans = false;
  if (order < 0 && r.coin(0.5))
  {
    nonzeroMeans = true;
    for (auto& m : ms.means) m = r.uni(-2, 2);
  }
  std::string drift = order < 0 ? (nonzeroMeans ? "sk-mean" : "sk-zero") : "irf" + std::to_string(order);
  int nmax = c.thorough() ? 40 : 20;
  int n    = 4 + (int)(r.next() % (nmax - 3));
  DbSpec data;
  std::vector<double> origin(ndim, 0.0);
  data.pts   = genPoints(r, ndim, n, L, origin, (int)(r.next() % 3), 0.02);
  int hetero = nvar > 1 ? (int)(r.next() % 4) : (r.coin(0.3) ? 1 : 0);
  if (form == 2) hetero = 0;
  genValues(r, data, nvar, hetero, L);
  int selMode = r.coin(0.4) ? 1 : 0;
  // (kribayes() with a selection used to read its neighbourhood vector out of range; fixed in /repo c6e139518)
  if (form == 2 && AVOID_KRIBAYES_SELECTION) selMode = 0;
  genSel(r, data, selMode);
  c.setSig(fmt("calcul:%s:ndim=%d:nvar=%d:%s:%s:het=%d:sel=%d", FORM[form], ndim, nvar, ms.sig().c_str(), drift.c_str(), hetero, selMode));
  c.puts("form", FORM[form]);
  c.putn("ndim", ndim);
  c.putn("nvar", nvar);
  c.putn("n", n);
  c.puts("model", ms.sig());
  c.puts("drift", drift);
  c.put("x0", jvec(data.pts.x[0], 8));
  c.put("z0", jvec(data.z[0], 8));

  // enough defined data per variable
  int nb = order < 0 ? 0 : (order == 0 ? 1 : 1 + ndim);
  for (int v = 0; v < nvar; v++)
  {
    int cnt = 0;
    for (int i = 0; i < n; i++) cnt += data.active(i) && data.defined(i, v);
    if (cnt < nb + 3) { c.skip("too-few-data"); return; }
  }
  double zs = 1;
  for (auto& col : data.z)
    for (double v : col)
      if (!undef(v)) zs = std::max(zs, std::fabs(v));

  auto db    = buildDb(data);
  auto model = buildModel(ms);
  VectorDouble means(ms.means);
  if (order >= 0) means = VectorDouble(nvar, 0.);
  MatrixSquareSymmetric Sigma = model->evalCovMatrixSymmetric(db.get());
  MatrixRectangular X;
  if (order >= 0) X = model->evalDriftMatrix(db.get());
  VectorDouble Z = db->getMultipleValuesActive(VectorInt(), VectorInt(), means);
  int neq = Sigma.getNRows();
  if (neq <= 0 || (int)Z.size() != neq) { c.truth("kc-setup", "C04:calcul:setup", false, fmt("neq=%d Z=%zu", neq, Z.size())); return; }
  std::string what0 = fmt("form=%s n=%d neq=%d nvar=%d drift=%s", FORM[form], n, neq, nvar, drift.c_str());
  double sill = ms.maxSill();
  G_ZS   = zs;
  G_SILL = sill;

  // ================================================================================================================
  if (form == 0 || form == 1 || form == 2)
  {
    int m = 2 + (int)(r.next() % 3);
    Pts tp = genPoints(r, ndim, m, L, origin, 0, 0.01, &data.pts);
    if (r.coin(0.3))
      for (int d = 0; d < ndim; d++) tp.x[d][0] = data.pts.x[d][(int)(r.next() % n)]; // target on a datum
    // Bayesian prior
    VectorDouble pm;
    MatrixSquareSymmetric pc;
    int nbfl = order >= 0 ? X.getNCols() : 0;
    if (form == 2)
    {
      pm.resize(nbfl);
      for (auto& v : pm) v = r.uni(-1, 1);
      auto s = genSills(r, nbfl, r.loguni(0.2, 5.0));
      pc.resetFromValue(nbfl, nbfl, 0.);
      for (int i = 0; i < nbfl; i++)
        for (int j = 0; j <= i; j++) pc.setValue(i, j, s[i * nbfl + j]);
    }
    bool nullMeans = (order < 0 && !nonzeroMeans && !AVOID_CALCUL_NULL_MEANS && r.coin(0.15));
    KrigingCalcul shared(form == 1);
    bool reuse = r.coin(0.6); // one object re-targeted by setRHS (lazy cache must be invalidated) or a fresh one per target
    for (int t = 0; t < m; t++)
    {
      DbSpec tg  = onePoint(tp, t);
      auto tdb   = buildDb(tg);
      MatrixRectangular Sigma0 = model->evalCovMatrix(db.get(), tdb.get());
      MatrixRectangular X0;
      if (order >= 0) X0 = model->evalDriftMatrix(tdb.get());
      MatrixSquareSymmetric Sigma00 = model->evalCovMatrixSymmetric(tdb.get());
      std::vector<double> addMean(nvar, 0.0);
      if (order < 0) addMean = ms.means;
      RefSol R = refSolve(Sigma, order >= 0 ? &X : nullptr, Sigma0, order >= 0 ? &X0 : nullptr, Sigma00, Z, addMean);
      if (!R.ok || !(R.kappa < KAPPA_MAX)) { c.skip("illcond"); continue; }
      double tolE = 1e3 * EPS * R.kappa * zs, tolV = 1e3 * EPS * R.kappa * sill;
      std::string what = what0 + fmt(" target=%d kappa=%.3g reuse=%d", t, R.kappa, (int)reuse);

      KrigingCalcul fresh(form == 1);
      KrigingCalcul& K = reuse ? shared : fresh;
      int e = 0;
      if (!reuse || t == 0)
      {
        e += K.setData(&Z, nullMeans ? nullptr : &means);
        e += K.setLHS(&Sigma, order >= 0 ? &X : nullptr);
      }
      e += K.setRHS(&Sigma0, order >= 0 ? &X0 : nullptr);
      if (form != 1) e += K.setVar(&Sigma00);
      if (form == 2 && (!reuse || t == 0)) e += K.setBayes(&pm, &pc);
      if (!c.truth("kc-setters", std::string("C04:calcul:") + FORM[form] + ":setter-error", e == 0, what)) continue;
      if (nullMeans) c.probe("kc-null-means");

      VectorDouble est = K.getEstimation();
      VectorDouble sd, vz;
      if (form != 1) { sd = K.getStdv(); vz = K.getVarianceZstar(); }

      std::string key = std::string("C04:calcul:") + FORM[form] + ":" + (order < 0 ? "sk" : "uk");
      // simple kriging with non-zero known means has its own estimation key (suspected cause: KrigingCalcul.cpp
      // _needZstar adds the means only when '_Means->empty()')
      std::string estKey = (order < 0 && nonzeroMeans) ? std::string("C04:calcul:sk-nonzero-mean:estim") : "";
      std::string pfx    = std::string("kc-") + FORM[form] + ((order < 0 && nonzeroMeans) ? "-skmean" : "");
      if (form == 2)
      {
        // own oracle family per drift order (kribayes() with more than one drift function was wrong until /repo 0548e0629)
        pfx += "-" + drift + (nvar > 1 ? "-mv" : "");
        std::string kbE = nvar > 1 ? "C04:bayes:kribayes-multivariate" : "C04:bayes:kribayes:estim";
        std::string kbS = nvar > 1 ? "C04:bayes:kribayes-multivariate" : "C04:bayes:kribayes:stdev";
        std::string kbO = std::string("kribayes-") + drift + (nvar > 1 ? "-mv" : "");
        RefSol RB = refBayes(Sigma, X, Sigma0, X0, Sigma00, Z, pm, pc);
        if (!RB.ok || !(RB.kappa < KAPPA_MAX)) { c.skip("illcond"); continue; }
        tolE = 1e3 * EPS * std::max(R.kappa, RB.kappa) * zs;
        tolV = 1e3 * EPS * std::max(R.kappa, RB.kappa) * sill;
        cmp3(c, pfx, key, est, sd, VectorDouble(), RB.est, RB.var, {}, tolE, tolV * 10, what, "ref");
        {
          // posterior moments of the first query, then the re-feed sequence (every target: the object is live either way)
          VectorDouble Z2(Z.size());
          for (auto& v : Z2) v = r.uni(-3, 3);
          RefSol RB2 = refBayes(Sigma, X, Sigma0, X0, Sigma00, Z2, pm, pc);
          if (RB2.ok)
          {
            (void)K.getPostMean();
            refeedCheck(c, K, FORM[form], pfx, Z, &means, Z2, RB, RB2, true, false, true, std::max(R.kappa, RB.kappa), what);
          }
        }
        // standard path: kribayes(). Its own agreement with (R) is reported under a separate key so that the two
        // sides of the differential can be told apart
        StdOut S = stdKriging(data, tg, ms, true, pm, pc);
        if (S.rc == 0 && S.est.size() == (size_t)nvar)
          for (int v = 0; v < nvar; v++)
          {
            closeRel(c, kbO + "-estim-ref", kbE, S.est[v], RB.est[v], tolE, zs, what);
            closeRel(c, kbO + "-var-ref", kbS, S.sd[v] * S.sd[v], std::max(RB.var[v], 0.), tolV * 10, sill, what);
          }
        if (!c.truth("kc-bayes-rc", "C04:bayes:kribayes:rc", S.rc == 0 && S.est.size() == (size_t)nvar, what)) continue;
        std::vector<double> wv;
        for (double s : S.sd) wv.push_back(s * s);
        // (one root-cause key for "kribayes() disagrees", whether seen against (R) or against KrigingCalcul)
        cmp3(c, pfx, key, est, sd, VectorDouble(), S.est, wv, {}, tolE, tolV * 10, what, "std", kbE, kbS);
        continue;
      }
      // (R) long double reference
      if (form == 0)
        cmp3(c, pfx, key, est, sd, vz, R.est, R.var, R.varz, tolE, tolV, what, "ref", estKey);
      else
        cmp3(c, pfx, key, est, VectorDouble(), VectorDouble(), R.est, {}, {}, tolE, tolV, what, "ref", estKey);
      // lazy cache: the data vector is replaced on the live object (setData -> resetLinkedToZ); everything must follow
      if (!nullMeans)
      {
        VectorDouble Z2(Z.size());
        for (auto& v : Z2) v = r.uni(-3, 3);
        RefSol R2 = refSolve(Sigma, order >= 0 ? &X : nullptr, Sigma0, order >= 0 ? &X0 : nullptr, Sigma00, Z2, addMean);
        if (R2.ok) refeedCheck(c, K, FORM[form], pfx, Z, &means, Z2, R, R2, form == 0, form == 0, false, R.kappa, what);
      }
      // (S) standard kriging
      StdOut S = stdKriging(data, tg, ms);
      if (S.rc != 0 || S.est.size() != (size_t)nvar || undef(S.est[0])) { c.skip("std-kriging-refused"); continue; }
      std::vector<double> wv;
      for (double s : S.sd) wv.push_back(s * s);
      if (form == 0)
        cmp3(c, pfx, key, est, sd, vz, S.est, wv, S.vz, tolE, tolV, what, "std", estKey);
      else
        cmp3(c, pfx, key, est, VectorDouble(), VectorDouble(), S.est, {}, {}, tolE, tolV, what, "std", estKey);
    }
    return;
  }

  // ================================================================================================================
  if (form == 3)
  {
    // collocated: one target carrying values of some (not all) variables
    Pts tp    = genPoints(r, ndim, 1, L, origin, 0, 0.02, &data.pts);
    DbSpec tg = onePoint(tp, 0);
    auto tdb  = buildDb(tg);
    int ncck  = 1 + (int)(r.next() % (nvar - 1));
    auto pv   = r.perm(nvar);
    VectorInt rankColCok;
    for (int k = 0; k < ncck; k++) rankColCok.push_back(pv[k]);
    std::sort(rankColCok.begin(), rankColCok.end());
    std::vector<double> colval(nvar, UNDEF);
    for (int v : rankColCok) colval[v] = r.uni(-3, 3);
    // complemented data set: the target location appended as a sample holding the collocated values
    DbSpec comp = data;
    for (int d = 0; d < ndim; d++) comp.pts.x[d].push_back(tp.x[d][0]);
    comp.pts.n++;
    for (int v = 0; v < nvar; v++) comp.z[v].push_back(colval[v]);
    if (!comp.sel.empty()) comp.sel.push_back(1.0);

    MatrixRectangular Sigma0 = model->evalCovMatrix(db.get(), tdb.get());
    MatrixRectangular X0;
    if (order >= 0) X0 = model->evalDriftMatrix(tdb.get());
    MatrixSquareSymmetric Sigma00 = model->evalCovMatrixSymmetric(tdb.get());
    // reference (R) on the complemented system, matrices from the library builders on the complemented Db
    auto dbc = buildDb(comp);
    MatrixSquareSymmetric SigmaP = model->evalCovMatrixSymmetric(dbc.get());
    MatrixRectangular XP;
    if (order >= 0) XP = model->evalDriftMatrix(dbc.get());
    MatrixRectangular Sigma0P = model->evalCovMatrix(dbc.get(), tdb.get());
    VectorDouble ZP = dbc->getMultipleValuesActive(VectorInt(), VectorInt(), means);
    std::vector<double> addMean(nvar, 0.0);
    if (order < 0) addMean = ms.means;
    RefSol R = refSolve(SigmaP, order >= 0 ? &XP : nullptr, Sigma0P, order >= 0 ? &X0 : nullptr, Sigma00, ZP, addMean);
    if (!R.ok || !(R.kappa < KAPPA_MAX)) { c.skip("illcond"); return; }
    double tolE = 1e3 * EPS * R.kappa * zs, tolV = 1e3 * EPS * R.kappa * sill;
    std::string what = what0 + fmt(" ncck=%d kappa=%.3g", ncck, R.kappa);

    VectorDouble Zp(nvar);
    for (int v = 0; v < nvar; v++) Zp[v] = undef(colval[v]) ? UNDEF : colval[v] - means[v];
    KrigingCalcul K(false);
    int e = K.setData(&Z, &means) + K.setLHS(&Sigma, order >= 0 ? &X : nullptr) + K.setRHS(&Sigma0, order >= 0 ? &X0 : nullptr) +
            K.setVar(&Sigma00) + K.setColCokUnique(&Zp, &rankColCok);
    if (!c.truth("kc-setters", "C04:calcul:colcok:setter-error", e == 0, what)) return;
    VectorDouble est = K.getEstimation(), sd = K.getStdv(), vz = K.getVarianceZstar();
    std::string key    = std::string("C04:calcul:colcok:") + (order < 0 ? "sk" : "uk");
    std::string estKey = (order < 0 && nonzeroMeans) ? "C04:calcul:sk-nonzero-mean:estim" : "";
    // simple-kriging collocated variances are a finding of their own (see report): own oracle family
    std::string pfx    = std::string("kc-colcok") + (order < 0 ? (nonzeroMeans ? "-skmean" : "-sk") : "");
    // open finding: in simple kriging the collocated stdev / var(Z*) count the cross term Lambda0^T Sigma0p^T Lambda once
    // too many (KrigingCalcul::_needVarZSK) -> one root-cause key for both outputs
    std::string varKey = order < 0 ? "C04:calcul:colcok:sk-variance" : "";
    cmp3(c, pfx, key, est, sd, vz, R.est, R.var, R.varz, tolE, tolV, what, "ref", estKey, varKey);
    {
      // re-feed sequence: new data on the live calculator, collocated values unchanged. The complemented data vector is
      // variable-major: for each variable its data equations, then the collocated value when there is one.
      VectorDouble Z2(Z.size());
      for (auto& v : Z2) v = r.uni(-3, 3);
      VectorDouble ZP2;
      int e0 = 0;
      for (int v = 0; v < nvar; v++)
      {
        for (int i = 0; i < n; i++)
          if (data.active(i) && data.defined(i, v)) ZP2.push_back(Z2[e0++]);
        if (!undef(colval[v])) ZP2.push_back(colval[v] - means[v]);
      }
      if ((int)ZP2.size() == SigmaP.getNRows() && e0 == neq)
      {
        RefSol R2 = refSolve(SigmaP, order >= 0 ? &XP : nullptr, Sigma0P, order >= 0 ? &X0 : nullptr, Sigma00, ZP2, addMean);
        // (variances only in the UK case: the SK collocated variances are the open finding C04:calcul:colcok:sk-variance)
        if (R2.ok) refeedCheck(c, K, "colcok", pfx, Z, &means, Z2, R, R2, order >= 0, order >= 0, false, R.kappa, what);
      }
      else
        c.truth("kc-setup", "C04:calcul:setup", false, what + " complemented data vector size");
    }
    StdOut S = stdKriging(comp, tg, ms);
    if (S.rc != 0 || S.est.size() != (size_t)nvar || undef(S.est[0])) { c.skip("std-kriging-refused"); return; }
    std::vector<double> wv;
    for (double s : S.sd) wv.push_back(s * s);
    cmp3(c, pfx, key, est, sd, vz, S.est, wv, S.vz, tolE, tolV, what, "std", estKey, varKey);
    return;
  }

  // ================================================================================================================
  if (form == 4)
  {
    // cross-validation of a subset of the variables of one sample
    std::vector<int> cand;
    for (int i = 0; i < n; i++)
    {
      if (!data.active(i)) continue;
      bool any = false;
      for (int v = 0; v < nvar; v++) any = any || data.defined(i, v);
      if (any) cand.push_back(i);
    }
    if (cand.empty()) { c.skip("too-few-data"); return; }
    int i0 = r.pick(cand);
    std::vector<int> vx; // cross-validated variables: a random non-empty subset of those defined at i0
    for (int v = 0; v < nvar; v++)
      if (data.defined(i0, v) && r.coin(0.6)) vx.push_back(v);
    if (vx.empty())
      for (int v = 0; v < nvar && vx.empty(); v++)
        if (data.defined(i0, v)) vx.push_back(v);
    // equation ranks in the flattened (variable-major, active & defined samples in Db order) numbering of Sigma / Z
    VectorInt eqs, vars;
    {
      int e = 0;
      for (int v = 0; v < nvar; v++)
        for (int i = 0; i < n; i++)
        {
          if (!data.active(i) || !data.defined(i, v)) continue;
          if (i == i0 && std::find(vx.begin(), vx.end(), v) != vx.end()) { eqs.push_back(e); vars.push_back(v); }
          e++;
        }
    }
    // depleted data set + target at the sample location
    DbSpec dep = data;
    for (int v : vx) dep.z[v][i0] = UNDEF;
    DbSpec tg = onePoint(data.pts, i0);
    for (int v = 0; v < nvar; v++)
    {
      int cnt = 0;
      for (int i = 0; i < n; i++) cnt += dep.active(i) && dep.defined(i, v);
      if (cnt < nb + 2) { c.skip("too-few-data"); return; }
    }
    auto ddb = buildDb(dep);
    auto tdb = buildDb(tg);
    MatrixSquareSymmetric SigmaP = model->evalCovMatrixSymmetric(ddb.get());
    MatrixRectangular XP;
    if (order >= 0) XP = model->evalDriftMatrix(ddb.get());
    MatrixRectangular Sigma0P = model->evalCovMatrix(ddb.get(), tdb.get());
    MatrixRectangular X0P;
    if (order >= 0) X0P = model->evalDriftMatrix(tdb.get());
    MatrixSquareSymmetric Sigma00 = model->evalCovMatrixSymmetric(tdb.get());
    VectorDouble ZP = ddb->getMultipleValuesActive(VectorInt(), VectorInt(), means);
    std::vector<double> addMean(nvar, 0.0);
    if (order < 0) addMean = ms.means;
    RefSol Rall = refSolve(SigmaP, order >= 0 ? &XP : nullptr, Sigma0P, order >= 0 ? &X0P : nullptr, Sigma00, ZP, addMean);
    if (!Rall.ok || !(Rall.kappa < KAPPA_MAX)) { c.skip("illcond"); return; }
    // conditioning of the complete system (the one KrigingCalcul inverts)
    std::vector<double> zero(nvar, 0.0);
    MatrixRectangular S0full = model->evalCovMatrix(db.get(), tdb.get());
    RefSol Rfull = refSolve(Sigma, order >= 0 ? &X : nullptr, S0full, order >= 0 ? &X0P : nullptr, Sigma00, Z, zero);
    if (!Rfull.ok || !(Rfull.kappa < KAPPA_MAX)) { c.skip("illcond"); return; }
    double kap  = std::max(Rall.kappa, Rfull.kappa);
    double tolE = 1e3 * EPS * kap * zs, tolV = 1e3 * EPS * kap * sill;
    std::string what = what0 + fmt(" sample=%d nxvalid=%zu kappa=%.3g", i0, vx.size(), kap);
    std::vector<double> wE, wV, wZ;
    for (int v : vx) { wE.push_back(Rall.est[v]); wV.push_back(Rall.var[v]); wZ.push_back(Rall.varz[v]); }

    KrigingCalcul K(false);
    int e = K.setData(&Z, &means) + K.setLHS(&Sigma, order >= 0 ? &X : nullptr) + K.setVar(&Sigma00);
    e += K.setXvalidUnique(&eqs, &vars);
    if (!c.truth("kc-setters", "C04:calcul:xvalid:setter-error", e == 0, what)) return;
    VectorDouble est = K.getEstimation(), sd = K.getStdv(), vz = K.getVarianceZstar();
    std::string key    = std::string("C04:calcul:xvalid:") + (order < 0 ? "sk" : "uk");
    std::string estKey = (order < 0 && nonzeroMeans) ? "C04:calcul:sk-nonzero-mean:estim" : "";
    std::string pfx    = std::string("kc-xvalid") + ((order < 0 && nonzeroMeans) ? "-skmean" : "");
    cmp3(c, pfx, key, est, sd, vz, wE, wV, wZ, tolE, tolV, what, "ref", estKey);
    {
      // re-feed sequence: new data on the live calculator; the depleted data vector is the new one without the
      // cross-validated equations
      VectorDouble Z2(Z.size());
      for (auto& v : Z2) v = r.uni(-3, 3);
      VectorDouble ZP2;
      for (int q = 0; q < (int)Z2.size(); q++)
        if (std::find(eqs.begin(), eqs.end(), q) == eqs.end()) ZP2.push_back(Z2[q]);
      if ((int)ZP2.size() == SigmaP.getNRows())
      {
        RefSol R2all = refSolve(SigmaP, order >= 0 ? &XP : nullptr, Sigma0P, order >= 0 ? &X0P : nullptr, Sigma00, ZP2, addMean);
        if (R2all.ok)
        {
          RefSol Ro, Rn;
          for (int v : vx)
          {
            Ro.est.push_back(Rall.est[v]); Ro.var.push_back(Rall.var[v]); Ro.varz.push_back(Rall.varz[v]);
            Rn.est.push_back(R2all.est[v]); Rn.var.push_back(R2all.var[v]); Rn.varz.push_back(R2all.varz[v]);
          }
          refeedCheck(c, K, "xvalid", pfx, Z, &means, Z2, Ro, Rn, true, true, false, kap, what);
        }
      }
      else
        c.truth("kc-setup", "C04:calcul:setup", false, what + " depleted data vector size");
    }
    StdOut S = stdKriging(dep, tg, ms);
    if (S.rc != 0 || S.est.size() != (size_t)nvar || undef(S.est[0])) { c.skip("std-kriging-refused"); return; }
    std::vector<double> sE, sV, sZ;
    for (int v : vx) { sE.push_back(S.est[v]); sV.push_back(S.sd[v] * S.sd[v]); sZ.push_back(S.vz[v]); }
    cmp3(c, pfx, key, est, sd, vz, sE, sV, sZ, tolE, tolV, what, "std", estKey);
    if (hetero) c.probe("kc-xvalid-hetero");
    return;
  }
}

int main(int argc, char** argv) { return run_main(argc, argv, "C04", run_case); }
