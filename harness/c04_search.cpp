// C04 (4) — ball-tree searches against exhaustive searches.
//   "migrate"    : migrate() point -> point with flag_ball=true  vs flag_ball=false (CalcMigrate::_expandPointToPointBall
//                  vs _expandPointToPoint), plus a brute-force nearest search of the harness to classify every target.
//   "neigh-ball" : NeighMoving::select() with setBallSearch(true) vs without, ONLY for targets where the nmaxi
//                  Euclidean-nearest samples (of the whole Db: that is what the tree indexes) are all admissible; the
//                  precondition is evaluated by the harness itself. A kriging() with both neighbourhoods follows.
// Ties are excluded: a target is skipped (counted) when the two candidate distances that decide the answer differ by
// less than 1e-7 relative (NeighMoving itself perturbs distances by up to nsel * 1e-9 * distmax to break ties, see
// NeighMoving::_moving, so a smaller margin would test the tie-breaking rule, which the property excludes).
#include "common/vh.hpp"
#include "common/c04_gen.hpp"

#include "Calculators/CalcMigrate.hpp"
#include "Estimation/CalcKriging.hpp"
#include "Neigh/NeighMoving.hpp"

using namespace vh;
using namespace c04;

// see c04_krige.cpp: NeighMoving without coefficients measured a 2-D distance whatever the space (1-D: ASan report); fixed in /repo 7983a8b7b
static const bool AVOID_NEIGHMOVING_NDIM2_1D = false || getenv("C04_DEV_AVOID") != nullptr; // env: developer runs only

static const double TIE = 1e-7;

// -----------------------------------------------------------------------------------------------------------------
// migrate
// -----------------------------------------------------------------------------------------------------------------
static bool beyond(int ndim, const std::vector<double>& d, int distType, const std::vector<double>& dmax)
{
  // documented meaning of 'dmax' / 'dist_type' (CalcMigrate.hpp: "dist_type 1 for L1 and 2 for L2 distance", dmax
  // "array of maximum distances"): type 1 = per-axis box |d_i| <= dmax_i, type 2 = ellipsoid sum (d_i/dmax_i)^2 <= 1
  if (dmax.empty()) return false;
  if (distType == 1)
  {
    for (int i = 0; i < ndim; i++)
      if (std::fabs(d[i]) > dmax[i]) return true;
    return false;
  }
  double t = 0;
  for (int i = 0; i < ndim; i++) t += (d[i] / dmax[i]) * (d[i] / dmax[i]);
  return t > 1;
}

static void caseMigrate(Rng& r, Ctx& c)
{
  int ndim = 1 + (int)(r.next() % 3);
  defineDefaultSpace(ESpaceType::RN, ndim);
  double L = r.pick(std::vector<double> {1.0, 100.0});
  std::vector<double> origin(ndim, 0.0);
  if (r.coin(0.3))
    for (auto& o : origin) o = 100 * L * r.uni(-1, 1);
  int nmax = c.thorough() ? 400 : 90;
  int n1 = 1 + (int)(r.next() % nmax), n2 = 1 + (int)(r.next() % nmax);
  int lay = (int)(r.next() % 3);
  DbSpec A, B;
  A.pts = genPoints(r, ndim, n1, L, origin, lay, 1e-4);
  genValues(r, A, 1, r.coin(0.3) ? 1 : 0, L);
  int selA = r.coin(0.4) ? 1 : (r.coin(0.1) ? 2 : 0);
  genSel(r, A, selA);
  B.pts  = genPoints(r, ndim, n2, L, origin, (int)(r.next() % 3), 1e-4, &A.pts);
  B.nvar = 0;
  int ndup = (int)(r.next() % 3);
  for (int q = 0; q < ndup && q < n2; q++)
  {
    int j = (int)(r.next() % n1);
    for (int d = 0; d < ndim; d++) B.pts.x[d][q] = A.pts.x[d][j];
  }
  int selB = r.coin(0.3) ? 1 : 0;
  genSel(r, B, selB);
  // distance limits: 0 none, 1 isotropic + L2 (a sphere), 2 anisotropic L2 (ellipsoid), 3 L1 (box)
  int dm = (int)(r.next() % 4);
  std::vector<double> dmax;
  int distType = 1;
  if (dm == 1) { dmax.assign(ndim, L * r.loguni(0.03, 0.5)); distType = 2; }
  if (dm == 2) { dmax.resize(ndim); for (auto& v : dmax) v = L * r.loguni(0.03, 0.5); distType = 2; }
  if (dm == 3) { dmax.resize(ndim); for (auto& v : dmax) v = L * r.loguni(0.03, 0.5); distType = 1; }
  if (dm == 0) distType = 1 + (int)(r.next() % 2);
  const char* DM[] = {"none", "sphere", "ellipsoid", "box"};
  c.setSig(fmt("migrate:ndim=%d:selA=%d:selB=%d:dmax=%s:lay=%d:n1=%s", ndim, selA, selB, DM[dm], lay, n1 < 3 ? "tiny" : (n1 < 31 ? "leaf" : "tree")));
  c.puts("pair", "migrate");
  c.putn("ndim", ndim);
  c.putn("n1", n1);
  c.putn("n2", n2);
  c.puts("dmax", DM[dm]);
  c.put("dmaxv", jvec(dmax));

  auto run = [&](bool ball, std::vector<double>& out) -> int {
    auto a = buildDb(A);
    auto b = buildDb(B);
    VectorString before = b->getAllNames();
    int rc = migrate(a.get(), b.get(), "z1", distType, VectorDouble(dmax), false, false, ball);
    VectorString nn = newNames(before, b.get());
    if (rc == 0 && nn.size() == 1) out = col(b.get(), nn[0]);
    return rc;
  };
  std::vector<double> plain, ball;
  int rcP = run(false, plain), rcB = run(true, ball);
  std::string what = fmt("ndim=%d n1=%d n2=%d selA=%d selB=%d dmax=%s distType=%d", ndim, n1, n2, selA, selB, DM[dm], distType);
  if (!c.truth("mig-rc", "C04:migrate:rc", rcP == rcB, what + fmt(" rc %d / %d", rcP, rcB))) return;
  if (rcP != 0 || plain.size() != (size_t)n2 || ball.size() != (size_t)n2)
  {
    c.truth("mig-rc", "C04:migrate:output-column", rcP != 0, what + fmt(" sizes %zu %zu", plain.size(), ball.size()));
    return;
  }

  for (int t = 0; t < n2; t++)
  {
    std::string w = what + fmt(" target=%d", t);
    if (!B.active(t))
    {
      c.truth("mig-masked-target", "C04:migrate:masked-target-written", undef(plain[t]) && undef(ball[t]), w);
      continue;
    }
    // brute force over the source: nearest among ALL samples (what the tree indexes) and nearest among admissible
    // ones (active and inside the distance limits), with the runner-up distances for the tie test
    int iAll = -1, iAdm = -1;
    double dAll = INFINITY, dAll2 = INFINITY, dAdm = INFINITY, dAdm2 = INFINITY;
    std::vector<double> dv(ndim);
    for (int i = 0; i < n1; i++)
    {
      double d2 = 0;
      for (int d = 0; d < ndim; d++) { dv[d] = A.pts.x[d][i] - B.pts.x[d][t]; d2 += dv[d] * dv[d]; }
      double di = std::sqrt(d2);
      if (di < dAll) { dAll2 = dAll; dAll = di; iAll = i; }
      else if (di < dAll2) dAll2 = di;
      if (!A.active(i) || beyond(ndim, dv, distType, dmax)) continue;
      if (di < dAdm) { dAdm2 = dAdm; dAdm = di; iAdm = i; }
      else if (di < dAdm2) dAdm2 = di;
    }
    double scale = std::max(dAll2 < INFINITY ? dAll2 : dAll, 1e-300);
    bool tie = (dAll2 - dAll) <= TIE * scale || (iAdm >= 0 && dAdm2 < INFINITY && (dAdm2 - dAdm) <= TIE * std::max(dAdm2, 1e-300));
    if (tie) { c.skip("mig-tie"); continue; }
    // limits: a point whose offset is within 1e-9 of the limit is a boundary case
    bool nearLimit = false;
    if (!dmax.empty())
      for (int i = 0; i < n1 && !nearLimit; i++)
      {
        for (int d = 0; d < ndim; d++) dv[d] = A.pts.x[d][i] - B.pts.x[d][t];
        std::vector<double> lo(dmax), hi(dmax);
        for (auto& v : lo) v *= (1 - 1e-9);
        for (auto& v : hi) v *= (1 + 1e-9);
        if (beyond(ndim, dv, distType, lo) != beyond(ndim, dv, distType, hi)) nearLimit = true;
      }
    if (nearLimit) { c.skip("mig-on-limit"); continue; }
    double wantExh = iAdm >= 0 ? A.z[0][iAdm] : UNDEF;
    // (a) the plain path is the exhaustive search of the statement: nearest admissible sample
    {
      bool ok = undef(wantExh) ? undef(plain[t]) : plain[t] == wantExh;
      c.check("mig-plain-vs-brute", "C04:migrate:plain-vs-bruteforce:dmax=" + std::string(DM[dm]), ok, ok ? 0 : 1, 0,
              w + fmt(" got=%g want=%g (sample %d)", plain[t], wantExh, iAdm));
    }
    // (b) differential ball vs plain, classified by the harness:
    //     - overall nearest sample is masked            -> class "nearest-is-masked-source"
    //     - overall nearest sample is beyond the limits -> class "nearest-beyond-dmax" (only differs if another sample is admissible)
    std::string cls, orc = "mig-ball";
    if (iAll >= 0 && !A.active(iAll)) { cls = "C04:migrate:ball:nearest-is-masked-source"; orc = "migx-ball-masked-source"; }
    else if (iAll != iAdm) { cls = "C04:migrate:ball:nearest-beyond-dmax"; orc = "migx-ball-beyond-dmax"; }
    else cls = "C04:migrate:ball:dmax=" + std::string(DM[dm]) + (n1 < 31 ? ":leaf" : ":tree");
    bool same = (undef(plain[t]) && undef(ball[t])) || plain[t] == ball[t];
    c.check(orc, cls, same, same ? 0 : 1, 0, w + fmt(" ball=%g plain=%g nearestAll=%d nearestAdmissible=%d", ball[t], plain[t], iAll, iAdm));
  }
  if (selA) c.probe("mig-source-selection");
  if (dm) c.probe("mig-dmax");
  if (n1 >= 31) c.probe("mig-tree-deeper-than-leaf");
}

// -----------------------------------------------------------------------------------------------------------------
// NeighMoving: ball candidates vs full scan
// -----------------------------------------------------------------------------------------------------------------
static void caseNeigh(Rng& r, Ctx& c)
{
  int ndim = 1 + (int)(r.next() % 3);
  defineDefaultSpace(ESpaceType::RN, ndim);
  double L = r.pick(std::vector<double> {1.0, 100.0});
  std::vector<double> origin(ndim, 0.0);
  int nmax = c.thorough() ? 250 : 70;
  int n    = 6 + (int)(r.next() % (nmax - 5));
  int nvar = 1 + (int)(r.next() % 2);
  DbSpec A;
  A.pts = genPoints(r, ndim, n, L, origin, (int)(r.next() % 3), 1e-3);
  int het = (int)(r.next() % 3); // 0 none, 1 random cells, 2 whole samples undefined
  genValues(r, A, nvar, het == 2 ? 0 : het, L);
  if (het == 2)
  {
    // a few samples undefined for every variable (kept sparse so that the precondition still holds for many targets)
    double p = r.uni(0.03, 0.12);
    for (int i = 0; i < n; i++)
      if (r.coin(p))
        for (int v = 0; v < nvar; v++) A.z[v][i] = UNDEF;
  }
  int selA = r.coin(0.4) ? 1 : 0;
  if (selA)
  {
    double p = r.uni(0.03, 0.15); // sparse mask, same reason
    A.sel.assign(n, 1.0);
    for (auto& v : A.sel) v = r.coin(p) ? 0.0 : 1.0;
  }
  int m = 3 + (int)(r.next() % 8);
  DbSpec T;
  T.pts  = genPoints(r, ndim, m, L, origin, 0, 1e-3, &A.pts);
  T.nvar = 0;
  bool xval = r.coin(0.25);
  if (r.coin(0.4) || xval)
  {
    // targets on top of data (zero distance; with flag_xvalid the coinciding sample is excluded)
    int nd = 1 + (int)(r.next() % 2);
    for (int q = 0; q < nd && q < m; q++)
    {
      int j = (int)(r.next() % n);
      for (int d = 0; d < ndim; d++) T.pts.x[d][q] = A.pts.x[d][j];
    }
  }
  int nmaxi     = 1 + (int)(r.next() % std::min(n, 16));
  int nmini     = 1;
  bool radiusOn = r.coin(0.5);
  double radius = radiusOn ? L * r.loguni(0.35, 1.5) : UNDEF;
  bool coeffs   = r.coin(0.6);
  if (AVOID_NEIGHMOVING_NDIM2_1D && ndim == 1) coeffs = true;
  int leaf = 1 + (int)(r.next() % 15);
  c.setSig(fmt("neigh-ball:ndim=%d:nvar=%d:het=%d:sel=%d:radius=%d:coeffs=%d:xvalid=%d:nmaxi=%s", ndim, nvar, het, selA, (int)radiusOn,
               (int)coeffs, (int)xval, nmaxi <= 3 ? "small" : "mid"));
  c.puts("pair", "neigh-ball");
  c.putn("ndim", ndim);
  c.putn("n", n);
  c.putn("nmaxi", nmaxi);
  c.putn("radius", radius);
  c.putn("coeffs", coeffs);

  auto mk = [&](bool ball) {
    std::unique_ptr<NeighMoving> nm(coeffs ? NeighMoving::create(xval, nmaxi, radius, nmini, 1, ITEST, VectorDouble(ndim, 1.))
                                           : NeighMoving::create(xval, nmaxi, radius, nmini));
    if (ball) nm->setBallSearch(true, leaf);
    return nm;
  };
  auto dbA = buildDb(A);
  auto dbT = buildDb(T);
  auto nS = mk(false), nB = mk(true);
  if (nS->attach(dbA.get(), dbT.get()) != 0 || nB->attach(dbA.get(), dbT.get()) != 0)
  {
    c.truth("nb-attach", "C04:neigh-ball:attach", false, "attach failed");
    return;
  }
  std::string what = fmt("ndim=%d n=%d nmaxi=%d radius=%g coeffs=%d sel=%d het=%d xvalid=%d leaf=%d", ndim, n, nmaxi, radiusOn ? radius : -1.,
                         (int)coeffs, selA, het, (int)xval, leaf);
  // without coefficients the scan distance used to be 2-D whatever the space (fixed in /repo 7983a8b7b): in 3-D that
  // input class keeps its own key and oracle family
  bool cls3d       = (!coeffs && ndim == 3);
  std::string key  = cls3d ? "C04:neigh-ball:no-coeffs-3d" : "C04:neigh-ball:select";
  std::string orc  = cls3d ? "nbx-select-nocoeffs3d" : "nb-select";

  std::vector<char> preOK(m, 0);
  for (int t = 0; t < m; t++)
  {
    if (!T.active(t)) continue;
    // --- precondition, evaluated here: the nmaxi Euclidean-nearest samples of the Db are all admissible
    std::vector<std::pair<double, int>> ds(n);
    for (int i = 0; i < n; i++) ds[i] = {distPP(A.pts, i, T.pts, t), i};
    std::sort(ds.begin(), ds.end());
    bool pre = true, tie = false;
    for (int q = 0; q < nmaxi; q++)
    {
      int i = ds[q].second;
      bool allUndef = true;
      for (int v = 0; v < nvar; v++)
        if (A.defined(i, v)) allUndef = false;
      if (!A.active(i) || allUndef) pre = false;
      if (radiusOn && ds[q].first > radius * (1 - 1e-9)) pre = false; // on / beyond the radius: not "admissible" with margin
      if (xval && ds[q].first < 1e-9 * L) pre = false;                  // the cross-validated sample itself is not admissible
    }
    // tie at the nmaxi boundary. NeighMoving::_moving adds distmax * isel * 1e-9 to the isel-th accepted distance
    // before sorting ("in order to ensure the sorting results"), i.e. up to n * 1e-9 * (largest distance): two
    // samples closer than that in distance are a tie for the library, so the exclusion margin must be at least that
    if (nmaxi < n && (ds[nmaxi].first - ds[nmaxi - 1].first) <= std::max(TIE * ds[nmaxi].first, 20.0 * n * 1e-9 * ds[n - 1].first)) tie = true;
    if (tie) { c.skip("nb-tie"); continue; }
    if (!pre) { c.skip("nb-precondition"); continue; }
    preOK[t] = 1;
    VectorInt rs, rb;
    nS->select(t, rs);
    nB->select(t, rb);
    std::vector<int> a(rs.begin(), rs.end()), b(rb.begin(), rb.end()), want;
    std::sort(a.begin(), a.end());
    std::sort(b.begin(), b.end());
    for (int q = 0; q < nmaxi; q++) want.push_back(ds[q].second);
    std::sort(want.begin(), want.end());
    bool same = (a == b);
    c.check(orc, key, same, same ? 0 : 1, 0,
            what + fmt(" target=%d scan=%s ball=%s", t, jvec(a, 20).c_str(), jvec(b, 20).c_str()));
    // under the precondition (and with an Euclidean search distance) both must be exactly the nmaxi nearest samples
    {
      bool okS = (a == want);
      c.check(cls3d ? "nbx-scan-vs-brute-nocoeffs3d" : "nb-scan-vs-brute",
              cls3d ? "C04:neigh-ball:no-coeffs-3d" : "C04:neigh-ball:scan-vs-bruteforce", okS, okS ? 0 : 1, 0,
              what + fmt(" target=%d scan=%s want=%s", t, jvec(a, 20).c_str(), jvec(want, 20).c_str()));
    }
  }

  // --- the data are edited IN PLACE (coordinates mirrored through the centre of their bounding box) and the same two objects
  //     are attached again to the same Db objects: each must answer like a fresh object of its kind attached to the edited Db
  //     (the search tree of the accelerated path must follow the data, whatever object carries it)
  if (c.icase % 2 == 0)
  {
    int nsA = dbA->getSampleNumber();
    std::vector<std::vector<double>> x0(ndim, std::vector<double>(nsA));
    for (int d = 0; d < ndim; d++)
    {
      double lo = INFINITY, hi = -INFINITY;
      for (int i = 0; i < nsA; i++) { x0[d][i] = dbA->getCoordinate(i, d); lo = std::min(lo, x0[d][i]); hi = std::max(hi, x0[d][i]); }
      for (int i = 0; i < nsA; i++) dbA->setCoordinate(i, d, lo + hi - x0[d][i]);
    }
    auto fS = mk(false), fB = mk(true);
    if (nS->attach(dbA.get(), dbT.get()) == 0 && nB->attach(dbA.get(), dbT.get()) == 0 && fS->attach(dbA.get(), dbT.get()) == 0 &&
        fB->attach(dbA.get(), dbT.get()) == 0)
    {
      int ndone = 0;
      for (int t = 0; t < m && ndone < 6; t++)
      {
        if (!T.active(t)) continue;
        ndone++;
        VectorInt r1, r2, r3, r4;
        nS->select(t, r1); fS->select(t, r2); nB->select(t, r3); fB->select(t, r4);
        std::vector<int> a1(r1.begin(), r1.end()), a2(r2.begin(), r2.end()), a3(r3.begin(), r3.end()), a4(r4.begin(), r4.end());
        std::sort(a1.begin(), a1.end()); std::sort(a2.begin(), a2.end()); std::sort(a3.begin(), a3.end()); std::sort(a4.begin(), a4.end());
        c.check("nb-reattach-scan", "C04:neigh-ball:reattach-after-in-place-edit:scan", a1 == a2, a1 == a2 ? 0 : 1, 0,
                what + fmt(" target=%d reused=%s fresh=%s", t, jvec(a1, 20).c_str(), jvec(a2, 20).c_str()));
        c.check("nb-reattach-ball", "C04:neigh-ball:reattach-after-in-place-edit:ball", a3 == a4, a3 == a4 ? 0 : 1, 0,
                what + fmt(" target=%d reused=%s fresh=%s", t, jvec(a3, 20).c_str(), jvec(a4, 20).c_str()));
      }
    }
    for (int d = 0; d < ndim; d++)
      for (int i = 0; i < nsA; i++) dbA->setCoordinate(i, d, x0[d][i]);
  }

  // --- the same two neighbourhoods through kriging(), restricted (by a selection on the target Db) to the targets
  //     that satisfy the precondition: identical results expected
  int npre = 0;
  for (int t = 0; t < m; t++) npre += preOK[t];
  if (npre == 0) return;
  DbSpec T2 = T;
  T2.sel.assign(m, 0.0);
  for (int t = 0; t < m; t++) T2.sel[t] = preOK[t] ? 1.0 : 0.0;
  ModelSpec ms = genModel(r, ndim, nvar, 1 + (int)(r.next() % 2), L, 0, true);
  ms.driftOrder = r.coin() ? 0 : -1;
  auto krg = [&](bool ball, std::vector<std::vector<double>>& est, std::vector<std::vector<double>>& sd) -> int {
    auto a = buildDb(A);
    auto b = buildDb(T2);
    auto model = buildModel(ms);
    auto ng    = mk(ball);
    VectorString before = b->getAllNames();
    int rc = kriging(a.get(), b.get(), model.get(), ng.get());
    for (auto& nme : newNames(before, b.get()))
    {
      if (endsWith(nme, "estim")) est.push_back(col(b.get(), nme));
      if (endsWith(nme, "stdev")) sd.push_back(col(b.get(), nme));
    }
    return rc;
  };
  std::vector<std::vector<double>> eS, sS, eB, sB;
  int rcS = krg(false, eS, sS), rcB = krg(true, eB, sB);
  std::string kk = cls3d ? "C04:neigh-ball:no-coeffs-3d" : "C04:neigh-ball:kriging";
  std::string ko = cls3d ? "nbx-kriging-nocoeffs3d" : "nb-kriging";
  if (!c.truth(ko, kk, rcS == rcB, what + fmt(" rc %d / %d", rcS, rcB))) return;
  if (rcS != 0 || eS.size() != (size_t)nvar || eB.size() != (size_t)nvar) return;
  for (int t = 0; t < m; t++)
  {
    if (!preOK[t]) continue;
    for (int v = 0; v < nvar; v++)
    {
      // same samples in the same order -> same arithmetic: identical
      bool same = ((undef(eS[v][t]) && undef(eB[v][t])) || eS[v][t] == eB[v][t]) && ((undef(sS[v][t]) && undef(sB[v][t])) || sS[v][t] == sB[v][t]);
      c.check(ko, kk, same, same ? 0 : std::fabs(eS[v][t] - eB[v][t]), 0,
              what + fmt(" target=%d var=%d est %.17g / %.17g sd %.17g / %.17g", t, v, eS[v][t], eB[v][t], sS[v][t], sB[v][t]));
    }
  }
  if (selA) c.probe("nb-selection");
  if (radiusOn) c.probe("nb-radius");
}

static void run_case(Rng& r, Ctx& c)
{
  if (r.coin(0.5))
    caseMigrate(r, c);
  else
    caseNeigh(r, c);
}

int main(int argc, char** argv) { return run_main(argc, argv, "C04", run_case); }
