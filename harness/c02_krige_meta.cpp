// C02 — kriging is exact, unbiased, linear and invariant under relabelling (metamorphic monitor).
//
// One base configuration per case (generator shared with C01: harness/common/krige_gen.hpp), then relations between
// several library runs; kriging() gives the outputs, a KrigingSystem driven target by target gives the neighbourhood
// and the weights. The reference solver is used ONLY to size tolerances (condition number and magnitude of the sums),
// never for the expected values:
//   exact      target == datum (value defined, no measurement error there)  =>  estim == z, stdev == 0
//   stdev      stdev finite and >= 0 ; known mean: stdev^2 <= C(0)
//   unbiased   X^t lambda = x0 for every drift function and variable (sum of weights = 1, cross-variable sums = 0)
//   shift      z += sum_l a_l f_l(x)  =>  estim += sum_l a_l f_l(x0), stdev unchanged
//   linear     krige(alpha z1 + beta z2) == alpha krige(z1) + beta krige(z2)   (known means combined alike)
//   permute    reordering the samples changes nothing
//   translate  adding a common vector to every coordinate (data, targets, grid origin) changes nothing
//   lincomb    kriging(matLC = A) == A . (kriging of each variable), exact at data where every variable is known
//              (simple cokriging included: the known mean of combination k is sum_j a_kj m_j)
//   xvalid     cross-validation at sample i == kriging onto x_i from the data without sample i (unique neighbourhood)
#include "common/vh.hpp"
#include "common/ref_linalg.hpp"
#include "common/ref_krige.hpp"
#include "common/krige_gen.hpp"

#include "Basic/NamingConvention.hpp"
#include "Basic/OptDbg.hpp"
#include "Enum/EKrigOpt.hpp"
#include "Estimation/CalcKriging.hpp"
#include "Estimation/KrigingSystem.hpp"

#include <map>
#include <memory>

using namespace vh;
using ref::LD;

static const double EPS  = 2.220446049250313e-16;
static const double CTOL = 1e3;
static const double KMAX = 1e9;
static const bool AVOID_XVALID_FUNDEF = false; // true: no cross-validation when some external drift is undefined at data

static std::vector<std::string> namesWithSuffix(const Db* db, const std::string& suf)
{
  std::vector<std::string> out;
  VectorString all = db->getAllNames();
  for (int i = 0; i < (int)all.size(); i++)
  {
    const std::string& s = all[i];
    if (s.size() >= suf.size() && s.compare(s.size() - suf.size(), suf.size(), suf) == 0) out.push_back(s);
  }
  return out;
}

// everything observed in one library run
struct Run
{
  bool ok = false;
  std::string why;
  int nt = 0, nvar = 0;
  std::vector<std::vector<double>> est, sd; // [nvar][nt]   from kriging()
  std::vector<std::vector<double>> lcE, lcS; // [nlc][nt]   from kriging(..., matLC) when a combination matrix is given
  std::vector<std::vector<int>> nbgh;       // [nt]
  std::vector<MatrixRectangular> W;         // [nt]         from KrigingSystem::getWeights()
  std::vector<int> nred;
  // tolerance sizing (reference solver on this run's own data and neighbourhoods)
  std::vector<char> usable;                 // system evaluated (not singular / ill-conditioned / empty)
  std::vector<double> cond;
  std::vector<std::vector<double>> estMag, varMag, c00; // [nt][nvar]
  std::vector<refk::Sol> sol;               // kept for the weight layout (eqS, eqV) and Tw
};

typedef std::vector<std::vector<double>> LinComb; // [nlc][nvar]

static Run doRun(kg::Case& k, bool wantWeights, const LinComb* lc = nullptr)
{
  Run R;
  auto dbin  = kg::makeDataDb(k);
  auto dbout = kg::makeTargetDb(k);
  auto model = kg::makeModel(k);
  auto neigh = kg::makeNeigh(k);
  const int nvar = k.nvar, nt = (int)k.tx.size();
  R.nt = nt; R.nvar = nvar;
  if (!model->isValid()) { R.why = "model-invalid"; return R; }
  const bool block      = k.targetKind == kg::T_BLOCK;
  const EKrigOpt calcul = block ? EKrigOpt::BLOCK : EKrigOpt::POINT;
  const DbGrid* grid    = dynamic_cast<const DbGrid*>(dbout.get());
  VectorInt ndiscs(k.ndiscs.begin(), k.ndiscs.end());
  int err = k.perCell ? krigcell(dbin.get(), dbout.get(), model.get(), neigh.get(), true, true, ndiscs)
                      : kriging(dbin.get(), dbout.get(), model.get(), neigh.get(), calcul, true, true, false, ndiscs);
  if (err) { R.why = "kriging-error"; return R; }
  auto nE = namesWithSuffix(dbout.get(), ".estim"), nS = namesWithSuffix(dbout.get(), ".stdev");
  if ((int)nE.size() != nvar || (int)nS.size() != nvar) { R.why = "columns"; return R; }
  R.est.resize(nvar); R.sd.resize(nvar);
  for (int iv = 0; iv < nvar; iv++)
  {
    R.est[iv] = dbout->getColumn(nE[iv]).getVector();
    R.sd[iv]  = dbout->getColumn(nS[iv]).getVector();
  }
  // same call with the option matLC: "Define the output as Linear Combinations of the Input Variables; the first
  // dimension of 'matLC' is the number of Output variables, the second the number of input Variables" (krigcell has no
  // such argument)
  if (lc != nullptr && !lc->empty() && !k.perCell)
  {
    const int nlc = (int)lc->size();
    MatrixRectangular M(nlc, nvar);
    for (int i = 0; i < nlc; i++)
      for (int j = 0; j < nvar; j++) M.setValue(i, j, (*lc)[i][j]);
    int e2 = kriging(dbin.get(), dbout.get(), model.get(), neigh.get(), calcul, true, true, false, ndiscs, VectorInt(), &M,
                     NamingConvention("LinComb"));
    if (e2) { R.why = "kriging-matLC-error"; return R; }
    std::vector<std::string> lE, lS;
    for (auto& nm : namesWithSuffix(dbout.get(), ".estim")) if (nm.compare(0, 7, "LinComb") == 0) lE.push_back(nm);
    for (auto& nm : namesWithSuffix(dbout.get(), ".stdev")) if (nm.compare(0, 7, "LinComb") == 0) lS.push_back(nm);
    if ((int)lE.size() != nlc || (int)lS.size() != nlc) { R.why = "columns-matLC"; return R; }
    for (int i = 0; i < nlc; i++)
    {
      R.lcE.push_back(dbout->getColumn(lE[i]).getVector());
      R.lcS.push_back(dbout->getColumn(lS[i]).getVector());
    }
  }
  // neighbourhoods and weights
  refk::Setup setup;
  setup.cov    = refk::covOfModel(model.get());
  setup.drifts = k.basis();
  setup.means  = k.means;
  setup.covErr = kg::covErrOf(k);
  std::map<std::vector<int>, std::unique_ptr<refk::System>> cache;
  int uE = dbout->addColumnsByConstant(nvar, TEST, "ks.estim");
  int uS = dbout->addColumnsByConstant(nvar, TEST, "ks.stdev");
  R.nbgh.resize(nt); R.W.resize(nt); R.nred.assign(nt, 0); R.usable.assign(nt, 0); R.cond.assign(nt, INFINITY);
  R.estMag.assign(nt, std::vector<double>(nvar, 0)); R.varMag = R.estMag; R.c00 = R.estMag; R.sol.resize(nt);
  {
    KrigingSystem ks(dbin.get(), dbout.get(), model.get(), neigh.get());
    if (ks.updKrigOptEstim(uE, uS, -1) || ks.setKrigOptCalcul(calcul, ndiscs, k.perCell) || !ks.isReady()) { R.why = "ksys-not-ready"; return R; }
    for (int it = 0; it < nt; it++)
    {
      ks.estimate(it);
      R.nbgh[it] = ks.getSampleIndices().getVector();
      if (R.nbgh[it].empty()) continue;
      if (wantWeights) R.W[it] = ks.getWeights();
      R.nred[it] = ks.getNRed();
      auto itc   = cache.find(R.nbgh[it]);
      if (itc == cache.end()) itc = cache.emplace(R.nbgh[it], std::make_unique<refk::System>(k.data, setup, R.nbgh[it])).first;
      const refk::System& sys = *itc->second;
      if (!sys.base.ok || sys.base.ndata < sys.base.ndrift || sys.base.ndata == 0 || sys.base.cond > KMAX) continue;
      refk::Sol s  = sys.solve(kg::refTarget(k, it, grid));
      R.usable[it] = 1;
      R.cond[it]   = (double)s.cond;
      for (int jv = 0; jv < nvar; jv++)
      {
        R.estMag[it][jv] = (double)s.estMag[jv];
        R.varMag[it][jv] = (double)s.varMag[jv];
        R.c00[it][jv]    = (double)s.c00[jv];
      }
      R.sol[it] = std::move(s);
    }
    ks.conclusion();
  }
  R.ok = true;
  return R;
}

static double tolE(const Run& r, int it, int jv) { return CTOL * EPS * r.cond[it] * (r.estMag[it][jv] + 1e-300); }
static double tolV(const Run& r, int it, int jv) { return CTOL * EPS * r.cond[it] * (r.varMag[it][jv] + 1e-300); }

// compare outputs of two runs on the same targets
static void cmpRuns(Ctx& c, const std::string& rel, const std::string& cls, const Run& a, const Run& b,
                    const std::vector<std::vector<double>>* shiftEst = nullptr, double extraMag = 0.)
{
  for (int it = 0; it < a.nt; it++)
  {
    if (a.nbgh[it].empty() && b.nbgh[it].empty()) continue;
    if (!a.usable[it] || !b.usable[it]) { c.skip(rel + ":illcond"); continue; }
    for (int jv = 0; jv < a.nvar; jv++)
    {
      double sh = shiftEst ? (*shiftEst)[jv][it] : 0.;
      double te = tolE(a, it, jv) + tolE(b, it, jv) + CTOL * EPS * std::max(a.cond[it], b.cond[it]) * extraMag;
      c.close(rel + "-estim", "C02:" + rel + ":estim:" + cls, b.est[jv][it], a.est[jv][it] + sh, te,
              fmt("target %d var %d cond %.3g/%.3g", it, jv, a.cond[it], b.cond[it]));
      double tv = tolV(a, it, jv) + tolV(b, it, jv);
      c.close(rel + "-stdev", "C02:" + rel + ":stdev:" + cls, b.sd[jv][it] * b.sd[jv][it], a.sd[jv][it] * a.sd[jv][it], tv,
              fmt("target %d var %d cond %.3g/%.3g", it, jv, a.cond[it], b.cond[it]));
    }
  }
}

static void run_case(Rng& r, Ctx& c)
{
  kg::Options opt;
  opt.maxN       = 30;
  opt.maxTargets = 8;
  opt.allowUndefTargetDrift = false;
  opt.allowBareMoving1D = false; // library defect reported by C01 (crash key); nothing metamorphic to learn from it
  kg::Case k = kg::draw(r, c.thorough(), opt);
  kg::setSpace(k.ndim);
  c.setSig(k.sig());
  c.puts("cfg", k.sig());
  c.put("case", kg::describe(k));
  const int nvar = k.nvar;
  const std::string cls = fmt("%s:%s:%s%s", k.neighKind == kg::N_UNIQUE ? "unique" : "moving", k.driftOrder < 0 ? "mean" : "drift",
                              nvar > 1 ? "multi" : "mono", k.targetKind == kg::T_BLOCK ? ":block" : "");
  // relations that always use point targets of their own (exactness, cross-validation)
  const std::string cls0 = fmt("%s:%s:%s", k.neighKind == kg::N_UNIQUE ? "unique" : "moving", k.driftOrder < 0 ? "mean" : "drift",
                               nvar > 1 ? "multi" : "mono");
  // sub-generators are drawn up front so that every relation sees the same stream whatever happens before it
  Rng rExact = Rng(r.next()), rShift = Rng(r.next()), rLin = Rng(r.next()), rPerm = Rng(r.next()), rTrans = Rng(r.next()),
      rXv = Rng(r.next()), rLC = Rng(r.next());

  // linear combinations of the variables (several variables only): non-square in general, every row non-trivial
  LinComb lc;
  if (nvar >= 2 && rLC.coin(0.7))
  {
    int nlc = rLC.irange(1, nvar);
    if (rLC.coin(0.5)) nlc = std::min(nlc, nvar - 1); // favour non-square
    lc.assign(nlc, std::vector<double>(nvar, 0.));
    for (auto& row : lc)
    {
      for (auto& v : row) v = rLC.coin(0.2) ? 0. : rLC.uni(-2, 2);
      row[rLC.irange(0, nvar - 1)] += 1.5;
    }
  }
  const bool skLC = !lc.empty() && k.driftOrder < 0; // simple cokriging of a combination: known means enter the result

  Run base = doRun(k, true, &lc);
  if (!c.truth("base-run", "C02:base-run-failed:" + base.why, base.ok, k.sig())) return;
  const int nt = base.nt;
  const std::vector<refk::DriftFn> basis = k.basis();
  const int nbfl = (int)basis.size();

  // ---------------- stdev finite, >= 0, <= C(0) with a known mean ----------------
  for (int it = 0; it < nt; it++)
  {
    if (base.nbgh[it].empty()) continue;
    if (!base.usable[it]) { c.skip("stdev:illcond"); continue; }
    for (int jv = 0; jv < nvar; jv++)
    {
      double s = base.sd[jv][it];
      c.truth("stdev-finite", "C02:stdev:not-finite-or-negative:" + cls, !FFFF(s) && std::isfinite(s) && s >= 0,
              fmt("target %d var %d stdev %g", it, jv, s));
      if (k.driftOrder < 0)
      {
        double tv = tolV(base, it, jv);
        c.check("stdev-le-prior", "C02:stdev:exceeds-prior-variance:" + cls, s * s <= base.c00[it][jv] + tv,
                std::max(0., s * s - base.c00[it][jv]), tv, fmt("target %d var %d stdev2 %.17g C0 %.17g", it, jv, s * s, base.c00[it][jv]));
      }
    }
  }

  // ---------------- unbiasedness: X^t lambda = x0 ----------------
  if (nbfl > 0)
    for (int it = 0; it < nt; it++)
    {
      if (base.nbgh[it].empty()) continue;
      if (!base.usable[it]) { c.skip("unbiased:illcond"); continue; }
      const refk::Sol& s = base.sol[it];
      const MatrixRectangular& W = base.W[it];
      if (W.getNRows() != s.nred || W.getNCols() != nvar) { c.skip("unbiased:layout"); continue; }
      std::vector<double> f0(k.nfex > 0 ? k.tf[it] : std::vector<double>());
      for (int jv = 0; jv < nvar; jv++)
        for (int iv = 0; iv < nvar; iv++)
          for (int il = 0; il < nbfl; il++)
          {
            LD sum = 0, mag = 0, tol = 0;
            for (int a = 0; a < s.ndata; a++)
            {
              if (s.eqV[a] != iv) continue;
              int i  = base.nbgh[it][s.eqS[a]];
              LD f   = refk::evalDrift(basis[il], k.data.x[i], k.nfex > 0 ? k.data.f[i] : std::vector<double>());
              sum += (LD)W.getValue(a, jv) * f;
              mag += std::fabs((LD)W.getValue(a, jv) * f);
              tol += (LD)(CTOL * EPS * base.cond[it]) * s.Tw(a, jv) * std::fabs(f);
            }
            LD want = iv == jv ? refk::evalDrift(basis[il], k.tx[it], f0) : (LD)0;
            tol += (LD)(CTOL * EPS * base.cond[it]) * std::fabs(want) + 1e-300L;
            std::string what = (il == 0 && basis[il].fex < 0) ? "sum-of-weights" : (basis[il].fex >= 0 ? "external-drift" : "monomial");
            c.close("unbiased", "C02:unbiased:" + what + (iv == jv ? ":same-var:" : ":cross-var:") + cls, (double)sum, (double)want,
                    (double)tol, fmt("target %d jv %d iv %d drift %d cond %.3g", it, jv, iv, il, base.cond[it]));
          }
    }

  // ---------------- exactness: targets = data locations ----------------
  {
    kg::Case e = k;
    e.targetKind = kg::T_POINTS;
    e.tx.clear(); e.tf.clear();
    e.gnx.clear(); e.gang.clear(); e.ndiscs.clear(); e.perCell = false; e.blex.clear();
    std::vector<int> which;
    for (int i : rExact.perm(k.n))
    {
      bool any = false; // a sample without any defined variable is not a datum
      for (int iv = 0; iv < nvar; iv++) any = any || refk::defined(k.data.z[i][iv]);
      if (any && (int)which.size() < 10) which.push_back(i);
    }
    for (int i : which)
    {
      e.tx.push_back(k.data.x[i]);
      if (k.nfex > 0) e.tf.push_back(k.data.f[i]);
    }
    // a target whose external drift is undefined has no kriging system: leave those out
    for (int q = (int)which.size() - 1; q >= 0; q--)
    {
      bool def = true;
      if (k.nfex > 0) for (double v : e.tf[q]) def = def && refk::defined(v);
      if (!def) { which.erase(which.begin() + q); e.tx.erase(e.tx.begin() + q); e.tf.erase(e.tf.begin() + q); }
    }
    if (!which.empty())
    {
      Run ex = doRun(e, false, &lc);
      if (c.truth("exact-run", "C02:exact:run-failed:" + ex.why, ex.ok, k.sig()))
        for (int q = 0; q < (int)which.size(); q++)
        {
          // exactness of a linear combination: every variable known, without measurement error, at the datum
          if (!ex.lcE.empty() && !ex.nbgh[q].empty() && ex.usable[q] &&
              std::find(ex.nbgh[q].begin(), ex.nbgh[q].end(), which[q]) != ex.nbgh[q].end())
          {
            int i0 = which[q];
            bool full = true;
            for (int jv = 0; jv < nvar; jv++)
              full = full && refk::defined(k.data.z[i0][jv]) &&
                     !(!k.data.v.empty() && refk::defined(k.data.v[i0][jv]) && k.data.v[i0][jv] > 0);
            if (full)
              for (int i = 0; i < (int)lc.size(); i++)
              {
                LD want = 0, te = 0, tq = 0;
                for (int jv = 0; jv < nvar; jv++)
                {
                  want += (LD)lc[i][jv] * (LD)k.data.z[i0][jv];
                  te += std::fabs(lc[i][jv]) * tolE(ex, q, jv);
                  tq += std::fabs(lc[i][jv]) * std::sqrt(tolV(ex, q, jv));
                }
                if (skLC) c.probe("lincomb-sk-exact");
                c.close("lincomb-exact-estim", "C02:lincomb:exact:estim:" + cls0, ex.lcE[i][q], (double)want, (double)te + 1e-300,
                        fmt("datum %d combination %d cond %.3g %s", i0, i, ex.cond[q], k.sig().c_str()));
                c.check("lincomb-exact-stdev", "C02:lincomb:exact:stdev:" + cls0, ex.lcS[i][q] * ex.lcS[i][q] <= (double)(tq * tq) + 1e-300,
                        ex.lcS[i][q] * ex.lcS[i][q], (double)(tq * tq) + 1e-300, fmt("datum %d combination %d", i0, i));
              }
          }
          int i = which[q];
          if (ex.nbgh[q].empty()) { c.skip("exact:empty-neigh"); continue; }
          if (!ex.usable[q]) { c.skip("exact:illcond"); continue; }
          bool inNb = std::find(ex.nbgh[q].begin(), ex.nbgh[q].end(), i) != ex.nbgh[q].end();
          if (!inNb) { c.skip("exact:datum-not-in-neigh"); continue; }
          for (int jv = 0; jv < nvar; jv++)
          {
            double z = k.data.z[i][jv];
            if (!refk::defined(z)) continue;
            bool hasV = !k.data.v.empty() && refk::defined(k.data.v[i][jv]) && k.data.v[i][jv] > 0;
            if (hasV) { c.probe("exact-skipped-verr"); continue; }
            bool nug = false;
            for (auto& st : k.structs) nug = nug || st.name == "NUGGET";
            std::string cl2 = cls0 + (nug ? ":nugget" : ":no-nugget");
            c.close("exact-estim", "C02:exact:estim:" + cl2, ex.est[jv][q], z, tolE(ex, q, jv),
                    fmt("datum %d var %d cond %.3g %s", i, jv, ex.cond[q], k.sig().c_str()));
            double tv = tolV(ex, q, jv);
            c.check("exact-stdev", "C02:exact:stdev:" + cl2, ex.sd[jv][q] * ex.sd[jv][q] <= tv, ex.sd[jv][q] * ex.sd[jv][q], tv,
                    fmt("datum %d var %d stdev %.3g cond %.3g %s", i, jv, ex.sd[jv][q], ex.cond[q], k.sig().c_str()));
          }
        }
    }
  }

  // ---------------- kriging of a linear combination == the combination of the krigings ----------------
  // (estimates are linear in the target variable; with a known mean m_j per variable the combination carries
  //  sum_j a_kj m_j, which is what sum_j a_kj Z*_j contains)
  if (!base.lcE.empty())
    for (int it = 0; it < nt; it++)
    {
      if (base.nbgh[it].empty()) continue;
      if (!base.usable[it]) { c.skip("lincomb:illcond"); continue; }
      for (int i = 0; i < (int)lc.size(); i++)
      {
        LD want = 0, te = 0;
        for (int jv = 0; jv < nvar; jv++)
        {
          want += (LD)lc[i][jv] * (LD)base.est[jv][it];
          te += 2 * std::fabs(lc[i][jv]) * tolE(base, it, jv);
        }
        if (skLC) c.probe("lincomb-sk");
        c.close("lincomb-estim", "C02:lincomb:estim:" + cls, base.lcE[i][it], (double)want, (double)te + 1e-300,
                fmt("target %d combination %d of %d (nvar %d) cond %.3g %s", it, i, (int)lc.size(), nvar, base.cond[it], k.sig().c_str()));
        double sl = base.lcS[i][it];
        c.truth("lincomb-stdev-finite", "C02:lincomb:stdev:not-finite-or-negative:" + cls, !FFFF(sl) && std::isfinite(sl) && sl >= 0,
                fmt("target %d combination %d stdev %g", it, i, sl));
      }
    }

  // ---------------- drift shift ----------------
  if (nbfl > 0)
  {
    kg::Case s = k;
    std::vector<std::vector<double>> coef(nvar, std::vector<double>(nbfl));
    for (auto& v : coef)
      for (auto& a : v) a = rShift.uni(-2, 2);
    auto comb = [&](int iv, const std::vector<double>& x, const std::vector<double>& f) {
      LD t = 0;
      for (int il = 0; il < nbfl; il++) t += (LD)coef[iv][il] * refk::evalDrift(basis[il], x, f);
      return (double)t;
    };
    double smag = 0;
    bool fdef = true;
    for (int i = 0; i < k.n; i++)
    {
      if (k.nfex > 0) for (double v : k.data.f[i]) fdef = fdef && refk::defined(v);
      if (k.nfex > 0 && !fdef) break;
      for (int iv = 0; iv < nvar; iv++)
        if (refk::defined(s.data.z[i][iv]))
        {
          double a = comb(iv, k.data.x[i], k.nfex > 0 ? k.data.f[i] : std::vector<double>());
          s.data.z[i][iv] += a;
          smag = std::max(smag, std::fabs(a));
        }
    }
    if (!fdef)
      c.skip("shift:undefined-external-drift");
    else
    {
      std::vector<std::vector<double>> sh(nvar, std::vector<double>(nt));
      for (int it = 0; it < nt; it++)
        for (int iv = 0; iv < nvar; iv++)
        {
          sh[iv][it] = comb(iv, k.tx[it], k.nfex > 0 ? k.tf[it] : std::vector<double>());
          smag       = std::max(smag, std::fabs(sh[iv][it]));
        }
      Run rs = doRun(s, false);
      if (c.truth("shift-run", "C02:shift:run-failed:" + rs.why, rs.ok, k.sig())) cmpRuns(c, "shift", cls, base, rs, &sh, smag);
    }
  }

  // ---------------- linearity ----------------
  {
    kg::Case k2 = k, k3 = k;
    double alpha = rLin.uni(-2, 2), beta = rLin.uni(-2, 2);
    for (int i = 0; i < k.n; i++)
      for (int iv = 0; iv < nvar; iv++)
        if (refk::defined(k.data.z[i][iv]))
        {
          k2.data.z[i][iv] = rLin.normal() * 3 + 1;
          k3.data.z[i][iv] = alpha * k.data.z[i][iv] + beta * k2.data.z[i][iv];
        }
    for (int iv = 0; iv < nvar; iv++)
    {
      k2.means[iv] = rLin.uni(-3, 3);
      k3.means[iv] = alpha * k.means[iv] + beta * k2.means[iv];
    }
    Run r2 = doRun(k2, false), r3 = doRun(k3, false);
    if (c.truth("linear-run", "C02:linear:run-failed:" + r2.why + r3.why, r2.ok && r3.ok, k.sig()))
      for (int it = 0; it < nt; it++)
      {
        if (base.nbgh[it].empty()) continue;
        if (!base.usable[it] || !r2.usable[it] || !r3.usable[it]) { c.skip("linear:illcond"); continue; }
        for (int jv = 0; jv < nvar; jv++)
        {
          double want = alpha * base.est[jv][it] + beta * r2.est[jv][it];
          double tol  = std::fabs(alpha) * tolE(base, it, jv) + std::fabs(beta) * tolE(r2, it, jv) + tolE(r3, it, jv);
          c.close("linear-estim", "C02:linear:estim:" + cls, r3.est[jv][it], want, tol, fmt("target %d var %d cond %.3g", it, jv, base.cond[it]));
          // the standard deviation does not depend on the data
          c.close("linear-stdev", "C02:linear:stdev-depends-on-data:" + cls, r3.sd[jv][it] * r3.sd[jv][it], base.sd[jv][it] * base.sd[jv][it],
                  2 * tolV(base, it, jv), fmt("target %d var %d", it, jv));
        }
      }
  }

  // ---------------- permutation of the samples ----------------
  {
    kg::Case p = k;
    std::vector<int> perm = rPerm.perm(k.n); // new sample q = old sample perm[q]
    for (int q = 0; q < k.n; q++)
    {
      p.data.x[q] = k.data.x[perm[q]];
      p.data.z[q] = k.data.z[perm[q]];
      if (!k.data.v.empty()) p.data.v[q] = k.data.v[perm[q]];
      if (!k.data.f.empty()) p.data.f[q] = k.data.f[perm[q]];
    }
    Run rp = doRun(p, false);
    if (c.truth("permute-run", "C02:permute:run-failed:" + rp.why, rp.ok, k.sig()))
    {
      // moving neighbourhoods: same SET of samples expected (no distance ties in the generator); if the sets differ the
      // comparison is void for that target (neighbourhood definition is C06's business)
      Run a = base;
      for (int it = 0; it < nt; it++)
      {
        std::vector<int> s1 = base.nbgh[it], s2;
        for (int q : rp.nbgh[it]) s2.push_back(perm[q]);
        std::sort(s1.begin(), s1.end());
        std::sort(s2.begin(), s2.end());
        if (s1 != s2)
        {
          c.skip("permute:neighbourhood-differs");
          a.usable[it] = 0;
        }
      }
      cmpRuns(c, "permute", cls, a, rp);
    }
  }

  // ---------------- translation of all coordinates ----------------
  {
    kg::Case t = k;
    std::vector<double> tv(k.ndim);
    double mag = k.L * rTrans.pick(std::vector<double>{1., 10., 100., 1000.});
    for (auto& v : tv) v = rTrans.uni(-1, 1) * mag;
    for (int i = 0; i < k.n; i++)
      for (int d = 0; d < k.ndim; d++) t.data.x[i][d] += tv[d];
    for (int d = 0; d < k.ndim; d++) t.org[d] += tv[d];
    if (k.targetKind == kg::T_POINTS)
      for (auto& p : t.tx)
        for (int d = 0; d < k.ndim; d++) p[d] += tv[d];
    else
      for (int d = 0; d < k.ndim; d++) t.gx0[d] += tv[d];
    // a drift that is not a complete polynomial is not translation invariant (the span of {1, x^2} changes); only
    // complete polynomials (and external drifts, which are data) are claimed
    if (k.customDrift)
      c.skip("translate:incomplete-polynomial-drift");
    else
    {
      Run rt = doRun(t, false);
      if (c.truth("translate-run", "C02:translate:run-failed:" + rt.why, rt.ok, k.sig()))
      {
        Run a = base;
        for (int it = 0; it < nt; it++)
          if (base.nbgh[it] != rt.nbgh[it])
          {
            // a sample at the edge of the search radius may flip with rounding: void for that target
            std::vector<int> s1 = base.nbgh[it], s2 = rt.nbgh[it];
            std::sort(s1.begin(), s1.end());
            std::sort(s2.begin(), s2.end());
            if (s1 != s2) { c.skip("translate:neighbourhood-differs"); a.usable[it] = 0; }
          }
        cmpRuns(c, "translate", cls, a, rt);
      }
    }
  }

  // ---------------- cross-validation == kriging without the sample (unique neighbourhood, one variable) ----------------
  // Library defect kept under its own key (":undefined-external-drift"): KrigingSystem::_getFlagAddress ranks the samples
  // with isActive/isIsotopic only, whereas _flagDefine also drops samples whose external drift is undefined, so the
  // shortcut reads the wrong rows of the inverse (or beyond it: Eigen assertion / out-of-bounds read).
  if (k.neighKind == kg::N_UNIQUE && nvar == 1 && k.n >= nbfl + 4 && !(AVOID_XVALID_FUNDEF && k.fUndef))
  {
    const std::string xcls = cls0 + (k.fUndef ? ":undefined-external-drift" : "");
    auto dbin  = kg::makeDataDb(k);
    auto model = kg::makeModel(k);
    auto neigh = kg::makeNeigh(k);
    // xvalid(db, model, neigh, flag_kfold, flag_xvalid_est, flag_xvalid_std, ...): "-1 for Z*", "-1 for S"
    int err = xvalid(dbin.get(), model.get(), neigh.get(), false, -1, -1, 0);
    auto nE = namesWithSuffix(dbin.get(), ".estim"), nS = namesWithSuffix(dbin.get(), ".stdev");
    if (c.truth("xvalid-run", "C02:xvalid:run-failed", err == 0 && nE.size() == 1 && nS.size() == 1, k.sig()))
    {
      VectorDouble xe = dbin->getColumn(nE[0]), xs = dbin->getColumn(nS[0]);
      std::vector<int> which = rXv.perm(k.n);
      if ((int)which.size() > 3) which.resize(3);
      for (int i : which)
      {
        bool usable = refk::defined(k.data.z[i][0]);
        if (k.nfex > 0) for (double v : k.data.f[i]) usable = usable && refk::defined(v);
        if (!usable) continue;
        kg::Case m = k;
        m.data.x.erase(m.data.x.begin() + i);
        m.data.z.erase(m.data.z.begin() + i);
        if (!m.data.v.empty()) m.data.v.erase(m.data.v.begin() + i);
        if (!m.data.f.empty()) m.data.f.erase(m.data.f.begin() + i);
        m.n--;
        m.targetKind = kg::T_POINTS;
        m.gnx.clear(); m.gang.clear(); m.ndiscs.clear(); m.perCell = false; m.blex.clear();
        m.tx.assign(1, k.data.x[i]);
        m.tf.clear();
        if (k.nfex > 0) m.tf.assign(1, k.data.f[i]);
        Run rm = doRun(m, false);
        if (!rm.ok || rm.nbgh[0].empty() || !rm.usable[0]) { c.skip("xvalid:illcond"); continue; }
        // the full system (with sample i) must be usable as well: the shortcut inverts it
        std::vector<int> all;
        for (int q = 0; q < k.n; q++)
        {
          bool u = refk::defined(k.data.z[q][0]);
          if (k.nfex > 0) for (double v : k.data.f[q]) u = u && refk::defined(v);
          if (u) all.push_back(q);
        }
        refk::Setup setup;
        setup.cov = refk::covOfModel(model.get()); setup.drifts = basis; setup.means = k.means; setup.covErr = kg::covErrOf(k);
        refk::System full(k.data, setup, all);
        if (!full.base.ok || full.base.cond > KMAX) { c.skip("xvalid:illcond"); continue; }
        double kap = std::max((double)full.base.cond, rm.cond[0]);
        // measurement error at the removed sample: cross-validation predicts the noisy datum, kriging the underlying
        // value; the estimates agree, the variances differ by V(i): only the estimate is compared then
        bool hasV = !k.data.v.empty() && refk::defined(k.data.v[i][0]) && k.data.v[i][0] > 0;
        c.close("xvalid-estim", "C02:xvalid:estim:" + xcls, xe[i], rm.est[0][0], 10 * CTOL * EPS * kap * (rm.estMag[0][0] + 1e-300),
                fmt("sample %d cond %.3g %s", i, kap, k.sig().c_str()));
        if (!hasV)
          c.close("xvalid-stdev", "C02:xvalid:stdev:" + xcls, xs[i] * xs[i], rm.sd[0][0] * rm.sd[0][0], 10 * CTOL * EPS * kap * (rm.varMag[0][0] + 1e-300),
                  fmt("sample %d cond %.3g %s", i, kap, k.sig().c_str()));
      }
    }
  }
}

int main(int argc, char** argv) { return run_main(argc, argv, "C02", run_case); }
