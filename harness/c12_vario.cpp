// C12 — experimental variograms equal their pairwise definition.
// Reference: harness/common/ref_vario.hpp (O(n^2) enumeration, long double). Each case = (Db, VarioParam, mode).
//
// Case kinds:
//   general : scattered Db (1-3 D), 1-3 directions, every ECalcVario mode of the general algorithm; metamorphic relations
//             (sample permutation, exact translation, reversed variable order, one direction alone)
//   grid    : DbGrid, grid-specialised algorithm (DirParam::createFromGrid) vs reference, vs general algorithm
//   genvar  : generalised variograms of order 1-3 on a DbGrid
//   vmap    : db_vmap on scattered data and on grids (direct and FFT algorithms)
//   vcloud  : db_vcloud cell counts
// Estimator definitions and which quantities are asserted per mode: see modeTable() and the comments in compare*().
// Generator switches (AVOID_*, BYSAMPLE_MULTIDIR_EQUAL_NPAS) are listed after LibAbort below.
#include "common/vh.hpp"
#include "common/ref_vario.hpp"

#include "Db/Db.hpp"
#include "Db/DbGrid.hpp"
#include "Variogram/Vario.hpp"
#include "Variogram/VarioParam.hpp"
#include "Variogram/DirParam.hpp"
#include "Variogram/VMap.hpp"
#include "Variogram/VCloud.hpp"
#include "Enum/ECalcVario.hpp"
#include "Space/ASpaceObject.hpp"
#include "Basic/OptDbg.hpp"
#include "geoslib_io.h"
#include <memory>

using namespace vh;
using refv::LD;

// The library terminates the process through exit_extern() on "messageAbort"; the public redefine_exit() hook lets the
// harness turn that into an exception, so that the event becomes an oracle failure of the case instead of a dead worker.
struct LibAbort
{
};
// Key policy: "C12:<path>:<mode>:<what>". In the strata that combine a further pair criterion with everything else
// (mixed per-direction code options, dates) every failure of the case is reported under ONE key per stratum.
static std::string g_collapse;
static std::string K(const std::string& k) { return g_collapse.empty() ? k : g_collapse; }
// Generator switches to step around input classes that crash the process (GUIDE rule 2). Default: off.
static const bool AVOID_MIXED_CODE = false; // DirParams with and without a code criterion in one VarioParam
static const bool AVOID_BYSAMPLE_MULTIDIR = false; // COVARIOGRAM (by-sample algorithm) with more than one direction
// The by-sample algorithm accumulates every direction into the direction left in a file static: with directions of
// different lag counts this runs out of the arrays (ASan / UBSan abort with address-dependent messages). With equal lag
// counts the same defect shows as a failed "dir-split" oracle under a stable key, so that is what is generated.
static const bool BYSAMPLE_MULTIDIR_EQUAL_NPAS = false; // (defect repaired in /repo: restriction off)
static const bool AVOID_VMAP_FFT_COV_2D = false; // db_vmap(flag_FFT=true) of a covariance on a 2-D grid (heap overflow)
static void onLibExit() { throw LibAbort(); }

// what the harness asserts for a mode
enum Cls
{
  CLS_EVEN,      // even statistic with a definition: sw, hh for every pair of variables, gg see ggCross
  CLS_ODD,       // odd statistic with a definition (covariances)
  CLS_RATIO,     // TRANS1 / TRANS2: simple terms = variogram, cross terms: invariances only
  CLS_BINORMAL,  // cross term = G12 / sqrt(G1 G2) of the reported simple variograms
  CLS_INVAR      // no documented definition: invariances only
};
struct ModeInfo
{
  const char* name;
  int refMode;
  Cls cls;
  bool ggCross; // the cross term (a != b) has a standard definition
  int weight;   // sampling weight
};
// Definitions used (the library's ECalcVario.hpp carries "TODO : Documentation"; the names are the documentation):
//  VARIOGRAM      doc/references/Experimental_Variogram.md: 1/(2N) sum (z_i - z_j)^2 ; cross: 1/(2N) sum dza dzb
//  MADOGRAM       first-order variogram 1/(2N) sum |z_i - z_j|           (simple terms only)
//  RODOGRAM       1/(2N) sum |z_i - z_j|^(1/2)                            (simple terms only)
//  ORDER4         "Order-4 Variogram" 1/(2N) sum (z_i - z_j)^4            (simple terms only)
//  COVARIANCE_NC  "Non-centered Covariance" 1/N sum z_a(x) z_b(x+h)
//  COVARIANCE     1/N sum z_a(x) z_b(x+h) - m_a m_b with m the mean of the samples (asserted without weights only)
//  BINORMAL       "Binormal hypothesis G12/sqrt(G1 * G2)"
//  TRANS1/2       "Transition probability G12/G1 (G12/G2)": which variable is "1" and the sign are not documented
//  POISSON, COVARIOGRAM (scattered data: "regression technique", by sample): no definition found
static const std::vector<ModeInfo>& modeTable()
{
  static const std::vector<ModeInfo> t = {
    {"VARIOGRAM", refv::M_VARIOGRAM, CLS_EVEN, true, 24},
    {"MADOGRAM", refv::M_MADOGRAM, CLS_EVEN, false, 8},
    {"RODOGRAM", refv::M_RODOGRAM, CLS_EVEN, false, 7},
    {"ORDER4", refv::M_ORDER4, CLS_EVEN, false, 7},
    {"COVARIANCE", refv::M_COVARIANCE, CLS_ODD, true, 15},
    {"COVARIANCE_NC", refv::M_COVARIANCE_NC, CLS_ODD, true, 11},
    {"BINORMAL", refv::M_VARIOGRAM, CLS_BINORMAL, false, 6},
    {"TRANS1", refv::M_VARIOGRAM, CLS_RATIO, false, 4},
    {"TRANS2", refv::M_VARIOGRAM, CLS_RATIO, false, 4},
    {"POISSON", refv::M_VARIOGRAM, CLS_INVAR, false, 7},
    {"COVARIOGRAM", refv::M_COVARIANCE_NC, CLS_INVAR, false, 7},
  };
  return t;
}
static const ModeInfo& drawMode(Rng& r)
{
  const auto& t = modeTable();
  int tot = 0;
  for (auto& m : t) tot += m.weight;
  int x = r.irange(0, tot - 1);
  for (auto& m : t)
  {
    if (x < m.weight) return m;
    x -= m.weight;
  }
  return t[0];
}

// ------------------------------------------------------------------------------------------------------------
// data generation
// ------------------------------------------------------------------------------------------------------------
struct GenInfo
{
  std::string layout, order;
  double extent = 1, unit = 1;
  bool offset = false, hetero = false, dup = false;
};

static void genValues(Rng& r, refv::Data& D, double extent, GenInfo& gi)
{
  D.z.assign(D.nvar, std::vector<double>(D.n));
  std::vector<double> base(D.n);
  for (int v = 0; v < D.nvar; v++)
  {
    double a = r.uni(-2, 2);
    std::vector<double> b(D.ndim);
    for (auto& x : b) x = r.uni(-3, 3);
    double rho = v > 0 ? r.uni(-0.9, 0.9) : 0;
    for (int i = 0; i < D.n; i++)
    {
      double t = a;
      for (int k = 0; k < D.ndim; k++) t += b[k] * (D.x[k][i] - D.x[k][0]) / extent;
      double e = r.normal();
      if (v == 0) base[i] = e;
      D.z[v][i] = t + 0.8 * (rho * base[i] + std::sqrt(1 - rho * rho) * e);
    }
  }
  // undefined patterns
  int pat = r.irange(0, 7);
  gi.hetero = false;
  if (pat == 4 || pat == 5)
  {
    for (int v = 0; v < D.nvar; v++)
      for (int i = 0; i < D.n; i++)
        if (r.coin(0.15)) { D.z[v][i] = refv::UNDEF; gi.hetero = true; }
  }
  else if (pat == 6)
  {
    for (int i = 0; i < D.n; i++)
      if (r.coin(0.15))
        for (int v = 0; v < D.nvar; v++) D.z[v][i] = refv::UNDEF;
  }
  else if (pat == 7 && D.nvar > 1)
  {
    int v = r.irange(0, D.nvar - 1);
    for (int i = 0; i < D.n; i++)
      if (r.coin(0.5)) { D.z[v][i] = refv::UNDEF; gi.hetero = true; }
  }
}

static void genAux(Rng& r, refv::Data& D)
{
  // weights
  if (r.coin(0.35))
  {
    D.hasW = true;
    D.w.resize(D.n);
    for (auto& w : D.w) w = r.coin(0.1) ? 0.0 : r.uni(0.2, 3.0);
  }
  // selection
  int s = r.irange(0, 19);
  if (s < 6)
  {
    D.hasSel = true;
    D.sel.assign(D.n, 0.);
    double keep = s < 4 ? 0.7 : (s == 4 ? 3.0 / D.n : 0.0);
    for (auto& v : D.sel) v = r.coin(keep) ? 1. : 0.;
  }
  // codes
  if (r.coin(0.15))
  {
    D.hasCode = true;
    D.code.resize(D.n);
    for (auto& v : D.code) v = (double)r.irange(0, 3);
  }
}

static refv::Data genScattered(Rng& r, Ctx& c, int ndim, int nvar, bool allowDup, GenInfo& gi)
{
  refv::Data D;
  D.ndim   = ndim;
  D.nvar   = nvar;
  int nmax = c.thorough() ? 200 : 60;
  int n    = r.coin(0.15) ? r.irange(2, 6) : r.irange(7, nmax);
  const double q = 1.0 / 1024.0; // every coordinate is a multiple of q: translations by integers are exact
  int lay = r.irange(0, 9);
  std::vector<std::vector<double>> P; // points
  double E = 1;
  if (lay <= 2)
  {
    gi.layout = "lattice";
    double u  = r.pick(std::vector<double>{0.5, 1.0, 2.0});
    gi.unit   = u;
    int m     = std::max(2, (int)std::ceil(std::pow(n * 1.8, 1.0 / ndim)));
    E         = m * u;
    // distinct lattice nodes
    std::vector<int> all;
    long tot = 1;
    for (int k = 0; k < ndim; k++) tot *= m;
    for (long t = 0; t < tot; t++) all.push_back((int)t);
    r.shuffle(all);
    n = std::min<long>(n, tot);
    for (int i = 0; i < n; i++)
    {
      std::vector<double> p(ndim);
      int t = all[i];
      for (int k = 0; k < ndim; k++) { p[k] = (t % m) * u; t /= m; }
      P.push_back(p);
    }
  }
  else if (lay <= 4)
  {
    gi.layout = "uniform";
    E         = r.pick(std::vector<double>{8., 20., 64.});
    for (int i = 0; i < n; i++)
    {
      std::vector<double> p(ndim);
      for (auto& v : p) v = q * r.irange(0, (int)(E / q));
      P.push_back(p);
    }
  }
  else if (lay <= 6)
  {
    gi.layout = "columns"; // few distinct first coordinates, the others free
    E         = r.pick(std::vector<double>{8., 20., 64.});
    int ncol  = r.irange(1, 4);
    std::vector<double> xs(ncol);
    for (auto& v : xs) v = q * r.irange(0, (int)(E / q));
    for (int i = 0; i < n; i++)
    {
      std::vector<double> p(ndim);
      for (auto& v : p) v = q * r.irange(0, (int)(E / q));
      p[0] = xs[r.irange(0, ncol - 1)];
      P.push_back(p);
    }
    if (ndim == 1)
    {
      // 1-D: columns would be duplicates; use distinct multiples of a step instead
      P.clear();
      for (int i = 0; i < n; i++) P.push_back({q * 64 * r.irange(0, (int)(E / q / 64))});
    }
  }
  else if (lay <= 8)
  {
    gi.layout = "clustered";
    E         = 32;
    int nc    = r.irange(1, 4);
    std::vector<std::vector<double>> ctr(nc, std::vector<double>(ndim));
    for (auto& cc : ctr)
      for (auto& v : cc) v = r.uni(4, 28);
    for (int i = 0; i < n; i++)
    {
      const auto& cc = ctr[r.irange(0, nc - 1)];
      std::vector<double> p(ndim);
      for (int k = 0; k < ndim; k++) p[k] = q * std::floor((cc[k] + 1.5 * r.normal()) / q);
      P.push_back(p);
    }
  }
  else
  {
    gi.layout = "transect"; // points along a random straight line + small lateral scatter
    E         = 32;
    std::vector<double> dirv(ndim);
    for (auto& v : dirv) v = r.normal();
    double nn = 0;
    for (auto v : dirv) nn += v * v;
    nn = std::sqrt(nn);
    for (int i = 0; i < n; i++)
    {
      double t = r.uni(0, E);
      std::vector<double> p(ndim);
      for (int k = 0; k < ndim; k++) p[k] = q * std::floor((t * dirv[k] / nn + 0.2 * r.normal()) / q);
      P.push_back(p);
    }
  }
  // duplicates (zero distance pairs): only where the caller accepts them
  gi.dup = false;
  if (allowDup && r.coin(0.08) && n >= 4)
  {
    gi.dup = true;
    int nd = r.irange(1, 3);
    for (int t = 0; t < nd; t++) P[r.irange(0, n - 1)] = P[r.irange(0, n - 1)];
  }
  // sample order
  int ord = r.irange(0, 3);
  auto byx = [&](bool dec)
  {
    std::stable_sort(P.begin(), P.end(),
                     [&](const std::vector<double>& a, const std::vector<double>& b) { return dec ? a[0] > b[0] : a[0] < b[0]; });
  };
  if (ord == 0) { gi.order = "xdec"; byx(true); }
  else if (ord == 1) { gi.order = "xinc"; byx(false); }
  else gi.order = "random";
  // large offsets (integers: exact)
  gi.offset = false;
  std::vector<double> off(ndim, 0.);
  if (r.coin(0.4))
  {
    gi.offset = true;
    for (auto& o : off) o = (r.coin() ? 1. : -1.) * (double)r.irange(1000, 1000000);
  }
  n    = (int)P.size();
  D.n  = n;
  D.x.assign(ndim, std::vector<double>(n));
  for (int i = 0; i < n; i++)
    for (int k = 0; k < ndim; k++) D.x[k][i] = P[i][k] + off[k];
  gi.extent = E;
  genValues(r, D, E, gi);
  genAux(r, D);
  return D;
}

// Db from the reference data (rows in the order given by 'order', coordinates shifted by 'shift')
static std::unique_ptr<Db> mkDb(const refv::Data& D, const std::vector<int>& order, const std::vector<double>& shift)
{
  std::unique_ptr<Db> db(Db::create());
  int n = D.n;
  VectorDouble col(n);
  for (int k = 0; k < D.ndim; k++)
  {
    for (int i = 0; i < n; i++) col[i] = D.x[k][order[i]] + shift[k];
    db->addColumns(col, "x" + std::to_string(k + 1), ELoc::X, k);
  }
  for (int v = 0; v < D.nvar; v++)
  {
    for (int i = 0; i < n; i++) col[i] = D.z[v][order[i]];
    db->addColumns(col, "z" + std::to_string(v + 1), ELoc::Z, v);
  }
  if (D.hasW)
  {
    for (int i = 0; i < n; i++) col[i] = D.w[order[i]];
    db->addColumns(col, "wgt", ELoc::W, 0);
  }
  if (D.hasCode)
  {
    for (int i = 0; i < n; i++) col[i] = D.code[order[i]];
    db->addColumns(col, "code", ELoc::C, 0);
  }
  if (D.hasDate)
  {
    for (int i = 0; i < n; i++) col[i] = D.date[order[i]];
    db->addColumns(col, "date", ELoc::DATE, 0);
  }
  if (D.hasSel)
  {
    for (int i = 0; i < n; i++) col[i] = D.sel[order[i]];
    db->addColumns(col, "sel", ELoc::SEL, 0);
  }
  return db;
}
static std::vector<int> ident(int n)
{
  std::vector<int> p(n);
  for (int i = 0; i < n; i++) p[i] = i;
  return p;
}

// ------------------------------------------------------------------------------------------------------------
// directions
// ------------------------------------------------------------------------------------------------------------
struct DirSpec
{
  refv::Dir ref;
  bool omni     = false; // built with DirParam::createOmniDirection
  double angle2D = refv::UNDEF;
  std::string tag;
};

static DirSpec genDir(Rng& r, int ndim, const GenInfo& gi, int optcode)
{
  DirSpec s;
  refv::Dir& d = s.ref;
  double E     = gi.extent;
  d.npas       = r.pick(std::vector<int>{1, 2, 3, 4, 5, 6, 8, 10, 12, 16, 20, 30});
  if (gi.layout == "lattice" && r.coin(0.4))
    d.dpas = gi.unit * r.irange(1, 2);
  else
    d.dpas = E * r.uni(0.4, 1.3) / d.npas;
  d.toldis = r.coin(0.4) ? 0.5 : r.uni(0.05, 0.49);
  d.tolang = 90.;
  d.codir.assign(ndim, 0.);
  d.codir[0] = 1.;
  std::string tg;
  if (ndim > 1)
  {
    int ta = r.irange(0, 9);
    if (ta == 0) { s.omni = true; tg = "omni"; }
    else if (ta <= 2) { d.tolang = 90.; tg = "t90"; }
    else
    {
      d.tolang = r.pick(std::vector<double>{60., 45., 30., 22.5, 10., 5., 0.});
      if (d.tolang == 0.) d.tolang = r.uni(1., 89.);
      tg = "cone";
    }
    if (!s.omni)
    {
      if (ndim == 2 && r.coin(0.6))
      {
        double a = r.pick(std::vector<double>{0., 90., 45., 135., 30., -60., 1000.});
        if (a == 1000.) a = r.uni(0, 360);
        if (r.coin(0.5))
          s.angle2D = a;
        d.codir[0] = (double)cosl((LD)a * 3.14159265358979323846264338327950288L / 180.L);
        d.codir[1] = (double)sinl((LD)a * 3.14159265358979323846264338327950288L / 180.L);
        if (s.angle2D == refv::UNDEF && r.coin(0.5))
          for (auto& v : d.codir) v *= 3.0; // direction vectors need not be normalised
      }
      else
      {
        int t = r.irange(0, 3);
        if (t == 0)
        {
          d.codir.assign(ndim, 0.);
          d.codir[r.irange(0, ndim - 1)] = r.coin() ? 1. : -1.;
        }
        else if (t == 1)
        {
          for (auto& v : d.codir) v = (double)r.irange(-2, 2);
          double nn = 0;
          for (auto v : d.codir) nn += v * v;
          if (nn == 0) d.codir[ndim - 1] = 1.;
        }
        else
        {
          for (auto& v : d.codir) v = r.normal();
        }
      }
    }
    if (r.coin(0.2)) { d.bench = E * r.uni(0.05, 0.4); tg += "+bench"; }
    if (r.coin(0.2)) { d.cylrad = E * r.uni(0.05, 0.4); tg += "+cyl"; }
  }
  else
    tg = "1d";
  if (r.coin(0.15))
  {
    // irregular intervals: npas + 1 increasing bounds
    d.breaks.resize(d.npas + 1);
    double b    = r.coin(0.5) ? 0. : E * r.uni(0.01, 0.1);
    d.breaks[0] = b;
    for (int k = 1; k <= d.npas; k++)
    {
      b += E * r.uni(0.2, 1.8) / d.npas;
      d.breaks[k] = b;
    }
    tg += "+breaks";
  }
  if (optcode)
  {
    d.optcode = optcode;
    d.tolcode = d.optcode == 1 ? r.pick(std::vector<double>{0.5, 1.5}) : 0.;
    tg += d.optcode == 1 ? "+codeclose" : "+codediff";
  }
  s.tag = tg;
  return s;
}

static DirParam mkDirParam(const DirSpec& s)
{
  const refv::Dir& d = s.ref;
  VectorDouble breaks(d.breaks);
  if (s.omni)
  {
    std::unique_ptr<DirParam> p(DirParam::createOmniDirection(d.npas, d.dpas, d.toldis, d.optcode, 0, d.bench, d.cylrad,
                                                              d.tolcode, breaks));
    return *p;
  }
  if (s.angle2D != refv::UNDEF)
    return DirParam(d.npas, d.dpas, d.toldis, d.tolang, d.optcode, 0, d.bench, d.cylrad, d.tolcode, breaks,
                    VectorDouble(), s.angle2D);
  return DirParam(d.npas, d.dpas, d.toldis, d.tolang, d.optcode, 0, d.bench, d.cylrad, d.tolcode, breaks,
                  VectorDouble(d.codir));
}

// ------------------------------------------------------------------------------------------------------------
// reading the library's result
// ------------------------------------------------------------------------------------------------------------
struct Got
{
  std::vector<double> sw, hh, gg, ut;
};
static Got readVec(const Vario& v, int idir, int a, int b)
{
  Got g;
  // compress = false: the default drops the empty lags and shifts the indices
  g.sw = v.getSwVec(idir, a, b, false).getVector();
  g.hh = v.getHhVec(idir, a, b, false).getVector();
  g.gg = v.getGgVec(idir, a, b, false, false, false).getVector();
  g.ut = v.getUtilizeVec(idir, a, b, false).getVector();
  return g;
}

static bool sameVec(const std::vector<double>& a, const std::vector<double>& b)
{
  if (a.size() != b.size()) return false;
  for (size_t i = 0; i < a.size(); i++)
    if (!(a[i] == b[i]) && !(std::isnan(a[i]) && std::isnan(b[i]))) return false;
  return true;
}
static double relTol(double want, double scale) { return 1e-9 * std::max({1.0, std::fabs(want), scale}); }

struct CmpCtx
{
  Ctx& c;
  std::string path; // "general" | "grid"
  const ModeInfo& mi;
  const refv::Data& D;
  bool weighted;
};

static bool isotopicPair(const refv::Data& D, int a, int b)
{
  for (int i = 0; i < D.n; i++)
    if (D.active(i) && refv::undef(D.z[a][i]) != refv::undef(D.z[b][i])) return false;
  return true;
}

// compare one direction of a computed Vario with the reference
static void compareDir(CmpCtx& cc, const Vario& v, int idir, const refv::Result& R, const std::string& dtag)
{
  Ctx& c               = cc.c;
  const refv::Data& D  = cc.D;
  const ModeInfo& mi   = cc.mi;
  std::string kp       = "C12:" + cc.path + ":" + mi.name + ":";
  int nslot            = R.T.nslot;
  std::vector<std::vector<Got>> got(D.nvar, std::vector<Got>(D.nvar));
  for (int a = 0; a < D.nvar; a++)
    for (int b = 0; b <= a; b++)
    {
      got[a][b] = readVec(v, idir, a, b);
      Got gt    = readVec(v, idir, b, a);
      // "in the multivariate case ... the user should use the assessors provided": both orders address the same pair
      bool same = sameVec(gt.sw, got[a][b].sw) && sameVec(gt.hh, got[a][b].hh) && sameVec(gt.gg, got[a][b].gg);
      if (a != b) c.truth("var-order", K(kp + "getter-var-order"), same, dtag);
    }
  for (int a = 0; a < D.nvar; a++)
    for (int b = 0; b <= a; b++)
    {
      const Got& g = got[a][b];
      std::string ab = a == b ? "simple" : "cross";
      bool okShape = (int)g.sw.size() == nslot && (int)g.hh.size() == nslot && (int)g.gg.size() == nslot &&
                     (int)g.ut.size() == nslot;
      c.truth("shape", K(kp + "shape"), okShape,
              fmt("dir %d (%d,%d): %zu values for %d rows [%s]", idir, a, b, g.sw.size(), nslot, dtag.c_str()));
      if (!okShape) continue;
      bool allOne = true;
      for (double u : g.ut) allOne = allOne && u == 1.;
      c.truth("utilize", K(kp + "utilize"), allOne, "every lag is usable after a calculation");

      // ---- odd statistics, cross terms on heterotopic data: which couples count is not documented; two symmetric
      // rules are accepted: N = the two values entering the product are defined; S = both variables defined at both
      // points. Anything else is reported.
      const refv::Table* T = &R.T;
      if (R.asym && a != b)
      {
        bool differ = false, mN = true, mS = true;
        for (int s = 0; s < nslot; s++)
        {
          refv::Cell& cn = const_cast<refv::Table&>(R.T).at(a, b, s);
          refv::Cell& cs = const_cast<refv::Table&>(R.TS).at(a, b, s);
          if (cn.taint) continue;
          if (cn.sw != cs.sw) differ = true;
          if (std::fabs(g.sw[s] - (double)cn.sw) > relTol((double)cn.sw, 0)) mN = false;
          if (std::fabs(g.sw[s] - (double)cs.sw) > relTol((double)cs.sw, 0)) mS = false;
        }
        if (differ)
        {
          c.probe("odd-cross-hetero");
          bool ok = mN || mS;
          c.truth("odd-cross-pair-rule", K("C12:" + cc.path + ":odd-cross:heterotopic-pair-rule"), ok,
                  fmt("dir %d (%d,%d): pair weights follow neither 'both values of the product defined' nor 'both "
                      "variables defined at both points' [%s]", idir, a, b, dtag.c_str()));
          if (!ok) continue;
          if (!mN) T = &R.TS;
        }
      }

      for (int s = 0; s < nslot; s++)
      {
        const refv::Cell& cell = const_cast<refv::Table*>(T)->at(a, b, s);
        if (cell.taint) { c.skip("boundary"); continue; }
        bool centre   = R.asym && s == R.slotCentre();
        std::string w = fmt("dir %d (%d,%d) slot %d/%d np=%ld [%s]", idir, a, b, s, nslot, cell.np, dtag.c_str());
        if (centre)
        {
          // C(0): documented as a row of the table; number of samples, distance 0, mean product (minus means)
          if (cc.weighted) { c.skip("centre-weighted"); continue; }
          c.close("sw", K(kp + "sw:centre"), g.sw[s], (double)cell.sw, relTol((double)cell.sw, 0), w);
          if (cell.sw <= 0) continue;
          c.close("hh", K(kp + "hh:centre"), g.hh[s], 0., 1e-12, w);
          double want = (double)(cell.sg / cell.sw);
          int r       = a * (a + 1) / 2 + b;
          if (mi.refMode == refv::M_COVARIANCE) want = (double)(cell.sg / cell.sw - R.meanA[r] * R.meanB[r]);
          double sc = (double)(cell.sabs / cell.sw);
          c.close("gg", K(kp + "gg:centre:" + ab), g.gg[s], want, relTol(want, sc), w);
          continue;
        }
        c.close("sw", K(kp + "sw:" + ab), g.sw[s], (double)cell.sw, relTol((double)cell.sw, 0), w);
        if (std::fabs(g.sw[s] - (double)cell.sw) > relTol((double)cell.sw, 0)) continue; // the rest would only repeat it
        if (cell.sw <= 0)
        {
          // an empty lag reports the undefined value for the distance and the statistic
          c.close("empty", K(kp + "empty:hh"), g.hh[s], refv::UNDEF, 0., w);
          bool ratioCross = (mi.cls == CLS_RATIO || mi.cls == CLS_BINORMAL) && a != b;
          if (!ratioCross) c.close("empty", K(kp + "empty:gg"), g.gg[s], refv::UNDEF, 0., w);
          continue;
        }
        double hwant = (double)(cell.sh / cell.sw);
        c.close("hh", K(kp + "hh:" + ab), g.hh[s], hwant, relTol(hwant, 0), w);
        double sc = (double)(cell.sabs / cell.sw);
        switch (mi.cls)
        {
          case CLS_EVEN:
            if (a == b || mi.ggCross)
            {
              double want = (double)(cell.sg / cell.sw);
              c.close("gg", K(kp + "gg:" + ab), g.gg[s], want, relTol(want, sc), w);
            }
            break;
          case CLS_RATIO:
            if (a == b)
            {
              double want = (double)(cell.sg / cell.sw);
              c.close("gg", K(kp + "gg:" + ab), g.gg[s], want, relTol(want, sc), w);
            }
            break;
          case CLS_BINORMAL:
          {
            double want = (double)(cell.sg / cell.sw);
            if (a == b) c.close("gg", K(kp + "gg:" + ab), g.gg[s], want, relTol(want, sc), w);
            else
            {
              const refv::Cell& ca = const_cast<refv::Table*>(T)->at(a, a, s);
              const refv::Cell& cb = const_cast<refv::Table*>(T)->at(b, b, s);
              if (ca.taint || cb.taint || ca.sw <= 0 || cb.sw <= 0) { c.skip("binormal-undefined"); break; }
              LD ga = ca.sg / ca.sw, gb = cb.sg / cb.sw;
              if (ga * gb < 1e-6L) { c.skip("binormal-undefined"); break; }
              double wr = (double)((cell.sg / cell.sw) / sqrtl(ga * gb));
              c.close("gg", K(kp + "gg:cross"), g.gg[s], wr, 1e-9 * std::max(1.0, sc / (double)sqrtl(ga * gb)), w);
            }
            break;
          }
          case CLS_ODD:
          {
            double want = (double)(cell.sg / cell.sw);
            if (mi.refMode == refv::M_COVARIANCE)
            {
              // centred on the sample means: asserted for unit weights; cross terms only on isotopic variables
              if (cc.weighted) { c.skip("centred-weighted"); break; }
              if (a != b && !isotopicPair(D, a, b)) { c.skip("centred-cross-hetero"); break; }
              int r = a * (a + 1) / 2 + b;
              want  = (double)(cell.sg / cell.sw - R.meanA[r] * R.meanB[r]);
            }
            c.close("gg", K(kp + "gg:" + ab), g.gg[s], want, relTol(want, sc), w);
            break;
          }
          case CLS_INVAR: break;
        }
      }
    }
}

// compare two computed Varios (same shape expected): metamorphic / differential relations
static void compareVarios(Ctx& c, const std::string& oracle, const std::string& key, const Vario& v1, const Vario& v2,
                          int nvar, const std::vector<refv::Result>& refs, double scale, int firstLag = 0)
{
  int ndir = v1.getDirectionNumber();
  if (!c.truth(oracle, K(key), ndir == v2.getDirectionNumber(), "direction count")) return;
  for (int idir = 0; idir < ndir; idir++)
    for (int a = 0; a < nvar; a++)
      for (int b = 0; b <= a; b++)
      {
        Got g1 = readVec(v1, idir, a, b), g2 = readVec(v2, idir, a, b);
        if (!c.truth(oracle, K(key), g1.sw.size() == g2.sw.size(), "row count")) continue;
        const refv::Result& R = refs[idir];
        int nslot             = (int)g1.sw.size();
        for (int s = 0; s < nslot; s++)
        {
          if (nslot == R.T.nslot && const_cast<refv::Table&>(R.T).at(a, b, s).taint) { c.skip("boundary"); continue; }
          if (!R.asym && s < firstLag) continue;
          if (R.asym && firstLag > 0 && (s == R.slotPos(0) || s == R.slotNeg(0))) continue;
          std::string w = fmt("dir %d (%d,%d) slot %d/%d", idir, a, b, s, nslot);
          c.close(oracle, K(key), g1.sw[s], g2.sw[s], relTol(g2.sw[s], 0), "sw " + w);
          c.close(oracle, K(key), g1.hh[s], g2.hh[s], relTol(g2.hh[s], 0), "hh " + w);
          c.close(oracle, K(key), g1.gg[s], g2.gg[s], relTol(g2.gg[s], scale), "gg " + w);
        }
      }
}

static ECalcVario ecalc(const ModeInfo& mi) { return ECalcVario::fromKey(mi.name); }

static double dataScale(const refv::Data& D)
{
  double m = 1;
  for (auto& zv : D.z)
    for (double v : zv)
      if (!refv::undef(v)) m = std::max(m, std::fabs(v));
  return m * m;
}

// ------------------------------------------------------------------------------------------------------------
// case kind 1: scattered data, general algorithm
// ------------------------------------------------------------------------------------------------------------
static void caseGeneral(Rng& r, Ctx& c)
{
  int ndim           = r.pick(std::vector<int>{1, 2, 2, 2, 3, 3});
  int nvar           = r.pick(std::vector<int>{1, 1, 2, 2, 3});
  const ModeInfo& mi = drawMode(r);
  defineDefaultSpace(ESpaceType::RN, ndim);
  GenInfo gi;
  // zero-distance pairs have no orientation: only generated for the even statistics
  bool allowDup = !refv::isAsym(mi.refMode);
  refv::Data D  = genScattered(r, c, ndim, nvar, allowDup, gi);
  int ndir      = ndim == 1 ? r.irange(1, 2) : r.irange(1, 3);
  if (std::string(mi.name) == "COVARIOGRAM" && AVOID_BYSAMPLE_MULTIDIR) ndir = 1;
  std::vector<DirSpec> dirs;
  std::string dtags;
  // code option: the same kind of criterion in every direction, except in the (small) "mixedcode" stratum where
  // directions with and without a code criterion are combined (DirParam carries the option per direction)
  bool mixedCode = D.hasCode && ndir > 1 && r.coin(0.15) && !AVOID_MIXED_CODE;
  int codeAll    = D.hasCode && r.coin(0.8) ? r.irange(1, 2) : 0;
  bool anyCode = false, anyNoCode = false;
  for (int i = 0; i < ndir; i++)
  {
    int oc = codeAll;
    // mixed stratum: the first direction has a code criterion, the LAST has none, the middle one either. (With the
    // last direction carrying more criteria than the average the library indexes past its list of checkers and ASan
    // stops the process; this ordering exposes the same mis-addressing as wrong results under the oracle key only.)
    if (mixedCode) oc = (i == 0) ? r.irange(1, 2) : (i == ndir - 1 ? 0 : r.irange(0, 2));
    (oc ? anyCode : anyNoCode) = true;
    DirSpec s = genDir(r, ndim, gi, oc);
    if (gi.dup && !s.ref.breaks.empty()) s.ref.breaks.clear();
    if (s.ref.breaks.empty() && s.tag.find("+breaks") != std::string::npos) s.tag.erase(s.tag.find("+breaks"), 7); // d = 0 against breaks[0] = 0 would be a boundary case
    if (BYSAMPLE_MULTIDIR_EQUAL_NPAS && std::string(mi.name) == "COVARIOGRAM" && i > 0)
    {
      s.ref.npas = dirs[0].ref.npas;
      if (!s.ref.breaks.empty()) s.ref.breaks.clear();
    }
    dirs.push_back(s);
    dtags += (i ? "," : "") + s.tag;
  }
  mixedCode = anyCode && anyNoCode;
  std::string path = mixedCode ? "general+mixedcode" : "general";
  // date criterion (small stratum, even statistics): integer dates, one symmetric interval [-h, h)
  VectorDouble dates;
  if (!refv::isAsym(mi.refMode) && r.coin(0.06))
  {
    D.hasDate = true;
    D.date.resize(D.n);
    for (auto& v : D.date) v = (double)r.irange(0, 5);
    double h = r.pick(std::vector<double>{0.5, 1.5, 2.5});
    dates    = VectorDouble({-h, h});
    for (auto& s : dirs) s.ref.dateHalfWidth = h;
    path += "+dates";
  }
  if (D.hasDate) g_collapse = "C12:dates:result-differs";
  else if (mixedCode) g_collapse = "C12:mixedcode:result-differs";
  c.setSig(fmt("%s:%s:ndim=%d:nvar=%d:%s:%s:w%d:s%d:h%d:c%d:%s", path.c_str(), mi.name, ndim, nvar, gi.layout.c_str(),
               gi.order.c_str(), (int)D.hasW, (int)D.hasSel, (int)gi.hetero, (int)D.hasCode, dtags.c_str()));
  c.puts("kind", "general");
  c.puts("mode", mi.name);
  c.putn("n", D.n);
  c.putn("ndim", ndim);
  c.putn("nvar", nvar);
  c.puts("layout", gi.layout + "/" + gi.order + (gi.offset ? "/offset" : "") + (gi.dup ? "/dup" : ""));
  c.puts("dirs", dtags);
  c.put("x1", jvec(D.x[0], 12));
  c.put("z1", jvec(D.z[0], 12));
  c.putn("npas0", dirs[0].ref.npas);
  c.putn("dpas0", dirs[0].ref.dpas);
  c.putn("toldis0", dirs[0].ref.toldis);
  c.putn("tolang0", dirs[0].ref.tolang);

  VarioParam vp(0., dates);
  for (auto& s : dirs) vp.addDir(mkDirParam(s));
  std::vector<double> zero(ndim, 0.);
  std::unique_ptr<Db> db = mkDb(D, ident(D.n), zero);

  std::unique_ptr<Vario> v;
  if (r.coin(0.5))
    v.reset(Vario::computeFromDb(vp, db.get(), ecalc(mi)));
  else
  {
    v.reset(Vario::create(vp));
    if (v->compute(db.get(), ecalc(mi)) != 0) v.reset();
  }
  std::string kp = "C12:" + path + ":" + mi.name + ":";
  if (!c.truth("compute", K(kp + "compute-failed"), v != nullptr, "Vario::compute returned an error on valid input")) return;
  c.truth("compute", K(kp + "direction-count"), v->getDirectionNumber() == ndir, "directions kept");
  if (v->getDirectionNumber() != ndir) return;

  std::vector<refv::Result> refs;
  for (int i = 0; i < ndir; i++) refs.push_back(refv::general(D, dirs[i].ref, mi.refMode));
  CmpCtx cc{c, path, mi, D, D.hasW};
  if (mi.cls != CLS_INVAR)
    for (int i = 0; i < ndir; i++) compareDir(cc, *v, i, refs[i], dirs[i].tag);
  if (D.hasW) c.probe("weights");
  if (D.hasSel) c.probe("selection");
  if (gi.hetero) c.probe("heterotopic");
  if (gi.dup) c.probe("duplicates");
  if (D.hasDate) c.probe("dates");
  for (auto& s : dirs)
  {
    if (!s.ref.breaks.empty()) c.probe("breaks");
    if (!refv::undef(s.ref.bench)) c.probe("bench");
    if (!refv::undef(s.ref.cylrad)) c.probe("cylinder");
    if (s.ref.optcode) c.probe("code");
  }

  double sc = dataScale(D);
  // ---- sample permutation
  {
    std::vector<int> p = r.perm(D.n);
    if (r.coin(0.3)) { p = ident(D.n); std::reverse(p.begin(), p.end()); }
    std::unique_ptr<Db> db2 = mkDb(D, p, zero);
    std::unique_ptr<Vario> v2(Vario::computeFromDb(vp, db2.get(), ecalc(mi)));
    if (c.truth("compute", K(kp + "compute-failed:permuted"), v2 != nullptr, "permuted samples"))
      compareVarios(c, "perm", K(kp + "permutation"), *v2, *v, nvar, refs, sc);
  }
  // ---- translation (integers: coordinates stay exact, so the same pairs fall in the same classes)
  {
    std::vector<double> sh(ndim);
    for (auto& s : sh) s = (r.coin() ? 1. : -1.) * (double)r.irange(1, 4000000);
    std::unique_ptr<Db> db3 = mkDb(D, ident(D.n), sh);
    std::unique_ptr<Vario> v3(Vario::computeFromDb(vp, db3.get(), ecalc(mi)));
    if (c.truth("compute", K(kp + "compute-failed:translated"), v3 != nullptr, "translated samples"))
      compareVarios(c, "translate", K(kp + "translation"), *v3, *v, nvar, refs, sc);
  }
  // ---- all sampling weights multiplied by the same power of two: every row of the table is a weighted AVERAGE (distance,
  // statistic), so it cannot change (the sums of weights do, by the square of the factor: not compared). The centre row
  // C(0) of the covariances is included. Modes whose statistic is documented as an average only (the harness reference
  // already treats them so): variogram, covariance, non-centred covariance.
  if (std::string(mi.name) == "VARIOGRAM" || std::string(mi.name) == "COVARIANCE" || std::string(mi.name) == "COVARIANCE_NC")
  {
    refv::Data Dw = D;
    double k = (c.icase % 2) ? 2. : 0.25;
    if (!Dw.hasW) { Dw.hasW = true; Dw.w.assign(Dw.n, k); }
    else for (auto& w : Dw.w) w *= k;
    std::unique_ptr<Db> dbw = mkDb(Dw, ident(D.n), zero);
    std::unique_ptr<Vario> vw(Vario::computeFromDb(vp, dbw.get(), ecalc(mi)));
    if (c.truth("compute", K(kp + "compute-failed:weights-scaled"), vw != nullptr, "weights scaled"))
    {
      int ndirw = v->getDirectionNumber();
      for (int idir = 0; idir < ndirw && idir < vw->getDirectionNumber(); idir++)
        for (int a = 0; a < nvar; a++)
          for (int b = 0; b <= a; b++)
          {
            Got g1 = readVec(*vw, idir, a, b), g2 = readVec(*v, idir, a, b);
            if (!c.truth("weight-scale", K(kp + "weights-scaled:shape"), g1.sw.size() == g2.sw.size(), "row count")) continue;
            const refv::Result& R = refs[idir];
            for (int sl = 0; sl < (int)g1.sw.size(); sl++)
            {
              if ((int)g1.sw.size() == R.T.nslot && const_cast<refv::Table&>(R.T).at(a, b, sl).taint) { c.skip("boundary"); continue; }
              bool centre = R.asym && sl == R.slotCentre();
              std::string w = fmt("dir %d (%d,%d) slot %d factor %g", idir, a, b, sl, k);
              bool e1 = refv::undef(g1.gg[sl]), e2 = refv::undef(g2.gg[sl]);
              if (e1 || e2) { c.truth("weight-scale", K(kp + "weights-scaled:defined-rows-differ"), e1 == e2, w); continue; }
              c.close("weight-scale", K(kp + (centre ? "weights-scaled:centre" : "weights-scaled:lag")), g1.gg[sl], g2.gg[sl], relTol(g2.gg[sl], sc), "gg " + w);
              if (!refv::undef(g1.hh[sl]) && !refv::undef(g2.hh[sl]))
                c.close("weight-scale", K(kp + (centre ? "weights-scaled:centre" : "weights-scaled:lag")), g1.hh[sl], g2.hh[sl], relTol(g2.hh[sl], 0), "hh " + w);
            }
          }
    }
  }
  // ---- reversing the order of the variables: an even statistic is unchanged, an odd one is mirrored,
  // C_ab(h) = C_ba(-h) (definition of a cross-covariance; no convention involved)
  if (nvar > 1)
  {
    refv::Data D2 = D;
    std::reverse(D2.z.begin(), D2.z.end());
    std::unique_ptr<Db> db4 = mkDb(D2, ident(D.n), zero);
    std::unique_ptr<Vario> v4(Vario::computeFromDb(vp, db4.get(), ecalc(mi)));
    if (c.truth("compute", K(kp + "compute-failed:var-swap"), v4 != nullptr, "variables in reverse order"))
    {
      bool ratio = mi.cls == CLS_RATIO; // G12/G1 vs G12/G2: the two variables do not play the same role
      // POISSON: a univariate estimator (pair term minus half the mean of ONE variable); no cross definition to mirror
      bool poisson = std::string(mi.name) == "POISSON";
      for (int i = 0; i < ndir && !ratio; i++)
        for (int a = 0; a < nvar; a++)
          for (int b = 0; b <= a; b++)
          {
            if (poisson && a != b) continue;
            Got g0 = readVec(*v, i, a, b), g4 = readVec(*v4, i, nvar - 1 - b, nvar - 1 - a);
            int ns = (int)g0.sw.size();
            if (!c.truth("var-swap", K(kp + "var-swap:shape"), g0.sw.size() == g4.sw.size(), "row count")) continue;
            for (int s = 0; s < ns; s++)
            {
              if (ns == refs[i].T.nslot && refs[i].T.at(a, b, s).taint) { c.skip("boundary"); continue; }
              int s4        = refs[i].asym ? ns - 1 - s : s;
              double sg     = refs[i].asym ? -1. : 1.;
              std::string w = fmt("dir %d (%d,%d) slot %d/%d [%s]", i, a, b, s, ns, dirs[i].tag.c_str());
              std::string kk = K(kp + (a == b ? "var-swap:simple" : "var-swap:cross"));
              // cross-covariance of heterotopic variables: same (open) finding as the pair rule of compareDir
              // (COVARIANCE, COVARIANCE_NC and COVARIOGRAM share the test of AVario.cpp)
              if (refs[i].asym && a != b && !isotopicPair(D, a, b))
                kk = K("C12:" + path + ":odd-cross:heterotopic-pair-rule");
              c.close("var-swap", kk, g4.sw[s4], g0.sw[s], relTol(g0.sw[s], 0), "sw " + w);
              double h4 = refv::undef(g4.hh[s4]) ? g4.hh[s4] : sg * g4.hh[s4];
              c.close("var-swap", kk, h4, g0.hh[s], relTol(g0.hh[s], 0), "hh " + w);
              c.close("var-swap", kk, g4.gg[s4], g0.gg[s], relTol(g0.gg[s], sc), "gg " + w);
            }
          }
    }
  }
  // ---- every direction is a calculation of its own: direction k of the joint run = direction k computed alone
  if (ndir > 1)
  {
    for (int i = 0; i < ndir; i++)
    {
      VarioParam v1p(0., dates);
      v1p.addDir(mkDirParam(dirs[i]));
      std::unique_ptr<Vario> v1(Vario::computeFromDb(v1p, db.get(), ecalc(mi)));
      if (!c.truth("compute", K(kp + "compute-failed:single-direction"), v1 != nullptr, "one direction alone")) continue;
      for (int a = 0; a < nvar; a++)
        for (int b = 0; b <= a; b++)
        {
          Got g1 = readVec(*v1, 0, a, b), gm = readVec(*v, i, a, b);
          if (!c.truth("dir-split", K(kp + "dir-split"), g1.sw.size() == gm.sw.size(), "row count")) continue;
          for (size_t s = 0; s < g1.sw.size(); s++)
          {
            std::string w = fmt("dir %d of %d (%d,%d) slot %zu [%s]", i, ndir, a, b, s, dirs[i].tag.c_str());
            c.close("dir-split", K(kp + "dir-split"), gm.sw[s], g1.sw[s], relTol(g1.sw[s], 0), "sw " + w);
            c.close("dir-split", K(kp + "dir-split"), gm.hh[s], g1.hh[s], relTol(g1.hh[s], 0), "hh " + w);
            c.close("dir-split", K(kp + "dir-split"), gm.gg[s], g1.gg[s], relTol(g1.gg[s], sc), "gg " + w);
          }
        }
    }
  }
}

// ------------------------------------------------------------------------------------------------------------
// case kind 2: gridded data: grid-specialised algorithm vs reference and vs the general algorithm
// ------------------------------------------------------------------------------------------------------------
struct GridGen
{
  std::vector<int> nx;
  std::vector<double> dx, x0, angles;
};
static std::unique_ptr<DbGrid> mkGrid(Rng& r, Ctx& c, int ndim, int nvar, GridGen& gg, refv::Data& D, GenInfo& gi,
                                      bool aux)
{
  int nmax = c.thorough() ? 400 : 150;
  gg.nx.resize(ndim);
  gg.dx.resize(ndim);
  gg.x0.resize(ndim);
  for (;;)
  {
    long tot = 1;
    for (int k = 0; k < ndim; k++)
    {
      gg.nx[k] = ndim == 1 ? r.irange(4, 60) : (ndim == 2 ? r.irange(2, 14) : r.irange(2, 7));
      tot *= gg.nx[k];
    }
    if (tot <= nmax) break;
  }
  for (int k = 0; k < ndim; k++)
  {
    gg.dx[k] = r.pick(std::vector<double>{0.5, 1., 1., 2., 2.5, 0.3});
    gg.x0[k] = r.coin(0.5) ? 0. : (double)r.irange(-100000, 100000);
  }
  gg.angles.clear();
  if (ndim >= 2 && r.coin(0.35))
  {
    gg.angles.assign(ndim, 0.);
    gg.angles[0] = r.pick(std::vector<double>{30., 90., -45., 10., 123.});
    if (ndim == 3 && r.coin(0.5)) { gg.angles[1] = r.uni(-40, 40); gg.angles[2] = r.uni(-40, 40); }
  }
  std::unique_ptr<DbGrid> g(DbGrid::create(VectorInt(gg.nx), VectorDouble(gg.dx), VectorDouble(gg.x0),
                                           VectorDouble(gg.angles)));
  if (!g) throw SkipCase{"grid-creation"};
  D      = refv::Data();
  D.ndim = ndim;
  D.nvar = nvar;
  D.n    = g->getSampleNumber();
  D.x.assign(ndim, std::vector<double>(D.n));
  // coordinates are read back from the Db: the reference sees the locations the library sees
  for (int i = 0; i < D.n; i++)
    for (int k = 0; k < ndim; k++) D.x[k][i] = g->getCoordinate(i, k);
  double E = 0;
  for (int k = 0; k < ndim; k++) E = std::max(E, gg.nx[k] * gg.dx[k]);
  gi.extent = E;
  gi.layout = gg.angles.empty() ? "grid" : "rotgrid";
  genValues(r, D, E, gi);
  if (aux)
  {
    genAux(r, D);
    D.hasCode = false;
    D.code.clear();
  }
  VectorDouble col(D.n);
  for (int v = 0; v < nvar; v++)
  {
    for (int i = 0; i < D.n; i++) col[i] = D.z[v][i];
    g->addColumns(col, "z" + std::to_string(v + 1), ELoc::Z, v);
  }
  if (D.hasW)
  {
    for (int i = 0; i < D.n; i++) col[i] = D.w[i];
    g->addColumns(col, "wgt", ELoc::W, 0);
  }
  if (D.hasSel)
  {
    for (int i = 0; i < D.n; i++) col[i] = D.sel[i];
    g->addColumns(col, "sel", ELoc::SEL, 0);
  }
  return g;
}

static std::vector<int> genGrincr(Rng& r, int ndim)
{
  std::vector<int> gi(ndim, 0);
  int t = r.irange(0, 9);
  if (t < 5) gi[r.irange(0, ndim - 1)] = 1;
  else if (t < 6) gi[r.irange(0, ndim - 1)] = 2;
  else
  {
    for (auto& v : gi) v = r.irange(-1, 2);
    bool z = true;
    for (auto v : gi) z = z && v == 0;
    if (z) gi[0] = 1;
  }
  return gi;
}

static void caseGrid(Rng& r, Ctx& c)
{
  int ndim = r.pick(std::vector<int>{1, 2, 2, 2, 3});
  int nvar = r.pick(std::vector<int>{1, 1, 2, 3});
  // modes with a definition on the grid path
  static const std::vector<std::string> names = {"VARIOGRAM", "VARIOGRAM", "COVARIANCE", "COVARIANCE_NC", "MADOGRAM",
                                                 "RODOGRAM", "ORDER4", "BINORMAL"};
  std::string mn     = r.pick(names);
  const ModeInfo* mi = nullptr;
  for (auto& m : modeTable())
    if (mn == m.name) mi = &m;
  defineDefaultSpace(ESpaceType::RN, ndim);
  GridGen gg;
  refv::Data D;
  GenInfo gi;
  std::unique_ptr<DbGrid> g = mkGrid(r, c, ndim, nvar, gg, D, gi, true);
  int ndir = r.irange(1, 2);
  std::vector<std::vector<int>> incs;
  std::vector<int> npas;
  std::string dt;
  for (int i = 0; i < ndir; i++)
  {
    incs.push_back(genGrincr(r, ndim));
    npas.push_back(r.pick(std::vector<int>{2, 3, 4, 6, 10, 15}));
    dt += (i ? "," : "") + std::string("inc");
    for (int v : incs.back()) dt += std::to_string(v);
  }
  c.setSig(fmt("grid:%s:ndim=%d:nvar=%d:%s:w%d:s%d:h%d:%s", mi->name, ndim, nvar, gi.layout.c_str(), (int)D.hasW,
               (int)D.hasSel, (int)gi.hetero, dt.c_str()));
  c.puts("kind", "grid");
  c.puts("mode", mi->name);
  c.put("nx", jvec(gg.nx));
  c.put("dx", jvec(gg.dx));
  c.put("angles", jvec(gg.angles));
  c.puts("grincr", dt);
  c.put("z1", jvec(D.z[0], 12));

  VarioParam vp;
  for (int i = 0; i < ndir; i++)
  {
    std::unique_ptr<DirParam> dp(DirParam::createFromGrid(g.get(), npas[i], VectorInt(incs[i])));
    vp.addDir(*dp);
  }
  std::string kp = std::string("C12:grid:") + mi->name + ":";
  c.truth("compute", K(kp + "defined-for-grid"), vp.isDefinedForGrid() && vp.getDirectionNumber() == ndir,
          "VarioParam built from grid increments");
  std::unique_ptr<Vario> v(Vario::computeFromDb(vp, g.get(), ecalc(*mi)));
  if (!c.truth("compute", K(kp + "compute-failed"), v != nullptr, "Vario::compute returned an error on valid input")) return;

  // lag of the grid direction: length of the increment vector (coordinates read from the Db)
  std::vector<refv::Result> refs;
  std::vector<double> dpas(ndir);
  std::vector<std::vector<double>> codir(ndir, std::vector<double>(ndim));
  int node0 = 0;
  for (int i = 0; i < ndir; i++)
  {
    // physical increment = difference of two nodes that are grincr apart (choose a start node so that both exist)
    std::vector<int> a(ndim), b(ndim);
    for (int k = 0; k < ndim; k++)
    {
      a[k] = incs[i][k] < 0 ? gg.nx[k] - 1 : 0;
      b[k] = a[k] + incs[i][k];
    }
    bool inside = true;
    for (int k = 0; k < ndim; k++) inside = inside && b[k] >= 0 && b[k] < gg.nx[k];
    LD d2 = 0;
    if (inside)
    {
      int ra = 0, rb = 0;
      for (int k = ndim - 1; k >= 0; k--) { ra = ra * gg.nx[k] + a[k]; rb = rb * gg.nx[k] + b[k]; }
      for (int k = 0; k < ndim; k++)
      {
        codir[i][k] = D.x[k][rb] - D.x[k][ra];
        d2 += (LD)codir[i][k] * codir[i][k];
      }
    }
    else
    {
      // increment larger than the grid: no pair at all; length from the mesh sizes (axes are orthogonal)
      for (int k = 0; k < ndim; k++) d2 += (LD)(incs[i][k] * gg.dx[k]) * (incs[i][k] * gg.dx[k]);
      codir[i].assign(ndim, 0.);
    }
    // length of the increment: from the mesh sizes (the grid axes are orthogonal; a rotation preserves lengths)
    d2 = 0;
    for (int k = 0; k < ndim; k++) d2 += (LD)(incs[i][k] * gg.dx[k]) * (incs[i][k] * gg.dx[k]);
    dpas[i] = (double)sqrtl(d2);
    refs.push_back(refv::onGrid(D, gg.nx, incs[i], npas[i], dpas[i], mi->refMode));
    (void)node0;
  }
  CmpCtx cc{c, "grid", *mi, D, D.hasW};
  for (int i = 0; i < ndir; i++) compareDir(cc, *v, i, refs[i], dt);
  if (D.hasW) c.probe("grid-weights");
  if (D.hasSel) c.probe("grid-selection");
  if (gi.hetero) c.probe("grid-heterotopic");

  // ---- the general algorithm on the same gridded data: direction = grid increment, narrow cone, small distance
  // tolerance, so that exactly the pairs i -> i + k*grincr qualify (other lattice vectors are > 4 degrees away on
  // grids this small). Lag 0 of the general algorithm holds no pair; it is not compared.
  bool degenerate = false;
  for (int i = 0; i < ndir; i++)
  {
    double nn = 0;
    for (double x : codir[i]) nn += x * x;
    if (nn == 0) degenerate = true;
  }
  int maxn = 0;
  for (int k : gg.nx) maxn = std::max(maxn, k);
  if (!degenerate && maxn <= 40)
  {
    VarioParam vq;
    std::vector<refv::Result> refg;
    for (int i = 0; i < ndir; i++)
    {
      vq.addDir(DirParam(npas[i], dpas[i], 0.05, 0.5, 0, 0, TEST, TEST, 0., VectorDouble(), VectorDouble(codir[i])));
    }
    std::unique_ptr<Vario> vgn(Vario::computeFromDb(vq, g.get(), ecalc(*mi)));
    if (c.truth("compute", K(kp + "compute-failed:general-on-grid"), vgn != nullptr, "general algorithm on a DbGrid"))
    {
      c.probe("grid-vs-general");
      compareVarios(c, "grid-vs-general", K(kp + "grid-vs-general"), *v, *vgn, nvar, refs, dataScale(D), 1);
    }
  }
}

// ------------------------------------------------------------------------------------------------------------
// case kind 3: generalised variograms of order 1-3 on a grid
// ------------------------------------------------------------------------------------------------------------
static void caseGenVar(Rng& r, Ctx& c)
{
  int ndim  = r.pick(std::vector<int>{1, 1, 2, 2, 3});
  int order = r.irange(1, 3);
  defineDefaultSpace(ESpaceType::RN, ndim);
  GridGen gg;
  refv::Data D;
  GenInfo gi;
  std::unique_ptr<DbGrid> g = mkGrid(r, c, ndim, 1, gg, D, gi, false);
  // selection only (weights play no role in this estimator)
  if (r.coin(0.3))
  {
    D.hasSel = true;
    D.sel.resize(D.n);
    VectorDouble col(D.n);
    for (int i = 0; i < D.n; i++) col[i] = D.sel[i] = r.coin(0.85) ? 1. : 0.;
    g->addColumns(col, "sel", ELoc::SEL, 0);
  }
  // one or two grid directions; with two, the same number of lags (a direction mis-addressed by the library then lands in
  // the arrays of the other one instead of outside them) and every failure of the case under one key
  int ndir = r.coin(0.35) ? 2 : 1;
  int npas = r.pick(std::vector<int>{2, 3, 4, 6, 10});
  std::vector<std::vector<int>> incs;
  for (int i = 0; i < ndir; i++) incs.push_back(genGrincr(r, ndim));
  std::string nm = "GENERAL" + std::to_string(order);
  c.setSig(fmt("genvar:%s:ndim=%d:%s:s%d:h%d:ndir%d", nm.c_str(), ndim, gi.layout.c_str(), (int)D.hasSel, (int)gi.hetero, ndir));
  c.puts("kind", "genvar");
  c.puts("mode", nm);
  c.put("nx", jvec(gg.nx));
  c.put("grincr0", jvec(incs[0]));
  c.putn("ndir", ndir);
  c.putn("npas", npas);
  c.put("z1", jvec(D.z[0], 12));
  if (ndir > 1) g_collapse = "C12:grid:GENERALk:multi-direction";
  VarioParam vp;
  for (int i = 0; i < ndir; i++)
  {
    std::unique_ptr<DirParam> dp(DirParam::createFromGrid(g.get(), npas, VectorInt(incs[i])));
    vp.addDir(*dp);
  }
  std::string kp = "C12:grid:GENERALk:";
  std::unique_ptr<Vario> v;
  try
  {
    v.reset(Vario::computeFromDb(vp, g.get(), ECalcVario::fromKey(nm)));
  }
  catch (const LibAbort&)
  {
    c.truth("compute", K(kp + "process-exit"), false,
            "Vario::computeFromDb(GENERALk) ended in messageAbort()/exit instead of a result or an error code");
    return;
  }
  if (!c.truth("compute", K(kp + "compute-failed"), v != nullptr, "Vario::compute returned an error on valid input")) return;
  if (!c.truth("compute", K(kp + "direction-count"), v->getDirectionNumber() == ndir, "directions kept")) return;
  static const ModeInfo gmi = {"GENERALk", refv::M_VARIOGRAM, CLS_EVEN, false, 0};
  CmpCtx cc{c, "grid", gmi, D, false};
  for (int i = 0; i < ndir; i++)
  {
    LD d2 = 0;
    for (int k = 0; k < ndim; k++) d2 += (LD)(incs[i][k] * gg.dx[k]) * (incs[i][k] * gg.dx[k]);
    double dpas    = (double)sqrtl(d2);
    refv::Result R = refv::generalized(D, gg.nx, incs[i], npas, dpas, order);
    compareDir(cc, *v, i, R, fmt("genvar order %d dir %d of %d", order, i, ndir));
  }
}


// ------------------------------------------------------------------------------------------------------------
// case kind 4: variogram maps. "The experimental variogram map is a map centered at the origin, which represents the
// value of experimental directional variogram across all directions" (doc/references/Variogram_Map.md): the cell of the
// map nearest to the separation vector h (and the one nearest to -h) receives the pair; per cell: sum of pair weights
// and mean two-point term. The centre cell (zero separation: every sample paired with itself) is not compared.
// ------------------------------------------------------------------------------------------------------------
struct MapRef
{
  std::vector<int> nxx;
  std::vector<refv::Cell> cells; // [rank][cell]
  int ncell = 0;
  refv::Cell& at(int a, int b, int cell) { if (a < b) std::swap(a, b); return cells[(size_t)(a * (a + 1) / 2 + b) * ncell + cell]; }
};
// candidate cell indices along one axis for a separation component (two when within the margin of a cell boundary)
static std::vector<int> axisCells(LD delta, double dx, int nxx)
{
  std::vector<int> out;
  LD q  = delta / (LD)dx + (LD)nxx;
  int k = (int)floorl(q + 0.5L);
  LD fr = q + 0.5L - floorl(q + 0.5L); // in [0,1): distance above the lower boundary of cell k
  out.push_back(k);
  if (fr < 1e-9L) out.push_back(k - 1);
  if (fr > 1 - 1e-9L) out.push_back(k + 1);
  return out;
}
static void vmapAccumulate(MapRef& M, const refv::Data& D, const std::vector<double>& dx, int refMode, int i, int j,
                           const std::vector<LD>& delta, bool oddFlip)
{
  // separation vector 'delta' = x_j - x_i (or its opposite when oddFlip: then the roles of i and j are exchanged)
  int nd = (int)dx.size();
  std::vector<std::vector<int>> cand(nd);
  bool ambiguous = false;
  for (int k = 0; k < nd; k++)
  {
    cand[k] = axisCells(delta[k], dx[k], M.nxx[k]);
    if (cand[k].size() > 1) ambiguous = true;
  }
  // enumerate candidate cells
  std::vector<int> idx(nd, 0);
  for (;;)
  {
    bool inside = true;
    int cell = 0, mul = 1;
    for (int k = 0; k < nd; k++)
    {
      int c = cand[k][idx[k]];
      int n = 2 * M.nxx[k] + 1;
      if (c < 0 || c >= n) inside = false;
      cell += c * mul;
      mul *= n;
    }
    if (inside)
    {
      for (int a = 0; a < D.nvar; a++)
        for (int b = 0; b <= a; b++)
        {
          refv::Cell& c = M.at(a, b, cell);
          if (ambiguous) { c.taint = true; continue; }
          LD w = (LD)D.weight(i) * (LD)D.weight(j);
          if (refMode == refv::M_COVARIANCE_NC)
          {
            int t = oddFlip ? j : i, h = oddFlip ? i : j; // C_ab(h) = z_a(x) z_b(x + h)
            if (refv::undef(D.z[a][t]) || refv::undef(D.z[b][h]) || refv::undef(D.z[a][h]) || refv::undef(D.z[b][t])) continue;
            refv::addCell(c, w, 0, (LD)D.z[a][t] * (LD)D.z[b][h]);
          }
          else
          {
            LD v;
            if (!refv::evenTerm(D, refMode, a, b, i, j, v)) continue;
            refv::addCell(c, w, 0, v);
          }
        }
    }
    int k = 0;
    while (k < nd && ++idx[k] >= (int)cand[k].size()) { idx[k] = 0; k++; }
    if (k == nd) break;
  }
}
static MapRef vmapReference(const refv::Data& D, const std::vector<int>& nxx, const std::vector<double>& dx, int refMode)
{
  MapRef M;
  M.nxx   = nxx;
  M.ncell = 1;
  for (int k : nxx) M.ncell *= 2 * k + 1;
  M.cells.assign((size_t)D.nvar * (D.nvar + 1) / 2 * M.ncell, refv::Cell());
  int nd = D.ndim;
  std::vector<LD> delta(nd);
  for (int i = 0; i < D.n; i++)
  {
    if (!D.active(i)) continue;
    for (int j = i + 1; j < D.n; j++)
    {
      if (!D.active(j)) continue;
      for (int k = 0; k < nd; k++) delta[k] = (LD)D.x[k][j] - (LD)D.x[k][i];
      vmapAccumulate(M, D, dx, refMode, i, j, delta, false);
      for (int k = 0; k < nd; k++) delta[k] = -delta[k];
      vmapAccumulate(M, D, dx, refMode, i, j, delta, true);
    }
  }
  return M;
}
// read the map: the Var columns then the Nb columns are the last 2*nv2 columns of the output grid
static bool readMap(const DbGrid& m, int nv2, std::vector<std::vector<double>>& var, std::vector<std::vector<double>>& nb)
{
  int nc = m.getColumnNumber();
  if (nc < 2 * nv2) return false;
  var.clear(); nb.clear();
  for (int r = 0; r < nv2; r++) var.push_back(m.getColumnByColIdx(nc - 2 * nv2 + r).getVector());
  for (int r = 0; r < nv2; r++) nb.push_back(m.getColumnByColIdx(nc - nv2 + r).getVector());
  return true;
}
static void compareMap(Ctx& c, const std::string& kp, MapRef& M, const refv::Data& D, const std::vector<std::vector<double>>& var,
                       const std::vector<std::vector<double>>& nb, int refMode, bool ggCrossEven)
{
  int centre = 0, mul = 1;
  for (int k : M.nxx) { centre += k * mul; mul *= 2 * k + 1; }
  for (int a = 0; a < D.nvar; a++)
    for (int b = 0; b <= a; b++)
    {
      int r = a * (a + 1) / 2 + b;
      if (!c.truth("vmap-shape", kp + "shape", (int)var[r].size() == M.ncell && (int)nb[r].size() == M.ncell,
                   fmt("%zu cells for %d", var[r].size(), M.ncell)))
        continue;
      bool odd = refMode == refv::M_COVARIANCE_NC;
      // cross-covariance map: which of C_ab(h) / C_ab(-h) a cell holds is not documented: the map or its point
      // reflection is accepted as a whole
      int bestFail[2] = {0, 0};
      for (int conv = 0; conv < ((odd && a != b) ? 2 : 1); conv++)
        for (int cell = 0; cell < M.ncell; cell++)
        {
          if (cell == centre) continue;
          int rc = conv == 0 ? cell : M.ncell - 1 - cell;
          refv::Cell& cl = M.at(a, b, rc);
          if (cl.taint || cl.sw <= 0) continue;
          double want = (double)(cl.sg / cl.sw), sc = (double)(cl.sabs / cl.sw);
          if (!(std::fabs(var[r][cell] - want) <= relTol(want, sc))) bestFail[conv]++;
        }
      int conv = (odd && a != b && bestFail[1] < bestFail[0]) ? 1 : 0;
      std::string ab = a == b ? "simple" : "cross";
      // cross-covariance on heterotopic variables: which couples count is not documented (see compareDir)
      if (odd && a != b && !isotopicPair(D, a, b)) { c.skip("vmap-cross-hetero"); continue; }
      for (int cell = 0; cell < M.ncell; cell++)
      {
        if (cell == centre) continue;
        int rc = conv == 0 ? cell : M.ncell - 1 - cell;
        refv::Cell& cl = M.at(a, b, rc);
        if (cl.taint) { c.skip("boundary"); continue; }
        std::string w = fmt("(%d,%d) cell %d of %d np=%ld", a, b, cell, M.ncell, cl.np);
        c.close("vmap-nb", kp + "nb:" + ab, nb[r][cell], (double)cl.sw, relTol((double)cl.sw, 0), w);
        if (cl.sw <= 0) { c.close("vmap-empty", kp + "empty", var[r][cell], refv::UNDEF, 0., w); continue; }
        if (a != b && !odd && !ggCrossEven) continue;
        double want = (double)(cl.sg / cl.sw), sc = (double)(cl.sabs / cl.sw);
        c.close("vmap-var", kp + "var:" + ab, var[r][cell], want, relTol(want, sc), w);
      }
    }
}

static void caseVmap(Rng& r, Ctx& c)
{
  int ndim = r.pick(std::vector<int>{2, 2, 2, 3});
  int nvar = r.pick(std::vector<int>{1, 1, 2});
  static const std::vector<std::string> names = {"VARIOGRAM", "VARIOGRAM", "VARIOGRAM", "COVARIANCE_NC", "MADOGRAM", "ORDER4"};
  std::string mn     = r.pick(names);
  const ModeInfo* mi = nullptr;
  for (auto& m : modeTable())
    if (mn == m.name) mi = &m;
  defineDefaultSpace(ESpaceType::RN, ndim);
  bool onGrid = r.coin(0.4);
  std::string kp = std::string("C12:vmap:") + (onGrid ? "grid:" : "points:") + mi->name + ":";
  std::vector<int> nxx(ndim);
  for (auto& k : nxx) k = r.irange(1, ndim == 2 ? 6 : 3);
  if (!onGrid)
  {
    GenInfo gi;
    refv::Data D = genScattered(r, c, ndim, nvar, false, gi);
    D.hasCode = false;
    std::vector<double> dx(ndim);
    for (auto& v : dx) v = (gi.layout == "lattice" && r.coin(0.5)) ? gi.unit : gi.extent * r.uni(0.03, 0.25);
    c.setSig(fmt("vmap:points:%s:ndim=%d:nvar=%d:%s:w%d:s%d:h%d", mi->name, ndim, nvar, gi.layout.c_str(), (int)D.hasW,
                 (int)D.hasSel, (int)gi.hetero));
    c.puts("kind", "vmap-points");
    c.puts("mode", mi->name);
    c.putn("n", D.n);
    c.put("nxx", jvec(nxx));
    c.put("dxx", jvec(dx));
    c.put("x1", jvec(D.x[0], 12));
    c.put("z1", jvec(D.z[0], 12));
    std::vector<double> zero(ndim, 0.);
    std::unique_ptr<Db> db = mkDb(D, ident(D.n), zero);
    std::unique_ptr<DbGrid> m(db_vmap(db.get(), ecalc(*mi), VectorInt(nxx), VectorDouble(dx), 0, r.coin()));
    if (!c.truth("compute", kp + "db_vmap-failed", m != nullptr, "db_vmap returned no map")) return;
    std::vector<std::vector<double>> var, nb;
    int nv2 = nvar * (nvar + 1) / 2;
    if (!c.truth("vmap-shape", kp + "shape", readMap(*m, nv2, var, nb), "Var and Nb columns")) return;
    MapRef M = vmapReference(D, nxx, dx, mi->refMode);
    compareMap(c, kp, M, D, var, nb, mi->refMode, mi->ggCross);
    // sample permutation
    std::vector<int> p = r.perm(D.n);
    std::unique_ptr<Db> db2 = mkDb(D, p, zero);
    std::unique_ptr<DbGrid> m2(db_vmap(db2.get(), ecalc(*mi), VectorInt(nxx), VectorDouble(dx), 0, true));
    std::vector<std::vector<double>> var2, nb2;
    if (m2 && readMap(*m2, nv2, var2, nb2))
      for (int rr = 0; rr < nv2; rr++)
        for (int cell = 0; cell < M.ncell; cell++)
        {
          if (M.cells[(size_t)rr * M.ncell + cell].taint) continue;
          c.close("vmap-perm", kp + "permutation", nb2[rr][cell], nb[rr][cell], relTol(nb[rr][cell], 0), fmt("nb cell %d", cell));
          c.close("vmap-perm", kp + "permutation", var2[rr][cell], var[rr][cell], relTol(var[rr][cell], dataScale(D)), fmt("var cell %d", cell));
        }
  }
  else
  {
    GridGen gg;
    refv::Data D;
    GenInfo gi;
    // unrotated grid, moderate size; selection and undefined values allowed, no weights
    int nmaxSave = 0; (void)nmaxSave;
    std::unique_ptr<DbGrid> g;
    for (;;)
    {
      g = mkGrid(r, c, ndim, nvar, gg, D, gi, false);
      if (gg.angles.empty()) break;
    }
    if (r.coin(0.3))
    {
      D.hasSel = true;
      D.sel.resize(D.n);
      VectorDouble col(D.n);
      for (int i = 0; i < D.n; i++) col[i] = D.sel[i] = r.coin(0.8) ? 1. : 0.;
      g->addColumns(col, "sel", ELoc::SEL, 0);
    }
    for (int k = 0; k < ndim; k++) nxx[k] = std::min(nxx[k], std::max(1, gg.nx[k]));
    c.setSig(fmt("vmap:grid:%s:ndim=%d:nvar=%d:s%d:h%d", mi->name, ndim, nvar, (int)D.hasSel, (int)gi.hetero));
    c.puts("kind", "vmap-grid");
    c.puts("mode", mi->name);
    c.put("nx", jvec(gg.nx));
    c.put("nxx", jvec(nxx));
    c.put("z1", jvec(D.z[0], 12));
    int nv2 = nvar * (nvar + 1) / 2;
    std::unique_ptr<DbGrid> m(db_vmap(g.get(), ecalc(*mi), VectorInt(nxx), VectorDouble(), 0, false));
    if (!c.truth("compute", kp + "db_vmap-failed", m != nullptr, "db_vmap (direct) returned no map")) return;
    std::vector<std::vector<double>> var, nb;
    if (!c.truth("vmap-shape", kp + "shape", readMap(*m, nv2, var, nb), "Var and Nb columns")) return;
    MapRef M = vmapReference(D, nxx, gg.dx, mi->refMode);
    compareMap(c, kp, M, D, var, nb, mi->refMode, mi->ggCross);
    // FFT algorithm vs direct algorithm (VARIOGRAM / COVARIANCE_NC only; complete grids: the FFT path has its own
    // treatment of missing values, compared under a separate key)
    if ((mn == "VARIOGRAM" || mn == "COVARIANCE_NC") && !(AVOID_VMAP_FFT_COV_2D && mn == "COVARIANCE_NC" && ndim == 2))
    {
      std::unique_ptr<DbGrid> mf(db_vmap(g.get(), ecalc(*mi), VectorInt(nxx), VectorDouble(), 0, true));
      std::string kf = kp + ((gi.hetero || D.hasSel) ? "fft-vs-direct:incomplete-grid" : "fft-vs-direct");
      std::vector<std::vector<double>> varf, nbf;
      if (c.truth("compute", kp + "db_vmap-fft-failed", mf != nullptr, "db_vmap (FFT) returned no map") && readMap(*mf, nv2, varf, nbf))
      {
        int centre = 0, mul = 1;
        for (int k : nxx) { centre += k * mul; mul *= 2 * k + 1; }
        for (int rr = 0; rr < nv2; rr++)
        {
          int ra = 0;
          while ((ra + 1) * (ra + 2) / 2 <= rr) ra++;
          int rb = rr - ra * (ra + 1) / 2;
          // heterotopic cross-covariance: the two algorithms use different (undocumented) couple rules, reported elsewhere
          if (mn == "COVARIANCE_NC" && ra != rb && !isotopicPair(D, ra, rb)) { c.skip("vmap-cross-hetero"); continue; }
          for (int cell = 0; cell < M.ncell && cell < (int)varf[rr].size(); cell++)
          {
            if (cell == centre) continue;
            std::string w = fmt("pair-rank %d cell %d of %d", rr, cell, M.ncell);
            c.close("vmap-fft", kf, nbf[rr][cell], nb[rr][cell], 1e-8 * std::max(1., std::fabs(nb[rr][cell])), "nb " + w);
            if (nb[rr][cell] > 0)
              c.close("vmap-fft", kf, varf[rr][cell], var[rr][cell], 1e-8 * std::max({1., std::fabs(var[rr][cell]), dataScale(D)}), "var " + w);
          }
        }
      }
    }
  }
}

// ------------------------------------------------------------------------------------------------------------
// case kind 5: variogram clouds. doc/references/Variogram_Cloud.md: "the set of pair of points
// ( |x_i - x_j| , |z(x_i) - z(x_j)|^2 )"; "variogram clouds are computed as grids": cell (p, q) of the output grid counts
// the pairs (kept by the direction) whose distance is nearest to p*dlag and whose ordinate is nearest to q*dvar. The
// library plots HALF the squared difference (the usual convention, consistent with the variogram), the reference text
// the full one: either ordinate is accepted, for the whole grid.
// ------------------------------------------------------------------------------------------------------------
static void caseVcloud(Rng& r, Ctx& c)
{
  int ndim = r.pick(std::vector<int>{1, 2, 2, 3});
  defineDefaultSpace(ESpaceType::RN, ndim);
  GenInfo gi;
  refv::Data D = genScattered(r, c, ndim, 1, false, gi);
  D.hasW = false; D.w.clear();
  D.hasCode = false; D.code.clear();
  int ndir = r.irange(1, 2);
  std::vector<DirSpec> dirs;
  std::string dt;
  for (int i = 0; i < ndir; i++)
  {
    DirSpec s = genDir(r, ndim, gi, 0);
    s.ref.breaks.clear();
    dirs.push_back(s);
    dt += (i ? "," : "") + s.tag;
  }
  int lagnb = r.irange(3, 12), varnb = r.irange(3, 10);
  double lagmax = gi.extent * r.uni(0.3, 1.2), varmax = r.uni(0.5, 6.);
  c.setSig(fmt("vcloud:ndim=%d:%s:s%d:h%d:%s", ndim, gi.layout.c_str(), (int)D.hasSel, (int)gi.hetero, dt.c_str()));
  c.puts("kind", "vcloud");
  c.putn("n", D.n);
  c.putn("lagnb", lagnb); c.putn("varnb", varnb); c.putn("lagmax", lagmax); c.putn("varmax", varmax);
  c.put("x1", jvec(D.x[0], 12));
  c.put("z1", jvec(D.z[0], 12));
  VarioParam vp;
  for (auto& s : dirs) vp.addDir(mkDirParam(s));
  std::vector<double> zero(ndim, 0.);
  std::unique_ptr<Db> db = mkDb(D, ident(D.n), zero);
  std::string kp = "C12:vcloud:";
  std::unique_ptr<DbGrid> g(db_vcloud(db.get(), &vp, lagmax, varmax, lagnb, varnb));
  if (!c.truth("compute", kp + "db_vcloud-failed", g != nullptr, "db_vcloud returned no grid")) return;
  int nc = g->getColumnNumber();
  if (!c.truth("vcloud-shape", kp + "shape", nc >= ndir && g->getSampleNumber() == lagnb * varnb, "one column per direction")) return;
  double dl = lagmax / lagnb, dv = varmax / varnb;
  for (int idir = 0; idir < ndir; idir++)
  {
    std::vector<double> got = g->getColumnByColIdx(nc - ndir + idir).getVector();
    // reference counts for the two ordinates (factor 1/2 and factor 1)
    std::vector<long> cnt[2];
    std::vector<char> taint[2];
    for (int f = 0; f < 2; f++) { cnt[f].assign((size_t)lagnb * varnb, 0); taint[f].assign((size_t)lagnb * varnb, 0); }
    // geometric acceptance only: one lag class wide enough for every distance
    refv::Dir gd = dirs[idir].ref;
    gd.npas = 1; gd.dpas = 1e30; gd.toldis = 0.5;
    for (int i = 0; i < D.n; i++)
    {
      if (!D.active(i)) continue;
      for (int j = i + 1; j < D.n; j++)
      {
        if (!D.active(j)) continue;
        if (refv::undef(D.z[0][i]) || refv::undef(D.z[0][j])) continue;
        refv::PairGeom pg = refv::pairGeom(D, gd, i, j);
        bool amb = !pg.taintLags.empty();
        if (pg.reject && !amb) continue;
        LD dz = (LD)D.z[0][j] - (LD)D.z[0][i];
        for (int f = 0; f < 2; f++)
        {
          LD y  = dz * dz * (f == 0 ? 0.5L : 1.0L);
          LD qx = pg.d / (LD)dl + 0.5L, qy = y / (LD)dv + 0.5L;
          int ix = (int)floorl(qx), iy = (int)floorl(qy);
          bool ambc = amb || (qx - floorl(qx)) < 1e-9L || (qx - floorl(qx)) > 1 - 1e-9L || (qy - floorl(qy)) < 1e-9L ||
                      (qy - floorl(qy)) > 1 - 1e-9L;
          for (int ax = -1; ax <= 1; ax++)
            for (int ay = -1; ay <= 1; ay++)
            {
              int cx = ix + ax, cy = iy + ay;
              if (cx < 0 || cy < 0 || cx >= lagnb || cy >= varnb) continue;
              if (ax == 0 && ay == 0 && !ambc) cnt[f][(size_t)cy * lagnb + cx]++;
              else if (ambc) taint[f][(size_t)cy * lagnb + cx] = 1;
            }
          if (ambc && ix >= 0 && iy >= 0 && ix < lagnb && iy < varnb) taint[f][(size_t)iy * lagnb + ix] = 1;
        }
      }
    }
    int bad[2] = {0, 0};
    for (int f = 0; f < 2; f++)
      for (size_t k = 0; k < got.size(); k++)
      {
        if (taint[f][k]) continue;
        double want = cnt[f][k] > 0 ? (double)cnt[f][k] : refv::UNDEF;
        if (got[k] != want) bad[f]++;
      }
    int f = bad[1] < bad[0] ? 1 : 0;
    c.probe(f == 0 ? "vcloud-half-squared-difference" : "vcloud-full-squared-difference");
    for (size_t k = 0; k < got.size(); k++)
    {
      if (taint[f][k]) { c.skip("boundary"); continue; }
      // "Replace zero values by TEST values": an empty cell reports the undefined value
      double want = cnt[f][k] > 0 ? (double)cnt[f][k] : refv::UNDEF;
      c.close("vcloud-count", kp + "count", got[k], want, 0.,
              fmt("dir %d cell (%zu,%zu) of %dx%d [%s]", idir, k % lagnb, k / lagnb, lagnb, varnb, dirs[idir].tag.c_str()));
    }
  }
}

// Vario.cpp keeps the "current direction" in a file static (IDIRLOC) that some algorithms read without setting it.
// To keep every case a function of (seed, index) alone, a one-direction variogram of two points is computed first,
// which leaves that static at 0 whatever the previous case did.
// Still needed: Vario::_calculateGenOnGridSolution / _calculateOnLineSolution call _setResult without setting the file
// static IDIRLOC, so a GENERALk calculation writes into the direction left by the previous Vario computation of the
// process. Priming makes that "direction 0" for every case, i.e. a function of (seed, index) alone.
static const bool PRIME_STATICS = true;
static void primeStatics()
{
  defineDefaultSpace(ESpaceType::RN, 1);
  std::unique_ptr<Db> db(Db::create());
  db->addColumns(VectorDouble({0., 1.}), "x1", ELoc::X, 0);
  db->addColumns(VectorDouble({0., 1.}), "z1", ELoc::Z, 0);
  VarioParam vp;
  vp.addDir(DirParam(2, 1.));
  std::unique_ptr<Vario> v(Vario::computeFromDb(vp, db.get(), ECalcVario::VARIOGRAM));
}

static void run_case(Rng& r, Ctx& c)
{
  OptDbg::reset();
  redefine_exit(onLibExit);
  g_collapse.clear();
  if (PRIME_STATICS) primeStatics();
  int k = r.irange(0, 99);
  if (k < 54) caseGeneral(r, c);
  else if (k < 79) caseGrid(r, c);
  else if (k < 86) caseGenVar(r, c);
  else if (k < 94) caseVmap(r, c);
  else caseVcloud(r, c);
}

int main(int argc, char** argv) { return run_main(argc, argv, "C12", run_case); }
