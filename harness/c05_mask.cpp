// C05 — masked or undefined samples never influence a result.
//
// Metamorphic monitor.  For each case: a sample set with dropped samples (switched off by the selection, all values
// undefined, one coordinate undefined), from which two Dbs are built by the harness:
//   masked  = every sample present, dropped ones masked / undefined and POISONED (values 1e15, far-away coordinates)
//   reduced = only the kept rows (Db::createFromSamples on the kept rows; no library helper involved)
// One operation is run on both; every output is compared through the kept-sample index map.
// Operation list (printed in the evidence `rule`): see OPS[] below.
#include "common/vh.hpp"
#include "common/c05_gen.hpp"

#include "Basic/OptDbg.hpp"
#include "Basic/Utilities.hpp"
#include "Basic/NamingConvention.hpp"
#include "Covariances/CovAniso.hpp"
#include "Db/Db.hpp"
#include "Db/DbGrid.hpp"
#include "Enum/ECov.hpp"
#include "Enum/ESpaceType.hpp"
#include "Estimation/CalcKriging.hpp"
#include "Model/Model.hpp"
#include "Matrix/MatrixRectangular.hpp"
#include "Matrix/MatrixSquareSymmetric.hpp"
#include "Matrix/MatrixSparse.hpp"
#include "Matrix/Table.hpp"
#include "Stats/Classical.hpp"
#include "Enum/EStatOption.hpp"
#include "Enum/ECalcVario.hpp"
#include "Enum/ECalcMember.hpp"
#include "Variogram/Vario.hpp"
#include "Simulation/CalcSimuTurningBands.hpp"
#include "Calculators/CalcMigrate.hpp"
#include "Variogram/VarioParam.hpp"
#include "Variogram/DirParam.hpp"
#include "Neigh/NeighMoving.hpp"
#include "Neigh/NeighUnique.hpp"
#include "Space/ASpaceObject.hpp"

using namespace vh;
using namespace c05;

static const double EPS = 2.220446049250313e-16;
#define TRACE(c, ...) do { if ((c).verbose) { fprintf(stderr, "TRACE " __VA_ARGS__); fputc('\n', stderr); } } while (0)

// all cells of the columns created since 'ncol0' are undefined (rows: all)
static bool allNewUndefined(const Db* db, int ncol0, std::string& where)
{
  for (int ic = ncol0; ic < db->getColumnNumber(); ic++)
  {
    VectorDouble col = db->getColumnByColIdx(ic, false, false);
    for (int i = 0; i < (int)col.size(); i++)
      if (!FFFF(col[i])) { where = fmt("%s[row %d]=%.17g", db->getNameByColIdx(ic).c_str(), i, col[i]); return false; }
  }
  return true;
}

// ---------------------------------------------------------------------------------------------------
// model generator
// ---------------------------------------------------------------------------------------------------
struct ModelSpec
{
  int drift = 0; // -1 known mean (simple kriging), 0 ordinary, 1 linear drift
  std::string desc;
  double totalSill = 0;
};

static std::unique_ptr<Model> genModel(Rng& r, int ndim, int nvar, int drift, ModelSpec& ms, bool nuggetOk = true)
{
  static const std::vector<ECov> types = {ECov::SPHERICAL, ECov::EXPONENTIAL, ECov::CUBIC, ECov::MATERN};
  auto sillMat = [&](double scale) {
    VectorDouble s(nvar * nvar, 0.);
    std::vector<std::vector<double>> a(nvar, std::vector<double>(nvar));
    for (auto& row : a) for (auto& v : row) v = r.uni(-1, 1);
    for (int i = 0; i < nvar; i++)
      for (int j = 0; j < nvar; j++)
      {
        double t = 0;
        for (int k = 0; k < nvar; k++) t += a[i][k] * a[j][k];
        s[i * nvar + j] = scale * (t + (i == j ? 0.5 : 0.));
      }
    return s;
  };
  int nst = r.irange(1, 2);
  std::unique_ptr<Model> model;
  ms.desc.clear();
  ms.totalSill = 0;
  for (int is = 0; is < nst; is++)
  {
    ECov t       = r.pick(types);
    double param = t == ECov::MATERN ? r.uni(0.5, 2.) : 1.;
    VectorDouble ranges(ndim), angles(ndim, 0.);
    double base = r.uni(20, 90);
    for (int d = 0; d < ndim; d++) ranges[d] = base * (d == 0 ? 1. : r.uni(0.3, 1.));
    if (ndim >= 2) angles[0] = r.uni(0, 180);
    if (ndim == 3) { angles[1] = r.uni(-40, 40); angles[2] = r.uni(-40, 40); }
    VectorDouble sills = sillMat(r.uni(0.5, 3.));
    if (!model)
      model.reset(Model::createFromParam(t, 1., 1., param, ranges, sills, angles, nullptr, true));
    else
      model->addCovFromParam(t, 1., 1., param, ranges, sills, angles, true);
    ms.desc += std::string(t.getKey()) + "+";
    ms.totalSill += sills[0];
  }
  if (nuggetOk && r.coin(0.5))
  {
    VectorDouble sills = sillMat(r.uni(0.05, 0.5));
    model->addCovFromParam(ECov::NUGGET, 0., 1., 1., VectorDouble(), sills, VectorDouble(), true);
    ms.desc += "NUGGET+";
    ms.totalSill += sills[0];
  }
  ms.drift = drift;
  if (drift >= 0) model->setDriftIRF(drift, 0);
  else
  {
    VectorDouble means(nvar);
    for (auto& m : means) m = r.uni(-2, 2);
    model->setMeans(means);
  }
  ms.desc += fmt("drift=%d", drift);
  return model;
}

// targets: random points, some coincident with data locations (kept and dropped ones), optional target selection
struct Targets
{
  int m = 0;
  std::vector<std::vector<double>> x;
  std::vector<int> masked; // 1 = switched off by the target selection
  std::vector<int> active; // ranks of active targets
  SelMode selMode = SEL_NONE;
};

static Targets genTargets(Rng& r, const Samples& s, int mmin, int mmax)
{
  Targets t;
  t.m = r.irange(mmin, mmax);
  t.x.assign(s.ndim, std::vector<double>(t.m));
  for (int j = 0; j < t.m; j++)
  {
    if (r.coin(0.25))
    { // coincide with a data location (clean coordinates, also of dropped samples)
      int i = r.irange(0, s.n - 1);
      for (int d = 0; d < s.ndim; d++) t.x[d][j] = s.x[d][i];
    }
    else
      for (int d = 0; d < s.ndim; d++) t.x[d][j] = r.uni(-10, s.field + 10);
  }
  double u   = r.u01();
  t.selMode  = u < 0.45 ? SEL_NONE : u < 0.8 ? SEL_RANDOM : u < 0.88 ? SEL_ALMOST_EMPTY : u < 0.94 ? SEL_EMPTY : SEL_FULL;
  t.masked.assign(t.m, 0);
  if (t.selMode == SEL_RANDOM)
  {
    double p = r.uni(0.2, 0.6);
    for (int j = 0; j < t.m; j++) t.masked[j] = r.coin(p);
  }
  else if (t.selMode == SEL_ALMOST_EMPTY)
  {
    for (int j = 0; j < t.m; j++) t.masked[j] = 1;
    t.masked[r.irange(0, t.m - 1)] = 0;
  }
  else if (t.selMode == SEL_EMPTY)
    for (int j = 0; j < t.m; j++) t.masked[j] = 1;
  for (int j = 0; j < t.m; j++)
    if (!t.masked[j]) t.active.push_back(j);
  return t;
}
// masked target Db: all targets + selection; masked targets carry a marker column "keepme" whose cells must survive
static std::unique_ptr<Db> mkTargetsMasked(const Targets& t)
{
  std::vector<double> sel(t.m);
  for (int j = 0; j < t.m; j++) sel[j] = t.masked[j] ? 0. : 1.;
  std::unique_ptr<Db> db = mkDb(t.m, t.x, {}, t.selMode == SEL_NONE ? nullptr : &sel);
  return db;
}
static std::unique_ptr<Db> mkTargetsReduced(const Targets& t)
{
  int ma = (int)t.active.size();
  std::vector<std::vector<double>> x(t.x.size(), std::vector<double>(ma));
  for (int k = 0; k < ma; k++)
    for (size_t d = 0; d < t.x.size(); d++) x[d][k] = t.x[d][t.active[k]];
  return mkDb(ma, x, {}, nullptr);
}

// snapshot of all cells of the first ncol columns (to prove "left untouched")
static std::vector<double> snapshot(const Db* db, int ncol)
{
  std::vector<double> v;
  for (int ic = 0; ic < ncol; ic++)
  {
    VectorDouble col = db->getColumnByColIdx(ic, false, false);
    v.insert(v.end(), col.begin(), col.end());
  }
  return v;
}
static bool sameSnapshot(const std::vector<double>& a, const std::vector<double>& b)
{
  if (a.size() != b.size()) return false;
  for (size_t i = 0; i < a.size(); i++)
    if (!sameBits(a[i], b[i])) return false;
  return true;
}

// Generic comparison of the columns created by an operation in (dbA masked run) and (dbB reduced run).
//   mapA : rows of dbA that correspond to rows 0.. of dbB;  offA : rows of dbA that are switched off (must be TEST)
// exact=true demands bit-for-bit equality, else |a-b| <= reltol * max(scale, floor)
static void cmpOutputs(Ctx& c, const std::string& op, const std::string& key, const Db* dbA, int ncolA0,
                       const std::vector<int>& mapA, const std::vector<int>& offA, const Db* dbB, int ncolB0,
                       bool exact, double reltol, double floor)
{
  VectorString na = newColumns(dbA, ncolA0), nb = newColumns(dbB, ncolB0);
  bool same = na.size() == nb.size();
  for (size_t i = 0; same && i < na.size(); i++) same = na[i] == nb[i];
  std::string la, lb;
  for (auto& s : na) la += s + " ";
  for (auto& s : nb) lb += s + " ";
  if (!c.truth(op + ":columns", key + ":new-columns-differ", same, "masked run created [" + la + "] reduced run [" + lb + "]"))
    return;
  if (na.empty()) return;
  CmpRes res;
  for (size_t i = 0; i < na.size(); i++) cmpColumn(dbA, na[i], mapA, dbB, nb[i], res);
  if (exact)
    c.check(op + ":equal", key + ":differs", res.worst == 0, res.worst, 0, res.where);
  else
  {
    double tol = reltol * std::max(res.scale, floor);
    c.check(op + ":close", key + ":differs", res.worst <= tol, res.worst, tol, res.where);
    if (res.nexact == res.ncell) c.probe(op + ":bit-identical");
  }
  // switched-off rows keep the undefined value in newly created variables
  if (!offA.empty())
  {
    bool ok = true;
    std::string w;
    for (size_t i = 0; i < na.size() && ok; i++)
    {
      VectorDouble a = dbA->getColumn(na[i], false, false);
      for (int j : offA)
        if (!(a[j] == TEST)) { ok = false; w = fmt("%s[row %d]=%.17g (expected TEST)", na[i].c_str(), j, a[j]); break; }
    }
    c.truth(op + ":off-rows-TEST", key + ":masked-row-written", ok, w);
  }
}

// ===================================================================================================
// kriging (unique / moving neighbourhood), masked data and masked targets
// ===================================================================================================
struct NeighSpec
{
  int kind = 0; // 0 unique, 1 moving, 2 moving + ball search
  int nmaxi = 10, nmini = 1, nsect = 1, nsmax = ITEST, leaf = 10;
  double radius = TEST;
  VectorDouble coeffs, angles;
  std::string desc = "unique";
};
static NeighSpec genNeigh(Rng& r, int ndim, bool forceUnique = false)
{
  NeighSpec ns;
  ns.kind = forceUnique ? 0 : r.irange(0, 2);
  if (ns.kind == 2 && avoid("ball", AVOID_BALL)) ns.kind = 1;
  if (ns.kind == 0) return ns;
  ns.nmaxi  = r.irange(3, 10);
  ns.nmini  = r.irange(1, 3);
  ns.radius = r.coin(0.7) ? r.uni(30, 120) : TEST;
  if (ndim >= 2 && r.coin(0.3)) { ns.nsect = r.irange(2, 6); ns.nsmax = r.irange(1, 3); }
  ns.leaf = r.irange(2, 12);
  // NOTE: coefficients are always given: without them BiTargetCheckDistance assumes a 2-D space whatever the Db
  // (out-of-bounds read in 1-D, third coordinate ignored in 3-D) - not a C05 matter, reported separately.
  ns.coeffs.resize(ndim, 1.);
  if (r.coin(0.4))
  {
    for (int d = 0; d < ndim; d++) ns.coeffs[d] = r.uni(0.5, 2.);
    if (ndim >= 2 && r.coin(0.5)) { ns.angles.resize(ndim, 0.); ns.angles[0] = r.uni(0, 180); }
  }
  ns.desc = ns.kind == 2 ? "moving-ball" : "moving";
  return ns;
}
static std::unique_ptr<ANeigh> mkNeigh(const NeighSpec& ns, bool xvalid)
{
  if (ns.kind == 0) return std::unique_ptr<ANeigh>(NeighUnique::create(xvalid));
  NeighMoving* nm = NeighMoving::create(xvalid, ns.nmaxi, ns.radius, ns.nmini, ns.nsect, ns.nsmax, ns.coeffs, ns.angles);
  if (ns.kind == 2) nm->setBallSearch(true, ns.leaf);
  return std::unique_ptr<ANeigh>(nm);
}

static void opKriging(Rng& r, Ctx& c)
{
  GenOpt o;
  o.nmax = c.thorough() ? 90 : 36;
  Samples s = genSamples(r, o);
  defineDefaultSpace(ESpaceType::RN, s.ndim);
  int drift = r.irange(-1, 1);
  ModelSpec ms;
  auto model = genModel(r, s.ndim, s.nvar, drift, ms);
  NeighSpec ns = genNeigh(r, s.ndim);
  std::string nd = ns.desc;
  auto neigh = mkNeigh(ns, false), neighR = mkNeigh(ns, false);
  Targets t   = genTargets(r, s, 4, c.thorough() ? 40 : 14);
  bool flagStd = r.coin(0.8), flagVarz = r.coin(0.3);
  c.setSig(fmt("kriging:%s:ndim=%d:nvar=%d:%s:tsel=%s:drift=%d", nd.c_str(), s.ndim, s.nvar, s.sigtag().c_str(),
               SELN[t.selMode], drift));
  c.puts("op", "kriging");
  c.puts("neigh", nd);
  c.puts("model", ms.desc);
  c.put("n_kept_targets", fmt("[%d,%d,%d,%d]", s.n, s.nkept(), t.m, (int)t.active.size()));

  auto dinM = mkMasked(r, s);
  auto dinR = mkReduced(s);
  auto doutM = mkTargetsMasked(t);
  auto doutR = mkTargetsReduced(t);
  std::string K = "C05:kriging:" + nd + ":" + s.tag();

  int ncM = doutM->getColumnNumber(), ncR = doutR->getColumnNumber();
  int ncDin = dinM->getColumnNumber();
  std::vector<double> snapOut = snapshot(doutM.get(), ncM), snapIn = snapshot(dinM.get(), ncDin);
  bool nothing = s.nkept() == 0 || t.active.empty(); // nothing left after removal: no reduced run possible
  TRACE(c, "kriging %s n=%d kept=%d targets=%d active=%zu -> masked run", s.sigtag().c_str(), s.n, s.nkept(), t.m, t.active.size());
  int errM = kriging(dinM.get(), doutM.get(), model.get(), neigh.get(), EKrigOpt::POINT, true, flagStd, flagVarz);
  std::vector<int> off;
  for (int j = 0; j < t.m; j++) if (t.masked[j]) off.push_back(j);
  if (nothing)
  {
    // no data (or no target) is left: the call may refuse, but it must not produce any value
    std::string w;
    bool ok = allNewUndefined(doutM.get(), ncM, w);
    c.truth("kriging:nothing-left", "C05:kriging:" + nd + (s.nkept() == 0 ? ":no-active-data" : ":no-active-target") + ":value-produced", ok,
            fmt("rc=%d ", errM) + w);
  }
  else
  {
    TRACE(c, "-> reduced run");
    int errR = kriging(dinR.get(), doutR.get(), model.get(), neighR.get(), EKrigOpt::POINT, true, flagStd, flagVarz);
    c.truth("kriging:rc", K + ":return-code", (errM == 0) == (errR == 0), fmt("masked run rc=%d reduced run rc=%d (kept=%d active targets=%zu)", errM, errR, s.nkept(), t.active.size()));
    if (errM == 0 && errR == 0)
      cmpOutputs(c, "kriging", K, doutM.get(), ncM, t.active, off, doutR.get(), ncR, true, 0, 0);
  }
  c.truth("kriging:target-untouched", "C05:kriging:" + nd + ":target-columns-modified", sameSnapshot(snapOut, snapshot(doutM.get(), ncM)),
          "pre-existing columns of the target Db changed");
  c.truth("kriging:data-untouched", "C05:kriging:" + nd + ":data-columns-modified",
          dinM->getColumnNumber() == ncDin && sameSnapshot(snapIn, snapshot(dinM.get(), ncDin)), "data Db changed");
}

// ===================================================================================================
// cross-validation
// ===================================================================================================
static void opXvalid(Rng& r, Ctx& c)
{
  GenOpt o;
  o.nmax    = c.thorough() ? 70 : 30;
  o.minKept = 0;
  // every sample of the Db is also a target of the cross-validation: a sample whose values are all undefined is a
  // legitimate (if useless) target site, so it keeps a clean location (a target 1e9 away makes MATERN throw
  // "Argument x too large in __bessel_ik" whatever the selection - not a C05 matter, see report)
  o.undefKeepCoord = true;
  Samples s = genSamples(r, o);
  defineDefaultSpace(ESpaceType::RN, s.ndim);
  int drift = r.irange(-1, 1);
  ModelSpec ms;
  auto model = genModel(r, s.ndim, s.nvar, drift, ms);
  NeighSpec ns = genNeigh(r, s.ndim);
  std::string nd = ns.desc;
  auto neigh = mkNeigh(ns, true), neighR = mkNeigh(ns, true);
  bool kfold = false;
  int fEst = r.pick(std::vector<int> {1, -1}), fStd = r.pick(std::vector<int> {1, -1, 0}), fVarz = r.coin(0.2) ? 1 : 0;
  c.setSig(fmt("xvalid:%s:ndim=%d:nvar=%d:%s:drift=%d", nd.c_str(), s.ndim, s.nvar, s.sigtag().c_str(), drift));
  c.puts("op", "xvalid");
  c.puts("neigh", nd);
  c.puts("model", ms.desc);
  c.put("n_kept", fmt("[%d,%d]", s.n, s.nkept()));
  auto dM = mkMasked(r, s);
  auto dR = mkReduced(s);
  std::string K = "C05:xvalid:" + nd + ":" + s.tag();
  int ncM = dM->getColumnNumber(), ncR = dR->getColumnNumber();
  std::vector<double> snap = snapshot(dM.get(), ncM);
  TRACE(c, "xvalid %s n=%d kept=%d -> masked run", s.sigtag().c_str(), s.n, s.nkept());
  int errM = xvalid(dM.get(), model.get(), neigh.get(), kfold, fEst, fStd, fVarz);
  std::vector<int> off;
  for (int i = 0; i < s.n; i++) if (s.cls[i] & MASKED) off.push_back(i);
  if (s.nkept() == 0)
  {
    std::string w;
    bool ok = allNewUndefined(dM.get(), ncM, w);
    c.truth("xvalid:nothing-left", "C05:xvalid:" + nd + ":no-active-data:value-produced", ok, fmt("rc=%d ", errM) + w);
  }
  else
  {
    TRACE(c, "-> reduced run");
    int errR = xvalid(dR.get(), model.get(), neighR.get(), kfold, fEst, fStd, fVarz);
    c.truth("xvalid:rc", K + ":return-code", (errM == 0) == (errR == 0), fmt("masked run rc=%d reduced run rc=%d (kept=%d)", errM, errR, s.nkept()));
    if (errM == 0 && errR == 0)
      cmpOutputs(c, "xvalid", K, dM.get(), ncM, s.kept, off, dR.get(), ncR, true, 0, 0);
  }
  c.truth("xvalid:data-untouched", "C05:xvalid:" + nd + ":data-columns-modified", sameSnapshot(snap, snapshot(dM.get(), ncM)),
          "pre-existing columns of the Db changed");
}


// ---------------------------------------------------------------------------------------------------
// comparison of two vectors / matrices cell by cell (bit for bit; undefined == undefined)
// ---------------------------------------------------------------------------------------------------
static bool cmpVecExact(Ctx& c, const std::string& oracle, const std::string& key, const std::string& what,
                        const VectorDouble& a, const VectorDouble& b)
{
  if (a.size() != b.size())
    return c.check(oracle, key, false, 1, 0, fmt("%s: size masked-run=%zu reduced-run=%zu", what.c_str(), (size_t)a.size(), (size_t)b.size()));
  double worst = 0;
  std::string w;
  for (size_t i = 0; i < a.size(); i++)
  {
    if (sameBits(a[i], b[i])) continue;
    double e = (FFFF(a[i]) || FFFF(b[i])) ? ((FFFF(a[i]) && FFFF(b[i])) ? 0 : INFINITY) : std::fabs(a[i] - b[i]);
    if (e > worst) { worst = e; w = fmt("%s[%zu] masked-run=%.17g reduced-run=%.17g", what.c_str(), i, a[i], b[i]); }
  }
  return c.check(oracle, key, worst == 0, worst, 0, w);
}
static bool cmpMatExact(Ctx& c, const std::string& oracle, const std::string& key, const std::string& what,
                        const AMatrix& a, const AMatrix& b)
{
  if (a.getNRows() != b.getNRows() || a.getNCols() != b.getNCols())
    return c.check(oracle, key, false, 1, 0,
                   fmt("%s: shape masked-run=%dx%d reduced-run=%dx%d", what.c_str(), a.getNRows(), a.getNCols(), b.getNRows(), b.getNCols()));
  double worst = 0;
  std::string w;
  for (int i = 0; i < a.getNRows(); i++)
    for (int j = 0; j < a.getNCols(); j++)
    {
      double va = a.getValue(i, j), vb = b.getValue(i, j);
      if (sameBits(va, vb)) continue;
      double e = (FFFF(va) || FFFF(vb)) ? ((FFFF(va) && FFFF(vb)) ? 0 : INFINITY) : std::fabs(va - vb);
      if (e > worst) { worst = e; w = fmt("%s(%d,%d) masked-run=%.17g reduced-run=%.17g", what.c_str(), i, j, va, vb); }
    }
  return c.check(oracle, key, worst == 0, worst, 0, w);
}

// ===================================================================================================
// experimental variograms
// ===================================================================================================
static void opVario(Rng& r, Ctx& c)
{
  GenOpt o;
  o.nmax    = c.thorough() ? 120 : 40;
  o.nvarMax = c.thorough() ? 3 : 2;
  o.pWeight = 0.3;
  Samples s = genSamples(r, o);
  defineDefaultSpace(ESpaceType::RN, s.ndim);
  static const std::vector<ECalcVario> calcs = {ECalcVario::VARIOGRAM, ECalcVario::COVARIANCE, ECalcVario::COVARIOGRAM,
                                                ECalcVario::MADOGRAM, ECalcVario::RODOGRAM, ECalcVario::POISSON,
                                                ECalcVario::COVARIANCE_NC, ECalcVario::ORDER4, ECalcVario::TRANS1,
                                                ECalcVario::TRANS2, ECalcVario::BINORMAL};
  ECalcVario calc = r.coin(0.35) ? ECalcVario::VARIOGRAM : r.pick(calcs);
  int npas     = r.irange(3, 8);
  double dpas  = r.uni(8, 25);
  double toldis = r.pick(std::vector<double> {0.5, 0.3, 0.45});
  int dirKind  = s.ndim == 1 ? 0 : r.irange(0, 2); // 0 omni, 1 multiple regular directions, 2 one direction per axis
  std::unique_ptr<VarioParam> vp;
  if (dirKind == 0) vp.reset(VarioParam::createOmniDirection(npas, dpas, toldis));
  else if (dirKind == 1 && s.ndim == 2) vp.reset(VarioParam::createMultiple(r.irange(2, 4), npas, dpas, toldis, r.uni(0, 90)));
  else { dirKind = 2; vp.reset(VarioParam::createFromSpaceDimension(npas, dpas, toldis, r.uni(20, 60))); }
  bool flagSample = r.coin(0.15);
  // The by-sample algorithm (flag_sample, and always for COVARIOGRAM: Vario::_calculateGeneralSolution2) accumulates
  // through the file-static IDIRLOC of Vario.cpp which it never sets: its result depends on the variogram computed
  // before in the same process (and it aborts when that one had more directions) - a C10 matter, reported.  To still
  // monitor that path for C05 the generator restricts it to ONE direction and primes IDIRLOC=0 before each run.
  bool bySample = flagSample || calc == ECalcVario::COVARIOGRAM;
  if (bySample && dirKind != 0) { dirKind = 0; vp.reset(VarioParam::createOmniDirection(npas, dpas, toldis)); }
  auto prime = [&]() {
    if (!bySample) return;
    std::vector<std::vector<double>> px(s.ndim, std::vector<double> {0., 0.}), pz(1, std::vector<double> {0., 1.});
    px[0][1] = 1.; // one pair at distance 1 = first lag
    auto pdb = mkDb(2, px, pz, nullptr);
    std::unique_ptr<VarioParam> pvp(VarioParam::createOmniDirection(2, 1., 0.5));
    std::unique_ptr<Vario> pv(Vario::create(*pvp));
    pv->compute(pdb.get(), ECalcVario::VARIOGRAM);
  };
  std::string cn(calc.getKey());
  c.setSig(fmt("vario:%s:dir=%d:ndim=%d:nvar=%d:%s:w=%d:fs=%d", cn.c_str(), dirKind, s.ndim, s.nvar, s.sigtag().c_str(), (int)!s.w.empty(), (int)flagSample));
  c.puts("op", "Vario::compute");
  c.puts("calcul", cn);
  c.put("n_kept", fmt("[%d,%d]", s.n, s.nkept()));
  auto dM = mkMasked(r, s);
  auto dR = mkReduced(s);
  std::string K = "C05:vario:" + (bySample ? std::string("by-sample") : cn) + ":" + s.tag();
  int ncM = dM->getColumnNumber();
  std::vector<double> snap = snapshot(dM.get(), ncM);
  std::unique_ptr<Vario> vM(Vario::create(*vp)), vR(Vario::create(*vp));
  TRACE(c, "vario %s %s n=%d kept=%d -> masked run", cn.c_str(), s.sigtag().c_str(), s.n, s.nkept());
  prime();
  int errM = vM->compute(dM.get(), calc, flagSample);
  if (s.nkept() == 0)
  {
    // nothing left: either refused, or no pair anywhere
    bool ok = true;
    std::string w;
    if (errM == 0)
      for (int id = 0; id < vM->getDirectionNumber() && ok; id++)
        for (int iv = 0; iv < s.nvar && ok; iv++)
          for (int jv = 0; jv <= iv && ok; jv++)
          {
            VectorDouble sw = vM->getSwVec(id, iv, jv, false);
            for (size_t k = 0; k < sw.size(); k++)
              if (!FFFF(sw[k]) && sw[k] != 0) { ok = false; w = fmt("dir %d (%d,%d) lag-slot %zu: sw=%g", id, iv, jv, k, sw[k]); break; }
          }
    c.truth("vario:nothing-left", "C05:vario:no-active-data:pairs-found", ok, fmt("rc=%d ", errM) + w);
  }
  else
  {
    TRACE(c, "-> reduced run");
    prime();
    int errR = vR->compute(dR.get(), calc, flagSample);
    c.truth("vario:rc", K + ":return-code", (errM == 0) == (errR == 0), fmt("masked run rc=%d reduced run rc=%d (kept=%d)", errM, errR, s.nkept()));
    if (errM == 0 && errR == 0)
    {
      // global statistics stored with the variogram (one key: they come from one routine, Vario::_getStatistics)
      cmpVecExact(c, "vario:means", "C05:vario:getMeans:differs", "means", vM->getMeans(), vR->getMeans());
      cmpVecExact(c, "vario:vars", K + ":vars-differ", "vars", vM->getVars(), vR->getVars());
      c.truth("vario:shape", K + ":shape", vM->getDirectionNumber() == vR->getDirectionNumber() && vM->getVariableNumber() == vR->getVariableNumber());
      // POISSON subtracts getMean(ivar)/2 per pair: it inherits any error of the means
      std::string Kg = calc == ECalcVario::POISSON ? "C05:vario:POISSON:uses-getMeans:differs" : K + ":differs";
      for (int id = 0; id < vM->getDirectionNumber(); id++)
        for (int iv = 0; iv < s.nvar; iv++)
          for (int jv = 0; jv <= iv; jv++)
          {
            std::string w = fmt("dir%d(%d,%d)", id, iv, jv);
            cmpVecExact(c, "vario:sw", K + ":differs", "sw:" + w, vM->getSwVec(id, iv, jv, false), vR->getSwVec(id, iv, jv, false));
            cmpVecExact(c, "vario:hh", K + ":differs", "hh:" + w, vM->getHhVec(id, iv, jv, false), vR->getHhVec(id, iv, jv, false));
            cmpVecExact(c, "vario:gg", Kg, "gg:" + w, vM->getGgVec(id, iv, jv, false, false, false), vR->getGgVec(id, iv, jv, false, false, false));
          }
    }
  }
  c.truth("vario:data-untouched", "C05:vario:data-columns-modified", dM->getColumnNumber() == ncM && sameSnapshot(snap, snapshot(dM.get(), ncM)), "Db changed");
}

// ===================================================================================================
// statistics: dbStatisticsMono / Multi / Correl, dbVarianceMatrix
// ===================================================================================================
static void opStats(Rng& r, Ctx& c)
{
  GenOpt o;
  o.nmax        = c.thorough() ? 200 : 50;
  o.nvarMax     = 3;
  o.allowUcoord = false; // statistics on values have no spatial meaning: undefined coordinates are not "dropped" here
  o.pWeight     = 0.3;
  Samples s = genSamples(r, o);
  defineDefaultSpace(ESpaceType::RN, s.ndim);
  // integer-like values now and then (ZERO / PLUS / MOINS counts, ties in quantiles)
  bool ints = r.coin(0.3);
  if (ints)
    for (auto& col : s.z)
      for (auto& v : col)
        if (!FFFF(v)) v = std::round(v);
  int which = r.irange(0, 3);
  static const char* WN[] = {"dbStatisticsMono", "dbStatisticsMulti", "dbStatisticsCorrel", "dbVarianceMatrix"};
  c.setSig(fmt("stats:%s:nvar=%d:%s:w=%d:int=%d", WN[which], s.nvar, s.sigtag().c_str(), (int)!s.w.empty(), (int)ints));
  c.puts("op", WN[which]);
  c.put("n_kept", fmt("[%d,%d]", s.n, s.nkept()));
  auto dM = mkMasked(r, s);
  auto dR = mkReduced(s);
  VectorString names = varNames(s.nvar);
  std::string K = std::string("C05:stats:") + WN[which] + ":" + s.tag();
  int ncM = dM->getColumnNumber();
  std::vector<double> snap = snapshot(dM.get(), ncM);
  bool empty = s.nkept() == 0;
  auto allUndefOrZero = [&](const AMatrix& m, bool zeroOk, std::string& w) {
    for (int i = 0; i < m.getNRows(); i++)
      for (int j = 0; j < m.getNCols(); j++)
      {
        double v = m.getValue(i, j);
        if (FFFF(v) || (zeroOk && v == 0)) continue;
        w = fmt("(%d,%d)=%.17g", i, j, v);
        return false;
      }
    return true;
  };
  TRACE(c, "stats %s %s n=%d kept=%d", WN[which], s.sigtag().c_str(), s.n, s.nkept());
  if (which == 0)
  {
    std::vector<EStatOption> opers = {EStatOption::NUM, EStatOption::MEAN, EStatOption::VAR, EStatOption::STDV, EStatOption::MINI,
                                      EStatOption::MAXI, EStatOption::SUM, EStatOption::PROP, EStatOption::QUANT, EStatOption::T,
                                      EStatOption::Q, EStatOption::M, EStatOption::MEDIAN};
    bool flagIso = r.coin();
    double proba = r.uni(0.05, 0.95);
    K += flagIso ? ":iso" : ":noiso";
    Table tM = dbStatisticsMono(dM.get(), names, opers, flagIso, proba);
    if (empty)
    {
      std::string w;
      c.truth("stats:nothing-left", std::string("C05:stats:") + WN[which] + ":no-active-data:value-produced", allUndefOrZero(tM, true, w), w);
    }
    else
    {
      Table tR = dbStatisticsMono(dR.get(), names, opers, flagIso, proba);
      cmpMatExact(c, "stats:mono", K + ":differs", "table", tM, tR);
    }
  }
  else if (which == 1)
  {
    static const std::vector<EStatOption> ops = {EStatOption::NUM, EStatOption::MEAN, EStatOption::VAR, EStatOption::CORR, EStatOption::STDV,
                                                 EStatOption::MINI, EStatOption::MAXI, EStatOption::PLUS, EStatOption::MOINS, EStatOption::ZERO};
    EStatOption op = r.pick(ops);
    bool flagMono  = r.coin();
    K += ":" + std::string(op.getKey()) + (flagMono ? ":mono" : ":pairs");
    Table tM = dbStatisticsMulti(dM.get(), names, op, flagMono);
    if (empty)
    {
      std::string w;
      c.truth("stats:nothing-left", std::string("C05:stats:") + WN[which] + ":no-active-data:value-produced", allUndefOrZero(tM, true, w), w);
    }
    else
    {
      Table tR = dbStatisticsMulti(dR.get(), names, op, flagMono);
      cmpMatExact(c, "stats:multi", K + ":differs", "table", tM, tR);
    }
  }
  else if (which == 2)
  {
    bool flagIso = r.coin();
    K += flagIso ? ":iso" : ":noiso";
    Table tM = dbStatisticsCorrel(dM.get(), names, flagIso);
    if (empty)
    {
      std::string w;
      c.truth("stats:nothing-left", std::string("C05:stats:") + WN[which] + ":no-active-data:value-produced", allUndefOrZero(tM, true, w), w);
    }
    else
    {
      Table tR = dbStatisticsCorrel(dR.get(), names, flagIso);
      cmpMatExact(c, "stats:correl", K + ":differs", "table", tM, tR);
    }
  }
  else
  {
    MatrixSquareSymmetric mM = dbVarianceMatrix(dM.get());
    if (empty)
    {
      std::string w;
      c.truth("stats:nothing-left", std::string("C05:stats:") + WN[which] + ":no-active-data:value-produced", allUndefOrZero(mM, true, w), w);
    }
    else
    {
      MatrixSquareSymmetric mR = dbVarianceMatrix(dR.get());
      cmpMatExact(c, "stats:varmat", K + ":differs", "matrix", mM, mR);
    }
  }
  c.truth("stats:data-untouched", "C05:stats:data-columns-modified", dM->getColumnNumber() == ncM && sameSnapshot(snap, snapshot(dM.get(), ncM)), "Db changed");
}

// ===================================================================================================
// covariance and drift matrices (selection convention, quoted from ACov.cpp / DriftList.cpp:
//   "Takes into account selection and heterotopy … The returned matrix if dimension to nrows * ncols where each
//    term is the product of the number of active samples by the number of samples where the variable is defined";
//   rows are ordered variable by variable, samples in increasing rank => the matrix of the masked Db must be the
//   matrix of the reduced Db, cell for cell.  'nbgh' = "Vector of indices of active samples in db (optional)")
// ===================================================================================================
static void opCovMat(Rng& r, Ctx& c)
{
  GenOpt o;
  o.nmax = c.thorough() ? 80 : 30;
  Samples s = genSamples(r, o);
  defineDefaultSpace(ESpaceType::RN, s.ndim);
  ModelSpec ms;
  int drift  = r.irange(0, 2);
  auto model = genModel(r, s.ndim, s.nvar, drift, ms);
  static const char* WN[] = {"evalCovMatrix", "evalCovMatrixSymmetric", "evalCovMatrixOptim", "evalCovMatrixSymmetricOptim",
                             "evalCovMatrixSparse", "evalDriftMatrix"};
  int which = r.irange(0, 5);
  Targets t = genTargets(r, s, 3, 12);
  bool twoDb = r.coin() && (which == 0 || which == 2 || which == 4);
  int ivar0 = r.coin(0.6) ? -1 : r.irange(0, s.nvar - 1), jvar0 = r.coin(0.6) ? -1 : r.irange(0, s.nvar - 1);
  // ACov::evalCovMatrixSparse fills its nvar1 x nvar2 sill matrix with the absolute variable ranks: any ivar0 >= 1
  // aborts (out-of-range setValue) whatever the selection - not a C05 matter, reported; keep to ranks -1 / 0 there
  if (which == 4) { if (ivar0 > 0) ivar0 = 0; if (jvar0 > 0) jvar0 = 0; }
  // optional explicit list of ranks (may contain dropped samples: they must be filtered out)
  bool useNbgh = r.coin(0.3);
  VectorInt nbM, nbR;
  if (useNbgh)
  {
    std::vector<int> pos(s.n, -1);
    for (int k = 0; k < s.nkept(); k++) pos[s.kept[k]] = k;
    for (int i = 0; i < s.n; i++)
      if (r.coin(0.6)) { nbM.push_back(i); if (pos[i] >= 0) nbR.push_back(pos[i]); }
    if (nbM.empty() || nbR.empty()) { useNbgh = false; nbM.clear(); nbR.clear(); }
  }
  c.setSig(fmt("covmat:%s:two=%d:ndim=%d:nvar=%d:%s:tsel=%s:iv=%d:jv=%d:nbgh=%d:drift=%d", WN[which], (int)twoDb, s.ndim, s.nvar, s.sigtag().c_str(),
               twoDb ? SELN[t.selMode] : "-", ivar0 < 0 ? -1 : 0, jvar0 < 0 ? -1 : 0, (int)useNbgh, drift));
  c.puts("op", WN[which]);
  c.puts("model", ms.desc);
  c.put("n_kept", fmt("[%d,%d]", s.n, s.nkept()));
  auto dM = mkMasked(r, s);
  auto dR = mkReduced(s);
  auto tM = mkTargetsMasked(t);
  auto tR = mkTargetsReduced(t);
  std::string K = std::string("C05:") + WN[which] + ":" + s.tag() + (twoDb ? ":two-db" : "") + (useNbgh ? ":nbgh" : "");
  bool nothing = s.nkept() == 0 || (twoDb && t.active.empty());
  Db* d2M = twoDb ? tM.get() : nullptr;
  Db* d2R = twoDb ? tR.get() : nullptr;
  TRACE(c, "covmat %s %s n=%d kept=%d two=%d active targets=%zu nbgh=%d", WN[which], s.sigtag().c_str(), s.n, s.nkept(), (int)twoDb, t.active.size(), (int)useNbgh);
  // a fresh copy of the model for each call (the optimised builders keep per-model state)
  std::unique_ptr<Model> mA(model->duplicate()), mB(model->duplicate());
  std::unique_ptr<AMatrix> a, b;
  switch (which)
  {
    case 0:
      a.reset(new MatrixRectangular(mA->evalCovMatrix(dM.get(), d2M, ivar0, jvar0, nbM)));
      if (!nothing) b.reset(new MatrixRectangular(mB->evalCovMatrix(dR.get(), d2R, ivar0, jvar0, nbR)));
      break;
    case 1:
      a.reset(new MatrixSquareSymmetric(mA->evalCovMatrixSymmetric(dM.get(), ivar0, nbM)));
      if (!nothing) b.reset(new MatrixSquareSymmetric(mB->evalCovMatrixSymmetric(dR.get(), ivar0, nbR)));
      break;
    case 2:
      a.reset(new MatrixRectangular(mA->evalCovMatrixOptim(dM.get(), d2M, ivar0, jvar0, nbM)));
      if (!nothing) b.reset(new MatrixRectangular(mB->evalCovMatrixOptim(dR.get(), d2R, ivar0, jvar0, nbR)));
      break;
    case 3:
      a.reset(new MatrixSquareSymmetric(mA->evalCovMatrixSymmetricOptim(dM.get(), ivar0, nbM)));
      if (!nothing) b.reset(new MatrixSquareSymmetric(mB->evalCovMatrixSymmetricOptim(dR.get(), ivar0, nbR)));
      break;
    case 4:
      a.reset(mA->evalCovMatrixSparse(dM.get(), d2M, ivar0, jvar0, nbM));
      if (!nothing) b.reset(mB->evalCovMatrixSparse(dR.get(), d2R, ivar0, jvar0, nbR));
      break;
    case 5:
      a.reset(new MatrixRectangular(mA->evalDriftMatrix(dM.get(), ivar0, nbM)));
      if (!nothing) b.reset(new MatrixRectangular(mB->evalDriftMatrix(dR.get(), ivar0, nbR)));
      break;
  }
  if (nothing)
  {
    // (the sparse builder returns a 1x1 matrix holding 0 for an empty triplet list: no value either)
    bool ok = !a || a->getNRows() == 0 || a->getNCols() == 0 || (a->getNRows() == 1 && a->getNCols() == 1 && a->getValue(0, 0) == 0.);
    c.truth("covmat:nothing-left", std::string("C05:") + WN[which] + ":no-active-sample:matrix-produced", ok,
            a ? fmt("matrix %dx%d", a->getNRows(), a->getNCols()) : "");
    return;
  }
  if (!a || !b)
  {
    c.truth("covmat:null", K + ":null-result", (!a) == (!b), fmt("masked-run %s reduced-run %s", a ? "matrix" : "null", b ? "matrix" : "null"));
    return;
  }
  cmpMatExact(c, "covmat:equal", K + ":differs", WN[which], *a, *b);
}


// ===================================================================================================
// turning bands: conditional simulation (same seed), masked data and masked targets; also non-conditional
// with masked targets.  nbtuba is drawn small so that the point count enters the Poisson intensity of the bands
// (CalcSimuTurningBands::_setDensity: naverage = npoints / nbtuba, floor 5).
// ===================================================================================================
static void opSimtub(Rng& r, Ctx& c)
{
  GenOpt o;
  o.nmax    = c.thorough() ? 70 : 30;
  o.nvarMax = 2;
  Samples s = genSamples(r, o);
  defineDefaultSpace(ESpaceType::RN, s.ndim);
  bool cond  = r.coin(0.75);
  int drift  = r.irange(-1, 0);
  ModelSpec ms;
  auto model = genModel(r, s.ndim, s.nvar, drift, ms);
  NeighSpec ns = genNeigh(r, s.ndim, r.coin(0.6));
  std::string nd = ns.desc;
  Targets t  = genTargets(r, s, 4, c.thorough() ? 40 : 16);
  int nbsimu = r.irange(1, 3);
  int nbtuba = r.pick(std::vector<int> {1, 2, 3, 5, 10, 30, 100});
  int seed   = r.irange(1, 1000000);
  std::string kind = cond ? "simtub-cond" : "simtub-nc";
  if (!cond) nd = "none";
  c.setSig(fmt("%s:%s:ndim=%d:nvar=%d:%s:tsel=%s:drift=%d:nbtuba=%d", kind.c_str(), nd.c_str(), s.ndim, s.nvar, cond ? s.sigtag().c_str() : "-",
               SELN[t.selMode], drift, nbtuba));
  c.puts("op", kind);
  c.puts("neigh", nd);
  c.puts("model", ms.desc);
  c.put("n_kept_targets", fmt("[%d,%d,%d,%d]", s.n, s.nkept(), t.m, (int)t.active.size()));
  auto dinM = mkMasked(r, s);
  auto dinR = mkReduced(s);
  auto doutM = mkTargetsMasked(t);
  auto doutR = mkTargetsReduced(t);
  std::string K = "C05:" + kind + ":" + nd + ":" + (cond ? s.tag() : std::string("by=none")) + (t.selMode == SEL_NONE || t.selMode == SEL_FULL ? "" : ":tsel");
  int ncM = doutM->getColumnNumber(), ncR = doutR->getColumnNumber(), ncDin = dinM->getColumnNumber();
  std::vector<double> snapOut = snapshot(doutM.get(), ncM), snapIn = snapshot(dinM.get(), ncDin);
  auto neigh = mkNeigh(ns, false), neighR = mkNeigh(ns, false);
  bool nothing = (cond && s.nkept() == 0) || t.active.empty();
  TRACE(c, "%s %s n=%d kept=%d targets=%d active=%zu nbtuba=%d -> masked run", kind.c_str(), s.sigtag().c_str(), s.n, s.nkept(), t.m, t.active.size(), nbtuba);
  int errM = simtub(cond ? dinM.get() : nullptr, doutM.get(), model.get(), cond ? neigh.get() : nullptr, nbsimu, seed, nbtuba);
  std::vector<int> off;
  for (int j = 0; j < t.m; j++) if (t.masked[j]) off.push_back(j);
  if (nothing)
  {
    if (t.active.empty())
    {
      std::string w;
      bool ok = allNewUndefined(doutM.get(), ncM, w);
      c.truth("simtub:nothing-left", "C05:" + kind + ":no-active-target:value-produced", ok, fmt("rc=%d ", errM) + w);
    }
    else
      c.probe("simtub:no-active-data"); // conditional simulation without any active datum: no reference to compare with
  }
  else
  {
    TRACE(c, "-> reduced run");
    int errR = simtub(cond ? dinR.get() : nullptr, doutR.get(), model.get(), cond ? neighR.get() : nullptr, nbsimu, seed, nbtuba);
    c.truth("simtub:rc", K + ":return-code", (errM == 0) == (errR == 0), fmt("masked run rc=%d reduced run rc=%d (kept=%d active targets=%zu)", errM, errR, s.nkept(), t.active.size()));
    if (errM == 0 && errR == 0)
      cmpOutputs(c, "simtub", K, doutM.get(), ncM, t.active, off, doutR.get(), ncR, true, 0, 0);
  }
  c.truth("simtub:target-untouched", "C05:" + kind + ":target-columns-modified", sameSnapshot(snapOut, snapshot(doutM.get(), ncM)), "pre-existing columns of the target Db changed");
  if (cond)
    c.truth("simtub:data-untouched", "C05:" + kind + ":data-columns-modified",
            dinM->getColumnNumber() == ncDin && sameSnapshot(snapIn, snapshot(dinM.get(), ncDin)),
            fmt("data Db changed (columns %d -> %d)", ncDin, dinM->getColumnNumber()));
}

// ===================================================================================================
// migrate (point -> point): the value of the closest ACTIVE sample.
// Undefined-value samples are not generated here: whether "the closest sample carries an undefined value" must
// yield TEST or the next defined sample is not documented (convention not settled, see report).
// ===================================================================================================
static void opMigrate(Rng& r, Ctx& c)
{
  GenOpt o;
  o.nmax    = c.thorough() ? 150 : 40;
  o.nvarMax = 2;
  Samples s;
  for (int att = 0;; att++)
  {
    s = genSamples(r, o);
    // (no heterotopy either: same convention question)
    if ((s.by == BY_NONE || s.by == BY_SEL || s.by == BY_UCOORD) && !s.hetero) break;
  }
  defineDefaultSpace(ESpaceType::RN, s.ndim);
  Targets t = genTargets(r, s, 4, c.thorough() ? 60 : 20);
  int distType = r.irange(1, 2);
  VectorDouble dmax;
  if (r.coin(0.5)) { dmax.resize(s.ndim); for (auto& d : dmax) d = r.uni(10, 60); }
  bool ball = r.coin(0.4);
  bool multi = s.nvar > 1 && r.coin(0.5);
  std::string var = ball ? "ball" : "plain";
  c.setSig(fmt("migrate:%s:ndim=%d:nvar=%d:%s:tsel=%s:dist=%d:dmax=%d:multi=%d", var.c_str(), s.ndim, s.nvar, s.sigtag().c_str(), SELN[t.selMode], distType,
               (int)!dmax.empty(), (int)multi));
  c.puts("op", "migrate");
  c.puts("variant", var);
  c.put("n_kept_targets", fmt("[%d,%d,%d,%d]", s.n, s.nkept(), t.m, (int)t.active.size()));
  auto dinM = mkMasked(r, s);
  auto dinR = mkReduced(s);
  auto doutM = mkTargetsMasked(t);
  auto doutR = mkTargetsReduced(t);
  std::string K = "C05:migrate:" + var + ":" + s.tag() + (t.selMode == SEL_NONE || t.selMode == SEL_FULL ? "" : ":tsel");
  int ncM = doutM->getColumnNumber(), ncR = doutR->getColumnNumber(), ncDin = dinM->getColumnNumber();
  std::vector<double> snapOut = snapshot(doutM.get(), ncM), snapIn = snapshot(dinM.get(), ncDin);
  bool nothing = s.nkept() == 0 || t.active.empty();
  TRACE(c, "migrate %s %s n=%d kept=%d targets=%d active=%zu -> masked run", var.c_str(), s.sigtag().c_str(), s.n, s.nkept(), t.m, t.active.size());
  auto run = [&](Db* din, Db* dout) {
    if (multi) return migrateMulti(din, dout, varNames(s.nvar), distType, dmax, false, false, ball);
    return migrate(din, dout, "z1", distType, dmax, false, false, ball);
  };
  int errM = run(dinM.get(), doutM.get());
  std::vector<int> off;
  for (int j = 0; j < t.m; j++) if (t.masked[j]) off.push_back(j);
  if (nothing)
  {
    std::string w;
    bool ok = allNewUndefined(doutM.get(), ncM, w);
    c.truth("migrate:nothing-left", "C05:migrate:" + var + (s.nkept() == 0 ? ":no-active-data" : ":no-active-target") + ":value-produced", ok, fmt("rc=%d ", errM) + w);
  }
  else
  {
    TRACE(c, "-> reduced run");
    int errR = run(dinR.get(), doutR.get());
    c.truth("migrate:rc", K + ":return-code", (errM == 0) == (errR == 0), fmt("masked run rc=%d reduced run rc=%d", errM, errR));
    if (errM == 0 && errR == 0)
      cmpOutputs(c, "migrate", K, doutM.get(), ncM, t.active, off, doutR.get(), ncR, true, 0, 0);
  }
  c.truth("migrate:target-untouched", "C05:migrate:target-columns-modified", sameSnapshot(snapOut, snapshot(doutM.get(), ncM)), "pre-existing columns of the target Db changed");
  c.truth("migrate:data-untouched", "C05:migrate:data-columns-modified", dinM->getColumnNumber() == ncDin && sameSnapshot(snapIn, snapshot(dinM.get(), ncDin)), "data Db changed");
}

// ===================================================================================================
struct OpDef
{
  const char* name;
  void (*fn)(Rng&, Ctx&);
  int weight;
};
static const OpDef OPS[] = {
  {"kriging", opKriging, 4},
  {"xvalid", opXvalid, 3},
  {"vario", opVario, 3},
  {"stats", opStats, 2},
  {"covmat", opCovMat, 3},
  {"simtub", opSimtub, 3},
  {"migrate", opMigrate, 2},
};

static void run_case(Rng& r, Ctx& c)
{
  OptDbg::reset();
  int tot = 0;
  for (auto& o : OPS) tot += o.weight;
  int k = r.irange(0, tot - 1);
  for (auto& o : OPS)
  {
    if (k < o.weight) { o.fn(r, c); return; }
    k -= o.weight;
  }
}

int main(int argc, char** argv) { return run_main(argc, argv, "C05", run_case); }
