// C05 — masked or undefined samples never influence a result.
//
// Metamorphic monitor.  For each case: a sample set with dropped samples (switched off by the selection, all values
// undefined, one coordinate undefined, ...), from which two Dbs are built by the harness:
//   masked  = every sample present, dropped ones masked / undefined and POISONED (values 1e15, far-away coordinates)
//   reduced = only the kept rows (Db::createFromSamples on the kept rows; no library helper involved)
// One operation is run on both; every output is compared, BIT FOR BIT, through the kept-sample index map.
// Operation list (printed in the evidence `rule`, lib/checks_d/c05.py): see OPS[] at the end of this file.
//
// Generator restrictions that steer around library defects FOREIGN to C05 (each is explained where it is applied
// and listed in the author report): xvalid / simtub keep undefined-value samples inside the field; sparse covariance
// builder restricted to variable ranks -1 / 0; conditional simulations go to a grid; no vmin/vmax in dbStatisticsMono.
// Generator switches for input classes hit by C05 defects: AVOID_* in common/c05_gen.hpp (all off by default).
#include "common/vh.hpp"
#include "common/c05_gen.hpp"

#include "Basic/OptDbg.hpp"
#include "Basic/Utilities.hpp"
#include "Basic/NamingConvention.hpp"
#include "Covariances/CovAniso.hpp"
#include "Db/Db.hpp"
#include "Db/DbGrid.hpp"
#include "Enum/ECov.hpp"
#include "Enum/ESpaceType.hpp"
#include "Estimation/CalcKriging.hpp"
#include "Model/Model.hpp"
#include "Matrix/MatrixRectangular.hpp"
#include "Matrix/MatrixSquareSymmetric.hpp"
#include "Matrix/MatrixSparse.hpp"
#include "Matrix/Table.hpp"
#include "Stats/Classical.hpp"
#include "Enum/EStatOption.hpp"
#include "Enum/ECalcVario.hpp"
#include "Enum/ECalcMember.hpp"
#include "Variogram/Vario.hpp"
#include "Simulation/CalcSimuTurningBands.hpp"
#include "Calculators/CalcMigrate.hpp"
#include "Anamorphosis/AnamHermite.hpp"
#include "Stats/PCA.hpp"
#include "Polygon/Polygons.hpp"
#include "Polygon/PolyElem.hpp"
#include "Variogram/VMap.hpp"
#include "Variogram/VCloud.hpp"
#include "Variogram/VarioParam.hpp"
#include "Variogram/DirParam.hpp"
#include "Neigh/NeighMoving.hpp"
#include "Neigh/NeighUnique.hpp"
#include "Space/ASpaceObject.hpp"

using namespace vh;
using namespace c05;

#define TRACE(c, ...) do { if ((c).verbose) { fprintf(stderr, "TRACE " __VA_ARGS__); fputc('\n', stderr); } } while (0)

// Violation key of a case.  Some input classes are hit by defects that make MANY oracles of an operation fail for one
// and the same reason; for them the key is collapsed to one per operation so that it can be listed once:
//   * samples with an undefined coordinate  -> C05:<op>:undefined-coordinate
//   * selection whose "off" value is the undefined value     -> C05:<op>:selection-value-undefined
//   * samples whose external drift is undefined              -> C05:<op>:external-drift-undefined
//   * moving neighbourhood / migration using the ball-tree search -> C05:<op>:ball-search
// Otherwise the key is C05:<op>[:<variant>]:by=<drop mechanism><:what failed>.
struct Key
{
  std::string base;
  bool collapsed = false;
  std::string operator+(const std::string& sfx) const { return collapsed ? base : base + sfx; }
  std::string operator+(const char* sfx) const { return collapsed ? base : base + sfx; }
  Key& operator+=(const std::string& sfx) { if (!collapsed) base += sfx; return *this; }
  // key for the "nothing is left after removal" oracles (not tied to a drop mechanism)
  std::string nothing(const std::string& plain) const { return collapsed ? base : plain; }
};
// The extents of a Db (getExtension*(useSel = true), CalcSimuTurningBands::_minmax) are taken over the ACTIVE samples
// whatever their values: a sample whose variables are all undefined still stretches them.  Features fed by such an
// extent get one key per operation when the dropped samples are of that kind (by=uval / by=mixed).
static bool hasUndefValueSamples(const Samples& s) { return s.by == BY_UVAL || s.by == BY_MIXED; }
static Key extentKey(const std::string& op, const std::string& feature)
{
  return Key {"C05:" + op + ":" + feature + ":extent-over-undefined-value-samples", true};
}
static Key mkKey(const std::string& op, const std::string& variant, const Samples& s, bool ball = false, const std::string& family = "")
{
  if (ball) return Key {"C05:" + op + ":ball-search", true};
  if (s.by == BY_UCOORD) return Key {"C05:" + (family.empty() ? op : family) + ":undefined-coordinate", true};
  if (s.by == BY_SELNA) return Key {"C05:" + (family.empty() ? op : family) + ":selection-value-undefined", true};
  if (s.ufext) return Key {"C05:" + (family.empty() ? op : family) + ":external-drift-undefined", true};
  return Key {"C05:" + op + (variant.empty() ? "" : ":" + variant) + ":" + s.tag(), false};
}

// all cells of the columns created since 'ncol0' are undefined (rows: all)
static bool allNewUndefined(const Db* db, int ncol0, std::string& where)
{
  for (int ic = ncol0; ic < db->getColumnNumber(); ic++)
  {
    VectorDouble col = db->getColumnByColIdx(ic, false, false);
    for (int i = 0; i < (int)col.size(); i++)
      if (!FFFF(col[i])) { where = fmt("%s[row %d]=%.17g", db->getNameByColIdx(ic).c_str(), i, col[i]); return false; }
  }
  return true;
}

// ---------------------------------------------------------------------------------------------------
// model generator
// ---------------------------------------------------------------------------------------------------
struct ModelSpec
{
  int drift = 0; // -1 known mean (simple kriging), 0 ordinary, 1 linear drift
  std::string desc;
  double totalSill = 0;
};

static std::unique_ptr<Model> genModel(Rng& r, int ndim, int nvar, int drift, ModelSpec& ms, bool nuggetOk = true, bool noMatern = false)
{
  const std::vector<ECov> types = noMatern ? std::vector<ECov> {ECov::SPHERICAL, ECov::EXPONENTIAL, ECov::CUBIC}
                                           : std::vector<ECov> {ECov::SPHERICAL, ECov::EXPONENTIAL, ECov::CUBIC, ECov::MATERN};
  auto sillMat = [&](double scale) {
    VectorDouble s(nvar * nvar, 0.);
    std::vector<std::vector<double>> a(nvar, std::vector<double>(nvar));
    for (auto& row : a) for (auto& v : row) v = r.uni(-1, 1);
    for (int i = 0; i < nvar; i++)
      for (int j = 0; j < nvar; j++)
      {
        double t = 0;
        for (int k = 0; k < nvar; k++) t += a[i][k] * a[j][k];
        s[i * nvar + j] = scale * (t + (i == j ? 0.5 : 0.));
      }
    return s;
  };
  int nst = r.irange(1, 2);
  std::unique_ptr<Model> model;
  ms.desc.clear();
  ms.totalSill = 0;
  for (int is = 0; is < nst; is++)
  {
    ECov t       = r.pick(types);
    double param = t == ECov::MATERN ? r.uni(0.5, 2.) : 1.;
    VectorDouble ranges(ndim), angles(ndim, 0.);
    double base = r.uni(20, 90);
    for (int d = 0; d < ndim; d++) ranges[d] = base * (d == 0 ? 1. : r.uni(0.3, 1.));
    if (ndim >= 2) angles[0] = r.uni(0, 180);
    if (ndim == 3) { angles[1] = r.uni(-40, 40); angles[2] = r.uni(-40, 40); }
    VectorDouble sills = sillMat(r.uni(0.5, 3.));
    if (!model)
      model.reset(Model::createFromParam(t, 1., 1., param, ranges, sills, angles, nullptr, true));
    else
      model->addCovFromParam(t, 1., 1., param, ranges, sills, angles, true);
    ms.desc += std::string(t.getKey()) + "+";
    ms.totalSill += sills[0];
  }
  if (nuggetOk && r.coin(0.5))
  {
    VectorDouble sills = sillMat(r.uni(0.05, 0.5));
    model->addCovFromParam(ECov::NUGGET, 0., 1., 1., VectorDouble(), sills, VectorDouble(), true);
    ms.desc += "NUGGET+";
    ms.totalSill += sills[0];
  }
  ms.drift = drift;
  if (drift >= 0) model->setDriftIRF(drift, 0);
  else
  {
    VectorDouble means(nvar);
    for (auto& m : means) m = r.uni(-2, 2);
    model->setMeans(means);
  }
  ms.desc += fmt("drift=%d", drift);
  return model;
}

// intrinsic model: one linear variogram (needs at least the universality condition).  The covariance used for it is
// "field - h" where the field is set by every interpolator from the extension of its Dbs
// (ACalcInterpolator::_check / KrigingSystem::isReady: getExtensionInPlace(mini, maxi, true) i.e. useSel = false)
static std::unique_ptr<Model> genLinearModel(Rng& r, int nvar, ModelSpec& ms)
{
  VectorDouble sills(nvar * nvar, 0.);
  for (int v = 0; v < nvar; v++) sills[v * nvar + v] = r.uni(0.5, 2.);
  std::unique_ptr<Model> model(Model::createFromParam(ECov::LINEAR, r.uni(20, 60), 1., 1., VectorDouble(), sills, VectorDouble(), nullptr, true));
  model->setDriftIRF(0, 0);
  ms.desc  = "LINEAR+drift=0";
  ms.drift = 0;
  return model;
}

// targets: random points, some coincident with data locations (kept and dropped ones), optional target selection
struct Targets
{
  int m = 0;
  std::vector<std::vector<double>> x;
  std::vector<int> masked; // 1 = switched off by the target selection
  std::vector<int> active; // ranks of active targets
  std::vector<double> f;   // optional external drift at the targets
  SelMode selMode = SEL_NONE;
};
// external drift function (smooth function of the location), the same for data and targets
static double fextAt(const std::vector<std::vector<double>>& x, int i)
{
  return 0.02 * x[0][i] + std::sin(x[x.size() - 1][i] / 17.);
}

static Targets genTargets(Rng& r, const Samples& s, int mmin, int mmax)
{
  Targets t;
  t.m = r.irange(mmin, mmax);
  t.x.assign(s.ndim, std::vector<double>(t.m));
  for (int j = 0; j < t.m; j++)
  {
    if (r.coin(0.25))
    { // coincide with a data location (clean coordinates, also of dropped samples)
      int i = r.irange(0, s.n - 1);
      for (int d = 0; d < s.ndim; d++) t.x[d][j] = s.x[d][i];
    }
    else
      for (int d = 0; d < s.ndim; d++) t.x[d][j] = r.uni(-10, s.field + 10);
  }
  double u   = r.u01();
  t.selMode  = u < 0.45 ? SEL_NONE : u < 0.8 ? SEL_RANDOM : u < 0.88 ? SEL_ALMOST_EMPTY : u < 0.94 ? SEL_EMPTY : SEL_FULL;
  t.masked.assign(t.m, 0);
  if (t.selMode == SEL_RANDOM)
  {
    double p = r.uni(0.2, 0.6);
    for (int j = 0; j < t.m; j++) t.masked[j] = r.coin(p);
  }
  else if (t.selMode == SEL_ALMOST_EMPTY)
  {
    for (int j = 0; j < t.m; j++) t.masked[j] = 1;
    t.masked[r.irange(0, t.m - 1)] = 0;
  }
  else if (t.selMode == SEL_EMPTY)
    for (int j = 0; j < t.m; j++) t.masked[j] = 1;
  for (int j = 0; j < t.m; j++)
    if (!t.masked[j]) t.active.push_back(j);
  return t;
}
// masked target Db: all targets + selection; masked targets carry a marker column "keepme" whose cells must survive
static std::unique_ptr<Db> mkTargetsMasked(const Targets& t)
{
  std::vector<double> sel(t.m);
  for (int j = 0; j < t.m; j++) sel[j] = t.masked[j] ? 0. : 1.;
  std::vector<double> f = t.f;
  for (int j = 0; j < t.m && !f.empty(); j++) if (t.masked[j]) f[j] = POISON_VAL;
  std::unique_ptr<Db> db = mkDb(t.m, t.x, {}, t.selMode == SEL_NONE ? nullptr : &sel, nullptr, &f);
  return db;
}
static std::unique_ptr<Db> mkTargetsReduced(const Targets& t)
{
  int ma = (int)t.active.size();
  std::vector<std::vector<double>> x(t.x.size(), std::vector<double>(ma));
  std::vector<double> f;
  for (int k = 0; k < ma; k++)
  {
    for (size_t d = 0; d < t.x.size(); d++) x[d][k] = t.x[d][t.active[k]];
    if (!t.f.empty()) f.push_back(t.f[t.active[k]]);
  }
  return mkDb(ma, x, {}, nullptr, nullptr, &f);
}


// grid targets: a small regular grid over the field with an optional selection on its cells.
// Reference for masked cells: the same grid WITHOUT selection (a grid cannot lose cells and stay a grid); each
// cell's result does not depend on the other cells for the operations using it (kriging, conditional simulation).
struct GridT
{
  VectorInt nx;
  VectorDouble dx, x0;
  int m = 0;
  std::vector<int> masked, active;
  SelMode selMode = SEL_NONE;
};
static GridT genGrid(Rng& r, const Samples& s, int maxCells)
{
  GridT g;
  g.nx.resize(s.ndim); g.dx.resize(s.ndim); g.x0.resize(s.ndim);
  int per = s.ndim == 1 ? std::min(maxCells, 12) : s.ndim == 2 ? (int)std::sqrt((double)maxCells) : (int)std::cbrt((double)maxCells);
  g.m = 1;
  for (int d = 0; d < s.ndim; d++)
  {
    g.nx[d] = r.irange(2, std::max(2, per));
    g.dx[d] = s.field / g.nx[d] * r.uni(0.7, 1.1);
    g.x0[d] = r.uni(-5, 10);
    g.m *= g.nx[d];
  }
  double u  = r.u01();
  g.selMode = u < 0.4 ? SEL_NONE : u < 0.8 ? SEL_RANDOM : u < 0.88 ? SEL_ALMOST_EMPTY : u < 0.94 ? SEL_EMPTY : SEL_FULL;
  g.masked.assign(g.m, 0);
  if (g.selMode == SEL_RANDOM) { double p = r.uni(0.2, 0.6); for (auto& v : g.masked) v = r.coin(p); }
  else if (g.selMode == SEL_ALMOST_EMPTY) { for (auto& v : g.masked) v = 1; g.masked[r.irange(0, g.m - 1)] = 0; }
  else if (g.selMode == SEL_EMPTY) for (auto& v : g.masked) v = 1;
  for (int j = 0; j < g.m; j++) if (!g.masked[j]) g.active.push_back(j);
  return g;
}
// the active cells of a grid as a point Db (physical removal of the masked cells); coordinates are read from the grid
static std::unique_ptr<Db> mkPointsFromGrid(const DbGrid* grid, const GridT& g, bool withF)
{
  int nd = grid->getNDim(), ma = (int)g.active.size();
  std::vector<std::vector<double>> x(nd, std::vector<double>(ma));
  std::vector<double> f;
  for (int d = 0; d < nd; d++)
  {
    VectorDouble cd = grid->getCoordinates(d, false);
    for (int k = 0; k < ma; k++) x[d][k] = cd[g.active[k]];
  }
  if (withF)
    for (int k = 0; k < ma; k++) f.push_back(fextAt(x, k));
  return mkDb(ma, x, {}, nullptr, nullptr, &f);
}
static std::unique_ptr<DbGrid> mkGrid(const GridT& g, bool withSel, bool withF = false)
{
  std::unique_ptr<DbGrid> db(DbGrid::create(g.nx, g.dx, g.x0));
  if (withF)
  {
    int nd = db->getNDim();
    std::vector<std::vector<double>> x(nd);
    for (int d = 0; d < nd; d++) { VectorDouble cd = db->getCoordinates(d, false); x[d] = cd.getVector(); }
    VectorDouble f(g.m);
    for (int j = 0; j < g.m; j++) f[j] = (withSel && g.masked[j]) ? POISON_VAL : fextAt(x, j);
    db->addColumns(f, "f1", ELoc::F, 0);
  }
  if (withSel && g.selMode != SEL_NONE)
  {
    VectorDouble sel(g.m);
    for (int j = 0; j < g.m; j++) sel[j] = g.masked[j] ? 0. : 1.;
    db->addColumns(sel, "sel", ELoc::SEL, 0);
  }
  return db;
}

// snapshot of all cells of the first ncol columns (to prove "left untouched")
static std::vector<double> snapshot(const Db* db, int ncol)
{
  std::vector<double> v;
  for (int ic = 0; ic < ncol; ic++)
  {
    VectorDouble col = db->getColumnByColIdx(ic, false, false);
    v.insert(v.end(), col.begin(), col.end());
  }
  return v;
}
static bool sameSnapshot(const std::vector<double>& a, const std::vector<double>& b)
{
  if (a.size() != b.size()) return false;
  for (size_t i = 0; i < a.size(); i++)
    if (!sameBits(a[i], b[i])) return false;
  return true;
}

// Generic comparison of the columns created by an operation in (dbA masked run) and (dbB reduced run).
//   mapA : rows of dbA that correspond to rows 0.. of dbB;  offA : rows of dbA that are switched off (must be TEST)
// exact=true demands bit-for-bit equality, else |a-b| <= reltol * max(scale, floor)
static void cmpOutputs(Ctx& c, const std::string& op, const Key& key, const Db* dbA, int ncolA0,
                       const std::vector<int>& mapA, const std::vector<int>& offA, const Db* dbB, int ncolB0,
                       bool exact, double reltol, double floor, const std::string& keyOff = "",
                       const std::vector<int>* mapB = nullptr)
{
  VectorString na = newColumns(dbA, ncolA0), nb = newColumns(dbB, ncolB0);
  bool same = na.size() == nb.size();
  for (size_t i = 0; same && i < na.size(); i++) same = na[i] == nb[i];
  std::string la, lb;
  for (auto& s : na) la += s + " ";
  for (auto& s : nb) lb += s + " ";
  if (!c.truth(op + ":columns", key + ":new-columns-differ", same, "masked run created [" + la + "] reduced run [" + lb + "]"))
    return;
  if (na.empty()) return;
  CmpRes res;
  for (size_t i = 0; i < na.size(); i++) cmpColumn(dbA, na[i], mapA, dbB, nb[i], res, mapB);
  if (exact)
    c.check(op + ":equal", key + ":differs", res.worst == 0, res.worst, 0, res.where);
  else
  {
    double tol = reltol * std::max(res.scale, floor);
    c.check(op + ":close", key + ":differs", res.worst <= tol, res.worst, tol, res.where);
    if (res.nexact == res.ncell) c.probe(op + ":bit-identical");
  }
  // switched-off rows keep the undefined value in newly created variables
  if (!offA.empty())
  {
    bool ok = true;
    std::string w;
    for (size_t i = 0; i < na.size() && ok; i++)
    {
      VectorDouble a = dbA->getColumn(na[i], false, false);
      for (int j : offA)
        if (!(a[j] == TEST)) { ok = false; w = fmt("%s[row %d]=%.17g (expected TEST)", na[i].c_str(), j, a[j]); break; }
    }
    c.truth(op + ":off-rows-TEST", keyOff.empty() ? key + ":masked-row-written" : keyOff, ok, w);
  }
}

// ===================================================================================================
// kriging (unique / moving neighbourhood), masked data and masked targets
// ===================================================================================================
struct NeighSpec
{
  int kind = 0; // 0 unique, 1 moving, 2 moving + ball search
  int nmaxi = 10, nmini = 1, nsect = 1, nsmax = ITEST, leaf = 10;
  double radius = TEST;
  VectorDouble coeffs, angles;
  std::string desc = "unique";
};
static NeighSpec genNeigh(Rng& r, int ndim, bool forceUnique = false, bool ucoord = false)
{
  NeighSpec ns;
  ns.kind = forceUnique ? 0 : r.irange(0, 2);
  // (undefined coordinates: favour the two configurations known to end in a memory error - sectors without a
  //  radius, cross-validation in unique neighbourhood - so that their keys are reached in every run; they stay
  //  well below 1 % of the cases)
  if (ucoord && !forceUnique) ns.kind = r.coin(0.5) ? 0 : 1;
  if (ns.kind == 2 && avoid("ball", AVOID_BALL)) ns.kind = 1;
  if (ns.kind == 0) return ns;
  ns.nmaxi  = r.irange(3, 10);
  ns.nmini  = r.irange(1, 3);
  ns.radius = r.coin(ucoord ? 0.1 : 0.7) ? r.uni(30, 120) : TEST;
  if (ndim >= 2 && r.coin(ucoord ? 0.9 : 0.3)) { ns.nsect = r.irange(2, 6); ns.nsmax = r.irange(1, 3); }
  ns.leaf = r.irange(2, 12);
  if (r.coin(0.5))
  {
    ns.coeffs.resize(ndim, 1.);
    for (int d = 0; d < ndim; d++) ns.coeffs[d] = r.uni(0.5, 2.);
    if (ndim >= 2 && r.coin(0.5)) { ns.angles.resize(ndim, 0.); ns.angles[0] = r.uni(0, 180); }
  }
  ns.desc = ns.kind == 2 ? "moving-ball" : "moving";
  return ns;
}
static std::unique_ptr<ANeigh> mkNeigh(const NeighSpec& ns, bool xvalid)
{
  if (ns.kind == 0) return std::unique_ptr<ANeigh>(NeighUnique::create(xvalid));
  NeighMoving* nm = NeighMoving::create(xvalid, ns.nmaxi, ns.radius, ns.nmini, ns.nsect, ns.nsmax, ns.coeffs, ns.angles);
  if (ns.kind == 2) nm->setBallSearch(true, ns.leaf);
  return std::unique_ptr<ANeigh>(nm);
}

static void opKriging(Rng& r, Ctx& c)
{
  GenOpt o;
  o.nmax = c.thorough() ? 90 : 36;
  o.pUcoord = 0.14;
  Samples s = genSamples(r, o);
  defineDefaultSpace(ESpaceType::RN, s.ndim);
  int drift = r.irange(-1, 1);
  // external drift (ELoc::F): a sample whose external drift is undefined is one more kind of undefined sample
  // (KrigingSystem::_flagDefine: "Check on the external drifts" switches all its variables off)
  bool fext = r.coin(0.25);
  if (fext)
  {
    if (drift < 0) drift = 0;
    s.f.resize(s.n);
    for (int i = 0; i < s.n; i++) s.f[i] = fextAt(s.x, i) + 0.05 * r.normal();
    bool mayDrop = r.coin(0.6);
    if (mayDrop && s.by != BY_SELNA && s.by != BY_UCOORD && !avoid("ufext", AVOID_UFEXT)) // (one exotic mechanism at a time)
    {
      double p = r.uni(0.1, 0.35);
      for (int i = 0; i < s.n; i++)
        if (s.cls[i] == KEEP && r.coin(p)) { s.cls[i] |= FEXTUNDEF; s.ufext = true; }
      s.rebuildKept();
    }
  }
  ModelSpec ms;
  // (undefined coordinates: half of the cases without MATERN, which throws at the distance 1.234e30, so that the
  //  "partially undefined location" stratum below is well populated)
  auto model = genModel(r, s.ndim, s.nvar, drift, ms, true, s.by == BY_UCOORD && r.coin(0.5));
  bool linear = !fext && r.coin(hasUndefValueSamples(s) ? 0.3 : 0.07) && !avoid("linear", AVOID_LINEAR) && s.by != BY_SELNA && s.by != BY_UCOORD; // (one exotic feature at a time)
  if (linear) { drift = 0; model = genLinearModel(r, s.nvar, ms); }
  if (fext) { model->setDriftIRF(drift, 1); ms.desc += "+fext"; }
  NeighSpec ns = genNeigh(r, s.ndim, false, s.by == BY_UCOORD);
  std::string nd = ns.desc;
  auto neigh = mkNeigh(ns, false), neighR = mkNeigh(ns, false);
  bool gridT  = r.coin(0.3);
  Targets t   = genTargets(r, s, 4, c.thorough() ? 40 : 14);
  GridT g     = genGrid(r, s, c.thorough() ? 60 : 20);
  if (fext) { t.f.resize(t.m); for (int j = 0; j < t.m; j++) t.f[j] = fextAt(t.x, j); }
  bool flagStd = r.coin(0.8), flagVarz = r.coin(0.3);
  bool neighOnly = r.coin(0.15); // test_neigh(): neighbourhood statistics per target instead of the estimation
  SelMode tsel = gridT ? g.selMode : t.selMode;
  std::vector<int> active = gridT ? g.active : t.active;
  int mtot = gridT ? g.m : t.m;
  c.setSig(fmt("kriging:%s:ndim=%d:nvar=%d:%s:tgt=%s:tsel=%s:drift=%d:fext=%d", nd.c_str(), s.ndim, s.nvar, s.sigtag().c_str(), gridT ? "grid" : "points",
               SELN[tsel], drift, (int)fext + (int)s.ufext));
  if (neighOnly) c.setSig(c.sig + ":test_neigh");
  c.puts("op", neighOnly ? "test_neigh" : "kriging");
  c.puts("neigh", nd);
  c.puts("model", ms.desc);
  c.puts("targets", gridT ? "grid" : "points");
  c.put("n_kept_targets", fmt("[%d,%d,%d,%d]", s.n, s.nkept(), mtot, (int)active.size()));

  auto dinM = mkMasked(r, s);
  auto dinR = mkReduced(s);
  std::unique_ptr<Db> doutM, doutR;
  if (gridT)
  {
    std::unique_ptr<DbGrid> gm = mkGrid(g, true, fext);
    doutR = mkPointsFromGrid(gm.get(), g, fext);
    doutM = std::move(gm);
  }
  else
  {
    doutM = mkTargetsMasked(t);
    doutR = mkTargetsReduced(t);
  }
  Key K = mkKey("kriging", neighOnly ? "test_neigh:" + nd : nd, s, ns.kind == 2);
  // Stratum where the library DOES handle an undefined coordinate: unique neighbourhood (no distance search), a
  // structure that tolerates the distance 1.234e30 (not MATERN), ndim >= 2 so that the location is only PARTIALLY
  // undefined: KrigingSystem::_flagDefine ("Check on the coordinates") switches the datum off.  It is clean on the
  // unchanged tree and gets its own (non collapsed) key, outside the open undefined-coordinate finding.
  bool partialLoc = s.by == BY_UCOORD && ns.kind == 0 && s.ndim >= 2 && ms.desc.find("MATERN") == std::string::npos && !neighOnly;
  if (partialLoc) { K = Key {"C05:kriging:unique:partially-undefined-location", false}; c.probe("kriging:partially-undefined-location"); }
  if (linear && !K.collapsed && !neighOnly && hasUndefValueSamples(s)) K = extentKey("kriging", "linear-model");
  auto krige = [&](Db* din, Db* dout, ANeigh* ng) {
    if (neighOnly) return test_neigh(din, dout, model.get(), ng);
    return kriging(din, dout, model.get(), ng, EKrigOpt::POINT, true, flagStd, flagVarz);
  };

  int ncM = doutM->getColumnNumber(), ncR = doutR->getColumnNumber();
  int ncDin = dinM->getColumnNumber();
  std::vector<double> snapOut = snapshot(doutM.get(), ncM), snapIn = snapshot(dinM.get(), ncDin);
  bool nothing = s.nkept() == 0 || active.empty(); // nothing left after removal: no reduced run possible
  TRACE(c, "kriging %s n=%d kept=%d targets=%d active=%zu grid=%d fext=%d -> masked run", s.sigtag().c_str(), s.n, s.nkept(), mtot, active.size(), (int)gridT, (int)fext);
  int errM = krige(dinM.get(), doutM.get(), neigh.get());
  std::vector<int> off;
  for (int j = 0; j < mtot; j++) if (gridT ? g.masked[j] : t.masked[j]) off.push_back(j);
  if (nothing)
  {
    // no data (or no target) is left: the call may refuse, but it must not produce any value
    std::string w;
    bool ok = allNewUndefined(doutM.get(), ncM, w);
    c.truth("kriging:nothing-left", K.nothing("C05:kriging:" + nd + (s.nkept() == 0 ? ":no-active-data" : ":no-active-target") + ":value-produced"), ok,
            fmt("rc=%d ", errM) + w);
  }
  else
  {
    TRACE(c, "-> reduced run");
    int errR = krige(dinR.get(), doutR.get(), neighR.get());
    c.truth("kriging:rc", K + ":return-code", (errM == 0) == (errR == 0), fmt("masked run rc=%d reduced run rc=%d (kept=%d active targets=%zu)", errM, errR, s.nkept(), active.size()));
    if (errM == 0 && errR == 0)
      cmpOutputs(c, "kriging", K, doutM.get(), ncM, active, off, doutR.get(), ncR, true, 0, 0);
  }
  c.truth("kriging:target-untouched", "C05:kriging:" + nd + ":target-columns-modified", sameSnapshot(snapOut, snapshot(doutM.get(), ncM)),
          "pre-existing columns of the target Db changed");
  if (errM == 0) // (what a FAILED call leaves behind is C19's subject)
  c.truth("kriging:data-untouched", "C05:kriging:" + nd + ":data-columns-modified",
          dinM->getColumnNumber() == ncDin && sameSnapshot(snapIn, snapshot(dinM.get(), ncDin)), "data Db changed");
}

// ===================================================================================================
// cross-validation
// ===================================================================================================
static void opXvalid(Rng& r, Ctx& c)
{
  GenOpt o;
  o.nmax    = c.thorough() ? 70 : 30;
  o.minKept = 0;
  // every sample of the Db is also a target of the cross-validation: a sample whose values are all undefined is a
  // legitimate (if useless) target site, so it keeps a clean location (a target 1e9 away makes MATERN throw
  // "Argument x too large in __bessel_ik" whatever the selection - not a C05 matter, see report)
  o.undefKeepCoord = true;
  o.pUcoord = 0.16;
  Samples s = genSamples(r, o);
  defineDefaultSpace(ESpaceType::RN, s.ndim);
  int drift = r.irange(-1, 1);
  if (s.by == BY_UCOORD && r.coin(0.5)) drift = -1; // (see genNeigh: favours the known out-of-range access)
  ModelSpec ms;
  auto model = genModel(r, s.ndim, s.nvar, drift, ms);
  // (intrinsic model only without undefined-value samples: every sample of the Db is also a target SITE of the
  //  cross-validation, so its location legitimately belongs to the extent of the output Db)
  bool linear = r.coin(0.1) && !avoid("linear", AVOID_LINEAR) && (s.by == BY_NONE || s.by == BY_SEL);
  if (linear) { drift = 0; model = genLinearModel(r, s.nvar, ms); }
  NeighSpec ns = genNeigh(r, s.ndim, false, s.by == BY_UCOORD);
  std::string nd = ns.desc;
  auto neigh = mkNeigh(ns, true), neighR = mkNeigh(ns, true);
  bool kfold = false;
  int fEst = r.pick(std::vector<int> {1, -1}), fStd = r.pick(std::vector<int> {1, -1, 0}), fVarz = r.coin(0.2) ? 1 : 0;
  c.setSig(fmt("xvalid:%s:ndim=%d:nvar=%d:%s:drift=%d", nd.c_str(), s.ndim, s.nvar, s.sigtag().c_str(), drift));
  c.puts("op", "xvalid");
  c.puts("neigh", nd);
  c.puts("model", ms.desc);
  c.put("n_kept", fmt("[%d,%d]", s.n, s.nkept()));
  auto dM = mkMasked(r, s);
  auto dR = mkReduced(s);
  Key K = mkKey("xvalid", nd, s, ns.kind == 2);
  int ncM = dM->getColumnNumber(), ncR = dR->getColumnNumber();
  std::vector<double> snap = snapshot(dM.get(), ncM);
  TRACE(c, "xvalid %s ndim=%d n=%d kept=%d neigh=%s nmaxi=%d nmini=%d radius=%g nsect=%d nsmax=%d aniso=%d drift=%d -> masked run", s.sigtag().c_str(), s.ndim, s.n, s.nkept(),
        nd.c_str(), ns.nmaxi, ns.nmini, ns.radius, ns.nsect, ns.nsmax, (int)ns.coeffs.size(), drift);
  int errM = xvalid(dM.get(), model.get(), neigh.get(), kfold, fEst, fStd, fVarz);
  std::vector<int> off;
  for (int i = 0; i < s.n; i++) if (s.cls[i] & MASKED) off.push_back(i);
  if (s.nkept() == 0)
  {
    std::string w;
    bool ok = allNewUndefined(dM.get(), ncM, w);
    c.truth("xvalid:nothing-left", K.nothing("C05:xvalid:" + nd + ":no-active-data:value-produced"), ok, fmt("rc=%d ", errM) + w);
  }
  else
  {
    TRACE(c, "-> reduced run");
    int errR = xvalid(dR.get(), model.get(), neighR.get(), kfold, fEst, fStd, fVarz);
    c.truth("xvalid:rc", K + ":return-code", (errM == 0) == (errR == 0), fmt("masked run rc=%d reduced run rc=%d (kept=%d)", errM, errR, s.nkept()));
    if (errM == 0 && errR == 0)
      cmpOutputs(c, "xvalid", K, dM.get(), ncM, s.kept, off, dR.get(), ncR, true, 0, 0);
  }
  c.truth("xvalid:data-untouched", "C05:xvalid:" + nd + ":data-columns-modified", sameSnapshot(snap, snapshot(dM.get(), ncM)),
          "pre-existing columns of the Db changed");
}


// ---------------------------------------------------------------------------------------------------
// comparison of two vectors / matrices cell by cell (bit for bit; undefined == undefined)
// ---------------------------------------------------------------------------------------------------
static bool cmpVecExact(Ctx& c, const std::string& oracle, const std::string& key, const std::string& what,
                        const VectorDouble& a, const VectorDouble& b)
{
  if (a.size() != b.size())
    return c.check(oracle, key, false, 1, 0, fmt("%s: size masked-run=%zu reduced-run=%zu", what.c_str(), (size_t)a.size(), (size_t)b.size()));
  double worst = 0;
  std::string w;
  for (size_t i = 0; i < a.size(); i++)
  {
    if (sameBits(a[i], b[i])) continue;
    double e = (FFFF(a[i]) || FFFF(b[i])) ? ((FFFF(a[i]) && FFFF(b[i])) ? 0 : INFINITY) : std::fabs(a[i] - b[i]);
    if (e > worst) { worst = e; w = fmt("%s[%zu] masked-run=%.17g reduced-run=%.17g", what.c_str(), i, a[i], b[i]); }
  }
  return c.check(oracle, key, worst == 0, worst, 0, w);
}
static bool cmpMatExact(Ctx& c, const std::string& oracle, const std::string& key, const std::string& what,
                        const AMatrix& a, const AMatrix& b)
{
  if (a.getNRows() != b.getNRows() || a.getNCols() != b.getNCols())
    return c.check(oracle, key, false, 1, 0,
                   fmt("%s: shape masked-run=%dx%d reduced-run=%dx%d", what.c_str(), a.getNRows(), a.getNCols(), b.getNRows(), b.getNCols()));
  double worst = 0;
  std::string w;
  for (int i = 0; i < a.getNRows(); i++)
    for (int j = 0; j < a.getNCols(); j++)
    {
      double va = a.getValue(i, j), vb = b.getValue(i, j);
      if (sameBits(va, vb)) continue;
      double e = (FFFF(va) || FFFF(vb)) ? ((FFFF(va) && FFFF(vb)) ? 0 : INFINITY) : std::fabs(va - vb);
      if (e > worst) { worst = e; w = fmt("%s(%d,%d) masked-run=%.17g reduced-run=%.17g", what.c_str(), i, j, va, vb); }
    }
  return c.check(oracle, key, worst == 0, worst, 0, w);
}

// ===================================================================================================
// experimental variograms
// ===================================================================================================
// variogram of a GRID along grid increments (Vario::_calculateOnGridSolution). Masked cells cannot be removed physically from
// a grid: the reference is the same grid WITHOUT selection whose masked cells hold the undefined value ("masked or
// undefined samples never influence a result": both must give the same table); masked cells are poisoned.
static void opVarioGrid(Rng& r, Ctx& c)
{
  int ndim = r.coin(0.8) ? 2 : 3;
  defineDefaultSpace(ESpaceType::RN, ndim);
  VectorInt nx(ndim);
  VectorDouble dx(ndim), x0(ndim);
  int m = 1;
  for (int d = 0; d < ndim; d++) { nx[d] = r.irange(4, ndim == 2 ? 10 : 5); dx[d] = r.uni(0.5, 3.); x0[d] = r.uni(-5, 10); m *= nx[d]; }
  int nvar = r.irange(1, 2);
  double p = r.uni(0.15, 0.5);
  std::vector<int> masked(m);
  int nact = 0;
  for (auto& v : masked) { v = r.coin(p); nact += !v; }
  if (nact < 4) { masked.assign(m, 0); for (int j = 0; j < m; j += 3) masked[j] = 1; }
  static const std::vector<ECalcVario> calcs = {ECalcVario::VARIOGRAM, ECalcVario::MADOGRAM, ECalcVario::COVARIANCE_NC, ECalcVario::ORDER4};
  ECalcVario calc = r.coin(0.5) ? ECalcVario::VARIOGRAM : r.pick(calcs);
  std::string cn(calc.getKey());
  c.setSig(fmt("vario-grid:%s:ndim=%d:nvar=%d", cn.c_str(), ndim, nvar));
  c.puts("op", "Vario::compute on a DbGrid with grid directions");
  std::unique_ptr<DbGrid> gM(DbGrid::create(nx, dx, x0)), gR(DbGrid::create(nx, dx, x0));
  for (int v = 0; v < nvar; v++)
  {
    VectorDouble zM(m), zR(m);
    for (int j = 0; j < m; j++)
    {
      double z = r.coin(0.08) ? TEST : 3. * r.normal() + 0.2 * (j % nx[0]);
      zM[j] = masked[j] ? POISON_VAL : z;
      zR[j] = masked[j] ? TEST : z;
    }
    gM->addColumns(zM, fmt("z%d", v + 1), ELoc::Z, v);
    gR->addColumns(zR, fmt("z%d", v + 1), ELoc::Z, v);
  }
  VectorDouble sel(m);
  for (int j = 0; j < m; j++) sel[j] = masked[j] ? 0. : 1.;
  gM->addColumns(sel, "sel", ELoc::SEL, 0);
  int npas = r.irange(2, 4);
  std::unique_ptr<VarioParam> vp(VarioParam::createMultipleFromGrid(gM.get(), npas));
  if (!vp) throw SkipCase{"varioparam-null"};
  std::unique_ptr<Vario> vM(Vario::create(*vp)), vR(Vario::create(*vp));
  int errM = vM->compute(gM.get(), calc), errR = vR->compute(gR.get(), calc);
  std::string K = "C05:vario-grid:" + cn + ":masked-vs-undefined";
  c.truth("vario-grid:rc", K + ":return-code", (errM == 0) == (errR == 0), fmt("masked rc=%d undefined rc=%d", errM, errR));
  if (errM != 0 || errR != 0) return;
  c.truth("vario-grid:shape", K + ":shape", vM->getDirectionNumber() == vR->getDirectionNumber());
  for (int id = 0; id < vM->getDirectionNumber() && id < vR->getDirectionNumber(); id++)
    for (int iv = 0; iv < nvar; iv++)
      for (int jv = 0; jv <= iv; jv++)
      {
        std::string w = fmt("dir%d(%d,%d)", id, iv, jv);
        cmpVecExact(c, "vario-grid:sw", K + ":differs", "sw:" + w, vM->getSwVec(id, iv, jv, false), vR->getSwVec(id, iv, jv, false));
        cmpVecExact(c, "vario-grid:hh", K + ":differs", "hh:" + w, vM->getHhVec(id, iv, jv, false), vR->getHhVec(id, iv, jv, false));
        cmpVecExact(c, "vario-grid:gg", K + ":differs", "gg:" + w, vM->getGgVec(id, iv, jv, false, false, false), vR->getGgVec(id, iv, jv, false, false, false));
      }
}

static void opVario(Rng& r, Ctx& c)
{
  if (c.icase % 3 == 0) { opVarioGrid(r, c); return; }
  GenOpt o;
  o.nmax    = c.thorough() ? 120 : 40;
  o.nvarMax = c.thorough() ? 3 : 2;
  o.pWeight = 0.3;
  Samples s = genSamples(r, o);
  defineDefaultSpace(ESpaceType::RN, s.ndim);
  static const std::vector<ECalcVario> calcs = {ECalcVario::VARIOGRAM, ECalcVario::COVARIANCE, ECalcVario::COVARIOGRAM,
                                                ECalcVario::MADOGRAM, ECalcVario::RODOGRAM, ECalcVario::POISSON,
                                                ECalcVario::COVARIANCE_NC, ECalcVario::ORDER4, ECalcVario::TRANS1,
                                                ECalcVario::TRANS2, ECalcVario::BINORMAL};
  ECalcVario calc = r.coin(0.35) ? ECalcVario::VARIOGRAM : r.pick(calcs);
  int npas     = r.irange(3, 8);
  double dpas  = r.uni(8, 25);
  double toldis = r.pick(std::vector<double> {0.5, 0.3, 0.45});
  int dirKind  = s.ndim == 1 ? 0 : r.irange(0, 2); // 0 omni, 1 multiple regular directions, 2 one direction per axis
  std::unique_ptr<VarioParam> vp;
  if (dirKind == 0) vp.reset(VarioParam::createOmniDirection(npas, dpas, toldis));
  else if (dirKind == 1 && s.ndim == 2) vp.reset(VarioParam::createMultiple(r.irange(2, 4), npas, dpas, toldis, r.uni(0, 90)));
  else { dirKind = 2; vp.reset(VarioParam::createFromSpaceDimension(npas, dpas, toldis, r.uni(20, 60))); }
  bool flagSample = r.coin(0.15);
  // by-sample algorithm: flag_sample, and always for COVARIOGRAM (Vario::_calculateGeneralSolution2)
  bool bySample = flagSample || calc == ECalcVario::COVARIOGRAM;
  std::string cn(calc.getKey());
  c.setSig(fmt("vario:%s:dir=%d:ndim=%d:nvar=%d:%s:w=%d:fs=%d", cn.c_str(), dirKind, s.ndim, s.nvar, s.sigtag().c_str(), (int)!s.w.empty(), (int)flagSample));
  c.puts("op", "Vario::compute");
  c.puts("calcul", cn);
  c.put("n_kept", fmt("[%d,%d]", s.n, s.nkept()));
  auto dM = mkMasked(r, s);
  auto dR = mkReduced(s);
  Key K = mkKey("vario", bySample ? std::string("by-sample") : cn, s);
  int ncM = dM->getColumnNumber();
  std::vector<double> snap = snapshot(dM.get(), ncM);
  std::unique_ptr<Vario> vM(Vario::create(*vp)), vR(Vario::create(*vp));
  TRACE(c, "vario %s %s n=%d kept=%d -> masked run", cn.c_str(), s.sigtag().c_str(), s.n, s.nkept());
  int errM = vM->compute(dM.get(), calc, flagSample);
  if (s.nkept() == 0)
  {
    // nothing left: either refused, or no pair anywhere
    bool ok = true;
    std::string w;
    if (errM == 0)
      for (int id = 0; id < vM->getDirectionNumber() && ok; id++)
        for (int iv = 0; iv < s.nvar && ok; iv++)
          for (int jv = 0; jv <= iv && ok; jv++)
          {
            VectorDouble sw = vM->getSwVec(id, iv, jv, false);
            for (size_t k = 0; k < sw.size(); k++)
              if (!FFFF(sw[k]) && sw[k] != 0) { ok = false; w = fmt("dir %d (%d,%d) lag-slot %zu: sw=%g", id, iv, jv, k, sw[k]); break; }
          }
    c.truth("vario:nothing-left", "C05:vario:no-active-data:pairs-found", ok, fmt("rc=%d ", errM) + w);
  }
  else
  {
    TRACE(c, "-> reduced run");
      int errR = vR->compute(dR.get(), calc, flagSample);
    c.truth("vario:rc", K + ":return-code", (errM == 0) == (errR == 0), fmt("masked run rc=%d reduced run rc=%d (kept=%d)", errM, errR, s.nkept()));
    if (errM == 0 && errR == 0)
    {
      // global statistics stored with the variogram (Vario::_getStatistics)
      cmpVecExact(c, "vario:means", K + ":differs", "means", vM->getMeans(), vR->getMeans());
      cmpVecExact(c, "vario:vars", K + ":differs", "vars", vM->getVars(), vR->getVars());
      c.truth("vario:shape", K + ":shape", vM->getDirectionNumber() == vR->getDirectionNumber() && vM->getVariableNumber() == vR->getVariableNumber());
      std::string Kg = K + ":differs";
      for (int id = 0; id < vM->getDirectionNumber(); id++)
        for (int iv = 0; iv < s.nvar; iv++)
          for (int jv = 0; jv <= iv; jv++)
          {
            std::string w = fmt("dir%d(%d,%d)", id, iv, jv);
            cmpVecExact(c, "vario:sw", K + ":differs", "sw:" + w, vM->getSwVec(id, iv, jv, false), vR->getSwVec(id, iv, jv, false));
            cmpVecExact(c, "vario:hh", K + ":differs", "hh:" + w, vM->getHhVec(id, iv, jv, false), vR->getHhVec(id, iv, jv, false));
            cmpVecExact(c, "vario:gg", Kg, "gg:" + w, vM->getGgVec(id, iv, jv, false, false, false), vR->getGgVec(id, iv, jv, false, false, false));
          }
    }
  }
  c.truth("vario:data-untouched", "C05:vario:data-columns-modified", dM->getColumnNumber() == ncM && sameSnapshot(snap, snapshot(dM.get(), ncM)), "Db changed");
}

// ===================================================================================================
// statistics: dbStatisticsMono / Multi / Correl, dbVarianceMatrix
// ===================================================================================================
static void opStats(Rng& r, Ctx& c)
{
  GenOpt o;
  o.nmax        = c.thorough() ? 200 : 50;
  o.nvarMax     = 3;
  o.allowUcoord = false; // statistics on values have no spatial meaning: undefined coordinates are not "dropped" here
  o.pWeight     = 0.3;
  Samples s = genSamples(r, o);
  defineDefaultSpace(ESpaceType::RN, s.ndim);
  // integer-like values now and then (ZERO / PLUS / MOINS counts, ties in quantiles)
  bool ints = r.coin(0.3);
  if (ints)
    for (auto& col : s.z)
      for (auto& v : col)
        if (!FFFF(v)) v = std::round(v);
  int which = r.irange(0, 6);
  static const char* WN[] = {"dbStatisticsMono", "dbStatisticsMulti", "dbStatisticsCorrel", "dbVarianceMatrix",
                             "correlationPairs", "hscatterPairs", "dbStatisticsPerCell"};
  c.setSig(fmt("stats:%s:nvar=%d:%s:w=%d:int=%d", WN[which], s.nvar, s.sigtag().c_str(), (int)!s.w.empty(), (int)ints));
  c.puts("op", WN[which]);
  c.put("n_kept", fmt("[%d,%d]", s.n, s.nkept()));
  auto dM = mkMasked(r, s);
  auto dR = mkReduced(s);
  VectorString names = varNames(s.nvar);
  Key K = mkKey("stats", WN[which], s);
  int ncM = dM->getColumnNumber();
  std::vector<double> snap = snapshot(dM.get(), ncM);
  bool empty = s.nkept() == 0;
  auto allUndefOrZero = [&](const AMatrix& m, bool zeroOk, std::string& w) {
    for (int i = 0; i < m.getNRows(); i++)
      for (int j = 0; j < m.getNCols(); j++)
      {
        double v = m.getValue(i, j);
        if (FFFF(v) || (zeroOk && v == 0)) continue;
        w = fmt("(%d,%d)=%.17g", i, j, v);
        return false;
      }
    return true;
  };
  TRACE(c, "stats %s %s n=%d kept=%d", WN[which], s.sigtag().c_str(), s.n, s.nkept());
  if (which == 0)
  {
    std::vector<EStatOption> opers = {EStatOption::NUM, EStatOption::MEAN, EStatOption::VAR, EStatOption::STDV, EStatOption::MINI,
                                      EStatOption::MAXI, EStatOption::SUM, EStatOption::PROP, EStatOption::QUANT, EStatOption::T,
                                      EStatOption::Q, EStatOption::M, EStatOption::MEDIAN};
    bool flagIso = r.coin();
    double proba = r.uni(0.05, 0.95);
    K += flagIso ? ":iso" : ":noiso";
    Table tM = dbStatisticsMono(dM.get(), names, opers, flagIso, proba);
    if (empty)
    {
      std::string w;
      c.truth("stats:nothing-left", std::string("C05:stats:") + WN[which] + ":no-active-data:value-produced", allUndefOrZero(tM, true, w), w);
    }
    else
    {
      Table tR = dbStatisticsMono(dR.get(), names, opers, flagIso, proba);
      cmpMatExact(c, "stats:mono", K + ":differs", "table", tM, tR);
    }
  }
  else if (which == 1)
  {
    static const std::vector<EStatOption> ops = {EStatOption::NUM, EStatOption::MEAN, EStatOption::VAR, EStatOption::CORR, EStatOption::STDV,
                                                 EStatOption::MINI, EStatOption::MAXI, EStatOption::PLUS, EStatOption::MOINS, EStatOption::ZERO};
    EStatOption op = r.pick(ops);
    bool flagMono  = r.coin();
    K += ":" + std::string(op.getKey()) + (flagMono ? ":mono" : ":pairs");
    Table tM = dbStatisticsMulti(dM.get(), names, op, flagMono);
    if (empty)
    {
      std::string w;
      c.truth("stats:nothing-left", std::string("C05:stats:") + WN[which] + ":no-active-data:value-produced", allUndefOrZero(tM, true, w), w);
    }
    else
    {
      Table tR = dbStatisticsMulti(dR.get(), names, op, flagMono);
      cmpMatExact(c, "stats:multi", K + ":differs", "table", tM, tR);
    }
  }
  else if (which == 2)
  {
    bool flagIso = r.coin();
    K += flagIso ? ":iso" : ":noiso";
    Table tM = dbStatisticsCorrel(dM.get(), names, flagIso);
    if (empty)
    {
      std::string w;
      c.truth("stats:nothing-left", std::string("C05:stats:") + WN[which] + ":no-active-data:value-produced", allUndefOrZero(tM, true, w), w);
    }
    else
    {
      Table tR = dbStatisticsCorrel(dR.get(), names, flagIso);
      cmpMatExact(c, "stats:correl", K + ":differs", "table", tM, tR);
    }
  }
  else if (which == 4 || which == 5)
  {
    // indices of the samples / pairs of samples where both variables are defined: mapped through the kept-sample map
    std::string n1 = "z1", n2 = fmt("z%d", s.nvar);
    std::unique_ptr<VarioParam> vp(VarioParam::createOmniDirection(4, 20., 0.5));
    int ipas = r.irange(0, 3);
    VectorVectorInt iM = which == 4 ? correlationPairs(dM.get(), dM.get(), n1, n2) : hscatterPairs(dM.get(), n1, n2, vp.get(), ipas, 0);
    if (empty)
    {
      bool ok = iM.empty() || (iM[0].empty() && iM[1].empty());
      c.truth("stats:nothing-left", K.nothing(std::string("C05:stats:") + WN[which] + ":no-active-data:value-produced"), ok, "pairs returned");
    }
    else
    {
      VectorVectorInt iR = which == 4 ? correlationPairs(dR.get(), dR.get(), n1, n2) : hscatterPairs(dR.get(), n1, n2, vp.get(), ipas, 0);
      bool ok = iM.size() == iR.size();
      std::string w = fmt("outer size %zu vs %zu", (size_t)iM.size(), (size_t)iR.size());
      for (size_t a = 0; ok && a < iM.size(); a++)
      {
        ok = iM[a].size() == iR[a].size();
        if (!ok) w = fmt("number of pairs masked-run=%zu reduced-run=%zu", (size_t)iM[a].size(), (size_t)iR[a].size());
        for (size_t k = 0; ok && k < iM[a].size(); k++)
        {
          int ir = iR[a][k];
          ok = ir >= 0 && ir < s.nkept() && iM[a][k] == s.kept[ir];
          if (!ok) w = fmt("pair %zu: masked-run sample %d, reduced-run sample %d (= original %d)", k, iM[a][k], ir, (ir >= 0 && ir < s.nkept()) ? s.kept[ir] : -1);
        }
      }
      c.truth("stats:pairs", K + ":differs", ok, w);
    }
  }
  else if (which == 6)
  {
    GridT g = genGrid(r, s, 12);
    auto grid = mkGrid(g, false);
    static const std::vector<EStatOption> ops = {EStatOption::NUM, EStatOption::MEAN, EStatOption::SUM, EStatOption::STDV, EStatOption::VAR,
                                                 EStatOption::MINI, EStatOption::MAXI, EStatOption::MEAN2, EStatOption::SUM2,
                                                 EStatOption::COV, EStatOption::CORR};
    EStatOption op = r.pick(ops);
    std::string n1 = "z1", n2 = s.nvar > 1 ? "z2" : "";
    K += ":" + std::string(op.getKey());
    VectorDouble vM = dbStatisticsPerCell(dM.get(), grid.get(), op, n1, n2);
    if (empty && op == EStatOption::CORR)
      // an EMPTY cell gets CORR = TEST / (TEST * TEST) = 8.1e-31 instead of TEST, masks or not (Classical.cpp,
      // dbStatisticsPerCell "Dispatch": v1, v2, v12 were set to TEST) - not a C05 matter, reported
      c.skip("percell-corr-of-empty-cell");
    else if (empty)
    {
      bool ok = true;
      for (double v : vM) ok = ok && (FFFF(v) || v == 0);
      c.truth("stats:nothing-left", K.nothing(std::string("C05:stats:") + WN[which] + ":no-active-data:value-produced"), ok, "");
    }
    else
    {
      VectorDouble vR = dbStatisticsPerCell(dR.get(), grid.get(), op, n1, n2);
      cmpVecExact(c, "stats:percell", K + ":differs", "cells", vM, vR);
    }
  }
  else
  {
    MatrixSquareSymmetric mM = dbVarianceMatrix(dM.get());
    if (empty)
    {
      std::string w;
      c.truth("stats:nothing-left", std::string("C05:stats:") + WN[which] + ":no-active-data:value-produced", allUndefOrZero(mM, true, w), w);
    }
    else
    {
      MatrixSquareSymmetric mR = dbVarianceMatrix(dR.get());
      cmpMatExact(c, "stats:varmat", K + ":differs", "matrix", mM, mR);
    }
  }
  c.truth("stats:data-untouched", "C05:stats:data-columns-modified", dM->getColumnNumber() == ncM && sameSnapshot(snap, snapshot(dM.get(), ncM)), "Db changed");
}

// ===================================================================================================
// covariance and drift matrices (selection convention, quoted from ACov.cpp / DriftList.cpp:
//   "Takes into account selection and heterotopy … The returned matrix if dimension to nrows * ncols where each
//    term is the product of the number of active samples by the number of samples where the variable is defined";
//   rows are ordered variable by variable, samples in increasing rank => the matrix of the masked Db must be the
//   matrix of the reduced Db, cell for cell.  'nbgh' = "Vector of indices of active samples in db (optional)")
// ===================================================================================================
static void opCovMat(Rng& r, Ctx& c)
{
  GenOpt o;
  o.nmax = c.thorough() ? 80 : 30;
  Samples s = genSamples(r, o);
  defineDefaultSpace(ESpaceType::RN, s.ndim);
  ModelSpec ms;
  int drift  = r.irange(0, 2);
  auto model = genModel(r, s.ndim, s.nvar, drift, ms);
  static const char* WN[] = {"evalCovMatrix", "evalCovMatrixSymmetric", "evalCovMatrixOptim", "evalCovMatrixSymmetricOptim",
                             "evalCovMatrixSparse", "evalDriftMatrix"};
  int which = r.irange(0, 5);
  Targets t = genTargets(r, s, 3, 12);
  bool twoDb = r.coin() && (which == 0 || which == 2 || which == 4);
  int ivar0 = r.coin(0.5) ? -1 : r.irange(0, s.nvar - 1), jvar0 = r.coin(0.5) ? -1 : r.irange(0, s.nvar - 1);
  // ACov::evalCovMatrixSparse fills its nvar1 x nvar2 sill matrix with the absolute variable ranks: any ivar0 >= 1
  // aborts (out-of-range setValue) whatever the selection - not a C05 matter, reported; keep to ranks -1 / 0 there
  if (which == 4) { if (ivar0 > 0) ivar0 = 0; if (jvar0 > 0) jvar0 = 0; }
  // optional explicit list of ranks (may contain dropped samples: they must be filtered out)
  bool useNbgh = r.coin(0.3);
  VectorInt nbM, nbR;
  if (useNbgh)
  {
    std::vector<int> pos(s.n, -1);
    for (int k = 0; k < s.nkept(); k++) pos[s.kept[k]] = k;
    for (int i = 0; i < s.n; i++)
      if (r.coin(0.6)) { nbM.push_back(i); if (pos[i] >= 0) nbR.push_back(pos[i]); }
    if (nbM.empty() || nbR.empty()) { useNbgh = false; nbM.clear(); nbR.clear(); }
  }
  c.setSig(fmt("covmat:%s:two=%d:ndim=%d:nvar=%d:%s:tsel=%s:iv=%d:jv=%d:nbgh=%d:drift=%d", WN[which], (int)twoDb, s.ndim, s.nvar, s.sigtag().c_str(),
               twoDb ? SELN[t.selMode] : "-", ivar0 < 0 ? -1 : 0, jvar0 < 0 ? -1 : 0, (int)useNbgh, drift));
  c.puts("op", WN[which]);
  c.puts("model", ms.desc);
  c.put("n_kept", fmt("[%d,%d]", s.n, s.nkept()));
  auto dM = mkMasked(r, s);
  auto dR = mkReduced(s);
  auto tM = mkTargetsMasked(t);
  auto tR = mkTargetsReduced(t);
  Key K = mkKey(WN[which], "", s, false, "covmat");
  K += std::string(twoDb ? ":two-db" : "") + (useNbgh ? ":nbgh" : "");
  bool nothing = s.nkept() == 0 || (twoDb && t.active.empty());
  Db* d2M = twoDb ? tM.get() : nullptr;
  Db* d2R = twoDb ? tR.get() : nullptr;
  TRACE(c, "covmat %s %s n=%d kept=%d two=%d active targets=%zu nbgh=%d", WN[which], s.sigtag().c_str(), s.n, s.nkept(), (int)twoDb, t.active.size(), (int)useNbgh);
  // a fresh copy of the model for each call (the optimised builders keep per-model state)
  std::unique_ptr<Model> mA(model->duplicate()), mB(model->duplicate());
  std::unique_ptr<AMatrix> a, b;
  // These builders are plain functions (no calculator catching errors): an exception thrown while evaluating a
  // covariance on a dropped sample (e.g. MATERN at the distance 1.234e30 of an undefined coordinate: "Argument x too
  // large in __bessel_ik") escapes to the caller.  It is reported under the key of the case, not a generic one.
  try
  {
  switch (which)
  {
    case 0:
      a.reset(new MatrixRectangular(mA->evalCovMatrix(dM.get(), d2M, ivar0, jvar0, nbM)));
      if (!nothing) b.reset(new MatrixRectangular(mB->evalCovMatrix(dR.get(), d2R, ivar0, jvar0, nbR)));
      break;
    case 1:
      a.reset(new MatrixSquareSymmetric(mA->evalCovMatrixSymmetric(dM.get(), ivar0, nbM)));
      if (!nothing) b.reset(new MatrixSquareSymmetric(mB->evalCovMatrixSymmetric(dR.get(), ivar0, nbR)));
      break;
    case 2:
      a.reset(new MatrixRectangular(mA->evalCovMatrixOptim(dM.get(), d2M, ivar0, jvar0, nbM)));
      if (!nothing) b.reset(new MatrixRectangular(mB->evalCovMatrixOptim(dR.get(), d2R, ivar0, jvar0, nbR)));
      break;
    case 3:
      a.reset(new MatrixSquareSymmetric(mA->evalCovMatrixSymmetricOptim(dM.get(), ivar0, nbM)));
      if (!nothing) b.reset(new MatrixSquareSymmetric(mB->evalCovMatrixSymmetricOptim(dR.get(), ivar0, nbR)));
      break;
    case 4:
      a.reset(mA->evalCovMatrixSparse(dM.get(), d2M, ivar0, jvar0, nbM));
      if (!nothing) b.reset(mB->evalCovMatrixSparse(dR.get(), d2R, ivar0, jvar0, nbR));
      break;
    case 5:
      a.reset(new MatrixRectangular(mA->evalDriftMatrix(dM.get(), ivar0, nbM)));
      if (!nothing) b.reset(new MatrixRectangular(mB->evalDriftMatrix(dR.get(), ivar0, nbR)));
      break;
  }
  }
  catch (const std::runtime_error& e)
  {
    c.check("covmat:no-exception", K + ":exception", false, 1, 0, std::string("exception escaped: ") + e.what());
    return;
  }
  if (nothing)
  {
    // (the sparse builder returns a 1x1 matrix holding 0 for an empty triplet list: no value either)
    bool ok = !a || a->getNRows() == 0 || a->getNCols() == 0 || (a->getNRows() == 1 && a->getNCols() == 1 && a->getValue(0, 0) == 0.);
    c.truth("covmat:nothing-left", K.nothing(std::string("C05:") + WN[which] + ":no-active-sample:matrix-produced"), ok,
            a ? fmt("matrix %dx%d", a->getNRows(), a->getNCols()) : "");
    return;
  }
  if (!a || !b)
  {
    c.truth("covmat:null", K + ":null-result", (!a) == (!b), fmt("masked-run %s reduced-run %s", a ? "matrix" : "null", b ? "matrix" : "null"));
    return;
  }
  cmpMatExact(c, "covmat:equal", K + ":differs", WN[which], *a, *b);
  // Direct oracle on the SHAPE (the masked-vs-reduced relation is blind to an error made identically in both runs,
  // e.g. the definedness pattern of the wrong variable): documented convention (ACov.cpp / DriftList.cpp) = one row
  // per (requested variable, active sample where THAT variable is defined), variables in the requested order.
  {
    auto countDef = [&](int ivar, const VectorInt& nb) {
      int n = 0;
      if (nb.empty()) { for (int i : s.kept) n += !FFFF(s.z[ivar][i]); }
      else for (int k : nb) n += !FFFF(s.z[ivar][s.kept[k]]);
      return n;
    };
    auto rowsFor = [&](int iv0, const VectorInt& nb) {
      int n = 0;
      for (int v = 0; v < s.nvar; v++) if (iv0 < 0 || iv0 == v) n += countDef(v, nb);
      return n;
    };
    int wantRows = rowsFor(ivar0, nbR), wantCols = -1;
    bool sameDbCols = (which == 0 || which == 2 || which == 4) && !twoDb;
    if (which == 1 || which == 3) wantCols = wantRows;
    else if (sameDbCols) wantCols = rowsFor(jvar0, VectorInt());
    else if (which != 5) wantCols = (jvar0 < 0 ? s.nvar : 1) * (int)t.active.size(); // target Db without Z-variable: every active target
    if (which == 4) wantCols = -2; // (the sparse result is dimensioned by its last stored entry: not asserted)
    if (wantRows == 0 || wantCols == 0) wantCols = -2; // (nothing requested is defined: an empty matrix is returned)
    std::string KS = std::string("C05:") + WN[which] + ":variable-subset:wrong-shape";
    std::string req = fmt("ivar0=%d jvar0=%d nvar=%d hetero=%d", ivar0, jvar0, s.nvar, (int)s.hetero);
    if (wantCols != -2)
      c.truth("covmat:shape", KS, b->getNRows() == wantRows && (wantCols < 0 || b->getNCols() == wantCols),
              fmt("reduced-run matrix %dx%d, expected %dx%d (%s)", b->getNRows(), b->getNCols(), wantRows, wantCols, req.c_str()));
  }
}


// ===================================================================================================
// turning bands: conditional simulation (same seed), masked data and masked targets; also non-conditional
// with masked targets.  nbtuba is drawn small so that the point count enters the Poisson intensity of the bands
// (CalcSimuTurningBands::_setDensity: naverage = npoints / nbtuba, floor 5).
// ===================================================================================================
static void opSimtub(Rng& r, Ctx& c)
{
  GenOpt o;
  o.nmax    = c.thorough() ? 70 : 30;
  o.nvarMax = 2;
  // The extension of the field along each band (CalcSimuTurningBands::_minmax) is taken over every ACTIVE sample,
  // whatever its values or coordinates: a far-away or undefined (1.234e30) coordinate makes the number of Poisson
  // points per band explode (the call does not return in any reasonable time, GBs of memory).  So here samples
  // with undefined values keep a clean location inside the field (a leak then still moves the field extension),
  // and undefined coordinates are not generated at all for this operation (stated in the report).
  o.undefKeepCoord = true;
  o.allowUcoord    = false;
  Samples s = genSamples(r, o);
  defineDefaultSpace(ESpaceType::RN, s.ndim);
  bool cond  = r.coin(0.75);
  int drift  = r.irange(-1, 0);
  ModelSpec ms;
  auto model = genModel(r, s.ndim, s.nvar, drift, ms);
  NeighSpec ns = genNeigh(r, s.ndim, r.coin(0.6));
  std::string nd = ns.desc;
  // Conditional simulations go to a GRID: with a point target Db, CalcSimuTurningBands::_updateData2ToTarget reads
  // the location of target #ik from the DATA Db (dbin->getSampleCoordinatesInPlace(ik, coor1)) and overwrites
  // target #ik with the value of datum #ik whenever that datum is active - wrong whatever the selection (a C13
  // matter, reported); it would make every masked-vs-reduced comparison differ for a reason foreign to C05.
  Targets t = genTargets(r, s, 4, c.thorough() ? 40 : 16);
  GridT g   = genGrid(r, s, c.thorough() ? 60 : 24);
  // Data close to a grid node.  After the conditioning, CalcSimuTurningBands::_updateData2ToTarget copies the value of
  // a datum onto the grid node it "coincides" with, coincidence meaning closer than 1e-6 x dbin->getExtensionDiagonal()
  // - an extension taken over ALL samples (useSel = false), so the far-away coordinates of masked samples switch that
  // snapping off.  (a) accidental near-coincidences are removed (every datum is kept > 1e-2 away from every node);
  // (b) now and then one kept datum is put 2e-5 away from an active node on purpose, under its own key.
  bool nearNode = false;
  if (cond)
  {
    auto nodeCoord = [&](int j, int d) { int idx = j; for (int k = 0; k < d; k++) idx /= g.nx[k]; return g.x0[d] + (idx % g.nx[d]) * g.dx[d]; };
    for (int i = 0; i < s.n; i++)
      for (int j = 0; j < g.m; j++)
      {
        double d2 = 0;
        for (int d = 0; d < s.ndim; d++) d2 += (s.x[d][i] - nodeCoord(j, d)) * (s.x[d][i] - nodeCoord(j, d));
        if (d2 < 1e-4) s.x[0][i] += 0.05;
      }
    nearNode = r.coin(hasUndefValueSamples(s) ? 0.3 : 0.1) && s.nkept() >= 3 && !g.active.empty() && s.by != BY_SELNA && s.by != BY_UCOORD;
    if (nearNode)
    {
      int i = s.kept[r.irange(0, s.nkept() - 1)], j = g.active[r.irange(0, (int)g.active.size() - 1)];
      for (int d = 0; d < s.ndim; d++) s.x[d][i] = nodeCoord(j, d) + (d == 0 ? 2e-5 : 0.);
    }
  }
  // (c) every other such case: a datum MASKED by the selection (coordinates not poisoned) is put exactly on an active grid node.
  // Its (poisoned) value must not be copied onto that node; the reduced run does not contain it.
  if (cond && !nearNode && s.by == BY_SEL && !s.poisonCoord && !g.active.empty() && c.icase % 2 == 0)
  {
    auto nodeCoord = [&](int j, int d) { int idx = j; for (int k = 0; k < d; k++) idx /= g.nx[k]; return g.x0[d] + (idx % g.nx[d]) * g.dx[d]; };
    for (int i = 0; i < s.n; i++)
      if (s.cls[i] != KEEP)
      {
        int j = g.active[(size_t)(c.icase / 2) % g.active.size()];
        for (int d = 0; d < s.ndim; d++) s.x[d][i] = nodeCoord(j, d);
        c.probe("simtub:masked-datum-on-grid-node");
        break;
      }
  }
  bool linear = r.coin(hasUndefValueSamples(s) ? 0.3 : 0.15) && !avoid("linear", AVOID_LINEAR) && s.by != BY_SELNA && !nearNode; // (one exotic feature at a time)
  // (a field reduced to ONE point has a zero extension: the intrinsic generator then never returns, masks or not)
  if (linear && (cond ? s.nkept() + (int)g.active.size() : (int)t.active.size()) < 3) linear = false;
  if (linear)
  {
    // intrinsic model: besides the field constant, its turning-band generator is driven by the Poisson intensity
    // that CalcSimuTurningBands::_setDensity derives from the number of points to simulate (masked ones included)
    model = genLinearModel(r, s.nvar, ms);
    drift = 0;
  }
  int nbsimu = r.irange(1, 3);
  int nbtuba = r.pick(std::vector<int> {1, 2, 3, 5, 10, 30, 100});
  int seed   = r.irange(1, 1000000);
  std::string kind = cond ? "simtub-cond" : "simtub-nc";
  if (!cond) nd = "none";
  SelMode tsel = cond ? g.selMode : t.selMode;
  int nact     = cond ? (int)g.active.size() : (int)t.active.size();
  c.setSig(fmt("%s:%s:ndim=%d:nvar=%d:%s:tsel=%s:drift=%d:nbtuba=%d:near=%d", kind.c_str(), nd.c_str(), s.ndim, s.nvar, cond ? s.sigtag().c_str() : "-",
               SELN[tsel], drift, nbtuba, (int)nearNode));
  c.puts("op", kind);
  c.puts("neigh", nd);
  c.puts("model", ms.desc);
  c.put("n_kept_targets", fmt("[%d,%d,%d,%d]", s.n, s.nkept(), cond ? g.m : t.m, nact));
  auto dinM = mkMasked(r, s);
  auto dinR = mkReduced(s);
  std::unique_ptr<Db> doutM, doutR;
  std::vector<int> mapA, off;
  const std::vector<int>* mapB = nullptr;
  if (cond)
  {
    // the reference run uses the SAME masked grid: only the data are physically reduced.  (A grid cannot lose
    // cells; and an unmasked grid is not a valid reference because the nugget component draws one gaussian per
    // ACTIVE cell in sequence, so that the k-th active cell gets the k-th draw.)  Physically removed targets are
    // monitored by the non-conditional variant below and by the kriging operation.
    doutM = mkGrid(g, true);
    doutR = mkGrid(g, true);
    mapA  = g.active;
    mapB  = &g.active;
    for (int j = 0; j < g.m; j++) if (g.masked[j]) off.push_back(j);
  }
  else
  {
    doutM = mkTargetsMasked(t);
    doutR = mkTargetsReduced(t);
    mapA  = t.active;
    for (int j = 0; j < t.m; j++) if (t.masked[j]) off.push_back(j);
  }
  Key K = cond ? mkKey(kind, "", s, ns.kind == 2) : Key {"C05:" + kind + ":by=none", false};
  if (cond && linear && !K.collapsed && hasUndefValueSamples(s)) K = extentKey(kind, "linear-model");
  if (nearNode && !K.collapsed && hasUndefValueSamples(s)) K = extentKey(kind, "datum-near-grid-node");
  int ncM = doutM->getColumnNumber(), ncR = doutR->getColumnNumber(), ncDin = dinM->getColumnNumber();
  std::vector<double> snapOut = snapshot(doutM.get(), ncM), snapIn = snapshot(dinM.get(), ncDin);
  auto neigh = mkNeigh(ns, false), neighR = mkNeigh(ns, false);
  bool nothing = (cond && s.nkept() == 0) || nact == 0;
  TRACE(c, "%s %s n=%d kept=%d active targets=%d nbtuba=%d -> masked run", kind.c_str(), s.sigtag().c_str(), s.n, s.nkept(), nact, nbtuba);
  int errM = simtub(cond ? dinM.get() : nullptr, doutM.get(), model.get(), cond ? neigh.get() : nullptr, nbsimu, seed, nbtuba);
  // "Masked target sites are left untouched and keep the undefined value in newly created output variables"
  std::string Koff = "C05:simtub:masked-target-not-TEST";
  if (nothing)
  {
    if (nact == 0)
    {
      std::string w;
      bool ok = allNewUndefined(doutM.get(), ncM, w);
      c.truth("simtub:off-rows-TEST", Koff, ok, fmt("(no active target) rc=%d ", errM) + w);
    }
    else
      c.probe("simtub:no-active-data"); // conditional simulation without any active datum: no reference to compare with
  }
  else
  {
    TRACE(c, "-> reduced run");
    int errR = simtub(cond ? dinR.get() : nullptr, doutR.get(), model.get(), cond ? neighR.get() : nullptr, nbsimu, seed, nbtuba);
    c.truth("simtub:rc", K + ":return-code", (errM == 0) == (errR == 0), fmt("masked run rc=%d reduced run rc=%d (kept=%d active targets=%d)", errM, errR, s.nkept(), nact));
    if (errM == 0 && errR == 0)
      cmpOutputs(c, "simtub", K, doutM.get(), ncM, mapA, off, doutR.get(), ncR, true, 0, 0, Koff, mapB);
  }
  c.truth("simtub:target-untouched", "C05:" + kind + ":target-columns-modified", sameSnapshot(snapOut, snapshot(doutM.get(), ncM)), "pre-existing columns of the target Db changed");
  if (cond && errM == 0) // (what a FAILED call leaves behind is C19's subject)
    c.truth("simtub:data-untouched", "C05:" + kind + ":data-columns-modified",
            dinM->getColumnNumber() == ncDin && sameSnapshot(snapIn, snapshot(dinM.get(), ncDin)),
            fmt("data Db changed (columns %d -> %d)", ncDin, dinM->getColumnNumber()));
}

// ===================================================================================================
// migrate (point -> point): the value of the closest ACTIVE sample.
// Undefined-value samples are not generated here: whether "the closest sample carries an undefined value" must
// yield TEST or the next defined sample is not documented (convention not settled, see report).
// ===================================================================================================
static void opMigrate(Rng& r, Ctx& c)
{
  GenOpt o;
  o.nmax    = c.thorough() ? 150 : 40;
  o.nvarMax = 2;
  Samples s;
  for (int att = 0;; att++)
  {
    s = genSamples(r, o);
    // (no heterotopy either: same convention question)
    if ((s.by == BY_NONE || s.by == BY_SEL || s.by == BY_UCOORD) && !s.hetero) break;
  }
  defineDefaultSpace(ESpaceType::RN, s.ndim);
  Targets t = genTargets(r, s, 4, c.thorough() ? 60 : 20);
  int distType = r.irange(1, 2);
  VectorDouble dmax;
  if (r.coin(0.5)) { dmax.resize(s.ndim); for (auto& d : dmax) d = r.uni(10, 60); }
  bool ball = r.coin(0.4) && !avoid("ball", AVOID_BALL);
  bool multi = s.nvar > 1 && r.coin(0.5);
  std::string var = ball ? "ball" : "plain";
  c.setSig(fmt("migrate:%s:ndim=%d:nvar=%d:%s:tsel=%s:dist=%d:dmax=%d:multi=%d", var.c_str(), s.ndim, s.nvar, s.sigtag().c_str(), SELN[t.selMode], distType,
               (int)!dmax.empty(), (int)multi));
  c.puts("op", "migrate");
  c.puts("variant", var);
  c.put("n_kept_targets", fmt("[%d,%d,%d,%d]", s.n, s.nkept(), t.m, (int)t.active.size()));
  auto dinM = mkMasked(r, s);
  auto dinR = mkReduced(s);
  auto doutM = mkTargetsMasked(t);
  auto doutR = mkTargetsReduced(t);
  Key K = mkKey("migrate", var, s, ball);
  int ncM = doutM->getColumnNumber(), ncR = doutR->getColumnNumber(), ncDin = dinM->getColumnNumber();
  std::vector<double> snapOut = snapshot(doutM.get(), ncM), snapIn = snapshot(dinM.get(), ncDin);
  bool nothing = s.nkept() == 0 || t.active.empty();
  TRACE(c, "migrate %s %s n=%d kept=%d targets=%d active=%zu -> masked run", var.c_str(), s.sigtag().c_str(), s.n, s.nkept(), t.m, t.active.size());
  auto run = [&](Db* din, Db* dout) {
    if (multi) return migrateMulti(din, dout, varNames(s.nvar), distType, dmax, false, false, ball);
    return migrate(din, dout, "z1", distType, dmax, false, false, ball);
  };
  int errM = run(dinM.get(), doutM.get());
  std::vector<int> off;
  for (int j = 0; j < t.m; j++) if (t.masked[j]) off.push_back(j);
  if (nothing)
  {
    std::string w;
    bool ok = allNewUndefined(doutM.get(), ncM, w);
    c.truth("migrate:nothing-left", K.nothing("C05:migrate:" + var + (s.nkept() == 0 ? ":no-active-data" : ":no-active-target") + ":value-produced"), ok, fmt("rc=%d ", errM) + w);
  }
  else
  {
    TRACE(c, "-> reduced run");
    int errR = run(dinR.get(), doutR.get());
    c.truth("migrate:rc", K + ":return-code", (errM == 0) == (errR == 0), fmt("masked run rc=%d reduced run rc=%d", errM, errR));
    if (errM == 0 && errR == 0)
      cmpOutputs(c, "migrate", K, doutM.get(), ncM, t.active, off, doutR.get(), ncR, true, 0, 0);
  }
  c.truth("migrate:target-untouched", "C05:migrate:target-columns-modified", sameSnapshot(snapOut, snapshot(doutM.get(), ncM)), "pre-existing columns of the target Db changed");
  c.truth("migrate:data-untouched", "C05:migrate:data-columns-modified", dinM->getColumnNumber() == ncDin && sameSnapshot(snapIn, snapshot(dinM.get(), ncDin)), "data Db changed");
}


// ===================================================================================================
// the selection / definedness predicates and selection-aware getters of Db themselves, against what the harness
// knows about the sample set (anchor: Db::isActive, getSelection, isActiveAndDefined, getRanksActive, ...)
// ===================================================================================================
static void opDbPredicates(Rng& r, Ctx& c)
{
  GenOpt o;
  o.nmax        = c.thorough() ? 200 : 50;
  o.nvarMax     = 3;
  o.allowUcoord = false;
  o.pWeight     = 0.3;
  Samples s;
  for (;;)
  {
    s = genSamples(r, o);
    if (s.by == BY_NONE || s.by == BY_SEL || s.by == BY_SELNA) break; // selection only: values stay as generated
  }
  defineDefaultSpace(ESpaceType::RN, s.ndim);
  c.setSig(fmt("db-predicates:ndim=%d:nvar=%d:%s:w=%d", s.ndim, s.nvar, s.sigtag().c_str(), (int)!s.w.empty()));
  c.puts("op", "Db predicates and selection-aware getters");
  c.put("n_kept", fmt("[%d,%d]", s.n, s.nkept()));
  auto dM = mkMasked(r, s);
  auto dR = mkReduced(s);
  Key K   = mkKey("db", "", s);
  const Db* db = dM.get();
  int nk = s.nkept();
  // counts
  c.truth("db:getSampleNumber", K + ":getSampleNumber", db->getSampleNumber(false) == s.n && db->getSampleNumber(true) == nk,
          fmt("getSampleNumber(false)=%d (n=%d) getSampleNumber(true)=%d (active=%d)", db->getSampleNumber(false), s.n, db->getSampleNumber(true), nk));
  // isActive / getSelection / getActiveArray
  {
    bool ok = true;
    std::string w;
    VectorBool aa = db->getActiveArray();
    for (int i = 0; i < s.n && ok; i++)
    {
      bool want = s.cls[i] == KEEP;
      if (db->isActive(i) != want || (db->getSelection(i) != 0) != want || (bool)aa[i] != want)
      { ok = false; w = fmt("sample %d: isActive=%d getSelection=%d getActiveArray=%d expected %d", i, (int)db->isActive(i), db->getSelection(i), (int)aa[i], (int)want); }
    }
    c.truth("db:isActive", K + ":isActive", ok, w);
  }
  // ranks
  {
    VectorInt ra = db->getRanksActive();
    bool ok = (int)ra.size() == nk;
    for (int k = 0; ok && k < nk; k++) ok = ra[k] == s.kept[k];
    c.truth("db:getRanksActive", K + ":getRanksActive", ok, fmt("size %zu expected %d", (size_t)ra.size(), nk));
    bool ok2 = true;
    std::string w;
    for (int k = 0; k < nk && ok2; k++)
      if (db->getRankRelativeToAbsolute(k) != s.kept[k] || db->getRankAbsoluteToRelative(s.kept[k]) != k)
      { ok2 = false; w = fmt("relative %d <-> absolute %d: got abs=%d rel=%d", k, s.kept[k], db->getRankRelativeToAbsolute(k), db->getRankAbsoluteToRelative(s.kept[k])); }
    c.truth("db:rank-conversion", K + ":rank-conversion", ok2, w);
  }
  // per variable: active and defined
  for (int v = 0; v < s.nvar; v++)
  {
    std::vector<int> want;
    for (int i : s.kept) if (!FFFF(s.z[v][i])) want.push_back(i);
    VectorInt ra = db->getRanksActive(VectorInt(), v);
    bool ok = ra.size() == want.size();
    for (size_t k = 0; ok && k < want.size(); k++) ok = ra[k] == want[k];
    c.truth("db:getRanksActive(item)", K + ":getRanksActive-item", ok, fmt("variable %d: size %zu expected %zu", v, (size_t)ra.size(), want.size()));
    int n1 = db->getActiveAndDefinedNumber(v), n2 = db->getNumberActiveAndDefined(v);
    c.truth("db:activeAndDefinedNumber", K + ":activeAndDefinedNumber", n1 == (int)want.size() && n2 == (int)want.size(),
            fmt("variable %d: getActiveAndDefinedNumber=%d getNumberActiveAndDefined=%d expected %zu", v, n1, n2, want.size()));
    bool ok3 = true;
    for (int i = 0; i < s.n && ok3; i++) ok3 = db->isActiveAndDefined(i, v) == (s.cls[i] == KEEP && !FFFF(s.z[v][i]));
    c.truth("db:isActiveAndDefined", K + ":isActiveAndDefined", ok3);
  }
  {
    VectorVectorInt mr = db->getMultipleRanksActive();
    bool ok = (int)mr.size() == s.nvar;
    for (int v = 0; ok && v < s.nvar; v++)
    {
      std::vector<int> want;
      for (int i : s.kept) if (!FFFF(s.z[v][i])) want.push_back(i);
      ok = mr[v].size() == want.size();
      for (size_t k = 0; ok && k < want.size(); k++) ok = mr[v][k] == want[k];
    }
    c.truth("db:getMultipleRanksActive", K + ":getMultipleRanksActive", ok);
    // explicit variable lists (any order, any subset): list k must describe variable ivars[k]
    for (int trial = 0; trial < 2; trial++)
    {
      VectorInt ivars;
      if (trial == 0) ivars.push_back(s.nvar - 1);
      else for (int v = s.nvar - 1; v >= 0; v--) ivars.push_back(v);
      VectorVectorInt ms = db->getMultipleRanksActive(ivars);
      bool ok2 = ms.size() == ivars.size();
      std::string w;
      for (size_t q = 0; ok2 && q < ivars.size(); q++)
      {
        std::vector<int> want;
        for (int i : s.kept) if (!FFFF(s.z[ivars[q]][i])) want.push_back(i);
        ok2 = ms[q].size() == want.size();
        for (size_t k = 0; ok2 && k < want.size(); k++) ok2 = ms[q][k] == want[k];
        if (!ok2) w = fmt("list %zu (variable %d): %zu ranks, expected %zu", q, ivars[q], (size_t)ms[q].size(), want.size());
      }
      c.truth("db:getMultipleRanksActive(ivars)", K + ":getMultipleRanksActive-subset", ok2, w);
    }
  }
  // columns read through the selection == columns of the reduced Db
  if (nk > 0)
  {
    VectorString names = varNames(s.nvar);
    for (auto& nm : coordNames(s.ndim)) names.push_back(nm);
    if (!s.w.empty()) names.push_back("w");
    for (auto& nm : names)
    {
      VectorDouble a = db->getColumn(nm, true, true), b = dR->getColumn(nm, false, true);
      cmpVecExact(c, "db:getColumn(useSel,compress)", K + ":getColumn-compressed", nm, a, b);
      VectorDouble full = db->getColumn(nm, true, false);
      bool ok = (int)full.size() == s.n;
      std::string w = fmt("size %zu", (size_t)full.size());
      for (int i = 0, k = 0; ok && i < s.n; i++)
      {
        if (s.cls[i] == KEEP) { ok = sameBits(full[i], b[k]); k++; }
        else ok = full[i] == TEST;
        if (!ok) w = fmt("%s[%d]=%.17g", nm.c_str(), i, full[i]);
      }
      c.truth("db:getColumn(useSel,nocompress)", K + ":getColumn-uncompressed", ok, w);
    }
    cmpVecExact(c, "db:getColumns", K + ":getColumns", "getColumns", db->getColumns(varNames(s.nvar), true, true), dR->getColumns(varNames(s.nvar), false, true));
    cmpVecExact(c, "db:getColumnsByLocator", K + ":getColumnsByLocator", "Z", db->getColumnsByLocator(ELoc::Z, true, true), dR->getColumnsByLocator(ELoc::Z, false, true));
    cmpVecExact(c, "db:getColumnsActiveAndDefined", K + ":getColumnsActiveAndDefined", "Z", db->getColumnsActiveAndDefined(ELoc::Z), dR->getColumnsActiveAndDefined(ELoc::Z));
    cmpVecExact(c, "db:getMultipleValuesActive", K + ":getMultipleValuesActive", "Z", db->getMultipleValuesActive(), dR->getMultipleValuesActive());
    for (int d = 0; d < s.ndim; d++)
    {
      cmpVecExact(c, "db:getCoordinates", K + ":getCoordinates", fmt("x%d", d + 1), db->getCoordinates(d, true), dR->getCoordinates(d, false));
      cmpVecExact(c, "db:getExtrema", K + ":getExtrema", fmt("x%d", d + 1), db->getExtrema(d, true), dR->getExtrema(d, false));
    }
    cmpVecExact(c, "db:getCoorMinimum", K + ":getCoorMinimum", "min", db->getCoorMinimum(true), dR->getCoorMinimum(false));
    cmpVecExact(c, "db:getCoorMaximum", K + ":getCoorMaximum", "max", db->getCoorMaximum(true), dR->getCoorMaximum(false));
    cmpVecExact(c, "db:getCenters", K + ":getCenters", "centers", db->getCenters(true), dR->getCenters(false));
    c.close("db:getExtensionDiagonal", K + ":getExtensionDiagonal", db->getExtensionDiagonal(true), dR->getExtensionDiagonal(false), 0);
    if (!s.w.empty())
      cmpVecExact(c, "db:getWeights", K + ":getWeights", "w", db->getWeights(true), dR->getWeights(false));
    // the library's own reduction helpers against the harness' reduced Db
    {
      std::unique_ptr<Db> cr(Db::createReduce(db));
      bool ok = cr && cr->getSampleNumber() == nk;
      c.truth("db:createReduce", K + ":createReduce", ok, fmt("createReduce has %d samples, expected %d", cr ? cr->getSampleNumber() : -1, nk));
      if (ok)
        for (auto& nm : names)
          cmpVecExact(c, "db:createReduce", K + ":createReduce", nm, cr->getColumn(nm, false, false), dR->getColumn(nm, false, false));
      std::unique_ptr<Db> del(db->clone());
      VectorInt drop;
      for (int i = 0; i < s.n; i++) if (s.cls[i] != KEEP) drop.push_back(i);
      if (!drop.empty())
      {
        int err = del->deleteSamples(drop);
        bool ok2 = err == 0 && del->getSampleNumber() == nk;
        c.truth("db:deleteSamples", K + ":deleteSamples", ok2, fmt("rc=%d samples=%d expected %d", err, del->getSampleNumber(), nk));
        if (ok2)
          for (auto& nm : names)
            cmpVecExact(c, "db:deleteSamples", K + ":deleteSamples", nm, del->getColumn(nm, false, false), dR->getColumn(nm, false, false));
      }
    }
  }
}


// ===================================================================================================
// gaussian anamorphosis: fit on a Db (+ transform of the Db through the fitted function)
// ===================================================================================================
static void opAnam(Rng& r, Ctx& c)
{
  GenOpt o;
  o.nmin = 12; o.nmax = c.thorough() ? 200 : 50;
  o.nvarMax = 1;
  o.allowUcoord = false;
  o.pWeight = 0.3;
  o.minKept = 6;
  o.allowEmpty = false;
  Samples s = genSamples(r, o);
  defineDefaultSpace(ESpaceType::RN, s.ndim);
  int nbpoly   = r.irange(3, 12);
  bool byLoc   = r.coin();
  c.setSig(fmt("anam:hermite:%s:%s:w=%d", byLoc ? "fitFromLocator" : "fit", s.sigtag().c_str(), (int)!s.w.empty()));
  c.puts("op", "AnamHermite::fit + rawToGaussian");
  c.put("n_kept", fmt("[%d,%d]", s.n, s.nkept()));
  auto dM = mkMasked(r, s);
  auto dR = mkReduced(s);
  Key K = mkKey("anam-fit", "", s);
  std::unique_ptr<AnamHermite> aM(AnamHermite::create(nbpoly)), aR(AnamHermite::create(nbpoly));
  int ncM = dM->getColumnNumber(), ncR = dR->getColumnNumber();
  std::vector<double> snap = snapshot(dM.get(), ncM);
  TRACE(c, "anam %s n=%d kept=%d", s.sigtag().c_str(), s.n, s.nkept());
  int eM = byLoc ? aM->fitFromLocator(dM.get()) : aM->fit(dM.get(), "z1");
  int eR = byLoc ? aR->fitFromLocator(dR.get()) : aR->fit(dR.get(), "z1");
  c.truth("anam:rc", K + ":return-code", (eM == 0) == (eR == 0), fmt("masked run rc=%d reduced run rc=%d", eM, eR));
  if (eM == 0 && eR == 0)
  {
    cmpVecExact(c, "anam:psi", K + ":coefficients-differ", "psi", aM->getPsiHns(), aR->getPsiHns());
    c.close("anam:variance", K + ":variance-differs", aM->getVariance(), aR->getVariance(), 0);
    // transform the Db with its own anamorphosis: masked rows keep TEST in the new variable
    int tM = aM->rawToGaussian(dM.get(), "z1"), tR = aR->rawToGaussian(dR.get(), "z1");
    c.truth("anam:transform-rc", K + ":transform-return-code", (tM == 0) == (tR == 0), fmt("masked run rc=%d reduced run rc=%d", tM, tR));
    std::vector<int> off;
    for (int i = 0; i < s.n; i++) if (s.cls[i] & MASKED) off.push_back(i);
    if (tM == 0 && tR == 0)
      cmpOutputs(c, "anam-transform", mkKey("anam-transform", "", s), dM.get(), ncM, s.kept, off, dR.get(), ncR, true, 0, 0,
                 "C05:anam-transform:masked-row-not-TEST");
  }
  c.truth("anam:data-untouched", "C05:anam:data-columns-modified", sameSnapshot(snap, snapshot(dM.get(), ncM)), "pre-existing columns changed");
}

// ===================================================================================================
// PCA / MAF: fit on a Db, then factors
// ===================================================================================================
static void opPCA(Rng& r, Ctx& c)
{
  GenOpt o;
  o.nmin = 12; o.nmax = c.thorough() ? 200 : 50;
  o.nvarMax = 3;
  o.minKept = 6;
  o.allowEmpty = false;
  o.allowUcoord = false;
  Samples s;
  for (;;) { s = genSamples(r, o); if (s.nvar >= 2) break; }
  bool maf = r.coin(0.4);
  defineDefaultSpace(ESpaceType::RN, s.ndim);
  c.setSig(fmt("%s:ndim=%d:nvar=%d:%s", maf ? "maf" : "pca", s.ndim, s.nvar, s.sigtag().c_str()));
  c.puts("op", maf ? "PCA::maf_compute + dbZ2F" : "PCA::pca_compute + dbZ2F");
  c.put("n_kept", fmt("[%d,%d]", s.n, s.nkept()));
  auto dM = mkMasked(r, s);
  auto dR = mkReduced(s);
  Key K = mkKey(maf ? "maf-fit" : "pca-fit", "", s);
  int ncM = dM->getColumnNumber(), ncR = dR->getColumnNumber();
  std::vector<double> snap = snapshot(dM.get(), ncM);
  PCA pM(s.nvar), pR(s.nvar);
  std::unique_ptr<VarioParam> vp(VarioParam::createOmniDirection(4, r.uni(10, 25), 0.5));
  TRACE(c, "pca/maf %s n=%d kept=%d", s.sigtag().c_str(), s.n, s.nkept());
  int eM = maf ? pM.maf_compute(dM.get(), *vp, 1, 0) : pM.pca_compute(dM.get());
  int eR = maf ? pR.maf_compute(dR.get(), *vp, 1, 0) : pR.pca_compute(dR.get());
  c.truth("pca:rc", K + ":return-code", (eM == 0) == (eR == 0), fmt("masked run rc=%d reduced run rc=%d", eM, eR));
  if (eM == 0 && eR == 0)
  {
    cmpVecExact(c, "pca:means", K + ":differs", "means", pM.getMeans(), pR.getMeans());
    cmpVecExact(c, "pca:sigmas", K + ":differs", "sigmas", pM.getSigmas(), pR.getSigmas());
    cmpMatExact(c, "pca:c0", K + ":differs", "c0", pM.getC0(), pR.getC0());
    cmpVecExact(c, "pca:eigvals", K + ":differs", "eigvals", pM.getEigVals(), pR.getEigVals());
    cmpMatExact(c, "pca:eigvecs", K + ":differs", "eigvecs", pM.getEigVecs(), pR.getEigVecs());
    int tM = pM.dbZ2F(dM.get()), tR = pR.dbZ2F(dR.get());
    c.truth("pca:z2f-rc", K + ":z2f-return-code", (tM == 0) == (tR == 0), fmt("masked run rc=%d reduced run rc=%d", tM, tR));
    std::vector<int> off;
    for (int i = 0; i < s.n; i++) if (s.cls[i] & MASKED) off.push_back(i);
    if (tM == 0 && tR == 0)
      cmpOutputs(c, "pca-z2f", mkKey("pca-z2f", "", s), dM.get(), ncM, s.kept, off, dR.get(), ncR, true, 0, 0);
  }
  c.truth("pca:data-untouched", "C05:pca:data-columns-modified", sameSnapshot(snap, snapshot(dM.get(), ncM)), "pre-existing columns changed");
}

// ===================================================================================================
// polygons: selection from a polygon (db_polygon, previous selection taken into account), convex hull of the ACTIVE
// samples (Polygons::createFromDb, db_selhull)
// ===================================================================================================
static void opPolygon(Rng& r, Ctx& c)
{
  GenOpt o;
  o.ndimMin = o.ndimMax = 2;
  o.nmax = c.thorough() ? 150 : 40;
  o.nvarMax = 1;
  o.minKept = 4;
  o.allowEmpty = false;
  Samples s;
  for (;;) { s = genSamples(r, o); if (s.by == BY_NONE || s.by == BY_SEL || s.by == BY_SELNA) break; }
  defineDefaultSpace(ESpaceType::RN, 2);
  int which = r.irange(0, 2);
  static const char* WN[] = {"db_polygon", "Polygons::createFromDb", "db_selhull"};
  c.setSig(fmt("polygon:%s:%s", WN[which], s.sigtag().c_str()));
  c.puts("op", WN[which]);
  c.put("n_kept", fmt("[%d,%d]", s.n, s.nkept()));
  auto dM = mkMasked(r, s);
  auto dR = mkReduced(s);
  Key K = mkKey(WN[which], "", s);
  int ncM = dM->getColumnNumber(), ncR = dR->getColumnNumber();
  std::vector<int> off;
  for (int i = 0; i < s.n; i++) if (s.cls[i] & MASKED) off.push_back(i);
  TRACE(c, "polygon %s %s n=%d kept=%d", WN[which], s.sigtag().c_str(), s.n, s.nkept());
  if (which == 0)
  {
    // a random convex quadrilateral around the centre of the field
    VectorDouble px, py;
    double cx = r.uni(30, 70), cy = r.uni(30, 70);
    int nv = r.irange(3, 6);
    std::vector<double> ang(nv);
    for (auto& a : ang) a = r.uni(0, 6.283185307);
    std::sort(ang.begin(), ang.end());
    for (int k = 0; k < nv; k++) { double rad = r.uni(20, 45); px.push_back(cx + rad * std::cos(ang[k])); py.push_back(cy + rad * std::sin(ang[k])); }
    px.push_back(px[0]); py.push_back(py[0]);
    std::unique_ptr<Polygons> poly(Polygons::create());
    poly->addPolyElem(PolyElem(px, py));
    // flag_sel = true: "true if previous selection must be taken into account" => a masked sample stays off
    db_polygon(dM.get(), poly.get(), true, false, false);
    db_polygon(dR.get(), poly.get(), true, false, false);
    VectorString na = newColumns(dM.get(), ncM), nb = newColumns(dR.get(), ncR);
    if (c.truth("polygon:columns", K + ":new-columns-differ", na.size() == 1 && nb.size() == 1, "one selection expected"))
    {
      VectorDouble a = dM->getColumn(na[0], false, false), b = dR->getColumn(nb[0], false, false);
      bool ok = true;
      std::string w;
      for (int k = 0; k < s.nkept() && ok; k++)
        if (!sameBits(a[s.kept[k]], b[k])) { ok = false; w = fmt("sample %d: masked-run=%g reduced-run=%g", s.kept[k], a[s.kept[k]], b[k]); }
      c.truth("polygon:sel-equal", K + ":differs", ok, w);
      bool ok2 = true;
      for (int i : off) if (a[i] != 0.) { ok2 = false; w = fmt("masked sample %d got selection value %g", i, a[i]); }
      c.truth("polygon:masked-stays-off", K + ":masked-sample-selected", ok2, w);
    }
  }
  else if (which == 1)
  {
    double dilate = r.coin() ? 0. : r.uni(1, 5);
    std::unique_ptr<Polygons> pM(Polygons::createFromDb(dM.get(), dilate)), pR(Polygons::createFromDb(dR.get(), dilate));
    if (c.truth("hull:null", K + ":null-result", (!pM) == (!pR), "one of the two is null") && pM)
    {
      bool same = pM->getPolyElemNumber() == pR->getPolyElemNumber() && pM->getPolyElemNumber() == 1;
      if (c.truth("hull:count", K + ":differs", same, fmt("polyelems %d vs %d", pM->getPolyElemNumber(), pR->getPolyElemNumber())))
      {
        cmpVecExact(c, "hull:x", K + ":differs", "x", pM->getPolyElem(0).getX(), pR->getPolyElem(0).getX());
        cmpVecExact(c, "hull:y", K + ":differs", "y", pM->getPolyElem(0).getY(), pR->getPolyElem(0).getY());
      }
    }
  }
  else
  {
    Targets t = genTargets(r, s, 5, 20);
    auto tM = mkTargetsMasked(t);
    auto tR = mkTargetsReduced(t);
    int n1 = tM->getColumnNumber(), n2 = tR->getColumnNumber();
    double dilate = r.coin() ? 0. : r.uni(1, 5);
    bool nothing = t.active.empty();
    int eM = db_selhull(dM.get(), tM.get(), dilate);
    if (!nothing)
    {
      int eR = db_selhull(dR.get(), tR.get(), dilate);
      c.truth("selhull:rc", K + ":return-code", (eM == 0) == (eR == 0), fmt("masked run rc=%d reduced run rc=%d", eM, eR));
      VectorString na = newColumns(tM.get(), n1), nb = newColumns(tR.get(), n2);
      if (eM == 0 && eR == 0 && c.truth("selhull:columns", K + ":new-columns-differ", na.size() == 1 && nb.size() == 1, "one selection expected"))
      {
        VectorDouble a = tM->getColumn(na[0], false, false), b = tR->getColumn(nb[0], false, false);
        bool ok = true;
        std::string w;
        for (size_t k = 0; k < t.active.size() && ok; k++)
          if (!sameBits(a[t.active[k]], b[k])) { ok = false; w = fmt("target %d: masked-run=%g reduced-run=%g", t.active[k], a[t.active[k]], b[k]); }
        c.truth("selhull:sel-equal", K + ":differs", ok, w);
      }
    }
  }
}

// ===================================================================================================
// variogram map and variogram cloud of a point Db (results are grids)
// ===================================================================================================
static void cmpGrids(Ctx& c, const std::string& op, const Key& K, DbGrid* gM, DbGrid* gR)
{
  if (!c.truth(op + ":null", K + ":null-result", (!gM) == (!gR), fmt("masked-run %s reduced-run %s", gM ? "grid" : "null", gR ? "grid" : "null")) || !gM) return;
  bool same = gM->getNDim() == gR->getNDim() && gM->getSampleNumber() == gR->getSampleNumber();
  for (int d = 0; same && d < gM->getNDim(); d++)
    same = gM->getNX(d) == gR->getNX(d) && sameBits(gM->getDX(d), gR->getDX(d)) && sameBits(gM->getX0(d), gR->getX0(d));
  if (!c.truth(op + ":geometry", K + ":grid-geometry-differs", same,
               fmt("dx[0] masked-run=%.17g reduced-run=%.17g", gM->getDX(0), gR->getDX(0)))) return;
  bool cols = gM->getColumnNumber() == gR->getColumnNumber();
  if (!c.truth(op + ":columns", K + ":columns-differ", cols, fmt("%d vs %d columns", gM->getColumnNumber(), gR->getColumnNumber()))) return;
  for (int ic = 0; ic < gM->getColumnNumber(); ic++)
    cmpVecExact(c, op + ":equal", K + ":differs", gM->getNameByColIdx(ic), gM->getColumnByColIdx(ic, false, false), gR->getColumnByColIdx(ic, false, false));
}
static void opVmapCloud(Rng& r, Ctx& c)
{
  GenOpt o;
  o.ndimMax = 2;
  o.nmax = c.thorough() ? 80 : 30;
  o.nvarMax = 2;
  o.minKept = 3;
  o.allowEmpty = false;
  o.allowUcoord = false; // (the map / cloud extents are computed from the coordinates of all samples: see rule)
  bool cloud = r.coin(0.4);
  if (!cloud) o.ndimMin = 2; // db_vmap refuses 1-D data
  Samples s = genSamples(r, o);
  if (cloud) { s.nvar = 1; s.z.resize(1); s.hetero = false; }
  defineDefaultSpace(ESpaceType::RN, s.ndim);
  bool dflt = r.coin(hasUndefValueSamples(s) ? 0.8 : 0.5); // let the function derive mesh / extents from the Db itself
  c.setSig(fmt("%s:ndim=%d:nvar=%d:%s:default-extent=%d", cloud ? "vcloud" : "vmap", s.ndim, s.nvar, s.sigtag().c_str(), (int)dflt));
  c.puts("op", cloud ? "db_vcloud" : "db_vmap");
  c.put("n_kept", fmt("[%d,%d]", s.n, s.nkept()));
  auto dM = mkMasked(r, s);
  auto dR = mkReduced(s);
  // default mesh / extents are derived from the Db by the function itself: one key per function for that feature
  Key K = mkKey(cloud ? "db_vcloud" : "db_vmap", dflt ? "default-extent" : "given-extent", s);
  if (dflt && !K.collapsed && hasUndefValueSamples(s)) K = extentKey(cloud ? "db_vcloud" : "db_vmap", "default-extent");
  int ncM = dM->getColumnNumber();
  std::vector<double> snap = snapshot(dM.get(), ncM);
  TRACE(c, "%s %s n=%d kept=%d dflt=%d", cloud ? "vcloud" : "vmap", s.sigtag().c_str(), s.n, s.nkept(), (int)dflt);
  if (cloud)
  {
    std::unique_ptr<VarioParam> vp(VarioParam::createOmniDirection(5, 20., 0.5));
    double lagmax = dflt ? TEST : 120., varmax = dflt ? TEST : 30.;
    std::unique_ptr<DbGrid> gM(db_vcloud(dM.get(), vp.get(), lagmax, varmax, 8, 6)), gR(db_vcloud(dR.get(), vp.get(), lagmax, varmax, 8, 6));
    cmpGrids(c, "vcloud", K, gM.get(), gR.get());
  }
  else
  {
    static const std::vector<ECalcVario> calcs = {ECalcVario::VARIOGRAM, ECalcVario::COVARIANCE, ECalcVario::COVARIANCE_NC, ECalcVario::MADOGRAM};
    ECalcVario calc = r.pick(calcs);
    VectorInt nxx(s.ndim);
    for (auto& v : nxx) v = r.irange(2, 4);
    VectorDouble dxx;
    if (!dflt) { dxx.resize(s.ndim); for (auto& v : dxx) v = r.uni(8, 20); }
    std::unique_ptr<DbGrid> gM(db_vmap(dM.get(), calc, nxx, dxx, 0, false)), gR(db_vmap(dR.get(), calc, nxx, dxx, 0, false));
    cmpGrids(c, "vmap", K, gM.get(), gR.get());
  }
  c.truth("vmap:data-untouched", "C05:vmap-vcloud:data-columns-modified", dM->getColumnNumber() == ncM && sameSnapshot(snap, snapshot(dM.get(), ncM)), "Db changed");
}

// ===================================================================================================
struct OpDef
{
  const char* name;
  void (*fn)(Rng&, Ctx&);
  int weight;
};
static const OpDef OPS[] = {
  {"kriging", opKriging, 4},
  {"xvalid", opXvalid, 3},
  {"vario", opVario, 3},
  {"stats", opStats, 4},
  {"covmat", opCovMat, 3},
  {"simtub", opSimtub, 4},
  {"migrate", opMigrate, 2},
  {"db-predicates", opDbPredicates, 1},
  {"anam", opAnam, 1},
  {"pca", opPCA, 1},
  {"polygon", opPolygon, 1},
  {"vmap-vcloud", opVmapCloud, 2},
};

static void run_case(Rng& r, Ctx& c)
{
  OptDbg::reset();
  int tot = 0;
  for (auto& o : OPS) tot += o.weight;
  int k = r.irange(0, tot - 1);
  for (auto& o : OPS)
  {
    if (k < o.weight) { o.fn(r, c); return; }
    k -= o.weight;
  }
}

int main(int argc, char** argv) { return run_main(argc, argv, "C05", run_case); }
