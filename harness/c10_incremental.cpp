// C10 part 2 — an object updated incrementally answers as a freshly built one with the same final content.
// The verdict rests on ANSWERS (twin comparison); cache state is recorded as a diagnostic only.
#include "common/vh.hpp"
#include "common/c10_util.hpp"
#include "common/c10_inc_kcalc.hpp"
using namespace vh;

static void run_case(Rng& r, Ctx& c)
{
  int kind = r.irange(0, 0);
  switch (kind)
  {
    case 0: c10k::run(r, c); break;
  }
}
int main(int argc, char** argv) { return run_main(argc, argv, "C10incremental", run_case); }
