// C10 part 2 — an object updated incrementally answers as a freshly built one with the same final content.
// The verdict rests on ANSWERS (twin comparison); cache state is recorded as a diagnostic only.
#include "common/vh.hpp"
#include "common/c10_util.hpp"
#include "common/c10_inc_kcalc.hpp"
#include "common/c10_inc_objs.hpp"
using namespace vh;

static void run_case(Rng& r, Ctx& c)
{
  int kind = r.irange(0, 9);
  switch (kind)
  {
    case 0:
    case 1: c10k::run(r, c); break;
    case 2:
    case 3: c10i::runModel(r, c); break;
    case 4: c10i::runNeigh(r, c); break;
    case 5:
    case 6: c10i::runKsys(r, c); break;
    case 7: c10i::runVario(r, c); break;
    case 8: c10i::runMatrix(r, c); break;
    case 9: c10i::runDb(r, c); break;
  }
}
int main(int argc, char** argv) { return run_main(argc, argv, "C10incremental", run_case); }
