// C10 part 3 — copies are independent of their source.
//   kind "vec:<H>"  : pool of copy-on-write vector handles against std::vector models (common/c10_vecpool.hpp)
//   kind "obj:<cls>": object copies (copy-ctor / clone / assignment): modify one, digest the other
#include "common/vh.hpp"
#include "common/c10_util.hpp"
#include "common/c10_vecpool.hpp"
#include "common/c10_objcopy.hpp"
using namespace vh;

template<class H, class T> static void run_pool(Rng& r, Ctx& c, const std::string& hname)
{
  c10v::Pool<H, T> pool(r, c, hname);
  pool.seed();
  int nsteps   = c.thorough() ? r.irange(40, 200) : r.irange(20, 80);
  bool hazcase = r.coin(0.12);
  int hazstep  = hazcase ? r.irange(0, nsteps - 1) : -1;
  int hazwhich = r.irange(0, 4);
  c.setSig("vec:" + hname + (hazcase ? fmt(":hazard%d", hazwhich) : ""));
  std::string hist;
  for (int st = 0; st < nsteps; st++)
  {
    if (st == hazstep && pool.live() > 0)
    {
      auto res = pool.hazard(hazwhich);
      bool ok  = res.second.ok && res.second.data == "OK";
      c.truth("vec-hazard", "C10:vector:" + res.first, ok,
              hname + ": child " + (res.second.ok ? res.second.data : res.second.why()));
      c.probe("vec-hazard-" + std::to_string(hazwhich));
    }
    std::string op = pool.step();
    if (hist.size() < 600) hist += (hist.empty() ? "" : ",") + op;
    int bad = pool.firstBad();
    // after each step EVERY handle equals its model; the key names the accessor that was just exercised
    if (!c.truth("vec-model", "C10:vector:" + op + ":aliasing", bad < 0,
                 hname + fmt(" step %d slot %d differs from its model after ", st, bad) + op))
      break; // the models are out of sync from here on
    c.probe("vecop:" + op);
  }
  c.puts("history", hist);
}

static void run_case(Rng& r, Ctx& c)
{
  int kind = r.irange(0, 15);
  switch (kind)
  {
    case 0: run_pool<VectorInt, int>(r, c, "VectorInt"); break;
    case 1: run_pool<VectorDouble, double>(r, c, "VectorDouble"); break;
    case 2: run_pool<VectorString, String>(r, c, "VectorString"); break;
    case 3: run_pool<VectorVectorDouble, VectorDouble>(r, c, "VectorVectorDouble"); break;
    case 4: run_pool<VectorT<int>, int>(r, c, "VectorT<int>"); break;
    case 5: c10o::objDb(r, c); break;
    case 6: c10o::objDbGrid(r, c); break;
    case 7: c10o::objModel(r, c); break;
    case 8: c10o::objVario(r, c); break;
    case 9: c10o::objMatrix(r, c); break;
    case 10: c10o::objPoly(r, c); break;
    case 11: c10o::objNeigh(r, c); break;
    case 12: if (r.coin()) c10o::objVarioParam(r, c); else c10o::objCovAniso(r, c); break;
    case 13: c10o::objAnam(r, c); break;
    case 14:
    case 15: c10o::objOptimWindow(r, c); break;
  }
}
int main(int argc, char** argv) { return run_main(argc, argv, "C10copies", run_case); }
