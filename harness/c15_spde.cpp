// C15 — SPDE operators, projections and solvers are mutually consistent.
//
// 93 % of the cases = one (mesh, Matern/Markov model) pair on which the following relations are evaluated
//   (a) matrix-free PrecisionOp (evalDirect x2, addToDest, evalPower(ONE), extractDiag, evalInverse/Chebychev) == assembled
//       PrecisionOpCs::getQ() applied by OUR OWN product; Q == Lambda P(S) Lambda evaluated by us from S, Lambda, Markov coefficients;
//       invariants of S (S sqrt(TildeC) = 0, symmetric, PSD); turbo mesh vs its MeshEStandard copy give the same Q
//   (b) Q symmetric, positive definite (own dense Cholesky / x'Qx), CholeskySparse succeeds, solves, log det, evalSimulate identity
//   (c) ProjMatrix rows: inside -> w >= 0, sum 1, affine reproduction; outside -> empty row; row <-> sample alignment; shape;
//       mesh2point / point2mesh vs own products; turbo vs standard copy
//   (d) krigingSPDE / krigingSPDENew / logLikelihoodSPDE with useCholesky = 1 and 0 vs an own dense solution of the conditional system
//       (tolerance for the iterative mode = the solver's own stopping rule times ||A^-1|| computed here)
//   (e) every solve returns x with a small residual for the system it claims to solve (own residual): CholeskySparse::solve,
//       PrecisionOpCs::evalInverse, PrecisionOpMultiConditional(Cs)::evalInverse (1 or 2 structures), SPDEOp / SPDEOpMatrix products
// 4 % of the cases = krigingSPDENew on a target Db without Z variable; 3 % = likelihood of data none of which is in the mesh
// (both abort in this build, hence isolated).
// Reference computations: harness/common/c15_util.hpp + ref_linalg.hpp (long double, naive).
// Keys of diagnosed defects (see the author's report): C15:PrecisionOp::addToDest:destination-overwritten,
//   C15:SPDEOp::_addToDestImpl:data-term-lost(...), C15:ProjMatrix:turbo:rows-shifted-after-sample-outside-grid,
//   C15:ProjMatrix:standard:rows-missing-when-last-samples-outside, C15:MeshEStandard::resetFromTurbo:ndim-not-set,
//   C15:PrecisionOpMultiConditional::computeLogDetOp:contributes-0,
//   C15:ALinearOpMulti::evalInverse:unconverged-at-default-nitermax-returned-silently, C15:krigingSPDENew:target-db-without-Z-variable
//   (the last one shows up as crash:assert:MatrixSparse::addProdMatVecInPlaceToDest in builds with assertions).
#include "common/vh.hpp"
#include "common/ref_linalg.hpp"
#include "common/c15_util.hpp"

#include "Basic/VectorNumT.hpp"
#include "Basic/VectorHelper.hpp"
#include "Basic/OptDbg.hpp"
#include "Basic/Law.hpp"
#include "Space/ASpaceObject.hpp"
#include "Space/SpaceRN.hpp"
#include "Enum/ESpaceType.hpp"
#include "Enum/EPowerPT.hpp"
#include "Db/Db.hpp"
#include "Db/DbGrid.hpp"
#include "Model/Model.hpp"
#include "Covariances/CovAniso.hpp"
#include "Covariances/CovContext.hpp"
#include "Mesh/MeshETurbo.hpp"
#include "Mesh/MeshEStandard.hpp"
#include "LinearOp/ShiftOpCs.hpp"
#include "LinearOp/PrecisionOp.hpp"
#include "LinearOp/PrecisionOpCs.hpp"
#include "LinearOp/ProjMatrix.hpp"
#include "LinearOp/CholeskySparse.hpp"
#include "LinearOp/PrecisionOpMultiConditional.hpp"
#include "LinearOp/PrecisionOpMultiConditionalCs.hpp"
#include "LinearOp/PrecisionOpMulti.hpp"
#include "LinearOp/PrecisionOpMultiMatrix.hpp"
#include "LinearOp/ProjMultiMatrix.hpp"
#include "LinearOp/MatrixSquareSymmetricSim.hpp"
#include "LinearOp/SPDEOp.hpp"
#include "LinearOp/SPDEOpMatrix.hpp"
#include "API/SPDE.hpp"
#include "API/SPDEParam.hpp"
#include <memory>

using namespace vh;
using namespace c15;
using ref::LD;
using ref::Mat;

// Switches to steer the generator away from input classes with known defects (default: off, see final report)
// (all off by default; an environment variable of the same name, prefixed by C15_, switches one on for a development run)
static const bool AVOID_OUTSIDE_GRID_POINTS = getenv("C15_AVOID_OUTSIDE_GRID_POINTS") != nullptr; // ProjMatrix: samples outside the grid / trailing outside samples
static const bool AVOID_LOGLIK_CG_NO_DATUM_IN_MESH = getenv("C15_AVOID_LOGLIK_CG_NO_DATUM_IN_MESH") != nullptr; // null APolynomial call in PrecisionOp::getRangeEigenVal
static const bool AVOID_KRIGNEW_TARGET_WITHOUT_Z = getenv("C15_AVOID_KRIGNEW_TARGET_WITHOUT_Z") != nullptr; // krigingSPDENew aborts (Eigen assertion) when the target Db has no Z variable

enum MeshKind { MK_TURBO = 0, MK_TURBO_MASK, MK_STD_EXT, MK_STD_FROM_TURBO, MK_TURBO_COVA, NMK };
static const char* MKN[] = {"turbo", "turbo-mask", "std-ext", "std-from-turbo", "turbo-fromcova"};

struct MeshCase
{
  int ndim = 2;
  int kind = 0;
  bool polarized = false;
  std::unique_ptr<AMesh> mesh;
  std::unique_ptr<MeshETurbo> turboTwin; // for MK_STD_FROM_TURBO: the turbo mesh it was copied from
  std::unique_ptr<DbGrid> grid;          // for MK_TURBO_MASK
  MeshMirror mm;
  std::unique_ptr<Db> field;             // for MK_TURBO_COVA: the domain the mesh is derived from
  int mcap = 0;                          // MK_TURBO_COVA: target number of cells per dimension
  double h = 1;      // typical cell size
  double extent = 1; // typical domain size
  std::string desc;
};

static VectorDouble VD(const std::vector<double>& v)
{
  VectorDouble o((int)v.size());
  for (size_t i = 0; i < v.size(); i++) o[(int)i] = v[i];
  return o;
}
static std::vector<double> SV(const VectorDouble& v) { return v.getVector(); }

static void genGridGeometry(Rng& r, Ctx& c, int ndim, int targetNv, VectorInt& nx, VectorDouble& dx, VectorDouble& x0,
                            VectorDouble& angles)
{
  nx.resize(ndim); dx.resize(ndim); x0.resize(ndim);
  // split targetNv among dimensions with a random aspect
  double per = std::pow((double)targetNv, 1.0 / ndim);
  for (int d = 0; d < ndim; d++)
  {
    double f = ndim == 1 ? 1.0 : r.loguni(0.5, 2.0);
    int n    = (int)std::lround(per * f);
    nx[d]    = std::max(2, n);
  }
  // keep the product bounded
  int cap = c.thorough() ? 2500 : 700;
  for (;;)
  {
    long prod = 1;
    for (int d = 0; d < ndim; d++) prod *= nx[d];
    if (prod <= cap) break;
    int dm = 0;
    for (int d = 1; d < ndim; d++) if (nx[d] > nx[dm]) dm = d;
    nx[dm]--;
  }
  double base = r.loguni(0.05, 20.);
  for (int d = 0; d < ndim; d++) dx[d] = base * (r.coin(0.5) ? 1.0 : r.loguni(0.3, 3.0));
  double off = r.coin(0.3) ? 0.0 : (r.coin(0.5) ? r.uni(-50, 50) * base : r.uni(-1000, 1000) * base);
  for (int d = 0; d < ndim; d++) x0[d] = off * r.uni(0.3, 1.0) * (r.coin() ? 1 : -1);
  angles.resize(0);
  if (ndim >= 2 && r.coin(0.7))
  {
    angles.resize(ndim);
    for (int d = 0; d < ndim; d++) angles[d] = 0.;
    angles[0] = r.uni(-180, 180);
    if (ndim == 3) { angles[1] = r.uni(-90, 90); angles[2] = r.uni(-180, 180); }
  }
}

static MeshCase genMesh(Rng& r, Ctx& c)
{
  MeshCase mc;
  mc.ndim = r.pick(std::vector<int>{1, 2, 2, 2, 3, 3});
  mc.kind = r.irange(0, NMK - 1);
  int ndim = mc.ndim;
  int maxNv = c.thorough() ? 2000 : 600;
  int targetNv = (int)std::lround(r.loguni(ndim == 1 ? 3 : (ndim == 2 ? 6 : 10), maxNv));
  if (ndim == 3) targetNv = std::min(targetNv, c.thorough() ? 1000 : 350); // 3-D stencils are wide

  if (mc.kind == MK_TURBO_COVA)
  {
    // the mesh will be derived from the model (MeshETurbo::createFromCova: grid rotated like the anisotropy, cell = range / ratio,
    // nbExt extension cells on every side): here only the domain; finished in finishCovaMesh() once the model exists
    double Ld = r.loguni(0.5, 200.);
    double off = r.coin(0.4) ? 0. : r.uni(-20, 20) * Ld;
    int np = r.irange(4, 12);
    std::vector<std::vector<double>> pts(np, std::vector<double>(ndim));
    std::vector<double> len(ndim);
    for (int d = 0; d < ndim; d++) len[d] = Ld * (r.coin() ? 1. : r.uni(0.4, 1.));
    for (int i = 0; i < np; i++) for (int d = 0; d < ndim; d++) pts[i][d] = off + (i == 0 ? 0. : i == 1 ? len[d] : r.uni(0, len[d]));
    VectorDouble tab(ndim * np);
    VectorString names, locs;
    for (int d = 0; d < ndim; d++) { names.push_back(fmt("x%d", d + 1)); locs.push_back(fmt("x%d", d + 1)); for (int i = 0; i < np; i++) tab[d * np + i] = pts[i][d]; }
    mc.field.reset(Db::createFromSamples(np, ELoadBy::COLUMN, tab, names, locs, true));
    mc.mcap   = ndim == 1 ? r.irange(3, 100) : ndim == 2 ? r.irange(2, 14) : r.irange(2, 3);
    mc.h      = Ld / mc.mcap;
    mc.extent = Ld;
    mc.desc   = fmt("fromCova domain L=%.4g off=%.4g mcap=%d", Ld, off, mc.mcap);
    return mc;
  }
  if (mc.kind == MK_TURBO || mc.kind == MK_TURBO_MASK || mc.kind == MK_STD_FROM_TURBO)
  {
    VectorInt nx; VectorDouble dx, x0, angles;
    genGridGeometry(r, c, ndim, targetNv, nx, dx, x0, angles);
    mc.polarized = (ndim == 2) && r.coin(0.4);
    mc.h = 1e300; mc.extent = 0;
    for (int d = 0; d < ndim; d++) { mc.h = std::min(mc.h, dx[d]); mc.extent = std::max(mc.extent, dx[d] * (nx[d] - 1)); }
    mc.desc = fmt("nx=%s dx=%s x0=%s ang=%s pol=%d", jvec(nx.getVector()).c_str(), jvec(dx.getVector()).c_str(),
                  jvec(x0.getVector()).c_str(), jvec(angles.getVector()).c_str(), (int)mc.polarized);
    if (mc.kind == MK_TURBO)
    {
      mc.mesh.reset(MeshETurbo::create(nx, dx, x0, angles, mc.polarized, false));
    }
    else if (mc.kind == MK_STD_FROM_TURBO)
    {
      mc.turboTwin.reset(MeshETurbo::create(nx, dx, x0, angles, mc.polarized, false));
      // MeshEStandard::resetFromTurbo on a fresh object (public API). Oracle: the copy describes the same mesh.
      {
        std::unique_ptr<MeshEStandard> ms(new MeshEStandard());
        bool ok = false;
        std::string what;
        try
        {
          ok = ms->resetFromTurbo(*mc.turboTwin, false) == 0;
          ok = ok && ms->getNDim() == ndim && ms->getNApices() == mc.turboTwin->getNApices() &&
               ms->getNMeshes() == mc.turboTwin->getNMeshes() && ms->getNApexPerMesh() == ndim + 1;
          if (!ok) what = fmt("ndim=%d napices=%d nmeshes=%d (turbo: %d %d %d)", ms->getNDim(), ms->getNApices(), ms->getNMeshes(), ndim,
                              mc.turboTwin->getNApices(), mc.turboTwin->getNMeshes());
        }
        catch (const std::exception& e) { what = e.what(); }
        c.truth("resetFromTurbo", "C15:MeshEStandard::resetFromTurbo:ndim-not-set", ok, what);
        if (ok) mc.mesh = std::move(ms);
        else
        { // fall back on createFromExternal with the turbo's apices / meshes read through its getters
          int nv = mc.turboTwin->getNApices(), ne = mc.turboTwin->getNMeshes();
          MatrixRectangular apices(nv, ndim);
          MatrixInt meshes(ne, ndim + 1);
          for (int i = 0; i < nv; i++) for (int d = 0; d < ndim; d++) apices.setValue(i, d, mc.turboTwin->getApexCoor(i, d));
          for (int e = 0; e < ne; e++) for (int k = 0; k <= ndim; k++) meshes.setValue(e, k, mc.turboTwin->getApex(e, k));
          mc.mesh.reset(MeshEStandard::createFromExternal(apices, meshes, false));
        }
      }
    }
    else
    {
      // grid with a selection: mask a random box / random nodes; meshes touching a masked node disappear
      mc.grid.reset(DbGrid::create(nx, dx, x0, angles));
      int ng = mc.grid->getSampleNumber();
      VectorDouble sel(ng, 1.);
      int mode = r.irange(0, 2);
      if (mode == 0)
      { // scattered masked nodes
        double p = r.uni(0.02, 0.2);
        for (int i = 0; i < ng; i++) if (r.coin(p)) sel[i] = 0.;
      }
      else if (mode == 1)
      { // masked corner block
        std::vector<int> lim(ndim);
        for (int d = 0; d < ndim; d++) lim[d] = r.irange(0, std::max(0, nx[d] / 2));
        std::vector<int> ind(ndim);
        for (int i = 0; i < ng; i++)
        {
          int rem = i; bool in = true;
          for (int d = 0; d < ndim; d++) { ind[d] = rem % nx[d]; rem /= nx[d]; if (ind[d] >= lim[d]) in = false; }
          if (in) sel[i] = 0.;
        }
      }
      else
      { // one masked node only
        sel[r.irange(0, ng - 1)] = 0.;
      }
      mc.grid->addSelection(sel, "sel");
      mc.mesh.reset(MeshETurbo::createFromGrid(mc.grid.get(), mc.polarized, false));
    }
  }
  else
  {
    // jittered simplicial lattice mapped by a random affine transformation
    int nxa[3] = {1, 1, 1};
    {
      VectorInt nx; VectorDouble dx, x0, angles;
      genGridGeometry(r, c, ndim, targetNv, nx, dx, x0, angles);
      for (int d = 0; d < ndim; d++) nxa[d] = nx[d];
    }
    // quality bound: every element keeps |det| >= 0.1 (lattice units): jitter < 1/6 in 2-D (see derivation in
    // the report), smaller in 3-D; verified below and the jitter halved until it holds
    double jit = ndim == 1 ? r.uni(0, 0.4) : (ndim == 2 ? r.uni(0, 0.15) : r.uni(0, 0.07));
    if (r.coin(0.15)) jit = 0;
    RawMesh raw;
    for (int attempt = 0; attempt < 6; attempt++)
    {
      Rng rr = r; // same stream for every attempt: only the amplitude changes
      raw = latticeMesh(rr, ndim, nxa, jit, true);
      bool good = true;
      for (auto& e : raw.e)
      {
        LD a[3][3];
        for (int k = 0; k < ndim; k++)
          for (int j = 0; j < ndim; j++) a[j][k] = (LD)raw.v[e[k + 1]][j] - (LD)raw.v[e[0]][j];
        LD det = ndim == 1 ? a[0][0]
               : ndim == 2 ? a[0][0] * a[1][1] - a[0][1] * a[1][0]
                           : a[0][0] * (a[1][1] * a[2][2] - a[1][2] * a[2][1]) - a[0][1] * (a[1][0] * a[2][2] - a[1][2] * a[2][0]) +
                               a[0][2] * (a[1][0] * a[2][1] - a[1][1] * a[2][0]);
        if (std::fabs(det) < 0.1) { good = false; break; }
      }
      if (good) break;
      jit *= 0.5;
      if (attempt == 5) throw SkipCase{"mesh-quality"};
    }
    for (int k = 0; k < 8; k++) r.next(); // decorrelate from the lattice stream
    // affine map: x = x0 + R * diag(s) * u
    double base = r.loguni(0.05, 20.);
    double s[3] = {base, base, base};
    for (int d = 0; d < ndim; d++) if (r.coin(0.5)) s[d] *= r.loguni(0.3, 3.0);
    double R[3][3] = {{1, 0, 0}, {0, 1, 0}, {0, 0, 1}};
    if (ndim == 2 && r.coin(0.7))
    {
      double t = r.uni(-M_PI, M_PI);
      R[0][0] = std::cos(t); R[0][1] = -std::sin(t); R[1][0] = std::sin(t); R[1][1] = std::cos(t);
    }
    if (ndim == 3 && r.coin(0.7))
    {
      // product of three plane rotations
      double t[3] = {r.uni(-M_PI, M_PI), r.uni(-M_PI, M_PI), r.uni(-M_PI, M_PI)};
      int ax[3][2] = {{0, 1}, {1, 2}, {0, 2}};
      for (int q = 0; q < 3; q++)
      {
        double G[3][3] = {{1, 0, 0}, {0, 1, 0}, {0, 0, 1}};
        int i = ax[q][0], j = ax[q][1];
        G[i][i] = std::cos(t[q]); G[i][j] = -std::sin(t[q]); G[j][i] = std::sin(t[q]); G[j][j] = std::cos(t[q]);
        double P[3][3];
        for (int a = 0; a < 3; a++) for (int b = 0; b < 3; b++) { P[a][b] = 0; for (int k = 0; k < 3; k++) P[a][b] += G[a][k] * R[k][b]; }
        for (int a = 0; a < 3; a++) for (int b = 0; b < 3; b++) R[a][b] = P[a][b];
      }
    }
    double off = r.coin(0.3) ? 0.0 : (r.coin(0.5) ? r.uni(-50, 50) * base : r.uni(-1000, 1000) * base);
    double x0[3] = {off * r.uni(0.3, 1), -off * r.uni(0.3, 1), off * r.uni(0.3, 1)};
    int nv = (int)raw.v.size(), ne = (int)raw.e.size();
    std::vector<int> relabel = r.coin(0.7) ? r.perm(nv) : std::vector<int>();
    MatrixRectangular apices(nv, ndim);
    for (int i = 0; i < nv; i++)
    {
      int ii = relabel.empty() ? i : relabel[i];
      for (int a = 0; a < ndim; a++)
      {
        double v = x0[a];
        for (int b = 0; b < ndim; b++) v += R[a][b] * s[b] * raw.v[i][b];
        apices.setValue(ii, a, v);
      }
    }
    std::vector<int> eorder = r.coin(0.5) ? r.perm(ne) : std::vector<int>();
    MatrixInt meshes(ne, ndim + 1);
    for (int e = 0; e < ne; e++)
    {
      int ee = eorder.empty() ? e : eorder[e];
      std::vector<int> loc(ndim + 1);
      for (int k = 0; k <= ndim; k++) loc[k] = relabel.empty() ? raw.e[e][k] : relabel[raw.e[e][k]];
      if (r.coin(0.5)) r.shuffle(loc); // random orientation and first apex
      for (int k = 0; k <= ndim; k++) meshes.setValue(ee, k, loc[k]);
    }
    mc.mesh.reset(MeshEStandard::createFromExternal(apices, meshes, false));
    mc.h = 1e300; mc.extent = 0;
    for (int d = 0; d < ndim; d++) { mc.h = std::min(mc.h, s[d]); mc.extent = std::max(mc.extent, s[d] * (nxa[d] - 1)); }
    mc.desc = fmt("lattice=%dx%dx%d jitter=%.3g scale=%.3g,%.3g,%.3g off=%.4g relabel=%d", nxa[0], nxa[1], nxa[2], jit, s[0], s[1], s[2], off,
                  (int)!relabel.empty());
  }
  if (!mc.mesh) throw SkipCase{"mesh-null"};
  mc.mm = mirrorMesh(mc.mesh.get());
  return mc;
}

// ---------------------------------------------------------------------------------------------
struct ModelCase
{
  std::unique_ptr<Model> model;
  CovAniso* cova = nullptr;
  bool markov = false;
  double nu = 1, sill = 1, range = 1;
  int degree = 0;        // degree of the precision polynomial actually used (path taken)
  bool intAlpha = true;  // nu + d/2 integer ?
  std::string rangeClass;
  std::vector<double> coef;
};

static ModelCase genModel(Rng& r, const MeshCase& mc)
{
  ModelCase m;
  int ndim  = mc.ndim;
  // ECov::MARKOV recomputes its normalisation by an N^ndim FFT (N=512) at every construction / setMarkovCoeffs
  // (ACovFunc::computeCorrec): 134M points in 3-D -> minutes and GBs; MARKOV is therefore exercised in 1-D / 2-D only
  m.markov  = ndim <= 2 && r.coin(0.10);
  static const std::vector<double> nuHalf = {0.5, 1.5, 2.5}, nuInt = {1., 2., 3.};
  bool wantInt = r.coin(0.8);
  if (wantInt) m.nu = (ndim == 2) ? r.pick(nuInt) : r.pick(nuHalf);
  else
  { // alpha not an integer: the library rounds alpha to the closest integer (CovMatern::computeMarkovCoeffs)
    m.nu = r.coin(0.5) ? ((ndim == 2) ? r.pick(nuHalf) : r.pick(nuInt)) : r.uni(0.3, 3.0);
  }
  double alpha = m.nu + ndim / 2.0;
  m.intAlpha   = std::fabs(alpha - std::round(alpha)) < 1e-12;
  m.sill       = r.coin(0.3) ? 1.0 : r.loguni(0.01, 100.);
  int rc       = r.irange(0, 2);
  m.rangeClass = rc == 0 ? "subcell" : rc == 1 ? "mid" : "domain";
  double lo = rc == 0 ? 0.2 * mc.h : rc == 1 ? 1.5 * mc.h : 0.5 * mc.extent;
  double hi = rc == 0 ? 1.0 * mc.h : rc == 1 ? std::max(2.0 * mc.h, 0.5 * mc.extent) : 1.5 * mc.extent;
  if (hi < lo) hi = lo * 1.5;
  m.range = r.loguni(lo, hi);
  VectorDouble ranges(ndim), angles;
  bool aniso = ndim > 1 && r.coin(0.6);
  for (int d = 0; d < ndim; d++) ranges[d] = m.range * (aniso ? r.loguni(0.2, 5.0) : 1.0);
  if (aniso && r.coin(0.8))
  {
    angles.resize(ndim);
    for (int d = 0; d < ndim; d++) angles[d] = 0;
    angles[0] = r.uni(-180, 180);
    if (ndim == 3) { angles[1] = r.uni(-90, 90); angles[2] = r.uni(-180, 180); }
  }
  SpaceRN space(ndim);
  m.model.reset(Model::createFromParam(m.markov ? ECov::MARKOV : ECov::MATERN, m.range, m.sill, m.nu, ranges, VectorDouble(), angles,
                                       &space, true));
  if (!m.model || m.model->getCovaNumber() != 1) throw SkipCase{"model-null"};
  m.cova = m.model->getCova(0);
  if (m.markov)
  {
    // user polynomial with positive coefficients (P > 0 on [0, inf)): degree 1..3
    int deg = r.irange(1, 3);
    VectorDouble co(deg + 1);
    co[0] = r.loguni(0.2, 5.);
    for (int k = 1; k <= deg; k++) co[k] = r.coin(0.2) && k < deg ? 0. : r.loguni(0.05, 5.);
    m.cova->setMarkovCoeffs(co);
  }
  m.coef   = SV(m.cova->getMarkovCoeffs());
  m.degree = (int)m.coef.size() - 1;
  return m;
}

static void finishCovaMesh(Rng& r, MeshCase& mc, const ModelCase& mo)
{
  int ndim = mc.ndim;
  double rmin = INFINITY;
  for (int d = 0; d < ndim; d++) rmin = std::min(rmin, mo.cova->getRange(d));
  double ratio = rmin * mc.mcap / mc.extent * r.uni(0.5, 1.0); // cell = range / ratio >= extent / mcap in every direction
  int nbExt    = ndim == 3 ? r.irange(0, 1) : r.irange(0, 3);
  mc.mesh.reset(MeshETurbo::createFromCova(*mo.cova, mc.field.get(), ratio, nbExt, true, false, false));
  if (!mc.mesh) throw SkipCase{"createFromCova-null"};
  mc.polarized = true; // initFromCova always asks for the polarized (diamond) construction
  mc.desc += fmt(" ratio=%.4g nbExt=%d", ratio, nbExt);
  mc.mm = mirrorMesh(mc.mesh.get());
  if (mc.mm.nv > 3000) throw SkipCase{"createFromCova-too-large"};
  mc.h = mc.mm.hmin;
}

// ---------------------------------------------------------------------------------------------
// comparison of a library vector with a long double reference under a component-wise round-off bound
// returns max_i |got_i - want_i| / tol_i
static double ratioVec(const std::vector<double>& got, const std::vector<LD>& want, const std::vector<LD>& bound, double cfac,
                       int* worst = nullptr)
{
  double mr = 0;
  if (got.size() != want.size()) return INFINITY;
  for (size_t i = 0; i < got.size(); i++)
  {
    double e = std::fabs((double)((LD)got[i] - want[i]));
    double t = cfac * EPS * (double)bound[i];
    double q;
    if (std::isnan(e)) q = INFINITY;
    else if (e <= t) q = t > 0 ? e / t : 0.;
    else q = t > 0 ? e / t : INFINITY;
    if (q > mr) { mr = q; if (worst) *worst = (int)i; }
  }
  return mr;
}

// backward-error style residual ratio: ||A x - b||_inf / (cfac eps ||(|A||x| + |b|)||_inf)
static double residRatio(const Sp& A, const std::vector<double>& x, const std::vector<double>& b, double cfac, double* relres = nullptr)
{
  int n = (int)x.size();
  std::vector<LD> xl = toLD(x), xa(n);
  for (int i = 0; i < n; i++) { if (!std::isfinite(x[i])) return INFINITY; xa[i] = std::fabs(xl[i]); }
  std::vector<LD> res = mulv(A, xl), mag = mulv(A, xa, false, true);
  LD bn = 0, rn = 0, b2 = 0, r2 = 0;
  for (int i = 0; i < n; i++)
  {
    LD ri = res[i] - (LD)b[i];
    rn = std::max(rn, std::fabs(ri));
    bn = std::max(bn, mag[i] + std::fabs((LD)b[i]));
    r2 += ri * ri; b2 += (LD)b[i] * (LD)b[i];
  }
  if (relres) *relres = (double)(std::sqrt(r2) / (std::sqrt(b2) + 1e-300L));
  return (double)(rn / (cfac * EPS * bn + 1e-300L));
}

// ---------------------------------------------------------------------------------------------
// oracle (c): projection matrix
// ---------------------------------------------------------------------------------------------
enum PClass { PC_INSIDE = 0, PC_FACET, PC_VERTEX, PC_HULL, PC_OUT_NEAR, PC_OUT_FAR, PC_AMBIG, NPC };
static const char* PCN[] = {"inside", "interior-facet", "vertex", "hull", "outside-near", "outside-far", "ambiguous"};

struct Located
{
  bool insideStrict = false; // some element has all barycentric coordinates >= +margin
  bool outsideClear = false; // every element has a barycentric coordinate <= -margin
  int elem = -1;
};
// brute force point location over all elements (long double barycentric coordinates)
static Located locate(const MeshMirror& mm, const std::vector<double>& p, double margin)
{
  Located L;
  L.outsideClear = true;
  for (int e = 0; e < mm.ne; e++)
  {
    // cheap bounding-box rejection (with slack)
    bool far = false;
    for (int d = 0; d < mm.ndim && !far; d++)
    {
      double lo = INFINITY, hi = -INFINITY;
      for (int k = 0; k < mm.nc; k++) { lo = std::min(lo, mm.x(mm.apex(e, k), d)); hi = std::max(hi, mm.x(mm.apex(e, k), d)); }
      double sl = 0.5 * (hi - lo) + 1e-300;
      if (p[d] < lo - sl || p[d] > hi + sl) far = true;
    }
    if (far) continue; // a point that far from the element's box has a barycentric coordinate <= -0.5 < -margin
    std::vector<LD> w = barycentric(mm, e, p);
    LD mn = INFINITY;
    for (LD v : w) mn = std::min(mn, v);
    if (!(mn <= -margin)) L.outsideClear = false;
    if (mn >= margin) { L.insideStrict = true; L.elem = e; }
  }
  return L;
}

struct ProjData
{
  std::vector<std::vector<double>> pts;
  std::vector<int> pclass;
  std::vector<char> isVertex; // the point is a vertex of the mesh (coordinates copied from the mesh)
  std::vector<int> active, zdef;
};

static void checkProjection(Rng& r, Ctx& c, const MeshCase& mc, const AMesh* mesh, const MeshMirror& mm, const std::string& mcls,
                            const AMesh* twin)
{
  const int ndim = mm.ndim, nc = mm.nc;
  // element quality and conditioning of the barycentric computation
  double qual = 1;
  std::vector<double> lo(ndim, INFINITY), hi(ndim, -INFINITY);
  for (int i = 0; i < mm.nv; i++) for (int d = 0; d < ndim; d++) { lo[d] = std::min(lo[d], mm.x(i, d)); hi[d] = std::max(hi[d], mm.x(i, d)); }
  double L = 0;
  for (int d = 0; d < ndim; d++) L = std::max(L, hi[d] - lo[d]);
  for (int e = 0; e < mm.ne; e++)
  {
    double hm = 0;
    for (int k = 0; k < nc; k++) for (int l = k + 1; l < nc; l++)
    {
      double s2 = 0;
      for (int d = 0; d < ndim; d++) s2 += std::pow(mm.x(mm.apex(e, k), d) - mm.x(mm.apex(e, l), d), 2);
      hm = std::max(hm, std::sqrt(s2));
    }
    double det = std::fabs((double)elemDet(mm, e));
    if (det > 0) qual = std::max(qual, std::pow(hm, ndim) / det);
  }
  const double tolW = 256. * EPS * qual * (mm.coordMag / mm.hmin + 1.);
  const double MARGIN = 1e-3;

  // facets: interior (shared by two elements) and hull (one element)
  std::map<std::vector<int>, int> facetCount;
  for (int e = 0; e < mm.ne; e++)
    for (int k = 0; k < nc; k++)
    {
      std::vector<int> f;
      for (int l = 0; l < nc; l++) if (l != k) f.push_back(mm.apex(e, l));
      std::sort(f.begin(), f.end());
      facetCount[f]++;
    }
  std::vector<std::vector<int>> facIn, facHull;
  for (auto& kv : facetCount) (kv.second >= 2 ? facIn : facHull).push_back(kv.first);
  std::vector<char> vertexOnHull(mm.nv, 0);
  for (auto& f : facHull) for (int v : f) vertexOnHull[v] = 1;

  ProjData pd;
  auto addPoint = [&](int wantClass) {
    if (AVOID_OUTSIDE_GRID_POINTS && (wantClass == PC_OUT_FAR || wantClass == PC_OUT_NEAR)) wantClass = PC_INSIDE;
    std::vector<double> p(ndim, 0.);
    int cls = wantClass;
    if (wantClass == PC_INSIDE)
    {
      int e = r.irange(0, mm.ne - 1);
      std::vector<double> w(nc);
      double sw = 0;
      for (auto& v : w) { v = 0.03 + r.u01(); sw += v; }
      for (int k = 0; k < nc; k++) for (int d = 0; d < ndim; d++) p[d] += w[k] / sw * mm.x(mm.apex(e, k), d);
    }
    else if (wantClass == PC_FACET || wantClass == PC_HULL)
    {
      auto& fl = wantClass == PC_FACET ? facIn : facHull;
      if (fl.empty()) return;
      const std::vector<int>& f = fl[r.next() % fl.size()];
      std::vector<double> w(f.size());
      double sw = 0;
      for (auto& v : w) { v = 0.05 + r.u01(); sw += v; }
      for (size_t k = 0; k < f.size(); k++) for (int d = 0; d < ndim; d++) p[d] += w[k] / sw * mm.x(f[k], d);
    }
    else if (wantClass == PC_VERTEX)
    {
      int v = r.irange(0, mm.nv - 1);
      for (int d = 0; d < ndim; d++) p[d] = mm.x(v, d);
      cls = vertexOnHull[v] ? PC_HULL : PC_VERTEX;
    }
    else if (wantClass == PC_OUT_NEAR)
    { // random point in the bounding box enlarged by 15 %: classified by brute force
      for (int d = 0; d < ndim; d++) p[d] = r.uni(lo[d] - 0.15 * L, hi[d] + 0.15 * L);
      Located Lc = locate(mm, p, MARGIN);
      cls = Lc.insideStrict ? PC_INSIDE : Lc.outsideClear ? PC_OUT_NEAR : PC_AMBIG;
    }
    else if (wantClass == PC_OUT_FAR)
    {
      int d0 = r.irange(0, ndim - 1);
      for (int d = 0; d < ndim; d++) p[d] = r.uni(lo[d], hi[d]);
      p[d0] = r.coin() ? hi[d0] + L * r.loguni(0.3, 30.) : lo[d0] - L * r.loguni(0.3, 30.);
    }
    pd.pts.push_back(p);
    pd.pclass.push_back(cls);
    pd.isVertex.push_back(wantClass == PC_VERTEX ? 1 : 0);
  };
  // first half: no sample outside the bounding box of the mesh; second half: all classes mixed
  int nhalf = c.thorough() ? 40 : 20;
  for (int k = 0; k < nhalf; k++)
  {
    double u = r.u01();
    addPoint(u < 0.45 ? PC_INSIDE : u < 0.65 ? PC_FACET : u < 0.75 ? PC_VERTEX : u < 0.85 ? PC_HULL : PC_INSIDE);
  }
  int firstMixed = (int)pd.pts.size();
  for (int k = 0; k < nhalf; k++)
  {
    double u = r.u01();
    addPoint(u < 0.35 ? PC_INSIDE : u < 0.45 ? PC_FACET : u < 0.75 ? PC_OUT_NEAR : PC_OUT_FAR);
  }
  if (r.coin(0.5)) addPoint(r.coin() ? PC_OUT_FAR : PC_INSIDE); // what the last sample is matters for the matrix shape
  int np = (int)pd.pts.size();
  // Db: coordinates + one Z variable; optional selection; optional undefined Z (then rankZ = 0 filters them)
  bool useSel = r.coin(0.3), useZ = r.coin(0.4);
  pd.active.assign(np, 1);
  pd.zdef.assign(np, 1);
  VectorDouble tab((ndim + 1) * np);
  for (int i = 0; i < np; i++)
  {
    for (int d = 0; d < ndim; d++) tab[d * np + i] = pd.pts[i][d];
    if (useSel && r.coin(0.2)) pd.active[i] = 0;
    if (useZ && r.coin(0.2)) pd.zdef[i] = 0;
    tab[ndim * np + i] = pd.zdef[i] ? r.normal() : TEST;
  }
  VectorString names, locs;
  for (int d = 0; d < ndim; d++) { names.push_back(fmt("x%d", d + 1)); locs.push_back(fmt("x%d", d + 1)); }
  names.push_back("z");
  locs.push_back("z1");
  std::unique_ptr<Db> db(Db::createFromSamples(np, ELoadBy::COLUMN, tab, names, locs, true));
  if (!db) { c.truth("proj-db", "C15:harness:db-null", false); return; }
  if (useSel)
  {
    VectorDouble sel(np);
    for (int i = 0; i < np; i++) sel[i] = pd.active[i];
    db->addSelection(sel, "sel");
  }
  int rankZ = useZ ? 0 : -1;
  std::vector<int> rowOf(np, -1);
  int nrows = 0;
  for (int i = 0; i < np; i++)
    if (pd.active[i] && (rankZ < 0 || pd.zdef[i])) rowOf[i] = nrows++;

  std::unique_ptr<ProjMatrix> pm(ProjMatrix::create(db.get(), mesh, rankZ, false));
  std::string kb = "C15:ProjMatrix:" + mcls;
  // shape: "a point outside has an empty row" => one row per retained sample, one column per apex
  bool lastOut = false; // the last retained sample is one whose row may legitimately be empty (outside, on the hull, or unclassified)
  for (int i = np - 1; i >= 0; i--)
    if (rowOf[i] >= 0) { lastOut = pd.pclass[i] == PC_OUT_FAR || pd.pclass[i] == PC_OUT_NEAR || pd.pclass[i] == PC_HULL || pd.pclass[i] == PC_AMBIG; break; }
  bool shapeOk = pm->getPointNumber() == nrows && pm->getApexNumber() == mm.nv;
  {
    std::string ks = kb + ":shape";
    if (pm->getPointNumber() < nrows && lastOut && dynamic_cast<const MeshEStandard*>(mesh) != nullptr && pm->getApexNumber() == mm.nv)
      ks = "C15:ProjMatrix:standard:rows-missing-when-last-samples-outside"; // diagnosed input class
    c.truth("proj-shape", ks, shapeOk, fmt("rows=%d expected=%d cols=%d expected=%d", pm->getPointNumber(), nrows, pm->getApexNumber(), mm.nv));
  }
  Sp A = mirror(pm.get());
  std::vector<std::vector<std::pair<int, double>>> rows(std::max(nrows, A.nr));
  for (size_t k = 0; k < A.v.size(); k++) rows[A.r[k]].push_back({A.c[k], A.v[k]});

  // random affine function in normalised coordinates
  double a0 = r.uni(-1, 1), a[3] = {r.uni(-1, 1), r.uni(-1, 1), r.uni(-1, 1)}, asum = std::fabs(a0);
  for (int d = 0; d < ndim; d++) asum += std::fabs(a[d]);
  auto aff = [&](auto getx) { LD v = a0; for (int d = 0; d < ndim; d++) v += (LD)a[d] * ((LD)getx(d) - (LD)(0.5 * (lo[d] + hi[d]))) / (LD)L; return v; };
  const double tolA = 4 * tolW * (1 + asum) + 64 * EPS * (mm.coordMag / L + 1) * asum;

  // Row <-> sample association. Documented (MeshETurbo/MeshEStandard::resetProjMatrix): one row per active sample
  // (with defined Z when rankZ >= 0), in Db order; a sample which belongs to no mesh keeps an empty row
  // ("NF_T.force(nvalid, getNApices())"). The per-row relations are evaluated under that mapping M0. For turbo
  // meshes a second mapping M1 (rows compacted over the samples which Grid::coordinateToIndicesInPlace reports
  // outside the grid) is evaluated as a DIAGNOSIS only: if M1 explains the matrix and M0 does not, one failure with
  // the key "rows-shifted-after-sample-outside-grid" is logged and the row relations are reported under M1, so that
  // any other defect stays visible under its own key.
  struct Rec { std::string o, k; bool ok; double err, tol; std::string d; };
  auto evalRows = [&](const std::vector<int>& rmap, std::vector<Rec>& out) {
    int nfail = 0;
    auto add = [&](const std::string& o, const std::string& k, bool ok, double err, double tol, const std::string& d) {
      out.push_back({o, k, ok, err, tol, d});
      if (!ok) nfail++;
    };
    const bool plainTurbo = dynamic_cast<const MeshETurbo*>(mesh) != nullptr && (mc.kind == MK_TURBO || mc.kind == MK_TURBO_COVA);
    for (int i = 0; i < np; i++)
    {
      int row = rmap[i];
      if (row < 0) continue;
      int pc = pd.pclass[i];
      if (pc == PC_AMBIG) { out.push_back({"", "skip", true, 0, 0, ""}); continue; }
      static const std::vector<std::pair<int, double>> none;
      const auto& rw = row < (int)rows.size() ? rows[row] : none;
      std::string kc = kb + ":" + PCN[pc];
      if (pc == PC_OUT_FAR || pc == PC_OUT_NEAR)
      {
        add("proj-outside-empty", kc + ":row-not-empty", rw.empty(), rw.empty() ? 0 : 1, 0, fmt("sample %d row %d has %zu entries", i, row, rw.size()));
        continue;
      }
      bool mustExist = pc != PC_HULL; // on the hull the property does not decide; validity is checked if a row exists
      // ... except for the NODES of the grid behind an unmasked turbo mesh: MeshETurbo::resetProjMatrix documents "In the case
      // the target coordinate is on the edge of the grid try to shift the point down by one node", i.e. the nodes of the outer
      // border belong to the mesh like every other node (projecting the grid that defines the mesh on that mesh is the basic use)
      if (pc == PC_HULL && pd.isVertex[i] && plainTurbo) { mustExist = true; kc += ":grid-node-on-border"; }
      if (rw.empty())
      {
        if (mustExist) add("proj-inside-nonempty", kc + ":row-empty", false, 1, 0, fmt("sample %d row %d p=%s", i, row, jvec(pd.pts[i]).c_str()));
        continue;
      }
      if (mustExist) add("proj-inside-nonempty", kc + ":row-empty", true, 0, 0, "");
      LD sw = 0, sa = 0, wmin = INFINITY;
      bool idxOk = true;
      for (auto& cw : rw)
      {
        if (cw.first < 0 || cw.first >= mm.nv) { idxOk = false; continue; }
        sw += cw.second;
        wmin = std::min(wmin, (LD)cw.second);
        int v = cw.first;
        sa += (LD)cw.second * aff([&](int d) { return mm.x(v, d); });
      }
      LD want = aff([&](int d) { return pd.pts[i][d]; });
      double tw = tolW, ta = tolA;
      // library acceptance thresholds on the hull: EPSILON5 (AMesh::_weightsInMesh) / EPSILON6 (MeshETurbo::_addWeights)
      if (pc == PC_HULL) { tw = std::max(tw, 2e-5); ta = std::max(ta, 2e-5 * (1 + asum) * (mm.hmax / L + 1)); }
      add("proj-count", kc + ":too-many-entries", idxOk && (int)rw.size() <= nc, 0, 0, fmt("%zu entries", rw.size()));
      add("proj-nonneg", kc + ":negative-weight", wmin >= -tw, (double)std::max((LD)0, -wmin), tw, fmt("sample %d wmin=%.3g", i, (double)wmin));
      add("proj-sum1", kc + ":sum-not-1", std::fabs((double)(sw - 1)) <= tw, std::fabs((double)(sw - 1)), tw, fmt("sample %d", i));
      add("proj-affine", kc + ":affine-not-reproduced", std::fabs((double)(sa - want)) <= ta, std::fabs((double)(sa - want)), ta,
          fmt("sample %d got=%.15g want=%.15g p=%s", i, (double)sa, (double)want, jvec(pd.pts[i]).c_str()));
    }
    return nfail;
  };
  std::vector<Rec> rec0, rec1;
  int f0 = evalRows(rowOf, rec0);
  const std::vector<Rec>* use = &rec0;
  const MeshETurbo* asTurbo = dynamic_cast<const MeshETurbo*>(mesh);
  if (f0 > 0 && asTurbo != nullptr)
  {
    std::vector<int> rowCompact(np, -1);
    int k = 0, nOutGrid = 0;
    VectorInt indg(ndim);
    for (int i = 0; i < np; i++)
    {
      if (rowOf[i] < 0) continue;
      if (asTurbo->getGrid().coordinateToIndicesInPlace(VD(pd.pts[i]), indg) != 0) { nOutGrid++; continue; }
      rowCompact[i] = k++;
    }
    if (nOutGrid > 0)
    {
      int f1 = evalRows(rowCompact, rec1);
      if (f1 < f0)
      {
        c.truth("proj-row-alignment", "C15:ProjMatrix:turbo:rows-shifted-after-sample-outside-grid", false,
                fmt("%d retained samples outside the grid; %d row relations fail under the documented row=sample mapping, %d under the compacted one", nOutGrid, f0, f1));
        use = &rec1;
      }
    }
  }
  if (use == &rec0) c.truth("proj-row-alignment", "C15:ProjMatrix:rows-vs-samples", true);
  for (const Rec& q : *use)
  {
    if (q.k == "skip") { c.skip("proj:ambiguous-point"); continue; }
    c.check(q.o, q.k, q.ok, q.err, q.tol, q.d);
  }

  // the projection as an operator: mesh2point / point2mesh vs own products
  if (shapeOk && nrows > 0)
  {
    std::vector<double> u(mm.nv), v(nrows);
    for (auto& t : u) t = r.normal();
    for (auto& t : v) t = r.normal();
    std::vector<LD> wantP = mulv(A, toLD(u)), boundP = mulv(A, toLD(u), false, true);
    std::vector<LD> ua(mm.nv), va(nrows);
    for (int i = 0; i < mm.nv; i++) ua[i] = std::fabs(u[i]);
    for (int i = 0; i < nrows; i++) va[i] = std::fabs(v[i]);
    boundP = mulv(A, ua, false, true);
    std::vector<LD> wantM = mulv(A, toLD(v), true), boundM = mulv(A, va, true, true);
    VectorDouble out;
    int e1 = pm->mesh2point(VD(u), out);
    double q = e1 ? INFINITY : ratioVec(SV(out), wantP, boundP, 16);
    c.check("proj-mesh2point", kb + ":mesh2point", q <= 1, q, 1, fmt("err=%d", e1));
    int e2 = pm->point2mesh(VD(v), out);
    q = e2 ? INFINITY : ratioVec(SV(out), wantM, boundM, 16);
    c.check("proj-point2mesh", kb + ":point2mesh", q <= 1, q, 1, fmt("err=%d", e2));
    // same geometry described by the twin class (turbo <-> standard): interpolated values agree at strictly inside points
    if (twin != nullptr)
    {
      std::unique_ptr<ProjMatrix> pt(ProjMatrix::create(db.get(), twin, rankZ, false));
      VectorDouble o1, o2;
      if (pt->getPointNumber() == nrows && pt->getApexNumber() == mm.nv && pm->mesh2point(VD(u), o1) == 0 && pt->mesh2point(VD(u), o2) == 0)
      {
        double un = 0;
        for (double t : u) un = std::max(un, std::fabs(t));
        for (int i = 0; i < firstMixed; i++)
          if (rowOf[i] >= 0 && pd.pclass[i] == PC_INSIDE)
            c.close("proj-twin", kb + ":turbo-vs-standard", o1[rowOf[i]], o2[rowOf[i]], 8 * tolW * un);
      }
      else
        c.truth("proj-twin", kb + ":turbo-vs-standard:shape", false);
    }
  }
}

// ---------------------------------------------------------------------------------------------
// oracles (d) and (e): conditional precision, solves, kriging and likelihood in the two modes
// ---------------------------------------------------------------------------------------------
static std::unique_ptr<Db> makeDb(int ndim, const std::vector<std::vector<double>>& pts, const std::vector<double>* z,
                                  const std::vector<int>* active = nullptr)
{
  int np = (int)pts.size();
  VectorDouble tab((ndim + (z ? 1 : 0)) * np);
  for (int i = 0; i < np; i++)
  {
    for (int d = 0; d < ndim; d++) tab[d * np + i] = pts[i][d];
    if (z) tab[ndim * np + i] = (*z)[i];
  }
  VectorString names, locs;
  for (int d = 0; d < ndim; d++) { names.push_back(fmt("x%d", d + 1)); locs.push_back(fmt("x%d", d + 1)); }
  if (z) { names.push_back("z"); locs.push_back("z1"); }
  std::unique_ptr<Db> db(Db::createFromSamples(np, ELoadBy::COLUMN, tab, names, locs, true));
  if (db && active)
  {
    VectorDouble sel(np);
    for (int i = 0; i < np; i++) sel[i] = (*active)[i];
    db->addSelection(sel, "sel");
  }
  return db;
}
// dense symmetric positive definite solve helpers on top of ref::Chol
static std::vector<LD> cholSolve(const ref::Chol& ch, std::vector<LD> b)
{
  int n = ch.L.nr;
  for (int i = 0; i < n; i++) { for (int j = 0; j < i; j++) b[i] -= ch.L(i, j) * b[j]; b[i] /= ch.L(i, i); }
  for (int i = n - 1; i >= 0; i--) { for (int j = i + 1; j < n; j++) b[i] -= ch.L(j, i) * b[j]; b[i] /= ch.L(i, i); }
  return b;
}

struct Block
{
  PrecisionOpCs* qcs;
  PrecisionOp* qmf;
  const Sp* Q;
  const ModelCase* mo;
};

static void checkConditional(Rng& r, Ctx& c, const MeshCase& mc, const std::vector<Block>& blk, const std::string& cls0)
{
  const MeshMirror& mm = mc.mm;
  const int ndim = mm.ndim, n = mm.nv, nc = mm.nc;
  const int K = (int)blk.size(), N = K * n;
  const ModelCase& mo = *blk[0].mo;
  const std::string cls = cls0 + fmt(":ncov=%d", K);
  double totalSill = 0;
  int degMax = 0;
  bool anyMarkov = false;
  for (auto& b : blk) { totalSill += b.mo->sill; degMax = std::max(degMax, b.mo->degree); anyMarkov = anyMarkov || b.mo->markov; }
  std::vector<double> lo(ndim, INFINITY), hi(ndim, -INFINITY);
  for (int i = 0; i < n; i++) for (int d = 0; d < ndim; d++) { lo[d] = std::min(lo[d], mm.x(i, d)); hi[d] = std::max(hi[d], mm.x(i, d)); }
  double L = 0;
  for (int d = 0; d < ndim; d++) L = std::max(L, hi[d] - lo[d]);
  auto insidePoint = [&]() {
    std::vector<double> p(ndim, 0.), w(nc);
    int e = r.irange(0, mm.ne - 1);
    double sw = 0;
    for (auto& v : w) { v = 0.02 + r.u01(); sw += v; }
    for (int k = 0; k < nc; k++) for (int d = 0; d < ndim; d++) p[d] += w[k] / sw * mm.x(mm.apex(e, k), d);
    return p;
  };
  // ---- data: inside / on a vertex / outside the bounding box of the mesh (any mesh kind, any position in the Db, the last
  //      sample included: the projection defects which forbade this in round 1 are fixed) ---------------------------------
  int nd = r.irange(1, c.thorough() ? 60 : 30);
  std::vector<std::vector<double>> dpts;
  int nOutData = 0;
  for (int i = 0; i < nd; i++)
  {
    double u = r.u01();
    if (u < 0.1)
    {
      int v = r.irange(0, n - 1);
      std::vector<double> p(ndim);
      for (int d = 0; d < ndim; d++) p[d] = mm.x(v, d);
      dpts.push_back(p);
    }
    else if (u < 0.2 && !AVOID_OUTSIDE_GRID_POINTS)
    {
      std::vector<double> p = insidePoint();
      int d0 = r.irange(0, ndim - 1);
      p[d0] = hi[d0] + L * r.uni(0.2, 2.);
      dpts.push_back(p);
      nOutData++;
    }
    else dpts.push_back(insidePoint());
  }
  if (AVOID_OUTSIDE_GRID_POINTS) dpts.back() = insidePoint();
  int zclass = r.irange(0, 2); // data magnitude classes: the iterative solver's stopping rule is not scale invariant
  double zscale = std::sqrt(totalSill) * (zclass == 0 ? r.loguni(1e-4, 1e-2) : zclass == 1 ? r.uni(0.5, 2.) : r.loguni(1e2, 1e4));
  std::vector<double> z(nd);
  double zmean = r.coin(0.5) ? 0. : r.uni(-3, 3);
  for (auto& v : z) v = zscale * (zmean + r.normal());
  // the Db given to the library may carry extra samples which must be ignored: masked by the selection, or with an undefined Z
  std::unique_ptr<Db> dbin;
  int extras = r.coin(0.35) ? r.irange(1, 6) : 0;
  c.probe(extras ? "cond.db-with-masked/undefined-samples" : "cond.db-plain");
  if (extras == 0) dbin = makeDb(ndim, dpts, &z);
  else
  {
    std::vector<std::vector<double>> allp;
    std::vector<double> allz;
    std::vector<int> act;
    int placed = 0;
    bool anyMasked = false;
    for (int i = 0; i <= nd; i++)
    {
      // insert extras at random positions, after the last genuine sample included
      while (placed < extras && r.coin(0.3))
      {
        bool masked = r.coin();
        allp.push_back(insidePoint());
        allz.push_back(masked ? zscale * r.normal() * 50 : TEST);
        act.push_back(masked ? 0 : 1);
        anyMasked = anyMasked || masked;
        placed++;
      }
      if (i < nd) { allp.push_back(dpts[i]); allz.push_back(z[i]); act.push_back(1); }
    }
    dbin = makeDb(ndim, allp, &allz, anyMasked ? &act : nullptr);
  }
  // nugget: none / above both API's floors (sigma2 = nugget) / below the floor (krigingSPDE: sigma2 = 0.01 total sill)
  int nugClass = r.irange(0, 3);
  double nug = nugClass <= 1 ? 0. : nugClass == 2 ? totalSill * r.loguni(0.02, 1.) : totalSill * r.loguni(1e-3, 5e-3);
  double sigma2 = std::max(nug, 1e-2 * totalSill); // SPDE::_init: MAX(_nugget, params.getEpsNugget() * totalSill), EpsNugget = EPSILON2
  std::string kcls = cls + fmt(":nug=%d", nug > 0 ? 1 : 0);
  std::unique_ptr<Model> model(mo.model->clone());
  for (int k = 1; k < K; k++) model->addCov(blk[k].mo->cova);
  if (nug > 0) model->addCovFromParam(ECov::NUGGET, 0., nug);
  c.puts("cond", fmt("ncov=%d nd=%d zscale=%.3g nug=%.3g sigma2=%.3g extras=%d", K, nd, zscale, nug, sigma2, extras));

  ProjMatrix proj(dbin.get(), mc.mesh.get(), 0, false);
  if (!c.truth("cond-proj-shape", "C15:cond:proj-shape:" + cls, proj.getPointNumber() == nd && proj.getApexNumber() == n,
               fmt("rows=%d nd=%d", proj.getPointNumber(), nd)))
    return;
  Sp P = mirror(&proj);
  // A = blockdiag(Q_1..Q_K) + [P .. P]' D^-1 [P .. P]   on x = (x_1; ..; x_K)
  // (doc of PrecisionOpMultiConditional::_evalDirect: "diag(Q1,...,Qncova) x + 1/nugget [A1,...,Ancova]^t [A1,...,Ancova] x")
  auto applyA = [&](const std::vector<LD>& x, bool absval) {
    std::vector<LD> y(N, 0), t(nd, 0);
    for (int k = 0; k < K; k++)
    {
      std::vector<LD> xk(x.begin() + (size_t)k * n, x.begin() + (size_t)(k + 1) * n);
      std::vector<LD> qk = mulv(*blk[k].Q, xk, false, absval), pk = mulv(P, xk, false, absval);
      for (int i = 0; i < n; i++) y[(size_t)k * n + i] = qk[i];
      for (int s = 0; s < nd; s++) t[s] += pk[s];
    }
    for (auto& v : t) v /= (LD)sigma2;
    std::vector<LD> u = mulv(P, t, true, absval);
    for (int k = 0; k < K; k++) for (int i = 0; i < n; i++) y[(size_t)k * n + i] += u[i];
    return y;
  };
  auto flat = [&](const std::vector<std::vector<double>>& v) {
    std::vector<double> o;
    for (auto& e : v) o.insert(o.end(), e.begin(), e.end());
    return o;
  };
  // own right-hand side b = (P' (z / sigma2)) repeated for every structure
  std::vector<LD> zs(nd), zsa(nd);
  for (int i = 0; i < nd; i++) { zs[i] = (LD)z[i] / (LD)sigma2; zsa[i] = std::fabs(zs[i]); }
  std::vector<LD> b1 = mulv(P, zs, true), bm1 = mulv(P, zsa, true, true), bref, bmag;
  for (int k = 0; k < K; k++) { bref.insert(bref.end(), b1.begin(), b1.end()); bmag.insert(bmag.end(), bm1.begin(), bm1.end()); }
  double bnorm = (double)norm2(bref);
  double bnormBlocks = K * (double)norm2(b1); // what ALinearOpMulti uses as 'nb': the SUM of the block norms

  // ---- the two conditional operators ---------------------------------------------------------------
  PrecisionOpMultiConditional pcg;
  PrecisionOpMultiConditionalCs pch;
  VectorDouble var(nd, sigma2);
  bool okb = true;
  for (int k = 0; k < K; k++) okb = okb && pcg.push_back(blk[k].qmf, &proj) == 0 && pch.push_back(blk[k].qcs, &proj) == 0;
  if (!c.truth("cond-build", "C15:cond:push_back:" + cls, okb)) return;
  pcg.setVarianceDataVector(var);
  pch.setVarianceDataVector(var);
  pch.makeReady();
  std::vector<std::vector<double>> rhs1 = pcg.computeRhs(z), rhs2 = pch.computeRhs(z);
  {
    double q1 = (int)rhs1.size() == K ? ratioVec(flat(rhs1), bref, bmag, 8. * (nd + 4)) : INFINITY; // up to nd terms accumulate per apex
    double q2 = (int)rhs2.size() == K ? ratioVec(flat(rhs2), bref, bmag, 8. * (nd + 4)) : INFINITY;
    c.check("cond-rhs", "C15:cond:computeRhs:" + cls, q1 <= 1 && q2 <= 1, std::max(q1, q2), 1);
    if (!(q1 <= 1 && q2 <= 1)) return;
  }
  const double cfA = 64. * (degMax + 2) * 20;
  // evalDirect of the conditional operator (matrix-free form) vs own A x
  {
    std::vector<std::vector<double>> xin(K, std::vector<double>(n)), yout(K, std::vector<double>(n, 0.));
    for (auto& e : xin) for (auto& v : e) v = r.normal();
    pcg.evalDirect(xin, yout);
    std::vector<LD> xl = toLD(flat(xin)), xa(N);
    for (int i = 0; i < N; i++) xa[i] = std::fabs(xl[i]);
    std::vector<LD> want = applyA(xl, false), mag = applyA(xa, true);
    double q = ratioVec(flat(yout), want, mag, cfA);
    c.check("cond-evalDirect", "C15:cond:evalDirect:" + cls, q <= 1, q, 1);
  }
  // the same matrix-free operator with a variance of measurement error PER DATUM (SPDE::_init fills the vector sample by sample
  // from the ELoc::V column): D = diag(v_i), A = blockdiag(Q_k) + [P..P]' D^-1 [P..P], rhs = P' D^-1 z.
  // Drawn from a stream of its own so that the other draws of the case are unchanged.
  if (nd >= 2)
  {
    Rng r2(c.seed, "C15hetero", (uint64_t)c.icase);
    std::vector<double> vh(nd);
    for (auto& v : vh) v = sigma2 * r2.loguni(0.2, 5.);
    PrecisionOpMultiConditional ph;
    bool okh = true;
    for (int k = 0; k < K; k++) okh = okh && ph.push_back(blk[k].qmf, &proj) == 0;
    if (okh)
    {
      ph.setVarianceDataVector(VectorDouble(vh));
      auto applyAH = [&](const std::vector<LD>& x, bool absval) {
        std::vector<LD> y(N, 0), t(nd, 0);
        for (int k = 0; k < K; k++)
        {
          std::vector<LD> xk(x.begin() + (size_t)k * n, x.begin() + (size_t)(k + 1) * n);
          std::vector<LD> qk = mulv(*blk[k].Q, xk, false, absval), pk = mulv(P, xk, false, absval);
          for (int i = 0; i < n; i++) y[(size_t)k * n + i] = qk[i];
          for (int s = 0; s < nd; s++) t[s] += pk[s];
        }
        for (int s = 0; s < nd; s++) t[s] /= (LD)vh[s];
        std::vector<LD> u = mulv(P, t, true, absval);
        for (int k = 0; k < K; k++) for (int i = 0; i < n; i++) y[(size_t)k * n + i] += u[i];
        return y;
      };
      std::vector<std::vector<double>> xin(K, std::vector<double>(n)), yout(K, std::vector<double>(n, 0.));
      for (auto& e : xin) for (auto& v : e) v = r2.normal();
      ph.evalDirect(xin, yout);
      std::vector<LD> xl = toLD(flat(xin)), xa(N);
      for (int i = 0; i < N; i++) xa[i] = std::fabs(xl[i]);
      std::vector<LD> want = applyAH(xl, false), mag = applyAH(xa, true);
      double q = ratioVec(flat(yout), want, mag, cfA);
      c.check("cond-evalDirect-hetero", "C15:cond:evalDirect:per-datum-variance:" + cls, q <= 1, q, 1);
      std::vector<LD> zh(nd), zha(nd);
      for (int i = 0; i < nd; i++) { zh[i] = (LD)z[i] / (LD)vh[i]; zha[i] = std::fabs(zh[i]); }
      std::vector<LD> bh1 = mulv(P, zh, true), bhm1 = mulv(P, zha, true, true), bh, bhm;
      for (int k = 0; k < K; k++) { bh.insert(bh.end(), bh1.begin(), bh1.end()); bhm.insert(bhm.end(), bhm1.begin(), bhm1.end()); }
      std::vector<std::vector<double>> rh = ph.computeRhs(z);
      double qr = (int)rh.size() == K ? ratioVec(flat(rh), bh, bhm, 8. * (nd + 4)) : INFINITY;
      c.check("cond-rhs-hetero", "C15:cond:computeRhs:per-datum-variance:" + cls, qr <= 1, qr, 1);
    }
  }
  // solves
  std::vector<std::vector<double>> xcgv(K, std::vector<double>(n, 0.)), xchv(K, std::vector<double>(n, 0.));
  pch.evalInverse(rhs2, xchv);
  pcg.evalInverse(rhs1, xcgv);
  std::vector<double> xch = flat(xchv), xcg = flat(xcgv);
  auto residual = [&](const std::vector<double>& x, LD* rn2, LD* magInf, LD* rInf) {
    std::vector<LD> xl = toLD(x), xa(N);
    for (int i = 0; i < N; i++) xa[i] = std::fabs(xl[i]);
    std::vector<LD> ax = applyA(xl, false), mag = applyA(xa, true);
    LD s = 0, mi = 0, ri = 0;
    for (int i = 0; i < N; i++)
    {
      LD d = ax[i] - bref[i];
      s += d * d;
      ri = std::max(ri, std::fabs(d));
      mi = std::max(mi, mag[i] + std::fabs(bref[i]));
    }
    *rn2 = s; *magInf = mi; *rInf = ri;
  };
  LD r2ch, mch, rich, r2cg, mcg, ricg;
  residual(xch, &r2ch, &mch, &rich);
  residual(xcg, &r2cg, &mcg, &ricg);
  const double CGEPS = 1e-8; // ALinearOpMulti default eps (EPSILON8); SPDE never changes it
  // cheap upper bound of cond(A): lambda_max <= ||A||_1 ; lambda_min >= min_k lambda_min(Q_k) >= min_k coef_k[0] * min(lambda_ki^2)
  // (Q = Lambda P(S) Lambda, S positive semi-definite, polynomial coefficients >= 0 for every model generated here)
  double kappaUb;
  {
    std::vector<LD> ones(nd, 1 / (LD)sigma2), pcol = mulv(P, ones, true, true); // column sums of |P|'D^-1 (row sums of |P| are <= 1)
    LD a1 = 0;
    double lminQ = INFINITY;
    for (int k = 0; k < K; k++)
    {
      std::vector<LD> colsum(n, 0);
      const Sp& Q = *blk[k].Q;
      for (size_t e = 0; e < Q.v.size(); e++) colsum[Q.c[e]] += std::fabs((LD)Q.v[e]);
      for (int i = 0; i < n; i++) a1 = std::max(a1, colsum[i] + K * pcol[i]);
      double lmin2 = INFINITY;
      for (double v : blk[k].qmf->getShiftOp()->getLambdas().getVector()) lmin2 = std::min(lmin2, v * v);
      lminQ = std::min(lminQ, blk[k].mo->coef[0] * lmin2);
    }
    kappaUb = (double)a1 / lminQ;
  }
  c.putn("kappaUb", kappaUb);
  if (kappaUb <= 1e11)
  {
    double q = (double)(rich / (64. * N * EPS * mch + 1e-300L));
    c.check("solve-residual-chol", "C15:PrecisionOpMultiConditionalCs::evalInverse:residual:" + kcls, q <= 1, q, 1);
  }
  else c.skip("cond:chol-illcond(kappaUb>1e11)");
  std::string bcls = bnorm < 1 ? "rhs-norm<1" : "rhs-norm>=1";
  bool cgRuleOk = false;
  if (!(bnorm > 0)) c.skip("cond:zero-rhs");
  else if (kappaUb > 1e9) c.skip("cond:cg-illcond(kappaUb>1e9)"); // DESIGN 5.3: ill-conditioned systems are excluded
  else
  {
    // Which tolerance the iterative solver promises is not documented. Two readings are accepted here, the solve passes if
    // EITHER holds for the TRUE residual r = b - A x (own products):
    //  (A) the rule as coded in ALinearOpMulti::evalInverse: <r,r> / sum_blocks ||b_i|| <= eps (eps = EPSILON8), slack 4 for the
    //      drift between recurrence and true residual + round-off;
    //  (B) the scale-free form of the property: ||r|| <= sqrt(eps) ||b||, slack 4.
    // (A) is not scale invariant: with ||b|| << 1 it allows ||r||/||b|| >> 1e-4; counted by the probe 'cg.ruleA-only' (see report).
    double ownrule = (double)(r2cg / (LD)bnormBlocks);
    double roundoff = (double)(64. * N * EPS * mcg);
    double rel = (double)(std::sqrt(r2cg) / (LD)bnorm);
    cgRuleOk = ownrule <= 4 * CGEPS + roundoff * roundoff / bnormBlocks;
    bool relOk = rel <= 4 * std::sqrt(CGEPS) + roundoff / bnorm;
    if (cgRuleOk && !relOk) c.probe("cg.ruleA-only(rel-residual>4e-4)");
    if (!cgRuleOk && relOk) c.probe("cg.ruleB-only");
    std::string key = "C15:PrecisionOpMultiConditional::evalInverse:cg-residual:" + bcls + ":" + kcls;
    std::string diag;
    if (!cgRuleOk && !relOk)
    { // diagnosis: does the same solver on the same system converge when allowed more than the default 1000 iterations ?
      PrecisionOpMultiConditional p2;
      for (int k = 0; k < K; k++) p2.push_back(blk[k].qmf, &proj);
      p2.setVarianceDataVector(var);
      p2.setNIterMax(50000);
      std::vector<std::vector<double>> x2(K, std::vector<double>(n, 0.));
      p2.evalInverse(rhs1, x2);
      LD r22, m2, ri2;
      residual(flat(x2), &r22, &m2, &ri2);
      bool conv = (double)(r22 / (LD)bnormBlocks) <= 4 * CGEPS + roundoff * roundoff / bnormBlocks;
      if (conv) key = "C15:ALinearOpMulti::evalInverse:unconverged-at-default-nitermax-returned-silently";
      diag = fmt(" ; with nitermax=50000: ||r||=%.3g %s", (double)std::sqrt(r22), conv ? "(converged)" : "(still not converged)");
    }
    c.check("solve-residual-cg", key, cgRuleOk || relOk, std::min(ownrule / (4 * CGEPS), rel / (4 * std::sqrt(CGEPS))), 1,
            fmt("||r||=%.3g ||b||=%.3g ||r||/||b||=%.3g <r,r>/sum||b_k||=%.3g kappaUb=%.3g n=%d zscale=%.3g%s", (double)std::sqrt(r2cg), bnorm, rel, ownrule, kappaUb, N,
                zscale, diag.c_str()));
    // the same solve with the periodic restart of the conjugate gradient (ALinearOpMulti::setNIterRestart: the residual is
    // recomputed from the current iterate every k iterations): same acceptance rule, judged only when the plain solve passed
    if (cgRuleOk || relOk)
    {
      PrecisionOpMultiConditional p3;
      bool ok3 = true;
      for (int k = 0; k < K; k++) ok3 = ok3 && p3.push_back(blk[k].qmf, &proj) == 0;
      if (ok3)
      {
        p3.setVarianceDataVector(var);
        int kr = (c.icase % 2) ? 3 : 7;
        p3.setNIterRestart(kr);
        std::vector<std::vector<double>> x3(K, std::vector<double>(n, 0.));
        p3.evalInverse(rhs1, x3);
        LD r23, m3, ri3;
        residual(flat(x3), &r23, &m3, &ri3);
        double own3 = (double)(r23 / (LD)bnormBlocks), rel3 = (double)(std::sqrt(r23) / (LD)bnorm), ro3 = (double)(64. * N * EPS * m3);
        bool okA = own3 <= 4 * CGEPS + ro3 * ro3 / bnormBlocks, okB = rel3 <= 4 * std::sqrt(CGEPS) + ro3 / bnorm;
        std::string key3 = "C15:PrecisionOpMultiConditional::evalInverse:cg-residual:with-restart:" + kcls, diag3;
        if (!okA && !okB)
        {
          // restarting every few iterations slows the conjugate gradient down: the same diagnosis as for the plain solve - does
          // it converge when allowed more than the default 1000 iterations ? (then it is the known silent-return finding)
          PrecisionOpMultiConditional p4;
          for (int k = 0; k < K; k++) p4.push_back(blk[k].qmf, &proj);
          p4.setVarianceDataVector(var);
          p4.setNIterRestart(kr);
          p4.setNIterMax(50000);
          std::vector<std::vector<double>> x4(K, std::vector<double>(n, 0.));
          p4.evalInverse(rhs1, x4);
          LD r24, m4, ri4;
          residual(flat(x4), &r24, &m4, &ri4);
          bool conv = (double)(r24 / (LD)bnormBlocks) <= 4 * CGEPS + ro3 * ro3 / bnormBlocks || (double)(std::sqrt(r24) / (LD)bnorm) <= 4 * std::sqrt(CGEPS) + ro3 / bnorm;
          if (conv) key3 = "C15:ALinearOpMulti::evalInverse:unconverged-at-default-nitermax-returned-silently";
          diag3 = fmt(" ; with nitermax=50000: ||r||/||b||=%.3g %s", (double)(std::sqrt(r24) / (LD)bnorm), conv ? "(converged)" : "(still not converged)");
        }
        c.check("solve-residual-cg-restart", key3, okA || okB,
                std::min(own3 / (4 * CGEPS), rel3 / (4 * std::sqrt(CGEPS))), 1, fmt("restart every %d iterations: ||r||/||b||=%.3g%s", kr, rel3, diag3.c_str()));
      }
    }
  }

  // ---- the operators behind krigingSPDENew: SPDEOp (matrix-free) and SPDEOpMatrix apply Q + P' N P  -------------
  // (doc of SPDEOp::_addToDestImpl: "'outv' = (_Q + _Proj' * _invNoise * Proj) * 'inv'"); N = buildInvNugget = diag(1/sigma2)
  // One structure only: ProjMultiMatrix::createFromDbAndMeshes accepts 1 mesh or one per VARIABLE, PrecisionOpMulti one per structure.
  bool spdeOpOk = false;
  bool newApi = K == 1 && !anyMarkov && nugClass != 3;
  if (newApi)
  {
    const Sp& Q = *blk[0].Q;
    VectorMeshes meshes = {mc.mesh.get()};
    std::unique_ptr<MatrixSparse> invnoise(buildInvNugget(dbin.get(), model.get()));
    bool nOk = invnoise != nullptr && invnoise->getNRows() == nd && invnoise->getNCols() == nd;
    if (nOk)
    {
      Sp Nn = mirror(invnoise.get());
      for (size_t k = 0; k < Nn.v.size(); k++)
        if (Nn.r[k] != Nn.c[k] || std::fabs(Nn.v[k] * sigma2 - 1) > 1e-12) nOk = false;
      if ((int)Nn.v.size() != nd) nOk = false;
    }
    if (c.truth("invnugget", "C15:buildInvNugget:not-diag(1/sigma2):" + kcls, nOk))
    {
      ProjMultiMatrix AM = ProjMultiMatrix::createFromDbAndMeshes(dbin.get(), meshes);
      PrecisionOpMulti Qop(model.get(), meshes);
      PrecisionOpMultiMatrix Qmat(model.get(), meshes);
      MatrixSquareSymmetricSim invnoisep(invnoise.get());
      SPDEOp opFree(&Qop, &AM, &invnoisep);
      SPDEOpMatrix opMat(&Qmat, &AM, invnoise.get());
      std::vector<double> x(n);
      for (auto& v : x) v = r.normal();
      std::vector<LD> xl = toLD(x), xa(n);
      for (int i = 0; i < n; i++) xa[i] = std::fabs(xl[i]);
      std::vector<LD> want = applyA(xl, false), mag = applyA(xa, true), qx = mulv(Q, xl);
      if (opMat.getSize() == n)
      {
        VectorDouble y = opMat.evalDirect(VD(x));
        double q = ratioVec(SV(y), want, mag, cfA);
        c.check("spdeop-evalDirect", "C15:SPDEOpMatrix:evalDirect:" + kcls, q <= 1, q, 1);
      }
      else c.truth("spdeop-evalDirect", "C15:SPDEOpMatrix:size:" + kcls, false);
      if (opFree.getSize() == n)
      {
        VectorDouble y = opFree.evalDirect(VD(x));
        int w = 0;
        double q = ratioVec(SV(y), want, mag, cfA, &w);
        std::string key = "C15:SPDEOp:evalDirect:" + kcls;
        if (!(q <= 1) && ratioVec(SV(y), qx, mag, cfA) <= 1) key = "C15:SPDEOp::_addToDestImpl:data-term-lost(PrecisionOp::addToDest-overwrites)";
        spdeOpOk = c.check("spdeop-evalDirect", key, q <= 1, q, 1, q <= 1 ? "" : fmt("i=%d y=%.10g (Q+P'NP)x=%.10g Qx=%.10g", w, y[w], (double)want[w], (double)qx[w]));
      }
      else c.truth("spdeop-evalDirect", "C15:SPDEOp:size:" + kcls, false);
      // SPDEOp::kriging and SPDEOp::krigingWithGuess solve (Q + P'NP) x = P'N z with Eigen's conjugate gradient (relative
      // residual tolerance set below): both returned vectors must satisfy the system, whatever the initial guess.
      // Evaluated only when the iteration cap cannot bite (same rule as krigingSPDENew below).
      if (spdeOpOk && kappaUb <= 1e6 && bnorm > 0)
      {
        opFree.setTolerance(1e-9);
        opFree.setMaxIterations(20000);
        Rng r2(c.seed, "C15guess", (uint64_t)c.icase);
        std::vector<double> guess(n);
        double xscale = zscale;
        for (auto& v : guess) v = xscale * r2.normal();
        auto relres = [&](const VectorDouble& x) -> double {
          if ((int)x.size() != n) return INFINITY;
          std::vector<LD> xl2 = toLD(SV(x)), ax = applyA(xl2, false);
          LD s2 = 0;
          for (int i = 0; i < n; i++) { LD d = ax[i] - bref[i]; s2 += d * d; }
          return (double)(std::sqrt(s2) / (LD)bnorm);
        };
        double r0 = relres(opFree.kriging(VD(z))), r1 = relres(opFree.krigingWithGuess(VD(z), VD(guess)));
        // slack 1e3 over the requested 1e-9 (drift between the recurrence and the true residual, round-off of the products)
        c.check("spdeop-kriging-residual", "C15:SPDEOp:kriging:residual:" + kcls, r0 <= 1e-6, r0, 1e-6);
        c.check("spdeop-krigingWithGuess-residual", "C15:SPDEOp:krigingWithGuess:residual:" + kcls, r1 <= 1e-6, r1, 1e-6);
      }
    }
  }

  // ---- dense reference (small systems): x* = A^-1 b, ||A^-1||, log det, quadratic form --------------------
  const int NK = c.thorough() ? 220 : 130;
  if (N > NK) { c.skip("cond:no-dense-reference(N>NK)"); return; }
  Mat A(N, N);
  {
    Mat Pd = dense(P);
    Mat PtP(n, n);
    for (int s = 0; s < nd; s++)
      for (int i = 0; i < n; i++)
      {
        LD psi = Pd(s, i);
        if (psi == 0) continue;
        for (int j = 0; j < n; j++) PtP(i, j) += psi * Pd(s, j) / (LD)sigma2;
      }
    for (int k = 0; k < K; k++)
    {
      Mat Qk = dense(*blk[k].Q);
      for (int l = 0; l < K; l++)
        for (int i = 0; i < n; i++)
          for (int j = 0; j < n; j++) A(k * n + i, l * n + j) = PtP(i, j) + (k == l ? Qk(i, j) : (LD)0);
    }
  }
  for (int i = 0; i < N; i++) for (int j = 0; j < i; j++) { LD v = 0.5 * (A(i, j) + A(j, i)); A(i, j) = A(j, i) = v; }
  ref::Chol chA(A);
  if (!chA.ok)
  {
    if (kappaUb > 1e11) c.skip("cond:illcond");
    else c.truth("cond-A-posdef", "C15:cond:A-not-posdef:" + cls, false);
    return;
  }
  std::vector<LD> xs = cholSolve(chA, bref);
  // ||A^-1||_2 <= ||A^-1||_1 (symmetric): columns of the inverse
  LD ainv1 = 0;
  for (int j = 0; j < N; j++)
  {
    std::vector<LD> e(N, 0);
    e[j] = 1;
    std::vector<LD> col = cholSolve(chA, e);
    LD sabs = 0;
    for (LD v : col) sabs += std::fabs(v);
    ainv1 = std::max(ainv1, sabs);
  }
  LD anorm = A.norm1();
  double kappa = (double)(anorm * ainv1);
  if (kappa > 1e11) { c.skip("cond:illcond"); return; }
  LD xsInf = normInf(xs);
  // Cholesky mode vs reference: forward error c n eps kappa ||x*||
  {
    double e = 0;
    for (int i = 0; i < N; i++) e = std::max(e, std::fabs((double)((LD)xch[i] - xs[i])));
    double tol = 64. * N * EPS * kappa * (double)xsInf + 1e-300;
    c.check("cond-chol-vs-ref", "C15:cond:chol-solution-vs-reference:" + kcls, e <= tol, e, tol);
  }
  // CG mode vs reference: ||x - x*|| <= ||A^-1|| ||r||, with ||r|| bounded by the solver's rule sqrt(eps sum||b_k||) (slack 2)
  double cgBound = 2. * (double)ainv1 * std::sqrt(CGEPS * bnormBlocks) + 64. * N * EPS * kappa * (double)xsInf;
  {
    LD e2 = 0;
    for (int i = 0; i < N; i++) e2 += ((LD)xcg[i] - xs[i]) * ((LD)xcg[i] - xs[i]);
    double e = (double)std::sqrt(e2);
    if (cgRuleOk) c.check("cond-cg-vs-ref", "C15:cond:cg-solution-vs-reference:" + kcls, e <= cgBound, e, cgBound, fmt("kappa=%.3g ||b||=%.3g", kappa, bnorm));
    else c.skip("cond:cg-vs-ref(cg-not-evaluated)");
  }
  // sum over the structures of the solution: what is projected on data and targets
  std::vector<LD> xsum(n, 0);
  for (int k = 0; k < K; k++) for (int i = 0; i < n; i++) xsum[i] += xs[(size_t)k * n + i];
  // quadratic form z' Sigma^-1 z, Sigma^-1 = D^-1 - D^-1 [P..P] A^-1 [P..P]' D^-1   (PrecisionOpMultiConditional::evalInvCov)
  LD quadRef = 0;
  {
    std::vector<LD> pxs = mulv(P, xsum);
    for (int i = 0; i < nd; i++) quadRef += (LD)z[i] * ((LD)z[i] / (LD)sigma2 - pxs[i] / (LD)sigma2);
  }
  LD zDz = 0;
  for (int i = 0; i < nd; i++) zDz += (LD)z[i] * (LD)z[i] / (LD)sigma2;
  {
    double qch = pch.computeQuadratic(z);
    double tol = 256. * N * EPS * kappa * (double)zDz + 1e-300;
    c.close("cond-quad-chol", "C15:cond:computeQuadratic:chol-vs-reference:" + kcls, qch, (double)quadRef, tol);
    double qcg = pcg.computeQuadratic(z);
    // |z' D^-1 [P..P] (x - x*)| <= ||b|| ||x - x*||
    double tolcg = bnorm * cgBound + tol;
    if (cgRuleOk) c.close("cond-quad-cg", "C15:cond:computeQuadratic:cg-vs-reference:" + kcls, qcg, (double)quadRef, tolcg);
  }
  // log-determinant of the data covariance: log|Sigma| = log|A| - sum_k log|Q_k| + nd log sigma2
  LD logdetQ = 0;
  bool chQok = true;
  std::vector<ref::Chol> chQs;
  for (int k = 0; k < K; k++)
  {
    chQs.emplace_back(dense(*blk[k].Q));
    chQok = chQok && chQs.back().ok;
    if (chQs.back().ok) logdetQ += chQs.back().logdet();
  }
  LD logdetRef = NAN;
  if (chQok)
  {
    logdetRef = chA.logdet() - logdetQ + nd * std::log((LD)sigma2);
    double ld = pch.computeTotalLogDet(1);
    double tol = 1e-10 * (N + std::fabs((double)logdetRef)) + 1024. * N * EPS * kappa;
    c.close("cond-logdet-chol", "C15:cond:computeTotalLogDet:chol-vs-reference:" + kcls, ld, (double)logdetRef, tol);
  }

  // ---- top level API: krigingSPDE / logLikelihoodSPDE with useCholesky = 1 and 0 on a user mesh ---------
  int nt = r.irange(1, 12);
  std::vector<std::vector<double>> tpts;
  for (int i = 0; i < nt; i++) tpts.push_back(r.coin(0.15) ? dpts[r.irange(0, nd - 1)] : insidePoint());
  std::unique_ptr<Db> dbout = makeDb(ndim, tpts, nullptr);
  ProjMatrix projOut(dbout.get(), mc.mesh.get(), -1, false);
  Sp Po = mirror(&projOut);
  if (Po.nr != nt) { c.skip("cond:target-outside"); return; }
  std::vector<LD> estRef = mulv(Po, xsum);
  double estTolChol = 64. * N * EPS * kappa * K * (double)xsInf + 1e-300;
  for (int mode = 1; mode >= 0; mode--)
  {
    int ncol0 = dbout->getColumnNumber();
    (void)krigingSPDE(dbin.get(), dbout.get(), model.get(), nullptr, true, false, mc.mesh.get(), mode, SPDEParam(), 0, false, false);
    int ncol1 = dbout->getColumnNumber();
    std::string km = std::string("C15:krigingSPDE:") + (mode ? "chol" : "cg") + "-vs-reference:" + kcls;
    if (!c.truth("krig-ran", std::string("C15:krigingSPDE:no-output:") + (mode ? "chol" : "cg") + ":" + cls, ncol1 == ncol0 + 1)) continue;
    VectorDouble est = dbout->getColumnByColIdx(ncol1 - 1);
    double e = 0;
    for (int i = 0; i < nt; i++) e = std::max(e, std::fabs((double)((LD)est[i] - estRef[i])));
    // each estimate is sum_k (convex combination of x_k): |error| <= sum_k ||x_k - x_k*||_inf <= sqrt(K) ||x - x*||_2
    if (mode) c.check("krig-chol-vs-ref", km, e <= estTolChol, e, estTolChol);
    else if (cgRuleOk) c.check("krig-cg-vs-ref", km, e <= std::sqrt((double)K) * cgBound, e, std::sqrt((double)K) * cgBound, fmt("kappa=%.3g ||b||=%.3g", kappa, bnorm));
    else c.skip("krig:cg-vs-ref(cg-not-evaluated)");
  }
  // krigingSPDENew (SPDEOpMatrix / SPDEOp + LinearOpCGSolver<SPDEOp>: Eigen CG, tolerance 1e-5, 1000 iterations).
  // Noise: buildInvNugget -> 1 / max(nugget, EpsNugget * total sill incl. nugget): same sigma2 as above except in the
  // "below the floor" nugget class, which is skipped here. MATERN only (PrecisionOpMulti::_isValidModel).
  if (newApi)
  {
    VectorMeshes meshes = {mc.mesh.get()};
    for (int mode = 1; mode >= 0; mode--)
    {
      if (mode == 0 && !spdeOpOk) { c.skip("krignew:cg(operator-already-refuted)"); continue; }
      // target Db = the one already holding the krigingSPDE results (they carry a Z locator; see the end of this function)
      VectorDouble est = krigingSPDENew(dbin.get(), dbout.get(), model.get(), meshes, mode, false);
      std::string km = std::string("C15:krigingSPDENew:") + (mode ? "chol" : "cg") + "-vs-reference:" + kcls;
      if (!c.truth("krignew-ran", std::string("C15:krigingSPDENew:no-output:") + (mode ? "chol" : "cg") + ":" + cls, (int)est.size() == nt, fmt("size=%d nt=%d", (int)est.size(), nt)))
        continue;
      double e = 0;
      for (int i = 0; i < nt; i++) e = std::max(e, std::fabs((double)((LD)est[i] - estRef[i])));
      if (mode) c.check("krignew-chol-vs-ref", km, e <= estTolChol, e, estTolChol);
      else
      {
        // Eigen::ConjugateGradient stops on ||r|| <= tol ||b|| (tol = 1e-5 set by krigingSPDENew): ||x - x*|| <= ||A^-1|| tol ||b||, slack 2.
        // Evaluated only when the iteration cap (1000) cannot bite: kappaUb <= 1e6.
        if (kappaUb > 1e6) { c.skip("krignew:cg-illcond(kappaUb>1e6)"); continue; }
        double bound = 2. * (double)ainv1 * 1e-5 * bnorm + estTolChol;
        c.check("krignew-cg-vs-ref", km, e <= bound, e, bound, fmt("kappa=%.3g kappaUb=%.3g ||b||=%.3g est0=%.10g ref0=%.10g", kappa, kappaUb, bnorm, est[0], (double)estRef[0]));
      }
    }
  }
  // log-likelihood: -0.5 (log|Sigma| + z' Sigma^-1 z + nd log 2 pi)
  if (chQok)
  {
    LD llRef = -0.5L * (logdetRef + quadRef + nd * std::log(2 * (LD)M_PI));
    law_set_random_seed(1234 + (int)(r.next() % 100000));
    double ll1 = logLikelihoodSPDE(dbin.get(), model.get(), nullptr, mc.mesh.get(), 1, 1, SPDEParam(), false);
    double tol = 1e-10 * (N + std::fabs((double)llRef)) + 256. * N * EPS * kappa * (1 + (double)zDz);
    c.close("loglik-chol-vs-ref", "C15:logLikelihoodSPDE:chol-vs-reference:" + kcls, ll1, (double)llRef, tol);
    // matrix-free mode: the log-determinants are stochastic trace estimates (Hutchinson with nbsimu Gaussian vectors,
    // PrecisionOpMultiConditional::computeLogDetOp / PrecisionOp::getLogDeterminant): agreement is only required within
    // 6 Monte-Carlo standard deviations sqrt(2 ||log M||_F^2 / nbsimu) for M = A and M = P_k(S_k)  [+ the CG bound on the quadratic term]
    // (each call fits two Chebychev series through 2^20-point FFTs: ~ seconds under ASan, hence a third of the eligible cases)
    // (not when the right-hand side is zero, i.e. no datum inside the mesh: that input is isolated in scenarioNoDatumInMesh)
    if (N <= 60 && r.coin(c.thorough() ? 0.5 : 0.35) && bnorm > 0)
    {
      int nbsimu = 20;
      double ll0 = logLikelihoodSPDE(dbin.get(), model.get(), nullptr, mc.mesh.get(), 0, nbsimu, SPDEParam(), false);
      std::vector<LD> evA = ref::eigsym(A);
      LD fA = 0, sdP = 0;
      for (LD v : evA) fA += std::log(v) * std::log(v);
      for (int k = 0; k < K; k++)
      {
        // log P(S) = log(Lambda^-1 Q Lambda^-1): eigenvalues through the symmetric matrix Lambda^-1 Q Lambda^-1
        Mat Qn = dense(*blk[k].Q);
        std::vector<double> lam = blk[k].qmf->getShiftOp()->getLambdas().getVector();
        for (int i = 0; i < n; i++) for (int j = 0; j < n; j++) Qn(i, j) /= (LD)lam[i] * (LD)lam[j];
        for (int i = 0; i < n; i++) for (int j = 0; j < i; j++) { LD v = 0.5 * (Qn(i, j) + Qn(j, i)); Qn(i, j) = Qn(j, i) = v; }
        std::vector<LD> evP = ref::eigsym(Qn);
        LD fP = 0;
        for (LD v : evP) fP += std::log(v) * std::log(v);
        sdP += std::sqrt(2 * fP / nbsimu);
      }
      double sdMC = (double)(std::sqrt(2 * fA / nbsimu) + sdP);
      double tolMC = 0.5 * (6 * sdMC + bnorm * cgBound) + 1e-3 * (1 + std::fabs((double)llRef)) + tol;
      bool okll = std::fabs(ll0 - (double)llRef) <= tolMC;
      std::string key = "C15:logLikelihoodSPDE:cg-vs-reference:" + kcls;
      // diagnosis: the value predicted when computeLogDetOp() contributes 0 (Chebychev::addEvalOp is an empty stub)
      double llPred0 = (double)(llRef + 0.5L * chA.logdet());
      double tolP = 0.5 * (6 * (double)sdP + bnorm * cgBound) + 1e-3 * (1 + std::fabs(llPred0)) + tol;
      if (!okll && std::fabs(ll0 - llPred0) <= tolP) key = "C15:PrecisionOpMultiConditional::computeLogDetOp:contributes-0";
      if (cgRuleOk)
        c.check("loglik-cg-vs-ref", key, okll, std::fabs(ll0 - (double)llRef), tolMC,
                fmt("cg=%.10g ref=%.10g chol=%.10g ; value predicted with log|Q+A'A/s2| := 0 is %.10g ; sdMC(logdet)=%.3g N=%d nd=%d", ll0, (double)llRef, ll1, llPred0, sdMC, N, nd));
    }
  }
}

// Dedicated scenario (4 % of the cases, nothing else in the case because it aborts in this build: Eigen assertion in
// ProjMultiMatrix::_addMesh2point <- krigingSPDENew): krigingSPDENew on a target Db that holds coordinates only.
// ProjMultiMatrix::createFromDbAndMeshes(dbout) sizes itself on the number of Z variables of dbout (0 here), so the output
// projection is empty and mesh2point() multiplies a matrix without columns. Oracle: same estimates as on the same targets once
// they carry a Z variable (the Cholesky mode of krigingSPDENew is validated against the dense reference in the main scenario).
static void scenarioTargetWithoutZ(Rng& r, Ctx& c)
{
  int ndim = r.irange(1, 3);
  defineDefaultSpace(ESpaceType::RN, ndim);
  c.setSig(fmt("krigingSPDENew-target-without-Z:ndim=%d", ndim));
  VectorInt nx(ndim);
  VectorDouble dx(ndim), x0(ndim);
  for (int d = 0; d < ndim; d++) { nx[d] = r.irange(3, 6); dx[d] = r.uni(0.5, 2.); x0[d] = r.uni(-5, 5); }
  std::unique_ptr<MeshETurbo> mesh(MeshETurbo::create(nx, dx, x0));
  SpaceRN space(ndim);
  std::unique_ptr<Model> model(Model::createFromParam(ECov::MATERN, r.uni(1., 4.), r.uni(0.5, 2.), ndim == 2 ? 1. : 0.5, VectorDouble(), VectorDouble(),
                                                      VectorDouble(), &space, true));
  auto pt = [&]() { std::vector<double> p(ndim); for (int d = 0; d < ndim; d++) p[d] = x0[d] + r.uni(0.05, 0.95) * dx[d] * (nx[d] - 1); return p; };
  int nd = r.irange(2, 8), nt = r.irange(1, 5);
  std::vector<std::vector<double>> dp, tp;
  std::vector<double> z(nd);
  for (int i = 0; i < nd; i++) { dp.push_back(pt()); z[i] = r.normal(); }
  for (int i = 0; i < nt; i++) tp.push_back(pt());
  std::unique_ptr<Db> dbin = makeDb(ndim, dp, &z), withZ, noZ = makeDb(ndim, tp, nullptr);
  std::vector<double> dummy(nt, 0.);
  withZ = makeDb(ndim, tp, &dummy);
  VectorMeshes meshes = {mesh.get()};
  VectorDouble ref = krigingSPDENew(dbin.get(), withZ.get(), model.get(), meshes, 1, false);
  if ((int)ref.size() != nt) { c.skip("target-without-Z:reference-run-failed"); return; }
  c.probe("krignew.target-without-Z");
  VectorDouble est = krigingSPDENew(dbin.get(), noZ.get(), model.get(), meshes, 1, false);
  bool ok = (int)est.size() == nt;
  double e = 0, sc = 0;
  if (ok) for (int i = 0; i < nt; i++) { e = std::max(e, std::fabs(est[i] - ref[i])); sc = std::max(sc, std::fabs(ref[i])); }
  c.check("krignew-target-without-Z", "C15:krigingSPDENew:target-db-without-Z-variable", ok && e <= 1e-9 * (1 + sc), e, 1e-9 * (1 + sc), fmt("size=%d nt=%d", (int)est.size(), nt));
}

// Dedicated scenario (3 % of the cases, isolated because the matrix-free call dies in this build): likelihood of data none of which
// falls in the mesh. Then A'z = 0, the conditional system is solved by x = 0 without a single operator application, Sigma = s2 I and
//   log L = -0.5 (nd log s2 + z'z / s2 + nd log 2 pi)         (s2 = max(nugget, 0.01 sill), SPDE::_init)
// exactly. Cholesky mode: compared with that closed form. Matrix-free mode: PrecisionOpMultiConditional::computeLogDetOp ->
// preparePoly -> rangeEigenValQ -> PrecisionOp::getRangeEigenVal uses _polynomials[EPowerPT::ONE] which nothing has created
// (no evalDirect was needed) -> member call on a null APolynomial (UBSan), segfault otherwise. If it returns, it is compared with the
// closed form within the Monte-Carlo error of the two trace estimates, as in the main scenario.
static void scenarioNoDatumInMesh(Rng& r, Ctx& c)
{
  int ndim = r.irange(1, 2);
  defineDefaultSpace(ESpaceType::RN, ndim);
  c.setSig(fmt("loglik-no-datum-in-mesh:ndim=%d", ndim));
  VectorInt nx(ndim);
  VectorDouble dx(ndim), x0(ndim);
  for (int d = 0; d < ndim; d++) { nx[d] = r.irange(3, 6); dx[d] = r.uni(0.5, 2.); x0[d] = r.uni(-5, 5); }
  std::unique_ptr<MeshETurbo> mesh(MeshETurbo::create(nx, dx, x0));
  SpaceRN space(ndim);
  double sill = r.uni(0.5, 2.);
  std::unique_ptr<Model> model(Model::createFromParam(ECov::MATERN, r.uni(1., 4.), sill, ndim == 2 ? 1. : 0.5, VectorDouble(), VectorDouble(),
                                                      VectorDouble(), &space, true));
  int nd = r.irange(1, 4);
  std::vector<std::vector<double>> dp;
  std::vector<double> z(nd);
  LD zz = 0;
  for (int i = 0; i < nd; i++)
  {
    std::vector<double> p(ndim);
    for (int d = 0; d < ndim; d++) p[d] = x0[d] + dx[d] * (nx[d] - 1) * (1.5 + r.uni(0, 3.)); // beyond the far corner of the grid
    dp.push_back(p);
    z[i] = r.normal();
    zz += (LD)z[i] * (LD)z[i];
  }
  std::unique_ptr<Db> dbin = makeDb(ndim, dp, &z);
  double s2 = 1e-2 * sill;
  LD llRef = -0.5L * (nd * std::log((LD)s2) + zz / (LD)s2 + nd * std::log(2 * (LD)M_PI));
  double ll1 = logLikelihoodSPDE(dbin.get(), model.get(), nullptr, mesh.get(), 1, 1, SPDEParam(), false);
  c.close("loglik-nodatum-chol", "C15:logLikelihoodSPDE:no-datum-in-mesh:chol-vs-closed-form", ll1, (double)llRef, 1e-9 * (1 + std::fabs((double)llRef)));
  c.probe("loglik.cg.no-datum-in-mesh");
  // Monte-Carlo scale of the two trace estimates (both of log P(S) here since A = Q): eigenvalues of Lambda^-1 Q Lambda^-1
  PrecisionOpCs qcs(mesh.get(), model->getCova(0), false);
  if (qcs.getQ() == nullptr) { c.skip("no-datum:Q-null"); return; }
  int n = qcs.getSize();
  Mat Qn = dense(mirror(qcs.getQ()));
  std::vector<double> lam = qcs.getShiftOp()->getLambdas().getVector();
  for (int i = 0; i < n; i++) for (int j = 0; j < n; j++) Qn(i, j) /= (LD)lam[i] * (LD)lam[j];
  for (int i = 0; i < n; i++) for (int j = 0; j < i; j++) { LD v = 0.5 * (Qn(i, j) + Qn(j, i)); Qn(i, j) = Qn(j, i) = v; }
  LD fP = 0;
  for (LD v : ref::eigsym(Qn)) fP += std::log(v) * std::log(v);
  int nbsimu = 20;
  law_set_random_seed(4321 + (int)(r.next() % 100000));
  double ll0 = logLikelihoodSPDE(dbin.get(), model.get(), nullptr, mesh.get(), 0, nbsimu, SPDEParam(), false); // dies here in this build
  double tolMC = 0.5 * 6 * 2 * (double)std::sqrt(2 * fP / nbsimu) + 1e-3 * (1 + std::fabs((double)llRef));
  c.check("loglik-nodatum-cg", "C15:logLikelihoodSPDE:no-datum-in-mesh:cg-vs-closed-form", std::isfinite(ll0) && std::fabs(ll0 - (double)llRef) <= tolMC,
          std::fabs(ll0 - (double)llRef), tolMC, fmt("cg=%.10g closed form=%.10g chol=%.10g", ll0, (double)llRef, ll1));
}

static void run_case(Rng& r, Ctx& c)
{
  if (!AVOID_KRIGNEW_TARGET_WITHOUT_Z && r.coin(0.04)) { scenarioTargetWithoutZ(r, c); return; }
  if (!AVOID_LOGLIK_CG_NO_DATUM_IN_MESH && r.coin(0.03)) { scenarioNoDatumInMesh(r, c); return; }
  // ---- 1. mesh, model -----------------------------------------------------------------------------
  int ndimPeek;
  {
    Rng peek = r;
    ndimPeek = peek.pick(std::vector<int>{1, 2, 2, 2, 3, 3});
  }
  defineDefaultSpace(ESpaceType::RN, ndimPeek);
  MeshCase mc = genMesh(r, c);
  ModelCase mo = genModel(r, mc);
  if (mc.kind == MK_TURBO_COVA) finishCovaMesh(r, mc, mo);
  const int ndim = mc.ndim;
  const MeshMirror& mm = mc.mm;
  const int n = mm.nv;
  std::string cls = fmt("%s:ndim=%d:%s:deg=%d", MKN[mc.kind], ndim, mo.markov ? "markov" : "matern", mo.degree);
  c.setSig(fmt("%s:intalpha=%d:range=%s:pol=%d", cls.c_str(), (int)mo.intAlpha, mo.rangeClass.c_str(), (int)mc.polarized));
  c.puts("mesh", mc.desc);
  c.putn("nv", n);
  c.putn("ne", mm.ne);
  c.puts("model", fmt("%s nu=%.4g sill=%.4g range=%.4g deg=%d", mo.markov ? "MARKOV" : "MATERN", mo.nu, mo.sill, mo.range, mo.degree));
  if (n < 2 || mm.ne < 1) throw SkipCase{"mesh-empty"};

  // mesh sanity through the public getters (apex ranks in range): everything below indexes with them
  {
    bool ok = true;
    for (int v : mm.el) if (v < 0 || v >= n) ok = false;
    if (!c.truth("mesh-apex-range", "C15:mesh:apex-out-of-range:" + std::string(MKN[mc.kind]), ok)) return;
  }
  // path actually taken by the polynomial: Matern -> (1+x)^p with p = round(nu + d/2)
  if (!mo.markov)
  {
    int p = (int)std::lround(mo.nu + ndim / 2.0);
    c.truth("path-degree", fmt("C15:matern:poly-degree:ndim=%d", ndim), mo.degree == p, fmt("nu=%g degree=%d expected=%d", mo.nu, mo.degree, p));
  }
  c.probe(fmt("path.deg%d.%s", mo.degree, mo.intAlpha ? "int" : "rounded"));

  // ---- 2. the two forms ---------------------------------------------------------------------------
  PrecisionOpCs qcs(mc.mesh.get(), mo.cova, false);
  PrecisionOp qmf(mc.mesh.get(), mo.cova, false);
  const MatrixSparse* Qlib = qcs.getQ();
  if (!c.truth("build", "C15:build:Q-null:" + cls, Qlib != nullptr && qmf.getShiftOp() != nullptr && qmf.getShiftOp()->getS() != nullptr))
    return;
  if (!c.truth("build", "C15:build:size:" + cls, qcs.getSize() == n && qmf.getSize() == n && Qlib->getNRows() == n && Qlib->getNCols() == n,
               fmt("n=%d cs=%d mf=%d Q=%dx%d", n, qcs.getSize(), qmf.getSize(), Qlib->getNRows(), Qlib->getNCols())))
    return;
  Sp Q = mirror(Qlib);
  Sp S = mirror(qmf.getShiftOp()->getS());
  std::vector<double> lam = SV(qmf.getShiftOp()->getLambdas());
  std::vector<double> lamCs = SV(qcs.getShiftOp()->getLambdas());
  int nnzS = std::max(1, maxRowCount(S));
  const double CF = 8.0 * (mo.degree + 2) * (nnzS + 2); // round-off constant for Horner / matrix powers
  bool lamOk = (int)lam.size() == n;
  for (double v : lam) if (!(v > 0) || !std::isfinite(v)) lamOk = false;
  if (!c.truth("lambda-positive", "C15:shiftop:lambda-nonpositive:" + cls, lamOk)) return;
  c.truth("two-shiftops-agree", "C15:shiftop:nondeterministic:" + cls, lam == lamCs);
  // cheap upper bound of cond(Q): lambda_max <= ||Q||_1, lambda_min >= coef[0] * min(lambda_i^2) (P(S) >= coef[0] I since S is PSD and
  // the coefficients are >= 0). Beyond 1e11 the entries of Q (known to 1e-16 relative) no longer determine a positive definite matrix
  // reliably (n eps cond ~ 1): factorisations, x'Qx and solves are then excluded (DESIGN 5.3), products and symmetry are not.
  double kappaUbQ;
  {
    std::vector<LD> colsum(n, 0);
    LD q1 = 0;
    for (size_t k = 0; k < Q.v.size(); k++) colsum[Q.c[k]] += std::fabs((LD)Q.v[k]);
    for (LD v : colsum) q1 = std::max(q1, v);
    double lmin2 = INFINITY;
    for (double v : lam) lmin2 = std::min(lmin2, v * v);
    kappaUbQ = (double)q1 / (mo.coef[0] * lmin2);
  }
  const bool wellQ = kappaUbQ <= 1e11;
  c.putn("kappaUbQ", kappaUbQ);
  if (!wellQ) c.skip("Q:illcond(kappaUbQ>1e11):factorisation-oracles");
  // algebraic invariants of the shift operator S = C^-1/2 G C^-1/2 (ShiftOpCs::_buildS: "_S->prodNormDiagVecInPlace(_TildeC, -3)"):
  // G is a stiffness matrix (rows sum to zero because the shape functions sum to one) => S * sqrt(TildeC) = 0; S symmetric; x'Sx >= 0
  {
    std::vector<double> tc = SV(qmf.getShiftOp()->getTildeC());
    bool tcOk = (int)tc.size() == n;
    for (double v : tc) if (!(v > 0)) tcOk = false;
    if (c.truth("tildeC-positive", "C15:shiftop:TildeC-nonpositive:" + cls, tcOk))
    {
      std::vector<LD> sq(n);
      for (int i = 0; i < n; i++) sq[i] = std::sqrt((LD)tc[i]);
      // round-off scale: S_ij is a sum over elements of terms which may cancel (e.g. the diagonal edge of a right-angled cell), each
      // bounded by sqrt(s^e_ii s^e_jj) (element matrices are PSD) => sum_e |s^e_ij| <= sqrt(S_ii S_jj) (Cauchy-Schwarz)
      std::vector<double> sdiag(n, 0.);
      for (size_t k = 0; k < S.v.size(); k++) if (S.r[k] == S.c[k]) sdiag[S.r[k]] += S.v[k];
      std::vector<LD> y = mulv(S, sq), m(n, 0);
      for (size_t k = 0; k < S.v.size(); k++) m[S.r[k]] += std::sqrt(std::fabs((LD)sdiag[S.r[k]] * (LD)sdiag[S.c[k]])) * sq[S.c[k]];
      std::vector<double> yd(n);
      std::vector<LD> zero(n, 0);
      for (int i = 0; i < n; i++) yd[i] = (double)y[i];
      int wr = 0;
      // + geometry round-off: apex coordinates carry an absolute error eps*coordMag, i.e. eps*coordMag/h relative to an edge; entries of an
      //   element matrix that vanish analytically (right angles in the metric) are then of that relative size and may be dropped by the assembly
      double q = ratioVec(yd, zero, m, 64. * (nnzS + 2) * (1. + mm.coordMag / mm.hmin), &wr);
      if (c.verbose)
      {
        fprintf(stderr, "S-nullspace worst row %d: sum=%.6Lg bound=%.6Lg sdiag=%.6g tc=%.6g\n", wr, y[wr], m[wr], sdiag[wr], tc[wr]);
        for (size_t k = 0; k < S.v.size(); k++) if (S.r[k] == wr) fprintf(stderr, "   col %d S=%.17g sqrtC=%.17Lg\n", S.c[k], S.v[k], sq[S.c[k]]);
      }
      c.check("S-nullspace", "C15:shiftop:S-sqrtTildeC-not-zero:" + cls, q <= 1, q, 1);
      std::map<std::pair<int, int>, double> ent;
      std::vector<double> sd(n, 0.);
      for (size_t k = 0; k < S.v.size(); k++) { ent[{S.r[k], S.c[k]}] += S.v[k]; if (S.r[k] == S.c[k]) sd[S.r[k]] += S.v[k]; }
      double worst = 0;
      for (auto& kv : ent)
      {
        int i = kv.first.first, j = kv.first.second;
        if (i >= j) continue;
        auto it   = ent.find({j, i});
        double tv = it == ent.end() ? 0. : it->second;
        double qq = std::fabs(kv.second - tv) / (64. * EPS * std::sqrt(std::fabs(sd[i] * sd[j])) + 1e-300);
        if (!(qq <= worst)) worst = qq;
      }
      c.check("S-symmetric", "C15:shiftop:S-asymmetric:" + cls, worst <= 1, worst, 1);
      std::vector<LD> xr(n);
      for (auto& v : xr) v = r.normal();
      std::vector<LD> sx = mulv(S, xr), sxa;
      LD quad = 0, quada = 0;
      for (int i = 0; i < n; i++) { quad += xr[i] * sx[i]; }
      std::vector<LD> xa(n);
      for (int i = 0; i < n; i++) xa[i] = std::fabs(xr[i]);
      sxa = mulv(S, xa, false, true);
      for (int i = 0; i < n; i++) quada += xa[i] * sxa[i];
      c.check("S-psd", "C15:shiftop:S-not-psd:" + cls, quad >= -64. * nnzS * EPS * quada, (double)std::max((LD)0, -quad), (double)(64. * nnzS * EPS * quada));
    }
  }

  // ---- 3. oracle (a): every entry point vs own Q.x ------------------------------------------------
  auto makeVec = [&](int kind) {
    std::vector<double> x(n, 0.);
    switch (kind)
    {
      case 0: for (auto& v : x) v = r.normal(); break;
      case 1: x[r.irange(0, n - 1)] = 1.; break;
      case 2: for (auto& v : x) v = 1.; break;
      case 3: for (auto& v : x) v = r.uni(-1, 1) * std::pow(10., r.irange(-6, 6)); break;
      case 4: { // affine function of the coordinates (smooth: the near-null space of S)
        double a0 = r.uni(-1, 1), a[3] = {r.uni(-1, 1), r.uni(-1, 1), r.uni(-1, 1)};
        for (int i = 0; i < n; i++) { x[i] = a0; for (int d = 0; d < ndim; d++) x[i] += a[d] * (mm.x(i, d) / (mm.coordMag + 1e-300)); }
        break; }
      case 5: x[r.coin() ? 0 : n - 1] = -2.5; break;
    }
    return x;
  };
  static const char* VKN[] = {"normal", "unit", "const", "wide", "affine", "unit-end"};
  std::vector<int> vkinds = {0, 1, 2, 3, 4, 5};
  if (c.thorough()) { vkinds.push_back(0); vkinds.push_back(1); vkinds.push_back(3); }
  static const bool ONLYCOND = getenv("C15_DEBUG_ONLYCOND") != nullptr; // development aid: go straight to the conditional section
  if (ONLYCOND) vkinds.clear();
  for (int vk : vkinds)
  {
    std::vector<double> x = makeVec(vk);
    std::vector<LD> xl  = toLD(x);
    std::vector<LD> yQ  = mulv(Q, xl);                          // assembled form, own product
    std::vector<LD> yP  = applyLPL(S, lam, mo.coef, xl, false); // Lambda P(S) Lambda x, own evaluation
    std::vector<LD> B   = applyLPL(S, lam, mo.coef, xl, true);  // magnitude bound
    std::string kv = cls + ":x=" + VKN[vk];
    int w = -1;
    double q;
    // assembled matrix vs the formula it is documented to implement
    {
      std::vector<double> yQd(n);
      for (int i = 0; i < n; i++) yQd[i] = (double)yQ[i];
      q = ratioVec(yQd, yP, B, CF, &w);
      c.check("Q-vs-formula", "C15:Q-assembled-vs-LambdaPSLambda:" + kv, q <= 1, q, 1, q <= 1 ? "" : fmt("i=%d Qx=%.17g formula=%.17g", w, yQd[w], (double)yP[w]));
    }
    VectorDouble xv = VD(x);
    // E1 matrix-free evalDirect(VectorDouble) -> VectorDouble
    {
      VectorDouble y = qmf.evalDirect(xv);
      q = ratioVec(SV(y), yQ, B, CF, &w);
      c.check("matfree-evalDirect", "C15:evalDirect:matfree-vs-Q:" + kv, q <= 1, q, 1, q <= 1 ? "" : fmt("i=%d got=%.17g Qx=%.17g", w, y[w], (double)yQ[w]));
    }
    // E2 in/out form, output vector pre-sized wrongly (documented to be resized)
    {
      VectorDouble y(3, 7.);
      int err = qmf.evalDirect(xv, y);
      q = err ? INFINITY : ratioVec(SV(y), yQ, B, CF, &w);
      c.check("matfree-evalDirect", "C15:evalDirect2:matfree-vs-Q:" + kv, q <= 1, q, 1, fmt("err=%d", err));
    }
    if (vk == 0)
    // E3 addToDest: ALinearOp::addToDest is the accumulating form (evalDirect = fill(0) + addToDest, see ALinearOp.cpp;
    //    PrecisionOpCs::_addToDest, ProjMatrix::_addMesh2point, SPDEOp::_addToDestImpl all rely on outv += Op * inv)
    {
      std::vector<double> y(n), y0;
      std::vector<LD> want(n), b2(n);
      for (int i = 0; i < n; i++) { y[i] = r.uni(-1, 1) * (double)B[i]; want[i] = (LD)y[i] + yQ[i]; b2[i] = B[i] + std::fabs((LD)y[i]); }
      y0 = y;
      int err = qmf.addToDest(constvect(x), vect(y));
      q = err ? INFINITY : ratioVec(y, want, b2, CF, &w);
      std::string key = "C15:addToDest:matfree-vs-Q:" + kv;
      if (!(q <= 1) && ratioVec(y, yQ, B, CF) <= 1) key = "C15:PrecisionOp::addToDest:destination-overwritten"; // diagnosed: y = Qx, y0 lost
      c.check("matfree-addToDest", key, q <= 1, q, 1, q <= 1 ? "" : fmt("err=%d i=%d y0=%.6g got=%.17g want y0+Qx=%.17g Qx=%.17g", err, w, y0[w], y[w], (double)want[w], (double)yQ[w]));
    }
    // E4 evalPower(ONE) on the matrix-free operator and on the Cs operator (polynomial path of the same object).
    //    Two vectors only: PrecisionOp::evalPower repeats the evaluation size() times (see report), n = 600 costs 600 polynomial evaluations
    for (int which = 0; which < 2 && vk <= 1; which++)
    {
      std::vector<double> y(n, 3.);
      (which == 0 ? (PrecisionOp&)qmf : (PrecisionOp&)qcs).evalPower(constvect(x), vect(y), EPowerPT::ONE);
      q = ratioVec(y, yQ, B, CF, &w);
      c.check("evalPower-ONE", std::string("C15:evalPower(ONE):") + (which ? "cs" : "matfree") + "-vs-Q:" + kv, q <= 1, q, 1,
              q <= 1 ? "" : fmt("i=%d got=%.17g Qx=%.17g ratio got/want=%.6g n=%d", w, y[w], (double)yQ[w], y[w] / (double)yQ[w], n));
    }
    // E5/E6 the Cs operator's own product
    {
      VectorDouble y = qcs.evalDirect(xv);
      q = ratioVec(SV(y), yQ, B, CF, &w);
      c.check("cs-evalDirect", "C15:evalDirect:cs-vs-ownproduct:" + kv, q <= 1, q, 1);
      std::vector<double> y2(n, 0.);
      int err = qcs.addToDest(constvect(x), vect(y2));
      q = err ? INFINITY : ratioVec(y2, yQ, B, CF, &w);
      c.check("cs-evalDirect", "C15:addToDest:cs-vs-ownproduct:" + kv, q <= 1, q, 1);
    }
  }

  // ---- 4. oracle (b): symmetry, positive definiteness ----------------------------------------------
  std::vector<double> qdiag(n, 0.);
  for (size_t k = 0; k < Q.v.size(); k++) if (Q.r[k] == Q.c[k]) qdiag[Q.r[k]] += Q.v[k];
  {
    bool dpos = true;
    for (double v : qdiag) if (!(v > 0)) dpos = false;
    c.truth("Q-diag-positive", "C15:Q:diag-nonpositive:" + cls, dpos);
    // symmetry entry by entry: |Qij - Qji| <= c eps sqrt(Qii Qjj)
    std::map<std::pair<int, int>, double> ent;
    for (size_t k = 0; k < Q.v.size(); k++) ent[{Q.r[k], Q.c[k]}] += Q.v[k];
    double worst = 0;
    std::pair<int, int> wij{0, 0};
    for (auto& kv : ent)
    {
      int i = kv.first.first, j = kv.first.second;
      if (i == j) continue;
      auto it   = ent.find({j, i});
      double tv = it == ent.end() ? 0. : it->second;
      double sc = std::sqrt(std::fabs(qdiag[i] * qdiag[j]));
      double q  = std::fabs(kv.second - tv) / (CF * EPS * sc + 1e-300);
      if (!(q <= worst)) { worst = q; wij = kv.first; }
    }
    c.check("Q-symmetric", "C15:Q:asymmetric:" + cls, worst <= 1, worst, 1, fmt("at (%d,%d)", wij.first, wij.second));
  }
  const int NCHOL = c.thorough() ? 320 : 200;
  LD refLogdet = NAN;
  double condEst = 1; // (max L_ii / min L_ii)^2 of the reference factor: lower bound of cond(Q)
  bool haveDense = n <= NCHOL && wellQ;
  Mat Qd;
  if (haveDense)
  {
    Qd = dense(Q);
    ref::Chol ch(Qd);
    c.check("Q-posdef-chol", "C15:Q:not-positive-definite:" + cls, ch.ok, ch.ok ? 0 : 1, 0, fmt("min pivot %.6g", (double)ch.minpiv));
    if (ch.ok)
    {
      refLogdet = ch.logdet();
      LD lmin = INFINITY, lmax = 0;
      for (int i = 0; i < n; i++) { lmin = std::min(lmin, ch.L(i, i)); lmax = std::max(lmax, ch.L(i, i)); }
      condEst = (double)((lmax / lmin) * (lmax / lmin));
    }
  }
  for (int t = 0; t < 4 && wellQ; t++)
  {
    std::vector<double> x = makeVec(t == 0 ? 0 : t == 1 ? 2 : t == 2 ? 4 : 3);
    std::vector<LD> xl = toLD(x), y = mulv(Q, xl);
    LD s = 0, sa = 0;
    for (int i = 0; i < n; i++) { s += xl[i] * y[i]; sa += std::fabs(xl[i] * y[i]); }
    c.check("Q-quadform-positive", "C15:Q:xQx-nonpositive:" + cls, s > 0, s > 0 ? 0 : 1, 0, fmt("x'Qx=%.6g", (double)s));
  }

  // ---- 5. the library's sparse Cholesky on Q: must succeed, solve, and give log det ------------------
  if (wellQ)
  {
    CholeskySparse chol(Qlib);
    std::vector<double> b = makeVec(0), x(n, 0.);
    int err = chol.solve(constvect(b), vect(x));
    bool fin = true;
    for (double v : x) if (!std::isfinite(v)) fin = false;
    c.truth("cholsparse-succeeds", "C15:CholeskySparse:fails-on-Q:" + cls, err == 0 && fin && chol.isReady(), fmt("err=%d ready=%d", err, (int)chol.isReady()));
    if (err == 0 && fin)
    {
      // backward-stable residual: ||Qx-b||_inf <= c n eps (|Q||x| + |b|)
      double q = residRatio(Q, x, b, 64.0 * n);
      c.check("solve-residual-chol", "C15:CholeskySparse::solve:residual:" + cls, q <= 1, q, 1);
      double ld = chol.computeLogDeterminant();
      if (haveDense && std::isfinite((double)refLogdet))
        c.close("logdet-chol", "C15:CholeskySparse:logdet:" + cls, ld, (double)refLogdet, 1e-10 * (n + std::fabs((double)refLogdet)) + 64. * n * EPS * condEst);
      double ld2 = qcs.getLogDeterminant();
      c.close("logdet-chol", "C15:PrecisionOpCs:getLogDeterminant:" + cls, ld2, ld, 1e-12 * (n + std::fabs(ld)));
    }
    // PrecisionOpCs::evalInverse (Cholesky path)
    std::vector<double> x2(n, 0.);
    qcs.evalInverse(constvect(b), x2);
    double q = residRatio(Q, x2, b, 64.0 * n);
    c.check("solve-residual-chol", "C15:PrecisionOpCs::evalInverse:residual:" + cls, q <= 1, q, 1);
  }

  // ---- 5a. PrecisionOpCs::evalSimulate = L^-T w (CholeskySparse::addSimulateToDest): x'Qx = w'w.
  //      Backward error of the triangular solve: |w'w - x'Qx| <= c n eps |x|'|L||L'||x| <= c n^2 eps ||Q||_1 ||x||_2^2
  if (wellQ)
  {
    std::vector<double> w = makeVec(0);
    VectorDouble xs = qcs.evalSimulate(VD(w));
    std::vector<LD> xl = toLD(SV(xs)), qx = mulv(Q, xl);
    LD xqx = 0, ww = 0, xx = 0;
    bool fin = (int)xs.size() == n;
    for (int i = 0; i < n && fin; i++) { xqx += xl[i] * qx[i]; ww += (LD)w[i] * (LD)w[i]; xx += xl[i] * xl[i]; if (!std::isfinite(xs[i])) fin = false; }
    std::vector<LD> colsum(n, 0);
    LD q1 = 0;
    for (size_t k = 0; k < Q.v.size(); k++) colsum[Q.c[k]] += std::fabs((LD)Q.v[k]);
    for (LD v : colsum) q1 = std::max(q1, v);
    double tol = (double)(64. * n * (double)n * EPS * q1 * xx);
    c.check("simulate-cs-identity", "C15:PrecisionOpCs::evalSimulate:xQx-vs-ww:" + cls, fin && std::fabs((double)(xqx - ww)) <= tol, fin ? std::fabs((double)(xqx - ww)) : INFINITY, tol);
  }
  // ---- 5a'. the same geometry held by the other mesh class gives the same operator (turbo <-> standard copy)
  if (mc.turboTwin)
  {
    PrecisionOpCs qtw(mc.turboTwin.get(), mo.cova, false);
    if (c.truth("twin-Q", "C15:twin:Q-null:" + cls, qtw.getQ() != nullptr && qtw.getSize() == n))
    {
      Sp Qt = mirror(qtw.getQ());
      std::vector<double> x = makeVec(0);
      std::vector<LD> xl = toLD(x), y1 = mulv(Q, xl), y2 = mulv(Qt, xl), B = applyLPL(S, lam, mo.coef, xl, true);
      std::vector<double> y2d(n);
      for (int i = 0; i < n; i++) y2d[i] = (double)y2[i];
      // the two meshes return coordinates through different arithmetic (grid index -> coordinate vs stored copy): identical numbers are
      // expected, a round-off level difference amplified by the element conditioning is tolerated
      double q = ratioVec(y2d, y1, B, CF * 1e4);
      c.check("twin-Q", "C15:twin:Q(turbo)-vs-Q(standard-copy):" + cls, q <= 1, q, 1);
    }
  }

  // ---- 5b. other matrix-free entry points ------------------------------------------------------------
  if (n <= 80)
  { // extractDiag: explicit matrix, matrix-free (ClassicalPolynomial::evalOpByRank) vs the diagonal read from Q
    std::vector<LD> dq(n), bd(n);
    for (int i = 0; i < n; i++) { dq[i] = qdiag[i]; bd[i] = std::fabs(qdiag[i]); }
    double q1 = ratioVec(SV(qcs.extractDiag()), dq, bd, 4);
    // bound for the polynomial evaluation: diagonal of Lambda P(|S|) Lambda
    std::vector<LD> bdm(n);
    for (int i = 0; i < n; i++)
    {
      std::vector<LD> e(n, 0);
      e[i] = 1;
      bdm[i] = applyLPL(S, lam, mo.coef, e, true)[i];
    }
    double q2 = ratioVec(SV(qmf.extractDiag()), dq, bdm, CF);
    c.check("extractDiag", "C15:extractDiag:cs:" + cls, q1 <= 1, q1, 1);
    c.check("extractDiag", "C15:extractDiag:matfree:" + cls, q2 <= 1, q2, 1);
  }
  if (r.coin(c.thorough() ? 0.25 : 0.12) && wellQ)
  { // PrecisionOp::evalInverse (matrix-free) = Lambda^-1 f(S) Lambda^-1 b, f = Chebychev fit of 1/P on [0, ||S||_1].
    // Documented accuracy of the fit (Chebychev::fit -> _countCoeffs, tol = EPSILON5): |f^2 - (1/P)^2| < tol ((1/P)^2 + EPSILON2)
    // at the sampled abscissae, i.e. |f - 1/P| <= sqrt(tol * EPSILON2) = 3.2e-4 where 1/P is small, ~5e-6 where 1/P ~ 1
    // (P(0) >= 0.2 here so 1/P <= 5). It is an approximation of the FUNCTION, not a residual criterion, so the relation asserted is
    // the differential one: || Lambda (x_matfree - x_chol) ||_2 <= 4 * 3.2e-4 * || Lambda^-1 b ||_2  (x_chol checked by its residual above)
    std::vector<double> b = makeVec(0), x(n, 0.), xc(n, 0.);
    qmf.evalInverse(constvect(b), x);
    qcs.evalInverse(constvect(b), xc);
    LD dn = 0, bn = 0;
    bool fin = true;
    for (int i = 0; i < n; i++)
    {
      if (!std::isfinite(x[i])) fin = false;
      dn += ((LD)lam[i] * ((LD)x[i] - (LD)xc[i])) * ((LD)lam[i] * ((LD)x[i] - (LD)xc[i]));
      bn += ((LD)b[i] / (LD)lam[i]) * ((LD)b[i] / (LD)lam[i]);
    }
    double rel = fin ? (double)std::sqrt(dn / bn) : INFINITY;
    c.check("evalInverse-chebychev-vs-chol", "C15:PrecisionOp::evalInverse(Chebychev)-vs-Cholesky:" + cls, rel <= 4 * 3.2e-4, rel, 4 * 3.2e-4);
  }

  // ---- 6. oracle (c): projection of points on the mesh --------------------------------------------
  {
    std::string mcls = fmt("%s:ndim=%d", MKN[mc.kind], ndim);
    if (!ONLYCOND) checkProjection(r, c, mc, mc.mesh.get(), mm, mcls, mc.turboTwin.get());
  }

  // ---- 7. oracles (d), (e): conditional precision, solves, kriging, likelihood -----------------------
  {
    std::vector<Block> blk = {{&qcs, &qmf, &Q, &mo}};
    // second structure on the same mesh (SPDE handles a sum of Matern/Markov structures + nugget): 30 % of the small meshes
    std::unique_ptr<ModelCase> mo2;
    std::unique_ptr<PrecisionOpCs> qcs2;
    std::unique_ptr<PrecisionOp> qmf2;
    Sp Q2;
    if (n <= 300 && r.coin(0.3))
    {
      mo2.reset(new ModelCase(genModel(r, mc)));
      qcs2.reset(new PrecisionOpCs(mc.mesh.get(), mo2->cova, false));
      qmf2.reset(new PrecisionOp(mc.mesh.get(), mo2->cova, false));
      if (qcs2->getQ() != nullptr && qcs2->getSize() == n && qmf2->getSize() == n)
      {
        Q2 = mirror(qcs2->getQ());
        blk.push_back({qcs2.get(), qmf2.get(), &Q2, mo2.get()});
      }
    }
    checkConditional(r, c, mc, blk, cls);
  }
}

int main(int argc, char** argv) { return run_main(argc, argv, "C15", run_case); }
