// C15 — SPDE operators, projections and solvers are mutually consistent.
//
// One case = one (mesh, Matern/Markov model) pair on which the following relations are evaluated
//   (a) matrix-free PrecisionOp (all entry points) == assembled PrecisionOpCs::getQ() applied by OUR OWN product
//   (b) Q symmetric, positive definite (own dense Cholesky / x'Qx), CholeskySparse succeeds and solves
//   (c) ProjMatrix rows: inside -> w >= 0, sum 1, affine reproduction; outside -> empty row; row <-> sample alignment
//   (d) kriging / likelihood through Cholesky and through the iterative solver agree (tolerance from the solver's
//       own stopping rule times ||A^-1|| computed here)
//   (e) every solve returns x with a small residual for the system it claims to solve (own residual)
// Reference computations: harness/common/c15_util.hpp + ref_linalg.hpp (long double, naive).
#include "common/vh.hpp"
#include "common/ref_linalg.hpp"
#include "common/c15_util.hpp"

#include "Basic/VectorNumT.hpp"
#include "Basic/VectorHelper.hpp"
#include "Basic/OptDbg.hpp"
#include "Basic/Law.hpp"
#include "Space/ASpaceObject.hpp"
#include "Space/SpaceRN.hpp"
#include "Enum/ESpaceType.hpp"
#include "Enum/EPowerPT.hpp"
#include "Db/Db.hpp"
#include "Db/DbGrid.hpp"
#include "Model/Model.hpp"
#include "Covariances/CovAniso.hpp"
#include "Covariances/CovContext.hpp"
#include "Mesh/MeshETurbo.hpp"
#include "Mesh/MeshEStandard.hpp"
#include "LinearOp/ShiftOpCs.hpp"
#include "LinearOp/PrecisionOp.hpp"
#include "LinearOp/PrecisionOpCs.hpp"
#include "LinearOp/ProjMatrix.hpp"
#include "LinearOp/CholeskySparse.hpp"
#include "LinearOp/PrecisionOpMultiConditional.hpp"
#include "LinearOp/PrecisionOpMultiConditionalCs.hpp"
#include "API/SPDE.hpp"
#include "API/SPDEParam.hpp"
#include <memory>

using namespace vh;
using namespace c15;
using ref::LD;
using ref::Mat;

// Switches to steer the generator away from input classes with known defects (default: off, see final report)
static const bool AVOID_OUTSIDE_GRID_POINTS = false; // turbo ProjMatrix: samples outside the rotated grid box

enum MeshKind { MK_TURBO = 0, MK_TURBO_MASK, MK_STD_EXT, MK_STD_FROM_TURBO, NMK };
static const char* MKN[] = {"turbo", "turbo-mask", "std-ext", "std-from-turbo"};

struct MeshCase
{
  int ndim = 2;
  int kind = 0;
  bool polarized = false;
  std::unique_ptr<AMesh> mesh;
  std::unique_ptr<MeshETurbo> turboTwin; // for MK_STD_FROM_TURBO: the turbo mesh it was copied from
  std::unique_ptr<DbGrid> grid;          // for MK_TURBO_MASK
  MeshMirror mm;
  double h = 1;      // typical cell size
  double extent = 1; // typical domain size
  std::string desc;
};

static VectorDouble VD(const std::vector<double>& v)
{
  VectorDouble o((int)v.size());
  for (size_t i = 0; i < v.size(); i++) o[(int)i] = v[i];
  return o;
}
static std::vector<double> SV(const VectorDouble& v) { return v.getVector(); }

static void genGridGeometry(Rng& r, Ctx& c, int ndim, int targetNv, VectorInt& nx, VectorDouble& dx, VectorDouble& x0,
                            VectorDouble& angles)
{
  nx.resize(ndim); dx.resize(ndim); x0.resize(ndim);
  // split targetNv among dimensions with a random aspect
  double per = std::pow((double)targetNv, 1.0 / ndim);
  for (int d = 0; d < ndim; d++)
  {
    double f = ndim == 1 ? 1.0 : r.loguni(0.5, 2.0);
    int n    = (int)std::lround(per * f);
    nx[d]    = std::max(2, n);
  }
  // keep the product bounded
  int cap = c.thorough() ? 2500 : 700;
  for (;;)
  {
    long prod = 1;
    for (int d = 0; d < ndim; d++) prod *= nx[d];
    if (prod <= cap) break;
    int dm = 0;
    for (int d = 1; d < ndim; d++) if (nx[d] > nx[dm]) dm = d;
    nx[dm]--;
  }
  double base = r.loguni(0.05, 20.);
  for (int d = 0; d < ndim; d++) dx[d] = base * (r.coin(0.5) ? 1.0 : r.loguni(0.3, 3.0));
  double off = r.coin(0.3) ? 0.0 : (r.coin(0.5) ? r.uni(-50, 50) * base : r.uni(-1000, 1000) * base);
  for (int d = 0; d < ndim; d++) x0[d] = off * r.uni(0.3, 1.0) * (r.coin() ? 1 : -1);
  angles.resize(0);
  if (ndim >= 2 && r.coin(0.7))
  {
    angles.resize(ndim);
    for (int d = 0; d < ndim; d++) angles[d] = 0.;
    angles[0] = r.uni(-180, 180);
    if (ndim == 3) { angles[1] = r.uni(-90, 90); angles[2] = r.uni(-180, 180); }
  }
}

static MeshCase genMesh(Rng& r, Ctx& c)
{
  MeshCase mc;
  mc.ndim = r.pick(std::vector<int>{1, 2, 2, 2, 3, 3});
  mc.kind = r.irange(0, NMK - 1);
  int ndim = mc.ndim;
  int maxNv = c.thorough() ? 2000 : 600;
  int targetNv = (int)std::lround(r.loguni(ndim == 1 ? 3 : (ndim == 2 ? 6 : 10), maxNv));
  if (ndim == 3) targetNv = std::min(targetNv, c.thorough() ? 1000 : 350); // 3-D stencils are wide

  if (mc.kind == MK_TURBO || mc.kind == MK_TURBO_MASK || mc.kind == MK_STD_FROM_TURBO)
  {
    VectorInt nx; VectorDouble dx, x0, angles;
    genGridGeometry(r, c, ndim, targetNv, nx, dx, x0, angles);
    mc.polarized = (ndim == 2) && r.coin(0.4);
    mc.h = 1e300; mc.extent = 0;
    for (int d = 0; d < ndim; d++) { mc.h = std::min(mc.h, dx[d]); mc.extent = std::max(mc.extent, dx[d] * (nx[d] - 1)); }
    mc.desc = fmt("nx=%s dx=%s x0=%s ang=%s pol=%d", jvec(nx.getVector()).c_str(), jvec(dx.getVector()).c_str(),
                  jvec(x0.getVector()).c_str(), jvec(angles.getVector()).c_str(), (int)mc.polarized);
    if (mc.kind == MK_TURBO)
    {
      mc.mesh.reset(MeshETurbo::create(nx, dx, x0, angles, mc.polarized, false));
    }
    else if (mc.kind == MK_STD_FROM_TURBO)
    {
      mc.turboTwin.reset(MeshETurbo::create(nx, dx, x0, angles, mc.polarized, false));
      // MeshEStandard::resetFromTurbo on a fresh object (public API). Oracle: the copy describes the same mesh.
      {
        std::unique_ptr<MeshEStandard> ms(new MeshEStandard());
        bool ok = false;
        std::string what;
        try
        {
          ok = ms->resetFromTurbo(*mc.turboTwin, false) == 0;
          ok = ok && ms->getNDim() == ndim && ms->getNApices() == mc.turboTwin->getNApices() &&
               ms->getNMeshes() == mc.turboTwin->getNMeshes() && ms->getNApexPerMesh() == ndim + 1;
          if (!ok) what = fmt("ndim=%d napices=%d nmeshes=%d (turbo: %d %d %d)", ms->getNDim(), ms->getNApices(), ms->getNMeshes(), ndim,
                              mc.turboTwin->getNApices(), mc.turboTwin->getNMeshes());
        }
        catch (const std::exception& e) { what = e.what(); }
        c.truth("resetFromTurbo", "C15:MeshEStandard::resetFromTurbo:ndim-not-set", ok, what);
        if (ok) mc.mesh = std::move(ms);
        else
        { // fall back on createFromExternal with the turbo's apices / meshes read through its getters
          int nv = mc.turboTwin->getNApices(), ne = mc.turboTwin->getNMeshes();
          MatrixRectangular apices(nv, ndim);
          MatrixInt meshes(ne, ndim + 1);
          for (int i = 0; i < nv; i++) for (int d = 0; d < ndim; d++) apices.setValue(i, d, mc.turboTwin->getApexCoor(i, d));
          for (int e = 0; e < ne; e++) for (int k = 0; k <= ndim; k++) meshes.setValue(e, k, mc.turboTwin->getApex(e, k));
          mc.mesh.reset(MeshEStandard::createFromExternal(apices, meshes, false));
        }
      }
    }
    else
    {
      // grid with a selection: mask a random box / random nodes; meshes touching a masked node disappear
      mc.grid.reset(DbGrid::create(nx, dx, x0, angles));
      int ng = mc.grid->getSampleNumber();
      VectorDouble sel(ng, 1.);
      int mode = r.irange(0, 2);
      if (mode == 0)
      { // scattered masked nodes
        double p = r.uni(0.02, 0.2);
        for (int i = 0; i < ng; i++) if (r.coin(p)) sel[i] = 0.;
      }
      else if (mode == 1)
      { // masked corner block
        std::vector<int> lim(ndim);
        for (int d = 0; d < ndim; d++) lim[d] = r.irange(0, std::max(0, nx[d] / 2));
        std::vector<int> ind(ndim);
        for (int i = 0; i < ng; i++)
        {
          int rem = i; bool in = true;
          for (int d = 0; d < ndim; d++) { ind[d] = rem % nx[d]; rem /= nx[d]; if (ind[d] >= lim[d]) in = false; }
          if (in) sel[i] = 0.;
        }
      }
      else
      { // one masked node only
        sel[r.irange(0, ng - 1)] = 0.;
      }
      mc.grid->addSelection(sel, "sel");
      mc.mesh.reset(MeshETurbo::createFromGrid(mc.grid.get(), mc.polarized, false));
    }
  }
  else
  {
    // jittered simplicial lattice mapped by a random affine transformation
    int nxa[3] = {1, 1, 1};
    {
      VectorInt nx; VectorDouble dx, x0, angles;
      genGridGeometry(r, c, ndim, targetNv, nx, dx, x0, angles);
      for (int d = 0; d < ndim; d++) nxa[d] = nx[d];
    }
    // quality bound: every element keeps |det| >= 0.1 (lattice units): jitter < 1/6 in 2-D (see derivation in
    // the report), smaller in 3-D; verified below and the jitter halved until it holds
    double jit = ndim == 1 ? r.uni(0, 0.4) : (ndim == 2 ? r.uni(0, 0.15) : r.uni(0, 0.07));
    if (r.coin(0.15)) jit = 0;
    RawMesh raw;
    for (int attempt = 0; attempt < 6; attempt++)
    {
      Rng rr = r; // same stream for every attempt: only the amplitude changes
      raw = latticeMesh(rr, ndim, nxa, jit, true);
      bool good = true;
      for (auto& e : raw.e)
      {
        LD a[3][3];
        for (int k = 0; k < ndim; k++)
          for (int j = 0; j < ndim; j++) a[j][k] = (LD)raw.v[e[k + 1]][j] - (LD)raw.v[e[0]][j];
        LD det = ndim == 1 ? a[0][0]
               : ndim == 2 ? a[0][0] * a[1][1] - a[0][1] * a[1][0]
                           : a[0][0] * (a[1][1] * a[2][2] - a[1][2] * a[2][1]) - a[0][1] * (a[1][0] * a[2][2] - a[1][2] * a[2][0]) +
                               a[0][2] * (a[1][0] * a[2][1] - a[1][1] * a[2][0]);
        if (std::fabs(det) < 0.1) { good = false; break; }
      }
      if (good) break;
      jit *= 0.5;
      if (attempt == 5) throw SkipCase{"mesh-quality"};
    }
    for (int k = 0; k < 8; k++) r.next(); // decorrelate from the lattice stream
    // affine map: x = x0 + R * diag(s) * u
    double base = r.loguni(0.05, 20.);
    double s[3] = {base, base, base};
    for (int d = 0; d < ndim; d++) if (r.coin(0.5)) s[d] *= r.loguni(0.3, 3.0);
    double R[3][3] = {{1, 0, 0}, {0, 1, 0}, {0, 0, 1}};
    if (ndim == 2 && r.coin(0.7))
    {
      double t = r.uni(-M_PI, M_PI);
      R[0][0] = std::cos(t); R[0][1] = -std::sin(t); R[1][0] = std::sin(t); R[1][1] = std::cos(t);
    }
    if (ndim == 3 && r.coin(0.7))
    {
      // product of three plane rotations
      double t[3] = {r.uni(-M_PI, M_PI), r.uni(-M_PI, M_PI), r.uni(-M_PI, M_PI)};
      int ax[3][2] = {{0, 1}, {1, 2}, {0, 2}};
      for (int q = 0; q < 3; q++)
      {
        double G[3][3] = {{1, 0, 0}, {0, 1, 0}, {0, 0, 1}};
        int i = ax[q][0], j = ax[q][1];
        G[i][i] = std::cos(t[q]); G[i][j] = -std::sin(t[q]); G[j][i] = std::sin(t[q]); G[j][j] = std::cos(t[q]);
        double P[3][3];
        for (int a = 0; a < 3; a++) for (int b = 0; b < 3; b++) { P[a][b] = 0; for (int k = 0; k < 3; k++) P[a][b] += G[a][k] * R[k][b]; }
        for (int a = 0; a < 3; a++) for (int b = 0; b < 3; b++) R[a][b] = P[a][b];
      }
    }
    double off = r.coin(0.3) ? 0.0 : (r.coin(0.5) ? r.uni(-50, 50) * base : r.uni(-1000, 1000) * base);
    double x0[3] = {off * r.uni(0.3, 1), -off * r.uni(0.3, 1), off * r.uni(0.3, 1)};
    int nv = (int)raw.v.size(), ne = (int)raw.e.size();
    std::vector<int> relabel = r.coin(0.7) ? r.perm(nv) : std::vector<int>();
    MatrixRectangular apices(nv, ndim);
    for (int i = 0; i < nv; i++)
    {
      int ii = relabel.empty() ? i : relabel[i];
      for (int a = 0; a < ndim; a++)
      {
        double v = x0[a];
        for (int b = 0; b < ndim; b++) v += R[a][b] * s[b] * raw.v[i][b];
        apices.setValue(ii, a, v);
      }
    }
    std::vector<int> eorder = r.coin(0.5) ? r.perm(ne) : std::vector<int>();
    MatrixInt meshes(ne, ndim + 1);
    for (int e = 0; e < ne; e++)
    {
      int ee = eorder.empty() ? e : eorder[e];
      std::vector<int> loc(ndim + 1);
      for (int k = 0; k <= ndim; k++) loc[k] = relabel.empty() ? raw.e[e][k] : relabel[raw.e[e][k]];
      if (r.coin(0.5)) r.shuffle(loc); // random orientation and first apex
      for (int k = 0; k <= ndim; k++) meshes.setValue(ee, k, loc[k]);
    }
    mc.mesh.reset(MeshEStandard::createFromExternal(apices, meshes, false));
    mc.h = 1e300; mc.extent = 0;
    for (int d = 0; d < ndim; d++) { mc.h = std::min(mc.h, s[d]); mc.extent = std::max(mc.extent, s[d] * (nxa[d] - 1)); }
    mc.desc = fmt("lattice=%dx%dx%d jitter=%.3g scale=%.3g,%.3g,%.3g off=%.4g relabel=%d", nxa[0], nxa[1], nxa[2], jit, s[0], s[1], s[2], off,
                  (int)!relabel.empty());
  }
  if (!mc.mesh) throw SkipCase{"mesh-null"};
  mc.mm = mirrorMesh(mc.mesh.get());
  return mc;
}

// ---------------------------------------------------------------------------------------------
struct ModelCase
{
  std::unique_ptr<Model> model;
  CovAniso* cova = nullptr;
  bool markov = false;
  double nu = 1, sill = 1, range = 1;
  int degree = 0;        // degree of the precision polynomial actually used (path taken)
  bool intAlpha = true;  // nu + d/2 integer ?
  std::string rangeClass;
  std::vector<double> coef;
};

static ModelCase genModel(Rng& r, const MeshCase& mc)
{
  ModelCase m;
  int ndim  = mc.ndim;
  // ECov::MARKOV recomputes its normalisation by an N^ndim FFT (N=512) at every construction / setMarkovCoeffs
  // (ACovFunc::computeCorrec): 134M points in 3-D -> minutes and GBs; MARKOV is therefore exercised in 1-D / 2-D only
  m.markov  = ndim <= 2 && r.coin(0.15);
  static const std::vector<double> nuHalf = {0.5, 1.5, 2.5}, nuInt = {1., 2., 3.};
  bool wantInt = r.coin(0.8);
  if (wantInt) m.nu = (ndim == 2) ? r.pick(nuInt) : r.pick(nuHalf);
  else
  { // alpha not an integer: the library rounds alpha to the closest integer (CovMatern::computeMarkovCoeffs)
    m.nu = r.coin(0.5) ? ((ndim == 2) ? r.pick(nuHalf) : r.pick(nuInt)) : r.uni(0.3, 3.0);
  }
  double alpha = m.nu + ndim / 2.0;
  m.intAlpha   = std::fabs(alpha - std::round(alpha)) < 1e-12;
  m.sill       = r.coin(0.3) ? 1.0 : r.loguni(0.01, 100.);
  int rc       = r.irange(0, 2);
  m.rangeClass = rc == 0 ? "subcell" : rc == 1 ? "mid" : "domain";
  double lo = rc == 0 ? 0.2 * mc.h : rc == 1 ? 1.5 * mc.h : 0.5 * mc.extent;
  double hi = rc == 0 ? 1.0 * mc.h : rc == 1 ? std::max(2.0 * mc.h, 0.5 * mc.extent) : 1.5 * mc.extent;
  if (hi < lo) hi = lo * 1.5;
  m.range = r.loguni(lo, hi);
  VectorDouble ranges(ndim), angles;
  bool aniso = ndim > 1 && r.coin(0.6);
  for (int d = 0; d < ndim; d++) ranges[d] = m.range * (aniso ? r.loguni(0.2, 5.0) : 1.0);
  if (aniso && r.coin(0.8))
  {
    angles.resize(ndim);
    for (int d = 0; d < ndim; d++) angles[d] = 0;
    angles[0] = r.uni(-180, 180);
    if (ndim == 3) { angles[1] = r.uni(-90, 90); angles[2] = r.uni(-180, 180); }
  }
  SpaceRN space(ndim);
  m.model.reset(Model::createFromParam(m.markov ? ECov::MARKOV : ECov::MATERN, m.range, m.sill, m.nu, ranges, VectorDouble(), angles,
                                       &space, true));
  if (!m.model || m.model->getCovaNumber() != 1) throw SkipCase{"model-null"};
  m.cova = m.model->getCova(0);
  if (m.markov)
  {
    // user polynomial with positive coefficients (P > 0 on [0, inf)): degree 1..3
    int deg = r.irange(1, 3);
    VectorDouble co(deg + 1);
    co[0] = r.loguni(0.2, 5.);
    for (int k = 1; k <= deg; k++) co[k] = r.coin(0.2) && k < deg ? 0. : r.loguni(0.05, 5.);
    m.cova->setMarkovCoeffs(co);
  }
  m.coef   = SV(m.cova->getMarkovCoeffs());
  m.degree = (int)m.coef.size() - 1;
  return m;
}

// ---------------------------------------------------------------------------------------------
// comparison of a library vector with a long double reference under a component-wise round-off bound
// returns max_i |got_i - want_i| / tol_i
static double ratioVec(const std::vector<double>& got, const std::vector<LD>& want, const std::vector<LD>& bound, double cfac,
                       int* worst = nullptr)
{
  double mr = 0;
  if (got.size() != want.size()) return INFINITY;
  for (size_t i = 0; i < got.size(); i++)
  {
    double e = std::fabs((double)((LD)got[i] - want[i]));
    double t = cfac * EPS * (double)bound[i];
    double q;
    if (std::isnan(e)) q = INFINITY;
    else if (e <= t) q = t > 0 ? e / t : 0.;
    else q = t > 0 ? e / t : INFINITY;
    if (q > mr) { mr = q; if (worst) *worst = (int)i; }
  }
  return mr;
}

// backward-error style residual ratio: ||A x - b||_inf / (cfac eps ||(|A||x| + |b|)||_inf)
static double residRatio(const Sp& A, const std::vector<double>& x, const std::vector<double>& b, double cfac, double* relres = nullptr)
{
  int n = (int)x.size();
  std::vector<LD> xl = toLD(x), xa(n);
  for (int i = 0; i < n; i++) { if (!std::isfinite(x[i])) return INFINITY; xa[i] = std::fabs(xl[i]); }
  std::vector<LD> res = mulv(A, xl), mag = mulv(A, xa, false, true);
  LD bn = 0, rn = 0, b2 = 0, r2 = 0;
  for (int i = 0; i < n; i++)
  {
    LD ri = res[i] - (LD)b[i];
    rn = std::max(rn, std::fabs(ri));
    bn = std::max(bn, mag[i] + std::fabs((LD)b[i]));
    r2 += ri * ri; b2 += (LD)b[i] * (LD)b[i];
  }
  if (relres) *relres = (double)(std::sqrt(r2) / (std::sqrt(b2) + 1e-300L));
  return (double)(rn / (cfac * EPS * bn + 1e-300L));
}

// ---------------------------------------------------------------------------------------------
// oracle (c): projection matrix
// ---------------------------------------------------------------------------------------------
enum PClass { PC_INSIDE = 0, PC_FACET, PC_VERTEX, PC_HULL, PC_OUT_NEAR, PC_OUT_FAR, PC_AMBIG, NPC };
static const char* PCN[] = {"inside", "interior-facet", "vertex", "hull", "outside-near", "outside-far", "ambiguous"};

struct Located
{
  bool insideStrict = false; // some element has all barycentric coordinates >= +margin
  bool outsideClear = false; // every element has a barycentric coordinate <= -margin
  int elem = -1;
};
// brute force point location over all elements (long double barycentric coordinates)
static Located locate(const MeshMirror& mm, const std::vector<double>& p, double margin)
{
  Located L;
  L.outsideClear = true;
  for (int e = 0; e < mm.ne; e++)
  {
    // cheap bounding-box rejection (with slack)
    bool far = false;
    for (int d = 0; d < mm.ndim && !far; d++)
    {
      double lo = INFINITY, hi = -INFINITY;
      for (int k = 0; k < mm.nc; k++) { lo = std::min(lo, mm.x(mm.apex(e, k), d)); hi = std::max(hi, mm.x(mm.apex(e, k), d)); }
      double sl = 0.5 * (hi - lo) + 1e-300;
      if (p[d] < lo - sl || p[d] > hi + sl) far = true;
    }
    if (far) continue; // a point that far from the element's box has a barycentric coordinate <= -0.5 < -margin
    std::vector<LD> w = barycentric(mm, e, p);
    LD mn = INFINITY;
    for (LD v : w) mn = std::min(mn, v);
    if (!(mn <= -margin)) L.outsideClear = false;
    if (mn >= margin) { L.insideStrict = true; L.elem = e; }
  }
  return L;
}

struct ProjData
{
  std::vector<std::vector<double>> pts;
  std::vector<int> pclass;
  std::vector<int> active, zdef;
};

static void checkProjection(Rng& r, Ctx& c, const MeshCase& mc, const AMesh* mesh, const MeshMirror& mm, const std::string& mcls,
                            const AMesh* twin)
{
  const int ndim = mm.ndim, nc = mm.nc;
  // element quality and conditioning of the barycentric computation
  double qual = 1;
  std::vector<double> lo(ndim, INFINITY), hi(ndim, -INFINITY);
  for (int i = 0; i < mm.nv; i++) for (int d = 0; d < ndim; d++) { lo[d] = std::min(lo[d], mm.x(i, d)); hi[d] = std::max(hi[d], mm.x(i, d)); }
  double L = 0;
  for (int d = 0; d < ndim; d++) L = std::max(L, hi[d] - lo[d]);
  for (int e = 0; e < mm.ne; e++)
  {
    double hm = 0;
    for (int k = 0; k < nc; k++) for (int l = k + 1; l < nc; l++)
    {
      double s2 = 0;
      for (int d = 0; d < ndim; d++) s2 += std::pow(mm.x(mm.apex(e, k), d) - mm.x(mm.apex(e, l), d), 2);
      hm = std::max(hm, std::sqrt(s2));
    }
    double det = std::fabs((double)elemDet(mm, e));
    if (det > 0) qual = std::max(qual, std::pow(hm, ndim) / det);
  }
  const double tolW = 256. * EPS * qual * (mm.coordMag / mm.hmin + 1.);
  const double MARGIN = 1e-3;

  // facets: interior (shared by two elements) and hull (one element)
  std::map<std::vector<int>, int> facetCount;
  for (int e = 0; e < mm.ne; e++)
    for (int k = 0; k < nc; k++)
    {
      std::vector<int> f;
      for (int l = 0; l < nc; l++) if (l != k) f.push_back(mm.apex(e, l));
      std::sort(f.begin(), f.end());
      facetCount[f]++;
    }
  std::vector<std::vector<int>> facIn, facHull;
  for (auto& kv : facetCount) (kv.second >= 2 ? facIn : facHull).push_back(kv.first);
  std::vector<char> vertexOnHull(mm.nv, 0);
  for (auto& f : facHull) for (int v : f) vertexOnHull[v] = 1;

  ProjData pd;
  auto addPoint = [&](int wantClass) {
    std::vector<double> p(ndim, 0.);
    int cls = wantClass;
    if (wantClass == PC_INSIDE)
    {
      int e = r.irange(0, mm.ne - 1);
      std::vector<double> w(nc);
      double sw = 0;
      for (auto& v : w) { v = 0.03 + r.u01(); sw += v; }
      for (int k = 0; k < nc; k++) for (int d = 0; d < ndim; d++) p[d] += w[k] / sw * mm.x(mm.apex(e, k), d);
    }
    else if (wantClass == PC_FACET || wantClass == PC_HULL)
    {
      auto& fl = wantClass == PC_FACET ? facIn : facHull;
      if (fl.empty()) return;
      const std::vector<int>& f = fl[r.next() % fl.size()];
      std::vector<double> w(f.size());
      double sw = 0;
      for (auto& v : w) { v = 0.05 + r.u01(); sw += v; }
      for (size_t k = 0; k < f.size(); k++) for (int d = 0; d < ndim; d++) p[d] += w[k] / sw * mm.x(f[k], d);
    }
    else if (wantClass == PC_VERTEX)
    {
      int v = r.irange(0, mm.nv - 1);
      for (int d = 0; d < ndim; d++) p[d] = mm.x(v, d);
      cls = vertexOnHull[v] ? PC_HULL : PC_VERTEX;
    }
    else if (wantClass == PC_OUT_NEAR)
    { // random point in the bounding box enlarged by 15 %: classified by brute force
      for (int d = 0; d < ndim; d++) p[d] = r.uni(lo[d] - 0.15 * L, hi[d] + 0.15 * L);
      Located Lc = locate(mm, p, MARGIN);
      cls = Lc.insideStrict ? PC_INSIDE : Lc.outsideClear ? PC_OUT_NEAR : PC_AMBIG;
    }
    else if (wantClass == PC_OUT_FAR)
    {
      int d0 = r.irange(0, ndim - 1);
      for (int d = 0; d < ndim; d++) p[d] = r.uni(lo[d], hi[d]);
      p[d0] = r.coin() ? hi[d0] + L * r.loguni(0.3, 30.) : lo[d0] - L * r.loguni(0.3, 30.);
    }
    pd.pts.push_back(p);
    pd.pclass.push_back(cls);
  };
  // first half: no sample outside the bounding box of the mesh; second half: all classes mixed
  int nhalf = c.thorough() ? 40 : 20;
  for (int k = 0; k < nhalf; k++)
  {
    double u = r.u01();
    addPoint(u < 0.45 ? PC_INSIDE : u < 0.65 ? PC_FACET : u < 0.75 ? PC_VERTEX : u < 0.85 ? PC_HULL : PC_INSIDE);
  }
  int firstMixed = (int)pd.pts.size();
  for (int k = 0; k < nhalf; k++)
  {
    double u = r.u01();
    addPoint(u < 0.35 ? PC_INSIDE : u < 0.45 ? PC_FACET : u < 0.75 ? PC_OUT_NEAR : PC_OUT_FAR);
  }
  if (r.coin(0.5)) addPoint(r.coin() ? PC_OUT_FAR : PC_INSIDE); // what the last sample is matters for the matrix shape
  int np = (int)pd.pts.size();
  // Db: coordinates + one Z variable; optional selection; optional undefined Z (then rankZ = 0 filters them)
  bool useSel = r.coin(0.3), useZ = r.coin(0.4);
  pd.active.assign(np, 1);
  pd.zdef.assign(np, 1);
  VectorDouble tab((ndim + 1) * np);
  for (int i = 0; i < np; i++)
  {
    for (int d = 0; d < ndim; d++) tab[d * np + i] = pd.pts[i][d];
    if (useSel && r.coin(0.2)) pd.active[i] = 0;
    if (useZ && r.coin(0.2)) pd.zdef[i] = 0;
    tab[ndim * np + i] = pd.zdef[i] ? r.normal() : TEST;
  }
  VectorString names, locs;
  for (int d = 0; d < ndim; d++) { names.push_back(fmt("x%d", d + 1)); locs.push_back(fmt("x%d", d + 1)); }
  names.push_back("z");
  locs.push_back("z1");
  std::unique_ptr<Db> db(Db::createFromSamples(np, ELoadBy::COLUMN, tab, names, locs, true));
  if (!db) { c.truth("proj-db", "C15:harness:db-null", false); return; }
  if (useSel)
  {
    VectorDouble sel(np);
    for (int i = 0; i < np; i++) sel[i] = pd.active[i];
    db->addSelection(sel, "sel");
  }
  int rankZ = useZ ? 0 : -1;
  std::vector<int> rowOf(np, -1);
  int nrows = 0;
  for (int i = 0; i < np; i++)
    if (pd.active[i] && (rankZ < 0 || pd.zdef[i])) rowOf[i] = nrows++;

  std::unique_ptr<ProjMatrix> pm(ProjMatrix::create(db.get(), mesh, rankZ, false));
  std::string kb = "C15:ProjMatrix:" + mcls;
  // shape: "a point outside has an empty row" => one row per retained sample, one column per apex
  bool lastOut = false;
  for (int i = np - 1; i >= 0; i--) if (rowOf[i] >= 0) { lastOut = pd.pclass[i] == PC_OUT_FAR || pd.pclass[i] == PC_OUT_NEAR; break; }
  bool shapeOk = pm->getPointNumber() == nrows && pm->getApexNumber() == mm.nv;
  c.truth("proj-shape", kb + (lastOut ? ":shape:last-sample-outside" : ":shape"), shapeOk,
          fmt("rows=%d expected=%d cols=%d expected=%d", pm->getPointNumber(), nrows, pm->getApexNumber(), mm.nv));
  Sp A = mirror(pm.get());
  std::vector<std::vector<std::pair<int, double>>> rows(std::max(nrows, A.nr));
  for (size_t k = 0; k < A.v.size(); k++) rows[A.r[k]].push_back({A.c[k], A.v[k]});

  // random affine function in normalised coordinates
  double a0 = r.uni(-1, 1), a[3] = {r.uni(-1, 1), r.uni(-1, 1), r.uni(-1, 1)}, asum = std::fabs(a0);
  for (int d = 0; d < ndim; d++) asum += std::fabs(a[d]);
  auto aff = [&](auto getx) { LD v = a0; for (int d = 0; d < ndim; d++) v += (LD)a[d] * ((LD)getx(d) - (LD)(0.5 * (lo[d] + hi[d]))) / (LD)L; return v; };
  const double tolA = 4 * tolW * (1 + asum) + 64 * EPS * (mm.coordMag / L + 1) * asum;

  bool sawOutsideBox = false; // an earlier retained sample lies outside the bounding box of the mesh
  for (int i = 0; i < np; i++)
  {
    int row = rowOf[i];
    if (row < 0) continue;
    int pc = pd.pclass[i];
    std::string kshift = (sawOutsideBox && (mc.kind == MK_TURBO || mc.kind == MK_TURBO_MASK)) ? ":after-sample-outside-grid" : "";
    if (pc == PC_OUT_FAR) sawOutsideBox = true;
    if (pc == PC_OUT_NEAR)
      for (int d = 0; d < ndim; d++) if (pd.pts[i][d] < lo[d] || pd.pts[i][d] > hi[d]) sawOutsideBox = true;
    if (pc == PC_AMBIG) { c.skip("proj:ambiguous-point"); continue; }
    const auto& rw = row < (int)rows.size() ? rows[row] : std::vector<std::pair<int, double>>();
    std::string kc = kb + ":" + PCN[pc] + kshift;
    if (pc == PC_OUT_FAR || pc == PC_OUT_NEAR)
    {
      c.truth("proj-outside-empty", kc + ":row-not-empty", rw.empty(), fmt("sample %d row %d has %zu entries", i, row, rw.size()));
      continue;
    }
    bool mustExist = pc != PC_HULL; // on the hull the property does not decide; validity is checked if a row exists
    if (rw.empty())
    {
      if (mustExist) c.truth("proj-inside-nonempty", kc + ":row-empty", false, fmt("sample %d row %d p=%s", i, row, jvec(pd.pts[i]).c_str()));
      else c.probe("proj.hull.empty");
      continue;
    }
    if (mustExist) c.truth("proj-inside-nonempty", kc + ":row-empty", true);
    LD sw = 0, sa = 0, wmin = INFINITY;
    bool idxOk = true;
    for (auto& cw : rw)
    {
      if (cw.first < 0 || cw.first >= mm.nv) { idxOk = false; continue; }
      sw += cw.second;
      wmin = std::min(wmin, (LD)cw.second);
      int v = cw.first;
      sa += (LD)cw.second * aff([&](int d) { return mm.x(v, d); });
    }
    LD want = aff([&](int d) { return pd.pts[i][d]; });
    double tw = tolW, ta = tolA;
    if (pc == PC_HULL) { tw = std::max(tw, 2e-5); ta = std::max(ta, 2e-5 * (1 + asum) * (mm.hmax / L + 1)); } // library acceptance eps (EPSILON5 / EPSILON6)
    c.truth("proj-count", kc + ":too-many-entries", idxOk && (int)rw.size() <= nc, fmt("%zu entries", rw.size()));
    c.check("proj-nonneg", kc + ":negative-weight", wmin >= -tw, (double)std::max((LD)0, -wmin), tw, fmt("sample %d wmin=%.3g", i, (double)wmin));
    c.check("proj-sum1", kc + ":sum-not-1", std::fabs((double)(sw - 1)) <= tw, std::fabs((double)(sw - 1)), tw, fmt("sample %d", i));
    c.check("proj-affine", kc + ":affine-not-reproduced", std::fabs((double)(sa - want)) <= ta, std::fabs((double)(sa - want)), ta,
            fmt("sample %d got=%.15g want=%.15g p=%s", i, (double)sa, (double)want, jvec(pd.pts[i]).c_str()));
  }

  // the projection as an operator: mesh2point / point2mesh vs own products
  if (shapeOk && nrows > 0)
  {
    std::vector<double> u(mm.nv), v(nrows);
    for (auto& t : u) t = r.normal();
    for (auto& t : v) t = r.normal();
    std::vector<LD> wantP = mulv(A, toLD(u)), boundP = mulv(A, toLD(u), false, true);
    std::vector<LD> ua(mm.nv), va(nrows);
    for (int i = 0; i < mm.nv; i++) ua[i] = std::fabs(u[i]);
    for (int i = 0; i < nrows; i++) va[i] = std::fabs(v[i]);
    boundP = mulv(A, ua, false, true);
    std::vector<LD> wantM = mulv(A, toLD(v), true), boundM = mulv(A, va, true, true);
    VectorDouble out;
    int e1 = pm->mesh2point(VD(u), out);
    double q = e1 ? INFINITY : ratioVec(SV(out), wantP, boundP, 16);
    c.check("proj-mesh2point", kb + ":mesh2point", q <= 1, q, 1, fmt("err=%d", e1));
    int e2 = pm->point2mesh(VD(v), out);
    q = e2 ? INFINITY : ratioVec(SV(out), wantM, boundM, 16);
    c.check("proj-point2mesh", kb + ":point2mesh", q <= 1, q, 1, fmt("err=%d", e2));
    // same geometry described by the twin class (turbo <-> standard): interpolated values agree at strictly inside points
    if (twin != nullptr)
    {
      std::unique_ptr<ProjMatrix> pt(ProjMatrix::create(db.get(), twin, rankZ, false));
      VectorDouble o1, o2;
      if (pt->getPointNumber() == nrows && pt->getApexNumber() == mm.nv && pm->mesh2point(VD(u), o1) == 0 && pt->mesh2point(VD(u), o2) == 0)
      {
        double un = 0;
        for (double t : u) un = std::max(un, std::fabs(t));
        for (int i = 0; i < firstMixed; i++)
          if (rowOf[i] >= 0 && pd.pclass[i] == PC_INSIDE)
            c.close("proj-twin", kb + ":turbo-vs-standard", o1[rowOf[i]], o2[rowOf[i]], 8 * tolW * un);
      }
      else
        c.truth("proj-twin", kb + ":turbo-vs-standard:shape", false);
    }
  }
}

static void run_case(Rng& r, Ctx& c)
{
  // ---- 1. mesh, model -----------------------------------------------------------------------------
  int ndimPeek;
  {
    Rng peek = r;
    ndimPeek = peek.pick(std::vector<int>{1, 2, 2, 2, 3, 3});
  }
  defineDefaultSpace(ESpaceType::RN, ndimPeek);
  MeshCase mc = genMesh(r, c);
  ModelCase mo = genModel(r, mc);
  const int ndim = mc.ndim;
  const MeshMirror& mm = mc.mm;
  const int n = mm.nv;
  std::string cls = fmt("%s:ndim=%d:%s:deg=%d", MKN[mc.kind], ndim, mo.markov ? "markov" : "matern", mo.degree);
  c.setSig(fmt("%s:intalpha=%d:range=%s:pol=%d", cls.c_str(), (int)mo.intAlpha, mo.rangeClass.c_str(), (int)mc.polarized));
  c.puts("mesh", mc.desc);
  c.putn("nv", n);
  c.putn("ne", mm.ne);
  c.puts("model", fmt("%s nu=%.4g sill=%.4g range=%.4g deg=%d", mo.markov ? "MARKOV" : "MATERN", mo.nu, mo.sill, mo.range, mo.degree));
  if (n < 2 || mm.ne < 1) throw SkipCase{"mesh-empty"};

  // mesh sanity through the public getters (apex ranks in range): everything below indexes with them
  {
    bool ok = true;
    for (int v : mm.el) if (v < 0 || v >= n) ok = false;
    if (!c.truth("mesh-apex-range", "C15:mesh:apex-out-of-range:" + std::string(MKN[mc.kind]), ok)) return;
  }
  // path actually taken by the polynomial: Matern -> (1+x)^p with p = round(nu + d/2)
  if (!mo.markov)
  {
    int p = (int)std::lround(mo.nu + ndim / 2.0);
    c.truth("path-degree", fmt("C15:matern:poly-degree:ndim=%d", ndim), mo.degree == p, fmt("nu=%g degree=%d expected=%d", mo.nu, mo.degree, p));
  }
  c.probe(fmt("path.deg%d.%s", mo.degree, mo.intAlpha ? "int" : "rounded"));

  // ---- 2. the two forms ---------------------------------------------------------------------------
  PrecisionOpCs qcs(mc.mesh.get(), mo.cova, false);
  PrecisionOp qmf(mc.mesh.get(), mo.cova, false);
  const MatrixSparse* Qlib = qcs.getQ();
  if (!c.truth("build", "C15:build:Q-null:" + cls, Qlib != nullptr && qmf.getShiftOp() != nullptr && qmf.getShiftOp()->getS() != nullptr))
    return;
  if (!c.truth("build", "C15:build:size:" + cls, qcs.getSize() == n && qmf.getSize() == n && Qlib->getNRows() == n && Qlib->getNCols() == n,
               fmt("n=%d cs=%d mf=%d Q=%dx%d", n, qcs.getSize(), qmf.getSize(), Qlib->getNRows(), Qlib->getNCols())))
    return;
  Sp Q = mirror(Qlib);
  Sp S = mirror(qmf.getShiftOp()->getS());
  std::vector<double> lam = SV(qmf.getShiftOp()->getLambdas());
  std::vector<double> lamCs = SV(qcs.getShiftOp()->getLambdas());
  int nnzS = std::max(1, maxRowCount(S));
  const double CF = 8.0 * (mo.degree + 2) * (nnzS + 2); // round-off constant for Horner / matrix powers
  bool lamOk = (int)lam.size() == n;
  for (double v : lam) if (!(v > 0) || !std::isfinite(v)) lamOk = false;
  if (!c.truth("lambda-positive", "C15:shiftop:lambda-nonpositive:" + cls, lamOk)) return;
  c.truth("two-shiftops-agree", "C15:shiftop:nondeterministic:" + cls, lam == lamCs);

  // ---- 3. oracle (a): every entry point vs own Q.x ------------------------------------------------
  auto makeVec = [&](int kind) {
    std::vector<double> x(n, 0.);
    switch (kind)
    {
      case 0: for (auto& v : x) v = r.normal(); break;
      case 1: x[r.irange(0, n - 1)] = 1.; break;
      case 2: for (auto& v : x) v = 1.; break;
      case 3: for (auto& v : x) v = r.uni(-1, 1) * std::pow(10., r.irange(-6, 6)); break;
      case 4: { // affine function of the coordinates (smooth: the near-null space of S)
        double a0 = r.uni(-1, 1), a[3] = {r.uni(-1, 1), r.uni(-1, 1), r.uni(-1, 1)};
        for (int i = 0; i < n; i++) { x[i] = a0; for (int d = 0; d < ndim; d++) x[i] += a[d] * (mm.x(i, d) / (mm.coordMag + 1e-300)); }
        break; }
      case 5: x[r.coin() ? 0 : n - 1] = -2.5; break;
    }
    return x;
  };
  static const char* VKN[] = {"normal", "unit", "const", "wide", "affine", "unit-end"};
  std::vector<int> vkinds = {0, 1, 2, 3, 4, 5};
  if (c.thorough()) { vkinds.push_back(0); vkinds.push_back(1); vkinds.push_back(3); }
  for (int vk : vkinds)
  {
    std::vector<double> x = makeVec(vk);
    std::vector<LD> xl  = toLD(x);
    std::vector<LD> yQ  = mulv(Q, xl);                          // assembled form, own product
    std::vector<LD> yP  = applyLPL(S, lam, mo.coef, xl, false); // Lambda P(S) Lambda x, own evaluation
    std::vector<LD> B   = applyLPL(S, lam, mo.coef, xl, true);  // magnitude bound
    std::string kv = cls + ":x=" + VKN[vk];
    int w = -1;
    double q;
    // assembled matrix vs the formula it is documented to implement
    {
      std::vector<double> yQd(n);
      for (int i = 0; i < n; i++) yQd[i] = (double)yQ[i];
      q = ratioVec(yQd, yP, B, CF, &w);
      c.check("Q-vs-formula", "C15:Q-assembled-vs-LambdaPSLambda:" + kv, q <= 1, q, 1, q <= 1 ? "" : fmt("i=%d Qx=%.17g formula=%.17g", w, yQd[w], (double)yP[w]));
    }
    VectorDouble xv = VD(x);
    // E1 matrix-free evalDirect(VectorDouble) -> VectorDouble
    {
      VectorDouble y = qmf.evalDirect(xv);
      q = ratioVec(SV(y), yQ, B, CF, &w);
      c.check("matfree-evalDirect", "C15:evalDirect:matfree-vs-Q:" + kv, q <= 1, q, 1, q <= 1 ? "" : fmt("i=%d got=%.17g Qx=%.17g", w, y[w], (double)yQ[w]));
    }
    // E2 in/out form, output vector pre-sized wrongly (documented to be resized)
    {
      VectorDouble y(3, 7.);
      int err = qmf.evalDirect(xv, y);
      q = err ? INFINITY : ratioVec(SV(y), yQ, B, CF, &w);
      c.check("matfree-evalDirect", "C15:evalDirect2:matfree-vs-Q:" + kv, q <= 1, q, 1, fmt("err=%d", err));
    }
    if (vk == 0)
    // E3 addToDest: ALinearOp::addToDest is the accumulating form (evalDirect = fill(0) + addToDest, see ALinearOp.cpp;
    //    PrecisionOpCs::_addToDest, ProjMatrix::_addMesh2point, SPDEOp::_addToDestImpl all rely on outv += Op * inv)
    {
      std::vector<double> y(n), y0;
      std::vector<LD> want(n), b2(n);
      for (int i = 0; i < n; i++) { y[i] = r.uni(-1, 1) * (double)B[i]; want[i] = (LD)y[i] + yQ[i]; b2[i] = B[i] + std::fabs((LD)y[i]); }
      y0 = y;
      int err = qmf.addToDest(constvect(x), vect(y));
      q = err ? INFINITY : ratioVec(y, want, b2, CF, &w);
      std::string key = "C15:addToDest:matfree-vs-Q:" + kv;
      if (!(q <= 1) && ratioVec(y, yQ, B, CF) <= 1) key = "C15:PrecisionOp::addToDest:destination-overwritten"; // diagnosed: y = Qx, y0 lost
      c.check("matfree-addToDest", key, q <= 1, q, 1, q <= 1 ? "" : fmt("err=%d i=%d y0=%.6g got=%.17g want y0+Qx=%.17g Qx=%.17g", err, w, y0[w], y[w], (double)want[w], (double)yQ[w]));
    }
    // E4 evalPower(ONE) on the matrix-free operator and on the Cs operator (polynomial path of the same object)
    for (int which = 0; which < 2; which++)
    {
      std::vector<double> y(n, 3.);
      (which == 0 ? (PrecisionOp&)qmf : (PrecisionOp&)qcs).evalPower(constvect(x), vect(y), EPowerPT::ONE);
      q = ratioVec(y, yQ, B, CF, &w);
      c.check("evalPower-ONE", std::string("C15:evalPower(ONE):") + (which ? "cs" : "matfree") + "-vs-Q:" + kv, q <= 1, q, 1,
              q <= 1 ? "" : fmt("i=%d got=%.17g Qx=%.17g ratio got/want=%.6g n=%d", w, y[w], (double)yQ[w], y[w] / (double)yQ[w], n));
    }
    // E5/E6 the Cs operator's own product
    {
      VectorDouble y = qcs.evalDirect(xv);
      q = ratioVec(SV(y), yQ, B, CF, &w);
      c.check("cs-evalDirect", "C15:evalDirect:cs-vs-ownproduct:" + kv, q <= 1, q, 1);
      std::vector<double> y2(n, 0.);
      int err = qcs.addToDest(constvect(x), vect(y2));
      q = err ? INFINITY : ratioVec(y2, yQ, B, CF, &w);
      c.check("cs-evalDirect", "C15:addToDest:cs-vs-ownproduct:" + kv, q <= 1, q, 1);
    }
  }

  // ---- 4. oracle (b): symmetry, positive definiteness ----------------------------------------------
  std::vector<double> qdiag(n, 0.);
  for (size_t k = 0; k < Q.v.size(); k++) if (Q.r[k] == Q.c[k]) qdiag[Q.r[k]] += Q.v[k];
  {
    bool dpos = true;
    for (double v : qdiag) if (!(v > 0)) dpos = false;
    c.truth("Q-diag-positive", "C15:Q:diag-nonpositive:" + cls, dpos);
    // symmetry entry by entry: |Qij - Qji| <= c eps sqrt(Qii Qjj)
    std::map<std::pair<int, int>, double> ent;
    for (size_t k = 0; k < Q.v.size(); k++) ent[{Q.r[k], Q.c[k]}] += Q.v[k];
    double worst = 0;
    std::pair<int, int> wij{0, 0};
    for (auto& kv : ent)
    {
      int i = kv.first.first, j = kv.first.second;
      if (i == j) continue;
      auto it   = ent.find({j, i});
      double tv = it == ent.end() ? 0. : it->second;
      double sc = std::sqrt(std::fabs(qdiag[i] * qdiag[j]));
      double q  = std::fabs(kv.second - tv) / (CF * EPS * sc + 1e-300);
      if (!(q <= worst)) { worst = q; wij = kv.first; }
    }
    c.check("Q-symmetric", "C15:Q:asymmetric:" + cls, worst <= 1, worst, 1, fmt("at (%d,%d)", wij.first, wij.second));
  }
  const int NCHOL = c.thorough() ? 320 : 200;
  LD refLogdet = NAN;
  double condEst = 1; // (max L_ii / min L_ii)^2 of the reference factor: lower bound of cond(Q)
  bool haveDense = n <= NCHOL;
  Mat Qd;
  if (haveDense)
  {
    Qd = dense(Q);
    ref::Chol ch(Qd);
    c.check("Q-posdef-chol", "C15:Q:not-positive-definite:" + cls, ch.ok, ch.ok ? 0 : 1, 0, fmt("min pivot %.6g", (double)ch.minpiv));
    if (ch.ok)
    {
      refLogdet = ch.logdet();
      LD lmin = INFINITY, lmax = 0;
      for (int i = 0; i < n; i++) { lmin = std::min(lmin, ch.L(i, i)); lmax = std::max(lmax, ch.L(i, i)); }
      condEst = (double)((lmax / lmin) * (lmax / lmin));
    }
  }
  for (int t = 0; t < 4; t++)
  {
    std::vector<double> x = makeVec(t == 0 ? 0 : t == 1 ? 2 : t == 2 ? 4 : 3);
    std::vector<LD> xl = toLD(x), y = mulv(Q, xl);
    LD s = 0, sa = 0;
    for (int i = 0; i < n; i++) { s += xl[i] * y[i]; sa += std::fabs(xl[i] * y[i]); }
    c.check("Q-quadform-positive", "C15:Q:xQx-nonpositive:" + cls, s > 0, s > 0 ? 0 : 1, 0, fmt("x'Qx=%.6g", (double)s));
  }

  // ---- 5. the library's sparse Cholesky on Q: must succeed, solve, and give log det ------------------
  {
    CholeskySparse chol(Qlib);
    std::vector<double> b = makeVec(0), x(n, 0.);
    int err = chol.solve(constvect(b), vect(x));
    bool fin = true;
    for (double v : x) if (!std::isfinite(v)) fin = false;
    c.truth("cholsparse-succeeds", "C15:CholeskySparse:fails-on-Q:" + cls, err == 0 && fin && chol.isReady(), fmt("err=%d ready=%d", err, (int)chol.isReady()));
    if (err == 0 && fin)
    {
      // backward-stable residual: ||Qx-b||_inf <= c n eps (|Q||x| + |b|)
      double q = residRatio(Q, x, b, 64.0 * n);
      c.check("solve-residual-chol", "C15:CholeskySparse::solve:residual:" + cls, q <= 1, q, 1);
      double ld = chol.computeLogDeterminant();
      if (haveDense && std::isfinite((double)refLogdet))
        c.close("logdet-chol", "C15:CholeskySparse:logdet:" + cls, ld, (double)refLogdet, 1e-10 * (n + std::fabs((double)refLogdet)) + 64. * n * EPS * condEst);
      double ld2 = qcs.getLogDeterminant();
      c.close("logdet-chol", "C15:PrecisionOpCs:getLogDeterminant:" + cls, ld2, ld, 1e-12 * (n + std::fabs(ld)));
    }
    // PrecisionOpCs::evalInverse (Cholesky path)
    std::vector<double> x2(n, 0.);
    qcs.evalInverse(constvect(b), x2);
    double q = residRatio(Q, x2, b, 64.0 * n);
    c.check("solve-residual-chol", "C15:PrecisionOpCs::evalInverse:residual:" + cls, q <= 1, q, 1);
  }

  // ---- 6. oracle (c): projection of points on the mesh --------------------------------------------
  {
    std::string mcls = fmt("%s:ndim=%d", MKN[mc.kind], ndim);
    checkProjection(r, c, mc, mc.mesh.get(), mm, mcls, mc.turboTwin.get());
  }
}

int main(int argc, char** argv) { return run_main(argc, argv, "C15", run_case); }
