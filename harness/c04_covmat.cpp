// C04 (1) — optimised covariance-matrix evaluation equals the plain pairwise one.
//
// Differential monitor: two Model objects are built from the same parameters. 'mplain' only ever serves the plain
// entry points (Model::evalCovMatrix / evalCovMatrixSymmetric) and is the reference; 'mopt' serves a SEQUENCE of
// optimised requests (Model::evalCovMatrixOptim / evalCovMatrixSymmetricOptim) on several Dbs, some of which are
// empty (everything masked / undefined / invalid variable rank). Every optimised answer is compared entry by entry
// with the plain answer for the same arguments. Keeping the reference on a separate object matters: the optimised
// path leaves mutable state in the CovAniso objects (_p1As, _isOptimPreProcessed) which the plain path also reads
// (CovAniso::evalCor), so a differential on one object could hide a common error.
//
// Tolerance: both paths evaluate the same correlation function; they differ only in how the reduced distance is
// formed: plain = |T (x2 - x1)|, optimised = |T x2 - T x1| (T = inverse anisotropy tensor). The second form loses
// eps*|x|/scale in the reduced distance, hence tol = C * eps * (S + max|C|) * (1 + |x|max / min scale), C = 1e3,
// S = sum over structures of max(largest sill, |C_k(0)|)  (|C_k(0)| >> sill for the intrinsic structures, whose
// values - and the round-off of C(0)-C(h) in variogram mode - scale with the field extension).
#include "common/vh.hpp"
#include "common/c04_gen.hpp"
#include "Matrix/MatrixRectangular.hpp"
#include "Matrix/MatrixSquareSymmetric.hpp"

using namespace vh;
using namespace c04;

struct Req
{
  bool sym;
  int d1, d2; // index in the Db table; d2 = -1 -> nullptr (db1 itself)
  int ivar0, jvar0;
  VectorInt nb1, nb2;
  int modeKind; // 0 null, 1 default object, 2 asVario, 3 unitary, 4 orderVario, 5 active list, 6 vario+unitary
  std::shared_ptr<CovCalcMode> mode;
};
static const char* MODEN[] = {"null", "default", "vario", "unitary", "order", "active", "vario-unitary"};

static VectorInt subset(Rng& r, int n)
{
  VectorInt v;
  if (n <= 0) return v;
  auto p = r.perm(n);
  int k  = 1 + (int)(r.next() % n);
  for (int i = 0; i < k; i++) v.push_back(p[i]);
  if (r.coin(0.5)) std::sort(v.begin(), v.end());
  return v;
}

static std::string vi(const VectorInt& v)
{
  std::string s = "[";
  for (int i = 0; i < (int)v.size() && i < 12; i++) s += (i ? "," : "") + std::to_string(v[i]);
  if (v.size() > 12) s += ",..";
  return s + "]";
}

static void run_case(Rng& r, Ctx& c)
{
  int ndim = 1 + (int)(r.next() % 3);
  defineDefaultSpace(ESpaceType::RN, ndim);
  int nvar   = r.pick(std::vector<int> {1, 1, 2, 2, 3});
  int ncov   = 1 + (int)(r.next() % 3);
  double L   = r.pick(std::vector<double> {1.0, 100.0, 2500.0});
  int offk   = (int)(r.next() % 3); // 0: origin 0; 1: offset 10 L; 2: offset 1000 L
  double off = offk == 0 ? 0.0 : (offk == 1 ? 10 * L : 1000 * L);
  std::vector<double> origin(ndim);
  for (auto& o : origin) o = off * r.uni(0.5, 1.0) * (r.coin() ? 1 : -1);
  int nmax = c.thorough() ? 70 : 32;

  ModelSpec ms = genModel(r, ndim, nvar, ncov, L, 1, true);
  auto mplain  = buildModel(ms);
  auto mopt    = buildModel(ms);

  // ---- data bases ---------------------------------------------------------------------------------------------
  // 0: A data (values, hetero, selection, maybe measurement error)    1: B second data set (other size)
  // 2: T targets without any Z variable (some coincide with samples of A)   3: E "empty" Db (see emptyKind)
  std::vector<DbSpec> specs(4);
  int heteroA = (int)(r.next() % 4), selA = (int)(r.next() % 4);
  int heteroB = (int)(r.next() % 4), selB = (int)(r.next() % 3);
  bool verrA  = r.coin(0.35);
  specs[0].pts = genPoints(r, ndim, 3 + (int)(r.next() % (nmax - 2)), L, origin, (int)(r.next() % 3));
  genValues(r, specs[0], nvar, heteroA, L);
  genSel(r, specs[0], selA);
  if (verrA)
  {
    // variance of measurement error: mostly positive, some zero, some undefined, some negative (the last two make
    // the sample invalid for the symmetric matrix: Db::getRanksActive(useVerr=true) rejects "FFFF(value) || value < 0")
    specs[0].verr.assign(nvar, std::vector<double>(specs[0].pts.n));
    for (auto& col : specs[0].verr)
      for (auto& v : col)
      {
        double u = r.u01();
        v        = u < 0.7 ? r.uni(0.01, 0.5) : (u < 0.8 ? 0.0 : (u < 0.9 ? UNDEF : -0.1));
      }
  }
  specs[1].pts = genPoints(r, ndim, 2 + (int)(r.next() % (nmax - 1)), L, origin, (int)(r.next() % 3), 2e-3, &specs[0].pts);
  genValues(r, specs[1], nvar, heteroB, L);
  genSel(r, specs[1], selB);
  {
    Pts t = genPoints(r, ndim, 1 + (int)(r.next() % nmax), L, origin, 0, 2e-3, &specs[0].pts);
    // a few targets coincide exactly with samples of A (zero distance: nugget, C(0))
    int ndup = (int)(r.next() % 3);
    for (int k = 0; k < ndup && k < t.n; k++)
    {
      int j = (int)(r.next() % specs[0].pts.n);
      for (int d = 0; d < ndim; d++) t.x[d][k] = specs[0].pts.x[d][j];
    }
    specs[2].pts  = t;
    specs[2].nvar = 0;
    if (r.coin(0.3)) genSel(r, specs[2], 1);
  }
  int emptyKind = (int)(r.next() % 3); // 0: selection masks everything; 1: every value undefined; 2: both
  {
    int nE       = 2 + (int)(r.next() % nmax);
    specs[3].pts = genPoints(r, ndim, nE, L, origin, 0, 2e-3);
    genValues(r, specs[3], nvar, 0, L);
    if (emptyKind != 0)
      for (auto& col : specs[3].z)
        for (auto& v : col) v = UNDEF;
    if (emptyKind != 1) genSel(r, specs[3], 4);
  }
  std::vector<std::unique_ptr<Db>> dbs;
  for (auto& s : specs) dbs.push_back(buildDb(s));

  c.setSig(fmt("covmat:ndim=%d:nvar=%d:cov=%s:off=%d:hetA=%d:selA=%d:verr=%d:empty=%d", ndim, nvar, ms.sig().c_str(), offk,
               heteroA, selA, (int)verrA, emptyKind));
  c.putn("ndim", ndim);
  c.putn("nvar", nvar);
  c.puts("model", ms.sig());
  c.put("ranges0", jvec(ms.st[0].ranges));
  c.put("angles0", jvec(ms.st[0].angles));
  c.put("nA_nB_nT_nE", jvec(std::vector<int> {specs[0].pts.n, specs[1].pts.n, specs[2].pts.n, specs[3].pts.n}));

  // ---- tolerance ingredients ------------------------------------------------------------------------------------
  double coordMag = 0;
  for (auto& s : specs) coordMag = std::max(coordMag, s.pts.maxabs());
  double minScale = 1e300, S = 0, SU = 0;
  for (int k = 0; k < mplain->getCovaNumber(); k++)
  {
    const CovAniso* cv = mplain->getCova(k);
    double smax        = 0;
    for (int v = 0; v < nvar; v++) smax = std::max(smax, std::fabs(cv->getSill(v, v)));
    // magnitude of the structure at zero distance: the sill for bounded structures, but sill * f(field) for the
    // intrinsic ones (LINEAR: field*pi/2 - h, ...), whose variogram mode is a difference of such large numbers
    double c0 = 0;
    for (int v = 0; v < nvar; v++) c0 = std::max(c0, std::fabs(cv->eval0(v, v)));
    S += std::max(smax, c0);
    SU += std::max(1.0, smax > 0 ? c0 / smax : 1.0); // same magnitude without the sill (CovCalcMode unitary)
    if (cv->getType() == ECov::NUGGET) continue;
    for (int d = 0; d < ndim; d++) minScale = std::min(minScale, cv->getScale(d));
  }
  if (minScale > 1e299) minScale = L;
  double amp = 1.0 + coordMag / minScale;

  // ---- request sequence -------------------------------------------------------------------------------------
  int nreq        = 4 + (int)(r.next() % 4);
  bool prevEmpty  = false; // previous optimised request on 'mopt' returned early (no valid sample)
  bool anyOptim   = false;
  for (int q = 0; q < nreq; q++)
  {
    Req rq;
    rq.sym = r.coin(0.4);
    double u = r.u01();
    rq.d1    = u < 0.45 ? 0 : (u < 0.75 ? 1 : 3);
    if (rq.sym)
      rq.d2 = -1;
    else
    {
      double w = r.u01();
      rq.d2    = w < 0.15 ? -1 : (w < 0.35 ? 0 : (w < 0.5 ? 1 : (w < 0.85 ? 2 : 3)));
    }
    // variable ranks: mostly valid; rarely an invalid rank (documented failure: message + empty matrix)
    rq.ivar0 = r.coin(0.5) ? -1 : (int)(r.next() % nvar);
    rq.jvar0 = r.coin(0.5) ? -1 : (int)(r.next() % nvar);
    if (r.coin(0.04)) rq.ivar0 = nvar;
    int n1 = specs[rq.d1].pts.n, n2 = specs[rq.d2 < 0 ? rq.d1 : rq.d2].pts.n;
    if (r.coin(0.4)) rq.nb1 = subset(r, n1);
    if (!rq.sym && r.coin(0.4)) rq.nb2 = subset(r, n2);
    rq.modeKind = (int)(r.next() % 7);
    if (rq.modeKind == 5 && ncov + (int)(ms.st.size() > (size_t)ncov) < 2) rq.modeKind = 1;
    switch (rq.modeKind)
    {
      case 0: break;
      case 1: rq.mode = std::make_shared<CovCalcMode>(); break;
      case 2: rq.mode = std::make_shared<CovCalcMode>(ECalcMember::LHS, true); break;
      case 3: rq.mode = std::make_shared<CovCalcMode>(ECalcMember::RHS, false, true); break;
      case 4: rq.mode = std::make_shared<CovCalcMode>(ECalcMember::LHS, true, false, 1 + (int)(r.next() % 3)); break;
      case 5:
      {
        rq.mode  = std::make_shared<CovCalcMode>();
        int nst  = (int)ms.st.size();
        if (r.coin())
          rq.mode->setActiveCovListFromOne((int)(r.next() % nst));
        else
        {
          int a = (int)(r.next() % nst);
          rq.mode->setActiveCovListFromInterval(a, std::min(nst, a + 1 + (int)(r.next() % 2)));
        }
        break;
      }
      case 6: rq.mode = std::make_shared<CovCalcMode>(ECalcMember::VAR, true, true); break;
    }
    const CovCalcMode* md = rq.mode.get();
    Db* db1               = dbs[rq.d1].get();
    Db* db2               = rq.d2 < 0 ? nullptr : dbs[rq.d2].get();

    // reference (plain path, pristine model object)
    MatrixRectangular want;
    if (rq.sym)
      want = mplain->evalCovMatrixSymmetric(db1, rq.ivar0, rq.nb1, md);
    else
      want = mplain->evalCovMatrix(db1, db2, rq.ivar0, rq.jvar0, rq.nb1, rq.nb2, md);
    // optimised path
    MatrixRectangular got;
    std::string thrown;
    try
    {
      if (rq.sym)
        got = mopt->evalCovMatrixSymmetricOptim(db1, rq.ivar0, rq.nb1, md);
      else
        got = mopt->evalCovMatrixOptim(db1, db2, rq.ivar0, rq.jvar0, rq.nb1, rq.nb2, md);
    }
    catch (const std::exception& e)
    {
      // recorded below as a failure of this request (the reference path did not throw on the same arguments);
      // caught so that the rest of the sequence is still observed
      thrown = e.what();
    }

    bool staleState = false;
    for (int k = 0; k < mopt->getCovaNumber(); k++)
      if (mopt->getCova(k)->isOptimizationInitialized()) staleState = true;
    if (staleState) c.probe("optim-state-left-initialised");

    std::string kind = rq.sym ? "sym" : "rect";
    std::string hist = !anyOptim ? "first" : (prevEmpty ? "after-empty" : "after-ok");
    // one key per root cause: (a) stale state after an empty request (fixed in /repo 03007d492; the class keeps its key),
    // (b) CovCalcMode active-structure list ignored by both optimised builders (open), else (kind, mode, history)
    std::string key  = rq.modeKind == 5 ? std::string("C04:covopt:active-cov-list-ignored")
                                        : (prevEmpty ? std::string("C04:covopt:stale-after-empty-request")
                                                     : "C04:covopt:" + kind + ":mode=" + MODEN[rq.modeKind] + ":hist=" + hist);
    std::string what = fmt("req#%d %s db1=%d(n=%d) db2=%d ivar0=%d jvar0=%d nb1=%s nb2=%s mode=%s hist=%s staleAfter=%d", q,
                           kind.c_str(), rq.d1, n1, rq.d2, rq.ivar0, rq.jvar0, vi(rq.nb1).c_str(), vi(rq.nb2).c_str(),
                           MODEN[rq.modeKind], hist.c_str(), (int)staleState);
    // separate oracle names for the two classes with a known cause, so that the calibration numbers (max err/tol) of
    // the healthy classes stay readable in the evidence
    std::string oname = rq.modeKind == 5 ? std::string("covopt-active-list")
                                         : (prevEmpty ? std::string("covopt-after-empty") : std::string("covopt-") + kind);
    bool isEmpty      = (want.getNRows() == 0 || want.getNCols() == 0);

    if (!thrown.empty())
    {
      c.check(oname, key + ":exception", false, 1, 0, what + " optimised path threw: " + thrown);
      // the object is in an unknown state now: rebuild it
      mopt = buildModel(ms);
      anyOptim = false;
      prevEmpty = false;
      continue;
    }
    else if (got.getNRows() != want.getNRows() || got.getNCols() != want.getNCols())
    {
      c.check(oname, key + ":shape", false, 1, 0,
              what + fmt(" shape got %dx%d want %dx%d", got.getNRows(), got.getNCols(), want.getNRows(), want.getNCols()));
    }
    else if (isEmpty)
    {
      c.truth("covopt-empty", key, true, what);
    }
    else
    {
      double maxabs = 0, maxerr = 0;
      int wi = -1, wj = -1;
      bool nan = false;
      for (int i = 0; i < want.getNRows(); i++)
        for (int j = 0; j < want.getNCols(); j++)
        {
          double a = got.getValue(i, j), b = want.getValue(i, j);
          maxabs = std::max(maxabs, std::fabs(b));
          if (std::isnan(a) != std::isnan(b)) nan = true;
          double e = std::fabs(a - b);
          if (e > maxerr) { maxerr = e; wi = i; wj = j; }
        }
      double tol = 1e3 * EPS * (S + maxabs) * amp;
      if (rq.modeKind == 3 || rq.modeKind == 6) tol = 1e3 * EPS * (SU + maxabs) * amp; // unitary: sills are 1
      bool ok = !nan && maxerr <= tol;
      c.check(oname, key, ok, nan ? INFINITY : maxerr, tol,
              ok ? what
                 : what + fmt(" worst (%d,%d) got=%.17g want=%.17g of %dx%d", wi, wj, wi >= 0 ? got.getValue(wi, wj) : 0.,
                              wi >= 0 ? want.getValue(wi, wj) : 0., want.getNRows(), want.getNCols()));
      if (rq.sym)
      {
        // both symmetric builders only fill one triangle and rely on the storage: check the returned object is symmetric
        double asym = 0;
        for (int i = 0; i < got.getNRows(); i++)
          for (int j = 0; j < i; j++) asym = std::max(asym, std::fabs(got.getValue(i, j) - got.getValue(j, i)));
        c.check("covopt-sym-symmetry", "C04:covopt:sym:asymmetric", asym == 0, asym, 0, what);
      }
      if (prevEmpty) c.probe("request-after-empty");
      if (rq.modeKind == 5) c.probe("mode-active-list");
      if (!specs[rq.d1].sel.empty()) c.probe("db1-selection");
      if (rq.d1 == 0 && heteroA) c.probe("db1-hetero");
      if (rq.sym && rq.d1 == 0 && verrA) c.probe("sym-verr");
    }

    anyOptim = true;
    // an invalid variable rank returns before any pre-processing: it neither creates nor clears the condition
    if (rq.ivar0 < nvar) prevEmpty = (got.getNRows() == 0 || got.getNCols() == 0);

    // occasionally: the PLAIN entry points, called on the object that has just served optimised requests, must still
    // give the answer of the pristine object (fixed probe request: A x T, all variables, no mode; or A symmetric)
    if (r.coin(0.35))
    {
      bool psym = r.coin(0.3);
      MatrixRectangular w2, p2;
      if (psym)
      {
        w2 = mplain->evalCovMatrixSymmetric(dbs[0].get());
        p2 = mopt->evalCovMatrixSymmetric(dbs[0].get());
      }
      else
      {
        w2 = mplain->evalCovMatrix(dbs[0].get(), dbs[2].get());
        p2 = mopt->evalCovMatrix(dbs[0].get(), dbs[2].get());
      }
      std::string on = prevEmpty ? "covplain-after-empty-optim" : "covplain-after-optim";
      std::string k2 = prevEmpty ? "C04:covplain:stale-after-empty-request"
                                 : std::string("C04:covplain:after-optimised-request:") + (psym ? "sym" : "rect");
      if (p2.getNRows() != w2.getNRows() || p2.getNCols() != w2.getNCols())
        c.check(on, k2 + ":shape", false, 1, 0, what);
      else if (w2.getNRows() > 0)
      {
        double maxerr = 0;
        for (int i = 0; i < w2.getNRows(); i++)
          for (int j = 0; j < w2.getNCols(); j++) maxerr = std::max(maxerr, std::fabs(p2.getValue(i, j) - w2.getValue(i, j)));
        // same code, same numbers, same order: identical unless the object carries state from the optimised request
        c.check(on, k2, maxerr == 0, maxerr, 0, "plain A x T probe after: " + what);
      }
    }
  }
}

int main(int argc, char** argv) { return run_main(argc, argv, "C04", run_case); }
