// C19 — root-cause keys the harness (harness/c19_atomic.cpp, emitDiff) can emit for the OPEN known findings; cause,
// file:line and reproducer of each are in reports/C19_open_findings.json. Documentation only: nothing includes this file.
// Anything that does not match one of these narrow rules keeps a fine-grained key C19:<calculator>:<kind>:<db>-<what>.
//   C19:D2:info-expansion-left-in-dbin               F / NOSTAT columns migrated into the input Db are never removed
//   C19:D4:anam-transform-columns-outside-bookkeeping CalcAnamTransform output columns survive a failure
//   C19:D5:anam-named-transform-sets-Z-before-running AAnam::rawToGaussian/gaussianToRaw/normalScore change Z roles, then fail
//   C19:D7:preexisting-SIMU-role-lost                 a column that had locator SIMU loses it (simulation calculators)
//   C19:D8:xvalid-varz-named-after-estimate           xvalid names the varz column after the estimate column
//   C19:D9:postprocess-failure:output-roles-cleared   failpoint calc.after_postprocess: roles taken by the naming convention stay taken
//   C19:D10:simpgs-working-columns-left-on-error      simpgs error exit keeps its working columns
//   C19:D12:dgm-failure-leaves-X-roles-moved          DGM failure: X roles not given back (input Db left without coordinates)
// plus the driver-made crash keys of the abort-prone invalid-argument variants (AVOID_* switches in the harness).
// Fixed since the first round (silent now): D1 krigtest, D3 temporaries not rolled back, D6 simfft nbsimu, D11 centring
// ignoring a failed creation, X3 IMAGE neighbourhood, X5/X6 Bayesian pre-calculations.
#pragma once
