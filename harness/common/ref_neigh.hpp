// ref_neigh.hpp — the DEFINITION of the moving neighbourhood and brute-force k nearest neighbours (C06).
//
// Nothing in here calls gstlearn. Everything is written from the property statement:
//
//   "the moving neighbourhood is exactly the set defined by its parameters: active, defined samples whose
//    anisotropic distance to the target is within the radius, passing every additional pair checker, excluding the
//    target itself (or its fold) in cross-validation, kept closest-first within each angular sector up to the
//    per-sector quota and overall up to nmaxi by cycling over the sectors (the nmaxi closest when there is a single
//    sector), and empty when fewer than nmini qualify."
//
// Calibrated readings (DESIGN §6 C06, recorded in the check's `rule`):
//   * anisotropic distance from the USER-FACING parameters: the search ellipsoid has semi-axes radius*coeff_k; its
//     axes are the coordinate axes turned by the angles (degrees) as documented in GeometryHelper.cpp
//     ("alpha angle / oz, beta angle / oy', gamma angle / ox''", successive right-handed rotations; in 2-D the first
//     axis points along (cos a, sin a));  dist = sqrt( sum_k ((P-T).u_k / coeff_k)^2 )  <=  radius;
//   * per-sector quota only when nsect > 1 (NeighMoving::getFlagSector: "ndim > 1 && nsect > 1") and nsmax > 0;
//   * "fewer than nmini qualify" = fewer than nmini samples satisfy the membership conditions (before quotas);
//   * sector index = floor(nsect * angle / 2pi), angle in [0,2pi) of the increment handed to the sector rule
//     (NeighMoving::_movingSectorDefine: "dx increment along X, dy increment along Y"); which increment that is
//     (frame, sign) is a parameter here because the statement does not fix it.
#pragma once
#include <algorithm>
#include <cmath>
#include <vector>

namespace refn
{
typedef long double LD;
static const LD PI_L = 3.14159265358979323846264338327950288L;

struct Sample
{
  std::vector<double> x; // coordinates
  bool active  = true;   // selection
  bool defined = true;   // at least one variable defined
  double code  = 0;      // ELoc::C (k-fold / code checker)
  double date  = 0;      // ELoc::DATE
};

struct Search
{
  int ndim      = 2;
  double radius = 1;
  std::vector<double> coeffs; // empty: isotropic
  std::vector<double> angles; // degrees, empty: no rotation
  int nmini = 1, nmaxi = 10, nsect = 1, nsmax = -1; // nsmax <= 0: no per-sector quota
  // extra pair checkers
  bool useBench = false;  double benchWidth = 0;            // |x_last(T) - x_last(P)| <= width
  int codeOpt = 0;        double codeTol = 0;               // 1: |code(T)-code(P)| <= tol ; 2: codes differ
  bool useDate = false;   double dateMin = 0, dateMax = 0;  // dateMin <= date(P) - date(T) < dateMax
  // faults (2-D): polylines; a pair is rejected when the segment target-sample crosses a fault segment
  std::vector<std::vector<std::pair<double, double>>> faults;
  // cross-validation
  int xvalid = 0; // 0 none, 1 leave-one-out (exclude the sample that IS the target), 2 k-fold (exclude same code)
  // sector frame: 0 geographic increments, 1 increments in the ellipsoid axes, 2 ... divided by the coefficients
  int sectFrame = 0;
  int sectSign  = -1; // -1: increment = T - P (what the library hands to its sector rule), +1: P - T
  // NOT part of the definition (always -1 there): number of leading coordinates entering the distance; used by the
  // harness only to LABEL a failure whose root cause is a truncated distance
  int labelDistDims = -1;
};

// axes[k] = unit vector of the k-th ellipsoid axis
inline std::vector<std::vector<LD>> axes(const Search& s)
{
  int nd = s.ndim;
  std::vector<std::vector<LD>> u(nd, std::vector<LD>(nd, 0.0L));
  for (int i = 0; i < nd; i++) u[i][i] = 1;
  if (s.angles.empty()) return u;
  auto ang = [&](int i) { return i < (int)s.angles.size() ? (LD)s.angles[i] * PI_L / 180.0L : 0.0L; };
  if (nd == 2)
  {
    LD c = cosl(ang(0)), sn = sinl(ang(0));
    u[0] = {c, sn};
    u[1] = {-sn, c};
  }
  else if (nd == 3)
  {
    // M = Rz(a) * Ry(b) * Rx(g) (right-handed elementary rotations); columns of M are the turned axes
    LD a = ang(0), b = ang(1), g = ang(2);
    LD Rz[3][3] = {{cosl(a), -sinl(a), 0}, {sinl(a), cosl(a), 0}, {0, 0, 1}};
    LD Ry[3][3] = {{cosl(b), 0, sinl(b)}, {0, 1, 0}, {-sinl(b), 0, cosl(b)}};
    LD Rx[3][3] = {{1, 0, 0}, {0, cosl(g), -sinl(g)}, {0, sinl(g), cosl(g)}};
    LD A[3][3], M[3][3];
    for (int i = 0; i < 3; i++)
      for (int j = 0; j < 3; j++)
      {
        A[i][j] = 0;
        for (int k = 0; k < 3; k++) A[i][j] += Rz[i][k] * Ry[k][j];
      }
    for (int i = 0; i < 3; i++)
      for (int j = 0; j < 3; j++)
      {
        M[i][j] = 0;
        for (int k = 0; k < 3; k++) M[i][j] += A[i][k] * Rx[k][j];
      }
    for (int k = 0; k < 3; k++)
      for (int i = 0; i < 3; i++) u[k][i] = M[i][k];
  }
  return u;
}

struct Cand
{
  int idx;
  LD dist;
  LD angle; // sector angle in [0, 2pi)
  int sect;
};

struct Result
{
  std::vector<int> sel;       // selected sample ranks, ascending
  std::vector<Cand> cands;    // all qualifying samples, closest first
  std::vector<int> perSectKept; // number kept per sector
  std::vector<int> perSectCand; // number qualifying per sector (before quotas)
  std::vector<int> perSectQuota; // number left per sector after the per-sector quota, before the nmaxi cycling
  // ambiguity diagnostics (relative to radius)
  LD minGap      = 1e30L; // smallest difference between two candidate distances (incl. to the radius), / radius
  LD minAngGap   = 1e30L; // smallest angular distance of a candidate to a sector boundary (radians)
  LD minFaultGap = 1e30L; // smallest normalised orientation determinant met in the fault tests (0 = degenerate)
  bool quotaBites = false; // some candidate dropped by nsmax or nmaxi
  int nFaultSplit = 0;     // samples rejected by the fault checker
  bool partialRound = false; // the nmaxi cycling stopped in the middle of a round
};

inline LD euclid(const std::vector<double>& a, const std::vector<double>& b)
{
  LD s = 0;
  for (size_t i = 0; i < a.size(); i++) s += ((LD)a[i] - (LD)b[i]) * ((LD)a[i] - (LD)b[i]);
  return sqrtl(s);
}

// proper crossing of segments [a,b] and [c,d] by orientation tests; gap = smallest |orientation| / (product of lengths)
inline bool segCross(LD ax, LD ay, LD bx, LD by, LD cx, LD cy, LD dx, LD dy, LD& gap)
{
  auto orient = [](LD px, LD py, LD qx, LD qy, LD rx, LD ry) { return (qx - px) * (ry - py) - (qy - py) * (rx - px); };
  LD l1 = sqrtl((bx - ax) * (bx - ax) + (by - ay) * (by - ay)), l2 = sqrtl((dx - cx) * (dx - cx) + (dy - cy) * (dy - cy));
  LD sc = l1 * l2 + 1e-300L;
  LD o1 = orient(ax, ay, bx, by, cx, cy) / sc, o2 = orient(ax, ay, bx, by, dx, dy) / sc;
  LD o3 = orient(cx, cy, dx, dy, ax, ay) / sc, o4 = orient(cx, cy, dx, dy, bx, by) / sc;
  bool straddle1 = (o1 > 0) != (o2 > 0), straddle2 = (o3 > 0) != (o4 > 0);
  // only the determinants that decide the answer matter for the ambiguity measure
  if (straddle1 && straddle2) gap = std::min(std::min(fabsl(o1), fabsl(o2)), std::min(fabsl(o3), fabsl(o4)));
  else if (!straddle1 && !straddle2) gap = std::max(std::min(fabsl(o1), fabsl(o2)), std::min(fabsl(o3), fabsl(o4)));
  else if (!straddle1) gap = std::min(fabsl(o1), fabsl(o2));
  else gap = std::min(fabsl(o3), fabsl(o4));
  return straddle1 && straddle2;
}

// target given by coordinates (+ code/date); itarget = rank of the target in the data set for xvalid==1 (-1 if none)
inline Result moving(const std::vector<Sample>& data, const Sample& tgt, int itarget, const Search& s)
{
  Result r;
  int nd   = s.ndim;
  auto u   = axes(s);
  bool sectors = (s.nsect > 1 && nd > 1);
  int nsect    = sectors ? s.nsect : 1;
  r.perSectKept.assign(nsect, 0);
  r.perSectCand.assign(nsect, 0);
  r.perSectQuota.assign(nsect, 0);

  for (int i = 0; i < (int)data.size(); i++)
  {
    const Sample& p = data[i];
    if (!p.active || !p.defined) continue;
    if (s.xvalid == 1 && i == itarget) continue;
    if (s.xvalid == 2 && p.code == tgt.code) continue;
    if (s.useBench && fabsl((LD)tgt.x[nd - 1] - (LD)p.x[nd - 1]) > (LD)s.benchWidth) continue;
    if (s.codeOpt == 1 && fabsl((LD)tgt.code - (LD)p.code) > (LD)s.codeTol) continue;
    if (s.codeOpt == 2 && tgt.code == p.code) continue;
    if (s.useDate)
    {
      LD delta = (LD)p.date - (LD)tgt.date;
      if (delta < s.dateMin || delta >= s.dateMax) continue;
    }
    if (!s.faults.empty())
    {
      bool split = false;
      for (auto& f : s.faults)
        for (size_t q = 1; q < f.size(); q++)
        {
          LD gap;
          if (segCross(tgt.x[0], tgt.x[1], p.x[0], p.x[1], f[q - 1].first, f[q - 1].second, f[q].first, f[q].second, gap))
            split = true;
          // a sample sitting on the target gives a zero-length segment: never split, never ambiguous
          if (!(tgt.x[0] == p.x[0] && tgt.x[1] == p.x[1])) r.minFaultGap = std::min(r.minFaultGap, gap);
        }
      if (split) { r.nFaultSplit++; continue; }
    }
    std::vector<LD> d(nd), comp(nd);
    for (int k = 0; k < nd; k++) d[k] = (LD)p.x[k] - (LD)tgt.x[k];
    LD d2 = 0;
    for (int k = 0; k < nd; k++)
    {
      comp[k] = 0;
      for (int j = 0; j < nd; j++) comp[k] += d[j] * u[k][j];
      LD c = s.coeffs.empty() ? 1.0L : (LD)s.coeffs[k];
      if (s.labelDistDims >= 0 && k >= s.labelDistDims) continue;
      d2 += (comp[k] / c) * (comp[k] / c);
    }
    LD dist = sqrtl(d2);
    r.minGap = std::min(r.minGap, fabsl(dist - (LD)s.radius) / (LD)s.radius);
    if (dist > s.radius) continue;
    Cand c;
    c.idx   = i;
    c.dist  = dist;
    c.angle = 0;
    c.sect  = 0;
    if (sectors)
    {
      LD ax, ay;
      if (s.sectFrame == 0) { ax = d[0]; ay = d[1]; }
      else if (s.sectFrame == 1) { ax = comp[0]; ay = comp[1]; }
      else
      {
        ax = comp[0] / (s.coeffs.empty() ? 1.0L : (LD)s.coeffs[0]);
        ay = comp[1] / (s.coeffs.empty() ? 1.0L : (LD)s.coeffs[1]);
      }
      ax *= s.sectSign;
      ay *= s.sectSign;
      LD a = atan2l(ay, ax);
      if (a < 0) a += 2 * PI_L;
      if (a >= 2 * PI_L) a = 0;
      c.angle = a;
      LD w    = 2 * PI_L / nsect;
      c.sect  = std::min(nsect - 1, (int)floorl(a / w));
      LD rem  = a - c.sect * w;
      LD gap  = std::min(rem, w - rem);
      if (ax == 0 && ay == 0) gap = 0; // direction undefined
      r.minAngGap = std::min(r.minAngGap, gap);
    }
    r.cands.push_back(c);
  }
  std::sort(r.cands.begin(), r.cands.end(), [](const Cand& a, const Cand& b) { return a.dist < b.dist; });
  for (size_t i = 1; i < r.cands.size(); i++)
    r.minGap = std::min(r.minGap, (r.cands[i].dist - r.cands[i - 1].dist) / (LD)s.radius);
  for (auto& c : r.cands) r.perSectCand[c.sect]++;

  // "empty when fewer than nmini qualify"
  if ((int)r.cands.size() < s.nmini) return r;

  // closest-first within each sector up to the per-sector quota
  std::vector<std::vector<int>> lists(nsect);
  for (auto& c : r.cands)
  {
    if (sectors && s.nsmax > 0 && (int)lists[c.sect].size() >= s.nsmax) { r.quotaBites = true; continue; }
    lists[c.sect].push_back(c.idx);
  }
  size_t total = 0;
  for (auto& l : lists) total += l.size();
  for (int k = 0; k < nsect; k++) r.perSectQuota[k] = (int)lists[k].size();
  if (s.nmaxi <= 0 || (int)total <= s.nmaxi)
  {
    for (int k = 0; k < nsect; k++)
    {
      r.perSectKept[k] = (int)lists[k].size();
      for (int i : lists[k]) r.sel.push_back(i);
    }
  }
  else
  {
    // overall up to nmaxi by cycling over the sectors (the nmaxi closest when there is a single sector)
    r.quotaBites = true;
    int count    = 0;
    for (size_t round = 0; count < s.nmaxi; round++)
    {
      for (int k = 0; k < nsect && count < s.nmaxi; k++)
      {
        if (lists[k].size() <= round) continue;
        r.sel.push_back(lists[k][round]);
        r.perSectKept[k]++;
        count++;
      }
      if (count >= s.nmaxi)
      {
        // did the round end exactly at its end? (then the result does not depend on where the cycle starts)
        bool more = false;
        for (int k = 0; k < nsect; k++)
          if (lists[k].size() > round && r.perSectKept[k] <= (int)round) more = true;
        r.partialRound = more;
      }
    }
  }
  std::sort(r.sel.begin(), r.sel.end());
  return r;
}

// ---- brute-force k nearest neighbours ---------------------------------------------------------------------------
struct KnnRef
{
  std::vector<int> idx;   // sorted by distance
  std::vector<LD> dist;   // all n distances sorted
};
inline KnnRef knn(const std::vector<std::vector<double>>& pts, const std::vector<double>& q, int metric /*1 L2, 2 L1*/)
{
  int n = (int)pts.size();
  std::vector<std::pair<LD, int>> v(n);
  for (int i = 0; i < n; i++)
  {
    LD s = 0;
    for (size_t k = 0; k < q.size(); k++)
    {
      LD d = (LD)pts[i][k] - (LD)q[k];
      s += metric == 2 ? fabsl(d) : d * d;
    }
    v[i] = {metric == 2 ? s : sqrtl(s), i};
  }
  std::sort(v.begin(), v.end());
  KnnRef r;
  for (auto& p : v) { r.idx.push_back(p.second); r.dist.push_back(p.first); }
  return r;
}
} // namespace refn
