// C10 part 2: KrigingCalcul updated incrementally vs a freshly built twin with the same final content.
//
// KrigingCalcul (include/Estimation/KrigingCalcul.hpp) keeps pointers to the caller's matrices and memoises every
// intermediate result; each setter is documented to "modify the elements linked to ..." and calls resetLinkedTo*().
// History: setters in random order with replacement (each time with NEW content of the same dimensions), getters in
// between. After every getter the same getter is asked from a twin constructed from scratch with the current
// content (setters applied once, in the canonical order of tests/cpp/test_Schur.cpp). Same formulas on the same
// numbers: the answers must agree (tolerance 1e-9 relative: only the association order of cached products may differ).
//
// Conventions respected (read in KrigingCalcul.cpp, quoted):
//  * "If one element is not provided, its address (if already defined) is kept unchanged" -> a nullptr argument
//    keeps the previous one (except X/X0/Sigma0 in setLHS/setRHS where nullptr means "none").
//  * dimensions cannot change during the life of an object (_checkDimension*): replacements keep the dimensions.
//  * setXvalidUnique() computes its right-hand side immediately from the current Sigma/X ("_patchRHSForXvalidUnique"):
//    it is treated as a command; after it, a change of LHS is always followed by a new setXvalidUnique before any
//    getter, and user setRHS / ColCok / Bayes are not mixed with it.
//  * Means are always provided (SK adds them); Z is "centered by the drift beforehand" (free numbers here).
#pragma once
#include "common/vh.hpp"
#include "common/c10_util.hpp"
#include "Estimation/KrigingCalcul.hpp"
#include "Matrix/MatrixSquareSymmetric.hpp"
#include "Matrix/MatrixRectangular.hpp"
#include <deque>
#include <memory>

namespace c10k
{
using vh::Rng;
using vh::Ctx;
using vh::fmt;

struct Store
{
  // every object ever handed to a KrigingCalcul stays alive until the end of the case
  std::deque<std::unique_ptr<VectorDouble>> vd;
  std::deque<std::unique_ptr<VectorInt>> vi;
  std::deque<std::unique_ptr<MatrixSquareSymmetric>> ms;
  std::deque<std::unique_ptr<MatrixRectangular>> mr;
  Rng& r;
  Store(Rng& r_) : r(r_) {}
  const VectorDouble* vec(int n, double lo = -2, double hi = 2)
  {
    auto v = std::make_unique<VectorDouble>(n);
    for (int i = 0; i < n; i++) (*v)[i] = r.uni(lo, hi);
    vd.push_back(std::move(v));
    return vd.back().get();
  }
  const MatrixSquareSymmetric* spd(int n, double diag)
  {
    // A A^T / n + diag * I : well conditioned
    std::vector<double> A(n * n);
    for (auto& x : A) x = r.uni(-1, 1);
    auto m = std::make_unique<MatrixSquareSymmetric>(n);
    for (int i = 0; i < n; i++)
      for (int j = 0; j <= i; j++)
      {
        double s = 0;
        for (int k = 0; k < n; k++) s += A[i * n + k] * A[j * n + k];
        m->setValue(i, j, s / n + (i == j ? diag : 0.));
      }
    ms.push_back(std::move(m));
    return ms.back().get();
  }
  const MatrixRectangular* rect(int nr, int nc, double lo = -1, double hi = 1, bool firstColOnes = false)
  {
    auto m = std::make_unique<MatrixRectangular>(nr, nc);
    for (int i = 0; i < nr; i++)
      for (int j = 0; j < nc; j++) m->setValue(i, j, (firstColOnes && j == 0) ? 1. : r.uni(lo, hi));
    mr.push_back(std::move(m));
    return mr.back().get();
  }
  const VectorInt* ranks(int nmax, int k)
  {
    std::vector<int> p = r.perm(nmax);
    p.resize(k);
    std::sort(p.begin(), p.end());
    auto v = std::make_unique<VectorInt>(p);
    vi.push_back(std::move(v));
    return vi.back().get();
  }
};

struct Content
{
  const VectorDouble* Z = nullptr;
  const VectorDouble* Means = nullptr;
  const MatrixSquareSymmetric* Sigma = nullptr;
  const MatrixRectangular* X = nullptr;
  const MatrixRectangular* Sigma0 = nullptr;
  const MatrixRectangular* X0 = nullptr;
  const MatrixSquareSymmetric* Sigma00 = nullptr;
  const VectorDouble* PriorMean = nullptr;
  const MatrixSquareSymmetric* PriorCov = nullptr;
  const VectorDouble* Zp = nullptr;
  const VectorInt* rankColCok = nullptr;
  const VectorInt* xvEqs = nullptr;
  const VectorInt* xvVars = nullptr;
  bool hasRHS = false, hasVar = false, bayes = false, colcok = false, xvalid = false;
};

struct Answer
{
  bool ok = false;       // getter delivered something (non-empty vector / non-null matrix)
  std::vector<double> v; // flattened values (matrices by column, preceded by their shape)
};
static const char* const GETTERS[] = {"getEstimation", "getStdv", "getVarianceZstar", "getPostMean", "getStdvMat", "getVarianceZstarMat",
                                      "getPostCov", "getLambda0", "getMu", "getY0", "getX0p", "getY0p", "getSigma0p"};
static const int NGETTERS = 13;

inline Answer fromVec(const VectorDouble& x)
{
  Answer a;
  a.ok = !x.empty();
  a.v  = x.getVector();
  return a;
}
inline Answer fromMat(const AMatrix* m)
{
  Answer a;
  a.ok = (m != nullptr);
  if (m == nullptr) return a;
  a.v.push_back(m->getNRows());
  a.v.push_back(m->getNCols());
  for (int j = 0; j < m->getNCols(); j++)
    for (int i = 0; i < m->getNRows(); i++) a.v.push_back(m->getValue(i, j, false));
  return a;
}
inline Answer ask(KrigingCalcul& k, int g)
{
  switch (g)
  {
    case 0: return fromVec(k.getEstimation());
    case 1: return fromVec(k.getStdv());
    case 2: return fromVec(k.getVarianceZstar());
    case 3: return fromVec(k.getPostMean());
    case 4: return fromMat(k.getStdvMat());
    case 5: return fromMat(k.getVarianceZstarMat());
    case 6: return fromMat(k.getPostCov());
    case 7: return fromMat(k.getLambda0());
    case 8: return fromMat(k.getMu());
    case 9: return fromMat(k.getY0());
    case 10: return fromMat(k.getX0p());
    case 11: return fromMat(k.getY0p());
    default: return fromMat(k.getSigma0p());
  }
}

// twin: constructed from scratch with the current content, setters once, canonical order
inline void applyAll(KrigingCalcul& t, const Content& c)
{
  (void)t.setData(c.Z, c.Means);
  (void)t.setLHS(c.Sigma, c.X);
  if (c.xvalid)
  {
    if (c.hasVar) (void)t.setVar(c.Sigma00);
    (void)t.setXvalidUnique(c.xvEqs, c.xvVars);
    return;
  }
  if (c.hasRHS) (void)t.setRHS(c.Sigma0, c.X0);
  if (c.hasVar) (void)t.setVar(c.Sigma00);
  if (c.bayes) (void)t.setBayes(c.PriorMean, c.PriorCov);
  if (c.colcok) (void)t.setColCokUnique(c.Zp, c.rankColCok);
}

inline void run(Rng& r, Ctx& c)
{
  Store S(r);
  int neq   = r.irange(3, 9);
  int nbfl  = r.coin(0.35) ? 0 : r.irange(1, 2);
  int nrhs  = r.irange(1, 3);
  bool dual = r.coin(0.12);
  // modes are drawn per history so that every mode is exercised deeply
  bool allowBayes  = nbfl > 0 && !dual && r.coin(0.35);
  bool allowColCok = nrhs >= 2 && !dual && !allowBayes && r.coin(0.5);
  bool allowXvalid = !allowBayes && !allowColCok && !dual && r.coin(0.35);
  c.setSig(fmt("inc:kcalc:nbfl=%d:nrhs=%d:dual=%d:bayes=%d:colcok=%d:xvalid=%d", nbfl > 0, nrhs > 1, dual, allowBayes, allowColCok, allowXvalid));

  Content cur;
  KrigingCalcul K(dual);
  std::string hist;
  std::string lastSetter = "ctor";
  std::string lastFailedGetter;
  auto note = [&](const std::string& s) { if (hist.size() < 900) hist += (hist.empty() ? "" : ",") + s; };

  auto doSetData = [&](bool withMeans) {
    cur.Z = S.vec(neq);
    const VectorDouble* m = nullptr;
    if (withMeans || cur.Means == nullptr) { m = S.vec(nrhs, -1, 1); cur.Means = m; }
    int rc = K.setData(cur.Z, m);
    note(m ? "setData(Z,Means)" : "setData(Z)");
    lastSetter = "setData";
    return rc;
  };
  auto doSetLHS = [&]() {
    cur.Sigma = S.spd(neq, 1.0);
    // a null X means "no drift" (SK) as documented in setLHS: the content then has no X
    if (nbfl > 0 && !r.coin(0.15)) cur.X = S.rect(neq, nbfl, -1, 1, true);
    else cur.X = nullptr;
    int rc = K.setLHS(cur.Sigma, cur.X);
    note(cur.X ? "setLHS(Sigma,X)" : "setLHS(Sigma)");
    lastSetter = "setLHS";
    return rc;
  };
  auto doSetRHS = [&]() {
    cur.Sigma0 = S.rect(neq, nrhs, -0.6, 0.6);
    cur.X0     = nbfl > 0 ? S.rect(nrhs, nbfl, -1, 1, true) : nullptr;
    cur.hasRHS = true;
    int rc     = K.setRHS(cur.Sigma0, cur.X0);
    note("setRHS");
    lastSetter = "setRHS";
    return rc;
  };
  auto doSetVar = [&]() {
    cur.Sigma00 = S.spd(nrhs, 2.0);
    cur.hasVar  = true;
    int rc      = K.setVar(cur.Sigma00);
    note("setVar");
    lastSetter = "setVar";
    return rc;
  };
  auto doSetBayes = [&](bool on) {
    if (on)
    {
      cur.PriorMean = S.vec(nbfl, -1, 1);
      cur.PriorCov  = S.spd(nbfl, 0.5);
      cur.bayes     = true;
      note("setBayes");
      lastSetter = "setBayes";
      return K.setBayes(cur.PriorMean, cur.PriorCov);
    }
    cur.bayes = false;
    note("setBayes(off)");
    lastSetter = "setBayes(off)";
    return K.setBayes(nullptr, nullptr);
  };
  auto doSetColCok = [&](bool on) {
    if (on)
    {
      cur.Zp         = S.vec(nrhs, -1, 1);
      cur.rankColCok = S.ranks(nrhs, r.irange(1, nrhs - 1));
      cur.colcok     = true;
      note("setColCokUnique");
      lastSetter = "setColCokUnique";
      return K.setColCokUnique(cur.Zp, cur.rankColCok);
    }
    cur.colcok = false;
    note("setColCokUnique(off)");
    lastSetter = "setColCokUnique(off)";
    return K.setColCokUnique(nullptr, nullptr);
  };
  auto doSetXvalid = [&]() {
    int nx     = r.irange(1, std::min(2, neq - 2));
    cur.xvEqs  = S.ranks(neq, nx);
    std::vector<int> vars(nx);
    for (auto& v : vars) v = r.irange(0, nrhs - 1);
    S.vi.push_back(std::make_unique<VectorInt>(vars));
    cur.xvVars = S.vi.back().get();
    cur.xvalid = true;
    note("setXvalidUnique");
    lastSetter = "setXvalidUnique";
    return K.setXvalidUnique(cur.xvEqs, cur.xvVars);
  };

  // initial content (random order of the first setters; Means given once)
  {
    std::vector<int> first = {0, 1, 2, 3};
    r.shuffle(first);
    bool skipOne = r.coin(0.25); // leave one element missing for a while: getters must fail, then work once it is set
    int nset     = skipOne ? 3 : 4;
    for (int q = 0; q < nset; q++)
    {
      int rc = 0;
      if (first[q] == 0) rc = doSetData(true);
      if (first[q] == 1) rc = doSetLHS();
      if (first[q] == 2) rc = doSetRHS();
      if (first[q] == 3) rc = doSetVar();
      c.truth("kcalc-setter", "C10:incremental:KrigingCalcul:valid-setter-refused", rc == 0, hist);
    }
    if (cur.Means == nullptr) { cur.Means = S.vec(nrhs, -1, 1); (void)K.setData(nullptr, cur.Means); note("setData(Means)"); }
    if (cur.Sigma == nullptr || cur.Z == nullptr)
    {
      // Z / Sigma fix the dimensions: set them before anything is asked (a getter on an object without dimensions
      // is outside what the class supports)
      if (cur.Z == nullptr) (void)doSetData(true);
      if (cur.Sigma == nullptr) (void)doSetLHS();
    }
  }

  int nsteps = c.thorough() ? r.irange(15, 60) : r.irange(8, 30);
  for (int st = 0; st < nsteps; st++)
  {
    if (r.coin(0.55))
    {
      // ---- a getter, compared with the twin
      int g = r.irange(0, NGETTERS - 1);
      Answer a = ask(K, g);
      KrigingCalcul T(dual);
      applyAll(T, cur);
      Answer b = ask(T, g);
      std::string gname = GETTERS[g];
      note(gname + (a.ok ? "" : "!"));
      // key: the getter and the last setter before it (the invalidation edge that should have fired)
      std::string key = "C10:incremental:KrigingCalcul:" + gname + ":after:" + lastSetter;
      if (!lastFailedGetter.empty()) key += ":after-failed:" + lastFailedGetter;
      bool same = (a.ok == b.ok) && a.v.size() == b.v.size();
      double err = 0, scale = 1;
      if (same)
        for (size_t i = 0; i < a.v.size(); i++)
        {
          scale = std::max(scale, std::fabs(b.v[i]));
          double e = std::fabs(a.v[i] - b.v[i]);
          if (std::isnan(a.v[i]) != std::isnan(b.v[i])) e = INFINITY;
          else if (std::isnan(a.v[i])) e = 0;
          err = std::max(err, e);
        }
      else err = INFINITY;
      double tol = 1e-9 * scale;
      c.check("kcalc-twin", key, same && err <= tol, err, tol,
              fmt("delivered: incremental=%d fresh=%d size %zu/%zu; history: ", a.ok, b.ok, a.v.size(), b.v.size()) + hist);
      if (a.ok) c.probe(std::string("kcalc-answer:") + gname);
      if (!a.ok && !b.ok) lastFailedGetter = gname; // a legitimately failing request: the next ones must not be affected
      continue;
    }
    // ---- a setter with new content
    int rc = 0;
    bool expectOk = true;
    if (cur.xvalid)
    {
      int w = r.irange(0, 2);
      if (w == 0) rc = doSetData(r.coin(0.3));
      else if (w == 1) rc = doSetXvalid();
      else { rc = doSetLHS(); rc |= doSetXvalid(); }
    }
    else
    {
      int w = r.irange(0, 9);
      if (w == 0 || w == 1) rc = doSetData(r.coin(0.3));
      else if (w == 2 || w == 3) rc = doSetLHS();
      else if (w == 4 || w == 5) rc = doSetRHS();
      else if (w == 6) rc = doSetVar();
      else if (w == 7 && allowBayes) rc = doSetBayes(!(cur.bayes && r.coin(0.3)));
      else if (w == 8 && allowColCok && cur.hasRHS) rc = doSetColCok(!(cur.colcok && r.coin(0.3)));
      else if (w == 9 && allowXvalid && cur.hasVar) rc = doSetXvalid();
      else rc = doSetVar();
    }
    c.truth("kcalc-setter", "C10:incremental:KrigingCalcul:valid-setter-refused:" + lastSetter, (rc == 0) == expectOk, hist);
    lastFailedGetter.clear();
  }
  c.puts("history", hist);
}
} // namespace c10k
