// C10 part 2: KrigingCalcul updated incrementally vs a freshly built twin with the same final content.
//
// KrigingCalcul (include/Estimation/KrigingCalcul.hpp) keeps pointers to the caller's matrices and memoises every
// intermediate result; each setter is documented to "modify the elements linked to ..." and calls resetLinkedTo*().
// History: setters in random order with replacement (each time with NEW content of the same dimensions), getters in
// between. After every getter the same getter is asked from a twin constructed from scratch with the current
// content (setters applied once, in the canonical order of tests/cpp/test_Schur.cpp). Same formulas on the same
// numbers: the answers must agree (tolerance 1e-9 relative: only the association order of cached products may differ).
// A mismatch is delta-debugged to a minimal history; the key names (last setter of the minimal history -> getter).
//
// Conventions respected (read in KrigingCalcul.cpp, quoted):
//  * "If one element is not provided, its address (if already defined) is kept unchanged" -> a nullptr argument
//    keeps the previous one (except X in setLHS and Sigma0/X0 in setRHS where nullptr means "none").
//  * dimensions cannot change during the life of an object (_checkDimension*): replacements keep the dimensions.
//  * setXvalidUnique() computes its right-hand side immediately from the current Sigma/X ("_patchRHSForXvalidUnique"):
//    it is treated as a command; after it, a change of LHS is always followed by a new setXvalidUnique before any
//    getter, and user setRHS / setVar / ColCok / Bayes are not mixed with it.
//  * Means are always provided (SK adds them); Z is "centered by the drift beforehand" (free numbers here).
//  * The Bayesian option needs a drift: in such histories X is always given. getY0()/getY0p() ("debugging
//    functions") dereference X without checking it: only asked when a drift matrix is part of the content.
#pragma once
#include "common/vh.hpp"
#include "common/c10_util.hpp"
#include "Estimation/KrigingCalcul.hpp"
#include "Matrix/MatrixSquareSymmetric.hpp"
#include "Matrix/MatrixRectangular.hpp"
#include <deque>
#include <memory>

namespace c10k
{
using vh::Rng;
using vh::Ctx;
using vh::fmt;

struct Store
{
  // every object ever handed to a KrigingCalcul stays alive until the Store dies
  std::deque<std::unique_ptr<VectorDouble>> vd;
  std::deque<std::unique_ptr<VectorInt>> vi;
  std::deque<std::unique_ptr<MatrixSquareSymmetric>> ms;
  std::deque<std::unique_ptr<MatrixRectangular>> mr;
  const VectorDouble* vec(Rng& r, int n, double lo = -2, double hi = 2)
  {
    auto v = std::make_unique<VectorDouble>(n);
    for (int i = 0; i < n; i++) (*v)[i] = r.uni(lo, hi);
    vd.push_back(std::move(v));
    return vd.back().get();
  }
  const MatrixSquareSymmetric* spd(Rng& r, int n, double diag)
  {
    // A A^T / n + diag * I : well conditioned
    std::vector<double> A(n * n);
    for (auto& x : A) x = r.uni(-1, 1);
    auto m = std::make_unique<MatrixSquareSymmetric>(n);
    for (int i = 0; i < n; i++)
      for (int j = 0; j <= i; j++)
      {
        double s = 0;
        for (int k = 0; k < n; k++) s += A[i * n + k] * A[j * n + k];
        m->setValue(i, j, s / n + (i == j ? diag : 0.));
      }
    ms.push_back(std::move(m));
    return ms.back().get();
  }
  const MatrixRectangular* rect(Rng& r, int nr, int nc, double lo = -1, double hi = 1, bool firstColOnes = false)
  {
    auto m = std::make_unique<MatrixRectangular>(nr, nc);
    for (int i = 0; i < nr; i++)
      for (int j = 0; j < nc; j++) m->setValue(i, j, (firstColOnes && j == 0) ? 1. : r.uni(lo, hi));
    mr.push_back(std::move(m));
    return mr.back().get();
  }
  const VectorInt* ranks(Rng& r, int nmax, int k)
  {
    std::vector<int> p = r.perm(nmax);
    p.resize(k);
    std::sort(p.begin(), p.end());
    vi.push_back(std::make_unique<VectorInt>(p));
    return vi.back().get();
  }
  const VectorInt* ints(const std::vector<int>& p)
  {
    vi.push_back(std::make_unique<VectorInt>(p));
    return vi.back().get();
  }
};

struct Content
{
  const VectorDouble* Z = nullptr;
  const VectorDouble* Means = nullptr;
  const MatrixSquareSymmetric* Sigma = nullptr;
  const MatrixRectangular* X = nullptr;
  const MatrixRectangular* Sigma0 = nullptr;
  const MatrixRectangular* X0 = nullptr;
  const MatrixSquareSymmetric* Sigma00 = nullptr;
  const VectorDouble* PriorMean = nullptr;
  const MatrixSquareSymmetric* PriorCov = nullptr;
  const VectorDouble* Zp = nullptr;
  const VectorInt* rankColCok = nullptr;
  const VectorInt* xvEqs = nullptr;
  const VectorInt* xvVars = nullptr;
  bool hasRHS = false, hasVar = false, bayes = false, colcok = false, xvalid = false;
  bool everHadX = false;
};

struct Answer
{
  bool ok = false;       // getter delivered something (non-empty vector / non-null matrix)
  std::vector<double> v; // flattened values (matrices by column, preceded by their shape)
};
static const char* const GETTERS[] = {"getEstimation", "getStdv", "getVarianceZstar", "getPostMean", "getStdvMat", "getVarianceZstarMat",
                                      "getPostCov", "getLambda0", "getMu", "getY0", "getX0p", "getY0p", "getSigma0p"};
static const int NGETTERS = 13;

inline Answer fromVec(const VectorDouble& x)
{
  Answer a;
  a.ok = !x.empty();
  a.v  = x.getVector();
  return a;
}
inline Answer fromMat(const AMatrix* m)
{
  Answer a;
  a.ok = (m != nullptr);
  if (m == nullptr) return a;
  a.v.push_back(m->getNRows());
  a.v.push_back(m->getNCols());
  for (int j = 0; j < m->getNCols(); j++)
    for (int i = 0; i < m->getNRows(); i++) a.v.push_back(m->getValue(i, j, false));
  return a;
}
inline Answer ask(KrigingCalcul& k, int g)
{
  switch (g)
  {
    case 0: return fromVec(k.getEstimation());
    case 1: return fromVec(k.getStdv());
    case 2: return fromVec(k.getVarianceZstar());
    case 3: return fromVec(k.getPostMean());
    case 4: return fromMat(k.getStdvMat());
    case 5: return fromMat(k.getVarianceZstarMat());
    case 6: return fromMat(k.getPostCov());
    case 7: return fromMat(k.getLambda0());
    case 8: return fromMat(k.getMu());
    case 9: return fromMat(k.getY0());
    case 10: return fromMat(k.getX0p());
    case 11: return fromMat(k.getY0p());
    default: return fromMat(k.getSigma0p());
  }
}

// twin: constructed from scratch with the current content, setters once, canonical order
inline void applyAll(KrigingCalcul& t, const Content& c)
{
  (void)t.setData(c.Z, c.Means);
  (void)t.setLHS(c.Sigma, c.X);
  if (c.xvalid)
  {
    if (c.hasVar) (void)t.setVar(c.Sigma00);
    (void)t.setXvalidUnique(c.xvEqs, c.xvVars);
    return;
  }
  if (c.hasRHS) (void)t.setRHS(c.Sigma0, c.X0);
  if (c.hasVar) (void)t.setVar(c.Sigma00);
  if (c.bayes) (void)t.setBayes(c.PriorMean, c.PriorCov);
  if (c.colcok) (void)t.setColCokUnique(c.Zp, c.rankColCok);
}

enum Kind { SETDATA, SETLHS, SETRHS, SETVAR, SETBAYES, SETCOLCOK, SETXVALID, SETLHS_XVALID, GETTER };
struct Op
{
  int kind;
  uint64_t seed; // content of the new objects
  int arg;       // SETDATA: with Means; SETLHS: with X; SETBAYES/SETCOLCOK: on/off; GETTER: which
};
inline std::string opName(const Op& o)
{
  switch (o.kind)
  {
    case SETDATA: return o.arg ? "setData(Z,Means)" : "setData(Z)";
    case SETLHS: return o.arg ? "setLHS(Sigma,X)" : "setLHS(Sigma,null)";
    case SETRHS: return "setRHS";
    case SETVAR: return "setVar";
    case SETBAYES: return o.arg ? "setBayes" : "setBayes(off)";
    case SETCOLCOK: return o.arg ? "setColCokUnique" : "setColCokUnique(off)";
    case SETXVALID: return "setXvalidUnique";
    case SETLHS_XVALID: return "setLHS+setXvalidUnique";
    default: return GETTERS[o.arg];
  }
}

struct Config
{
  int neq, nbfl, nrhs, ncck = 1;
  bool dual, allowBayes, allowColCok, allowXvalid;
};

struct Outcome
{
  int index = -1; // op index of the first mismatching getter (among those checked), -1: none
  double err = 0, tol = 0;
  bool incOk = false, twinOk = false;
  size_t incN = 0, twinN = 0;
  int setterRefused = -1; // op index of a valid setter that returned non-zero
  long passed       = 0;  // getters compared and found equal
  double maxRatio   = 0;  // max err/tol over the passing comparisons
  long delivered    = 0;  // passing comparisons where both sides delivered a result
  bool colcok = false, xvalid = false, bayes = false; // modes of the content at the mismatching getter
  bool driftRemoved = false;                          // X was given, then removed by setLHS(Sigma, nullptr)
};

// Replays a history on a new object. Ops that are not applicable in the current state are skipped (so that any
// sub-sequence of a valid history is a valid history). Compares every getter whose index >= checkFrom and stops at
// the first mismatch.
inline Outcome replay(const Config& cf, const std::vector<Op>& ops, int checkFrom, std::string* trace = nullptr, bool mark = false)
{
  Store S;
  Content cur;
  KrigingCalcul K(cf.dual);
  Outcome out;
  static const bool TRACE = getenv("C10_TRACE") != nullptr;
  auto tr = [&](const std::string& s) {
    if (mark) c10::progress("t" + s + "\n");
    if (trace && trace->size() < 1200) *trace += (trace->empty() ? "" : ",") + s;
    if (TRACE) fprintf(stderr, "[kcalc] %s\n", s.c_str());
  };
  for (int io = 0; io < (int)ops.size(); io++)
  {
    const Op& o = ops[io];
    if (mark) c10::progress("@" + std::to_string(io) + "\n"); // survives a crash inside this op
    Rng q(o.seed);
    int rc       = 0;
    bool applied = true;
    auto xvalid  = [&]() {
      int nx    = q.irange(1, std::min(2, cf.neq - 2));
      cur.xvEqs = S.ranks(q, cf.neq, nx);
      std::vector<int> vars(nx);
      for (auto& v : vars) v = q.irange(0, cf.nrhs - 1);
      cur.xvVars = S.ints(vars);
      cur.xvalid = true;
      return K.setXvalidUnique(cur.xvEqs, cur.xvVars);
    };
    auto lhs = [&](bool withX) {
      cur.Sigma = S.spd(q, cf.neq, 1.0);
      cur.X     = (cf.nbfl > 0 && (withX || cf.allowBayes)) ? S.rect(q, cf.neq, cf.nbfl, -1, 1, true) : nullptr;
      if (cur.X) cur.everHadX = true;
      return K.setLHS(cur.Sigma, cur.X);
    };
    switch (o.kind)
    {
      case SETDATA:
      {
        cur.Z                 = S.vec(q, cf.neq);
        const VectorDouble* m = nullptr;
        if (o.arg || cur.Means == nullptr) { m = S.vec(q, cf.nrhs, -1, 1); cur.Means = m; }
        rc = K.setData(cur.Z, m);
        break;
      }
      case SETLHS:
        if (cur.xvalid) { applied = false; break; }
        rc = lhs(o.arg != 0);
        break;
      case SETRHS:
        if (cur.xvalid) { applied = false; break; }
        cur.Sigma0 = S.rect(q, cf.neq, cf.nrhs, -0.6, 0.6);
        // drift at target only when there is a drift at data (X0 without X is not a consistent input)
        cur.X0     = (cf.nbfl > 0 && cur.X != nullptr) ? S.rect(q, cf.nrhs, cf.nbfl, -1, 1, true) : nullptr;
        cur.hasRHS = true;
        rc         = K.setRHS(cur.Sigma0, cur.X0);
        break;
      case SETVAR:
        if (cur.xvalid) { applied = false; break; }
        cur.Sigma00 = S.spd(q, cf.nrhs, 2.0);
        cur.hasVar  = true;
        rc          = K.setVar(cur.Sigma00);
        break;
      case SETBAYES:
        if (cur.xvalid || !cf.allowBayes || cur.X == nullptr) { applied = false; break; }
        if (o.arg)
        {
          cur.PriorMean = S.vec(q, cf.nbfl, -1, 1);
          cur.PriorCov  = S.spd(q, cf.nbfl, 0.5);
          cur.bayes     = true;
          rc            = K.setBayes(cur.PriorMean, cur.PriorCov);
        }
        else { cur.bayes = false; rc = K.setBayes(nullptr, nullptr); }
        break;
      case SETCOLCOK:
        if (cur.xvalid || !cf.allowColCok || !cur.hasRHS) { applied = false; break; }
        if (o.arg)
        {
          cur.Zp         = S.vec(q, cf.nrhs, -1, 1);
          // the NUMBER of collocated variables is constant within a history (a change is probed separately in a child:
          // see probeColCokCountChange); their ranks and values change
          cur.rankColCok = S.ranks(q, cf.nrhs, cf.ncck);
          cur.colcok     = true;
          rc             = K.setColCokUnique(cur.Zp, cur.rankColCok);
        }
        else { cur.colcok = false; rc = K.setColCokUnique(nullptr, nullptr); }
        break;
      case SETXVALID:
        // (a drift matrix given earlier and then removed is probed separately: see probeXvalidAfterDriftRemoved)
        if (!cf.allowXvalid || !cur.hasVar || !cur.Z || !cur.Sigma || cur.bayes || cur.colcok || (cur.X == nullptr && cur.everHadX))
        { applied = false; break; }
        rc = xvalid();
        break;
      case SETLHS_XVALID:
        if (!cur.xvalid) { applied = false; break; }
        rc = lhs(cur.X != nullptr);
        rc |= xvalid();
        break;
      case GETTER:
      {
        if (!cur.Z || !cur.Sigma || !cur.Means) { applied = false; break; }
        int g = o.arg;
        if ((g == 9 || g == 11) && cur.X == nullptr) { applied = false; break; }
        if (TRACE) fprintf(stderr, "[kcalc] asking %s\n", GETTERS[g]);
        if (mark) c10::progress(fmt("S%d%d%d%d\n", cur.colcok, cur.xvalid, cur.bayes, (cur.X == nullptr && cur.everHadX)));
        Answer a = ask(K, g);
        if (mark) c10::progress(std::string(a.ok ? "=ok" : "=fail") + "\n");
        tr(std::string(GETTERS[g]) + (a.ok ? "" : "!"));
        if (io < checkFrom) break;
        KrigingCalcul T(cf.dual);
        applyAll(T, cur);
        Answer b   = ask(T, g);
        bool same  = (a.ok == b.ok) && a.v.size() == b.v.size();
        double err = 0, scale = 1;
        if (same)
          for (size_t i = 0; i < a.v.size(); i++)
          {
            scale    = std::max(scale, std::fabs(b.v[i]));
            double e = std::fabs(a.v[i] - b.v[i]);
            if (std::isnan(a.v[i]) != std::isnan(b.v[i])) e = INFINITY;
            else if (std::isnan(a.v[i])) e = 0;
            err = std::max(err, e);
          }
        else err = INFINITY;
        double tol = 1e-9 * scale;
        if (!(err <= tol))
        {
          out.colcok = cur.colcok; out.xvalid = cur.xvalid; out.bayes = cur.bayes; out.driftRemoved = (cur.X == nullptr && cur.everHadX);
          out.index = io; out.err = err; out.tol = tol; out.incOk = a.ok; out.twinOk = b.ok; out.incN = a.v.size(); out.twinN = b.v.size();
          return out;
        }
        out.passed++;
        out.delivered += (a.ok && b.ok);
        out.maxRatio = std::max(out.maxRatio, err / tol);
        break;
      }
    }
    if (o.kind != GETTER)
    {
      if (applied) tr(opName(o));
      if (applied && rc != 0 && out.setterRefused < 0) out.setterRefused = io;
    }
  }
  return out;
}

// delta debugging (ddmin): smallest sub-sequence of ops[0..last) which, followed by ops[last], still mismatches there
// (the mismatch must stay of the same nature: same "delivered" status on both sides as the original one, so that a
// stale-value witness does not slip into a failed-request witness while shrinking)
inline std::vector<Op> shrink(const Config& cf, const std::vector<Op>& ops, int last, bool incOk, bool twinOk)
{
  std::vector<Op> cur(ops.begin(), ops.begin() + last);
  const Op fin = ops[last];
  auto fails   = [&](const std::vector<Op>& v) {
    std::vector<Op> t = v;
    t.push_back(fin);
    Outcome m = replay(cf, t, (int)t.size() - 1);
    return m.index == (int)t.size() - 1 && m.incOk == incOk && m.twinOk == twinOk;
  };
  size_t n = 2;
  while (cur.size() >= 2)
  {
    size_t chunk = (cur.size() + n - 1) / n;
    bool reduced = false;
    for (size_t start = 0; start < cur.size(); start += chunk)
    {
      std::vector<Op> compl_;
      for (size_t i = 0; i < cur.size(); i++)
        if (i < start || i >= start + chunk) compl_.push_back(cur[i]);
      if (fails(compl_)) { cur = compl_; n = std::max<size_t>(n - 1, 2); reduced = true; break; }
    }
    if (!reduced)
    {
      if (n >= cur.size()) break;
      n = std::min(cur.size(), 2 * n);
    }
  }
  for (size_t i = 0; i < cur.size();) // final pass: drop single ops
  {
    std::vector<Op> t = cur;
    t.erase(t.begin() + i);
    if (fails(t)) cur = t;
    else i++;
  }
  cur.push_back(fin);
  return cur;
}

// Class of a minimal history (names of the applied operations BEFORE the final getter, failed getters end with '!'):
//  * a getter FAILED after the last setter                    -> half-built-after-failed-request
//  * X was given then removed with setLHS(Sigma,nullptr)      -> setLHS-null-X-keeps-nbfl
//  * collocated option switched off in the history, not on at the end -> setColCokUnique-off-keeps-ranks
//  * otherwise: the last setter of the minimal history (the invalidation edge that did not fire) + the mode
inline std::string classify(const std::vector<std::string>& before, bool colcok, bool xvalid, bool bayes, bool driftRemoved)
{
  std::string pop = before.empty() ? "" : before.back();
  std::string prev = "none";
  bool sawColcokOff = false;
  for (int i = (int)before.size() - 1; i >= 0; i--)
  {
    if (before[i] == "setColCokUnique(off)") sawColcokOff = true;
    if (prev == "none" && before[i].find("set") == 0) prev = before[i];
  }
  // a getter that failed after the last setter (the last such one)
  for (int i = (int)before.size() - 1; i >= 0 && before[i].find("set") != 0; i--)
    if (before[i].back() == '!') { pop = before[i]; break; }
  // Root causes still open in KrigingCalcul.cpp (one key each, whatever getter shows them and however they show:
  // wrong value, delivered-vs-refused, or death of the process):
  if (!pop.empty() && pop.back() == '!') return "half-built-after-failed-request";
  if (driftRemoved) return "setLHS-null-X-keeps-nbfl";
  if (!colcok && sawColcokOff) return "setColCokUnique-off-keeps-ranks";
  std::string k = "stale-after:" + prev;
  if (colcok) k += ":colcok";
  if (xvalid) k += ":xvalid";
  if (bayes) k += ":bayes";
  return k;
}
inline std::vector<std::string> splitComma(const std::string& t)
{
  // op names contain commas inside parentheses: "setLHS(Sigma,X)"
  std::vector<std::string> v;
  std::string cur;
  int depth = 0;
  for (char ch : t)
  {
    if (ch == '(') depth++;
    if (ch == ')') depth--;
    if (ch == ',' && depth == 0) { if (!cur.empty()) v.push_back(cur); cur.clear(); }
    else cur += ch;
  }
  if (!cur.empty()) v.push_back(cur);
  return v;
}

// setLHS(Sigma, X) then setLHS(Sigma, nullptr) ("X == nullptr -> SK"), then setXvalidUnique: a fresh object with this
// content has no drift at all and the incremental one must behave the same. In a child: a stale drift count makes
// _patchRHSForXvalidUnique dereference the null X.
inline void probeXvalidAfterDriftRemoved(Rng& r, Ctx& c)
{
  uint64_t seed = r.next();
  c10::Child ch = c10::run_child([&]() -> std::string {
    Rng q(seed);
    Store S;
    int neq = 5, nbfl = 1, nrhs = 1;
    Content cur;
    cur.Z = S.vec(q, neq); cur.Means = S.vec(q, nrhs); cur.Sigma = S.spd(q, neq, 1.); cur.Sigma00 = S.spd(q, nrhs, 2.); cur.hasVar = true;
    const MatrixRectangular* X = S.rect(q, neq, nbfl, -1, 1, true);
    cur.xvEqs = S.ints({1}); cur.xvVars = S.ints({0}); cur.xvalid = true;
    KrigingCalcul K;
    (void)K.setData(cur.Z, cur.Means);
    (void)K.setLHS(cur.Sigma, X);
    (void)K.setVar(cur.Sigma00);
    (void)K.setLHS(cur.Sigma, nullptr);
    int rc   = K.setXvalidUnique(cur.xvEqs, cur.xvVars);
    Answer a = ask(K, 0);
    KrigingCalcul T;
    applyAll(T, cur);
    Answer b  = ask(T, 0);
    bool same = rc == 0 && a.ok == b.ok && a.v.size() == b.v.size();
    if (same) for (size_t i = 0; i < a.v.size(); i++) same = same && std::fabs(a.v[i] - b.v[i]) <= 1e-9 * (1 + std::fabs(b.v[i]));
    return same ? "OK" : "DIFFERENT";
  });
  c.truth("kcalc-probe", "C10:incremental:KrigingCalcul:setLHS-null-X-keeps-nbfl", ch.ok && ch.data == "OK",
          ch.ok ? ch.data : ch.why());
}

// Collocated option: 1 collocated variable, answers asked (Y0p, Lambda0, Stdv are memoised), then 2 collocated
// variables. A fresh object with the final content is the reference. In a child: a memo kept with the old number of
// rows is read out of bounds.
inline void probeColCokCountChange(Rng& r, Ctx& c)
{
  uint64_t seed = r.next();
  c10::Child ch = c10::run_child([&]() -> std::string {
    Rng q(seed);
    Store S;
    int neq = 6, nbfl = 1, nrhs = 3;
    Content cur;
    cur.Z = S.vec(q, neq); cur.Means = S.vec(q, nrhs); cur.Sigma = S.spd(q, neq, 1.); cur.X = S.rect(q, neq, nbfl, -1, 1, true);
    cur.Sigma0 = S.rect(q, neq, nrhs, -0.6, 0.6); cur.X0 = S.rect(q, nrhs, nbfl, -1, 1, true); cur.hasRHS = true;
    cur.Sigma00 = S.spd(q, nrhs, 2.); cur.hasVar = true;
    cur.Zp = S.vec(q, nrhs, -1, 1); cur.rankColCok = S.ints({1}); cur.colcok = true;
    KrigingCalcul K;
    applyAll(K, cur);
    (void)ask(K, 1); (void)ask(K, 11); (void)ask(K, 7);
    cur.rankColCok = S.ints({0, 2});
    (void)K.setColCokUnique(cur.Zp, cur.rankColCok);
    std::string res = "OK";
    for (int g : {11, 7, 0, 1})
    {
      Answer a = ask(K, g);
      KrigingCalcul T;
      applyAll(T, cur);
      Answer b  = ask(T, g);
      bool same = a.ok == b.ok && a.v.size() == b.v.size();
      if (same) for (size_t i = 0; i < a.v.size(); i++) same = same && std::fabs(a.v[i] - b.v[i]) <= 1e-9 * (1 + std::fabs(b.v[i]));
      if (!same) { res = std::string("DIFFERENT ") + GETTERS[g]; break; }
    }
    return res;
  });
  c.truth("kcalc-probe", "C10:incremental:KrigingCalcul:setColCokUnique:changing-number-of-collocated-variables", ch.ok && ch.data == "OK",
          ch.ok ? ch.data : ch.why());
}

// Collocated option switched on, then off with setColCokUnique(nullptr, nullptr): a fresh object with the final
// content refuses the collocated getters (no ranks); the incremental one must do the same.
inline void probeColCokOff(Rng& r, Ctx& c)
{
  uint64_t seed = r.next();
  c10::Child ch = c10::run_child([&]() -> std::string {
    Rng q(seed);
    Store S;
    int neq = 5, nbfl = 1, nrhs = 2;
    Content cur;
    cur.Z = S.vec(q, neq); cur.Means = S.vec(q, nrhs); cur.Sigma = S.spd(q, neq, 1.); cur.X = S.rect(q, neq, nbfl, -1, 1, true);
    cur.Sigma0 = S.rect(q, neq, nrhs, -0.6, 0.6); cur.X0 = S.rect(q, nrhs, nbfl, -1, 1, true); cur.hasRHS = true;
    cur.Sigma00 = S.spd(q, nrhs, 2.); cur.hasVar = true;
    cur.Zp = S.vec(q, nrhs, -1, 1); cur.rankColCok = S.ints({1}); cur.colcok = true;
    KrigingCalcul K;
    applyAll(K, cur);
    (void)K.setColCokUnique(nullptr, nullptr);
    cur.colcok = false;
    std::string res = "OK";
    for (int g : {12, 10, 0, 1})
    {
      Answer a = ask(K, g);
      KrigingCalcul T;
      applyAll(T, cur);
      Answer b  = ask(T, g);
      bool same = a.ok == b.ok && a.v.size() == b.v.size();
      if (same) for (size_t i = 0; i < a.v.size(); i++) same = same && std::fabs(a.v[i] - b.v[i]) <= 1e-9 * (1 + std::fabs(b.v[i]));
      if (!same) { res = std::string("DIFFERENT ") + GETTERS[g] + fmt(" delivered incremental=%d fresh=%d", a.ok, b.ok); break; }
    }
    return res;
  });
  c.truth("kcalc-probe", "C10:incremental:KrigingCalcul:setColCokUnique-off-keeps-ranks", ch.ok && ch.data == "OK", ch.ok ? ch.data : ch.why());
}

inline void run(Rng& r, Ctx& c)
{
  Config cf;
  cf.neq  = r.irange(3, 9);
  cf.nbfl = r.coin(0.35) ? 0 : r.irange(1, 2);
  cf.nrhs = r.irange(1, 3);
  cf.dual = r.coin(0.12);
  // modes are drawn per history so that every mode is exercised deeply
  cf.allowBayes  = cf.nbfl > 0 && !cf.dual && r.coin(0.35);
  cf.allowColCok = cf.nrhs >= 2 && !cf.dual && !cf.allowBayes && r.coin(0.5);
  cf.allowXvalid = !cf.allowBayes && !cf.allowColCok && !cf.dual && r.coin(0.35);
  cf.ncck        = cf.nrhs >= 2 ? r.irange(1, cf.nrhs - 1) : 1;
  c.setSig(fmt("inc:kcalc:nbfl=%d:nrhs=%d:dual=%d:bayes=%d:colcok=%d:xvalid=%d", cf.nbfl > 0, cf.nrhs > 1, cf.dual, cf.allowBayes,
               cf.allowColCok, cf.allowXvalid));
  if (r.coin(0.05)) probeXvalidAfterDriftRemoved(r, c);
  if (r.coin(0.03)) probeColCokCountChange(r, c);
  if (r.coin(0.05)) probeColCokOff(r, c);

  // ---- history
  std::vector<Op> ops;
  {
    std::vector<int> first = {SETDATA, SETLHS, SETRHS, SETVAR};
    r.shuffle(first);
    int nset = r.coin(0.25) ? 3 : 4; // sometimes one element is missing for a while: getters fail, then work once it is set
    for (int q = 0; q < nset; q++) ops.push_back({first[q], r.next(), 1});
  }
  int nsteps = c.thorough() ? r.irange(15, 60) : r.irange(8, 30);
  for (int st = 0; st < nsteps; st++)
  {
    if (r.coin(0.55)) { ops.push_back({GETTER, 0, r.irange(0, NGETTERS - 1)}); continue; }
    int w = r.irange(0, 11);
    int kind, arg = 1;
    if (w <= 1) { kind = SETDATA; arg = r.coin(0.3); }
    else if (w <= 3) { kind = SETLHS; arg = !r.coin(0.15); }
    else if (w <= 5) kind = SETRHS;
    else if (w <= 7) kind = SETVAR;
    else if (w == 8) { kind = SETBAYES; arg = !r.coin(0.25); }
    else if (w == 9) { kind = SETCOLCOK; arg = !r.coin(0.25); }
    else if (w == 10) kind = SETXVALID;
    else kind = SETLHS_XVALID;
    ops.push_back({kind, r.next(), arg});
  }

  // ---- run in a child (a stale or half-built memo of the wrong size ends in an out-of-bounds read): every getter is
  // compared with its twin; the first mismatches are shrunk and reported; oracle evaluations are streamed to the parent
  auto send = [](const c10::Rec& e) { std::string p = c10::packRecs({e}); p.back() = '\n'; c10::progress("R" + p); };
  c10::Child ch = c10::run_child([&]() -> std::string {
    std::string trace;
    Outcome oc = replay(cf, ops, 0, &trace, true);
    send({"kcalc-setter", "C10:incremental:KrigingCalcul:valid-setter-refused",
          oc.setterRefused >= 0 ? opName(ops[oc.setterRefused]) + " in " + trace : "", oc.setterRefused < 0});
    int reported = 0;
    for (;;)
    {
      if (oc.passed > 0) send({"kcalc-twin", "-", fmt("%ld %ld", oc.passed, oc.delivered), true, oc.maxRatio * 1e-9, 1e-9});
      if (oc.index < 0 || reported >= 3) break;
      c10::progress("M" + std::to_string(oc.index) + "\n");
      std::vector<Op> w = shrink(cf, ops, oc.index, oc.incOk, oc.twinOk);
      std::string wtrace;
      Outcome wm = replay(cf, w, (int)w.size() - 1, &wtrace);
      c10::progress("D\n");
      std::vector<std::string> before = splitComma(wtrace);
      if (!before.empty()) before.pop_back(); // the final getter
      std::string key = "C10:incremental:KrigingCalcul:" + classify(before, wm.colcok, wm.xvalid, wm.bayes, wm.driftRemoved);
      if (cf.dual && key.find(":stale-after:") != std::string::npos) key += ":dual";
      send({"kcalc-twin", key,
            std::string(GETTERS[w.back().arg]) + fmt(": delivered incremental=%d fresh=%d, sizes %zu/%zu; minimal history: ", wm.incOk, wm.twinOk, wm.incN, wm.twinN) + wtrace, false,
            wm.err, wm.tol});
      reported++;
      oc = replay(cf, ops, oc.index + 1); // resume the comparisons after the reported getter
    }
    return "END " + trace;
  });
  // ---- parent: relay the evaluations; attribute a death to the operation that was running
  int lastOp = -1, prevOp = -1, shrinking = -1;
  bool prevFailed = false, lastFailed = false;
  {
    size_t p = 0;
    const std::string& pr = ch.progress;
    while (p < pr.size())
    {
      size_t e = pr.find('\n', p);
      if (e == std::string::npos) break;
      std::string line = pr.substr(p, e - p);
      p = e + 1;
      if (line.empty()) continue;
      if (line[0] == '@') { prevOp = lastOp; prevFailed = lastFailed; lastOp = atoi(line.c_str() + 1); lastFailed = false; }
      else if (line == "=fail") lastFailed = true;
      else if (line[0] == 'M') shrinking = atoi(line.c_str() + 1);
      else if (line == "D") shrinking = -1;
      else if (line[0] == 'R')
      {
        for (auto& e2 : c10::unpackRecs(line.substr(1) + "\x1e"))
        {
          if (e2.key == "-")
          {
            long np = 0, nd = 0;
            sscanf(e2.detail.c_str(), "%ld %ld", &np, &nd);
            for (long i = 0; i < np; i++) c.check("kcalc-twin", "-", true, i == 0 ? e2.err : 0., e2.tol);
            for (long i = 0; i < nd; i++) c.probe("kcalc-delivered");
          }
          else c.check(e2.oracle, e2.key, e2.ok, e2.err, e2.tol, e2.detail);
        }
      }
    }
  }
  if (ch.ok) { c.puts("history", ch.data.substr(0, 600)); return; }
  std::string key = "C10:incremental:KrigingCalcul:process-dies:";
  std::string what;
  if (lastOp < 0 && shrinking < 0) key += "startup";
  else
  {
    // The process died inside ops[lastOp] (main pass), or while the child was shrinking the mismatch at ops[shrinking]
    // (a sub-history was deadly). Shrink here, one child per trial: a trial is "bad" when the child dies (or, in the
    // second case, when the final getter still mismatches); then classify the minimal history like a mismatch.
    bool fromShrink = shrinking >= 0;
    int last        = fromShrink ? shrinking : lastOp;
    std::vector<Op> cur(ops.begin(), ops.begin() + last);
    const Op fin = ops[last];
    c10::Child lastBad = ch;
    bool minimalDies   = true;
    auto bad = [&](const std::vector<Op>& v) {
      std::vector<Op> t = v;
      t.push_back(fin);
      c10::Child k = c10::run_child([&]() -> std::string {
        Outcome o = replay(cf, t, fromShrink ? (int)t.size() - 1 : (int)t.size(), nullptr, true);
        return o.index >= 0 ? "M" : "OK";
      });
      bool isBad = !k.ok || k.data == "M";
      if (isBad) { lastBad = k; minimalDies = !k.ok; }
      return isBad;
    };
    size_t n = 2;
    int trials = 0;
    while (cur.size() >= 2 && trials < 80)
    {
      size_t chunk = (cur.size() + n - 1) / n;
      bool reduced = false;
      for (size_t start = 0; start < cur.size(); start += chunk)
      {
        std::vector<Op> t;
        for (size_t i = 0; i < cur.size(); i++)
          if (i < start || i >= start + chunk) t.push_back(cur[i]);
        trials++;
        if (bad(t)) { cur = t; n = std::max<size_t>(n - 1, 2); reduced = true; break; }
      }
      if (!reduced)
      {
        if (n >= cur.size()) break;
        n = std::min(cur.size(), 2 * n);
      }
    }
    (void)bad(cur); // progress of the minimal history
    std::vector<std::string> before;
    bool f[4] = {false, false, false, false};
    {
      size_t p = 0;
      const std::string& pr = lastBad.progress;
      while (p < pr.size())
      {
        size_t e = pr.find('\n', p);
        if (e == std::string::npos) break;
        std::string line = pr.substr(p, e - p);
        p = e + 1;
        if (line.size() > 1 && line[0] == 't') before.push_back(line.substr(1));
        if (line.size() == 5 && line[0] == 'S') for (int q = 0; q < 4; q++) f[q] = line[1 + q] == '1';
      }
    }
    if (!minimalDies && !before.empty()) before.pop_back(); // the final getter returned: its name is the last 't' line
    if (!minimalDies) key = "C10:incremental:KrigingCalcul:";
    {
      std::string cls = classify(before, f[0], f[1], f[2], f[3]);
      // a death is one more face of the same root cause: same key; only an unexplained death keeps "process-dies:"
      if (!minimalDies || cls.find("stale-after:") != 0) key = "C10:incremental:KrigingCalcul:";
      key += cls;
      if (cf.dual && cls.find("stale-after:") == 0) key += ":dual";
    }
    what = std::string(minimalDies ? "dies in " : "mismatch of ") + opName(fin) + " after minimal history ";
    for (auto& b : before) what += b + ",";
  }
  c.truth("kcalc-survives", key, false, what + ": child " + ch.why());
}
} // namespace c10k
