// Independent reference for (co)kriging: the "small sequential model" of C01 / C02.
//
// The kriging equations of doc/references/Kriging.md
//        [ Sigma  X ] [ lambda ]   [ Sigma0 ]
//        [ X^t    0 ] [  -mu   ] = [ X0^t   ]
// are assembled here from POINTWISE evaluations of the model's public covariance function between two
// locations (Model::eval(SpacePoint, SpacePoint, ivar, jvar)) and from drift functions evaluated by this file
// itself (monomials of the coordinates, external-drift values read from the data), with
//   * per-(sample, variable) definedness handled here (heterotopic cokriging),
//   * measurement-error variances (ELoc::V) added on the diagonal,
//   * block targets as plain averages over the discretisation points,
// and solved by ref::LU in long double. Nothing of the library's matrix builders (evalCovMatrix*, evalDriftMatrix,
// KrigingSystem, KrigingCalcul, ...) is used.
//
// Equation order (only a labelling, chosen so that rows can be compared 1:1 with KrigingSystem::getWeights()):
// data equations variable-major (for ivar { for sample in neighbourhood order }), undefined (sample, variable)
// pairs dropped, then drift equations ib = ivar * nbfl + il.
#pragma once
#include "ref_linalg.hpp"
#include <cmath>
#include <functional>
#include <limits>
#include <vector>

#include "Model/Model.hpp"
#include "Space/SpacePoint.hpp"

namespace refk
{
using ref::LD;
using ref::Mat;

inline bool defined(double v) { return !std::isnan(v); }
static const double UNDEF = std::numeric_limits<double>::quiet_NaN();

// One drift function: a monomial prod_d x_d^pw[d], or the external drift number fex (>= 0).
struct DriftFn
{
  std::vector<int> pw;
  int fex = -1;
};

// Basis of the polynomial drift of the given order (all monomials of total degree <= order; order < 0: none),
// followed by nfex external drifts. Any basis of the same function space gives the same kriging weights.
inline std::vector<DriftFn> driftBasis(int ndim, int order, int nfex)
{
  std::vector<DriftFn> b;
  if (order >= 0)
  {
    DriftFn one;
    one.pw.assign(ndim, 0);
    b.push_back(one);
  }
  if (order >= 1)
    for (int i = 0; i < ndim; i++)
    {
      DriftFn f;
      f.pw.assign(ndim, 0);
      f.pw[i] = 1;
      b.push_back(f);
    }
  if (order >= 2)
    for (int i = 0; i < ndim; i++)
      for (int j = i; j < ndim; j++)
      {
        DriftFn f;
        f.pw.assign(ndim, 0);
        f.pw[i] += 1;
        f.pw[j] += 1;
        b.push_back(f);
      }
  for (int k = 0; k < nfex; k++)
  {
    DriftFn f;
    f.fex = k;
    b.push_back(f);
  }
  return b;
}

inline LD evalDrift(const DriftFn& f, const std::vector<double>& x, const std::vector<double>& fext)
{
  if (f.fex >= 0) return fext[f.fex];
  LD v = 1;
  for (size_t d = 0; d < f.pw.size(); d++)
    for (int k = 0; k < f.pw[d]; k++) v *= (LD)x[d];
  return v;
}

// Covariance between variable iv at a and variable jv at b.
using CovFn = std::function<double(const std::vector<double>&, const std::vector<double>&, int, int)>;

// The model's public pointwise covariance function (all structures, default calculation mode).
inline CovFn covOfModel(const Model* model)
{
  return [model](const std::vector<double>& a, const std::vector<double>& b, int iv, int jv) -> double {
    SpacePoint p1{VectorDouble(a)};
    SpacePoint p2{VectorDouble(b)};
    return model->eval(p1, p2, iv, jv, nullptr);
  };
}

struct Data
{
  int ndim = 0, nvar = 0, nfex = 0;
  std::vector<std::vector<double>> x; // [n][ndim]
  std::vector<std::vector<double>> z; // [n][nvar]   NaN = undefined
  std::vector<std::vector<double>> v; // [n][nvar]   measurement-error variance (empty: none; NaN or <= 0: none)
  std::vector<std::vector<double>> f; // [n][nfex]   external drifts (NaN = undefined -> sample unusable)
  int n() const { return (int)x.size(); }
};

struct Target
{
  std::vector<double> x;                  // centre
  std::vector<double> f;                  // external drift values at the target
  std::vector<std::vector<double>> disc1; // block: offsets of the discretisation points (empty: point target)
  std::vector<std::vector<double>> disc2; // block: second set of offsets used for the block variance C(v,v)
  bool block() const { return !disc1.empty(); }
};

struct Setup
{
  CovFn cov;
  std::vector<DriftFn> drifts; // nbfl functions, shared by all variables (no linked drift)
  std::vector<double> means;   // known means (used only when drifts is empty)
  // absolute uncertainty of one covariance evaluation by the library, in units of machine epsilon (the library's
  // optimised path rotates / scales each location before differencing: error ~ eps |x| / range times the slope);
  // only used to size the magnitudes below, never the reference values
  double covErr = 0.;
};

struct Sol
{
  bool ok = false;       // system factorised (non-singular to working precision)
  LD cond = INFINITY;    // 1-norm condition number of the full system matrix
  int nred = 0, ndata = 0, ndrift = 0, nvar = 0;
  std::vector<int> eqS, eqV;       // data equation -> (position in the neighbourhood list, variable)
  Mat A, Ainv;                     // system matrix and its inverse
  Mat B, W;                        // right-hand sides / solutions, nred x nvar (rows ndata.. = -mu)
  std::vector<LD> dual;            // A^-1 [z - m ; 0]
  std::vector<LD> est, var, varz, c00; // per target variable
  // magnitudes of the sums behind each quantity (sum of |terms|), used to scale tolerances:
  //   Tw(r,jv)  = sum_a |Ainv(r,a)| (|B(a,jv)| + covErr)         for the weight W(r,jv)
  //   Dmag(r)   = sum_b |Ainv(r,b)| (|z_b| + |m|)                 for the dual vector
  //   estMag    = |m| + sum_a (|B(a,jv)| + covErr) Dmag(a)
  //   varMag    = |C00| + covErr + sum_a (|B(a,jv)| + covErr) Tw(a,jv)
  Mat Tw;
  // full matrices over the target variables (used for linear combinations of variables, option matLC):
  //   C00f(j,j') = Cov(Z_j(x0), Z_j'(x0)),  E(j,j') = Cov of the estimation errors,  VZ(j,j') = Cov(Z*_j, Z*_j')
  Mat C00f, E, VZ;
  std::vector<LD> Dmag, zmag;
  std::vector<LD> estMag, varMag, wMag;
};

// The system that depends only on the neighbourhood: matrix, factorisation, inverse, dual vector.
struct System
{
  const Data* d = nullptr;
  const Setup* s = nullptr;
  std::vector<int> nbgh;
  Sol base;

  System(const Data& data, const Setup& setup, const std::vector<int>& nb) : d(&data), s(&setup), nbgh(nb)
  {
    const int nvar = d->nvar, nbfl = (int)s->drifts.size();
    Sol& o = base;
    o.nvar = nvar;
    // definedness per (sample, variable): coordinates, value, every external drift
    for (int iv = 0; iv < nvar; iv++)
      for (int k = 0; k < (int)nbgh.size(); k++)
      {
        int i  = nbgh[k];
        bool u = defined(d->z[i][iv]);
        for (double c : d->x[i]) u = u && defined(c);
        for (int e = 0; e < d->nfex; e++) u = u && defined(d->f[i][e]);
        if (!u) continue;
        o.eqS.push_back(k);
        o.eqV.push_back(iv);
      }
    o.ndata  = (int)o.eqS.size();
    o.ndrift = nvar * nbfl;
    o.nred   = o.ndata + o.ndrift;
    if (o.ndata == 0) return;
    o.A = Mat(o.nred, o.nred);
    for (int a = 0; a < o.ndata; a++)
    {
      int ia = nbgh[o.eqS[a]], va = o.eqV[a];
      for (int b = 0; b <= a; b++)
      {
        int ib = nbgh[o.eqS[b]], vb = o.eqV[b];
        LD c = s->cov(d->x[ia], d->x[ib], va, vb);
        if (a == b && !d->v.empty())
        {
          double ve = d->v[ia][va];
          if (defined(ve) && ve > 0) c += ve;
        }
        o.A(a, b) = c;
        o.A(b, a) = c;
      }
      for (int il = 0; il < nbfl; il++)
      {
        int col       = o.ndata + va * nbfl + il;
        LD fv         = evalDrift(s->drifts[il], d->x[ia], d->f.empty() ? std::vector<double>() : d->f[ia]);
        o.A(a, col)   = fv;
        o.A(col, a)   = fv;
      }
    }
    ref::LU lu(o.A);
    if (!lu.ok) return;
    o.Ainv = lu.inverse();
    o.cond = lu.anorm * o.Ainv.norm1();
    if (!std::isfinite((double)o.cond)) return;
    o.ok = true;
    // dual vector
    std::vector<LD> zc(o.nred, 0);
    o.zmag.assign(o.nred, 0);
    for (int a = 0; a < o.ndata; a++)
    {
      LD m      = nbfl > 0 ? 0 : (LD)s->means[o.eqV[a]];
      LD zz     = (LD)d->z[nbgh[o.eqS[a]]][o.eqV[a]];
      zc[a]     = zz - m;
      o.zmag[a] = std::fabs(zz) + std::fabs(m);
    }
    o.dual = ref::mulv(o.Ainv, zc);
    o.Dmag.assign(o.nred, 0);
    for (int r = 0; r < o.nred; r++)
      for (int b = 0; b < o.ndata; b++) o.Dmag[r] += std::fabs(o.Ainv(r, b)) * o.zmag[b];
    // floor: never below the largest entry of the same block (data rows / Lagrange rows); matters when the inverse
    // has an (almost) zero block, e.g. as many data as drift equations
    {
      LD m1 = 0, m2 = 0;
      for (int r = 0; r < o.nred; r++) (r < o.ndata ? m1 : m2) = std::max(r < o.ndata ? m1 : m2, std::fabs(o.dual[r]));
      for (int r = 0; r < o.nred; r++) o.Dmag[r] = std::max(o.Dmag[r], r < o.ndata ? m1 : m2);
      // an inversion error is normwise: a zero block of the inverse is only zero to eps kappa |row|
      LD zmax = 0;
      for (int b = 0; b < o.ndata; b++) zmax = std::max(zmax, o.zmag[b]);
      for (int r = 0; r < o.nred; r++)
      {
        LD rowmax = 0;
        for (int b = 0; b < o.nred; b++) rowmax = std::max(rowmax, std::fabs(o.Ainv(r, b)));
        o.Dmag[r] = std::max(o.Dmag[r], rowmax * zmax);
      }
    }
  }

  // Solve for one target. Returns a copy of the base solution completed with B, W, est, var, varz.
  Sol solve(const Target& t) const
  {
    Sol o = base;
    if (!o.ok) return o;
    const int nvar = d->nvar, nbfl = (int)s->drifts.size();
    o.B = Mat(o.nred, nvar);
    std::vector<double> p(d->ndim);
    for (int a = 0; a < o.ndata; a++)
    {
      int ia = nbgh[o.eqS[a]], va = o.eqV[a];
      for (int jv = 0; jv < nvar; jv++)
      {
        LD c = 0;
        if (!t.block())
          c = s->cov(d->x[ia], t.x, va, jv);
        else
        {
          for (const auto& off : t.disc1)
          {
            for (int k = 0; k < d->ndim; k++) p[k] = t.x[k] + off[k];
            c += (LD)s->cov(d->x[ia], p, va, jv);
          }
          c /= (LD)t.disc1.size();
        }
        o.B(a, jv) = c;
      }
    }
    for (int jv = 0; jv < nvar; jv++)
      for (int il = 0; il < nbfl; il++) o.B(o.ndata + jv * nbfl + il, jv) = evalDrift(s->drifts[il], t.x, t.f);
    o.W  = ref::mul(o.Ainv, o.B);
    o.Tw = Mat(o.nred, nvar);
    const LD ce = (LD)s->covErr;
    for (int r = 0; r < o.nred; r++)
      for (int jv = 0; jv < nvar; jv++)
      {
        LD t = 0;
        for (int a = 0; a < o.nred; a++) t += std::fabs(o.Ainv(r, a)) * (std::fabs(o.B(a, jv)) + (a < o.ndata ? ce : 0));
        o.Tw(r, jv) = t;
      }
    for (int jv = 0; jv < nvar; jv++)
    {
      LD m1 = 0, m2 = 0;
      for (int r = 0; r < o.nred; r++) (r < o.ndata ? m1 : m2) = std::max(r < o.ndata ? m1 : m2, std::fabs(o.W(r, jv)));
      for (int r = 0; r < o.nred; r++) o.Tw(r, jv) = std::max(o.Tw(r, jv), r < o.ndata ? m1 : m2);
    }
    // target variance
    o.c00.assign(nvar, 0);
    for (int jv = 0; jv < nvar; jv++)
    {
      if (!t.block())
        o.c00[jv] = s->cov(t.x, t.x, jv, jv);
      else
      {
        LD c = 0;
        std::vector<double> q(d->ndim);
        for (const auto& o1 : t.disc1)
          for (const auto& o2 : t.disc2)
          {
            // the covariances used are stationary (or intrinsic): only the increment matters, as in the library
            for (int k = 0; k < d->ndim; k++) { p[k] = o1[k]; q[k] = o2[k]; }
            c += (LD)s->cov(p, q, jv, jv);
          }
        o.c00[jv] = c / (LD)(t.disc1.size() * t.disc2.size());
      }
    }
    o.C00f = Mat(nvar, nvar);
    for (int jv = 0; jv < nvar; jv++)
      for (int kv = 0; kv < nvar; kv++)
      {
        if (!t.block())
          o.C00f(jv, kv) = s->cov(t.x, t.x, jv, kv);
        else
        {
          LD c = 0;
          std::vector<double> q(d->ndim);
          for (const auto& o1 : t.disc1)
            for (const auto& o2 : t.disc2)
            {
              for (int k = 0; k < d->ndim; k++) { p[k] = o1[k]; q[k] = o2[k]; }
              c += (LD)s->cov(p, q, jv, kv);
            }
          o.C00f(jv, kv) = c / (LD)(t.disc1.size() * t.disc2.size());
        }
      }
    o.E  = Mat(nvar, nvar);
    o.VZ = Mat(nvar, nvar);
    for (int jv = 0; jv < nvar; jv++)
      for (int kv = 0; kv < nvar; kv++)
      {
        LD e = o.C00f(jv, kv), vz = 0;
        for (int a = 0; a < o.nred; a++) e -= o.W(a, jv) * o.B(a, kv);
        for (int a = 0; a < o.ndata; a++)
        {
          LD rr = 0;
          for (int b = 0; b < o.ndata; b++) rr += o.A(a, b) * o.W(b, kv);
          vz += o.W(a, jv) * rr;
        }
        o.E(jv, kv)  = e;
        o.VZ(jv, kv) = vz;
      }
    o.est.assign(nvar, 0);
    o.var.assign(nvar, 0);
    o.varz.assign(nvar, 0);
    o.estMag.assign(nvar, 0);
    o.varMag.assign(nvar, 0);
    o.wMag.assign(nvar, 0);
    for (int jv = 0; jv < nvar; jv++)
    {
      LD m = nbfl > 0 ? 0 : (LD)s->means[jv];
      LD e = m, emag = std::fabs(m);
      for (int a = 0; a < o.ndata; a++)
      {
        LD m2 = nbfl > 0 ? 0 : (LD)s->means[o.eqV[a]];
        LD zz = (LD)d->z[nbgh[o.eqS[a]]][o.eqV[a]] - m2;
        e += o.W(a, jv) * zz;
      }
      for (int a = 0; a < o.nred; a++) emag += (std::fabs(o.B(a, jv)) + (a < o.ndata ? ce : 0)) * o.Dmag[a];
      o.est[jv]    = e;
      o.estMag[jv] = emag;
      // estimation variance from its definition  C00 - 2 lambda.Sigma0 + lambda^t Sigma lambda  (valid for any
      // weights that satisfy the universality conditions), and Var(Z*) = lambda^t Sigma lambda
      LD lsl = 0, ls0 = 0, mag = std::fabs(o.c00[jv]) + ce, wm = 0;
      for (int a = 0; a < o.ndata; a++)
      {
        LD r = 0;
        for (int b = 0; b < o.ndata; b++) r += o.A(a, b) * o.W(b, jv);
        lsl += o.W(a, jv) * r;
        ls0 += o.W(a, jv) * o.B(a, jv);
      }
      for (int a = 0; a < o.nred; a++)
      {
        wm = std::max(wm, std::fabs(o.W(a, jv)));
        mag += (std::fabs(o.B(a, jv)) + (a < o.ndata ? ce : 0)) * o.Tw(a, jv);
      }
      o.var[jv]    = o.c00[jv] - 2 * ls0 + lsl;
      o.varz[jv]   = lsl;
      o.varMag[jv] = mag;
      o.wMag[jv]   = wm;
    }
    return o;
  }
};
} // namespace refk
